(* .properties: from a well-shaped entry list (every entity / standalone comment directly
   followed by one whitespace entry that starts with a newline, two newlines after a
   comment; no two adjacent whitespace entries; every entry the text of a legal block
   part) to a legal block list with the same text — so that the block theorem of C02
   (blocks_properties) gives the re-parse. *)
From Coq Require Import ZArith NArith List Bool Arith Lia.
From CL Require Import Base.Sx Base.Res Base.Str Model.Entry Model.Parse Model.ParseFormats
                       Proofs.C02Roundtrip Proofs.C02BlocksRx Proofs.C02BlocksVal Proofs.C02Blocks
                       Model.Channels Proofs.ChannelsProofs Proofs.MergeShapeKeys Proofs.MergeShape
                       Proofs.SerializerProofs.
Import ListNotations.
Local Open Scope nat_scope.

Local Arguments vraw : simpl never.
Local Arguments ctext : simpl never.

(* ---- the entries of a block list, as merge.py sees them ------------------------------------ *)
Definition ent_pre (cs : list cline) (key b1 : str) (sc : N) (b2 : str) : str :=
  ctext cs ++ key ++ b1 ++ sc :: b2.
Definition ent_centry cs key b1 sc b2 conts lastl : centry :=
  mkc CEntity key (ent_pre cs key b1 sc b2 ++ vraw conts lastl) (vraw conts lastl) 0.
Definition com_centry (cs : list cline) : centry :=
  mkc CComment (comment_val (COffset 1) (cbody cs)) (cbody cs) [] 0.
Definition ws_centry (w : str) : centry := mkc CWhite [] w [] 0.
Definition cflush (w : str) : list centry := match w with [] => [] | _ => [ws_centry w] end.

(* [w]: the whitespace pending (the newline that ended the previous line and the blank
   blocks since): it becomes ONE whitespace entry *)
Fixpoint cents (w : str) (bs : list block) : list centry :=
  match bs with
  | [] => cflush w
  | BBlank x :: rest => cents (w ++ x) rest
  | BComment cs :: rest => cflush w ++ com_centry cs :: cents [10%N] rest
  | BEntity cs key b1 sc b2 conts lastl nl :: rest =>
      cflush w ++ ent_centry cs key b1 sc b2 conts lastl :: cents (eol nl) rest
  end.
Definition centries_of (bs : list block) : list centry := cents [] bs.

Lemma cflush_text w : concat (map c_text (cflush w)) = w.
Proof. destruct w; cbn; [reflexivity|rewrite app_nil_r; reflexivity]. Qed.

Lemma cents_text bs : Forall legal_block bs ->
  forall w, concat (map c_text (cents w bs)) = w ++ file_text bs.
Proof.
  induction 1 as [|b rest Hb _ IH]; intros w; cbn [cents].
  - rewrite cflush_text. cbn. rewrite app_nil_r. reflexivity.
  - rewrite file_text_cons. destruct b as [x|cs|cs key b1 sc b2 conts lastl nl].
    + rewrite IH. cbn [text]. rewrite app_assoc. reflexivity.
    + rewrite map_app, concat_app, cflush_text. cbn [map concat c_text com_centry]. rewrite IH.
      cbn [text]. unfold legal_block in Hb. cbn in Hb. destruct cs as [|c cs']; [discriminate|].
      rewrite (ctext_body (c :: cs')) by discriminate. rewrite <- !app_assoc. reflexivity.
    + rewrite map_app, concat_app, cflush_text. cbn [map concat c_text ent_centry]. rewrite IH.
      cbn [text]. unfold ent_pre. rewrite <- !app_assoc. cbn [app]. rewrite <- !app_assoc. reflexivity.
Qed.

Theorem centries_text bs : Forall legal_block bs ->
  concat (map c_text (centries_of bs)) = file_text bs.
Proof. intros H. apply (cents_text bs H []). Qed.

(* ---- what an entry must be to go back into a block ------------------------------------------- *)
Section Dec.
Variable m : nat.

Definition license_free (cs : list cline) : Prop :=
  contains s_License (comment_val (COffset 1) (cbody cs)) = false.

Definition two_nl (w : str) : Prop := exists w', w = 10%N :: w' /\ mem 10%N w' = true.

Inductive dec : centry -> Prop :=
| dec_ent e cs key b1 sc b2 conts lastl :
    legal_blockb (BEntity cs key b1 sc b2 conts lastl true) = true -> license_free cs ->
    strip e = strip (ent_centry cs key b1 sc b2 conts lastl) -> dec e
| dec_com e cs :
    cs <> [] -> forallb legal_cline cs = true -> strip e = strip (com_centry cs) -> dec e
| dec_ws e w' :
    strip e = strip (ws_centry (10%N :: w')) -> forallb (fun c => mem c WS) w' = true ->
    (m <= length (c_text e) -> mem 10%N w' = true) -> dec e.

Lemma dec_strip e e' : strip e = strip e' -> dec e -> dec e'.
Proof.
  intros Hs H. destruct H as [e cs key b1 sc b2 conts lastl H1 H2 H3|e cs H1 H2 H3|e w' H1 H2 H3].
  - eapply dec_ent; eauto. congruence.
  - eapply dec_com; eauto. congruence.
  - apply (dec_ws e' w'); [congruence|exact H2|].
    unfold strip in Hs. injection Hs as K1 K2 K3 K4. rewrite <- K3. exact H3.
Qed.

(* key and raw value of the entities *)
Definition krec (e : centry) : list (str * str) :=
  match c_kind e with CEntity => [(c_key e, c_val e)] | _ => [] end.
Definition krecs (l : list centry) : list (str * str) := flat_map krec l.
Definition brecs (bs : list block) : list (str * str) :=
  map (fun r => (fst (fst r), snd (fst r))) (records_of bs).

(* the texts of the standalone comments *)
Definition ccoms (l : list centry) : list str := map c_text (filter is_comment l).

Lemma strip_fields e e' : strip e = strip e' ->
  c_kind e = c_kind e' /\ c_key e = c_key e' /\ c_text e = c_text e' /\ c_val e = c_val e'.
Proof. unfold strip. intros H. injection H. auto. Qed.

Lemma ws_legal w' : forallb (fun c => mem c WS) w' = true ->
  legal_blockb (BBlank (10%N :: w')) = true.
Proof. intros H. unfold legal_blockb. cbn [forallb is_nil negb]. rewrite H. reflexivity. Qed.

(* pending whitespace joins a leading whitespace entry *)
Definition join (w : str) (out : list centry) : list centry :=
  match out with
  | e0 :: t => if is_white e0 then ws_centry (w ++ c_text e0) :: t else cflush w ++ out
  | [] => cflush w
  end.

Lemma join_nonws w out : match out with e0 :: _ => is_white e0 = false | [] => True end ->
  join w out = cflush w ++ out.
Proof. destruct out as [|e0 t]; cbn; [rewrite app_nil_r; reflexivity|]. intros ->. reflexivity. Qed.

Lemma noadj_after_ws e out : noadj (e :: out) -> is_white e = true ->
  match out with e0 :: _ => is_white e0 = false | [] => True end.
Proof. destruct out as [|y t]; cbn; [auto|]. intros [[H|H] _] He; congruence. Qed.

Lemma cents_blank_opt w w' bs :
  cents w (match w' with [] => bs | _ :: _ => BBlank w' :: bs end) = cents (w ++ w') bs.
Proof. destruct w'; cbn [cents]; [rewrite app_nil_r|]; reflexivity. Qed.

(* the reconstruction *)
Lemma shape_blocks_n n : forall out, length out <= n ->
  nf m out -> noadj out -> Forall dec out ->
  exists bs, Forall legal_block bs /\ separatedb bs = true /\ license_okb bs = true /\
             file_text bs = concat (map c_text out) /\ brecs bs = krecs out /\
             comments_of bs = ccoms out /\
             (forall w, map strip (cents w bs) = map strip (join w out)).
Proof.
  induction n as [|n IH]; intros out Hlen Hnf Hna Hdec.
  - destruct out; [|cbn in Hlen; lia]. exists []. repeat split; constructor.
  - destruct out as [|x out']; [exists []; repeat split; constructor|].
    pose proof (Forall_inv Hdec) as Hx. pose proof (Forall_inv_tail Hdec) as Hdec'.
    destruct Hx as [e cs key b1 sc b2 conts lastl L1 L2 L3|e cs C1 C2 C3|e w' W0 W3 W4].
    + (* an entity and the whitespace after it *)
      destruct (strip_fields _ _ L3) as (K1 & K2 & K3 & K4). cbn in K1, K2, K3, K4.
      destruct Hnf as [Hn1 Hn2].
      assert (Hw : is_white e = false) by (unfold is_white; rewrite K1; reflexivity).
      specialize (Hn1 Hw). destruct out' as [|w out'']; [contradiction|]. destruct Hn1 as [Hww _].
      pose proof (Forall_inv Hdec') as Hdw. pose proof (Forall_inv_tail Hdec') as Hdec''.
      destruct Hdw as [? ? ? ? ? ? ? ? _ _ Q|? ? _ _ Q|w w' W0 W3 W4];
        [| |destruct (strip_fields _ _ W0) as (W1 & _ & W2 & _); cbn in W1, W2].
      { apply strip_fields in Q. unfold is_white in Hww. destruct Q as [Q _]. cbn in Q. rewrite Q in Hww. discriminate. }
      { apply strip_fields in Q. unfold is_white in Hww. destruct Q as [Q _]. cbn in Q. rewrite Q in Hww. discriminate. }
      destruct Hn2 as [_ Hn3]. cbn in Hna. destruct Hna as [_ Hna2].
      assert (Hna3 : noadj out'') by (destruct out''; [exact I|apply Hna2]).
      destruct (IH out'' ltac:(cbn in Hlen; lia) Hn3 Hna3 Hdec'') as (bs & B1 & B2 & B3 & B4 & B5 & B6 & B7).
      exists (BEntity cs key b1 sc b2 conts lastl true ::
              match w' with [] => bs | _ => BBlank w' :: bs end).
      assert (Hbl : forall t, w' = t -> t <> [] -> legal_block (BBlank t)).
      { intros t <- Ht. unfold legal_block, legal_blockb. rewrite W3. destruct w'; [contradiction|reflexivity]. }
      repeat split.
      * constructor; [exact L1|]. destruct w' as [|c t]; [exact B1|].
        constructor; [apply (Hbl (c :: t) eq_refl); discriminate|exact B1].
      * cbn [separatedb orb andb]. destruct w'; [exact B2|exact B2].
      * unfold license_okb. unfold license_free in L2. rewrite L2. reflexivity.
      * cbn [map concat]. rewrite K3, W2. rewrite file_text_cons. cbn [text eol]. unfold ent_pre.
        destruct w' as [|c t]; [|rewrite file_text_cons; cbn [text]]; rewrite B4; norm_app; reflexivity.
      * unfold krecs. cbn [flat_map]. unfold krec at 1 2. rewrite K1, W1. cbn [app].
        rewrite K2, K4. unfold brecs. cbn [records_of map fst snd]. f_equal.
        destruct w' as [|c t]; [exact B5|cbn [records_of]; exact B5].
      * unfold ccoms. cbn [filter].
        assert (is_comment e = false) as -> by (unfold is_comment; rewrite K1; reflexivity).
        assert (is_comment w = false) as -> by (unfold is_comment; rewrite W1; reflexivity).
        cbn [comments_of]. destruct w' as [|c t]; [exact B6|cbn [comments_of]; exact B6].
      * intros w0. cbn [cents]. rewrite cents_blank_opt. cbn [eol app].
        rewrite (join_nonws w0 (e :: w :: out'')) by exact Hw.
        rewrite !map_app. cbn [map]. rewrite (B7 (10%N :: w')).
        rewrite (join_nonws _ out'' (noadj_after_ws w out'' Hna2 Hww)).
        rewrite map_app. cbn [cflush map]. rewrite L3, W0. reflexivity.
    + (* a standalone comment and the whitespace after it *)
      destruct (strip_fields _ _ C3) as (K1 & K2 & K3 & K4). cbn in K1, K2, K3, K4.
      destruct Hnf as [Hn1 Hn2].
      assert (Hw : is_white e = false) by (unfold is_white; rewrite K1; reflexivity).
      specialize (Hn1 Hw). destruct out' as [|w out'']; [contradiction|]. destruct Hn1 as [Hww Hneed].
      pose proof (Forall_inv Hdec') as Hdw. pose proof (Forall_inv_tail Hdec') as Hdec''.
      destruct Hdw as [? ? ? ? ? ? ? ? _ _ Q|? ? _ _ Q|w w' W0 W3 W4];
        [| |destruct (strip_fields _ _ W0) as (W1 & _ & W2 & _); cbn in W1, W2].
      { apply strip_fields in Q. unfold is_white in Hww. destruct Q as [Q _]. cbn in Q. rewrite Q in Hww. discriminate. }
      { apply strip_fields in Q. unfold is_white in Hww. destruct Q as [Q _]. cbn in Q. rewrite Q in Hww. discriminate. }
      assert (Hnl : mem 10%N w' = true).
      { apply W4. unfold cneed, is_comment in Hneed. rewrite K1 in Hneed. exact Hneed. }
      destruct Hn2 as [_ Hn3]. cbn in Hna. destruct Hna as [_ Hna2].
      assert (Hna3 : noadj out'') by (destruct out''; [exact I|apply Hna2]).
      destruct (IH out'' ltac:(cbn in Hlen; lia) Hn3 Hna3 Hdec'') as (bs & B1 & B2 & B3 & B4 & B5 & B6 & B7).
      exists (BComment cs :: BBlank w' :: bs).
      repeat split.
      * constructor; [unfold legal_block; cbn; rewrite C2; destruct cs; [contradiction|reflexivity]|].
        constructor; [|exact B1]. unfold legal_block, legal_blockb. rewrite W3.
        destruct w'; [discriminate|reflexivity].
      * cbn [separatedb]. rewrite Hnl, B2. reflexivity.
      * cbn [map concat]. rewrite K3, W2. rewrite !file_text_cons. cbn [text].
        rewrite (ctext_body cs C1), B4. rewrite <- !app_assoc. reflexivity.
      * unfold krecs. cbn [flat_map]. unfold krec at 1 2. rewrite K1, W1. cbn [app].
        unfold brecs. cbn [records_of]. exact B5.
      * unfold ccoms. cbn [filter].
        assert (is_comment e = true) as -> by (unfold is_comment; rewrite K1; reflexivity).
        assert (is_comment w = false) as -> by (unfold is_comment; rewrite W1; reflexivity).
        cbn [comments_of map]. rewrite K3. f_equal. exact B6.
      * intros w0. cbn [cents app].
        rewrite (join_nonws w0 (e :: w :: out'')) by exact Hw.
        rewrite !map_app. cbn [map]. rewrite (B7 (10%N :: w')).
        rewrite (join_nonws _ out'' (noadj_after_ws w out'' Hna2 Hww)).
        rewrite map_app. cbn [cflush map]. rewrite C3, W0. reflexivity.
    + (* leading whitespace *)
      destruct (strip_fields _ _ W0) as (W1 & _ & W2 & _). cbn in W1, W2.
      assert (Hwe : is_white e = true) by (unfold is_white; rewrite W1; reflexivity).
      pose proof (noadj_after_ws e out' Hna Hwe) as Hnext.
      destruct Hnf as [_ Hn2].
      assert (Hna2 : noadj out') by (destruct out'; [exact I|apply Hna]).
      destruct (IH out' ltac:(cbn in Hlen; lia) Hn2 Hna2 Hdec') as (bs & B1 & B2 & B3 & B4 & B5 & B6 & B7).
      exists (BBlank (10%N :: w') :: bs). repeat split.
      * constructor; [apply ws_legal; exact W3|exact B1].
      * exact B2.
      * cbn [map concat]. rewrite W2, file_text_cons. cbn [text]. rewrite B4. reflexivity.
      * unfold krecs. cbn [flat_map]. unfold krec at 1. rewrite W1. cbn [app].
        unfold brecs. cbn [records_of]. exact B5.
      * unfold ccoms. cbn [filter].
        assert (is_comment e = false) as -> by (unfold is_comment; rewrite W1; reflexivity).
        cbn [comments_of]. exact B6.
      * intros w0. cbn [cents join]. rewrite Hwe, (B7 (w0 ++ 10%N :: w')).
        rewrite (join_nonws _ out' Hnext), map_app. rewrite W2.
        destruct (w0 ++ 10%N :: w') eqn:E; [destruct w0; discriminate|]. reflexivity.
Qed.

Theorem shape_blocks out : nf m out -> noadj out -> Forall dec out ->
  exists bs, Forall legal_block bs /\ adjacent_ok bs /\
             file_text bs = concat (map c_text out) /\ brecs bs = krecs out /\
             comments_of bs = ccoms out /\ map strip (centries_of bs) = map strip out.
Proof.
  intros H1 H2 H3. destruct (shape_blocks_n (length out) out (le_n _) H1 H2 H3) as (bs & B1 & B2 & B3 & B4 & B5 & B6 & B7).
  exists bs. repeat split; auto.
  - unfold adjacent_ok, adjacent_okb. rewrite B2, B3. reflexivity.
  - unfold centries_of. rewrite (B7 []). destruct out as [|e0 t]; [reflexivity|]. cbn [join].
    destruct (is_white e0) eqn:E; [|reflexivity]. cbn [app map]. f_equal.
    pose proof (Forall_inv H3) as D. destruct D as [? ? ? ? ? ? ? ? _ _ Q|? ? _ _ Q|? w' W0 _ _].
    + apply strip_fields in Q. unfold is_white in E. destruct Q as [Q _]. cbn in Q. rewrite Q in E. discriminate.
    + apply strip_fields in Q. unfold is_white in E. destruct Q as [Q _]. cbn in Q. rewrite Q in E. discriminate.
    + rewrite W0. destruct (strip_fields _ _ W0) as (_ & _ & T & _). cbn in T. rewrite T. reflexivity.
Qed.

(* the re-parse of a well-shaped entry list: no junk, the entities are its entities *)
Theorem shape_reparse out : nf m out -> noadj out -> Forall dec out ->
  exists es, walk_properties (concat (map c_text out)) = Ok es /\
    map (fun e => let r := entity_record (concat (map c_text out)) e in (fst (fst r), snd (fst r)))
        (filter (is_kind KEntity) es) = krecs out /\
    map (fun e => span_text (concat (map c_text out)) (e_span e)) (filter (is_kind KComment) es) =
      ccoms out /\
    filter (is_kind KJunk) es = [].
Proof.
  intros H1 H2 H3. destruct (shape_blocks out H1 H2 H3) as (bs & B1 & B2 & B3 & B4 & B5 & _).
  destruct (C02_roundtrip_properties_multi bs B1 B2) as (es & E1 & E2 & E3 & E4).
  rewrite B3 in E1, E2, E3. exists es. split; [exact E1|]. split; [|split; [|exact E4]].
  - rewrite <- B4. unfold brecs. rewrite <- E2, map_map. reflexivity.
  - rewrite <- B5. exact E3.
Qed.
End Dec.
