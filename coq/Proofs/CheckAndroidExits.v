(* C09, early exits: the boolean tests of check_string against their
   declarative readings, totality of the regex scans, and the shape of the
   answer on each early exit. *)
From Coq Require Import NArith List Bool Arith Lia.
From CL Require Import Base.Sx Base.Res Base.Str Regex.Rx Regex.RxLemmas Generated.RxC09
  Generated.C09Facts Model.CheckAndroid Proofs.CheckAndroidSpec Proofs.CheckAndroidParams.
Import ListNotations.

(* ---- the scans never run out of fuel --------------------------------------------- *)
Lemma finditer_ok : forall r s, exists l, finditer r s = Ok l /\ rfinditer r s = Some l.
Proof.
  intros r s. unfold finditer. destruct (rfinditer r s) as [l|] eqn:E.
  - exists l. auto.
  - exfalso. revert E. apply rfinditer_no_fuel.
Qed.

Lemma rsub_ok : forall r repl s, exists s', rsub r repl s = Ok s'.
Proof.
  intros r repl s. unfold rsub. destruct (finditer_ok r s) as [l [H _]]. rewrite H. simpl. eauto.
Qed.

Definition is_warning (i : issue) : Prop := i_error i = false.

Lemma check_base_ok : forall l10n, exists enc,
  check_base l10n = Ok enc /\ Forall is_warning enc.
Proof.
  intro l10n. unfold check_base. destruct (finditer_ok rx_c09_mochibake (e_all l10n)) as [l [H _]].
  rewrite H. simpl. eexists. split; [reflexivity|].
  apply Forall_forall. intros i Hi. apply in_map_iff in Hi. destruct Hi as [x [Hx _]].
  subst i. reflexivity.
Qed.

(* ---- strings -------------------------------------------------------------------------- *)
Lemma starts_with_iff : forall p s, starts_with p s = true <-> exists rest, s = p ++ rest.
Proof.
  induction p as [|x p IH]; intro s; simpl.
  - split; eauto.
  - destruct s as [|y s].
    + split; [discriminate|]. intros [rest H]. discriminate.
    + rewrite andb_true_iff, N.eqb_eq, IH. split.
      * intros [E [rest H]]. subst. exists rest. reflexivity.
      * intros [rest H]. inversion H; subst. split; eauto.
Qed.

(* ---- not_translatable -------------------------------------------------------------------- *)
Lemma not_translatable_iff : forall l r,
  not_translatable [l; r] = true <-> n_transl l = Some s_false \/ n_transl r = Some s_false.
Proof.
  intros l r. unfold not_translatable. cbn [existsb]. rewrite orb_false_r, orb_true_iff.
  assert (H : forall n, match n_transl n with Some v => str_eqb v s_false | None => false end = true
                        <-> n_transl n = Some s_false).
  { intro n. destruct (n_transl n) as [v|].
    - rewrite str_eqb_eq. split; [intro; subst; auto|intro E; inversion E; auto].
    - split; discriminate. }
  rewrite !H. tauto.
Qed.

Lemma no_at_string_iff : forall n,
  no_at_string [n] = true <-> exists rest, text_content n = s_at_string ++ rest.
Proof.
  intro n. unfold no_at_string. cbn [existsb]. rewrite orb_false_r. apply starts_with_iff.
Qed.

(* ---- non_simple_data ------------------------------------------------------------------------ *)
Lemma strip_nonempty_false : forall d,
  strip_nonempty d = false <-> Forall (fun x => is_py_space x = true) d.
Proof.
  intro d. unfold strip_nonempty. rewrite negb_false_iff, forallb_forall, Forall_forall. tauto.
Qed.

Definition other_ok (c : child) : bool :=
  match c with CData _ => false | Text d => strip_nonempty d | _ => true end.

Lemma blank_text_iff : forall c, is_cdata c = false -> (other_ok c = false <-> blank_text c).
Proof.
  intros c Hc. destruct c; simpl in *; try discriminate.
  - rewrite strip_nonempty_false. split.
    + intro H. exists data. auto.
    + intros [d [E H]]. inversion E; subst. exact H.
  - split; [discriminate|]. intros [d [E _]]. discriminate.
  - split; [discriminate|]. intros [d [E _]]. discriminate.
  - split; [discriminate|]. intros [d [E _]]. discriminate.
Qed.

Lemma blank_no_cdata : forall l, Forall blank_text l -> filter is_cdata l = [].
Proof.
  induction l as [|c l IH]; intro H; [reflexivity|].
  inversion H as [|? ? [d [E _]] H']; subst. simpl. auto.
Qed.

Lemma filter_nil_forall : forall l, filter is_cdata l = [] -> Forall (fun c => is_cdata c = false) l.
Proof.
  induction l as [|c l IH]; intro H; [constructor|].
  simpl in H. destruct (is_cdata c) eqn:E; [discriminate|]. constructor; auto.
Qed.

Lemma filter_one_split : forall l x, filter is_cdata l = [x] ->
  exists pre d post, l = pre ++ CData d :: post /\ x = CData d /\
                     filter is_cdata pre = [] /\ filter is_cdata post = [].
Proof.
  induction l as [|c l IH]; intros x H; [discriminate|].
  simpl in H. destruct (is_cdata c) eqn:E.
  - destruct c; try discriminate. inversion H; subst.
    exists [], data, l. repeat split; auto.
  - destruct (IH _ H) as [pre [d [post [A [B [C D]]]]]].
    exists (c :: pre), d, post. repeat split; auto.
    + rewrite A. reflexivity.
    + simpl. rewrite E. exact C.
Qed.

Lemma existsb_false_forall : forall (f : child -> bool) l,
  existsb f l = false <-> Forall (fun c => f c = false) l.
Proof.
  intros f l. induction l as [|c l IH]; simpl.
  - split; auto.
  - rewrite orb_false_iff, IH. split.
    + intros [A B]. constructor; auto.
    + intro H. inversion H; auto.
Qed.

Lemma non_simple_existsb : forall cs,
  existsb (fun c => match c with CData _ => false | Text d => strip_nonempty d | _ => true end) cs
  = existsb other_ok cs.
Proof. reflexivity. Qed.

Theorem non_simple_data_iff : forall n,
  non_simple_data n = false <-> simple_content (n_children n).
Proof.
  intro n. unfold non_simple_data, simple_content. set (cs := n_children n).
  rewrite non_simple_existsb.
  destruct (filter is_cdata cs) as [|x [|y rest]] eqn:Ef.
  - (* no CDATA *)
    split.
    + destruct cs as [|c [|c2 cs']]; auto; [|discriminate].
      intro H. right. left. destruct c; try discriminate. eauto.
    + intros [H|[[d H]|[pre [d [post [H _]]]]]].
      * rewrite H. reflexivity.
      * rewrite H. reflexivity.
      * exfalso. rewrite H, filter_app in Ef. simpl in Ef.
        destruct (filter is_cdata pre); discriminate.
  - (* one CDATA *)
    destruct (filter_one_split _ _ Ef) as [pre [d [post [A [B [C D]]]]]].
    rewrite existsb_false_forall. split.
    + intro H. right. right. exists pre, d, post. split; auto.
      rewrite A in H. apply Forall_app in H. destruct H as [H1 H2]. inversion H2; subst.
      apply filter_nil_forall in C. apply filter_nil_forall in D.
      split; apply Forall_forall; intros c Hc.
      * rewrite Forall_forall in H1, C. apply blank_text_iff; auto.
      * match goal with Hp : Forall _ post |- _ => rewrite Forall_forall in Hp, D;
          apply blank_text_iff; auto end.
    + intros [H|[[d' H]|[pre' [d' [post' [H [H1 H2]]]]]]].
      * rewrite H in Ef. discriminate.
      * rewrite H in Ef. discriminate.
      * rewrite H. apply Forall_app. split; [|constructor; [reflexivity|]].
        -- apply Forall_forall. intros c Hc. rewrite Forall_forall in H1.
           pose proof (H1 c Hc) as Hb. apply blank_text_iff; auto.
           destruct Hb as [d0 [E _]]. subst. reflexivity.
        -- apply Forall_forall. intros c Hc. rewrite Forall_forall in H2.
           pose proof (H2 c Hc) as Hb. apply blank_text_iff; auto.
           destruct Hb as [d0 [E _]]. subst. reflexivity.
  - (* several CDATA *)
    split; [discriminate|].
    intros [H|[[d H]|[pre [d [post [H [H1 H2]]]]]]].
    + rewrite H in Ef. discriminate.
    + rewrite H in Ef. discriminate.
    + rewrite H, filter_app in Ef. simpl in Ef.
      rewrite (blank_no_cdata _ H1), (blank_no_cdata _ H2) in Ef. discriminate.
Qed.

(* ---- the early exits ------------------------------------------------------------------------------ *)
Definition errors_of (l : list issue) : list issue := filter i_error l.

Lemma errors_of_warnings : forall l, Forall is_warning l -> errors_of l = [].
Proof.
  induction l as [|i l IH]; intro H; [reflexivity|].
  inversion H as [|? ? Hi H']; subst. unfold errors_of in *. simpl.
  unfold is_warning in Hi. rewrite Hi. auto.
Qed.

Lemma errors_of_app : forall a b, errors_of (a ++ b) = errors_of a ++ errors_of b.
Proof. intros. unfold errors_of. apply filter_app. Qed.

Section Exits.
Variables (ref l10n : entity).
Hypothesis ref_string : n_name (e_node ref) = s_string.
Hypothesis l10n_string : n_name (e_node l10n) = s_string.

Lemma check_is_check_string : forall enc,
  check_base l10n = Ok enc ->
  check ref l10n = do rest <- check_string (e_node ref) l10n; Ok (enc ++ rest).
Proof.
  intros enc H. unfold check. rewrite H. simpl.
  rewrite ref_string, l10n_string, str_eqb_refl. reflexivity.
Qed.

(* translatable="false" on either side *)
Lemma exit_not_translatable : forall enc,
  check_base l10n = Ok enc ->
  n_transl (e_node l10n) = Some s_false \/ n_transl (e_node ref) = Some s_false ->
  check ref l10n = Ok (enc ++ [lit_issue y_not_translatable 0]).
Proof.
  intros enc He H. rewrite (check_is_check_string enc He). unfold check_string.
  apply not_translatable_iff in H. rewrite H. reflexivity.
Qed.

(* the localized value is a reference to another string *)
Lemma exit_at_string : forall enc rest,
  check_base l10n = Ok enc ->
  n_transl (e_node l10n) <> Some s_false -> n_transl (e_node ref) <> Some s_false ->
  val l10n = s_at_string ++ rest ->
  check ref l10n = Ok (enc ++ [lit_issue y_at_string 0]).
Proof.
  intros enc rest He H1 H2 H3. rewrite (check_is_check_string enc He). unfold check_string.
  destruct (not_translatable [e_node l10n; e_node ref]) eqn:E.
  - apply not_translatable_iff in E. tauto.
  - assert (Ha : no_at_string [e_node l10n] = true) by (apply no_at_string_iff; eauto).
    rewrite Ha. reflexivity.
Qed.

(* markup, several CDATA sections, or text around a CDATA section *)
Lemma exit_non_simple : forall enc,
  check_base l10n = Ok enc ->
  n_transl (e_node l10n) <> Some s_false -> n_transl (e_node ref) <> Some s_false ->
  (forall rest, val l10n <> s_at_string ++ rest) ->
  ~ simple_content (n_children (e_node l10n)) ->
  exists w, check ref l10n = Ok (enc ++ w ++ [lit_issue y_non_simple 0]) /\
            (w = [] \/ w = [lit_issue y_at_string_ref 0]).
Proof.
  intros enc He H1 H2 H3 H4. rewrite (check_is_check_string enc He). unfold check_string.
  destruct (not_translatable [e_node l10n; e_node ref]) eqn:E.
  { apply not_translatable_iff in E. tauto. }
  destruct (no_at_string [e_node l10n]) eqn:Ea.
  { apply no_at_string_iff in Ea. destruct Ea as [rest Ea]. exfalso. eapply H3; eauto. }
  destruct (non_simple_data (e_node l10n)) eqn:En.
  - eexists. split; [reflexivity|]. destruct (no_at_string [e_node ref]); auto.
  - apply non_simple_data_iff in En. contradiction.
Qed.

End Exits.
