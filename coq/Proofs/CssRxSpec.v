(* The two regular expressions of CSSCheckMixin.parse_css_spec on the regex
   engine: the shape of the generated ASTs, the (finite) languages of the
   property and unit groups READ OFF the generated AST, and what the matcher
   does at a declaration, at a separator character, at the end of the text. *)
From Coq Require Import NArith List Bool Arith Lia ZifyBool.
From CL Require Import Base.Str Regex.Rx Regex.RxLemmas Generated.RxC07 Proofs.CssRxKit.
Import ListNotations.

Local Arguments Nat.ltb : simpl never.
Local Arguments Nat.leb : simpl never.
Local Arguments Nat.eqb : simpl never.
Local Arguments Nat.sub : simpl never.
Local Arguments Nat.add : simpl never.

(* ---- shape --------------------------------------------------------------------- *)
Definition WS : cset := [(32, 32); (9, 9); (13, 13); (10, 10)]%N.
Definition DIG : cset := [(48, 57)]%N.
Definition cCOLON : cset := [(58, 58)]%N.
Definition cDOT : cset := [(46, 46)]%N.
Definition cSEMI : cset := [(59, 59)]%N.

(* the property and unit groups, whatever alternatives the source lists *)
Definition rPROP : rx :=
  match rx_c07_css_spec with Alt (Cat (Grp _ p) _) _ => p | _ => Eps end.
Definition rUNIT : rx :=
  match rx_c07_css_spec with
  | Alt (Cat _ (Cat _ (Cat _ (Cat _ (Cat _ (Grp _ u)))))) _ => u
  | _ => Eps
  end.

Definition rINT : rx := Rep true 1 None (Chr false DIG).
Definition rDEC : rx :=
  Cat (Rep true 0 None (Chr false DIG)) (Cat (Chr false cDOT) (Rep true 1 None (Chr false DIG))).
Definition rNUM : rx := Alt rINT rDEC.
Definition rWS : rx := Rep true 0 None (Chr false WS).

Definition rDECL : rx :=
  Cat (Grp 1 rPROP) (Cat rWS (Cat (Chr false cCOLON) (Cat rWS (Cat (Grp 2 rNUM) (Grp 3 rUNIT))))).

Lemma css_spec_shape : rx_c07_css_spec = Alt rDECL EndStr.
Proof. reflexivity. Qed.

Lemma css_sep_shape :
  rx_c07_css_sep = Cat rWS (Cat (Alt (Grp 1 (Chr false cSEMI)) Eps) (Cat rWS (Eol false))).
Proof. reflexivity. Qed.

Lemma css_groups : g_c07_css_spec_prop = 1 /\ g_c07_css_spec_unit = 3 /\ g_c07_css_sep_semi = 1.
Proof. repeat split; reflexivity. Qed.

(* ---- the language of a star-free expression of single characters ------------------------ *)
Fixpoint lang (r : rx) : list str :=
  match r with
  | Eps => [[]]
  | Chr false [(a, b)] => if N.eqb a b then [[a]] else []
  | Cat a b => flat_map (fun x => map (app x) (lang b)) (lang a)
  | Alt a b => lang a ++ lang b
  | _ => []
  end.

Definition css_props : list str := lang rPROP.
Definition css_units : list str := lang rUNIT.

(* the matcher on a word of the group: the continuation decides *)
Lemma prop_word : forall p, In p css_props -> forall pr rest ps cs k,
  m rPROP (mkst pr (p ++ rest) ps cs) k = k (mkst (rev p ++ pr) rest (length p + ps) cs).
Proof.
  intros p Hin. vm_compute in Hin.
  repeat (destruct Hin as [<-|Hin]; [intros; vm_compute; destruct (k _); reflexivity|]).
  contradiction.
Qed.

Lemma unit_word : forall u, In u css_units -> forall pr rest ps cs k,
  m rUNIT (mkst pr (u ++ rest) ps cs) k = k (mkst (rev u ++ pr) rest (length u + ps) cs).
Proof.
  intros u Hin. vm_compute in Hin.
  repeat (destruct Hin as [<-|Hin]; [intros; vm_compute; destruct (k _); reflexivity|]).
  contradiction.
Qed.

Lemma word_St (r : rx) (w : str) :
  (forall pr rest ps cs k, m r (mkst pr (w ++ rest) ps cs) k = k (mkst (rev w ++ pr) rest (length w + ps) cs)) ->
  forall s rest k, suf s = w ++ rest -> m r s k = k (St s w rest (caps s)).
Proof.
  intros H [pr sf ps cs] rest k Hs. cbn in Hs. subst sf. rewrite H. f_equal.
  apply st_ext; cbn; auto. lia.
Qed.

Lemma prop_St p s rest k : In p css_props -> suf s = p ++ rest -> m rPROP s k = k (St s p rest (caps s)).
Proof. intros H. apply word_St. apply prop_word. exact H. Qed.

Lemma unit_St u s rest k : In u css_units -> suf s = u ++ rest -> m rUNIT s k = k (St s u rest (caps s)).
Proof. intros H. apply word_St. apply unit_word. exact H. Qed.

(* ---- immediate failure on the first character / on the empty suffix ------------------------- *)
(* [fails_on r c]: on an input that starts with c the matcher fails at once;
   [eps_on r c]: on such an input it can only match the empty string *)
Fixpoint fails_on (r : rx) (c : N) : bool :=
  match r with
  | Chr neg rs => negb (chr_ok neg rs c)
  | Cat a b => fails_on a c || (eps_on a c && fails_on b c)
  | Alt a b => fails_on a c && fails_on b c
  | Grp _ r' => fails_on r' c
  | Rep _ (S _) _ r' => fails_on r' c
  | EndStr => true
  | _ => false
  end
with eps_on (r : rx) (c : N) : bool :=
  match r with
  | Eps => true
  | Alt a b => fails_on a c && eps_on b c
  | Rep true 0 _ r' => fails_on r' c
  | _ => false
  end.

Fixpoint fails_nil (r : rx) : bool :=
  match r with
  | Chr _ _ => true
  | Cat a b => fails_nil a || (eps_nil a && fails_nil b)
  | Alt a b => fails_nil a && fails_nil b
  | Grp _ r' => fails_nil r'
  | Rep _ (S _) _ r' => fails_nil r'
  | _ => false
  end
with eps_nil (r : rx) : bool :=
  match r with
  | Eps => true
  | Alt a b => fails_nil a && eps_nil b
  | _ => false
  end.

Lemma fails_eps_ok : forall r,
  (forall s c t k, suf s = c :: t -> fails_on r c = true -> m r s k = Fail) /\
  (forall s c t k, suf s = c :: t -> eps_on r c = true -> m r s k = k s).
Proof.
  induction r; split; intros s c t k Hs H; cbn [fails_on eps_on] in H; try discriminate.
  - reflexivity.
  - cbn. rewrite Hs. apply negb_true_iff in H. rewrite H. reflexivity.
  - destruct IHr1 as [F1 E1], IHr2 as [F2 E2]. rewrite m_Cat.
    apply orb_true_iff in H. destruct H as [H|H]; [eapply F1; eassumption|].
    apply andb_true_iff in H. destruct H as [H1 H2].
    rewrite (E1 s c t _ Hs H1). eapply F2; eassumption.
  - destruct IHr1 as [F1 E1], IHr2 as [F2 E2].
    apply andb_true_iff in H. destruct H as [H1 H2]. rewrite m_Alt.
    rewrite (F1 s c t k Hs H1). cbn [orelse]. eapply F2; eassumption.
  - destruct IHr1 as [F1 E1], IHr2 as [F2 E2].
    apply andb_true_iff in H. destruct H as [H1 H2]. rewrite m_Alt.
    rewrite (F1 s c t k Hs H1). cbn [orelse]. eapply E2; eassumption.
  - destruct IHr as [F E]. destruct lo as [|lo]; [discriminate|]. rewrite m_Rep.
    change (S lo + S (length (suf s))) with (S (lo + S (length (suf s)))).
    rewrite rep_loop_S. change (0 <? S lo) with true. cbv iota. eapply F; eassumption.
  - destruct IHr as [F E]. destruct greedy; [|discriminate]. destruct lo as [|lo]; [|discriminate].
    rewrite m_Rep. change (0 + S (length (suf s))) with (S (length (suf s))).
    rewrite rep_loop_S. change (0 <? 0) with false. cbv iota zeta.
    destruct (match hi with None => true | Some h => 0 <? h end).
    + rewrite (F s c t _ Hs H). reflexivity.
    + reflexivity.
  - destruct IHr as [F E]. rewrite m_Grp. eapply F; eassumption.
  - cbn. rewrite Hs. reflexivity.
Qed.

Lemma fails_on_ok : forall r s c t k, suf s = c :: t -> fails_on r c = true -> m r s k = Fail.
Proof. intros r. apply (fails_eps_ok r). Qed.

Lemma fails_eps_nil_ok : forall r,
  (forall s k, suf s = [] -> fails_nil r = true -> m r s k = Fail) /\
  (forall s k, suf s = [] -> eps_nil r = true -> m r s k = k s).
Proof.
  induction r; split; intros s k Hs H; cbn [fails_nil eps_nil] in H; try discriminate.
  - reflexivity.
  - cbn. rewrite Hs. reflexivity.
  - destruct IHr1 as [F1 E1], IHr2 as [F2 E2]. rewrite m_Cat.
    apply orb_true_iff in H. destruct H as [H|H]; [eapply F1; eassumption|].
    apply andb_true_iff in H. destruct H as [H1 H2].
    rewrite (E1 s _ Hs H1). eapply F2; eassumption.
  - destruct IHr1 as [F1 E1], IHr2 as [F2 E2].
    apply andb_true_iff in H. destruct H as [H1 H2]. rewrite m_Alt.
    rewrite (F1 s k Hs H1). cbn [orelse]. eapply F2; eassumption.
  - destruct IHr1 as [F1 E1], IHr2 as [F2 E2].
    apply andb_true_iff in H. destruct H as [H1 H2]. rewrite m_Alt.
    rewrite (F1 s k Hs H1). cbn [orelse]. eapply E2; eassumption.
  - destruct IHr as [F E]. destruct lo as [|lo]; [discriminate|]. rewrite m_Rep.
    change (S lo + S (length (suf s))) with (S (lo + S (length (suf s)))).
    rewrite rep_loop_S. change (0 <? S lo) with true. cbv iota. eapply F; eassumption.
  - destruct IHr as [F E]. rewrite m_Grp. eapply F; eassumption.
Qed.

Lemma fails_nil_ok : forall r s k, suf s = [] -> fails_nil r = true -> m r s k = Fail.
Proof. intros r. apply (fails_eps_nil_ok r). Qed.

(* ---- character facts ---------------------------------------------------------------------- *)
Definition cssws (c : N) : bool := chr_ok false WS c.
Definition cssdig (c : N) : bool := chr_ok false DIG c.

Lemma chr_false rs c : chr_ok false rs c = in_ranges c rs.
Proof. unfold chr_ok. destruct (in_ranges c rs); reflexivity. Qed.

Lemma cssws_cases c : cssws c = true -> c = 32%N \/ c = 9%N \/ c = 13%N \/ c = 10%N.
Proof.
  unfold cssws. rewrite chr_false. unfold in_ranges, WS. cbn [existsb fst snd]. lia.
Qed.

Lemma cssdig_range c : cssdig c = true -> (48 <= c <= 57)%N.
Proof. unfold cssdig. rewrite chr_false. unfold in_ranges, DIG. cbn [existsb fst snd]. lia. Qed.

Lemma gapchar_fails c : cssws c = true \/ c = 59%N -> fails_on rx_c07_css_spec c = true.
Proof.
  intros [H| -> ]; [|vm_compute; reflexivity].
  destruct (cssws_cases c H) as [ -> | [ -> | [ -> | -> ]]]; vm_compute; reflexivity.
Qed.

Lemma ws_not_dig_dot c : cssdig c = true \/ c = 46%N -> cssws c = false.
Proof.
  intros [H| -> ]; [|reflexivity]. apply cssdig_range in H.
  unfold cssws. rewrite chr_false. unfold in_ranges, WS. cbn [existsb fst snd]. lia.
Qed.

(* first characters of the units: letters *)
Lemma unit_head : forall u, In u css_units ->
  exists c t, u = c :: t /\ cssdig c = false /\ c <> 46%N /\ cssws c = false.
Proof.
  intros u Hin. vm_compute in Hin.
  repeat (destruct Hin as [<-|Hin]; [do 2 eexists; split; [reflexivity|]; repeat split; discriminate|]).
  contradiction.
Qed.

Lemma prop_head : forall p, In p css_props ->
  exists c t, p = c :: t /\ cssws c = false /\ c <> 59%N.
Proof.
  intros p Hin. vm_compute in Hin.
  repeat (destruct Hin as [<-|Hin]; [do 2 eexists; split; [reflexivity|]; repeat split; discriminate|]).
  contradiction.
Qed.

(* a digit or a dot cannot start a unit *)
Lemma unit_fails_digit c : cssdig c = true \/ c = 46%N -> fails_on rUNIT c = true.
Proof.
  intros H.
  (* by enumeration of the possible characters *)
  destruct H as [H| ->]; [|vm_compute; reflexivity].
  apply cssdig_range in H.
  assert (E : (c = 48 \/ c = 49 \/ c = 50 \/ c = 51 \/ c = 52 \/ c = 53 \/ c = 54 \/ c = 55 \/ c = 56 \/ c = 57)%N) by lia.
  repeat (destruct E as [ -> |E]; [vm_compute; reflexivity|]). subst. vm_compute. reflexivity.
Qed.

(* ---- the grammar of a declaration ------------------------------------------------------------- *)
Inductive cssnum := NInt (ds : str) | NDec (ds1 ds2 : str).

Definition render_num (n : cssnum) : str :=
  match n with NInt ds => ds | NDec a b => a ++ 46%N :: b end.

Definition nonnil (s : str) : bool := match s with [] => false | _ => true end.

Definition num_ok (n : cssnum) : bool :=
  match n with
  | NInt ds => nonnil ds && forallb cssdig ds
  | NDec a b => forallb cssdig a && nonnil b && forallb cssdig b
  end.

Record decl := mkdecl { d_prop : str; d_w1 : str; d_w2 : str; d_num : cssnum; d_unit : str }.

Definition render_decl (d : decl) : str :=
  d_prop d ++ d_w1 d ++ 58%N :: d_w2 d ++ render_num (d_num d) ++ d_unit d.

Definition inb (x : str) (l : list str) : bool := existsb (str_eqb x) l.

Definition decl_ok (d : decl) : bool :=
  inb (d_prop d) css_props && forallb cssws (d_w1 d) && forallb cssws (d_w2 d) &&
  num_ok (d_num d) && inb (d_unit d) css_units.

Lemma str_eqb_true : forall a b : str, str_eqb a b = true -> a = b.
Proof.
  unfold str_eqb. induction a as [|x a IH]; destruct b as [|y b]; cbn; intros H; try discriminate; auto.
  apply andb_true_iff in H. destruct H as [H1 H2]. apply N.eqb_eq in H1. f_equal; auto.
Qed.

Lemma inb_In x l : inb x l = true -> In x l.
Proof.
  unfold inb. rewrite existsb_exists. intros [y [Hy E]]. apply str_eqb_true in E. subst. exact Hy.
Qed.

Lemma forallb_Forall {A} (f : A -> bool) l : forallb f l = true -> Forall (fun c => f c = true) l.
Proof. rewrite forallb_forall, Forall_forall. auto. Qed.

(* offsets of the groups of a declaration that starts at position a *)
Definition num_start (a : nat) (d : decl) : nat :=
  a + length (d_prop d) + length (d_w1 d) + 1 + length (d_w2 d).
Definition num_end (a : nat) (d : decl) : nat := num_start a d + length (render_num (d_num d)).

Definition decl_caps (a : nat) (d : decl) (cs : list (nat * (nat * nat))) : list (nat * (nat * nat)) :=
  (3, (num_end a d, num_end a d + length (d_unit d))) ::
  (2, (num_start a d, num_end a d)) ::
  (1, (a, a + length (d_prop d))) :: cs.

Lemma num_head n : num_ok n = true ->
  match render_num n with [] => False | c :: _ => cssdig c = true \/ c = 46%N end.
Proof.
  destruct n as [ds|a b]; cbn [num_ok render_num]; intros H.
  - apply andb_true_iff in H. destruct H as [H1 H2]. destruct ds as [|c ds]; [discriminate|].
    cbn in H2. apply andb_true_iff in H2. left. tauto.
  - apply andb_true_iff in H. destruct H as [H _]. apply andb_true_iff in H. destruct H as [H _].
    destruct a as [|c a]; cbn; [right; reflexivity|].
    cbn in H. apply andb_true_iff in H. left. tauto.
Qed.

Lemma head_not_app (p : N -> bool) a b :
  match a with [] => False | c :: _ => p c = false end -> head_not p (a ++ b).
Proof. destruct a; cbn; tauto. Qed.

(* the unit, then the continuation *)
Lemma unit_tail : forall d a s rest k x cs0,
  In (d_unit d) css_units -> suf s = d_unit d ++ rest -> pos s = num_end a d ->
  caps s = (2, (num_start a d, num_end a d)) :: (1, (a, a + length (d_prop d))) :: cs0 ->
  k (St s (d_unit d) rest (decl_caps a d cs0)) = Done x ->
  m (Grp 3 rUNIT) s k = Done x.
Proof.
  intros d a s rest k x cs0 Hu Hs Hp Hc Hk. rewrite m_Grp, (unit_St _ s rest _ Hu Hs).
  rewrite set_cap_St. cbn [St pos]. rewrite Hp, Hc. exact Hk.
Qed.

Theorem decl_at : forall d z rest k x,
  decl_ok d = true -> suf z = render_decl d ++ rest ->
  k (St z (render_decl d) rest (decl_caps (pos z) d (caps z))) = Done x ->
  m rDECL z k = Done x.
Proof.
  intros [p w1 w2 n u] z rest k x Hok Hs Hk. unfold decl_ok in Hok. cbn [d_prop d_w1 d_w2 d_num d_unit] in Hok.
  repeat (apply andb_true_iff in Hok; destruct Hok as [Hok ?]).
  rename H into Hu, H0 into Hn, H1 into Hw2, H2 into Hw1, Hok into Hp.
  apply inb_In in Hu, Hp. apply forallb_Forall in Hw1, Hw2.
  unfold render_decl in Hs. cbn [d_prop d_w1 d_w2 d_num d_unit] in Hs.
  set (d := mkdecl p w1 w2 n u) in *.
  assert (Hs1 : suf z = p ++ (w1 ++ 58%N :: w2 ++ render_num n ++ u ++ rest)).
  { rewrite Hs. rewrite <- !app_assoc. cbn [app]. rewrite <- !app_assoc. reflexivity. }
  unfold rDECL. rewrite m_Cat, m_Grp, (prop_St p z _ _ Hp Hs1), set_cap_St.
  (* blanks, colon, blanks *)
  rewrite m_Cat. unfold rWS at 1.
  eapply (m_Rep_max false WS 0 w1); [reflexivity | exact Hw1 | cbn; reflexivity | lia |].
  cbn [caps St]. rewrite St_St. rewrite m_Cat.
  rewrite (m_Chr_ok false cCOLON _ 58%N (w2 ++ render_num n ++ u ++ rest)) by reflexivity.
  cbn [caps St]. rewrite St_St. rewrite m_Cat. unfold rWS at 1.
  pose proof (num_head n Hn) as Hnh.
  eapply (m_Rep_max false WS 0 w2 _ (render_num n ++ u ++ rest)); [reflexivity | exact Hw2 | | lia |].
  { apply head_not_app. destruct (render_num n) as [|c t]; [contradiction|].
    apply (ws_not_dig_dot c). exact Hnh. }
  cbn [caps St]. rewrite St_St.
  set (cs1 := (1, (pos z, pos z + length p)) :: caps z).
  set (pre_num := ((p ++ w1) ++ [58%N]) ++ w2).
  assert (Hpn : pos z + length pre_num = num_start (pos z) d).
  { unfold pre_num, num_start, d. cbn [d_prop d_w1 d_w2]. rewrite !app_length. cbn [length]. lia. }
  destruct (unit_head u Hu) as [uc [ut [Eu [Hud [Hudot Huws]]]]].
  (* the number, then the unit *)
  rewrite m_Cat, m_Grp.
  assert (Hfin : forall s' a2, a2 = num_start (pos z) d ->
            suf s' = u ++ rest -> pos s' = num_end (pos z) d ->
            pre s' = rev (pre_num ++ render_num n) ++ pre z ->
            caps s' = cs1 ->
            m (Grp 3 rUNIT) (set_cap 2 (a2, pos s') s') k = Done x).
  { intros s' a2 -> Hs' Hp' Hpre' Hc'.
    eapply (unit_tail d (pos z) _ rest k x (caps z)); [exact Hu | exact Hs' | exact Hp' | | ].
    - cbn [set_cap caps]. rewrite Hc', Hp'. reflexivity.
    - match goal with |- k ?A = Done x => replace A with
        (St z (render_decl d) rest (decl_caps (pos z) d (caps z))); [exact Hk|] end.
      apply st_ext; cbn [St set_cap pre suf pos caps]; auto.
      + rewrite Hpre'. unfold render_decl, pre_num, d. cbn [d_prop d_w1 d_w2 d_num d_unit].
        rewrite (app_assoc (rev u)). f_equal. rewrite <- rev_app_distr. f_equal.
        unfold str in *. rewrite <- !app_assoc. cbn [app]. reflexivity.
      + rewrite Hp'. unfold num_end, num_start, render_decl, d. cbn [d_prop d_w1 d_w2 d_num d_unit].
        rewrite !app_length. cbn [length]. rewrite !app_length. lia. }
  unfold rNUM. rewrite m_Alt.
  destruct n as [ds|da db]; cbn [render_num num_ok] in *.
  - (* digits *)
    apply andb_true_iff in Hn. destruct Hn as [Hnn Hds]. apply forallb_Forall in Hds.
    apply orelse_Done. unfold rINT.
    eapply (m_Rep_max false DIG 1 ds _ (u ++ rest)); [reflexivity | exact Hds | | | ].
    + rewrite Eu. cbn. exact Hud.
    + destruct ds; [discriminate|cbn; lia].
    + cbv beta. rewrite St_St. apply Hfin; try reflexivity.
      * cbn [St pos]. exact Hpn.
      * cbn [St pos]. unfold num_end. rewrite <- Hpn. unfold d. cbn [d_num render_num].
        rewrite ?app_length. lia.
  - (* digits, dot, digits *)
    apply andb_true_iff in Hn. destruct Hn as [Hn Hdb]. apply andb_true_iff in Hn. destruct Hn as [Hda Hnn].
    apply forallb_Forall in Hda, Hdb.
    rewrite orelse_Fail.
    2: { unfold rINT. eapply (m_Rep_fail false DIG 1 da _ (46%N :: db ++ u ++ rest)).
         - cbn [St suf]. rewrite <- app_assoc. reflexivity.
         - exact Hda.
         - cbn. reflexivity.
         - intros l1 l2 E. rewrite m_Grp.
           assert (Hh : exists c t, l2 ++ 46%N :: db ++ u ++ rest = c :: t /\ (cssdig c = true \/ c = 46%N)).
           { destruct l2 as [|c l2]; [do 2 eexists; split; [reflexivity|right; reflexivity]|].
             do 2 eexists; split; [reflexivity|left].
             rewrite E in Hda. apply Forall_app in Hda. destruct Hda as [_ Hda]. inversion Hda; assumption. }
           destruct Hh as [c [t [Eh Hc]]].
           apply (fails_on_ok rUNIT _ c t); [cbn [set_cap St suf]; exact Eh | apply unit_fails_digit; exact Hc]. }
    unfold rDEC. rewrite m_Cat.
    eapply (m_Rep_max false DIG 0 da _ (46%N :: db ++ u ++ rest));
      [cbn [St suf]; rewrite <- app_assoc; reflexivity | exact Hda | cbn; reflexivity | lia |].
    cbn [caps St]. rewrite St_St. rewrite m_Cat.
    rewrite (m_Chr_ok false cDOT _ 46%N (db ++ u ++ rest)) by reflexivity.
    cbn [caps St]. rewrite St_St.
    eapply (m_Rep_max false DIG 1 db _ (u ++ rest)); [reflexivity | exact Hdb | | | ].
    + rewrite Eu. cbn. exact Hud.
    + destruct db; [discriminate|cbn; lia].
    + cbv beta. rewrite St_St. apply Hfin; try reflexivity.
      * cbn [St pos]. exact Hpn.
      * cbn [St pos]. unfold num_end. rewrite <- Hpn. unfold d. cbn [d_num render_num].
        rewrite ?app_length. cbn [length]. rewrite ?app_length. cbn [length]. lia.
      * cbn [St pre]. f_equal. f_equal. unfold str in *. rewrite <- !app_assoc. cbn [app]. reflexivity.
Qed.

(* ---- the whole expression at a declaration, at a separator character, at the end ---------------- *)
Lemma spec_at_decl : forall d z rest k x,
  decl_ok d = true -> suf z = render_decl d ++ rest ->
  k (St z (render_decl d) rest (decl_caps (pos z) d (caps z))) = Done x ->
  m rx_c07_css_spec z k = Done x.
Proof.
  intros. rewrite css_spec_shape, m_Alt. apply orelse_Done. eapply decl_at; eassumption.
Qed.

Definition gapchar (c : N) : bool := cssws c || N.eqb c 59.

Lemma spec_at_gapchar : forall z c t k, suf z = c :: t -> gapchar c = true ->
  m rx_c07_css_spec z k = Fail.
Proof.
  intros z c t k Hs H. apply (fails_on_ok _ z c t k Hs). apply gapchar_fails.
  unfold gapchar in H. apply orb_true_iff in H. destruct H as [H|H]; [left; exact H|right].
  apply N.eqb_eq in H. exact H.
Qed.

Lemma spec_at_end : forall z k, suf z = [] -> m rx_c07_css_spec z k = k z.
Proof.
  intros z k Hs. rewrite css_spec_shape, m_Alt.
  rewrite (fails_nil_ok rDECL z k Hs) by reflexivity. cbn. rewrite Hs. reflexivity.
Qed.

(* ---- the separator expression on a gap --------------------------------------------------------------- *)
Definition gap := (str * option str)%type.

Definition render_gap (g : gap) : str :=
  fst g ++ match snd g with Some w' => 59%N :: w' | None => [] end.

Definition gap_ok (g : gap) : bool :=
  forallb cssws (fst g) && match snd g with Some w' => forallb cssws w' | None => true end.

Definition gap_caps (a : nat) (g : gap) (cs : list (nat * (nat * nat))) : list (nat * (nat * nat)) :=
  match snd g with
  | Some _ => (1, (a + length (fst g), a + length (fst g) + 1)) :: cs
  | None => cs
  end.

Lemma eol_nil : forall s k, suf s = [] -> m (Eol false) s k = k s.
Proof. intros s k Hs. cbn. unfold at_eol. rewrite Hs. reflexivity. Qed.

Theorem sep_at : forall g z, gap_ok g = true -> suf z = render_gap g ->
  m rx_c07_css_sep z (fun s => Done s) = Done (St z (render_gap g) [] (gap_caps (pos z) g (caps z))).
Proof.
  intros [w o] z Hok Hs. unfold gap_ok in Hok. cbn [fst snd] in Hok.
  apply andb_true_iff in Hok. destruct Hok as [Hw Ho]. apply forallb_Forall in Hw.
  unfold render_gap in *. cbn [fst snd] in *. unfold gap_caps. cbn [fst snd].
  rewrite css_sep_shape, m_Cat. unfold rWS at 1.
  destruct o as [w'|].
  - apply forallb_Forall in Ho.
    eapply (m_Rep_max false WS 0 w z (59%N :: w')); [exact Hs | exact Hw | reflexivity | lia |].
    rewrite m_Cat, m_Alt. apply orelse_Done. rewrite m_Grp.
    rewrite (m_Chr_ok false cSEMI _ 59%N w') by reflexivity.
    rewrite St_St, set_cap_St. rewrite m_Cat. unfold rWS.
    eapply (m_Rep_max false WS 0 w' _ []); [cbn [St suf]; rewrite app_nil_r; reflexivity | exact Ho | exact I | lia |].
    rewrite St_St. rewrite eol_nil by reflexivity. f_equal. apply st_ext; cbn [St pre suf pos caps]; auto.
    + unfold str in *. rewrite <- !app_assoc. reflexivity.
    + rewrite !app_length. cbn [length]. lia.
    + rewrite app_length. cbn [length].
      replace (pos z + (length w + 1)) with (pos z + length w + 1) by lia. reflexivity.
  - rewrite app_nil_r in Hs.
    eapply (m_Rep_max false WS 0 w z []); [rewrite app_nil_r; exact Hs | exact Hw | exact I | lia |].
    rewrite m_Cat, m_Alt. rewrite orelse_Fail.
    2: { rewrite m_Grp. apply m_Chr_fail. cbn [St suf]. exact I. }
    rewrite m_Eps, m_Cat. unfold rWS.
    eapply (m_Rep_max false WS 0 [] _ []); [reflexivity | constructor | exact I | lia |].
    rewrite St_St. rewrite eol_nil by reflexivity. reflexivity.
Qed.
