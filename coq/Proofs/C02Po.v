(* C02, PO: eval_stringlist on string-list items rendered from tokens gives the
   concatenation of the token meanings.  The generated po_escape AST is shown to have
   the shape treated in Proofs/UnescapeProofs.v; the token grammar and its meaning are
   stated independently of the regular expression and of the po_escapes table. *)
From Coq Require Import NArith List Bool Arith Lia.
From CL Require Import Base.Sx Base.Res Base.Str Regex.Rx Model.Entry Model.Parse
  Generated.RxC02 Generated.C02Facts Model.Unescape Proofs.UnescapeProofs.
Import ListNotations.

Local Arguments N.eqb : simpl never.

(* the class of the generated expression, read off its AST *)
Definition po_cls : cset :=
  match rx_c02_po_escape with
  | Cat (Chr false _) (Grp 1 (Chr false cls)) => cls
  | _ => []
  end.

Lemma po_escape_shape : rx_c02_po_escape = esc_rx po_cls.
Proof. vm_compute. reflexivity. Qed.

Definition po_g (d : N) : result str :=
  match lookup d po_escapes with Some v => Ok [v] | None => Raise KeyError end.

Lemma po_line_spec : forall line, po_line line = esc_spec po_cls po_g line.
Proof.
  intros line. unfold po_line. rewrite po_escape_shape.
  change (po_unescape line) with (esc_fun po_g line).
  apply rsub_with_esc.
Qed.

(* ---- the token grammar of a string-list item (reListItem's documentation:
        escaped quotes etc, not quote, newline, backslash) and its meaning ---------------- *)
Inductive po_tok :=
| PPlain (c : N)                       (* any character except double quote, newline, backslash *)
| PEsc (c : N).                        (* backslash followed by one of: backslash t r n double-quote *)

Definition po_escape_chars : list N := [92; 116; 114; 110; 34]%N.

Definition po_tok_legal (t : po_tok) : bool :=
  match t with
  | PPlain c => negb (N.eqb c 34 || N.eqb c 10 || N.eqb c 92)
  | PEsc c => existsb (N.eqb c) po_escape_chars
  end.

Definition po_render (t : po_tok) : str :=
  match t with PPlain c => [c] | PEsc c => [92%N; c] end.

(* escaped backslash -> backslash, \t -> TAB, \r -> CR, \n -> LF, escaped quote -> quote *)
Definition po_meaning (t : po_tok) : str :=
  match t with
  | PPlain c => [c]
  | PEsc c =>
      if N.eqb c 116 then [9%N] else if N.eqb c 114 then [13%N]
      else if N.eqb c 110 then [10%N] else [c]
  end.

Definition po_item := list po_tok.
Definition render_item (it : po_item) : str := concat (map po_render it).
Definition meaning_item (it : po_item) : str := concat (map po_meaning it).

Lemma po_esc_legal : forall c, po_tok_legal (PEsc c) = true ->
  chr_ok false po_cls c = true /\ po_g c = Ok (po_meaning (PEsc c)).
Proof.
  intros c H. unfold po_tok_legal in H. apply existsb_exists in H. destruct H as [x [Hin Hx]].
  apply N.eqb_eq in Hx. subst x. simpl in Hin.
  destruct Hin as [<-|[<-|[<-|[<-|[<-|[]]]]]]; vm_compute; split; reflexivity.
Qed.

Lemma esc_spec_render : forall it, forallb po_tok_legal it = true ->
  esc_spec po_cls po_g (render_item it) = Ok (meaning_item it).
Proof.
  induction it as [|t it IH]; intros H; [reflexivity|].
  simpl in H. apply andb_true_iff in H. destruct H as [Ht Hit].
  specialize (IH Hit). unfold render_item, meaning_item in *. simpl concat.
  destruct t as [c|c].
  - simpl po_render. simpl app.
    assert (Hc : c <> 92%N).
    { simpl in Ht. apply negb_true_iff in Ht. apply orb_false_iff in Ht. destruct Ht as [_ Ht].
      apply N.eqb_neq. exact Ht. }
    rewrite esc_spec_skip.
    + rewrite IH. reflexivity.
    + unfold esc_here. destruct (concat (map po_render it)); [reflexivity|].
      rewrite (is_bs_neq c Hc). reflexivity.
  - destruct (po_esc_legal c Ht) as [Hcls Hg].
    simpl po_render. simpl app.
    assert (Hb : is_bs 92 = true) by (apply is_bs_iff; reflexivity).
    rewrite (esc_spec_hit po_cls po_g 92%N c _ Hb Hcls), Hg, IH. reflexivity.
Qed.

Lemma po_line_render : forall it, forallb po_tok_legal it = true ->
  po_line (render_item it) = Ok (meaning_item it).
Proof. intros it H. rewrite po_line_spec. apply esc_spec_render. exact H. Qed.

Theorem unescape_po : forall items : list po_item,
  forallb (forallb po_tok_legal) items = true ->
  eval_stringlist (map render_item items) = Ok (concat (map meaning_item items)).
Proof.
  induction items as [|it items IH]; intros H; [reflexivity|].
  simpl in H. apply andb_true_iff in H. destruct H as [H1 H2].
  simpl. rewrite (po_line_render it H1), (IH H2). reflexivity.
Qed.
