(* C02, properties: a file consisting of one record  key sep value newline  (value on one
   line, not ending in a backslash) parses to exactly that entity followed by the
   newline as whitespace.  Regex-specific: the proof follows the engine through the
   generated comment, whitespace, key, escaped-end and trailing-whitespace expressions
   with the class-loop lemmas (Proofs/ClassLoop.v, ClassLoop2.v). *)
From Coq Require Import NArith List Bool Arith Lia.
From CL Require Import Base.Sx Base.Res Base.Str Regex.Rx Regex.RxLemmas Model.Entry Model.Parse
  Model.ParseFormats Generated.RxParser Proofs.UnescapeProofs Proofs.SubLocal
  Proofs.ClassLoop Proofs.ClassLoop2 Proofs.C02Props Proofs.WalkProofs.
Import ListNotations.

Local Arguments Nat.ltb : simpl never.
Local Arguments Nat.leb : simpl never.
Local Arguments Nat.eqb : simpl never.
Local Arguments N.eqb : simpl never.
Local Arguments N.leb : simpl never.
Local Arguments chr_ok : simpl never.
Local Arguments run : simpl never.
Local Arguments fwd : simpl never.

(* ---- classes made of single characters -------------------------------------------------- *)
Definition mem (c : N) (l : list N) : bool := existsb (N.eqb c) l.
Definition points (l : list N) : cset := map (fun a => (a, a)) l.

Lemma in_ranges_points : forall l c, in_ranges c (points l) = mem c l.
Proof.
  induction l as [|a l IH]; intros c; [reflexivity|].
  unfold in_ranges, points, mem in *. simpl. rewrite IH. f_equal.
  destruct (N.eqb_spec c a) as [->|Hne].
  - rewrite N.leb_refl. reflexivity.
  - destruct (N.leb_spec a c); destruct (N.leb_spec c a); simpl; try reflexivity. lia.
Qed.

Lemma chr_ok_points : forall neg l c,
  chr_ok neg (points l) c = if neg then negb (mem c l) else mem c l.
Proof.
  intros neg l c. unfold chr_ok. rewrite in_ranges_points.
  destruct neg; destruct (mem c l); reflexivity.
Qed.

Lemma m_Rep : forall g lo hi r s k,
  m (Rep g lo hi r) s k = rep_loop (m r) g lo hi (lo + S (length (suf s))) 0 s k.
Proof. reflexivity. Qed.

Lemma m_Eol : forall multi s k, m (Eol multi) s k = if at_eol multi s then k s else Fail.
Proof. reflexivity. Qed.
Lemma m_EndStr : forall s k, m EndStr s k = match suf s with [] => k s | _ => Fail end.
Proof. reflexivity. Qed.

(* the final continuation of run_at with an accept-all test *)
Definition k0 : st -> out := fun s' => if (fun _ : st => true) s' then Done s' else Fail.
Lemma k0_done : forall s, k0 s = Done s.
Proof. reflexivity. Qed.

Lemma run_at_k0 : forall r z,
  run_at r z (fun _ => true) =
  match m r z k0 with
  | Fail => MNone
  | Done s' => MSome (mkres (pos z) (pos s') (caps s'))
  | NoFuel => MFuel
  end.
Proof. reflexivity. Qed.

(* ---- runs ----------------------------------------------------------------------------------- *)
Lemma run_nil : forall neg cls b, run neg cls b [] = 0.
Proof. reflexivity. Qed.

Lemma run_none_cons : forall neg cls c t,
  run neg cls None (c :: t) = if chr_ok neg cls c then S (run neg cls None t) else 0.
Proof. reflexivity. Qed.

Lemma run_ge_prefix : forall neg cls l rest,
  forallb (chr_ok neg cls) l = true -> length l <= run neg cls None (l ++ rest).
Proof.
  induction l as [|c l IH]; intros rest H; [simpl; lia|].
  simpl in H. apply andb_true_iff in H. destruct H as [Hc Hl].
  simpl app. rewrite run_none_cons, Hc. simpl. specialize (IH rest Hl). lia.
Qed.

(* a run inside a list whose last character is outside the class stops inside it *)
Lemma run_stops_inside : forall cls l rest,
  l <> [] -> chr_ok false cls (last l 0%N) = false ->
  exists c t, skipn (run false cls None (l ++ rest)) (l ++ rest) = c :: t /\ In c l /\
              chr_ok false cls c = false /\ run false cls None (l ++ rest) < length l.
Proof.
  induction l as [|a l IH]; intros rest Hne Hlast; [contradiction|].
  simpl app. rewrite run_none_cons.
  destruct (chr_ok false cls a) eqn:Ea.
  - destruct l as [|b l'].
    + simpl in Hlast. congruence.
    + destruct (IH rest) as [c [t [H1 [H2 [H3 H4]]]]]; [discriminate|exact Hlast|].
      exists c, t. simpl skipn. repeat split; auto; [right; exact H2|simpl in *; lia].
  - exists a, (l ++ rest). simpl. repeat split; auto. lia.
Qed.

(* every position before the end of a run holds a class character *)
Lemma run_char : forall neg cls l j, j < run neg cls None l ->
  exists c t, skipn j l = c :: t /\ chr_ok neg cls c = true.
Proof.
  intros neg cls. induction l as [|a l IH]; intros j Hj; [rewrite run_nil in Hj; lia|].
  rewrite run_none_cons in Hj. destruct (chr_ok neg cls a) eqn:Ea; [|lia].
  destruct j as [|j].
  - exists a, l. auto.
  - destruct (IH j) as [c [t [H1 H2]]]; [lia|]. exists c, t. auto.
Qed.

(* ---- moving the zipper ------------------------------------------------------------------------ *)
Lemma st_at_app : forall (a b : str), st_at (a ++ b) (length a) = mkst (rev a) b (length a) [].
Proof.
  intros a b. unfold st_at. rewrite firstn_app, Nat.sub_diag, firstn_all. simpl.
  rewrite app_nil_r, skipn_app_length. reflexivity.
Qed.

Lemma suf_fwd : forall n pr sf p, n <= length sf -> suf (fwd n (mkst pr sf p [])) = skipn n sf.
Proof. intros. rewrite fwd_mkst by auto. reflexivity. Qed.

(* ---- searching ---------------------------------------------------------------------------------- *)
Lemma search_skip_fails : forall R l rest pr p fuel,
  length l < fuel ->
  (forall i pr' p', i < length l ->
     run_at R (mkst pr' (skipn i l ++ rest) p' []) (fun _ => true) = MNone) ->
  search_from R fuel (mkst pr (l ++ rest) p []) None =
  search_from R (fuel - length l) (mkst (rev l ++ pr) rest (p + length l) []) None.
Proof.
  intros R. induction l as [|c l IH]; intros rest pr p fuel Hf Hfail.
  - simpl. rewrite Nat.sub_0_r, Nat.add_0_r. reflexivity.
  - destruct fuel as [|fu]; [lia|]. rewrite search_from_S. cbv beta iota. cbn [suf pos].
    change (fun s' : st => true) with (fun _ : st => true).
    pose proof (Hfail 0 pr p) as H0. simpl skipn in H0. simpl app. simpl app in H0.
    rewrite H0 by (simpl; lia).
    unfold advance. cbn [pre suf pos caps].
    rewrite IH.
    + simpl length. replace (S fu - S (length l)) with (fu - length l) by lia.
      simpl rev. rewrite <- app_assoc. simpl app.
      replace (S p + length l) with (p + S (length l)) by lia. reflexivity.
    + simpl in Hf. lia.
    + intros i pr' p' Hi. apply (Hfail (S i) pr' p'). simpl. lia.
Qed.

Lemma search_all_fail : forall R l pr p fuel,
  length l < fuel ->
  (forall i pr' p', i <= length l ->
     run_at R (mkst pr' (skipn i l) p' []) (fun _ => true) = MNone) ->
  search_from R fuel (mkst pr l p []) None = MNone.
Proof.
  intros R l pr p fuel Hf Hfail.
  rewrite <- (app_nil_r l). rewrite search_skip_fails; auto.
  - destruct (fuel - length l) as [|fu] eqn:E; [lia|]. rewrite search_from_S. cbv beta iota.
    cbn [suf pos]. change (fun s' : st => true) with (fun _ : st => true).
    pose proof (Hfail (length l) (rev l ++ pr) (p + length l)) as H. rewrite skipn_all in H.
    rewrite H by lia. reflexivity.
  - intros i pr' p' Hi. rewrite app_nil_r. apply Hfail. lia.
Qed.

Lemma fwd_mkst_caps : forall n pr sf p cs, n <= length sf ->
  fwd n (mkst pr sf p cs) = mkst (rev (firstn n sf) ++ pr) (skipn n sf) (p + n) cs.
Proof.
  induction n as [|n IH]; intros pr sf p cs H.
  - simpl. rewrite Nat.add_0_r. reflexivity.
  - destruct sf as [|c t]; [simpl in H; lia|].
    rewrite (fwd_S n (mkst pr (c :: t) p cs) c t eq_refl). unfold advance. cbn [pre suf pos caps].
    rewrite IH by (simpl in H; lia).
    simpl. rewrite <- app_assoc. simpl. f_equal. lia.
Qed.

(* ---- the character sets of the generated expressions ------------------------------------------ *)
Definition CM : list N := [35; 33]%N.                     (* # ! *)
Definition KF : list N := [35; 33; 32; 9; 13; 10]%N.      (* a key does not start with these *)
Definition KC : list N := [61; 58; 10]%N.                 (* nor contain these *)
Definition BL : list N := [32; 9]%N.                      (* blanks *)
Definition SC : list N := [58; 61]%N.                     (* : = *)
Definition WS : list N := [32; 9; 13; 10]%N.

Lemma mem_in : forall c l, mem c l = true -> In c l.
Proof.
  intros c l H. unfold mem in H. apply existsb_exists in H. destruct H as [x [Hin Hx]].
  apply N.eqb_eq in Hx. subst. exact Hin.
Qed.

Lemma blank_not_sc : forall c, mem c BL = true -> mem c SC = false.
Proof. intros c H. apply mem_in in H. simpl in H. destruct H as [<-|[<-|[]]]; reflexivity. Qed.
Lemma sc_not_blank : forall c, mem c SC = true -> mem c BL = false.
Proof. intros c H. apply mem_in in H. simpl in H. destruct H as [<-|[<-|[]]]; reflexivity. Qed.
Lemma kc_sc : forall c, mem c KC = false -> mem c SC = false.
Proof.
  intros c H. unfold mem, KC, SC in *. simpl in *.
  destruct (N.eqb c 61); [discriminate|]. destruct (N.eqb c 58); [discriminate|]. reflexivity.
Qed.

(* ---- the comment expression fails on a character that is not # or ! ---------------------------- *)
Lemma comment_fails : forall c rest pr p k, mem c CM = false ->
  m rx_props_comment (mkst pr (c :: rest) p []) k = Fail.
Proof.
  intros c rest pr p k H. unfold rx_props_comment.
  change [(35, 35); (33, 33)]%N with (points CM).
  rewrite m_Cat, m_Rep. simpl Nat.add. rewrite rep_loop_S.
  replace (0 <? 0) with false by reflexivity. cbv zeta beta iota.
  rewrite m_Cat, m_Chr. cbn [suf].
  rewrite (chr_ok_points false CM c), H. rewrite orelse_fail.
  rewrite m_Cat, m_Chr. cbn [suf]. rewrite (chr_ok_points false CM c), H. reflexivity.
Qed.

Lemma run_zero : forall neg cls c rest, chr_ok neg cls c = false -> run neg cls None (c :: rest) = 0.
Proof. intros. rewrite run_none_cons, H. reflexivity. Qed.

(* ---- the whitespace expression -------------------------------------------------------------------- *)
Lemma ws_fails : forall c rest pr p k, mem c WS = false ->
  m rx_props_ws (mkst pr (c :: rest) p []) k = Fail.
Proof.
  intros c rest pr p k H. unfold rx_props_ws.
  change [(32, 32); (9, 9); (13, 13); (10, 10)]%N with (points WS).
  assert (Hr : run false (points WS) None (c :: rest) = 0)
    by (apply run_zero; rewrite chr_ok_points; exact H).
  rewrite (m_rep_class_desc false (points WS) 1 None); [|exact I|].
  - cbn [suf]. rewrite Hr. reflexivity.
  - cbn [suf]. rewrite Hr. intros j Hj. lia.
Qed.

Lemma ws_newline : forall pr p,
  exists s', m rx_props_ws (mkst pr [10%N] p []) k0 = Done s' /\ pos s' = p + 1 /\ caps s' = [].
Proof.
  intros pr p. unfold rx_props_ws.
  change [(32, 32); (9, 9); (13, 13); (10, 10)]%N with (points WS).
  assert (Hr : run false (points WS) None [10%N] = 1) by reflexivity.
  rewrite (m_rep_class_max false (points WS) 1 None); [|exact I|].
  - cbn [suf]. rewrite Hr. replace (1 <=? 1) with true by reflexivity.
    rewrite fwd_mkst by (simpl; lia). rewrite k0_done. eexists. split; [reflexivity|]. split; reflexivity.
  - cbn [suf]. rewrite Hr, k0_done. discriminate.
Qed.

(* ---- the key expression ------------------------------------------------------------------------------ *)
Definition REST : rx :=
  Cat (Rep true 0 None (Chr false (points BL)))
      (Cat (Chr false (points SC)) (Rep true 0 None (Chr false (points BL)))).

Lemma key_shape : rx_props_key =
  Cat (Grp 1 (Cat (Chr true (points KF)) (Rep false 0 None (Chr true (points KC))))) REST.
Proof. reflexivity. Qed.

Definition K2 (k : st -> out) : st -> out :=
  fun s' => m (Cat (Chr false (points SC)) (Rep true 0 None (Chr false (points BL)))) s' k.

Lemma K2_blank : forall pr c t p cs k, mem c SC = false -> K2 k (mkst pr (c :: t) p cs) = Fail.
Proof.
  intros. unfold K2. rewrite m_Cat, m_Chr. cbn [suf]. rewrite chr_ok_points, H. reflexivity.
Qed.

(* inside the key: blanks are followed by a key character, never by : or = *)
Lemma REST_fails : forall l X pr p cs k,
  l <> [] -> mem (last l 0%N) BL = false -> (forall c, In c l -> mem c SC = false) ->
  m REST (mkst pr (l ++ X) p cs) k = Fail.
Proof.
  intros l X pr p cs k Hne Hlast Hsc. unfold REST. rewrite m_Cat. fold (K2 k).
  destruct (run_stops_inside (points BL) l X Hne) as [c [t [H1 [H2 [H3 H4]]]]];
    [rewrite chr_ok_points; exact Hlast|].
  pose proof (run_le false (points BL) None (l ++ X)) as Hle.
  rewrite (m_rep_class_desc false (points BL) 0 None); [|exact I|].
  - cbn [suf]. replace (0 <=? run false (points BL) None (l ++ X)) with true by reflexivity.
    rewrite fwd_mkst_caps by exact Hle. rewrite H1. apply K2_blank. apply Hsc. exact H2.
  - cbn [suf]. intros j Hj _.
    destruct (run_char false (points BL) (l ++ X) j Hj) as [c' [t' [E1 E2]]].
    rewrite fwd_mkst_caps by lia. rewrite E1. apply K2_blank.
    rewrite chr_ok_points in E2. apply blank_not_sc. exact E2.
Qed.

(* at the separator *)
Lemma REST_ok : forall b1 sc b2 after pr p cs,
  forallb (fun c => mem c BL) b1 = true -> mem sc SC = true ->
  forallb (fun c => mem c BL) b2 = true -> head_is (fun c => mem c BL) after = false ->
  exists s', m REST (mkst pr (b1 ++ sc :: b2 ++ after) p cs) k0 = Done s' /\
             pos s' = p + length b1 + 1 + length b2 /\ caps s' = cs /\ suf s' = after.
Proof.
  intros b1 sc b2 after pr p cs Hb1 Hsc Hb2 Hafter. unfold REST. rewrite m_Cat. fold (K2 k0).
  assert (F1 : forallb (chr_ok false (points BL)) b1 = true).
  { rewrite (forallb_ext' _ (fun c => mem c BL)); auto. intros c. apply chr_ok_points. }
  assert (F2 : forallb (chr_ok false (points BL)) b2 = true).
  { rewrite (forallb_ext' _ (fun c => mem c BL)); auto. intros c. apply chr_ok_points. }
  assert (R1 : run false (points BL) None (b1 ++ sc :: b2 ++ after) = length b1).
  { apply run_exact_unbounded; auto. unfold head_is. rewrite chr_ok_points. apply sc_not_blank. exact Hsc. }
  assert (R2 : run false (points BL) None (b2 ++ after) = length b2).
  { apply run_exact_unbounded; auto.
    rewrite (head_is_ext _ (fun c => mem c BL)); auto. intros c. apply chr_ok_points. }
  assert (Hk : K2 k0 (fwd (length b1) (mkst pr (b1 ++ sc :: b2 ++ after) p cs)) =
               Done (mkst (rev (firstn (length b2) (b2 ++ after)) ++ sc :: rev (firstn (length b1) (b1 ++ sc :: b2 ++ after)) ++ pr)
                          (skipn (length b2) (b2 ++ after)) (S (p + length b1) + length b2) cs)).
  { rewrite fwd_mkst_caps by (rewrite app_length; lia).
    rewrite skipn_app_length. unfold K2. rewrite m_Cat, m_Chr. cbn [suf].
    rewrite chr_ok_points, Hsc. unfold advance. cbn [pre suf pos caps].
    rewrite (m_rep_class false (points BL) 0 None); [| intros s'; rewrite k0_done; discriminate | exact I].
    cbn [suf]. rewrite R2. replace (0 <=? length b2) with true by reflexivity.
    rewrite fwd_mkst_caps by (rewrite app_length; lia). rewrite k0_done. reflexivity. }
  rewrite (m_rep_class_max false (points BL) 0 None); [|exact I|].
  - cbn [suf]. rewrite R1. replace (0 <=? length b1) with true by reflexivity.
    rewrite Hk. eexists. split; [reflexivity|]. cbn [pos caps suf].
    rewrite skipn_app_length. repeat split; auto. lia.
  - cbn [suf]. rewrite R1, Hk. discriminate.
Qed.

Lemma last_skipn : forall (l : str) i d, i < length l -> last (skipn i l) d = last l d.
Proof.
  induction l as [|a l IH]; intros i d H; [simpl in H; lia|].
  destruct i as [|i]; [reflexivity|]. simpl skipn. rewrite IH by (simpl in H; lia).
  destruct l; [simpl in H; lia|reflexivity].
Qed.

Lemma In_skipn : forall (l : str) i c, In c (skipn i l) -> In c l.
Proof.
  induction l as [|a l IH]; intros i c H; destruct i; simpl in *; auto.
  right. eapply IH. exact H.
Qed.

Lemma skipn_app_le : forall (a b : str) i, i <= length a -> skipn i (a ++ b) = skipn i a ++ b.
Proof.
  intros a b i H. rewrite skipn_app. replace (i - length a) with 0 by lia. reflexivity.
Qed.

(* the whole key expression on  key sep after *)
Lemma key_matches : forall c0 ktl b1 sc b2 after pr p,
  mem c0 KF = false ->
  forallb (fun c => negb (mem c KC)) (c0 :: ktl) = true ->
  mem (last (c0 :: ktl) 0%N) BL = false ->
  forallb (fun c => mem c BL) b1 = true -> mem sc SC = true ->
  forallb (fun c => mem c BL) b2 = true -> head_is (fun c => mem c BL) after = false ->
  exists s', m rx_props_key (mkst pr (c0 :: ktl ++ b1 ++ sc :: b2 ++ after) p []) k0 = Done s' /\
    pos s' = p + S (length ktl) + length b1 + 1 + length b2 /\
    caps s' = [(1, (p, p + S (length ktl)))] /\ suf s' = after.
Proof.
  intros c0 ktl b1 sc b2 after pr p Hc0 Hkc Hlast Hb1 Hsc Hb2 Hafter.
  set (S0 := b1 ++ sc :: b2 ++ after).
  rewrite key_shape, m_Cat, m_Grp, m_Cat, m_Chr. cbn [suf pos].
  rewrite chr_ok_points, Hc0. simpl negb. cbv iota.
  unfold advance. cbn [pre suf pos caps].
  simpl in Hkc. apply andb_true_iff in Hkc. destruct Hkc as [_ Hkt].
  assert (FK : forallb (chr_ok true (points KC)) ktl = true).
  { rewrite (forallb_ext' _ (fun c => negb (mem c KC))); auto. intros c. apply chr_ok_points. }
  set (k1 := fun s' : st => (fun s'0 : st => m REST s'0 k0) (set_cap 1 (p, pos s') s')).
  assert (Hlen : forall i, i <= length ktl -> i <= length (ktl ++ S0))
    by (intros; rewrite app_length; lia).
  (* at the end of the key *)
  destruct (REST_ok b1 sc b2 after (rev (firstn (length ktl) (ktl ++ S0)) ++ c0 :: pr)
              (S p + length ktl) [(1, (p, S p + length ktl))] Hb1 Hsc Hb2 Hafter)
    as [s' [E1 [E2 [E3 E4]]]].
  assert (Hend : k1 (fwd (length ktl) (mkst (c0 :: pr) (ktl ++ S0) (S p) [])) = Done s').
  { unfold k1. rewrite fwd_mkst_caps by auto. unfold set_cap. cbn [pre suf pos caps].
    rewrite skipn_app_length. exact E1. }
  rewrite (m_rep_class_lazy true (points KC) (length ktl)).
  - fold k1. rewrite Hend. exists s'. split; [reflexivity|]. rewrite E2, E3. repeat split; auto.
    + lia.
    + replace (S p + length ktl) with (p + S (length ktl)) by lia. reflexivity.
  - cbn [suf]. apply run_ge_prefix. exact FK.
  - intros i Hi. fold k1. unfold k1. rewrite fwd_mkst_caps by (apply Hlen; lia).
    unfold set_cap. cbn [pre suf pos caps]. rewrite skipn_app_le by lia.
    apply REST_fails.
    + intro E. apply (f_equal (@length N)) in E. rewrite skipn_length in E. simpl in E. lia.
    + rewrite last_skipn by exact Hi. destruct ktl as [|a ktl']; [simpl in Hi; lia|]. exact Hlast.
    + intros c Hin. apply In_skipn in Hin. apply kc_sc.
      rewrite forallb_forall in Hkt. specialize (Hkt c Hin). apply negb_true_iff in Hkt. exact Hkt.
  - fold k1. rewrite Hend. discriminate.
Qed.

(* ---- omatch / osearch on a text split at the offset ------------------------------------------------ *)
Lemma omatch_split : forall r (a b : str),
  omatch r (a ++ b) (length a) =
  match run_at r (mkst (rev a) b (length a) []) (fun _ => true) with
  | MSome x => Some x
  | _ => None
  end.
Proof.
  intros r a b. unfold omatch, rmatch.
  replace (length (a ++ b) <? length a) with false
    by (symmetry; apply Nat.ltb_ge; rewrite app_length; lia).
  rewrite st_at_app. reflexivity.
Qed.

Lemma omatch_at0 : forall r (s : str),
  omatch r s 0 =
  match run_at r (mkst [] s 0 []) (fun _ => true) with MSome x => Some x | _ => None end.
Proof. intros r s. exact (omatch_split r [] s). Qed.

Lemma rsearch_split : forall r (a b : str),
  rsearch r (a ++ b) (length a) =
  search_from r (S (length b)) (mkst (rev a) b (length a) []) None.
Proof.
  intros r a b. unfold rsearch.
  replace (length (a ++ b) <? length a) with false
    by (symmetry; apply Nat.ltb_ge; rewrite app_length; lia).
  rewrite st_at_app, app_length. replace (length a + length b - length a) with (length b) by lia.
  reflexivity.
Qed.

(* ---- the escaped-end expression finds nothing in a line that does not end in a backslash ------------ *)
Lemma run_all : forall neg cls l, run neg cls None l = length l -> forallb (chr_ok neg cls) l = true.
Proof.
  induction l as [|c l IH]; intros H; [reflexivity|].
  rewrite run_none_cons in H. destruct (chr_ok neg cls c) eqn:E; [|simpl in H; lia].
  simpl. rewrite E. apply IH. simpl in H. lia.
Qed.

Lemma forallb_last : forall (f : N -> bool) l d, l <> [] -> forallb f l = true -> f (last l d) = true.
Proof.
  induction l as [|a l IH]; intros d Hne H; [contradiction|].
  simpl in H. apply andb_true_iff in H. destruct H as [Ha Hl].
  destruct l as [|b l']; [exact Ha|]. apply IH; [discriminate|exact Hl].
Qed.

Lemma skipn_head_in : forall (l X : str) j c t, j < length l -> skipn j (l ++ X) = c :: t -> In c l.
Proof.
  induction l as [|a l IH]; intros X j c t Hj H; [simpl in Hj; lia|].
  destruct j as [|j]; simpl in H.
  - inversion H; subst. left. reflexivity.
  - right. eapply IH; [|exact H]. simpl in Hj. lia.
Qed.

Lemma ee_attempt_fails : forall sf pr p,
  (forall c, In c sf -> c <> 10%N) -> (sf = [] \/ last sf 0%N <> 92%N) ->
  run_at rx_props_escaped_end (mkst pr sf p []) (fun _ => true) = MNone.
Proof.
  intros sf pr p Hnl Hlast. rewrite run_at_k0. unfold rx_props_escaped_end.
  change [(92, 92)]%N with (points [92%N]). rewrite m_Cat.
  pose proof (run_le false (points [92%N]) None sf) as Hle.
  assert (Hbs : forall j, j < run false (points [92%N]) None sf ->
                m (Eol false) (fwd j (mkst pr sf p [])) k0 = Fail).
  { intros j Hj. destruct (run_char _ _ _ _ Hj) as [c [t [E1 E2]]].
    rewrite fwd_mkst by lia. rewrite m_Eol. unfold at_eol. cbn [suf]. rewrite E1.
    rewrite chr_ok_points in E2. apply mem_in in E2. simpl in E2. destruct E2 as [<-|[]].
    reflexivity. }
  rewrite (m_rep_class_desc false (points [92%N]) 1 None); [|exact I|].
  - cbn [suf]. destruct (1 <=? run false (points [92%N]) None sf) eqn:E1; [|reflexivity].
    apply Nat.leb_le in E1. rewrite fwd_mkst by lia. rewrite m_Eol. unfold at_eol. cbn [suf].
    destruct (skipn (run false (points [92%N]) None sf) sf) as [|c t] eqn:Es.
    + (* the run reaches the end: the line ends in a backslash *)
      exfalso. assert (Hall : run false (points [92%N]) None sf = length sf).
      { apply (f_equal (@length N)) in Es. rewrite skipn_length in Es. cbn [length] in Es. lia. }
      apply run_all in Hall. destruct Hlast as [->|Hl]; [rewrite run_nil in E1; lia|].
      assert (Hne : sf <> []) by (intro; subst; rewrite run_nil in E1; lia).
      pose proof (forallb_last _ sf 0%N Hne Hall) as HL. rewrite chr_ok_points in HL.
      apply mem_in in HL. simpl in HL. destruct HL as [HL|[]]. congruence.
    + assert (Hin : In c sf).
      { rewrite <- (firstn_skipn (run false (points [92%N]) None sf) sf). apply in_or_app. right.
        rewrite Es. left. reflexivity. }
      apply Hnl in Hin. destruct (N.eqb_spec c nlc) as [->|_]; [contradiction|reflexivity].
  - cbn [suf]. intros j Hj _. apply Hbs. exact Hj.
Qed.

Lemma ee_search_none : forall (a raw : str),
  (forall c, In c raw -> c <> 10%N) -> (raw = [] \/ last raw 0%N <> 92%N) ->
  osearch_end rx_props_escaped_end (a ++ raw ++ [10%N]) (length a) (length a + length raw) = None.
Proof.
  intros a raw Hnl Hlast. unfold osearch_end, rsearch_end.
  replace (firstn (length a + length raw) (a ++ raw ++ [10%N])) with (a ++ raw).
  2:{ rewrite app_assoc, firstn_app, <- app_length, firstn_all, Nat.sub_diag. simpl.
      rewrite app_nil_r. reflexivity. }
  rewrite rsearch_split. rewrite search_all_fail; [reflexivity|lia|].
  intros i pr' p' Hi. apply ee_attempt_fails.
  - intros c Hc. apply Hnl. eapply In_skipn. exact Hc.
  - destruct (Nat.eq_dec i (length raw)) as [->|Hne]; [left; apply skipn_all|].
    right. rewrite last_skipn by lia. destruct Hlast as [->|H]; [simpl in *; lia|exact H].
Qed.

(* ---- the trailing-whitespace expression finds the end of the value ---------------------------------- *)
Definition KT : st -> out := fun s' => m (Alt (Chr false (points [10%N])) EndStr) s' k0.

Lemma KT_fails : forall pr c t p, c <> 10%N -> KT (mkst pr (c :: t) p []) = Fail.
Proof.
  intros pr c t p Hc. unfold KT. rewrite m_Alt, m_Chr. cbn [suf]. rewrite chr_ok_points.
  assert (E : mem c [10%N] = false).
  { unfold mem. simpl. destruct (N.eqb_spec c 10); [contradiction|reflexivity]. }
  rewrite E, orelse_fail. reflexivity.
Qed.

Lemma tw_shape : rx_props_trailing_ws =
  Cat (Rep true 0 None (Chr false (points WS))) (Alt (Chr false (points [10%N])) EndStr).
Proof. reflexivity. Qed.

Lemma tw_attempt_fails : forall l pr p,
  l <> [] -> mem (last l 0%N) WS = false -> (forall c, In c l -> c <> 10%N) ->
  run_at rx_props_trailing_ws (mkst pr (l ++ [10%N]) p []) (fun _ => true) = MNone.
Proof.
  intros l pr p Hne Hlast Hnl. rewrite run_at_k0, tw_shape, m_Cat. fold KT.
  destruct (run_stops_inside (points WS) l [10%N] Hne) as [c [t [H1 [H2 [H3 H4]]]]];
    [rewrite chr_ok_points; exact Hlast|].
  pose proof (run_le false (points WS) None (l ++ [10%N])) as Hle.
  rewrite (m_rep_class_desc false (points WS) 0 None); [|exact I|].
  - cbn [suf]. replace (0 <=? run false (points WS) None (l ++ [10%N])) with true by reflexivity.
    rewrite fwd_mkst by exact Hle. rewrite H1, KT_fails; [reflexivity|]. apply Hnl. exact H2.
  - cbn [suf]. intros j Hj _. rewrite fwd_mkst by lia.
    destruct (skipn j (l ++ [10%N])) as [|c' t'] eqn:Es.
    + apply (f_equal (@length N)) in Es. rewrite skipn_length, app_length in Es. cbn [length] in Es. lia.
    + rewrite KT_fails; [reflexivity|]. apply Hnl. eapply skipn_head_in; [|exact Es]. lia.
Qed.

Lemma tw_attempt_newline : forall pr p,
  run_at rx_props_trailing_ws (mkst pr [10%N] p []) (fun _ => true) = MSome (mkres p (p + 1) []).
Proof.
  intros pr p. rewrite run_at_k0, tw_shape, m_Cat. fold KT.
  assert (Hr : run false (points WS) None [10%N] = 1) by reflexivity.
  assert (Hk : KT (fwd 1 (mkst pr [10%N] p [])) = Done (mkst (10%N :: pr) [] (p + 1) [])).
  { rewrite fwd_mkst by (simpl; lia). unfold KT. rewrite m_Alt, m_Chr. cbn [suf]. simpl skipn.
    cbv iota. rewrite orelse_fail, m_EndStr. reflexivity. }
  rewrite (m_rep_class_max false (points WS) 0 None); [|exact I|].
  - cbn [suf]. rewrite Hr, Hk. reflexivity.
  - cbn [suf]. rewrite Hr, Hk. discriminate.
Qed.

Lemma tw_search : forall (a raw : str),
  (forall c, In c raw -> c <> 10%N) -> (raw = [] \/ mem (last raw 0%N) WS = false) ->
  exists x, osearch rx_props_trailing_ws (a ++ raw ++ [10%N]) (length a) = Some x /\
            m_start x = length a + length raw.
Proof.
  intros a raw Hnl Hlast. unfold osearch. rewrite rsearch_split.
  rewrite search_skip_fails.
  - rewrite app_length. simpl length.
    replace (S (length raw + 1) - length raw) with 2 by lia.
    rewrite search_from_S. cbv beta iota. cbn [suf pos].
    change (fun s' : st => true) with (fun _ : st => true).
    rewrite tw_attempt_newline. eexists. split; reflexivity.
  - rewrite app_length. simpl. lia.
  - intros i pr' p' Hi. apply tw_attempt_fails.
    + intro E. apply (f_equal (@length N)) in E. rewrite skipn_length in E. simpl in E. lia.
    + rewrite last_skipn by exact Hi. destruct Hlast as [->|H]; [simpl in Hi; lia|exact H].
    + intros c Hc. apply Hnl. eapply In_skipn. exact Hc.
Qed.

(* ---- find -------------------------------------------------------------------------------------------- *)
Lemma find_from_app : forall (l : str) i, (forall c, In c l -> c <> 10%N) ->
  find_from 10%N (l ++ [10%N]) i = Some (i + length l).
Proof.
  induction l as [|a l IH]; intros i H.
  - simpl. rewrite Nat.add_0_r. reflexivity.
  - simpl. destruct (N.eqb_spec a 10) as [E|_]; [exfalso; apply (H a); [left; reflexivity|exact E]|].
    rewrite IH by (intros c Hc; apply H; right; exact Hc). f_equal. lia.
Qed.

Lemma find_char_split : forall (a raw : str), (forall c, In c raw -> c <> 10%N) ->
  find_char 10%N (a ++ raw ++ [10%N]) (length a) = Some (length a + length raw).
Proof.
  intros a raw H. unfold find_char. rewrite skipn_app_length. apply find_from_app. exact H.
Qed.

(* ---- one record ---------------------------------------------------------------------------------------- *)
Definition legal_key (key : str) : bool :=
  match key with
  | [] => false
  | c0 :: _ => negb (mem c0 KF) && forallb (fun c => negb (mem c KC)) key &&
               negb (mem (last key 0%N) BL)
  end.

Definition legal_sep (b1 : str) (sc : N) (b2 : str) : bool :=
  forallb (fun c => mem c BL) b1 && mem sc SC && forallb (fun c => mem c BL) b2.

(* a value on one line: no newline or carriage return, no blank at either end, no
   backslash at the end *)
Definition legal_raw1 (raw : str) : bool :=
  forallb (fun c => negb (mem c [10; 13]%N)) raw &&
  match raw with
  | [] => true
  | c :: _ => negb (mem c BL) && negb (mem (last raw 0%N) [32; 9; 92]%N)
  end.

Definition record_text (key b1 : str) (sc : N) (b2 raw : str) : str :=
  key ++ b1 ++ sc :: b2 ++ raw ++ [10%N].

Section OneRecord.
Variables (c0 : N) (ktl b1 : str) (sc : N) (b2 raw : str).
Hypothesis Hkey : legal_key (c0 :: ktl) = true.
Hypothesis Hsep : legal_sep b1 sc b2 = true.
Hypothesis Hraw : legal_raw1 raw = true.

Let head := c0 :: ktl ++ b1 ++ sc :: b2.
Let T := record_text (c0 :: ktl) b1 sc b2 raw.
Let off := length head.
Let n := off + length raw.

Lemma T_split : T = head ++ raw ++ [10%N].
Proof.
  unfold T, record_text, head. simpl. f_equal. rewrite <- !app_assoc. simpl. reflexivity.
Qed.

Lemma T_key_form : T = c0 :: ktl ++ b1 ++ sc :: b2 ++ (raw ++ [10%N]).
Proof. reflexivity. Qed.

Lemma off_eq : off = S (length ktl) + length b1 + 1 + length b2.
Proof. unfold off, head. simpl. rewrite !app_length. simpl. lia. Qed.

Lemma key_facts :
  mem c0 KF = false /\ forallb (fun c => negb (mem c KC)) (c0 :: ktl) = true /\
  mem (last (c0 :: ktl) 0%N) BL = false.
Proof.
  unfold legal_key in Hkey. apply andb_true_iff in Hkey. destruct Hkey as [H12 H3].
  apply andb_true_iff in H12. destruct H12 as [H1 H2].
  apply negb_true_iff in H1, H3. auto.
Qed.

Lemma sep_facts : forallb (fun c => mem c BL) b1 = true /\ mem sc SC = true /\
                  forallb (fun c => mem c BL) b2 = true.
Proof.
  unfold legal_sep in Hsep. apply andb_true_iff in Hsep. destruct Hsep as [H12 H3].
  apply andb_true_iff in H12. destruct H12 as [H1 H2]. auto.
Qed.

Lemma raw_facts :
  (forall c, In c raw -> c <> 10%N) /\ head_is (fun c => mem c BL) (raw ++ [10%N]) = false /\
  (raw = [] \/ last raw 0%N <> 92%N) /\ (raw = [] \/ mem (last raw 0%N) WS = false).
Proof.
  unfold legal_raw1 in Hraw. apply andb_true_iff in Hraw. destruct Hraw as [H1 H2].
  rewrite forallb_forall in H1.
  assert (Hno : forall c, In c raw -> c <> 10%N /\ c <> 13%N).
  { intros c Hc. specialize (H1 c Hc). apply negb_true_iff in H1. unfold mem in H1. simpl in H1.
    destruct (N.eqb_spec c 10); [discriminate|]. destruct (N.eqb_spec c 13); [discriminate|]. auto. }
  split; [intros c Hc; apply Hno; exact Hc|].
  destruct raw as [|r0 rtl] eqn:Er; [repeat split; auto|].
  apply andb_true_iff in H2. destruct H2 as [H2 H3]. apply negb_true_iff in H2, H3.
  split; [exact H2|].
  assert (Hl : In (last (r0 :: rtl) 0%N) (r0 :: rtl)).
  { clear. generalize r0. induction rtl as [|a l IH]; intros r; [left; reflexivity|].
    right. apply IH. }
  destruct (Hno _ Hl) as [L1 L2].
  set (L := last (r0 :: rtl) 0%N) in *.
  unfold mem in H3. cbn [existsb] in H3.
  destruct (N.eqb_spec L 32) as [|N32]; [discriminate|].
  destruct (N.eqb_spec L 9) as [|N9]; [discriminate|].
  destruct (N.eqb_spec L 92) as [|N92]; [discriminate|].
  split; [right; exact N92|]. right. unfold mem, WS. cbn [existsb].
  destruct (N.eqb_spec L 32); [contradiction|].
  destruct (N.eqb_spec L 9); [contradiction|].
  destruct (N.eqb_spec L 13); [contradiction|].
  destruct (N.eqb_spec L 10); [contradiction|]. reflexivity.
Qed.

Lemma c0_facts : mem c0 CM = false /\ mem c0 WS = false.
Proof.
  destruct key_facts as [H _]. unfold mem, KF, CM, WS in *. simpl in *.
  destruct (N.eqb c0 35); [discriminate|]. destruct (N.eqb c0 33); [discriminate|].
  destruct (N.eqb c0 32); [discriminate|]. destruct (N.eqb c0 9); [discriminate|].
  destruct (N.eqb c0 13); [discriminate|]. destruct (N.eqb c0 10); [discriminate|]. auto.
Qed.

Definition the_entity : entry :=
  mkentry KEntity (0, n) (Some (0, S (length ktl))) (Some (off, n)) None None.

Lemma first_entry : gn_properties T 0 = the_entity.
Proof.
  destruct key_facts as [K1 [K2 K3]]. destruct sep_facts as [S1 [S2 S3]].
  destruct raw_facts as [R1 [R2 [R3 R4]]]. destruct c0_facts as [C1 C2].
  unfold gn_properties, get_next_properties.
  (* no comment, no whitespace *)
  assert (Ec : omatch rx_props_comment T 0 = None).
  { rewrite omatch_at0, run_at_k0, T_key_form, comment_fails by exact C1. reflexivity. }
  assert (Ew : omatch rx_props_ws T 0 = None).
  { rewrite omatch_at0, run_at_k0, T_key_form, ws_fails by exact C2. reflexivity. }
  rewrite Ec, Ew.
  (* the key *)
  destruct (key_matches c0 ktl b1 sc b2 (raw ++ [10%N]) [] 0 K1 K2 K3 S1 S2 S3 R2)
    as [s' [M1 [M2 [M3 M4]]]].
  assert (Ek : omatch rx_props_key T 0 = Some (mkres 0 off [(1, (0, S (length ktl)))])).
  { rewrite omatch_at0, run_at_k0, T_key_form. rewrite M1. cbn [pos]. rewrite M2, M3, off_eq.
    reflexivity. }
  rewrite Ek. cbn [m_end m_start].
  (* the value *)
  assert (Ev : value_loop rx_props_escaped_end (S (length T)) T off off = (n, off)).
  { simpl value_loop. rewrite T_split. unfold off at 1 3.
    rewrite find_char_split by exact R1. unfold off at 1.
    rewrite ee_search_none by auto. reflexivity. }
  rewrite Ev. cbv beta iota zeta.
  destruct (tw_search head raw R1 R4) as [x [X1 X2]].
  assert (X : osearch rx_props_trailing_ws T off = Some x) by (rewrite T_split; exact X1).
  rewrite X. change (length head + length raw) with n in X2. rewrite X2.
  unfold the_entity, group. cbn [m_caps get_cap]. unfold g_props_key_key.
  replace (Nat.eqb 1 1) with true by reflexivity. reflexivity.
Qed.

Lemma second_entry : gn_properties T n = mk_white (n, S n).
Proof.
  unfold gn_properties, get_next_properties.
  assert (Hn : n = length (head ++ raw)) by (unfold n, off; rewrite app_length; reflexivity).
  assert (Ts : T = (head ++ raw) ++ [10%N]) by (rewrite T_split, app_assoc; reflexivity).
  assert (Ec : omatch rx_props_comment T n = None).
  { rewrite Ts, Hn, omatch_split, run_at_k0, comment_fails by reflexivity. reflexivity. }
  rewrite Ec.
  destruct (ws_newline (rev (head ++ raw)) n) as [s' [W1 [W2 W3]]].
  assert (Ew : omatch rx_props_ws T n = Some (mkres n (n + 1) [])).
  { rewrite Ts, Hn, omatch_split, run_at_k0. rewrite <- Hn. rewrite W1. cbn [pos]. rewrite W2, W3.
    reflexivity. }
  rewrite Ew. unfold mspan. cbn [m_start m_end]. replace (n + 1) with (S n) by lia. reflexivity.
Qed.

Theorem one_record : walk_properties T = Ok [the_entity; mk_white (n, S n)].
Proof.
  assert (Hlen : length T = S n).
  { rewrite T_split. unfold n, off. rewrite !app_length. simpl. lia. }
  unfold walk_properties, walk. rewrite walk_loop_S.
  replace (0 <? length T) with true by (symmetry; apply Nat.ltb_lt; lia).
  unfold stateless at 1. rewrite first_entry. cbv iota beta. cbn [the_entity e_span snd].
  rewrite Hlen. rewrite walk_loop_S. rewrite Hlen.
  replace (n <? S n) with true by (symmetry; apply Nat.ltb_lt; lia).
  unfold stateless at 1. rewrite second_entry. cbv iota beta. cbn [mk_white e_span snd].
  rewrite walk_loop_done by lia. reflexivity.
Qed.
End OneRecord.

(* ---- the statement without section variables --------------------------------------------------------- *)
Lemma slice_mid : forall (a b c : str), slice (a ++ b ++ c) (length a) (length a + length b) = b.
Proof.
  intros a b c. rewrite slice_app0. rewrite firstn_app, Nat.sub_diag, firstn_all. simpl.
  apply app_nil_r.
Qed.

Theorem roundtrip_one : forall (key b1 : str) (sc : N) (b2 raw : str),
  legal_key key = true -> legal_sep b1 sc b2 = true -> legal_raw1 raw = true ->
  let sep := b1 ++ sc :: b2 in
  let s := key ++ sep ++ raw ++ [10%N] in
  let a := length key in
  let b := a + length sep in
  let n := b + length raw in
  walk_properties s =
    Ok [mkentry KEntity (0, n) (Some (0, a)) (Some (b, n)) None None; mk_white (n, S n)] /\
  slice s 0 a = key /\ slice s b n = raw.
Proof.
  intros key b1 sc b2 raw Hk Hs Hr sep s a b n.
  destruct key as [|c0 ktl]; [discriminate|].
  pose proof (one_record c0 ktl b1 sc b2 raw Hk Hs Hr) as H.
  assert (Es : s = record_text (c0 :: ktl) b1 sc b2 raw).
  { unfold s, sep, record_text. rewrite <- !app_assoc. reflexivity. }
  assert (Eb : b = length (c0 :: ktl ++ b1 ++ sc :: b2)).
  { unfold b, a, sep. simpl. rewrite !app_length. simpl. lia. }
  split; [|split].
  - rewrite Es, H. unfold the_entity. rewrite <- Eb. fold n. reflexivity.
  - exact (slice_mid [] (c0 :: ktl) (sep ++ raw ++ [10%N])).
  - unfold s, b, n. rewrite app_assoc. unfold b, a. rewrite <- app_length. apply slice_mid.
Qed.

(* ---- the same with the values: key, raw_val, val of the one entity --------------------------------- *)
From CL Require Import Model.Unescape.

Theorem record_view : forall (html : str -> str) (key b1 : str) (sc : N) (b2 : str) (ts : list ptok),
  legal_key key = true -> legal_sep b1 sc b2 = true ->
  toks_ok ts = true -> legal_raw1 (render_toks ts) = true ->
  let raw := render_toks ts in
  let sep := b1 ++ sc :: b2 in
  views html VProps (key ++ sep ++ raw ++ [10%N]) =
  Ok [mkview KEntity (key ++ sep ++ raw) (KStr key) (Some raw) (Ok (Some (meaning_toks ts))) None;
      mkview KWhitespace [10%N] (KStr [10%N]) (Some [10%N]) (Ok (Some [10%N])) None].
Proof.
  intros html key b1 sc b2 ts Hk Hs Ht Hr raw sep.
  destruct (roundtrip_one key b1 sc b2 raw Hk Hs Hr) as [Hw [Hkey Hraw]].
  fold sep in Hw, Hkey, Hraw.
  set (s := key ++ sep ++ raw ++ [10%N]) in *.
  set (a := length key) in *. set (b := a + length sep) in *. set (n := b + length raw) in *.
  assert (Hn : n = length (key ++ sep ++ raw)).
  { unfold n, b, a. rewrite !app_length. lia. }
  assert (Es : s = (key ++ sep ++ raw) ++ [10%N]).
  { unfold s. rewrite <- !app_assoc. reflexivity. }
  assert (Hall : slice s 0 n = key ++ sep ++ raw).
  { rewrite Es, Hn. rewrite <- (app_nil_r [10%N]).
    exact (slice_mid [] (key ++ sep ++ raw) ([10%N] ++ [])). }
  assert (Hnl : slice s n (S n) = [10%N]).
  { rewrite Es, Hn. replace (S (length (key ++ sep ++ raw))) with (length (key ++ sep ++ raw) + 1) by lia.
    rewrite slice_app0. reflexivity. }
  unfold views, walk_of. rewrite Hw. cbn [map].
  unfold entry_view at 1. cbn [e_kind]. unfold entity_view, all_text, span_start, text_or_empty, span_text.
  cbn [e_pre e_span e_key e_val fst snd]. rewrite Hall, Hkey, Hraw.
  unfold raw. rewrite (unescape_properties ts Ht).
  unfold entry_view, mk_white, all_text, span_start, text_or_empty, span_text.
  cbn [e_kind e_pre e_span e_key e_val fst snd]. rewrite Hnl. reflexivity.
Qed.
