(* C14 end to end, a by-construction example: rules `{l}**` -> ignore, then
   `{l}browser/**/*.ftl` -> warning, under root /r with l = l10n/; EVERY path
   that is the expansion of a valuation of the second pattern gets `warning`
   (the last rule that matches wins), by the completeness theorem of matching --
   no evaluation of the engine on the path. *)
From Coq Require Import NArith List Bool Arith Lia.
From CL Require Import Base.Sx Base.Res Base.Str Regex.Rx Generated.FilterFacts
  Model.Pattern Model.Matcher Model.Filter Model.FilterSpec Model.FilterE2E
  Proofs.MatcherBase Proofs.MatcherSpec Proofs.MatcherComplete Proofs.MatcherRooted
  Proofs.FilterProofs Proofs.FilterE2EProofs Proofs.FilterE2EMatch.
Import ListNotations.

Definition x_kv : list (str * str) := [(of_ascii [108], of_ascii [108;49;48;110;47])].   (* l = l10n/ *)
Definition x_root : option str := Some (of_ascii [47;114]).                             (* /r *)
Definition x_de : str := of_ascii [100;101].
Definition x_t1 : str := of_ascii [123;108;125;42;42].                                  (* {l}** *)
Definition x_t2 : str :=                                                                (* {l}browser/**/*.ftl *)
  of_ascii [123;108;125;98;114;111;119;115;101;114;47;42;42;47;42;46;102;116;108].
Definition x_no_re (_ : str) : option rx := None.

Definition x_config : tconfig :=
  mktc x_kv x_root (Some [x_de]) [(x_t1, None)]
       [mkraw _ (RPone _ x_t1) None AIgnore; mkraw _ (RPone _ x_t2) None AWarning] [] [].

Definition get {T} (d : T) (r : result T) : T := match r with Ok x => x | Raise _ => d end.
Definition dummyM : matcher := mkm (mkpat [] None 0) [].
Definition x_M1 : matcher := Eval vm_compute in get dummyM (mk_matcher x_t1 x_kv x_root).
Definition x_M2 : matcher := Eval vm_compute in get dummyM (mk_matcher x_t2 x_kv x_root).
Definition x_B1 : matcher := Eval vm_compute in get dummyM (e2e_bind x_M1 x_de).
Definition x_B2 : matcher := Eval vm_compute in get dummyM (e2e_bind x_M2 x_de).

Definition x_raw : rawconfig matcher str :=
  mkrawc _ _ (Some [x_de]) [mkpath _ _ x_M1 None]
         [mkraw _ (RPone _ x_M1) None AIgnore; mkraw _ (RPone _ x_M2) None AWarning] [] [].

Lemma x_compile : t_compile x_config = Ok x_raw.
Proof. vm_compute. reflexivity. Qed.

Lemma x_build : exists cfg, build matcher str x_no_re x_raw = Ok cfg.
Proof. eexists. vm_compute. reflexivity. Qed.

Ltac grammar_tac :=
  split; [split;
    [split; [repeat constructor; simpl; intuition discriminate
            |simpl; first
               [ eexists; split; [vm_compute; reflexivity|first [left; simpl; lia|right; reflexivity]]
               | split; [lia|]; eexists; eexists; eexists; split; [reflexivity|vm_compute; reflexivity] ]]
    |split; [vm_compute; reflexivity|split; [reflexivity|repeat constructor; simpl; intuition discriminate]]]
  |eexists; eexists; vm_compute; reflexivity].

Lemma x_B1_grammar : simple_rooted x_B1 /\ compiles (unroot x_B1).
Proof. grammar_tac. Qed.

Lemma x_B2_grammar : simple_rooted x_B2 /\ compiles (unroot x_B2).
Proof. grammar_tac. Qed.

Lemma x_in_grammar : project_in_grammar x_raw x_de.
Proof.
  intros M HM. simpl in HM.
  destruct HM as [<-|[<-|[<-|[]]]].
  - exists x_B1. split; [vm_compute; reflexivity|exact x_B1_grammar].
  - exists x_B1. split; [vm_compute; reflexivity|exact x_B1_grammar].
  - exists x_B2. split; [vm_compute; reflexivity|exact x_B2_grammar].
Qed.

Lemma has_char_app : forall c a b, has_char c (a ++ b) = has_char c a || has_char c b.
Proof. intros c a b. unfold has_char. apply existsb_app. Qed.

Definition x_path (b x : str) : str :=
  of_ascii [47;114;47] ++ of_ascii [108;49;48;110;47] ++ of_ascii [98;114;111;119;115;101;114;47] ++
  (b ++ [c_slash]) ++ x ++ of_ascii [46;102;116;108].

(* /r/ l10n/ browser/ <b>/ <x> .ftl  for a directory text b and a file stem x *)
Lemma x_rule2_matches : forall b x,
  b <> [] -> has_char nl b = false -> has_char c_slash x = false ->
  e2e_matches x_M2 x_de (x_path b x) = true.
Proof.
  intros b x Hb Hnb Hsx.
  set (d := [(star_name 1, Some (b ++ [c_slash])); (star_name 2, Some x)]).
  assert (E : x_path b x = concat [of_ascii [47;114;47]; of_ascii [108;49;48;110;47];
                                   of_ascii [98;114;111;119;115;101;114;47]; b ++ [c_slash]; x;
                                   of_ascii [46;102;116;108]]).
  { unfold x_path. cbn [concat]. rewrite ?app_nil_r. reflexivity. }
  rewrite E.
  apply (e2e_matches_complete x_M2 x_de x_B2 d).
  - vm_compute. reflexivity.
  - apply x_B2_grammar.
  - apply x_B2_grammar.
  - repeat constructor. intros k H. discriminate.
  - constructor; [split; [reflexivity|exact I]|].
    constructor; [split; [reflexivity|intro H; vm_compute in H; discriminate]|].
    constructor; [split; [reflexivity|exact I]|].
    constructor; [split; [reflexivity|right; exists b; auto]|].
    constructor; [split; [reflexivity|exact Hsx]|].
    constructor; [split; [reflexivity|exact I]|]. constructor.
Qed.

Lemma x_path1_matches : forall b x,
  b <> [] -> has_char nl b = false -> has_char nl x = false ->
  e2e_matches x_M1 x_de (x_path b x) = true.
Proof.
  intros b x Hb Hnb Hnx.
  set (rest := of_ascii [98;114;111;119;115;101;114;47] ++ (b ++ [c_slash]) ++ x ++ of_ascii [46;102;116;108]).
  set (d := [(star_name 1, Some rest)]).
  assert (E : x_path b x = concat [of_ascii [47;114;47]; of_ascii [108;49;48;110;47]; rest; []]).
  { unfold x_path, rest. cbn [concat]. rewrite ?app_nil_r. reflexivity. }
  rewrite E.
  apply (e2e_matches_complete x_M1 x_de x_B1 d).
  - vm_compute. reflexivity.
  - apply x_B1_grammar.
  - apply x_B1_grammar.
  - repeat constructor. intros k H. discriminate.
  - constructor; [split; [reflexivity|exact I]|].
    constructor; [split; [reflexivity|intro H; vm_compute in H; discriminate]|].
    constructor.
    { split; [reflexivity|]. right. exists rest. split; [discriminate|].
      split; [|rewrite app_nil_r; reflexivity].
      unfold rest. rewrite !has_char_app, Hnb, Hnx. reflexivity. }
    constructor; [split; [reflexivity|exact I]|]. constructor.
Qed.

Theorem end_to_end_example : forall b x,
  b <> [] -> has_char nl b = false -> has_char c_slash x = false -> has_char nl x = false ->
  e2e_filter x_no_re x_config x_de (x_path b x) None = Ok AWarning.
Proof.
  intros b x Hb Hnb Hsx Hnx.
  rewrite (end_to_end_flat x_no_re x_config _ _ _ x_de (x_path b x) None x_compile x_build x_in_grammar).
  f_equal.
  assert (Hl : existsb (str_eqb x_de) (raw_locales matcher str x_raw) = true) by reflexivity.
  unfold x_raw in Hl. rewrite Hl. clear Hl.
  simpl existsb. unfold path_covers. simpl p_locales. simpl p_l10n.
  rewrite (x_path1_matches b x Hb Hnb Hnx). simpl.
  unfold last_such. simpl fold_left. unfold rule_applies. simpl.
  rewrite (x_rule2_matches b x Hb Hnb Hsx). simpl. reflexivity.
Qed.

(* a path outside browser/ only meets the first rule: ignore *)
Example end_to_end_example_other :
  e2e_filter x_no_re x_config x_de (of_ascii [47;114;47;108;49;48;110;47;116;111;111;108;107;105;116;47;97;46;102;116;108]) None
  = Ok AIgnore.
Proof. vm_compute. reflexivity. Qed.
