(* Proofs for C18 (Model/History.v). *)
From Coq Require Import NArith List Bool Arith Lia Decimal DecimalNat Permutation Sorted.
From CL Require Import Base.Str Model.History.
Import ListNotations.
Local Open Scope nat_scope.

(* ===================================================================== *)
(* A. decimal rendering and junk keys                                      *)
(* ===================================================================== *)
Definition is_digit (c : N) : bool := (48 <=? c)%N && (c <=? 57)%N.

Lemma uint_digits_inj : forall u u', uint_digits u = uint_digits u' -> u = u'.
Proof.
  induction u; destruct u'; simpl; intros H; try discriminate; try reflexivity;
    injection H as H; f_equal; auto.
Qed.

Lemma uint_digits_digits : forall u, Forall (fun c => is_digit c = true) (uint_digits u).
Proof. induction u; simpl; constructor; auto. Qed.

Lemma dec_inj : forall a b, dec a = dec b -> a = b.
Proof.
  unfold dec. intros a b H. apply uint_digits_inj in H.
  rewrite <- (Unsigned.of_to a), <- (Unsigned.of_to b), H. reflexivity.
Qed.

Lemma dec_digits : forall n, Forall (fun c => is_digit c = true) (dec n).
Proof. intros; apply uint_digits_digits. Qed.

Lemma split_at_nondigit : forall x x' c c' r r',
  Forall (fun d => is_digit d = true) x -> Forall (fun d => is_digit d = true) x' ->
  is_digit c = false -> is_digit c' = false ->
  x ++ c :: r = x' ++ c' :: r' -> x = x' /\ c = c' /\ r = r'.
Proof.
  induction x as [|a x IH]; intros x' c c' r r' Hx Hx' Hc Hc' H.
  - destruct x' as [|a' x']; simpl in H.
    + injection H as -> ->. auto.
    + injection H as -> _. inversion Hx'; subst. congruence.
  - destruct x' as [|a' x']; simpl in H.
    + injection H as -> _. inversion Hx; subst. congruence.
    + injection H as -> H. inversion Hx; inversion Hx'; subst.
      destruct (IH x' c c' r r') as (-> & -> & ->); auto.
Qed.

Lemma render_junk_inj : forall i a b i' a' b',
  render (KJunk i a b) = render (KJunk i' a' b') -> i = i' /\ a = a' /\ b = b'.
Proof.
  intros i a b i' a' b' H. unfold render in H. apply app_inv_head in H.
  apply split_at_nondigit in H; try apply dec_digits; try reflexivity.
  destruct H as (Hi & _ & H).
  apply split_at_nondigit in H; try apply dec_digits; try reflexivity.
  destruct H as (Ha & _ & Hb).
  apply dec_inj in Hi, Ha, Hb. auto.
Qed.

Lemma render_junk_junklike : forall i a b, junklike (render (KJunk i a b)).
Proof. intros; exists i, a, b; reflexivity. Qed.

Lemma starts_with_app : forall p r, starts_with p (p ++ r) = true.
Proof. induction p; simpl; intros; auto. rewrite N.eqb_refl. simpl. auto. Qed.

Lemma junklike_prefix : forall s, junklike s -> starts_with junk_prefix s = true.
Proof. intros s (i & a & b & ->). unfold render. apply starts_with_app. Qed.

Lemma not_prefix_not_junklike : forall s, starts_with junk_prefix s = false -> ~ junklike s.
Proof. intros s H J. apply junklike_prefix in J. congruence. Qed.

(* ===================================================================== *)
(* B. the state machine                                                    *)
(* ===================================================================== *)
Section MachineProofs.

Variables V FC RX MRX : Type.
Variable walk_fn : fmt -> str -> bool -> list pentry * bool.
Variable res_fn : vop -> list (list kent) -> V.
Variable dtd_fn : vop -> option str.
Variable fc_compute : nat -> nat -> str -> FC.
Variable fc_query : FC -> str -> option str -> V.
Variable rx_compile : str -> RX.
Variable rx_match : RX -> str -> V.
Variable mm_empty : V.
Variable m_compile : nat -> MRX.
Variable m_match : MRX -> str -> V.

Notation gst := (gstate FC RX MRX).
Notation stepM := (step V FC RX MRX walk_fn res_fn dtd_fn fc_compute fc_query rx_compile rx_match
                        mm_empty m_compile m_match).
Notation runM := (run V FC RX MRX walk_fn res_fn dtd_fn fc_compute fc_query rx_compile rx_match
                      mm_empty m_compile m_match).
Notation walkM := (walk FC RX MRX walk_fn).
Notation parse1M := (parse1 FC RX MRX walk_fn).
Notation parse_manyM := (parse_many FC RX MRX walk_fn).
Notation initM := (init FC RX MRX).

(* ---- lists ------------------------------------------------------------- *)
Lemma replace_nth_last : forall {T} (h : list T) x y,
  replace_nth (length h) y (h ++ [x]) = h ++ [y].
Proof. induction h; simpl; intros; [reflexivity | f_equal; auto]. Qed.

Lemma replace_nth_length : forall {T} n (x : T) l, length (replace_nth n x l) = length l.
Proof. induction n; destruct l; simpl; auto. Qed.

Lemma nth_error_replace_same : forall {T} n (x : T) l, n < length l ->
  nth_error (replace_nth n x l) n = Some x.
Proof. induction n; destruct l; simpl; intros; try lia; auto. apply IHn; lia. Qed.

Lemma nth_error_replace_other : forall {T} n m (x : T) l, n <> m ->
  nth_error (replace_nth n x l) m = nth_error l m.
Proof.
  induction n; destruct l; destruct m; simpl; intros; try congruence; auto.
Qed.

Lemma nth_error_app_last : forall {T} (h : list T) x, nth_error (h ++ [x]) (length h) = Some x.
Proof. intros. rewrite nth_error_app2, Nat.sub_diag by lia. reflexivity. Qed.

(* ---- one parse ----------------------------------------------------------- *)
Lemma upd_same : forall {T} (f : nat -> T) k v, upd f k v k = v.
Proof. intros. unfold upd. rewrite Nat.eqb_refl. reflexivity. Qed.

(* setting fields that the counters do not depend on *)
Lemma eff_set_heap : forall (st : gst) h f, eff (set_heap st h) f = eff st f.
Proof. reflexivity. Qed.
Lemma eff_set_pctx : forall (st : gst) p f, eff (set_pctx st p) f = eff st f.
Proof. reflexivity. Qed.

Lemma eff_bump : forall (st : gst) f n, eff (bump st f n) f = eff st f + n.
Proof.
  intros st f n. unfold bump, eff. destruct (xml_fmt f) eqn:E.
  - destruct n; simpl; [destruct (g_xjunkid st); lia | reflexivity].
  - simpl. reflexivity.
Qed.

Lemma bump_heap : forall (st : gst) f n, g_heap (bump st f n) = g_heap st.
Proof. intros. unfold bump. destruct (xml_fmt f); [destruct n|]; reflexivity. Qed.
Lemma bump_pctx : forall (st : gst) f n, g_pctx (bump st f n) = g_pctx st.
Proof. intros. unfold bump. destruct (xml_fmt f); [destruct n|]; reflexivity. Qed.
Lemma bump_rest : forall (st : gst) f n,
  g_cfgver (bump st f n) = g_cfgver st /\ g_fcache (bump st f n) = g_fcache st /\
  g_recache (bump st f n) = g_recache st /\ g_mcache (bump st f n) = g_mcache st /\
  g_dtdtext (bump st f n) = g_dtdtext st.
Proof. intros. unfold bump. destruct (xml_fmt f); [destruct n|]; simpl; auto. Qed.

(* one read + parse: a new context at the end of the heap, the parser points to
   it, the entries carry ids from the parser's counter, which advances by the
   number of Junk constructions; nothing else changes *)
Lemma parse1_eq : forall (st : gst) f t,
  let r := walk_fn f t false in
  let st' := fst (parse1M st f t) in
  g_heap st' = g_heap st ++ [Ctx t (snd r)] /\
  g_pctx st' = upd (g_pctx st) f (Some (length (g_heap st))) /\
  eff st' f = eff st f + ncons (fst r) /\
  snd (parse1M st f t) = ents_of (eff st f) (length (g_heap st)) t (fst r) /\
  (g_cfgver st' = g_cfgver st /\ g_fcache st' = g_fcache st /\
   g_recache st' = g_recache st /\ g_mcache st' = g_mcache st /\ g_dtdtext st' = g_dtdtext st).
Proof.
  intros st f t. unfold parse1, walk, read_unicode. simpl.
  rewrite upd_same, nth_error_app_last. simpl.
  rewrite replace_nth_last.
  match goal with |- context [bump ?s ?g ?k] =>
    destruct (bump_rest s g k) as (A & B & C & D & T);
    pose proof (bump_heap s g k) as Hh; pose proof (bump_pctx s g k) as Hp;
    pose proof (eff_bump s g k) as He
  end.
  rewrite Hh, Hp, He, A, B, C, D, T. repeat split.
Qed.

(* contents of existing contexts never change; contexts are never freed *)
Definition heap_ext (h h' : list ctx) : Prop :=
  forall n cx, nth_error h n = Some cx ->
    exists cx', nth_error h' n = Some cx' /\ c_contents cx' = c_contents cx.

Lemma heap_ext_refl : forall h, heap_ext h h.
Proof. intros h n cx H; eauto. Qed.

Lemma heap_ext_trans : forall a b c, heap_ext a b -> heap_ext b c -> heap_ext a c.
Proof.
  intros a b c H1 H2 n cx H. destruct (H1 _ _ H) as (cx' & H' & E).
  destruct (H2 _ _ H') as (cx'' & H'' & E'). exists cx''. split; congruence.
Qed.

Lemma heap_ext_app : forall h m, heap_ext h (h ++ m).
Proof.
  intros h m n cx H. exists cx. split; auto. rewrite nth_error_app1; auto.
  apply nth_error_Some. congruence.
Qed.

Lemma heap_ext_replace : forall h n cx fl, nth_error h n = Some cx ->
  heap_ext h (replace_nth n (Ctx (c_contents cx) fl) h).
Proof.
  intros h n cx fl H m cm Hm. destruct (Nat.eq_dec n m) as [->|Hne].
  - rewrite nth_error_replace_same by (apply nth_error_Some; congruence).
    eexists; split; eauto. simpl. congruence.
  - rewrite nth_error_replace_other by auto. eauto.
Qed.

Lemma ctx_contents_ext : forall h h' c cx, heap_ext h h' ->
  nth_error h c = Some cx -> ctx_contents h' (Some c) = ctx_contents h (Some c).
Proof.
  intros h h' c cx He H. simpl. rewrite H. destruct (He _ _ H) as (cx' & -> & E). auto.
Qed.

Lemma walk_heap_ext : forall (st : gst) f, heap_ext (g_heap st) (g_heap (fst (walkM st f))).
Proof.
  intros st f. unfold walk. destruct (g_pctx st f) as [c|]; [|apply heap_ext_refl].
  destruct (nth_error (g_heap st) c) as [cx|] eqn:E; [|apply heap_ext_refl].
  simpl. rewrite bump_heap. simpl. apply heap_ext_replace; auto.
Qed.

Lemma parse1_heap : forall (st : gst) f t,
  g_heap (fst (parse1M st f t)) = g_heap st ++ [Ctx t (snd (walk_fn f t false))].
Proof. intros. apply parse1_eq. Qed.

Lemma parse_many_heap : forall ts (st : gst) f,
  exists m, g_heap (fst (parse_manyM st f ts)) = g_heap st ++ m.
Proof.
  induction ts as [|t r IH]; intros st f; simpl.
  - exists []. rewrite app_nil_r. reflexivity.
  - destruct (IH (fst (parse1M st f t)) f) as (m & Hm). rewrite Hm, parse1_heap.
    eexists. rewrite <- app_assoc. reflexivity.
Qed.

Lemma step_heap_ext : forall (st : gst) o, heap_ext (g_heap st) (g_heap (fst (stepM st o))).
Proof.
  intros st o. destruct o; simpl.
  - rewrite parse1_heap. apply heap_ext_app.
  - apply walk_heap_ext.
  - destruct (parse_many_heap (vop_texts o) st (vop_fmt o)) as (m & Hm).
    destruct (dtd_fn o); simpl; rewrite Hm; apply heap_ext_app.
  - destruct (g_fcache st c) as [[l e]|]; [destruct (str_eqb l loc)|]; apply heap_ext_refl.
  - apply heap_ext_refl.
  - destruct pat; [apply heap_ext_refl|]. destruct (g_recache st (n :: pat)); apply heap_ext_refl.
  - destruct (g_mcache st m); apply heap_ext_refl.
Qed.

Lemma run_heap_ext : forall h (st : gst), heap_ext (g_heap st) (g_heap (runM h st)).
Proof.
  induction h as [|o h IH]; intros st; simpl.
  - apply heap_ext_refl.
  - eapply heap_ext_trans; [apply step_heap_ext | apply IH].
Qed.

(* ---- entries hold valid references to their own context -------------------- *)
Definition ent_valid (h : list ctx) (e : ent) : Prop :=
  match e_ctx e with
  | None => True
  | Some c => exists cx, nth_error h c = Some cx
  end.

Lemma ents_of_ctx : forall es j c t e, In e (ents_of j c t es) -> e_ctx e = Some c \/ e_ctx e = None.
Proof.
  induction es as [|p r IH]; simpl; intros j c t e H; [tauto|].
  destruct p; simpl in H; try (destruct H as [<-|H]; [simpl; auto | eauto]); eauto.
Qed.

Lemma obs_ent_ext : forall h h' e, heap_ext h h' -> ent_valid h e -> obs_ent h' e = obs_ent h e.
Proof.
  intros h h' e He Hv. unfold obs_ent. unfold ent_valid in Hv.
  destruct (e_ctx e) as [c|] eqn:E; [|reflexivity].
  destruct Hv as (cx & Hc). rewrite (ctx_contents_ext h h' c cx He Hc). reflexivity.
Qed.

Lemma walk_ents_valid : forall (st : gst) f e,
  In e (snd (walkM st f)) -> ent_valid (g_heap (fst (walkM st f))) e.
Proof.
  intros st f e. unfold walk.
  destruct (g_pctx st f) as [c|]; [|simpl; tauto].
  destruct (nth_error (g_heap st) c) as [cx|] eqn:E; [|simpl; tauto].
  simpl. intros H. apply ents_of_ctx in H. unfold ent_valid.
  destruct H as [-> | ->]; auto.
  exists (Ctx (c_contents cx) (snd (walk_fn f (c_contents cx) (c_flag cx)))).
  rewrite bump_heap. simpl.
  apply nth_error_replace_same. apply nth_error_Some. congruence.
Qed.

Lemma step_ents_valid : forall (st : gst) o es,
  snd (stepM st o) = OEnts es -> Forall (ent_valid (g_heap (fst (stepM st o)))) es.
Proof.
  intros st o es H. apply Forall_forall. intros e He.
  destruct o; simpl in *; try discriminate.
  - injection H as <-. unfold parse1 in *. apply walk_ents_valid; auto.
  - injection H as <-. apply walk_ents_valid; auto.
  - destruct (g_fcache st c) as [[l x]|]; [destruct (str_eqb l loc)|]; discriminate.
  - destruct pat; [discriminate|]. destruct (g_recache st (n :: pat)); discriminate.
  - destruct (g_mcache st m); discriminate.
Qed.

(* entities obtained from an operation are unchanged by everything that is
   processed afterwards *)
Theorem entities_survive : forall h (st : gst) o es later,
  snd (stepM (runM h st) o) = OEnts es ->
  let st1 := fst (stepM (runM h st) o) in
  map (obs_ent (g_heap (runM later st1))) es = map (obs_ent (g_heap st1)) es.
Proof.
  intros h st o es later H st1. apply map_ext_in. intros e He.
  apply obs_ent_ext; [apply run_heap_ext|].
  pose proof (step_ents_valid _ _ _ H) as Hv. rewrite Forall_forall in Hv. auto.
Qed.

(* ---- Parse is independent of the history ----------------------------------- *)
Lemma obs_ents_of : forall es j j' c c' t h h' cx cx',
  nth_error h c = Some cx -> c_contents cx = t ->
  nth_error h' c' = Some cx' -> c_contents cx' = t ->
  map (obs_ent h) (ents_of j c t es) = map (obs_ent h') (ents_of j' c' t es).
Proof.
  induction es as [|p r IH]; intros j j' c c' t h h' cx cx' H1 E1 H2 E2; [reflexivity|].
  destruct p; cbn [ents_of map];
    (match goal with |- _ :: _ = _ :: _ => f_equal | _ => idtac end);
    first [ solve [eapply IH; eauto]
          | unfold obs_ent; simpl; rewrite ?H1, ?H2, ?E1, ?E2; reflexivity ].
Qed.

Lemma parse1_independent : forall (st st' : gst) f t,
  out_equiv V (g_heap (fst (parse1M st f t))) (OEnts (snd (parse1M st f t)))
            (g_heap (fst (parse1M st' f t))) (OEnts (snd (parse1M st' f t))).
Proof.
  intros st st' f t.
  destruct (parse1_eq st f t) as (H1 & _ & _ & E1 & _).
  destruct (parse1_eq st' f t) as (H2 & _ & _ & E2 & _).
  simpl. rewrite H1, H2, E1, E2.
  eapply obs_ents_of; try apply nth_error_app_last; reflexivity.
Qed.

(* ---- the keyed lists an operation sees --------------------------------------- *)
Lemma resolve_ents_of : forall es j c t h cx,
  nth_error h c = Some cx -> c_contents cx = t ->
  map (resolve h) (ents_of j c t es) = kents_of j t es.
Proof.
  induction es as [|p r IH]; intros j c t h cx H E; [reflexivity|].
  destruct p; cbn [ents_of kents_of map];
    (match goal with |- _ :: _ = _ :: _ => f_equal | _ => idtac end);
    first [ solve [eapply IH; eauto]
          | unfold resolve; simpl; rewrite ?H, ?E; reflexivity ].
Qed.

Lemma parse_many_junkid : forall ts (st : gst) f,
  eff (fst (parse_manyM st f ts)) f =
  eff st f + fold_right (fun t n => ncons (fst (walk_fn f t false)) + n) 0 ts.
Proof.
  induction ts as [|t r IH]; intros st f; simpl; [lia|].
  rewrite IH. destruct (parse1_eq st f t) as (_ & _ & E & _). rewrite E. lia.
Qed.

Lemma parse_many_resolve : forall ts (st : gst) f,
  map (map (resolve (g_heap (fst (parse_manyM st f ts))))) (snd (parse_manyM st f ts)) =
  kents_many walk_fn (eff st f) f ts.
Proof.
  induction ts as [|t r IH]; intros st f; [reflexivity|].
  simpl. destruct (parse1_eq st f t) as (H1 & _ & E & E1 & _). f_equal.
  - destruct (parse_many_heap r (fst (parse1M st f t)) f) as (m & Hm).
    rewrite Hm, H1, E1.
    eapply resolve_ents_of with (cx := Ctx t (snd (walk_fn f t false))); [|reflexivity].
    rewrite <- app_assoc. simpl. rewrite nth_error_app2, Nat.sub_diag by lia. reflexivity.
  - rewrite IH, E. reflexivity.
Qed.

(* junk ids *)
Definition key_id (k : key) : nat := match k with KJunk i _ _ => i | KStr _ => 0 end.

Lemma kents_of_same : forall es j j' t, Forall2 same_but_id (kents_of j t es) (kents_of j' t es).
Proof.
  induction es as [|p r IH]; intros j j' t; simpl; [constructor|].
  destruct p; try constructor; auto; unfold same_but_id; simpl; auto.
Qed.

Lemma kents_many_same : forall ts j j' f,
  Forall2 (Forall2 same_but_id) (kents_many walk_fn j f ts) (kents_many walk_fn j' f ts).
Proof.
  induction ts as [|t r IH]; intros j j' f; simpl; constructor; auto. apply kents_of_same.
Qed.

(* the junk ids of an operation are strictly increasing, hence distinct *)
Lemma junk_ids_kents_of : forall es j t,
  Forall (fun i => j < i <= j + ncons es) (map key_id (junk_keys (kents_of j t es))) /\
  StronglySorted lt (map key_id (junk_keys (kents_of j t es))).
Proof.
  induction es as [|p r IH]; intros j t; simpl; [split; constructor|].
  unfold ncons in *. destruct p; simpl;
    try (destruct (IH j t) as (F & S); split; [exact F | exact S]).
  - destruct (IH (S j) t) as (F & S). split.
    + constructor; [lia|]. eapply Forall_impl; [|exact F]. simpl. intros; lia.
    + constructor; [exact S|]. eapply Forall_impl; [|exact F]. simpl. intros; lia.
  - destruct (IH (S j) t) as (F & S). split.
    + constructor; [lia|]. eapply Forall_impl; [|exact F]. simpl. intros; lia.
    + constructor; [exact S|]. eapply Forall_impl; [|exact F]. simpl. intros; lia.
  - destruct (IH (S j) t) as (F & S). split.
    + eapply Forall_impl; [|exact F]. simpl. intros; lia.
    + exact S.
Qed.

Lemma junk_keys_app : forall a b, junk_keys (a ++ b) = junk_keys a ++ junk_keys b.
Proof. intros. unfold junk_keys. rewrite map_app, filter_app. reflexivity. Qed.

Lemma str_keys_app : forall a b, str_keys (a ++ b) = str_keys a ++ str_keys b.
Proof. intros. unfold str_keys. apply flat_map_app. Qed.

Lemma SSorted_app_lt : forall a b,
  StronglySorted lt a -> StronglySorted lt b ->
  (forall x y, In x a -> In y b -> x < y) -> StronglySorted lt (a ++ b).
Proof.
  induction a as [|x a IH]; intros b Sa Sb H; simpl; auto.
  inversion Sa; subst. constructor.
  - apply IH; auto. intros; apply H; simpl; auto.
  - apply Forall_app. split; auto. apply Forall_forall. intros y Hy. apply H; simpl; auto.
Qed.

Definition total_cons (f : fmt) (ts : list str) : nat :=
  fold_right (fun t n => ncons (fst (walk_fn f t false)) + n) 0 ts.

Lemma junk_ids_kents_many : forall ts j f,
  Forall (fun i => j < i <= j + total_cons f ts)
         (map key_id (junk_keys (concat (kents_many walk_fn j f ts)))) /\
  StronglySorted lt (map key_id (junk_keys (concat (kents_many walk_fn j f ts)))).
Proof.
  induction ts as [|t r IH]; intros j f; simpl; [split; constructor|].
  rewrite junk_keys_app, map_app.
  destruct (junk_ids_kents_of (fst (walk_fn f t false)) j t) as (F1 & S1).
  destruct (IH (j + ncons (fst (walk_fn f t false))) f) as (F2 & S2).
  split.
  - apply Forall_app. split.
    + eapply Forall_impl; [|exact F1]. simpl. intros; lia.
    + eapply Forall_impl; [|exact F2]. simpl. intros; lia.
  - apply SSorted_app_lt; auto. intros x y Hx Hy.
    rewrite Forall_forall in F1, F2. specialize (F1 _ Hx). specialize (F2 _ Hy). lia.
Qed.

Lemma SSorted_lt_NoDup : forall l, StronglySorted lt l -> NoDup l.
Proof.
  induction 1; constructor; auto. intros Hin. rewrite Forall_forall in H0.
  specialize (H0 _ Hin). lia.
Qed.

Lemma NoDup_map_inv' : forall {A B} (f : A -> B) l, NoDup (map f l) -> NoDup l.
Proof.
  induction l; simpl; intros H; constructor; inversion H; subst; auto.
  intros Hin. apply H2. apply in_map. auto.
Qed.

Lemma junk_keys_are_junk : forall L k, In k (junk_keys L) -> exists i a b, k = KJunk i a b.
Proof.
  intros L k H. unfold junk_keys in H. apply filter_In in H. destruct H as (_ & H).
  destruct k; simpl in H; [discriminate|]. eauto.
Qed.

Lemma NoDup_render_junk : forall ks,
  (forall k, In k ks -> exists i a b, k = KJunk i a b) ->
  NoDup (map key_id ks) -> NoDup (map render ks).
Proof.
  induction ks as [|k ks IH]; intros Hj Hn; simpl; constructor.
  - inversion Hn; subst. intros Hin. apply in_map_iff in Hin. destruct Hin as (k' & E & Hk').
    destruct (Hj k (or_introl eq_refl)) as (i & a & b & ->).
    destruct (Hj k' (or_intror Hk')) as (i' & a' & b' & ->).
    apply render_junk_inj in E. destruct E as (Ei & _ & _). subst.
    apply H1. simpl. apply in_map_iff. eexists; split; [|exact Hk']. reflexivity.
  - inversion Hn; subst. apply IH; auto. intros; apply Hj; simpl; auto.
Qed.

(* the string keys of an operation are the entity keys of its files *)
Lemma str_keys_kents_of : forall es j t s,
  In s (str_keys (kents_of j t es)) -> exists p, In p es /\ ent_key_of t p = Some s.
Proof.
  induction es as [|p r IH]; intros j t s H; simpl in *; [tauto|].
  destruct p; simpl in H;
    try (destruct (IH _ _ _ H) as (q & Hq & E); exists q; split; [right|]; auto; fail).
  - destruct H as [<-|H].
    + eexists; split; [left; reflexivity | reflexivity].
    + destruct (IH _ _ _ H) as (q & Hq & E); exists q; split; [right|]; auto.
  - destruct H as [<-|H].
    + eexists; split; [left; reflexivity | reflexivity].
    + destruct (IH _ _ _ H) as (q & Hq & E); exists q; split; [right|]; auto.
Qed.

Lemma str_keys_kents_many : forall ts j f s,
  Forall (no_junklike_text walk_fn f) ts ->
  In s (str_keys (concat (kents_many walk_fn j f ts))) -> ~ junklike s.
Proof.
  induction ts as [|t r IH]; intros j f s Hn H; simpl in *; [tauto|].
  inversion Hn; subst. rewrite str_keys_app in H. apply in_app_or in H. destruct H as [H|H].
  - destruct (str_keys_kents_of _ _ _ _ H) as (p & Hp & E). eapply H2; eauto.
  - eapply IH; eauto.
Qed.

Lemma coll_free_kents_many : forall ts j f,
  Forall (no_junklike_text walk_fn f) ts ->
  coll_free (concat (kents_many walk_fn j f ts)).
Proof.
  intros ts j f Hn. split.
  - apply NoDup_render_junk.
    + apply junk_keys_are_junk.
    + apply SSorted_lt_NoDup. apply junk_ids_kents_many.
  - intros k s Hk Hs E. apply (str_keys_kents_many _ _ _ _ Hn Hs).
    destruct (junk_keys_are_junk _ _ Hk) as (i & a & b & ->). rewrite <- E.
    apply render_junk_junklike.
Qed.

(* a report operation gives the same report after any history *)
Lemma do_independent : forall (st st' : gst) v,
  res_contract V res_fn -> no_junklike walk_fn v ->
  snd (stepM st (Do v)) = snd (stepM st' (Do v)).
Proof.
  intros st st' v Hc Hn. simpl. f_equal. rewrite !parse_many_resolve.
  apply Hc.
  - apply kents_many_same.
  - apply coll_free_kents_many; auto.
  - apply coll_free_kents_many; auto.
Qed.

(* ---- caches ------------------------------------------------------------------ *)
Definition caches_ok (st : gst) : Prop :=
  (forall c l e, g_fcache st c = Some (l, e) -> e = fc_compute c (g_cfgver st c) l) /\
  (forall p r, g_recache st p = Some r -> r = rx_compile p) /\
  (forall m r, g_mcache st m = Some r -> r = m_compile m).

Lemma caches_ok_init : caches_ok initM.
Proof. repeat split; simpl; intros; discriminate. Qed.

Lemma str_eqb_eq : forall a b, str_eqb a b = true -> a = b.
Proof.
  induction a; destruct b; simpl; intros H; try discriminate; auto.
  apply andb_true_iff in H. destruct H as (H1 & H2). apply N.eqb_eq in H1. f_equal; auto.
Qed.

Lemma str_eqb_refl : forall a, str_eqb a a = true.
Proof. induction a; simpl; auto. rewrite N.eqb_refl. auto. Qed.

Lemma parse_many_caches : forall ts (st : gst) f,
  let st' := fst (parse_manyM st f ts) in
  g_cfgver st' = g_cfgver st /\ g_fcache st' = g_fcache st /\
  g_recache st' = g_recache st /\ g_mcache st' = g_mcache st.
Proof.
  induction ts as [|t r IH]; intros st f; simpl; [auto|].
  destruct (IH (fst (parse1M st f t)) f) as (A & B & C & D).
  destruct (parse1_eq st f t) as (_ & _ & _ & _ & A' & B' & C' & D' & _).
  rewrite A, B, C, D. auto.
Qed.

Lemma walk_caches : forall (st : gst) f,
  let st' := fst (walkM st f) in
  g_cfgver st' = g_cfgver st /\ g_fcache st' = g_fcache st /\
  g_recache st' = g_recache st /\ g_mcache st' = g_mcache st.
Proof.
  intros st f. unfold walk. destruct (g_pctx st f); simpl; auto.
  destruct (nth_error (g_heap st) n); simpl; auto.
  match goal with |- context [bump ?s ?f ?k] => destruct (bump_rest s f k) as (A & B & C & D & _) end.
  rewrite A, B, C, D. auto.
Qed.

Lemma step_caches_ok : forall (st : gst) o,
  is_reconfig o = false -> caches_ok st -> caches_ok (fst (stepM st o)).
Proof.
  intros st o Hr (Hf & Hx & Hm). destruct o; simpl in *; try discriminate.
  - destruct (parse1_eq st f t) as (_ & _ & _ & _ & A & B & C & D & _). unfold caches_ok.
    rewrite A, B, C, D. auto.
  - destruct (walk_caches st f) as (A & B & C & D). unfold caches_ok.
    rewrite A, B, C, D. auto.
  - destruct (parse_many_caches (vop_texts o) st (vop_fmt o)) as (A & B & C & D).
    unfold caches_ok. destruct (dtd_fn o); simpl; rewrite A, B, C, D; auto.
  - destruct (g_fcache st c) as [[l e]|] eqn:E.
    + destruct (str_eqb l loc) eqn:El; simpl; [repeat split; auto|].
      repeat split; auto. simpl. intros c' l' e'. unfold upd.
      destruct (Nat.eqb c' c) eqn:Ec; [|apply Hf].
      apply Nat.eqb_eq in Ec. subst. intros H. injection H as <- <-. reflexivity.
    + simpl. repeat split; auto. simpl. intros c' l' e'. unfold upd.
      destruct (Nat.eqb c' c) eqn:Ec; [|apply Hf].
      apply Nat.eqb_eq in Ec. subst. intros H. injection H as <- <-. reflexivity.
  - destruct pat as [|n pat]; simpl; [repeat split; auto|].
    destruct (g_recache st (n :: pat)) eqn:E; simpl; repeat split; auto.
    simpl. intros p r. unfold upd_str. destruct (str_eqb p (n :: pat)) eqn:Ep; [|apply Hx].
    apply str_eqb_eq in Ep. subst. intros H. injection H as <-. reflexivity.
  - destruct (g_mcache st m) eqn:E; simpl; repeat split; auto.
    simpl. intros m' r. unfold upd. destruct (Nat.eqb m' m) eqn:Em; [|apply Hm].
    apply Nat.eqb_eq in Em. subst. intros H. injection H as <-. reflexivity.
Qed.

Lemma run_caches_ok : forall h (st : gst),
  Forall (fun o => is_reconfig o = false) h -> caches_ok st -> caches_ok (runM h st).
Proof.
  induction h as [|o h IH]; intros st Hf Hc; simpl; auto.
  inversion Hf; subst. apply IH; auto. apply step_caches_ok; auto.
Qed.

Lemma step_cfgver : forall (st : gst) o,
  is_reconfig o = false -> g_cfgver (fst (stepM st o)) = g_cfgver st.
Proof.
  intros st o Hr. destruct o; simpl in *; try discriminate.
  - apply parse1_eq.
  - apply walk_caches.
  - destruct (parse_many_caches (vop_texts o) st (vop_fmt o)) as (A & _).
    destruct (dtd_fn o); simpl; auto.
  - destruct (g_fcache st c) as [[l e]|]; [destruct (str_eqb l loc)|]; reflexivity.
  - destruct pat; [reflexivity|]. destruct (g_recache st (n :: pat)); reflexivity.
  - destruct (g_mcache st m); reflexivity.
Qed.

Lemma run_cfgver : forall h (st : gst),
  Forall (fun o => is_reconfig o = false) h -> g_cfgver (runM h st) = g_cfgver st.
Proof.
  induction h as [|o h IH]; intros st Hf; simpl; auto.
  inversion Hf; subst. rewrite IH; auto. apply step_cfgver; auto.
Qed.

(* each cache returns what a fresh computation returns *)
Lemma filter_keyed : forall (st : gst) c loc path entity, caches_ok st ->
  snd (stepM st (FilterQ c loc path entity)) =
  OVal (fc_query (fc_compute c (g_cfgver st c) loc) path entity).
Proof.
  intros st c loc path entity (Hf & _ & _). simpl.
  destruct (g_fcache st c) as [[l e]|] eqn:E; [|reflexivity].
  destruct (str_eqb l loc) eqn:El; [|reflexivity]. simpl.
  apply str_eqb_eq in El. subst. rewrite (Hf _ _ _ E). reflexivity.
Qed.

Lemma mozmatch_keyed : forall (st : gst) path pat, caches_ok st ->
  snd (stepM st (MozMatch path pat)) =
  OVal (match pat with [] => mm_empty | _ => rx_match (rx_compile pat) path end).
Proof.
  intros st path pat (_ & Hx & _). simpl. destruct pat as [|n pat]; [reflexivity|].
  destruct (g_recache st (n :: pat)) eqn:E; [|reflexivity]. simpl.
  rewrite (Hx _ _ E). reflexivity.
Qed.

Lemma matcher_keyed : forall (st : gst) m path, caches_ok st ->
  snd (stepM st (MatcherQ m path)) = OVal (m_match (m_compile m) path).
Proof.
  intros st m path (_ & _ & Hm). simpl.
  destruct (g_mcache st m) eqn:E; [|reflexivity]. simpl. rewrite (Hm _ _ E). reflexivity.
Qed.

Theorem cache_keyed : forall h,
  Forall (fun o => is_reconfig o = false) h ->
  let st := runM h initM in
  (forall c loc path entity,
     snd (stepM st (FilterQ c loc path entity)) =
     OVal (fc_query (fc_compute c 0 loc) path entity)) /\
  (forall path pat,
     snd (stepM st (MozMatch path pat)) =
     OVal (match pat with [] => mm_empty | _ => rx_match (rx_compile pat) path end)) /\
  (forall m path, snd (stepM st (MatcherQ m path)) = OVal (m_match (m_compile m) path)).
Proof.
  intros h Hf st.
  assert (Hc : caches_ok st) by (apply run_caches_ok; auto using caches_ok_init).
  repeat split; intros.
  - rewrite filter_keyed by auto. unfold st. rewrite run_cfgver by auto. reflexivity.
  - apply mozmatch_keyed; auto.
  - apply matcher_keyed; auto.
Qed.

(* ---- the main statement --------------------------------------------------------- *)
Definition op_ok (o : op) : Prop :=
  match o with
  | Rewalk _ => False              (* re-walking the current context is not self-contained *)
  | Reconfig _ => False            (* the configuration is an input, fixed during a run *)
  | Do v => no_junklike walk_fn v
  | _ => True
  end.

Theorem independent : forall h o,
  res_contract V res_fn ->
  Forall (fun o => is_reconfig o = false) h ->
  op_ok o ->
  let r1 := stepM (runM h initM) o in
  let r2 := stepM initM o in
  out_equiv V (g_heap (fst r1)) (snd r1) (g_heap (fst r2)) (snd r2).
Proof.
  intros h o Hc Hf Ho r1 r2. subst r1 r2.
  assert (Hok : caches_ok (runM h initM)) by (apply run_caches_ok; auto using caches_ok_init).
  destruct o; simpl in Ho; try contradiction.
  - apply parse1_independent.
  - rewrite (do_independent (runM h initM) initM o Hc Ho).
    simpl. reflexivity.
  - rewrite !filter_keyed by auto using caches_ok_init.
    rewrite run_cfgver by auto. simpl. reflexivity.
  - rewrite !mozmatch_keyed by auto using caches_ok_init. simpl. reflexivity.
  - rewrite !matcher_keyed by auto using caches_ok_init. simpl. reflexivity.
Qed.

(* the state the model predicts after a history: the junk counter *)
Definition op_cons (o : op) : nat :=
  match o with
  | Parse f t => ncons (fst (walk_fn f t false))
  | Do v => total_cons (vop_fmt v) (vop_texts v)
  | _ => 0
  end.

End MachineProofs.

(* ===================================================================== *)
(* C. the observer                                                          *)
(* ===================================================================== *)
Section UnionProofs.
Variable D : Type.
Notation contrib := (contrib D).
Notation add := (add_contrib D).

Lemma vadd_nil_r : forall a, vadd a [] = a.
Proof. destruct a; reflexivity. Qed.

Lemma vadd_comm : forall a b, vadd a b = vadd b a.
Proof.
  induction a; destruct b; simpl; auto. f_equal; [lia | auto].
Qed.

Lemma vadd_assoc : forall a b c, vadd a (vadd b c) = vadd (vadd a b) c.
Proof.
  induction a; destruct b; destruct c; simpl; auto. f_equal; [lia | auto].
Qed.

Definition stats_for (l : nat) (cs : list contrib) : list (list nat) :=
  map (@cb_stats D) (filter (fun c => Nat.eqb l (cb_loc D c)) cs).
Definition details_for (f : nat) (cs : list contrib) : list D :=
  concat (map (@cb_details D) (filter (fun c => Nat.eqb f (cb_file D c)) cs)).

Lemma fold_summary : forall cs o l,
  o_summary D (fold_left add cs o) l = vadd (o_summary D o l) (vsum (stats_for l cs)).
Proof.
  induction cs as [|c cs IH]; intros o l; simpl.
  - rewrite vadd_nil_r. reflexivity.
  - rewrite IH. simpl. unfold stats_for. simpl.
    destruct (Nat.eqb l (cb_loc D c)); simpl; [|reflexivity].
    rewrite vadd_assoc. reflexivity.
Qed.

Lemma fold_details : forall cs o f,
  o_details D (fold_left add cs o) f = o_details D o f ++ details_for f cs.
Proof.
  induction cs as [|c cs IH]; intros o f; simpl.
  - rewrite app_nil_r. reflexivity.
  - rewrite IH. simpl. unfold details_for. simpl.
    destruct (Nat.eqb f (cb_file D c)); simpl; [|reflexivity].
    rewrite app_assoc. reflexivity.
Qed.

Lemma vsum_perm : forall a b, Permutation a b -> vsum a = vsum b.
Proof.
  induction 1; simpl; auto.
  - congruence.
  - rewrite !vadd_assoc. f_equal. apply vadd_comm.
  - congruence.
Qed.

Lemma filter_perm : forall {A} (p : A -> bool) a b, Permutation a b ->
  Permutation (filter p a) (filter p b).
Proof.
  induction 1; simpl; auto.
  - destruct (p x); auto.
  - destruct (p x), (p y); auto. apply perm_swap.
  - eapply perm_trans; eauto.
Qed.

Lemma filter_none' : forall {A} (p : A -> bool) l,
  (forall x, In x l -> p x = false) -> filter p l = [].
Proof.
  induction l as [|x l IH]; intros H; simpl; auto.
  rewrite (H x (or_introl eq_refl)). apply IH. intros; apply H; simpl; auto.
Qed.

Lemma filter_file_nodup : forall cs c,
  NoDup (map (@cb_file D) cs) -> In c cs ->
  filter (fun c' => Nat.eqb (cb_file D c) (cb_file D c')) cs = [c].
Proof.
  induction cs as [|x cs IH]; intros c Hn Hin; [contradiction|].
  simpl in *. inversion Hn; subst. destruct Hin as [->|Hin].
  - rewrite Nat.eqb_refl. f_equal.
    apply filter_none'.
    intros y Hy. apply Nat.eqb_neq. intros E. apply H1. rewrite E. apply in_map. auto.
  - destruct (Nat.eqb (cb_file D c) (cb_file D x)) eqn:E.
    + apply Nat.eqb_eq in E. exfalso. apply H1. rewrite <- E. apply in_map. auto.
    + apply IH; auto.
Qed.

Lemma filter_file_absent : forall cs f,
  ~ In f (map (@cb_file D) cs) -> filter (fun c => Nat.eqb f (cb_file D c)) cs = [].
Proof.
  induction cs as [|x cs IH]; intros f Hn; simpl; auto.
  destruct (Nat.eqb f (cb_file D x)) eqn:E.
  - apply Nat.eqb_eq in E. exfalso. apply Hn. simpl. auto.
  - apply IH. intros H. apply Hn. simpl. auto.
Qed.

(* the report of a multi-file run is the union of the single-file reports,
   whatever the order *)
Theorem union : forall cs cs',
  Permutation cs cs' -> NoDup (map (@cb_file D) cs) ->
  (forall l, o_summary D (run_files D cs') l = o_summary D (run_files D cs) l) /\
  (forall f, o_details D (run_files D cs') f = o_details D (run_files D cs) f) /\
  (forall l, o_summary D (run_files D cs) l =
             vsum (map (fun c => o_summary D (run_files D [c]) l) cs)) /\
  (forall c, In c cs ->
             o_details D (run_files D cs) (cb_file D c) =
             o_details D (run_files D [c]) (cb_file D c)) /\
  (forall f, ~ In f (map (@cb_file D) cs) -> o_details D (run_files D cs) f = []).
Proof.
  intros cs cs' Hp Hn. unfold run_files. repeat split.
  - intros l. rewrite !fold_summary. simpl. apply vsum_perm.
    unfold stats_for. apply Permutation_map. apply filter_perm. apply Permutation_sym; auto.
  - intros f. rewrite !fold_details. simpl.
    destruct (in_dec Nat.eq_dec f (map (@cb_file D) cs)) as [Hin|Hout].
    + apply in_map_iff in Hin. destruct Hin as (c & <- & Hc).
      unfold details_for. rewrite (filter_file_nodup cs c Hn Hc).
      rewrite (filter_file_nodup cs' c); auto.
      * eapply Permutation_NoDup; [|exact Hn]. apply Permutation_map; auto.
      * eapply Permutation_in; eauto.
    + unfold details_for. rewrite (filter_file_absent cs f Hout).
      rewrite (filter_file_absent cs' f); auto.
      intros H. apply Hout. eapply Permutation_in; [|exact H].
      apply Permutation_map. apply Permutation_sym; auto.
  - intros l. rewrite fold_summary. simpl. clear Hp Hn cs'.
    induction cs as [|c cs IH]; simpl; auto.
    unfold stats_for in *. simpl.
    destruct (Nat.eqb l (cb_loc D c)); simpl; rewrite IH; auto.
  - intros c Hc. rewrite !fold_details. simpl. unfold details_for.
    rewrite (filter_file_nodup cs c Hn Hc). simpl. rewrite Nat.eqb_refl. reflexivity.
  - intros f Hf. rewrite fold_details. simpl. unfold details_for.
    rewrite (filter_file_absent cs f Hf). reflexivity.
Qed.

End UnionProofs.
