(* Proofs about check_plural and get_plural of Model/CheckProps.v over the
   plural tables regenerated from plurals.py. *)
From Coq Require Import NArith List Bool Arith Lia ZifyBool.
From CL Require Import Base.Sx Base.Res Base.Str Generated.C06Facts
  Model.CheckProps Model.CheckPropsSpec Proofs.CheckPropsProofs.
Import ListNotations.

Local Arguments Nat.ltb : simpl never.
Local Arguments Nat.eqb : simpl never.

(* ---- the table ------------------------------------------------------------------- *)
Lemma assoc_str_in {A} k (m : list (str * A)) v : assoc_str k m = Some v -> In (k, v) m.
Proof.
  induction m as [|[k' v'] m IH]; cbn; [discriminate|].
  destruct (str_eqb k k') eqn:E.
  - apply str_eqb_eq in E. subst. intros H; inversion H; auto.
  - intros H. right. auto.
Qed.

Lemma assoc_str_first {A} k (m : list (str * A)) v :
  In (k, v) m -> NoDup (map fst m) -> assoc_str k m = Some v.
Proof.
  induction m as [|[k' v'] m IH]; cbn; [contradiction|].
  intros [H|H] Hn; inversion Hn as [|? ? Hni Hn']; subst.
  - inversion H; subst. assert (str_eqb k k = true) as -> by (apply str_eqb_eq; reflexivity).
    reflexivity.
  - destruct (str_eqb k k') eqn:E; [|auto].
    apply str_eqb_eq in E. subst k'. exfalso. apply Hni.
    change k with (fst (k, v)). apply in_map. exact H.
Qed.

(* every index of the locale table is an entry of the category table *)
Definition indices_ok : bool :=
  forallb (fun p => snd p <? length plural_categories_by_index) plural_by_locale.

(* no locale is listed twice *)
Fixpoint nodup_str (l : list str) : bool :=
  match l with
  | [] => true
  | x :: l' => negb (mem_str x l') && nodup_str l'
  end.

Lemma nodup_str_NoDup l : nodup_str l = true -> NoDup l.
Proof.
  induction l as [|x l IH]; cbn; [constructor|].
  intros H. apply andb_true_iff in H. destruct H as [H1 H2]. constructor; [|auto].
  intros Hin. apply negb_true_iff in H1. clear -H1 Hin.
  induction l as [|y l IH]; [contradiction|]. cbn in H1. apply orb_false_iff in H1.
  destruct H1 as [H1 H2]. destruct Hin as [->|Hin]; [|auto].
  assert (str_eqb x x = true) by (apply str_eqb_eq; reflexivity). congruence.
Qed.

Lemma table_indices_ok : indices_ok = true.
Proof. vm_compute. reflexivity. Qed.

Lemma table_nodup : nodup_str (map fst plural_by_locale) = true.
Proof. vm_compute. reflexivity. Qed.

(* every category list is non-empty: "if known_plurals" is true for every listed locale *)
Lemma table_nonempty :
  forallb (fun c => nonempty c) plural_categories_by_index = true.
Proof. vm_compute. reflexivity. Qed.

Local Opaque plural_categories_by_index plural_by_locale.

Lemma rule_in_table loc n : get_plural_rule loc = Some n ->
  exists l, In (l, n) plural_by_locale.
Proof.
  unfold get_plural_rule. destruct loc as [l|]; [|discriminate].
  destruct (assoc_str l plural_by_locale) eqn:E.
  - intros H; inversion H; subst. exists l. apply assoc_str_in; exact E.
  - intros H. eexists. apply assoc_str_in; exact H.
Qed.

Lemma rule_index_ok loc n : get_plural_rule loc = Some n ->
  n < length plural_categories_by_index.
Proof.
  intros H. destruct (rule_in_table loc n H) as [l Hl].
  pose proof table_indices_ok as T. unfold indices_ok in T. rewrite forallb_forall in T.
  specialize (T _ Hl). cbn in T. apply Nat.ltb_lt in T. exact T.
Qed.

(* get_plural never raises; its answer is the table row of the locale's rule *)
Theorem get_plural_spec loc :
  get_plural loc =
  Ok (match get_plural_rule loc with
      | Some n => Some (nth n plural_categories_by_index [])
      | None => None
      end).
Proof.
  unfold get_plural. destruct (get_plural_rule loc) as [n|] eqn:E; [|reflexivity].
  pose proof (rule_index_ok loc n E) as Hn.
  destruct (nth_error plural_categories_by_index n) eqn:E2.
  - rewrite (nth_error_nth _ _ [] E2). reflexivity.
  - apply nth_error_None in E2. lia.
Qed.

Theorem get_plural_listed l n : In (l, n) plural_by_locale ->
  get_plural_rule (Some l) = Some n.
Proof.
  intros H. unfold get_plural_rule.
  rewrite (assoc_str_first l plural_by_locale n H (nodup_str_NoDup _ table_nodup)). reflexivity.
Qed.

Lemma split_first_no_sep sep l : ~ In sep l -> split_first sep l = l.
Proof.
  induction l as [|c l IH]; intros H; cbn; [reflexivity|].
  destruct (N.eqb c sep) eqn:E; [apply N.eqb_eq in E; subst; exfalso; apply H; left; reflexivity|].
  f_equal. apply IH. intros Hin. apply H. right. exact Hin.
Qed.

Lemma split_first_app sep l r : ~ In sep l -> split_first sep (l ++ sep :: r) = l.
Proof.
  induction l as [|c l IH]; intros H; cbn.
  - rewrite N.eqb_refl. reflexivity.
  - destruct (N.eqb c sep) eqn:E; [apply N.eqb_eq in E; subst; exfalso; apply H; left; reflexivity|].
    f_equal. apply IH. intros Hin. apply H. right. exact Hin.
Qed.

(* a locale with a region or script tag that is not listed itself gets the
   rule of its language *)
Theorem get_plural_rule_region l r : ~ In plural_locale_sep l ->
  assoc_str (l ++ plural_locale_sep :: r) plural_by_locale = None ->
  get_plural_rule (Some (l ++ plural_locale_sep :: r)) = get_plural_rule (Some l).
Proof.
  intros Hs Hn. unfold get_plural_rule. rewrite Hn, split_first_app by exact Hs.
  rewrite split_first_no_sep by exact Hs.
  destruct (assoc_str l plural_by_locale); reflexivity.
Qed.

Theorem plural_forms_positive loc n : plural_forms loc = Some n -> 0 < n.
Proof.
  unfold plural_forms. destruct (get_plural_rule loc) as [k|] eqn:E; [|discriminate].
  intros H. injection H as <-. pose proof (rule_index_ok loc k E) as Hk.
  pose proof table_nonempty as T. rewrite forallb_forall in T.
  specialize (T (nth k plural_categories_by_index []) (nth_In _ _ Hk)).
  destruct (nth k plural_categories_by_index []); [discriminate|cbn [length]; lia].
Qed.

(* ---- check_plural -------------------------------------------------------------------- *)
Lemma plural_literals :
  lit_plural_sep = semicolon /\
  lit_plural_few_sev = s_warning /\ lit_plural_few_cat = s_plural /\ lit_plural_few_pos = 0 /\
  lit_plural_many_sev = s_warning /\ lit_plural_many_cat = s_plural /\ lit_plural_many_pos = 0 /\
  lit_plural_unused_sev = s_warning /\ lit_plural_unused_cat = s_plural /\ lit_plural_unused_pos = 0 /\
  lit_plural_extra_sev = s_error /\ lit_plural_extra_cat = s_plural /\ lit_plural_extra_pos = 0.
Proof. repeat split; reflexivity. Qed.

Lemma mem_N_In x l : mem_N x l = true <-> In x l.
Proof.
  induction l as [|y l IH]; cbn; [split; [discriminate|tauto]|].
  rewrite orb_true_iff, N.eqb_eq, IH. split; intros [H|H]; auto.
Qed.

Lemma some_missing_spec a b : some_missing a b = true <-> exists x, In x a /\ ~ In x b.
Proof.
  unfold some_missing. rewrite existsb_exists. split; intros (x & H1 & H2); exists x; split; auto.
  - rewrite negb_true_iff in H2. intros Hin. apply mem_N_In in Hin. congruence.
  - rewrite negb_true_iff. destruct (mem_N x b) eqn:E; [|reflexivity].
    apply mem_N_In in E. contradiction.
Qed.

Lemma some_missing_false a b : some_missing a b = false <-> forall x, In x a -> In x b.
Proof.
  split.
  - intros H x Hx. destruct (mem_N x b) eqn:E; [apply mem_N_In; exact E|].
    exfalso. assert (some_missing a b = true); [|congruence].
    apply some_missing_spec. exists x. split; [exact Hx|]. intros Hin. apply mem_N_In in Hin. congruence.
  - intros H. destruct (some_missing a b) eqn:E; [|reflexivity].
    apply some_missing_spec in E. destruct E as (x & H1 & H2). exfalso. auto.
Qed.

Lemma count_findings_spec loc l10n known : get_plural loc = Ok known ->
  let fs := plural_count_findings known l10n in
  match plural_forms loc with
  | Some n => if Nat.eqb n (found_forms l10n) then fs = []
              else fs = [plural_f s_warning (plural_count_msg n (found_forms l10n))]
  | None => fs = []
  end.
Proof.
  rewrite get_plural_spec. intros H; inversion H; subst known. clear H. cbn zeta.
  pose proof (plural_forms_positive loc) as Hpos.
  unfold plural_forms in *. destruct (get_plural_rule loc) as [k|]; [|reflexivity].
  specialize (Hpos _ eq_refl).
  unfold plural_count_findings, found_forms, plural_f.
  destruct plural_literals as (-> & -> & -> & -> & -> & -> & -> & _).
  destruct (nth k plural_categories_by_index []) as [|c cs]; [cbn in Hpos; lia|].
  cbv zeta. unfold str in *. revert Hpos. generalize (length (c :: cs)) as e. intros e Hpos.
  generalize (count_char semicolon l10n + 1) as f. intros f.
  destruct (Nat.eqb e f) eqn:E.
  - apply Nat.eqb_eq in E. rewrite E, Nat.ltb_irrefl. reflexivity.
  - apply Nat.eqb_neq in E. destruct (f <? e) eqn:E1; destruct (e <? f) eqn:E2;
      try reflexivity; apply Nat.ltb_lt in E1 || apply Nat.ltb_ge in E1;
      apply Nat.ltb_lt in E2 || apply Nat.ltb_ge in E2; lia.
Qed.

Definition count_fs (forms : option nat) (cnt : nat) : list finding :=
  match forms with
  | Some n => if Nat.eqb n (cnt + 1) then []
              else [plural_f s_warning (plural_count_msg n (cnt + 1))]
  | None => []
  end.

Lemma count_findings_eq loc l known : get_plural loc = Ok known ->
  plural_count_findings known l = count_fs (plural_forms loc) (count_char semicolon l).
Proof.
  intros H. pose proof (count_findings_spec loc l known H) as S. cbv zeta in S.
  unfold count_fs, found_forms in *. destruct (plural_forms loc) as [n|]; [|exact S].
  destruct (Nat.eqb n (count_char semicolon l + 1)); exact S.
Qed.

(* the verdict table *)
Theorem check_plural_verdict : forall loc r l pats lpats,
  plural_vars r = Ok pats -> plural_vars l = Ok lpats ->
  exists fs_count fs_var,
    check_plural loc r l = Ok (fs_count ++ fs_var) /\
    match plural_forms loc with
    | Some n => if Nat.eqb n (found_forms l) then fs_count = []
                else fs_count = [plural_f s_warning (plural_count_msg n (found_forms l))]
    | None => fs_count = []
    end /\
    (pats = [] -> fs_var = []) /\
    (pats <> [] -> (exists x, In x pats /\ ~ In x lpats) ->
       fs_var = [plural_f s_warning lit_plural_unused_msg]) /\
    (pats <> [] -> (forall x, In x pats -> In x lpats) -> (exists x, In x lpats /\ ~ In x pats) ->
       fs_var = [plural_f s_error lit_plural_extra_msg]) /\
    (pats <> [] -> (forall x, In x pats <-> In x lpats) -> fs_var = []).
Proof.
  intros loc r l pats lpats Hr Hl. unfold check_plural.
  destruct (get_plural loc) as [known|t] eqn:Ek; [|rewrite get_plural_spec in Ek; discriminate].
  rewrite Hr, Hl.
  exists (plural_count_findings known l),
         (match pats with [] => [] | _ => plural_var_findings pats lpats end).
  split; [destruct pats; [rewrite app_nil_r|]; reflexivity|].
  split; [apply (count_findings_spec loc l known Ek)|].
  unfold plural_var_findings, plural_f.
  destruct plural_literals as (_ & _ & _ & _ & _ & _ & _ & -> & -> & -> & -> & -> & ->).
  split; [intros ->; reflexivity|].
  split; [|split].
  - intros Hne Hex. apply some_missing_spec in Hex. rewrite Hex. destruct pats; [contradiction|reflexivity].
  - intros Hne Hall Hex. apply some_missing_false in Hall. apply some_missing_spec in Hex.
    rewrite Hall, Hex. destruct pats; [contradiction|reflexivity].
  - intros Hne Hiff.
    assert (some_missing pats lpats = false) as -> by (apply some_missing_false; apply Hiff).
    assert (some_missing lpats pats = false) as -> by (apply some_missing_false; apply Hiff).
    destruct pats; reflexivity.
Qed.

(* the verdict is a function of the variable SETS, the number of ';' and the
   locale's number of forms *)
Theorem check_plural_function : forall loc1 loc2 r1 r2 l1 l2 p1 p2 q1 q2,
  plural_vars r1 = Ok p1 -> plural_vars r2 = Ok p2 ->
  plural_vars l1 = Ok q1 -> plural_vars l2 = Ok q2 ->
  (forall x, In x p1 <-> In x p2) -> (forall x, In x q1 <-> In x q2) ->
  count_char semicolon l1 = count_char semicolon l2 ->
  plural_forms loc1 = plural_forms loc2 ->
  check_plural loc1 r1 l1 = check_plural loc2 r2 l2.
Proof.
  intros loc1 loc2 r1 r2 l1 l2 p1 p2 q1 q2 H1 H2 H3 H4 Hp Hq Hc Hf.
  unfold check_plural.
  destruct (get_plural loc1) as [k1|t1] eqn:E1; [|rewrite get_plural_spec in E1; discriminate].
  destruct (get_plural loc2) as [k2|t2] eqn:E2; [|rewrite get_plural_spec in E2; discriminate].
  rewrite H1, H2, H3, H4.
  rewrite (count_findings_eq loc1 l1 k1 E1), (count_findings_eq loc2 l2 k2 E2), Hf, Hc.
  assert (forall a b a' b', (forall x, In x a <-> In x a') -> (forall x, In x b <-> In x b') ->
            some_missing a b = some_missing a' b') as Hsm.
  { intros a b a' b' Ha Hb. destruct (some_missing a' b') eqn:E.
    - apply some_missing_spec in E. apply some_missing_spec. destruct E as (x & X1 & X2).
      exists x. rewrite Ha, Hb. auto.
    - apply some_missing_false. intros x Hx. apply Hb.
      rewrite some_missing_false in E. apply E, Ha, Hx. }
  assert (plural_var_findings p1 q1 = plural_var_findings p2 q2) as Hv.
  { unfold plural_var_findings. rewrite (Hsm p1 q1 p2 q2 Hp Hq), (Hsm q1 p1 q2 p2 Hq Hp). reflexivity. }
  destruct p1 as [|x1 p1]; destruct p2 as [|x2 p2]; try reflexivity.
  - exfalso. apply (proj2 (Hp x2)). left; reflexivity.
  - exfalso. apply (proj1 (Hp x1)). left; reflexivity.
  - rewrite Hv. reflexivity.
Qed.
