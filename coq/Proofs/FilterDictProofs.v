(* C14: the documented semantics only depends on how the patterns of the
   project match the file asked about; `_filter`'s truth test of the match
   dictionary agrees with "matches" when no dictionary is empty. *)
From Coq Require Import NArith List Bool Arith Lia.
From CL Require Import Base.Sx Base.Res Base.Str Regex.Rx Generated.FilterFacts
  Model.Filter Model.FilterSpec Proofs.FilterProofs.
Import ListNotations.

Section Ext.
Variables (matcher locale file : Type).
Variable loc_eqb : locale -> locale -> bool.
Variable compile_re : str -> option rx.
Variables mt1 mt2 : matcher -> locale -> file -> bool.

Notation rawconfig := (rawconfig matcher locale).
Notation verdicts1 := (verdicts matcher locale file loc_eqb mt1 compile_re).
Notation verdicts2 := (verdicts matcher locale file loc_eqb mt2 compile_re).

Lemma last_such_ext {A} (p q : A -> bool) (l : list A) :
  (forall x, In x l -> p x = q x) -> last_such p l = last_such q l.
Proof.
  unfold last_such. generalize (@None A).
  induction l as [|x l IH]; intros acc H; simpl; [reflexivity|].
  rewrite (H x (or_introl eq_refl)). apply IH. intros y Hy. apply H. right. exact Hy.
Qed.

Lemma own_verdict_ext : forall paths rules loc f ent,
  (forall m, In m (map (p_l10n _ _) paths ++ rule_matchers _ rules) -> mt1 m loc f = mt2 m loc f) ->
  own_verdict matcher locale file loc_eqb mt1 compile_re paths rules loc f ent =
  own_verdict matcher locale file loc_eqb mt2 compile_re paths rules loc f ent.
Proof.
  intros paths rules loc f ent H. unfold own_verdict.
  rewrite (existsb_ext' (fun p => path_covers _ _ _ loc_eqb mt1 p loc f)
                        (fun p => path_covers _ _ _ loc_eqb mt2 p loc f)).
  2:{ intros p Hin. unfold path_covers. rewrite (H (p_l10n _ _ p)); [reflexivity|].
      apply in_or_app. left. apply in_map. exact Hin. }
  rewrite (last_such_ext (fun r => rule_applies _ _ _ mt1 compile_re r loc f ent)
                         (fun r => rule_applies _ _ _ mt2 compile_re r loc f ent)); [reflexivity|].
  intros r Hin. unfold rule_applies. f_equal. apply existsb_ext'. intros m Hm. apply H.
  apply in_or_app. right. unfold rule_matchers. apply in_flat_map. exists r. split; assumption.
Qed.

Definition agree_on (raw : rawconfig) (loc : locale) (f : file) : Prop :=
  forall m, In m (raw_matchers _ _ raw) -> mt1 m loc f = mt2 m loc f.

Lemma verdicts_ext : forall raw loc f, agree_on raw loc f ->
  forall ent, verdicts1 raw loc f ent = verdicts2 raw loc f ent.
Proof.
  intros raw loc f. revert raw.
  apply (rawconfig_ind2 _ _ (fun raw => agree_on raw loc f ->
            forall ent, verdicts1 raw loc f ent = verdicts2 raw loc f ent)).
  intros locs paths rules children excludes IHc IHe H ent.
  rewrite Forall_forall in IHc, IHe. unfold agree_on in H. simpl in H. simpl.
  rewrite (existsb_ext' _ (fun e => existsb (loc_eqb loc) (raw_locales _ _ e) &&
                                    negb (is_nil (verdicts2 e loc f None)))).
  2:{ intros e Hin. rewrite (IHe e Hin); [reflexivity|].
      intros m Hm. apply H. apply in_or_app. right. apply in_or_app. right.
      apply in_or_app. right. apply in_flat_map. exists e. split; assumption. }
  destruct (existsb _ excludes); [reflexivity|].
  f_equal.
  - apply own_verdict_ext. intros m Hm. apply H. rewrite app_assoc. apply in_or_app. left. exact Hm.
  - apply flat_map_ext_in'. intros ch Hin. apply IHc; [exact Hin|].
    intros m Hm. apply H. apply in_or_app. right. apply in_or_app. right.
    apply in_or_app. left. apply in_flat_map. exists ch. split; assumption.
Qed.

Lemma excludes_error_only_ext : forall raw loc f, agree_on raw loc f ->
  excludes_error_only matcher locale file loc_eqb mt1 compile_re raw loc f =
  excludes_error_only matcher locale file loc_eqb mt2 compile_re raw loc f.
Proof.
  intros raw loc f. revert raw.
  apply (rawconfig_ind2 _ _ (fun raw => agree_on raw loc f ->
            excludes_error_only matcher locale file loc_eqb mt1 compile_re raw loc f =
            excludes_error_only matcher locale file loc_eqb mt2 compile_re raw loc f)).
  intros locs paths rules children excludes IHc IHe H.
  rewrite Forall_forall in IHc, IHe. unfold agree_on in H. simpl in H. simpl.
  f_equal.
  - apply forallb_ext_in'. intros e Hin.
    assert (He : agree_on e loc f).
    { intros m Hm. apply H. apply in_or_app. right. apply in_or_app. right.
      apply in_or_app. right. apply in_flat_map. exists e. split; assumption. }
    rewrite (IHe e Hin He). unfold excl_covers. rewrite (verdicts_ext e loc f He None). reflexivity.
  - apply forallb_ext_in'. intros ch Hin. apply IHc; [exact Hin|].
    intros m Hm. apply H. apply in_or_app. right. apply in_or_app. right.
    apply in_or_app. left. apply in_flat_map. exists ch. split; assumption.
Qed.

Lemma spec_ext : forall raw loc f ent, agree_on raw loc f ->
  spec matcher locale file loc_eqb mt1 compile_re raw loc f ent =
  spec matcher locale file loc_eqb mt2 compile_re raw loc f ent.
Proof.
  intros raw loc f ent H. unfold spec. rewrite (verdicts_ext raw loc f H ent). reflexivity.
Qed.

End Ext.

Section Dict.
Variables (matcher locale file : Type).
Variable loc_eqb : locale -> locale -> bool.
Variable compile_re : str -> option rx.
Variable pmatch : matcher -> locale -> file -> option nat.

Lemma dicts_nonempty_agree : forall raw loc f,
  dicts_nonempty matcher locale file pmatch raw loc f = true ->
  agree_on matcher locale file (code_matches _ _ _ pmatch) (doc_matches _ _ _ pmatch) raw loc f.
Proof.
  intros raw loc f H m Hm. unfold dicts_nonempty in H. rewrite forallb_forall in H.
  specialize (H m Hm). unfold code_matches, doc_matches.
  destruct (pmatch m loc f) as [[|n]|]; [discriminate|reflexivity|reflexivity].
Qed.

(* C14_refines_spec: what the code computes (truth of the match dictionaries)
   is the documented verdict (pattern matches), for every configuration built
   through the API, outside the two known findings *)
Theorem refines_spec_doc : forall raw cfg loc f ent,
  build matcher locale compile_re raw = Ok cfg ->
  dicts_nonempty matcher locale file pmatch raw loc f = true ->
  excludes_error_only matcher locale file loc_eqb (doc_matches _ _ _ pmatch) compile_re raw loc f = true ->
  filter_pure matcher locale file loc_eqb (code_matches _ _ _ pmatch) cfg loc f ent =
  spec matcher locale file loc_eqb (doc_matches _ _ _ pmatch) compile_re raw loc f ent.
Proof.
  intros raw cfg loc f ent Hb Hd Hex. pose proof (dicts_nonempty_agree raw loc f Hd) as Ha.
  rewrite <- (spec_ext _ _ _ loc_eqb compile_re _ _ raw loc f ent Ha).
  apply refines_spec; [exact Hb|].
  rewrite (excludes_error_only_ext _ _ _ loc_eqb compile_re _ _ raw loc f Ha). exact Hex.
Qed.

End Dict.
