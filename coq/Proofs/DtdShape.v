(* DTD: entries of a legal block list (C02BlocksDtd.v, without parameter-entity blocks) as
   merge.py / serializer.py see them, and back: a well-shaped entry list (every standalone
   comment directly followed by a whitespace entry with two line breaks) whose entries are
   texts of legal block parts is the text of a legal block list, one block per entry — so
   the block theorem of C02 (blocks_dtd) gives the re-parse. *)
From Coq Require Import ZArith NArith List Bool Arith Lia.
From CL Require Import Base.Sx Base.Res Base.Str Model.Entry Model.Parse Model.ParseFormats
                       Proofs.C02Roundtrip Proofs.C02BlocksRx Proofs.C02BlocksDtdRx
                       Proofs.C02BlocksDtdPeRx Proofs.C02BlocksDtd
                       Model.Channels Proofs.ChannelsProofs Proofs.MergeShapeKeys Proofs.MergeShape
                       Proofs.SerializerProofs.
From CL Require Proofs.C02Blocks Proofs.MergeReparse15.
Import ListNotations.
Local Open Scope nat_scope.
Local Notation mem := C02Roundtrip.mem.
Local Arguments comment_text : simpl never.
Local Arguments decl_text : simpl never.

Definition dent_text pre ws1 name ws2 (q : N) v ws3 : str :=
  pre_text pre ++ decl_text ws1 name ws2 q v ws3.
Definition dent_centry pre ws1 name ws2 (q : N) v ws3 : centry :=
  mkc CEntity name (dent_text pre ws1 name ws2 q v ws3) v 0.
Definition dcom_centry (body : str) : centry := mkc CComment body (comment_text body) [] 0.
Definition dws_centry (w : str) : centry := mkc CWhite [] w [] 0.
Definition dflush (w : str) : list centry := match w with [] => [] | _ => [dws_centry w] end.

Definition no_pe (bs : list block) : Prop := Forall (fun b => match b with BPE _ => False | _ => True end) bs.

(* [w]: the whitespace pending (adjacent whitespace blocks form ONE entry) *)
Fixpoint dcents (w : str) (bs : list block) : list centry :=
  match bs with
  | [] => dflush w
  | BBlank x :: rest => dcents (w ++ x) rest
  | BComment body :: rest => dflush w ++ dcom_centry body :: dcents [] rest
  | BEntity pre ws1 name ws2 q v ws3 :: rest =>
      dflush w ++ dent_centry pre ws1 name ws2 q v ws3 :: dcents [] rest
  | BPE d :: rest =>
      dflush w ++ mkc CEntity (pe_name d) (pe_text d) (pe_q d :: pe_v d ++ [pe_q d]) 0 :: dcents [] rest
  end.
Definition dcentries_of (bs : list block) : list centry := dcents [] bs.

Lemma dflush_text w : concat (map c_text (dflush w)) = w.
Proof. destruct w; cbn; [reflexivity|rewrite app_nil_r; reflexivity]. Qed.

Lemma dcents_text bs : forall w, concat (map c_text (dcents w bs)) = w ++ file_text bs.
Proof.
  induction bs as [|b rest IH]; intros w; cbn [dcents].
  - rewrite dflush_text. cbn. rewrite app_nil_r. reflexivity.
  - rewrite file_text_cons. destruct b; cbn [text].
    + rewrite IH. rewrite app_assoc. reflexivity.
    + rewrite map_app, concat_app, dflush_text. cbn [map concat c_text dcom_centry]. rewrite IH. reflexivity.
    + rewrite map_app, concat_app, dflush_text. cbn [map concat c_text dent_centry]. rewrite IH. reflexivity.
    + rewrite map_app, concat_app, dflush_text. cbn [map concat c_text]. rewrite IH. reflexivity.
Qed.

Theorem dcentries_text bs : concat (map c_text (dcentries_of bs)) = file_text bs.
Proof. apply (dcents_text bs []). Qed.

Section Dec.
Variable m : nat.

Definition pre_license_free (pre : option (str * str)) : Prop :=
  match pre with Some (body, _) => contains s_License body = false | None => True end.

Inductive ddec : centry -> Prop :=
| ddec_ent e pre ws1 name ws2 q v ws3 :
    legal_blockb (BEntity pre ws1 name ws2 q v ws3) = true -> pre_license_free pre ->
    strip e = strip (dent_centry pre ws1 name ws2 q v ws3) -> ddec e
| ddec_com e body :
    legal_cbody body = true -> strip e = strip (dcom_centry body) -> ddec e
| ddec_ws e w :
    strip e = strip (dws_centry w) -> w <> [] -> is_ws w = true ->
    (m <= length w -> 2 <= count_char 10%N w) -> ddec e.

Lemma ddec_strip e e' : strip e = strip e' -> ddec e -> ddec e'.
Proof.
  intros Hs H. destruct H as [e pre ws1 name ws2 q v ws3 H1 H2 H3|e body H1 H2|e w H1 H2 H3 H4].
  - eapply ddec_ent; eauto. congruence.
  - eapply ddec_com; eauto. congruence.
  - eapply ddec_ws; eauto. congruence.
Qed.

Definition dbrecs (bs : list block) : list (str * str) :=
  map (fun r => (fst (fst r), snd (fst r))) (records_of bs).

Lemma license_ok_any off bs :
  Forall (fun b => match b with BEntity pre _ _ _ _ _ _ => pre_license_free pre | _ => True end) bs ->
  license_okb off bs = true.
Proof.
  intros H. revert off. induction H as [|b bs Hb _ IH]; intros off; [reflexivity|].
  destruct b as [w|body|pre ws1 name ws2 q v ws3|d]; cbn [license_okb]; try reflexivity; [apply IH|].
  destruct pre as [[body iw]|]; [|reflexivity]. unfold pre_license_free in Hb. rewrite Hb. rewrite andb_false_r. reflexivity.
Qed.

(* one block per entry *)
Lemma dshape_blocks out : nf m out -> Forall ddec out ->
  exists bs, Forall legal_block bs /\ separatedb bs = true /\
             Forall (fun b => match b with BEntity pre _ _ _ _ _ _ => pre_license_free pre | _ => True end) bs /\
             file_text bs = concat (map c_text out) /\ dbrecs bs = PropsShape.krecs out /\
             comments_of bs = PropsShape.ccoms out /\
             (forall w0 t, out = w0 :: t -> is_white w0 = true -> exists bs', bs = BBlank (c_text w0) :: bs').
Proof.
  induction out as [|x out IH]; intros Hnf Hdec.
  - exists []. repeat split; try constructor. intros w0 t H; discriminate.
  - destruct Hnf as [Hn1 Hn2]. pose proof (Forall_inv Hdec) as Hx. pose proof (Forall_inv_tail Hdec) as Hdec'.
    destruct (IH Hn2 Hdec') as (bs & B1 & B2 & B3 & B4 & B5 & B6 & B7).
    destruct Hx as [e pre ws1 name ws2 q v ws3 L1 L2 L3|e body C1 C3|e w W0 W1 W2 W3].
    + destruct (PropsShape.strip_fields _ _ L3) as (K1 & K2 & K3 & K4). cbn in K1, K2, K3, K4.
      exists (BEntity pre ws1 name ws2 q v ws3 :: bs). repeat split.
      * constructor; [exact L1|exact B1].
      * cbn [separatedb]. exact B2.
      * constructor; [exact L2|exact B3].
      * rewrite file_text_cons. cbn [map concat text]. rewrite K3, B4. reflexivity.
      * unfold dbrecs, PropsShape.krecs. cbn [records_of map flat_map fst snd]. unfold PropsShape.krec at 1.
        rewrite K1. cbn [app]. rewrite K2, K4. f_equal. exact B5.
      * unfold PropsShape.ccoms. cbn [filter comments_of].
        assert (is_comment e = false) as -> by (unfold is_comment; rewrite K1; reflexivity). exact B6.
      * intros w0 t H Hw. inversion H; subst. unfold is_white in Hw. rewrite K1 in Hw. discriminate.
    + destruct (PropsShape.strip_fields _ _ C3) as (K1 & K2 & K3 & K4). cbn in K1, K2, K3, K4.
      assert (Hw : is_white e = false) by (unfold is_white; rewrite K1; reflexivity).
      specialize (Hn1 Hw). destruct out as [|w0 out']; [contradiction|]. destruct Hn1 as [Hww Hneed].
      destruct (B7 w0 out' eq_refl Hww) as (bs' & ->).
      pose proof (Forall_inv Hdec') as Hdw.
      assert (Hnl : 2 <= count_char 10%N (c_text w0)).
      { destruct Hdw as [? ? ? ? ? ? ? ? _ _ Q|? ? _ Q|? w Q _ _ Q4].
        - apply PropsShape.strip_fields in Q. unfold is_white in Hww. destruct Q as [Q _]. cbn in Q. rewrite Q in Hww. discriminate.
        - apply PropsShape.strip_fields in Q. unfold is_white in Hww. destruct Q as [Q _]. cbn in Q. rewrite Q in Hww. discriminate.
        - destruct (PropsShape.strip_fields _ _ Q) as (_ & _ & T & _). cbn in T. rewrite T. apply Q4.
          unfold cneed, is_comment, clen in Hneed. rewrite K1, T in Hneed. exact Hneed. }
      exists (BComment body :: BBlank (c_text w0) :: bs'). repeat split.
      * constructor; [exact C1|exact B1].
      * cbn [separatedb]. cbn [separatedb] in B2. rewrite B2. rewrite andb_true_r.
        unfold comment_next_ok. cbn [lead_ws]. rewrite count_char_app.
        apply orb_true_iff. left. apply Nat.leb_le. lia.
      * constructor; [exact I|exact B3].
      * rewrite file_text_cons. cbn [map concat text]. rewrite K3. cbn [map concat] in B4. rewrite <- B4. reflexivity.
      * unfold dbrecs, PropsShape.krecs. cbn [records_of flat_map]. unfold PropsShape.krec at 1. rewrite K1. cbn [app].
        exact B5.
      * unfold PropsShape.ccoms. cbn [filter comments_of].
        assert (is_comment e = true) as -> by (unfold is_comment; rewrite K1; reflexivity).
        cbn [map comments_of]. rewrite K3. f_equal. exact B6.
      * intros w1 t H Hw1. inversion H; subst. congruence.
    + destruct (PropsShape.strip_fields _ _ W0) as (K1 & K2 & K3 & K4). cbn in K1, K2, K3, K4.
      exists (BBlank (c_text e) :: bs). repeat split.
      * constructor; [|exact B1]. unfold legal_block. cbn [legal_blockb]. rewrite K3, W2.
        destruct w; [contradiction|reflexivity].
      * cbn [separatedb]. exact B2.
      * constructor; [exact I|exact B3].
      * rewrite file_text_cons. cbn [map concat text]. rewrite B4. reflexivity.
      * unfold dbrecs, PropsShape.krecs. cbn [records_of flat_map]. unfold PropsShape.krec at 1. rewrite K1. cbn [app]. exact B5.
      * unfold PropsShape.ccoms. cbn [filter comments_of].
        assert (is_comment e = false) as -> by (unfold is_comment; rewrite K1; reflexivity). exact B6.
      * intros w1 t H _. inversion H; subst. eauto.
Qed.

Theorem dshape_reparse out : nf m out -> Forall ddec out ->
  exists es, walk_dtd (concat (map c_text out)) = Ok es /\
    map (fun e => let r := C02Blocks.entity_record (concat (map c_text out)) e in (fst (fst r), snd (fst r)))
        (filter (C02Blocks.is_kind KEntity) es) = PropsShape.krecs out /\
    map (fun e => C02Blocks.span_text (concat (map c_text out)) (e_span e))
        (filter (C02Blocks.is_kind KComment) es) = PropsShape.ccoms out /\
    filter (C02Blocks.is_kind KJunk) es = [].
Proof.
  intros H1 H3. destruct (dshape_blocks out H1 H3) as (bs & B1 & B2 & B3 & B4 & B5 & B6 & _).
  assert (Ha : adjacent_ok bs).
  { unfold adjacent_ok, adjacent_okb. rewrite B2, (license_ok_any 0 bs B3). reflexivity. }
  destruct (C02_roundtrip_dtd_multi bs B1 Ha) as (es & E1 & E2 & E3 & E4).
  rewrite B4 in E1, E2, E3. exists es. split; [exact E1|]. split; [|split; [|exact E4]].
  - rewrite <- B5. unfold dbrecs. rewrite <- E2, map_map. reflexivity.
  - rewrite <- B6. exact E3.
Qed.
End Dec.
