(* C15_identical: merging copies of one version (fresh whitespace objects each time)
   gives back the version's text, when the version has no two adjacent whitespace
   entries and distinct keys. *)
From Coq Require Import ZArith NArith List Bool Arith Lia Permutation.
From CL Require Import Base.Sx Base.Res Base.Str Model.AddRemove
                       Proofs.AddRemoveProofs Proofs.AddRemoveSpec Model.Channels
                       Proofs.ChannelsProofs Proofs.ChannelsSpec.
Import ListNotations.
Local Open Scope nat_scope.

Notation dmem := (AddRemove.mem dkey_eqb).
Notation druns := (runs dkey_eqb).
Notation dfollowers := (followers dkey_eqb).
Notation dspec_keys := (spec_keys dkey_eqb).

(* ---- keys of two copies -------------------------------------------------------------------- *)
Definition Rk (a b : dkey) : Prop :=
  (nwk a = true /\ a = b) \/ (nwk a = false /\ nwk b = false).

Fixpoint no_adj (l : list dkey) : Prop :=
  match l with
  | a :: (b :: _) as t => (nwk a = true \/ nwk b = true) /\ no_adj t
  | _ => True
  end.

Definition weave (l r : list dkey) : list dkey :=
  flat_map (fun ab => if nwk (fst ab) then [fst ab] else [snd ab; fst ab]) (combine l r).

Lemma followers_cons_neq x b ys gs : x <> b -> dfollowers x ((b, ys) :: gs) = dfollowers x gs.
Proof.
  intros H. cbn. destruct (dkey_eqb x b) eqn:E; [|reflexivity].
  apply dkey_eqb_eq in E. contradiction.
Qed.

Lemma dkey_eqb_refl x : dkey_eqb x x = true.
Proof. apply dkey_eqb_eq. reflexivity. Qed.

Lemma flat_map_ext_in_local {A B} (f g : A -> list B) (l : list A) :
  (forall x, In x l -> f x = g x) -> flat_map f l = flat_map g l.
Proof.
  induction l as [|x l IH]; intros H; cbn; [reflexivity|].
  rewrite (H x (or_introl eq_refl)), IH; [reflexivity|]. intros y Hy. apply H. right; exact Hy.
Qed.

Section Weave.
Variable L : list dkey.

Lemma weave_suffix : forall l' r', Forall2 Rk l' r' -> no_adj r' -> NoDup l' ->
  (forall x, In x l' -> nwk x = true -> In x L) ->
  (forall y, In y r' -> nwk y = false -> ~ In y L) ->
  (forall x, In x l' -> nwk x = false -> ~ In x r') ->
  fst (druns L r') ++ flat_map (fun x => x :: dfollowers x (snd (druns L r'))) l' = weave l' r' /\
  (match r' with b :: _ => nwk b = true -> fst (druns L r') = [] | [] => fst (druns L r') = [] end).
Proof.
  induction 1 as [|a b l' r' Hab HF IH]; intros Hadj Hnd HL HR HX.
  - cbn. split; reflexivity.
  - inversion Hnd as [|? ? Ha Hnd']; subst.
    assert (Hadj' : no_adj r') by (destruct r'; [exact I|apply Hadj]).
    destruct (IH Hadj' Hnd'
                (fun x Hx => HL x (or_intror Hx)) (fun y Hy => HR y (or_intror Hy))
                (fun x Hx Hn Hin => HX x (or_intror Hx) Hn (or_intror Hin))) as [IH1 IH2].
    clear IH. cbn [druns runs]. destruct (druns L r') as [pre gs] eqn:Er. cbn [fst snd] in *.
    destruct Hab as [[Hna Heq]|[Hna Hnb]].
    + subst b. assert (Hm : dmem a L = true).
      { apply (mem_In dkey_eqb dkey_eqb_eq). apply HL; [left; reflexivity|exact Hna]. }
      rewrite Hm. cbn [fst snd]. split; [|intros _; reflexivity].
      cbn [flat_map app dfollowers followers]. rewrite dkey_eqb_refl.
      unfold weave. cbn [combine flat_map fst snd]. rewrite Hna. cbn [app]. f_equal.
      fold (weave l' r'). rewrite <- IH1. f_equal.
      apply flat_map_ext_in_local. intros x Hx. f_equal. apply followers_cons_neq.
      intros ->. contradiction.
    + assert (Hm : dmem b L = false).
      { destruct (dmem b L) eqn:E; [|reflexivity]. apply (mem_In dkey_eqb dkey_eqb_eq) in E.
        exfalso. apply (HR b (or_introl eq_refl) Hnb E). }
      rewrite Hm. cbn [fst snd]. split; [|intros Hb; congruence].
      assert (Hpre : pre = []).
      { destruct r' as [|b2 r2]; [exact IH2|]. apply IH2.
        destruct Hadj as [[H|H] _]; [congruence|exact H]. }
      subst pre. cbn [flat_map app].
      assert (Hfa : dfollowers a gs = []).
      { pose proof (followers_notin dkey_eqb dkey_eqb_eq L r' a) as Hfn. rewrite Er in Hfn.
        cbn in Hfn. apply Hfn. intros Hin. apply (HX a (or_introl eq_refl) Hna). right. exact Hin. }
      rewrite Hfa. unfold weave. cbn [combine flat_map fst snd]. rewrite Hna. cbn [app].
      fold (weave l' r'). rewrite <- IH1. reflexivity.
Qed.
End Weave.

(* ---- dicts of two copies ------------------------------------------------------------------------ *)
Definition R (p q : dkey * centry) : Prop :=
  strip (snd p) = strip (snd q) /\ Rk (fst p) (fst q).

Definition pick (A O : dict) : dict :=
  map (fun pq => if nw (fst pq) then fst pq else snd pq) (combine A O).

Definition cs_of (A' O' : dict) : list (dkey * option centry) :=
  flat_map (fun pq => if nw (fst pq) then [(fst (fst pq), Some (snd (fst pq)))]
                      else [(fst (snd pq), Some (snd (snd pq)));
                            (fst (fst pq), Some (snd (fst pq)))]) (combine A' O').

Lemma strip_text a b : strip a = strip b -> c_text a = c_text b.
Proof. unfold strip. intros H. inversion H. reflexivity. Qed.

Lemma prune_cs : forall A' O', Forall2 R A' O' -> Forall key_ok A' -> Forall key_ok O' ->
  no_adj (map fst O') -> forall acc,
  (match A' with
   | p :: _ => nw p = false -> match acc with x :: _ => is_white (snd x) = false | [] => True end
   | [] => True
   end) ->
  fold_left prune_step (cs_of A' O') acc = rev (pick A' O') ++ acc.
Proof.
  induction 1 as [|p q A' O' Hpq HF IH]; intros HA HO Hadj acc Hacc; [reflexivity|].
  inversion HA as [|? ? Hp HA']; subst. inversion HO as [|? ? Hq HO']; subst.
  assert (Hadj' : no_adj (map fst O')) by (destruct O'; [exact I|apply Hadj]).
  destruct Hpq as [Hs Hk]. unfold cs_of, pick. cbn [combine flat_map map fst snd].
  fold (cs_of A' O'). fold (pick A' O').
  rewrite (key_ok_nw p Hp). destruct Hk as [[Hn Heq]|[Hn Hnq]]; rewrite Hn.
  - (* a keyed entry or comment: kept from the newer dict *)
    cbn [app fold_left].
    assert (Hw : is_white (snd p) = false).
    { pose proof (key_ok_nw p Hp) as E. rewrite Hn in E. unfold nw in E.
      destruct (is_white (snd p)); [discriminate|reflexivity]. }
    assert (Hstep : prune_step acc (fst p, Some (snd p)) = p :: acc).
    { unfold prune_step. cbn [snd fst]. rewrite Hw. cbn. destruct p. destruct acc as [|[pk pe] ?]; reflexivity. }
    rewrite Hstep. rewrite IH; try assumption.
    + cbn [rev]. rewrite <- app_assoc. reflexivity.
    + destruct A' as [|p' ?]; [exact I|]. intros _. exact Hw.
  - (* whitespace: the older dict's object comes first and is kept (equal length) *)
    cbn [app fold_left].
    assert (Hwp : is_white (snd p) = true).
    { pose proof (key_ok_nw p Hp) as E. rewrite Hn in E. unfold nw in E.
      destruct (is_white (snd p)); [reflexivity|discriminate]. }
    assert (Hwq : is_white (snd q) = true).
    { pose proof (key_ok_nw q Hq) as E. rewrite Hnq in E. unfold nw in E.
      destruct (is_white (snd q)); [reflexivity|discriminate]. }
    assert (Hs1 : prune_step acc (fst q, Some (snd q)) = q :: acc).
    { unfold prune_step. cbn [snd fst]. destruct q as [kq eq]. cbn [snd fst] in *.
      destruct acc as [|[pk pe] acc']; [reflexivity|].
      assert (is_white pe = false) as -> .
      { apply Hacc. rewrite (key_ok_nw p Hp). exact Hn. }
      rewrite andb_false_r. reflexivity. }
    rewrite Hs1.
    assert (Hs2 : prune_step (q :: acc) (fst p, Some (snd p)) = q :: acc).
    { unfold prune_step. cbn [snd fst]. destruct q as [kq eq]. cbn [snd fst] in *.
      rewrite Hwp, Hwq. cbn [andb]. rewrite (strip_text _ _ Hs).
      rewrite Nat.ltb_irrefl. reflexivity. }
    rewrite Hs2. rewrite IH; try assumption.
    + cbn [rev]. rewrite <- app_assoc. reflexivity.
    + destruct A' as [|p' A'']; [exact I|]. intros Hp'. exfalso.
      inversion HF as [|? q' ? O'' Hpq' _]; subst.
      inversion HA' as [|? ? Hkp' _]; subst.
      destruct Hpq' as [_ [[Hn' _]|[Hn' Hnq']]].
      * rewrite (key_ok_nw p' Hkp') in Hp'. congruence.
      * cbn in Hadj. destruct Hadj as [[H|H] _]; congruence.
Qed.

Lemma merge_contents_map' N O keep :
  merge_contents N O keep =
  map (fun k => (k, get_entity keep N O k)) (map snd (addremove dkey_eqb (dkeys N) (dkeys O))).
Proof. unfold merge_contents. rewrite map_map. reflexivity. Qed.

Section Copy.
Variables A O : dict.
Hypothesis HA : wf A.
Hypothesis HO : wf O.
Hypothesis Hdis : ws_disjoint (dkeys A) (dkeys O).

Lemma contents_weave : forall A' O', Forall2 R A' O' -> incl A' A -> incl O' O ->
  map (fun k => (k, get_newer_entity A O k)) (weave (map fst A') (map fst O')) = cs_of A' O'.
Proof.
  induction 1 as [|p q A' O' Hpq HF IH]; intros HiA HiO; [reflexivity|].
  assert (HpA : In p A) by (apply HiA; left; reflexivity).
  assert (HqO : In q O) by (apply HiO; left; reflexivity).
  pose proof HA as [HA1 HA2]. pose proof HO as [HO1 HO2].
  rewrite Forall_forall in HA2, HO2.
  unfold weave, cs_of. cbn [map combine flat_map fst snd].
  fold (weave (map fst A') (map fst O')). fold (cs_of A' O').
  rewrite (key_ok_nw p (HA2 p HpA)).
  assert (Hgp : get_newer_entity A O (fst p) = Some (snd p)).
  { unfold get_newer_entity. rewrite (In_od_get dkey_eqb dkey_eqb_eq (fst p) (snd p) A HA1);
      [reflexivity|]. destruct p; exact HpA. }
  rewrite map_app. rewrite IH.
  2:{ intros x Hx. apply HiA. right; exact Hx. }
  2:{ intros x Hx. apply HiO. right; exact Hx. }
  destruct Hpq as [_ [[Hn Heq]|[Hn Hnq]]]; rewrite Hn; cbn [map app].
  - rewrite Hgp. reflexivity.
  - rewrite Hgp.
    assert (Hgq : get_newer_entity A O (fst q) = Some (snd q)).
    { unfold get_newer_entity.
      assert (od_get dkey_eqb (fst q) A = None) as ->.
      { apply (od_get_None dkey_eqb dkey_eqb_eq). intros Hin. apply (Hdis (fst q) Hnq Hin).
        apply in_map. exact HqO. }
      apply (In_od_get dkey_eqb dkey_eqb_eq); [exact HO1|]. destruct q; exact HqO. }
    rewrite Hgq. reflexivity.
Qed.

Hypothesis HR : Forall2 R A O.
Hypothesis Hadj : no_adj (dkeys O).

Lemma Forall2_R_keys : forall X Y, Forall2 R X Y -> Forall2 Rk (map fst X) (map fst Y).
Proof. induction 1 as [|p q X Y [_ H] _ IH]; cbn; constructor; assumption. Qed.

Theorem merge_copy : merge_two A O true = pick A O.
Proof.
  rewrite (merge_two_eq A O true HA HO). rewrite merge_contents_map'. cbn [get_entity].
  rewrite (addremove_anchor dkey_eqb dkey_eqb_eq _ _ (proj1 HA) (proj1 HO)).
  assert (Hw : dspec_keys (dkeys A) (dkeys O) = weave (dkeys A) (dkeys O)).
  { unfold spec_keys.
    destruct (weave_suffix (dkeys A) (dkeys A) (dkeys O)) as [W _].
    - apply Forall2_R_keys. exact HR.
    - exact Hadj.
    - apply HA.
    - intros x Hx _. exact Hx.
    - intros y Hy Hn Hin. apply (Hdis y Hn Hin Hy).
    - intros x Hx Hn Hin. apply (Hdis x Hn Hx Hin).
    - destruct (druns (dkeys A) (dkeys O)) as [pre gs]. exact W. }
  rewrite Hw. unfold dkeys. rewrite (contents_weave A O HR (incl_refl _) (incl_refl _)).
  rewrite (prune_cs A O HR (proj2 HA) (proj2 HO) Hadj []).
  - rewrite app_nil_r. apply rev_involutive.
  - destruct A; [exact I|]. intros _. exact I.
Qed.

End Copy.

Lemma R_refl q : R q q.
Proof.
  split; [reflexivity|]. unfold Rk. destruct (nwk (fst q)); [left|right]; auto.
Qed.

Lemma pick_R X Y : Forall2 R X Y -> Forall2 R (pick X Y) Y.
Proof.
  unfold pick. induction 1 as [|p q X Y Hpq _ IH]; cbn; constructor; [|exact IH].
  destruct (nw p); [exact Hpq|apply R_refl].
Qed.


(* ---- the fold over copies of one version ------------------------------------------------------- *)
Lemma Rk_trans a b c : Rk a b -> Rk b c -> Rk a c.
Proof.
  unfold Rk. intros [[H1 H2]|[H1 H2]] [[H3 H4]|[H3 H4]]; subst; try congruence; auto.
Qed.

Lemma R_trans p q r : R p q -> R q r -> R p r.
Proof. intros [H1 H2] [H3 H4]. split; [congruence|eapply Rk_trans; eassumption]. Qed.

Lemma Forall2_R_trans X : forall Y Z, Forall2 R X Y -> Forall2 R Y Z -> Forall2 R X Z.
Proof.
  induction X as [|p X IH]; intros Y Z H1 H2; inversion H1; subst; inversion H2; subst; constructor.
  - eapply R_trans; eassumption.
  - eapply IH; eassumption.
Qed.

Lemma Forall2_R_refl X : Forall2 R X X.
Proof. induction X; constructor; [apply R_refl|assumption]. Qed.

Lemma copies_R v : forall c c' cnt,
  Forall2 R (key_values (number c v) cnt) (key_values (number c' v) cnt).
Proof.
  induction v as [|a v IH]; intros c c' cnt; cbn [number key_values]; [constructor|].
  unfold get_key_value. cbn [c_kind c_key c_id].
  destruct (c_kind a) eqn:Ek; constructor; try apply IH; (split; [reflexivity|]); unfold Rk; cbn; auto.
Qed.

Fixpoint no_adj_white (v : list centry) : Prop :=
  match v with
  | a :: (b :: _) as t => (is_white a = false \/ is_white b = false) /\ no_adj_white t
  | _ => True
  end.

Lemma kv_head_nwk a v c cnt :
  exists k rest, map fst (key_values (number c (a :: v)) cnt) = k :: rest /\
                 nwk k = negb (is_white a) /\
                 exists cnt', rest = map fst (key_values (number (S c) v) cnt').
Proof.
  cbn [number key_values]. unfold get_key_value. cbn [c_kind c_key c_id].
  unfold is_white. destruct (c_kind a); cbn; eexists; eexists; (split; [reflexivity|]);
    (split; [reflexivity|]); eexists; reflexivity.
Qed.

Lemma no_adj_keys v : no_adj_white v -> forall c cnt,
  no_adj (map fst (key_values (number c v) cnt)).
Proof.
  induction v as [|a v IH]; intros H c cnt; [exact I|].
  destruct (kv_head_nwk a v c cnt) as (k & rest & -> & Hk & cnt' & ->).
  destruct v as [|b v']; [exact I|].
  destruct (kv_head_nwk b v' (S c) cnt') as (k2 & rest2 & E & Hk2 & _).
  pose proof (IH (proj2 H) (S c) cnt') as IH'. rewrite E in *.
  split; [|exact IH']. rewrite Hk, Hk2. destruct H as [[H|H] _]; rewrite H; auto.
Qed.

Definition ws_below (n : nat) (d : dict) : Prop := forall i, In (DW i) (dkeys d) -> i < n.

Lemma fold_copies v : ukeys v -> no_adj_white v -> forall n acc ctr,
  wf acc -> Forall2 R acc (key_values (number 0 v) []) -> ws_below ctr acc ->
  Forall2 R (fold_merge acc (map parse_resource (number_all ctr (repeat v n))))
            (key_values (number 0 v) []).
Proof.
  intros Hu Hadj. induction n as [|n IH]; intros acc ctr Hw HR Hb; [exact HR|].
  cbn [repeat number_all map fold_merge fold_left].
  fold (fold_merge (merge_two acc (parse_resource (number ctr v)) true)
                   (map parse_resource (number_all (ctr + length v) (repeat v n)))).
  assert (HO : wf (parse_resource (number ctr v))) by (apply parse_resource_wf, number_uniq; exact Hu).
  assert (HRO : Forall2 R acc (parse_resource (number ctr v))).
  { rewrite parse_resource_uniq by (apply number_uniq; exact Hu).
    eapply Forall2_R_trans; [exact HR|apply copies_R]. }
  assert (Hdis : ws_disjoint (dkeys acc) (dkeys (parse_resource (number ctr v)))).
  { intros k Hk H1 H2. apply nwk_false in Hk. destruct Hk as [i ->].
    apply Hb in H1. apply (parse_number_ws v ctr i Hu) in H2. lia. }
  assert (Hna : no_adj (dkeys (parse_resource (number ctr v)))).
  { rewrite parse_resource_uniq by (apply number_uniq; exact Hu). apply no_adj_keys. exact Hadj. }
  pose proof (merge_copy acc _ Hw HO Hdis HRO Hna) as Hm.
  apply IH.
  - apply merge_two_wf; assumption.
  - rewrite Hm. eapply Forall2_R_trans; [apply pick_R; exact HRO|].
    rewrite parse_resource_uniq by (apply number_uniq; exact Hu). apply copies_R.
  - intros i Hi. apply (merge_two_keys_incl acc _ true Hw HO) in Hi. destruct Hi as [Hi|Hi].
    + apply Hb in Hi. lia.
    + apply (parse_number_ws v ctr i Hu) in Hi. lia.
Qed.

Lemma Forall2_R_texts X Y : Forall2 R X Y -> map c_text (dvalues X) = map c_text (dvalues Y).
Proof.
  unfold dvalues. induction 1 as [|p q X Y [H _] _ IH]; cbn; [reflexivity|].
  rewrite IH, (strip_text _ _ H). reflexivity.
Qed.

Theorem merge_identical name p v n : get_parser name = Ok (Some p) -> ukeys v -> no_adj_white v ->
  merge_channels name (repeat v (S n)) = Ok (serialize_legacy v).
Proof.
  intros Hp Hu Hadj.
  assert (E : merge_entries (repeat v (S n)) =
              Ok (dvalues (fold_merge (parse_resource (number 0 v))
                                      (map parse_resource (number_all (length v) (repeat v n)))))).
  { reflexivity. }
  rewrite (merge_channels_ok name p _ _ Hp E). f_equal. unfold serialize_legacy. f_equal.
  assert (H1 : Forall2 R (parse_resource (number 0 v)) (key_values (number 0 v) [])).
  { rewrite parse_resource_uniq by (apply number_uniq; exact Hu). apply Forall2_R_refl. }
  assert (H2 : ws_below (length v) (parse_resource (number 0 v))).
  { intros i Hi. apply (parse_number_ws v 0 i Hu) in Hi. lia. }
  pose proof (fold_copies v Hu Hadj n _ (length v)
                (parse_resource_wf _ (number_uniq v 0 Hu)) H1 H2) as HF.
  rewrite (Forall2_R_texts _ _ HF). unfold dvalues. rewrite key_values_values.
  pose proof (number_strip v 0) as Hs.
  clear -Hs. revert Hs. generalize (number 0 v). induction v as [|a v IH]; intros [|b l] H;
    cbn in *; try discriminate; try reflexivity.
  injection H as H1 H2 H3 H4 H5. rewrite (IH l H5), H3. reflexivity.
Qed.
