(* C08: the reference warnings of check_message are exactly the missing and the
   obsolete references of Model/CheckFluentSpec.v. *)
From Coq Require Import ZArith NArith List Bool Arith Lia Permutation.
From CL Require Import Base.Sx Base.Res Base.Str
  Generated.C08Facts Model.Ftl Model.CheckFluent Model.CheckFluentSpec Proofs.CheckFluentBase.
Import ListNotations.

Local Arguments Nat.ltb : simpl never.
Local Arguments Nat.leb : simpl never.

(* ---- list helpers ------------------------------------------------------------------------ *)
Lemma filter_flat_map : forall {A B} (f : B -> bool) (g : A -> list B) l,
  filter f (flat_map g l) = flat_map (fun x => filter f (g x)) l.
Proof.
  intros A B f g l. induction l as [|x l IH]; simpl; [reflexivity|].
  rewrite filter_app, IH. reflexivity.
Qed.

Lemma filter_map_none : forall {A B} (f : B -> bool) (g : A -> B) l,
  (forall x, f (g x) = false) -> filter f (map g l) = [].
Proof. intros A B f g l H. induction l as [|x l IH]; simpl; [reflexivity | rewrite H; exact IH]. Qed.

Lemma flat_map_nil : forall {A B} (g : A -> list B) l, (forall x, g x = []) -> flat_map g l = [].
Proof. intros A B g l H. induction l as [|x l IH]; simpl; [reflexivity | rewrite H; exact IH]. Qed.

Lemma flat_map_flat_map : forall {A B C} (f : B -> list C) (g : A -> list B) l,
  flat_map f (flat_map g l) = flat_map (fun x => flat_map f (g x)) l.
Proof.
  intros A B C f g l. induction l as [|x l IH]; simpl; [reflexivity|].
  rewrite flat_map_app, IH. reflexivity.
Qed.

Lemma flat_map_map' : forall {A B C} (f : B -> list C) (g : A -> B) l,
  flat_map f (map g l) = flat_map (fun x => f (g x)) l.
Proof. intros A B C f g l. induction l as [|x l IH]; simpl; [reflexivity | rewrite IH; reflexivity]. Qed.

Lemma map_flat_map : forall {A B C} (f : B -> C) (g : A -> list B) l,
  map f (flat_map g l) = flat_map (fun x => map f (g x)) l.
Proof.
  intros A B C f g l. induction l as [|x l IH]; simpl; [reflexivity|].
  rewrite map_app, IH. reflexivity.
Qed.

(* ---- kinds ---------------------------------------------------------------------------------- *)
Lemma Forall_map_kind : forall {A} (g : A -> msg) K l,
  (forall x, m_kind (g x) = K) -> Forall (fun m => m_kind m = K) (map g l).
Proof. intros A g K l H. induction l as [|x l IH]; simpl; constructor; auto. Qed.

Lemma dup_attr_kind : forall attrs, Forall (fun m => m_kind m = KDupAttr) (dup_attr_msgs attrs).
Proof. intro. unfold dup_attr_msgs. apply Forall_map_kind. intros [[b p] n]. reflexivity. Qed.

Lemma dup_variant_kind : forall keys, Forall (fun m => m_kind m = KDupVariant) (dup_variant_msgs keys).
Proof. intro. unfold dup_variant_msgs. apply Forall_map_kind. intros [[b p] n]. reflexivity. Qed.

Lemma plural_kind : forall known keys, Forall (fun m => m_kind m = KPlural) (plural_msgs known keys).
Proof.
  intros. unfold plural_msgs. destruct known as [[|c kp]|]; try constructor.
  destruct (existsb _ _); [|constructor].
  destruct (sorted_set _); [constructor|]. destruct keys as [|[k p0] keys]; constructor; [reflexivity|constructor].
Qed.

Lemma check_style_kind : forall d m e, Forall (fun x => m_kind x = KCss) (fst (check_style d m e)).
Proof.
  intros d m e. unfold check_style.
  destruct m as [[|x lm]|]; try (constructor; [reflexivity|constructor]).
  destruct e as [[|y es]|]; try (constructor; [reflexivity|constructor]);
    destruct (css_l10n_loop (x :: lm) d []) as [d' msgs]; simpl;
    destruct (fold_left _ d' msgs); constructor; try reflexivity; constructor.
Qed.

Lemma lstyle_kind : forall a rc, Forall (fun x => m_kind x = KCss) (fst (lstyle a rc)).
Proof.
  intros a rc. unfold lstyle. destruct (negb _); [constructor|].
  destruct (pattern_variants _); [|constructor]. destruct (parse_css_spec _) as [m e].
  destruct rc as [|[d|]]; simpl; try apply check_style_kind.
  pose proof (check_style_kind d m e) as H. destruct (check_style d m e). exact H.
Qed.

Section Kinds.
Variable kf : kind -> bool.
Hypothesis kf_css : kf KCss = false.
Hypothesis kf_value : kf KObsValue = false /\ kf KMissValue = false.
Hypothesis kf_attr : kf KMissAttr = false /\ kf KObsAttr = false.

Lemma filter_all_kind : forall K l,
  Forall (fun m => m_kind m = K) l -> filter (by_kind kf) l = if kf K then l else [].
Proof.
  intros K l H. induction H as [|x l Hx Hl IH]; simpl; [destruct (kf K); reflexivity|].
  unfold by_kind at 1. rewrite Hx, IH. destruct (kf K); reflexivity.
Qed.

Lemma filter_dup_attr : forall attrs,
  filter (by_kind kf) (dup_attr_msgs attrs) = if kf KDupAttr then dup_attr_msgs attrs else [].
Proof. intro. apply filter_all_kind, dup_attr_kind. Qed.

Lemma filter_check_variants : forall known keys,
  filter (by_kind kf) (check_variants known keys) =
  (if kf KDupVariant then dup_variant_msgs keys else [])
  ++ (if kf KPlural then plural_msgs known keys else []).
Proof.
  intros. unfold check_variants.
  rewrite filter_app, (filter_all_kind _ _ (dup_variant_kind keys)),
    (filter_all_kind _ _ (plural_kind known keys)). reflexivity.
Qed.

Lemma filter_lstyle : forall a rc, filter (by_kind kf) (fst (lstyle a rc)) = [].
Proof. intros. rewrite (filter_all_kind _ _ (lstyle_kind a rc)), kf_css. reflexivity. Qed.

Lemma filter_value_msgs : forall R l, filter (by_kind kf) (value_msgs R l) = [].
Proof.
  intros. destruct kf_value as [H1 H2]. unfold value_msgs.
  destruct (e_value l) as [[vp p]|], (r_has_value R); simpl; unfold by_kind; simpl;
    rewrite ?H1, ?H2; reflexivity.
Qed.

Lemma filter_attr_msgs : forall rpos lpos, filter (by_kind kf) (attr_msgs rpos lpos) = [].
Proof.
  intros. destruct kf_attr as [H1 H2]. unfold attr_msgs. rewrite filter_app, !filter_flat_map.
  rewrite !flat_map_nil; [reflexivity | |]; intros [n p]; simpl; destruct (dhas _ _ _); simpl;
    unfold by_kind; simpl; rewrite ?H1, ?H2; reflexivity.
Qed.

Lemma filter_attr_stream : forall known R attrs rc,
  filter (by_kind kf) (attr_stream known R attrs rc) =
  flat_map (fun a => filter (by_kind kf) (flat_map (ev_msg known (dict_at (Some (a_name a)) (r_refs R)))
                                                  (walk_pattern false (a_value a)))) attrs.
Proof.
  intros known R attrs. induction attrs as [|a attrs IH]; intro rc; simpl; [reflexivity|].
  rewrite !filter_app, filter_lstyle, IH. reflexivity.
Qed.

(* everything but the event handlers and the missing references *)
Lemma filter_check_message : forall known r l,
  filter (by_kind kf) (check_message known r l) =
  (if kf KDupAttr then dup_attr_msgs (e_attrs l) else [])
  ++ filter (by_kind kf) (flat_map (ev_msg known (dict_at None (r_refs (rvisit r)))) (events_of_value false l))
  ++ flat_map (fun a => filter (by_kind kf)
                          (flat_map (ev_msg known (dict_at (Some (a_name a)) (r_refs (rvisit r))))
                                    (walk_pattern false (a_value a)))) (e_attrs l)
  ++ filter (by_kind kf) (missing_ref_msgs (r_refs (rvisit r)) (l_refs (lvisit known (rvisit r) l))).
Proof.
  intros. rewrite check_message_msgs, !filter_app.
  rewrite filter_dup_attr, filter_attr_stream, filter_value_msgs, filter_attr_msgs. reflexivity.
Qed.
End Kinds.

(* ---- the reference visitor's dicts ------------------------------------------------------------- *)
Definition attr_events (k : option str) (attrs : list attribute) : list event :=
  match k with
  | None => []
  | Some n => flat_map (fun a => if str_eqb (a_name a) n then walk_pattern false (a_value a) else []) attrs
  end.

Lemma fold_rvisit_attr_dict : forall attrs st k,
  dict_at k (r_refs (fold_left rvisit_attr attrs st)) =
  fold_left rvisit_event (attr_events k attrs) (dict_at k (r_refs st)).
Proof.
  induction attrs as [|a attrs IH]; intros st k.
  - destruct k; reflexivity.
  - simpl fold_left at 1. rewrite IH, rvisit_attr_eq. simpl r_refs. unfold refdict in *.
    destruct k as [n|]; simpl attr_events.
    + destruct (str_eqb (a_name a) n) eqn:E.
      * apply str_eqb_eq in E. subst n. rewrite dict_at_dset_same, fold_left_app. reflexivity.
      * rewrite dict_at_dset_other; [reflexivity|]. intro H. inversion H; subst.
        rewrite str_eqb_refl in E. discriminate.
    + rewrite dict_at_dset_other by discriminate. reflexivity.
Qed.

Lemma rvisit_events_refs : forall evs d,
  fold_left rvisit_event evs d =
  fold_left (fun d x => dset str_eqb (ref_name x) (snd x) d) (flat_map ref_of_event evs) d.
Proof.
  induction evs as [|e evs IH]; intro d; [reflexivity|]. simpl. rewrite fold_left_app, <- IH.
  destruct e as [p id attr|p id [a|]|keys]; reflexivity.
Qed.

Lemma attr_events_refs : forall n attrs,
  flat_map ref_of_event (attr_events (Some n) attrs) =
  flat_map (fun a => if str_eqb (a_name a) n then pattern_refs (a_value a) else []) attrs.
Proof.
  intros n attrs. simpl. rewrite flat_map_flat_map. apply flat_map_ext. intro a.
  destruct (str_eqb (a_name a) n); reflexivity.
Qed.

Theorem rvisit_dict : forall r k, dict_at k (r_refs (rvisit r)) = ref_dict (refs_under k r).
Proof.
  intros r k. unfold rvisit. rewrite fold_rvisit_attr_dict. simpl r_refs. unfold ref_dict.
  destruct k as [n|].
  - rewrite rvisit_events_refs, attr_events_refs. reflexivity.
  - simpl. rewrite rvisit_events_refs. unfold refs_under, value_refs, events_of_value, pattern_refs.
    destruct (e_value r) as [[vp p]|]; reflexivity.
Qed.

Lemma fold_ref_dict_keys : forall refs (d : refdict) n,
  In n (map fst (fold_left (fun d x => dset str_eqb (ref_name x) (snd x) d) refs d)) <->
  In n (map fst d) \/ In n (map ref_name refs).
Proof.
  induction refs as [|x refs IH]; intros d n; simpl; [tauto|].
  rewrite IH, str_dset_keys_In. split; [intros [[H|H]|H] | intros [H|[H|H]]]; auto.
Qed.

Lemma ref_dict_keys : forall refs n, In n (map fst (ref_dict refs)) <-> In n (map ref_name refs).
Proof. intros. unfold ref_dict. rewrite fold_ref_dict_keys. simpl. tauto. Qed.

Lemma fold_ref_dict_NoDup : forall refs (d : refdict),
  NoDup (map fst d) -> NoDup (map fst (fold_left (fun d x => dset str_eqb (ref_name x) (snd x) d) refs d)).
Proof.
  induction refs as [|x refs IH]; intros d H; simpl; [exact H|].
  apply IH. apply (dset_NoDup str_eqb str_eqb_eq). exact H.
Qed.

Theorem ref_dict_NoDup : forall refs, NoDup (map fst (ref_dict refs)).
Proof. intro. apply fold_ref_dict_NoDup. constructor. Qed.

Lemma rvisit_has_ref : forall r k n,
  dhas str_eqb n (dict_at k (r_refs (rvisit r))) = mem_str n (ref_names k r).
Proof.
  intros. rewrite rvisit_dict, dhas_mem_keys. apply mem_str_ext. intro x. apply ref_dict_keys.
Qed.

(* the keys of entry_refs *)
Lemma dset_keys : forall {V} k (v : V) (m : list (option str * V)),
  map fst (dset ostr_eqb k v m) =
  if existsb (ostr_eqb k) (map fst m) then map fst m else map fst m ++ [k].
Proof.
  intros V k v m. induction m as [|[k' v'] m IH]; simpl; [reflexivity|].
  destruct (ostr_eqb k k') eqn:E; simpl; [reflexivity|]. rewrite IH.
  destruct (existsb _ _); reflexivity.
Qed.

Lemma existsb_some_keys : forall n acc,
  existsb (ostr_eqb (Some n)) (None :: map Some acc) = mem_str n acc.
Proof.
  intros n acc. simpl. unfold mem_str. induction acc as [|x acc IH]; simpl; [reflexivity|].
  rewrite IH. reflexivity.
Qed.

Lemma fold_rvisit_attr_keys : forall attrs st acc,
  map fst (r_refs st) = None :: map Some acc ->
  map fst (r_refs (fold_left rvisit_attr attrs st)) =
  None :: map Some (fold_left (fun acc x => set_add x acc) (map a_name attrs) acc).
Proof.
  induction attrs as [|a attrs IH]; intros st acc H; simpl; [exact H|].
  apply IH. rewrite rvisit_attr_eq. simpl r_refs. rewrite dset_keys, H, existsb_some_keys.
  unfold set_add. destruct (mem_str (a_name a) acc); [reflexivity|].
  simpl. rewrite map_app. reflexivity.
Qed.

Theorem rvisit_keys : forall r, map fst (r_refs (rvisit r)) = ref_keys r.
Proof. intro r. unfold rvisit, ref_keys, uniq, attr_names. apply (fold_rvisit_attr_keys _ _ []). reflexivity. Qed.

Lemma set_add_In : forall n x acc, In n (set_add x acc) <-> n = x \/ In n acc.
Proof.
  intros. unfold set_add. destruct (mem_str x acc) eqn:E.
  - apply mem_str_In in E. split; [auto | intros [->|H]; assumption].
  - rewrite in_app_iff. simpl. split; [intros [H|[H|[]]]; auto | intros [H|H]; auto].
Qed.

Lemma set_add_NoDup : forall x acc, NoDup acc -> NoDup (set_add x acc).
Proof.
  intros. unfold set_add. destruct (mem_str x acc) eqn:E; [assumption|].
  apply mem_str_false in E.
  apply Permutation_NoDup with (l := x :: acc); [apply Permutation_cons_append | constructor; assumption].
Qed.

Lemma fold_set_add_In : forall l acc n,
  In n (fold_left (fun acc x => set_add x acc) l acc) <-> In n acc \/ In n l.
Proof.
  induction l as [|x l IH]; intros acc n; simpl; [tauto|].
  rewrite IH, set_add_In. split; [intros [[H|H]|H] | intros [H|[H|H]]]; auto.
Qed.

Lemma fold_set_add_NoDup : forall l acc, NoDup acc -> NoDup (fold_left (fun acc x => set_add x acc) l acc).
Proof. induction l as [|x l IH]; intros acc H; simpl; [exact H|]. apply IH, set_add_NoDup, H. Qed.

Theorem uniq_spec : forall l, NoDup (uniq l) /\ forall n, In n (uniq l) <-> In n l.
Proof.
  intro l. unfold uniq. split; [apply fold_set_add_NoDup; constructor|].
  intro n. rewrite fold_set_add_In. simpl. tauto.
Qed.

Theorem ref_keys_NoDup : forall r, NoDup (ref_keys r).
Proof.
  intro r. unfold ref_keys. constructor.
  - rewrite in_map_iff. intros [x [H _]]. discriminate.
  - apply FinFun.Injective_map_NoDup; [intros a b H; congruence | apply uniq_spec].
Qed.

Lemma assoc_normal : forall {V} (m : list (option str * list V)),
  NoDup (map fst m) -> m = map (fun k => (k, dict_at k m)) (map fst m).
Proof.
  intros V m. induction m as [|[k v] m IH]; simpl; intro H; [reflexivity|].
  inversion H as [|? ? Hn Hd]; subst. f_equal.
  - unfold dict_at. simpl. rewrite (proj2 (ostr_eqb_eq k k) eq_refl). reflexivity.
  - rewrite IH at 1 by exact Hd. apply map_ext_in. intros k' Hk'. f_equal.
    unfold dict_at. simpl. destruct (ostr_eqb k' k) eqn:E; [|reflexivity].
    apply ostr_eqb_eq in E. subst. contradiction.
Qed.

(* ---- the localized visitor's sets ----------------------------------------------------------------- *)
Lemma fold_lvisit_attr_set : forall known R attrs st k,
  dict_at k (l_refs (fold_left (lvisit_attr known R) attrs st)) =
  fold_left (fun s n => set_add n s) (flat_map ev_name (attr_events k attrs)) (dict_at k (l_refs st)).
Proof.
  intros known R. induction attrs as [|a attrs IH]; intros st k.
  - destruct k; reflexivity.
  - simpl fold_left at 1. rewrite IH, lvisit_attr_eq. cbv zeta. simpl l_refs.
    destruct k as [n|]; simpl attr_events.
    + destruct (str_eqb (a_name a) n) eqn:E.
      * apply str_eqb_eq in E. subst n.
        rewrite dict_at_dset_same, flat_map_app, fold_left_app, fold_lvisit_fst. reflexivity.
      * rewrite dict_at_dset_other; [reflexivity|]. intro H. inversion H; subst.
        rewrite str_eqb_refl in E. discriminate.
    + rewrite dict_at_dset_other by discriminate. reflexivity.
Qed.

Lemma ev_name_refs : forall evs, flat_map ev_name evs = map ref_name (flat_map ref_of_event evs).
Proof.
  induction evs as [|e evs IH]; [reflexivity|]. simpl. rewrite map_app, IH.
  destruct e as [p id attr|p id [a|]|keys]; reflexivity.
Qed.

Theorem lvisit_has_ref : forall known R l k n,
  mem_str n (dict_at k (l_refs (lvisit known R l))) = mem_str n (ref_names k l).
Proof.
  intros known R l k n. apply mem_str_ext. intro x. unfold lvisit.
  pose proof (fold_lvisit_fst known (dict_at None (r_refs R)) (events_of_value false l)
                ([], dup_attr_msgs (e_attrs l))) as Hf.
  destruct (fold_left (lvisit_event known (dict_at None (r_refs R))) (events_of_value false l)
              ([], dup_attr_msgs (e_attrs l))) as [s ms]. simpl in Hf. subst s.
  simpl l_refs. rewrite fold_lvisit_attr_set. simpl l_refs.
  rewrite fold_set_add_In. unfold ref_names. destruct k as [m|].
  - rewrite !ev_name_refs, attr_events_refs. unfold dict_at. simpl. tauto.
  - simpl attr_events. simpl flat_map. unfold dict_at. simpl.
    rewrite fold_set_add_In, !ev_name_refs. simpl.
    unfold value_refs, events_of_value, pattern_refs. destruct (e_value l) as [[vp p]|]; simpl; tauto.
Qed.

(* ---- the two theorems ---------------------------------------------------------------------------------- *)
Lemma filter_obs_ev : forall known rr e,
  filter is_obsolete_ref (ev_msg known rr e) =
  flat_map (fun x => if dhas str_eqb (ref_name x) rr then []
                     else [emit (obsolete_site (snd x)) (KObsRef (snd x)) (fst (fst x)) [ref_name x]])
           (ref_of_event e).
Proof.
  intros known rr e. destruct e as [p id attr|p id [a|]|keys]; simpl; try reflexivity.
  - unfold obsolete_ref, ref_name. simpl. destruct (dhas _ _ _); reflexivity.
  - unfold obsolete_ref, ref_name. simpl. destruct (dhas _ _ _); reflexivity.
  - unfold is_obsolete_ref. rewrite filter_check_variants. reflexivity.
Qed.

Lemma filter_obs_events : forall known r k evs,
  filter is_obsolete_ref (flat_map (ev_msg known (dict_at k (r_refs (rvisit r)))) evs) =
  obsolete_in r k (flat_map ref_of_event evs).
Proof.
  intros. rewrite filter_flat_map. unfold obsolete_in. rewrite flat_map_flat_map.
  apply flat_map_ext. intro e. rewrite filter_obs_ev. apply flat_map_ext. intro x.
  rewrite rvisit_has_ref. reflexivity.
Qed.

Lemma filter_obs_missing : forall rrefs lrefs, filter is_obsolete_ref (missing_ref_msgs rrefs lrefs) = [].
Proof.
  intros. unfold missing_ref_msgs. rewrite filter_flat_map. apply flat_map_nil. intros [k d].
  rewrite filter_flat_map. apply flat_map_nil. intros [n t]. simpl.
  destruct (mem_str _ _); reflexivity.
Qed.

Theorem obsolete_refs_exact : forall known r l,
  filter is_obsolete_ref (check_message known r l) = obsolete_spec r l.
Proof.
  intros known r l. unfold is_obsolete_ref.
  rewrite filter_check_message by (try split; reflexivity).
  fold is_obsolete_ref. rewrite filter_obs_missing, app_nil_r. simpl. unfold obsolete_spec. f_equal.
  - rewrite filter_obs_events. unfold value_refs, events_of_value, pattern_refs.
    destruct (e_value l) as [[vp p]|]; reflexivity.
  - apply flat_map_ext. intro a. apply filter_obs_events.
Qed.

Lemma filter_miss_ev : forall known rr evs, filter is_missing_ref (flat_map (ev_msg known rr) evs) = [].
Proof.
  intros. rewrite filter_flat_map. apply flat_map_nil.
  intros [p id attr|p id [a|]|keys]; simpl; try reflexivity.
  - unfold obsolete_ref. destruct (dhas _ _ _); reflexivity.
  - unfold obsolete_ref. destruct (dhas _ _ _); reflexivity.
  - unfold is_missing_ref. rewrite filter_check_variants. reflexivity.
Qed.

Lemma filter_miss_missing : forall rrefs lrefs,
  filter is_missing_ref (missing_ref_msgs rrefs lrefs) = missing_ref_msgs rrefs lrefs.
Proof.
  intros. unfold missing_ref_msgs. rewrite filter_flat_map. apply flat_map_ext. intros [k d].
  rewrite filter_flat_map. apply flat_map_ext. intros [n t]. simpl.
  destruct (mem_str _ _); reflexivity.
Qed.

Theorem missing_refs_exact : forall known r l,
  filter is_missing_ref (check_message known r l) = missing_spec r l.
Proof.
  intros known r l. unfold is_missing_ref.
  rewrite filter_check_message by (try split; reflexivity).
  fold is_missing_ref. rewrite filter_miss_ev, filter_miss_missing.
  rewrite (flat_map_nil (fun a => filter is_missing_ref _)) by (intro a; apply filter_miss_ev).
  simpl. unfold missing_ref_msgs, missing_spec.
  rewrite (assoc_normal (r_refs (rvisit r))) at 1 by (rewrite rvisit_keys; apply ref_keys_NoDup).
  rewrite rvisit_keys, flat_map_map'. apply flat_map_ext. intro k. simpl.
  rewrite rvisit_dict. apply flat_map_ext. intros [n t]. simpl.
  rewrite lvisit_has_ref. destruct t; reflexivity.
Qed.

(* what ref_dict holds: each referenced name once, with the type of its last occurrence *)
Lemma find_app' : forall {A} (f : A -> bool) a b,
  find f (a ++ b) = match find f a with Some x => Some x | None => find f b end.
Proof. intros A f a b. induction a as [|x a IH]; simpl; [reflexivity|]. destruct (f x); [reflexivity | exact IH]. Qed.

Lemma fold_ref_dict_get : forall refs (d : refdict) n,
  dget str_eqb n (fold_left (fun d x => dset str_eqb (ref_name x) (snd x) d) refs d) =
  match find (fun x => str_eqb n (ref_name x)) (rev refs) with
  | Some x => Some (snd x)
  | None => dget str_eqb n d
  end.
Proof.
  induction refs as [|x refs IH]; intros d n; simpl; [reflexivity|].
  rewrite IH, find_app'.
  destruct (find _ (rev refs)); [reflexivity|]. simpl.
  destruct (str_eqb n (ref_name x)) eqn:E.
  - apply str_eqb_eq in E. subst. apply str_dget_dset_same.
  - apply (dget_dset_other str_eqb str_eqb_eq). apply str_eqb_neq. exact E.
Qed.

Theorem ref_dict_last : forall refs n t,
  In (n, t) (ref_dict refs) <->
  exists x, find (fun x => str_eqb n (ref_name x)) (rev refs) = Some x /\ snd x = t.
Proof.
  intros refs n t.
  assert (Hget : In (n, t) (ref_dict refs) <-> dget str_eqb n (ref_dict refs) = Some t).
  { pose proof (ref_dict_NoDup refs) as Hnd. revert Hnd. generalize (ref_dict refs) as d.
    induction d as [|[k v] d IH]; simpl; intro Hnd; [split; [intros [] | discriminate]|].
    inversion Hnd as [|? ? Hn Hd]; subst. destruct (str_eqb n k) eqn:E.
    - apply str_eqb_eq in E. subst k. split.
      + intros [H|H]; [congruence|]. exfalso. apply Hn. apply in_map_iff. exists (n, t). auto.
      + intro H. left. congruence.
    - rewrite <- IH by exact Hd. split; [intros [H|H]; [|exact H] | auto].
      inversion H; subst. rewrite str_eqb_refl in E. discriminate. }
  rewrite Hget. unfold ref_dict. rewrite fold_ref_dict_get. simpl.
  destruct (find _ (rev refs)) as [x|].
  - split; [intro H; exists x; split; congruence | intros [y [H1 H2]]; congruence].
  - split; [discriminate | intros [y [H _]]; discriminate].
Qed.
