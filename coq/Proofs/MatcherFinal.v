(* Consequences of soundness + completeness: a fully bound pattern matches its
   own expansion and returns the bindings. *)
From Coq Require Import NArith List Bool Arith Lia.
From CL Require Import Base.Sx Base.Res Base.Str Regex.Rx Regex.RxLemmas Regex.RxSem
  Model.Pattern Model.Matcher Proofs.MatcherBase Proofs.MatcherSpec Proofs.MatcherCompile
  Proofs.MatcherSound Proofs.MatcherExpand Proofs.MatcherComplete.
Import ListNotations.

Lemma env_set_new : forall {T} k (v : T) e, ~ In k (map fst e) -> env_set k v e = e ++ [(k, v)].
Proof.
  induction e as [|[k' v'] e IH]; intros H; simpl in *; auto.
  destruct (str_eqb k k') eqn:E.
  - apply str_eqb_eq in E. subst. tauto.
  - rewrite IH; auto.
Qed.

Lemma env_update_app : forall {T} (e acc : list (str * T)),
  NoDup (map fst (acc ++ e)) -> env_update acc e = acc ++ e.
Proof.
  unfold env_update. induction e as [|[k v] e IH]; intros acc H; simpl.
  - rewrite app_nil_r. reflexivity.
  - assert (Hk : ~ In k (map fst acc)).
    { rewrite map_app in H. simpl in H. apply NoDup_remove_2 in H.
      intro Hin. apply H. apply in_or_app. left. exact Hin. }
    rewrite env_set_new by auto. rewrite IH.
    + rewrite <- app_assoc. reflexivity.
    + rewrite <- app_assoc. exact H.
Qed.

Lemma sub_env_nil : forall e, NoDup (map fst e) -> sub_env [] e = e.
Proof. intros e H. unfold sub_env. simpl. apply (env_update_app e []). exact H. Qed.

Definition bound_node (e : env) (n : node) : bool :=
  match n with
  | NLit _ => true
  | NVar name _ => match lookup name e with Some _ => true | None => false end
  | _ => false
  end.

Definition fully_bound (M : matcher) : Prop :=
  forallb (bound_node (m_env M)) (p_nodes (m_pat M)) = true.

Lemma bound_pieces : forall e ns, forallb (simple_node e) ns = true ->
  forallb (bound_node e) ns = true ->
  exists pieces, Forall2 (piece_for e []) ns pieces.
Proof.
  induction ns as [|n ns IH]; intros Hs Hb; simpl in *.
  - exists []. constructor.
  - apply andb_true_iff in Hs. destruct Hs as [Hs1 Hs2].
    apply andb_true_iff in Hb. destruct Hb as [Hb1 Hb2].
    destruct (IH Hs2 Hb2) as [pieces HF].
    destruct n as [t|name rep|rep|k|k suffix]; simpl in Hb1, Hs1; try discriminate.
    + exists (t :: pieces). constructor; auto. split; simpl; auto.
    + apply andb_true_iff in Hs1. destruct Hs1 as [_ Hv].
      destruct (lookup name e) as [v|] eqn:El; [|discriminate].
      destruct (value_text v) as [t|] eqn:Ev; [|discriminate].
      exists (t :: pieces). constructor; auto. split; simpl.
      * unfold var_value. rewrite El. exact Ev.
      * intro H. rewrite El in H. discriminate.
Qed.

(* C12_expand_match *)
Theorem expand_then_match : forall M, simple M -> compiles M ->
  Forall var_not_star (p_nodes (m_pat M)) -> fully_bound M ->
  exists path d, str_of M = Ok path /\ match_ M path = Ok (Some d) /\
    forall name rep, In (NVar name rep) (p_nodes (m_pat M)) ->
      exists v t, lookup name (m_env M) = Some v /\ value_text v = Some t /\
                  lookup name d = Some (Some t).
Proof.
  intros M HS HC Hns Hb. pose proof HS as [Hs [Hr Hn]].
  destruct (bound_pieces _ _ Hs Hb) as [pieces HF].
  destruct (match_complete M [] pieces HS HC Hns HF) as [d Hm].
  exists (concat pieces), d. split; [|split; auto].
  - unfold str_of. pose proof (expand_pieces M [] pieces HS) as He.
    rewrite (sub_env_nil _ Hn) in He. apply He.
    + constructor.
    + eapply Forall2_imp; [|exact HF]. intros n p [H _]. exact H.
  - intros name rep Hin.
    destruct (match_decompose M _ d HS Hm) as [ps [_ [H2 [_ H4]]]].
    unfold fully_bound in Hb. rewrite forallb_forall in Hb. pose proof (Hb _ Hin) as Hbn. simpl in Hbn.
    destruct (lookup name (m_env M)) as [v|] eqn:El; [|discriminate].
    rewrite forallb_forall in Hs. pose proof (Hs _ Hin) as Hsn. simpl in Hsn.
    apply andb_true_iff in Hsn. destruct Hsn as [_ Hv]. rewrite El in Hv.
    destruct (value_text v) as [t|] eqn:Ev; [|discriminate].
    exists v, t. split; auto. split; auto.
    assert (Hd : exists piece, lookup name d = Some (Some piece)).
    { clear - H2 Hin. induction H2 as [|n p ns ps Hp HF IH]; [contradiction|].
      destruct Hin as [Hin|Hin]; [subst n; simpl in Hp; eauto|auto]. }
    destruct Hd as [piece Hd]. rewrite Hd. f_equal. eapply H4; eauto.
Qed.
