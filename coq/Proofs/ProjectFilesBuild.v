(* ProjectFiles.__init__: where the matchers come from and in which order. (C13) *)
From Coq Require Import ZArith NArith List Bool Arith Lia.
From CL Require Import Base.Sx Base.Str Model.ProjectFiles Proofs.ProjectFilesBase.
Import ListNotations.

(* a subsequence *)
Inductive subseq {T} : list T -> list T -> Prop :=
| ss_nil : subseq [] []
| ss_skip : forall x a b, subseq a b -> subseq a (x :: b)
| ss_keep : forall x a b, subseq a b -> subseq (x :: a) (x :: b).

Lemma subseq_In {T} : forall (a b : list T) x, subseq a b -> In x a -> In x b.
Proof.
  intros a b x H. induction H; intro Hin; [destruct Hin | right; auto |].
  destruct Hin as [->|Hin]; [left; reflexivity | right; auto].
Qed.

Lemma subseq_map {T U} (g : T -> U) : forall a b, subseq a b -> subseq (map g a) (map g b).
Proof. intros a b H. induction H; simpl; constructor; assumption. Qed.

Section Build.
Context {M : Type}.
Variable prefix : M -> str.
Variable pat : M -> M -> bool.
Variable realpath : str -> str.
Variable with_locale : M -> M.
Variable with_merge : M -> M.

Notation mrec := (@mrec M).
Notation mk_matcher := (mk_matcher with_locale with_merge).
Notation rules_matchers := (rules_matchers with_locale with_merge).
Notation configs_matchers := (configs_matchers with_locale with_merge).
Notation dup_check := (dup_check prefix pat realpath).
Notation dedup_inner := (dedup_inner prefix pat realpath).
Notation dedup_outer := (dedup_outer prefix pat realpath).
Notation build_matchers := (build_matchers prefix pat realpath with_locale with_merge).
Notation build := (build prefix pat realpath with_locale with_merge).

(* the rules that reach `self.matchers.append(m)`, in order *)
Definition enabled_rules (locale : option str) (cs : list (cnode M)) : list (rule M) :=
  flat_map (fun c => if config_enabled locale c
                     then filter (rule_enabled locale) (c_rules c) else []) cs.

Lemma enabled_rules_In : forall locale cs r,
  In r (enabled_rules locale cs) <->
  exists c, In c cs /\ config_enabled locale c = true /\ In r (c_rules c) /\
            rule_enabled locale r = true.
Proof.
  intros locale cs r. unfold enabled_rules. rewrite in_flat_map. split.
  - intros [c [Hc H]]. exists c. destruct (config_enabled locale c); [|destruct H].
    apply filter_In in H. tauto.
  - intros [c [Hc [He [Hr Hre]]]]. exists c. split; [exact Hc|]. rewrite He.
    apply filter_In. auto.
Qed.

Definition made (locale : option str) (hm : bool) (r : rule M) (m : mrec) : Prop :=
  mk_matcher locale hm r = POk m.

Lemma made_fields : forall locale hm r m,
  made locale hm r m ->
  m_l10n m = with_locale (r_l10n r) /\ m_ref m = r_ref r /\ m_test m = r_test r /\
  m_merge m = (if hm then Some (with_merge (r_l10n r)) else None).
Proof.
  intros locale hm r m. unfold made, ProjectFiles.mk_matcher. destruct hm.
  - destruct locale; [|discriminate]. intro H. inversion H. simpl. auto.
  - intro H. inversion H. simpl. auto.
Qed.

Lemma rules_matchers_spec : forall locale hm rs ms,
  rules_matchers locale hm rs = POk ms ->
  Forall2 (made locale hm) (filter (rule_enabled locale) rs) ms.
Proof.
  intros locale hm rs. induction rs as [|r rs IH]; intros ms H; simpl in *.
  - inversion H. constructor.
  - destruct (rule_enabled locale r).
    + destruct (mk_matcher locale hm r) as [m|] eqn:Em; [|discriminate]. simpl in H.
      destruct (rules_matchers locale hm rs) as [ms'|]; [|discriminate]. simpl in H.
      inversion H; subst. constructor; [exact Em | apply IH; reflexivity].
    + apply IH. exact H.
Qed.

Lemma configs_matchers_spec : forall locale hm cs ms,
  configs_matchers locale hm cs = POk ms ->
  Forall2 (made locale hm) (enabled_rules locale cs) ms.
Proof.
  intros locale hm cs. induction cs as [|c cs IH]; intros ms H; simpl in *.
  - inversion H. constructor.
  - unfold enabled_rules. simpl. fold (enabled_rules locale cs).
    destruct (config_enabled locale c).
    + destruct (rules_matchers locale hm (c_rules c)) as [m1|] eqn:E1; [|discriminate]. simpl in H.
      destruct (configs_matchers locale hm cs) as [m2|]; [|discriminate]. simpl in H.
      inversion H; subst. apply Forall2_app; [apply rules_matchers_spec; exact E1 | apply IH; reflexivity].
    + apply IH. exact H.
Qed.

(* ---- duplicate dropping: only the tests change --------------------------------------- *)
Definition same_core (a b : mrec) : Prop :=
  m_l10n a = m_l10n b /\ m_ref a = m_ref b /\ m_merge a = m_merge b /\
  incl (m_test a) (m_test b).

Lemma same_core_refl : forall a, same_core a a.
Proof. intro a. repeat split. apply incl_refl. Qed.

Lemma dup_check_add_tests : forall m ts m_, dup_check (add_tests m ts) m_ = dup_check m m_.
Proof. reflexivity. Qed.

Lemma dedup_inner_core : forall rest m j drops m' drops',
  dedup_inner m rest j drops = POk (m', drops') -> same_core m m'.
Proof.
  induction rest as [|m_ rest IH]; intros m j drops m' drops' H; simpl in H.
  - inversion H; subst. apply same_core_refl.
  - destruct (dup_check m m_) as [[|]|] eqn:Ed; [| |discriminate].
    + apply IH in H. destruct H as [H1 [H2 [H3 H4]]]. simpl in *. repeat split; try assumption.
      intros t Ht. apply H4. apply in_app_iff. left. exact Ht.
    + eapply IH. exact H.
Qed.

Lemma dedup_outer_cons2 : forall i m m2 ms2 drops,
  dedup_outer i (m :: m2 :: ms2) drops =
  if mem_nat i drops then
    pbind (dedup_outer (S i) (m2 :: ms2) drops) (fun rd => POk (m :: fst rd, snd rd))
  else
    pbind (dedup_inner m (m2 :: ms2) (S i) drops) (fun md =>
    pbind (dedup_outer (S i) (m2 :: ms2) (snd md)) (fun rd =>
    POk (fst md :: fst rd, snd rd))).
Proof. reflexivity. Qed.

Lemma dedup_outer_core : forall ms i drops ms' drops',
  dedup_outer i ms drops = POk (ms', drops') -> Forall2 same_core ms ms'.
Proof.
  induction ms as [|m ms IH]; intros i drops ms' drops' H.
  - simpl in H. inversion H. constructor.
  - destruct ms as [|m2 ms2].
    + simpl in H. inversion H. constructor; [apply same_core_refl | constructor].
    + rewrite dedup_outer_cons2 in H. destruct (mem_nat i drops).
      * destruct (dedup_outer (S i) (m2 :: ms2) drops) as [[r d]|] eqn:E; [|discriminate H].
        cbn [pbind fst snd] in H. inversion H; subst.
        constructor; [apply same_core_refl | eapply IH; exact E].
      * destruct (dedup_inner m (m2 :: ms2) (S i) drops) as [[m1 d1]|] eqn:E1; [|discriminate H].
        cbn [pbind fst snd] in H.
        destruct (dedup_outer (S i) (m2 :: ms2) d1) as [[r d]|] eqn:E; [|discriminate H].
        cbn [pbind fst snd] in H. inversion H; subst.
        constructor; [eapply dedup_inner_core; exact E1 | eapply IH; exact E].
Qed.

Lemma remove_drops_subseq : forall (ms : list mrec) i drops, subseq (remove_drops i ms drops) ms.
Proof.
  induction ms as [|m ms IH]; intros i drops; simpl; [constructor|].
  destruct (mem_nat i drops); constructor; apply IH.
Qed.

(* the matcher list: a subsequence of the enabled rules' matchers in reverse
   order (later rules first), with tests possibly enlarged *)
Lemma build_matchers_spec : forall locale hm cs ms,
  build_matchers locale hm cs = POk ms ->
  exists raw ms',
    Forall2 (made locale hm) (enabled_rules locale cs) raw /\
    Forall2 same_core (rev raw) ms' /\ subseq ms ms'.
Proof.
  intros locale hm cs ms H. unfold ProjectFiles.build_matchers in H.
  destruct (configs_matchers locale hm cs) as [raw|] eqn:E; [|discriminate]. simpl in H.
  destruct (dedup_outer 0 (rev raw) []) as [[ms' d]|] eqn:E2; [|discriminate]. simpl in H.
  inversion H; subst. exists raw, ms'. split; [apply configs_matchers_spec; exact E|].
  split; [eapply dedup_outer_core; exact E2 | apply remove_drops_subseq].
Qed.

Lemma Forall2_In_r {A B} (P : A -> B -> Prop) : forall l l' y,
  Forall2 P l l' -> In y l' -> exists x, In x l /\ P x y.
Proof.
  intros l l' y H. induction H; intro Hin; [destruct Hin|].
  destruct Hin as [<-|Hin]; [eexists; split; [left; reflexivity | assumption]|].
  destruct (IHForall2 Hin) as [x' [H1 H2]]. exists x'. split; [right; exact H1 | exact H2].
Qed.

(* every matcher is the matcher of an enabled rule of an enabled configuration *)
Lemma build_matchers_sound : forall locale hm cs ms m,
  build_matchers locale hm cs = POk ms -> In m ms ->
  exists c r, In c cs /\ config_enabled locale c = true /\ In r (c_rules c) /\
              rule_enabled locale r = true /\
              m_l10n m = with_locale (r_l10n r) /\ m_ref m = r_ref r /\
              m_merge m = (if hm then Some (with_merge (r_l10n r)) else None) /\
              incl (r_test r) (m_test m).
Proof.
  intros locale hm cs ms m H Hin. apply build_matchers_spec in H as [raw [ms' [H1 [H2 H3]]]].
  pose proof (subseq_In _ _ _ H3 Hin) as Hin'.
  destruct (Forall2_In_r _ _ _ _ H2 Hin') as [m0 [Hm0 [C1 [C2 [C3 C4]]]]].
  apply in_rev in Hm0. destruct (Forall2_In_r _ _ _ _ H1 Hm0) as [r [Hr Hmade]].
  apply enabled_rules_In in Hr as [c [Hc [He [Hr Hre]]]].
  apply made_fields in Hmade as [F1 [F2 [F3 F4]]].
  exists c, r. repeat split; try assumption; try congruence.
  rewrite <- F3. exact C4.
Qed.

(* the order: l10n matchers of the list are a subsequence of the enabled rules'
   l10n matchers, last rule first *)
Lemma Forall2_map_eq {A B C} (g : A -> C) (h : B -> C) (P : A -> B -> Prop) :
  (forall a b, P a b -> g a = h b) -> forall l l', Forall2 P l l' -> map g l = map h l'.
Proof.
  intros Hgh l l' H. induction H; simpl; [reflexivity|]. f_equal; auto.
Qed.

Lemma build_matchers_order : forall locale hm cs ms,
  build_matchers locale hm cs = POk ms ->
  subseq (map (fun m => (m_l10n m, m_ref m)) ms)
         (rev (map (fun r => (with_locale (r_l10n r), r_ref r)) (enabled_rules locale cs))).
Proof.
  intros locale hm cs ms H. apply build_matchers_spec in H as [raw [ms' [H1 [H2 H3]]]].
  apply (subseq_map (fun m => (m_l10n m, m_ref m))) in H3.
  assert (E1 : map (fun m => (m_l10n m, m_ref m)) ms' = map (fun m => (m_l10n m, m_ref m)) (rev raw)).
  { symmetry. apply (Forall2_map_eq _ _ same_core); [|exact H2].
    intros a b [C1 [C2 _]]. congruence. }
  assert (E2 : map (fun r => (with_locale (r_l10n r), r_ref r)) (enabled_rules locale cs)
               = map (fun m => (m_l10n m, m_ref m)) raw).
  { apply (Forall2_map_eq _ _ (made locale hm)); [|exact H1].
    intros a b Hm. apply made_fields in Hm as [F1 [F2 _]]. congruence. }
  rewrite E1 in H3. rewrite E2, <- map_rev. exact H3.
Qed.

(* ---- no rule is lost: a dropped matcher has a kept duplicate ------------------------------- *)
Lemma dup_check_true : forall m m_,
  dup_check m m_ = POk true ->
  realpath (prefix (m_l10n m)) = realpath (prefix (m_l10n m_)) /\ pat (m_l10n m) (m_l10n m_) = true.
Proof.
  intros m m_. unfold ProjectFiles.dup_check.
  destruct (str_eqb _ _) eqn:E1; simpl; [|discriminate].
  destruct (pat _ _) eqn:E2; simpl; [|discriminate].
  intros _. split; [apply pf_str_eqb_eq; exact E1 | reflexivity].
Qed.

Lemma dup_check_core : forall a a' b b',
  m_l10n a = m_l10n a' -> m_ref a = m_ref a' -> m_l10n b = m_l10n b' -> m_ref b = m_ref b' ->
  dup_check a b = dup_check a' b'.
Proof.
  intros a a' b b' H1 H2 H3 H4. unfold ProjectFiles.dup_check. rewrite H1, H2, H3, H4. reflexivity.
Qed.

Lemma dedup_inner_drops : forall rest m j drops m' d',
  dedup_inner m rest j drops = POk (m', d') ->
  forall x, In x d' <->
    In x drops \/ exists k m_, nth_error rest k = Some m_ /\ x = j + k /\ dup_check m m_ = POk true.
Proof.
  induction rest as [|m_ rest IH]; intros m j drops m' d' H x; simpl in H.
  - inversion H; subst. split; [auto|]. intros [H1|[k [m0 [H1 _]]]]; [exact H1|].
    destruct k; discriminate.
  - destruct (dup_check m m_) as [[|]|] eqn:Ed; [| |discriminate].
    + rewrite (IH _ _ _ _ _ H x). simpl. split.
      * intros [[<-|H1]|[k [m0 [H1 [H2 H3]]]]].
        -- right. exists 0, m_. repeat split; [lia | exact Ed].
        -- left; exact H1.
        -- right. exists (S k), m0. repeat split; [exact H1 | lia | exact H3].
      * intros [H1|[k [m0 [H1 [H2 H3]]]]]; [left; right; exact H1|].
        destruct k as [|k]; simpl in H1.
        -- left. left. lia.
        -- right. exists k, m0. repeat split; [exact H1 | lia | exact H3].
    + rewrite (IH _ _ _ _ _ H x). split.
      * intros [H1|[k [m0 [H1 [H2 H3]]]]]; [left; exact H1|].
        right. exists (S k), m0. repeat split; [exact H1 | lia | exact H3].
      * intros [H1|[k [m0 [H1 [H2 H3]]]]]; [left; exact H1|].
        destruct k as [|k]; simpl in H1.
        -- inversion H1; subst. congruence.
        -- right. exists k, m0. repeat split; [exact H1 | lia | exact H3].
Qed.

Lemma dedup_outer_mono : forall ms i drops ms' d',
  dedup_outer i ms drops = POk (ms', d') ->
  (forall x, In x drops -> In x d') /\ (forall x, In x d' -> In x drops \/ i < x).
Proof.
  induction ms as [|m ms IH]; intros i drops ms' d' H.
  - simpl in H. inversion H; subst. auto.
  - destruct ms as [|m2 ms2].
    + simpl in H. inversion H; subst. auto.
    + rewrite dedup_outer_cons2 in H. destruct (mem_nat i drops).
      * destruct (dedup_outer (S i) (m2 :: ms2) drops) as [[r d]|] eqn:E; [|discriminate H].
        cbn [pbind fst snd] in H. inversion H; subst. destruct (IH _ _ _ _ E) as [I1 I2].
        split; [exact I1|]. intros x Hx. apply I2 in Hx as [Hx|Hx]; [left; exact Hx | right; lia].
      * destruct (dedup_inner m (m2 :: ms2) (S i) drops) as [[m1 d1]|] eqn:E1; [|discriminate H].
        cbn [pbind fst snd] in H.
        destruct (dedup_outer (S i) (m2 :: ms2) d1) as [[r d]|] eqn:E; [|discriminate H].
        cbn [pbind fst snd] in H. inversion H; subst. destruct (IH _ _ _ _ E) as [I1 I2].
        pose proof (dedup_inner_drops _ _ _ _ _ _ E1) as A. split.
        -- intros x Hx. apply I1. apply A. left. exact Hx.
        -- intros x Hx. apply I2 in Hx as [Hx|Hx]; [|right; lia].
           apply A in Hx as [Hx|[k [m0 [_ [Hx _]]]]]; [left; exact Hx | right; lia].
Qed.

Lemma mem_nat_In : forall i l, mem_nat i l = true <-> In i l.
Proof.
  intros i l. unfold mem_nat. rewrite existsb_exists. split.
  - intros [x [H E]]. apply Nat.eqb_eq in E. subst. exact H.
  - intro H. exists i. split; [exact H | apply Nat.eqb_refl].
Qed.

(* an index that ends up dropped was dropped before, or is a duplicate of an earlier
   index that is kept *)
Lemma dedup_outer_dropped : forall ms i drops ms' d',
  dedup_outer i ms drops = POk (ms', d') ->
  forall b mb, nth_error ms b = Some mb -> In (i + b) d' ->
    In (i + b) drops \/
    exists a ma, a < b /\ nth_error ms a = Some ma /\ ~ In (i + a) d' /\ dup_check ma mb = POk true.
Proof.
  induction ms as [|m ms IH]; intros i drops ms' d' H b mb Hb Hin.
  - destruct b; discriminate.
  - destruct ms as [|m2 ms2].
    + simpl in H. inversion H; subst. left. exact Hin.
    + rewrite dedup_outer_cons2 in H. destruct (mem_nat i drops) eqn:Emem.
      * destruct (dedup_outer (S i) (m2 :: ms2) drops) as [[r d]|] eqn:E; [|discriminate H].
        cbn [pbind fst snd] in H. inversion H; subst.
        destruct b as [|b]; [left; apply mem_nat_In in Emem; rewrite Nat.add_0_r; exact Emem|].
        simpl in Hb. replace (i + S b) with (S i + b) in * by lia.
        destruct (IH _ _ _ _ E b mb Hb Hin) as [Hd|[a [ma [H1 [H2 [H3 H4]]]]]]; [left; exact Hd|].
        right. exists (S a), ma. repeat split; [lia | exact H2 | | exact H4].
        replace (i + S a) with (S i + a) by lia. exact H3.
      * destruct (dedup_inner m (m2 :: ms2) (S i) drops) as [[m1 d1]|] eqn:E1; [|discriminate H].
        cbn [pbind fst snd] in H.
        destruct (dedup_outer (S i) (m2 :: ms2) d1) as [[r d]|] eqn:E; [|discriminate H].
        cbn [pbind fst snd] in H. inversion H; subst.
        pose proof (dedup_inner_drops _ _ _ _ _ _ E1) as A.
        destruct (dedup_outer_mono _ _ _ _ _ E) as [M1 M2].
        assert (Hi : ~ In i d').
        { intro Hx. apply M2 in Hx as [Hx|Hx]; [|lia].
          apply A in Hx as [Hx|[k [m0 [_ [Hx _]]]]]; [|lia].
          apply mem_nat_In in Hx. congruence. }
        destruct b as [|b]; [rewrite Nat.add_0_r in Hin; contradiction|].
        simpl in Hb. replace (i + S b) with (S i + b) in * by lia.
        destruct (IH _ _ _ _ E b mb Hb Hin) as [Hd|[a [ma [H1 [H2 [H3 H4]]]]]].
        -- apply A in Hd as [Hd|[k [m0 [Hk [Hx Hdup]]]]]; [left; exact Hd|].
           assert (k = b) by lia. subst k. rewrite Hb in Hk. inversion Hk; subst m0.
           right. exists 0, m. repeat split; [lia | | exact Hdup]. rewrite Nat.add_0_r. exact Hi.
        -- right. exists (S a), ma. repeat split; [lia | exact H2 | | exact H4].
           replace (i + S a) with (S i + a) by lia. exact H3.
Qed.

Lemma remove_drops_keeps : forall (ms : list mrec) i d b m,
  nth_error ms b = Some m -> ~ In (i + b) d -> In m (remove_drops i ms d).
Proof.
  induction ms as [|m0 ms IH]; intros i d b m Hb Hn; [destruct b; discriminate|]. simpl.
  destruct b as [|b]; simpl in Hb.
  - inversion Hb; subst. rewrite Nat.add_0_r in Hn.
    destruct (mem_nat i d) eqn:E; [apply mem_nat_In in E; contradiction | left; reflexivity].
  - assert (In m (remove_drops (S i) ms d)).
    { eapply IH; [exact Hb|]. replace (S i + b) with (i + S b) by lia. exact Hn. }
    destruct (mem_nat i d); [assumption | right; assumption].
Qed.

Lemma Forall2_nth_error {A B} (P : A -> B -> Prop) : forall l l' b x,
  Forall2 P l l' -> nth_error l b = Some x -> exists y, nth_error l' b = Some y /\ P x y.
Proof.
  intros l l' b x H. revert b. induction H; intros b Hb; [destruct b; discriminate|].
  destruct b as [|b]; simpl in *; [inversion Hb; subst; eauto | apply IHForall2; exact Hb].
Qed.

(* every enabled rule is represented in the matcher list: by its own matcher, or by the
   matcher of a rule with the same (real) prefix and the same pattern *)
Lemma build_matchers_complete : forall locale hm cs ms r,
  build_matchers locale hm cs = POk ms -> In r (enabled_rules locale cs) ->
  exists m, In m ms /\
    ((m_l10n m = with_locale (r_l10n r) /\ m_ref m = r_ref r /\ incl (r_test r) (m_test m)) \/
     (realpath (prefix (m_l10n m)) = realpath (prefix (with_locale (r_l10n r))) /\
      pat (m_l10n m) (with_locale (r_l10n r)) = true /\
      exists r', In r' (enabled_rules locale cs) /\
                 m_l10n m = with_locale (r_l10n r') /\ m_ref m = r_ref r')).
Proof.
  intros locale hm cs ms r H Hr. unfold ProjectFiles.build_matchers in H.
  destruct (configs_matchers locale hm cs) as [raw|] eqn:E; [|discriminate]. simpl in H.
  destruct (dedup_outer 0 (rev raw) []) as [[ms' d]|] eqn:E2; [|discriminate]. simpl in H.
  inversion H; subst. clear H.
  pose proof (configs_matchers_spec _ _ _ _ E) as F1.
  pose proof (dedup_outer_core _ _ _ _ _ E2) as F2.
  (* the matcher made for r, its position in the reversed list *)
  destruct (In_nth_error _ _ Hr) as [n Hn].
  destruct (Forall2_nth_error _ _ _ _ _ F1 Hn) as [mr [Hmr Hmade]].
  apply made_fields in Hmade as [G1 [G2 [G3 G4]]].
  apply nth_error_In in Hmr. apply in_rev in Hmr.
  destruct (In_nth_error _ _ Hmr) as [b Hb].
  destruct (Forall2_nth_error _ _ _ _ _ F2 Hb) as [mb' [Hb' [C1 [C2 [C3 C4]]]]].
  destruct (in_dec Nat.eq_dec (0 + b) d) as [Hd|Hd].
  - destruct (dedup_outer_dropped _ _ _ _ _ E2 b mr Hb Hd) as [[]|[a [ma [H1 [H2 [H3 H4]]]]]].
    destruct (Forall2_nth_error _ _ _ _ _ F2 H2) as [ma' [Ha' [D1 [D2 [D3 D4]]]]].
    apply dup_check_true in H4 as [P1 P2].
    exists ma'. split; [eapply remove_drops_keeps; eassumption|].
    right. rewrite <- D1, <- G1. split; [exact P1|]. split; [exact P2|].
    apply nth_error_In in H2. apply in_rev in H2.
    destruct (Forall2_In_r _ _ _ _ F1 H2) as [r' [Hr' Hm']].
    apply made_fields in Hm' as [K1 [K2 _]]. exists r'. repeat split; [exact Hr' | |]; congruence.
  - exists mb'. split; [eapply remove_drops_keeps; eassumption|].
    left. repeat split; try congruence. rewrite <- G3. exact C4.
Qed.

(* ---- the first loop: which configurations take part ---------------------------------------- *)
Lemma maybe_extend_In : forall (other mine : list (cnode M)) c,
  In c (maybe_extend mine other) -> In c mine \/ In c other.
Proof.
  induction other as [|o other IH]; intros mine c H; simpl in H; [left; exact H|].
  destruct (existsb _ mine).
  - apply IH in H as [H|H]; [left | right; right]; exact H.
  - apply IH in H as [H|H]; [|right; right; exact H].
    apply in_app_iff in H as [H|[<-|[]]]; [left; exact H | right; left; reflexivity].
Qed.

Lemma gather_In : forall locale (ps : list (project M)) cfgs excs,
  let '(cs, xs) := gather locale ps cfgs excs in
  (forall c, In c cs -> In c cfgs \/
      exists p, In p ps /\ project_enabled locale (p_root p) = true /\ In c (configs_of (p_root p))) /\
  (forall x, In x xs -> In x excs \/
      exists p, In p ps /\ project_enabled locale (p_root p) = true /\ In x (p_excludes p)).
Proof.
  intros locale ps. induction ps as [|p ps IH]; intros cfgs excs; simpl; [split; auto|].
  destruct (project_enabled locale (p_root p)) eqn:E.
  - specialize (IH (maybe_extend cfgs (configs_of (p_root p))) (maybe_extend excs (p_excludes p))).
    destruct (gather locale ps _ _) as [cs xs]. destruct IH as [I1 I2]. split.
    + intros c Hc. apply I1 in Hc as [Hc|[p' [H1 [H2 H3]]]].
      * apply maybe_extend_In in Hc as [Hc|Hc]; [left; exact Hc|]. right. exists p. auto.
      * right. exists p'. auto.
    + intros x Hx. apply I2 in Hx as [Hx|[p' [H1 [H2 H3]]]].
      * apply maybe_extend_In in Hx as [Hx|Hx]; [left; exact Hx|]. right. exists p. auto.
      * right. exists p'. auto.
  - specialize (IH cfgs excs). destruct (gather locale ps cfgs excs) as [cs xs].
    destruct IH as [I1 I2]. split.
    + intros c Hc. apply I1 in Hc as [Hc|[p' [H1 [H2 H3]]]]; [left; exact Hc|]. right. exists p'. auto.
    + intros x Hx. apply I2 in Hx as [Hx|[p' [H1 [H2 H3]]]]; [left; exact Hx|]. right. exists p'. auto.
Qed.

(* the configurations of an enabled project, and the excluded ones that are not included *)
Definition taking_part (locale : option str) (ps : list (project M)) (c : cnode M) : Prop :=
  exists p, In p ps /\ project_enabled locale (p_root p) = true /\ In c (configs_of (p_root p)).

Definition excluding (locale : option str) (ps : list (project M)) (c : cnode M) : Prop :=
  exists p x, In p ps /\ project_enabled locale (p_root p) = true /\ In x (p_excludes p) /\
              project_enabled locale x = true /\ In c (configs_of x).

Lemma build_spec : forall locale hm ps f,
  build locale hm ps = POk f ->
  pf_locale f = locale /\
  (forall m, In m (pf_matchers f) ->
     exists c r, taking_part locale ps c /\ config_enabled locale c = true /\ In r (c_rules c) /\
                 rule_enabled locale r = true /\
                 m_l10n m = with_locale (r_l10n r) /\ m_ref m = r_ref r /\
                 m_merge m = (if hm then Some (with_merge (r_l10n r)) else None) /\
                 incl (r_test r) (m_test m)) /\
  (forall xms xm, pf_exclude f = Some xms -> In xm xms ->
     exists c r, excluding locale ps c /\ config_enabled locale c = true /\ In r (c_rules c) /\
                 rule_enabled locale r = true /\
                 m_l10n xm = with_locale (r_l10n r) /\ m_ref xm = r_ref r).
Proof.
  intros locale hm ps f H. unfold ProjectFiles.build in H.
  pose proof (gather_In locale ps [] []) as G.
  destruct (gather locale ps [] []) as [configs excludes]. destruct G as [G1 G2].
  set (xs := filter (fun e => negb (has_path configs e)) excludes) in *.
  match type of H with pbind ?X _ = _ => destruct X as [ex|] eqn:Ex; [|discriminate] end.
  simpl in H. destruct (build_matchers locale hm configs) as [ms|] eqn:Em; [|discriminate].
  simpl in H. inversion H; subst. simpl. split; [reflexivity|]. split.
  - intros m Hm. destruct (build_matchers_sound _ _ _ _ _ Em Hm) as [c [r [Hc Hrest]]].
    exists c, r. split; [|exact Hrest].
    apply G1 in Hc as [[]|Hc]. exact Hc.
  - intros xms xm Hx Hin. subst ex. destruct xs as [|x0 xs0] eqn:Exs; [discriminate|].
    pose proof (gather_In locale (map (fun e => mkproject e []) (x0 :: xs0)) [] []) as GX.
    destruct (gather locale (map (fun e => mkproject e []) (x0 :: xs0)) [] []) as [xconfigs xx].
    destruct GX as [GX1 _].
    destruct (build_matchers locale false xconfigs) as [xms'|] eqn:Exm; [|discriminate].
    simpl in Ex. inversion Ex; subst xms'.
    destruct (build_matchers_sound _ _ _ _ _ Exm Hin) as [c [r [Hc [H1 [H2 [H3 [H4 [H5 _]]]]]]]].
    exists c, r. repeat split; try assumption.
    apply GX1 in Hc as [[]|[p' [Hp' [He Hcc]]]].
    apply in_map_iff in Hp' as [x [<- Hx]]. simpl in *.
    assert (Hx' : In x xs) by (rewrite Exs; exact Hx).
    unfold xs in Hx'. apply filter_In in Hx' as [Hx' _].
    apply G2 in Hx' as [[]|[p [Hp [Hpe Hpx]]]].
    exists p, x. auto.
Qed.

Lemma build_complete : forall locale hm ps f r,
  build locale hm ps = POk f ->
  In r (enabled_rules locale (fst (gather locale ps [] []))) ->
  exists m, In m (pf_matchers f) /\
    ((m_l10n m = with_locale (r_l10n r) /\ m_ref m = r_ref r /\ incl (r_test r) (m_test m)) \/
     (realpath (prefix (m_l10n m)) = realpath (prefix (with_locale (r_l10n r))) /\
      pat (m_l10n m) (with_locale (r_l10n r)) = true /\
      exists r', In r' (enabled_rules locale (fst (gather locale ps [] []))) /\
                 m_l10n m = with_locale (r_l10n r') /\ m_ref m = r_ref r')).
Proof.
  intros locale hm ps f r H Hr. unfold ProjectFiles.build in H.
  destruct (gather locale ps [] []) as [configs excludes]. simpl in Hr.
  match type of H with pbind ?X _ = _ => destruct X as [ex|]; [|discriminate] end.
  simpl in H. destruct (build_matchers locale hm configs) as [ms|] eqn:Em; [|discriminate].
  simpl in H. inversion H; subst. simpl.
  eapply build_matchers_complete; eassumption.
Qed.

End Build.

(* ---- exclusion ------------------------------------------------------------------------------ *)
Section Excluded.
Context {M : Type}.
Variable matches : M -> str -> bool.
Variable sub : M -> M -> str -> option str.

Lemma match_ms_some : forall locale (ms : list (@mrec M)) p,
  (exists e, match_ms matches sub locale ms p = Some e) <->
  exists m, In m ms /\
    ((not_none locale = true /\ matches (m_l10n m) p = true) \/
     (exists r, m_ref m = Some r /\ matches r p = true)).
Proof.
  intros locale ms p. induction ms as [|m ms IH]; simpl.
  - split; [intros [e H]; discriminate | intros [m [[] _]]].
  - destruct (not_none locale && matches (m_l10n m) p) eqn:E1.
    + split; [|eauto]. intros _. exists m. split; [left; reflexivity|]. left.
      apply andb_true_iff in E1. exact E1.
    + destruct (m_ref m) as [r|] eqn:Er.
      * destruct (matches r p) eqn:E2.
        -- split; [|eauto]. intros _. exists m. split; [left; reflexivity|]. right. eauto.
        -- rewrite IH. split.
           ++ intros [m' [H1 H2]]. exists m'. split; [right; exact H1 | exact H2].
           ++ intros [m' [[<-|H1] H2]]; [|eauto].
              destruct H2 as [[H2 H3]|[r' [H2 H3]]].
              ** rewrite H2, H3 in E1. discriminate.
              ** rewrite Er in H2. inversion H2; subst. congruence.
      * rewrite IH. split.
        -- intros [m' [H1 H2]]. exists m'. split; [right; exact H1 | exact H2].
        -- intros [m' [[<-|H1] H2]]; [|eauto].
           destruct H2 as [[H2 H3]|[r' [H2 H3]]].
           ** rewrite H2, H3 in E1. discriminate.
           ** rewrite Er in H2. discriminate.
Qed.

Lemma excluded_spec : forall locale ex p,
  excluded matches sub locale ex p = true <->
  exists xms xm, ex = Some xms /\ In xm xms /\
    ((not_none locale = true /\ matches (m_l10n xm) p = true) \/
     (exists r, m_ref xm = Some r /\ matches r p = true)).
Proof.
  intros locale ex p. unfold excluded. destruct ex as [xms|].
  - destruct (match_ms matches sub locale xms p) as [e|] eqn:E.
    + split; [|reflexivity]. intros _.
      destruct (proj1 (match_ms_some locale xms p)) as [xm [H1 H2]]; [eauto|]. exists xms, xm. auto.
    + split; [discriminate|]. intros [xms' [xm [Ex [H1 H2]]]]. inversion Ex; subst.
      destruct (proj2 (match_ms_some locale xms' p)) as [e He]; [eauto|]. congruence.
  - split; [discriminate | intros [xms [xm [H _]]]; discriminate].
Qed.
End Excluded.
