(* C02, ini: junk regions.  The blocks of Proofs/C02BlocksIni.v plus garbage regions: lines
   (each ended by a newline) without "=" and "[" that do not start with ";" or "#", the first
   of which starts with a non-whitespace character.  Inside such a region neither the key, the
   comment nor the section expression matches at any position, so IniParser.getJunk ends the
   junk exactly at the next comment, key line or section header, or at the end of the text:
   ONE Junk entry per region, covering exactly that region. *)
From Coq Require Import NArith List Bool Arith Lia.
From CL Require Import Base.Sx Base.Res Base.Str Regex.Rx Regex.RxLemmas Model.Entry Model.Parse
  Model.ParseFormats Generated.RxParser Proofs.UnescapeProofs
  Proofs.ClassLoop Proofs.ClassLoop2 Proofs.C02Props Proofs.WalkProofs Proofs.C02Roundtrip
  Proofs.C02BlocksRx Proofs.C02BlocksIniRx Proofs.C02BlocksIni.
Import ListNotations.

Local Arguments Nat.ltb : simpl never.
Local Arguments Nat.leb : simpl never.
Local Arguments Nat.eqb : simpl never.
Local Arguments N.eqb : simpl never.
Local Arguments N.leb : simpl never.
Local Arguments chr_ok : simpl never.
Local Arguments run : simpl never.
Local Arguments fwd : simpl never.

Ltac norm_app := repeat (progress (rewrite <- ?app_assoc; cbn [app])).

(* ---- searching with the exact states ------------------------------------------------------------- *)
Lemma search_skip_exact : forall R l rest pr p fuel,
  length l < fuel ->
  (forall i, i < length l ->
     run_at R (mkst (rev (firstn i l) ++ pr) (skipn i l ++ rest) (p + i) []) (fun _ => true) = MNone) ->
  search_from R fuel (mkst pr (l ++ rest) p []) None =
  search_from R (fuel - length l) (mkst (rev l ++ pr) rest (p + length l) []) None.
Proof.
  intros R. induction l as [|c l IH]; intros rest pr p fuel Hf Hfail.
  - simpl. rewrite Nat.sub_0_r, Nat.add_0_r. reflexivity.
  - destruct fuel as [|fu]; [lia|]. rewrite search_from_S. cbv beta iota. cbn [suf pos].
    change (fun s' : st => true) with (fun _ : st => true).
    pose proof (Hfail 0) as H0. simpl in H0. rewrite Nat.add_0_r in H0. simpl app.
    rewrite H0 by lia. unfold advance. cbn [pre suf pos caps].
    rewrite IH.
    + simpl length. replace (S fu - S (length l)) with (fu - length l) by lia.
      simpl rev. rewrite <- app_assoc. simpl app.
      replace (S p + length l) with (p + S (length l)) by lia. reflexivity.
    + simpl in Hf. lia.
    + intros i Hi. pose proof (Hfail (S i)) as Hs. simpl in Hs. rewrite <- app_assoc in Hs. simpl in Hs.
      replace (S p + i) with (p + S i) by lia. apply Hs. lia.
Qed.

(* ---- the expressions fail inside a garbage line ------------------------------------------------------ *)
Lemma ikey_fails_state : forall l T pr p k,
  no_chars [10; 61]%N l = true -> tail_nl T ->
  m rx_ini_key (mkst pr (l ++ T) p []) k = Fail.
Proof.
  intros l T pr p k Hl HT. rewrite ikey_shape, m_Cat, m_Grp. cbn [pos].
  assert (Hl10 : no_chars [10%N] l = true).
  { eapply no_chars_weaken; [|exact Hl]. intros c Hc. rewrite mem_single in Hc.
    apply N.eqb_eq in Hc. subst c. reflexivity. }
  pose proof (no_chars_class _ _ Hl10) as Hcls.
  destruct l as [|c0 l'].
  - simpl app. apply m_rep_lazy1_fail. cbn [suf]. apply tail_nl_head. exact HT.
  - cbn [forallb] in Hcls. apply andb_true_iff in Hcls. destruct Hcls as [Hc0 Hcl].
    simpl app.
    rewrite (m_rep_lazy1 true (points [10%N]) (mkst pr (c0 :: l' ++ T) p []) _ c0 (l' ++ T) eq_refl Hc0).
    unfold advance. cbn [pre suf pos caps].
    assert (Hr : run true (points [10%N]) None (l' ++ T) = length l')
      by (apply run_exact_gen; [exact Hcl|apply tail_nl_head; exact HT]).
    apply rep_class_lazy_fail; [lia|cbn [suf]; lia|].
    cbn [suf]. rewrite Hr. intros i Hi.
    rewrite fwd_mkst_caps by (rewrite app_length; lia). unfold set_cap. cbn [pre suf pos caps].
    rewrite m_Cat, m_Chr. cbn [suf].
    destruct (skipn i (l' ++ T)) as [|c' t'] eqn:Es; [reflexivity|].
    rewrite chr_ok_points, mem_single.
    destruct (Nat.eq_dec i (length l')) as [->|Hne].
    + rewrite skipn_app_length in Es. destruct HT as [->|[X ->]]; [discriminate|].
      inversion Es; subst. reflexivity.
    + assert (Hin : In c' (c0 :: l')) by (right; eapply skipn_head_in; [|exact Es]; lia).
      pose proof (no_chars_in _ _ _ Hl Hin) as Hm. unfold mem in Hm. cbn [existsb] in Hm.
      apply orb_false_iff in Hm. destruct Hm as [_ Hm]. apply orb_false_iff in Hm.
      destruct Hm as [Hm _]. rewrite Hm. reflexivity.
Qed.

Lemma section_fails_state : forall X pr p k, head_is (fun c => N.eqb c 91) X = false ->
  m rx_ini_section (mkst pr X p []) k = Fail.
Proof.
  intros X pr p k H. rewrite section_shape, m_Cat, m_Chr. cbn [suf].
  destruct X as [|c X]; [reflexivity|]. cbn [head_is] in H. rewrite chr_ok_points, mem_single, H.
  reflexivity.
Qed.

(* the anchored comment expression: not at a line start, or not a marker *)
Lemma acomment_fails_state : forall M X pr p k,
  bol pr = false \/ head_is (fun c => mem c M) X = false ->
  m (ACOMMENT M) (mkst pr X p []) k = Fail.
Proof.
  intros M X pr p k [Hb|Hh]; [|apply acomment_fails; exact Hh].
  unfold ACOMMENT. rewrite m_Cat, m_Rep. simpl Nat.add. rewrite rep_loop_S.
  replace (0 <? 0) with false by reflexivity. cbv zeta beta iota.
  unfold ABODY at 1. rewrite m_Cat, m_Bol, at_bol_bol, Hb. rewrite orelse_fail.
  unfold ALAST. rewrite m_Cat, m_Bol, at_bol_bol, Hb. reflexivity.
Qed.

(* ---- garbage ------------------------------------------------------------------------------------------- *)
Definition IGC : list N := [61; 91; 10]%N.                  (* = [ newline *)
Definition legal_igline (l : str) : bool :=
  no_chars IGC l && negb (head_is (fun c => mem c CMI) l).
Definition igtext (gl : list str) : str := concat (map (fun l => l ++ [10%N]) gl).
Definition legal_igarbage (gl : list str) : bool :=
  forallb legal_igline gl &&
  match gl with (c :: _) :: _ => negb (mem c WS) | _ => false end.

Lemma igtext_cons : forall l gl, igtext (l :: gl) = l ++ 10%N :: igtext gl.
Proof. intros. unfold igtext. simpl. rewrite <- app_assoc. reflexivity. Qed.

Lemma igc_key : forall l, no_chars IGC l = true -> no_chars [10; 61]%N l = true.
Proof.
  intros l H. eapply no_chars_weaken; [|exact H]. intros c Hc. unfold mem, IGC in *. cbn [existsb] in *.
  destruct (N.eqb c 10) eqn:E10; [rewrite orb_true_r; rewrite orb_true_r; reflexivity|].
  destruct (N.eqb c 61); [reflexivity|discriminate].
Qed.

Lemma igc_no91 : forall l c, no_chars IGC l = true -> In c l -> N.eqb c 91 = false.
Proof.
  intros l c H Hin. pose proof (no_chars_in _ _ _ H Hin) as Hm. unfold mem, IGC in Hm. cbn [existsb] in Hm.
  destruct (N.eqb c 61); [discriminate|]. destruct (N.eqb c 91); [discriminate|reflexivity].
Qed.

(* a position inside the region: the line prefix before it, the rest of the line, what follows *)
Lemma igtext_split : forall gl i, forallb legal_igline gl = true -> i < length (igtext gl) ->
  exists bef l T',
    firstn i (igtext gl) = bef /\ skipn i (igtext gl) = l ++ 10%N :: T' /\
    no_chars IGC l = true /\
    (* at the start of a line the line does not begin with a marker; elsewhere we are not at a
       line start *)
    ((bol (rev bef) = true /\ head_is (fun c => mem c CMI) l = false) \/
     (exists c bef', bef = bef' ++ [c] /\ c <> 10%N)).
Proof.
  induction gl as [|l0 gl IH]; intros i Hleg Hi; [simpl in Hi; lia|].
  cbn [forallb] in Hleg. apply andb_true_iff in Hleg. destruct Hleg as [Hl0 Hleg].
  unfold legal_igline in Hl0. apply andb_true_iff in Hl0. destruct Hl0 as [Hc0 Hm0].
  apply negb_true_iff in Hm0. rewrite igtext_cons in *.
  destruct (Nat.le_gt_cases i (length l0)) as [Hle|Hgt].
  - exists (firstn i l0), (skipn i l0), (igtext gl).
    split; [rewrite firstn_app; replace (i - length l0) with 0 by lia; simpl; apply app_nil_r|].
    split; [apply skipn_app_le; exact Hle|].
    split.
    { unfold no_chars in *. rewrite forallb_forall in *. intros x Hx. apply Hc0. eapply In_skipn. exact Hx. }
    destruct i as [|i].
    + left. simpl. split; [reflexivity|exact Hm0].
    + right. assert (Hi' : i < length l0) by lia.
      destruct (nth_error l0 i) as [c|] eqn:En; [|apply nth_error_None in En; lia].
      exists c, (firstn i l0). split.
      * clear - En. revert i En. induction l0 as [|a l IHl]; intros [|i] En; simpl in *; try discriminate.
        -- inversion En; reflexivity.
        -- f_equal. apply IHl. exact En.
      * apply nth_error_In in En. intro E. subst c.
        pose proof (no_chars_in _ _ _ Hc0 En) as Hm. discriminate.
  - rewrite app_length in Hi. simpl in Hi.
    destruct (IH (i - S (length l0)) Hleg) as [bef [l [T' [E1 [E2 [E3 E4]]]]]]; [lia|].
    assert (Ei : i = length (l0 ++ [10%N]) + (i - S (length l0))) by (rewrite app_length; simpl; lia).
    exists ((l0 ++ [10%N]) ++ bef), l, T'.
    replace (l0 ++ 10%N :: igtext gl) with ((l0 ++ [10%N]) ++ igtext gl) by (norm_app; reflexivity).
    split; [rewrite Ei at 1; rewrite firstn_app_2, E1; reflexivity|].
    split; [rewrite Ei at 1; rewrite skipn_app_plus; exact E2|].
    split; [exact E3|].
    destruct E4 as [[Hb Hh]|[c [bef' [Eb Hc]]]].
    + left. split; [|exact Hh]. rewrite rev_app_distr.
      destruct (rev bef) as [|d r] eqn:Er; [|exact Hb].
      simpl. rewrite rev_app_distr. reflexivity.
    + right. exists c, ((l0 ++ [10%N]) ++ bef'). split; [rewrite Eb, app_assoc; reflexivity|exact Hc].
Qed.

Lemma head_gline : forall l T' (X : str) (g : N -> bool),
  no_chars IGC l = true -> g 10%N = false -> (forall c, In c l -> g c = false) ->
  head_is g ((l ++ 10%N :: T') ++ X) = false.
Proof.
  intros [|c l] T' X g Hl H10 Hin; cbn [app head_is]; [exact H10|]. apply Hin. left. reflexivity.
Qed.

Section Attempts.
Variables (gl : list str) (after a : str).
Hypothesis Hleg : forallb legal_igline gl = true.
Let G := igtext gl.

Lemma ikey_attempt_g : forall i, i < length G ->
  run_at rx_ini_key (mkst (rev (firstn i G) ++ rev a) (skipn i G ++ after) (length a + i) []) (fun _ => true) = MNone.
Proof.
  intros i Hi. destruct (igtext_split gl i Hleg Hi) as [bef [l [T' [_ [E2 [E3 _]]]]]].
  fold G in E2. rewrite E2, run_at_k0.
  replace ((l ++ 10%N :: T') ++ after) with (l ++ 10%N :: (T' ++ after)) by (norm_app; reflexivity).
  rewrite ikey_fails_state; [reflexivity|apply igc_key; exact E3|right; eexists; reflexivity].
Qed.

Lemma section_attempt_g : forall i, i < length G ->
  run_at rx_ini_section (mkst (rev (firstn i G) ++ rev a) (skipn i G ++ after) (length a + i) []) (fun _ => true) = MNone.
Proof.
  intros i Hi. destruct (igtext_split gl i Hleg Hi) as [bef [l [T' [_ [E2 [E3 _]]]]]].
  fold G in E2. rewrite E2, run_at_k0, section_fails_state; [reflexivity|].
  apply head_gline; [exact E3|reflexivity|]. intros c Hc. eapply igc_no91; eauto.
Qed.

Lemma comment_attempt_g : forall i, i < length G ->
  run_at (ACOMMENT CMI) (mkst (rev (firstn i G) ++ rev a) (skipn i G ++ after) (length a + i) []) (fun _ => true) = MNone.
Proof.
  intros i Hi. destruct (igtext_split gl i Hleg Hi) as [bef [l [T' [E1 [E2 [E3 E4]]]]]].
  fold G in E1, E2. rewrite E1, E2, run_at_k0, acomment_fails_state; [reflexivity|].
  destruct E4 as [[_ Hh]|[c [bef' [Eb Hc]]]].
  - right. destruct l as [|c l']; [reflexivity|]. exact Hh.
  - left. rewrite Eb, rev_app_distr. simpl. apply N.eqb_neq. exact Hc.
Qed.

(* a search from inside the region continues at its end *)
Lemma search_from_igarbage : forall R,
  (forall i, i < length G ->
     run_at R (mkst (rev (firstn i G) ++ rev a) (skipn i G ++ after) (length a + i) []) (fun _ => true) = MNone) ->
  1 <= length G ->
  rsearch R (a ++ G ++ after) (S (length a)) =
  search_from R (S (length after)) (mkst (rev G ++ rev a) after (length a + length G) []) None.
Proof.
  intros R Hfail Hpos.
  destruct G as [|g0 G'] eqn:EG; [simpl in Hpos; lia|].
  assert (Es : a ++ (g0 :: G') ++ after = (a ++ [g0]) ++ G' ++ after) by (norm_app; reflexivity).
  replace (S (length a)) with (length (a ++ [g0])) by (rewrite app_length; simpl; lia).
  rewrite Es, rsearch_split, search_skip_exact.
  - rewrite app_length. replace (S (length G' + length after) - length G') with (S (length after)) by lia.
    rewrite rev_app_distr. simpl rev. rewrite app_length. simpl length.
    replace (length a + 1 + length G') with (length a + S (length G')) by lia.
    rewrite <- app_assoc. reflexivity.
  - rewrite app_length. lia.
  - intros i Hi. pose proof (Hfail (S i)) as H. simpl in H. rewrite rev_app_distr. simpl rev.
    rewrite app_length. simpl length. rewrite <- app_assoc in H.
    replace (length a + 1 + i) with (length a + S i) by lia. apply H. lia.
Qed.
End Attempts.

(* ---- getJunk with any list of end-of-junk expressions ------------------------------------------------- *)
Definition jbounded (s : str) (off p : nat) (r : rx) : Prop :=
  osearch r s (S off) = None \/ exists x, osearch r s (S off) = Some x /\ p <= m_start x.
Definition jhits (s : str) (off p : nat) (r : rx) : Prop :=
  exists x, osearch r s (S off) = Some x /\ m_start x = p.

Lemma junk_end_ge : forall exprs s off p je, 1 <= p ->
  Forall (jbounded s off p) exprs ->
  (je = None \/ exists j, je = Some j /\ p <= j) ->
  junk_end exprs s off je = None \/ exists j, junk_end exprs s off je = Some j /\ p <= j.
Proof.
  induction exprs as [|r rest IH]; intros s off p je Hp Hb Hje; [exact Hje|].
  inversion Hb as [|? ? Hr Hrest]; subst. cbn [junk_end].
  destruct Hr as [Hn|[x [Hx Hge]]]; [rewrite Hn; apply IH; auto|].
  rewrite Hx. apply IH; auto. right.
  destruct Hje as [->|[j [-> Hj]]]; cbn [truthy].
  - exists (m_start x). split; [reflexivity|exact Hge].
  - destruct j as [|j']; [lia|]. cbn [truthy]. exists (Nat.min (S j') (m_start x)). split; [reflexivity|lia].
Qed.

Lemma junk_end_hit : forall exprs s off p je, 1 <= p ->
  Forall (jbounded s off p) exprs ->
  (je = None \/ exists j, je = Some j /\ p <= j) ->
  (Exists (jhits s off p) exprs \/ je = Some p) ->
  junk_end exprs s off je = Some p.
Proof.
  induction exprs as [|r rest IH]; intros s off p je Hp Hb Hje Hhit.
  - destruct Hhit as [Hex|E]; [inversion Hex|exact E].
  - inversion Hb as [|? ? Hr Hrest]; subst. cbn [junk_end].
    destruct (osearch r s (S off)) as [x|] eqn:Ex.
    + assert (Hge : p <= m_start x).
      { destruct Hr as [Hn|[x' [Hx Hge]]]; [congruence|]. rewrite Ex in Hx. inversion Hx; subst. exact Hge. }
      assert (Hnew : exists j, (if truthy je
                                then match je with Some j => Some (Nat.min j (m_start x)) | None => None end
                                else Some (m_start x)) = Some j /\ p <= j /\
                               ((je = Some p \/ m_start x = p) -> j = p)).
      { destruct Hje as [->|[j [-> Hj]]]; cbn [truthy].
        - exists (m_start x). repeat split; auto. intros [E|E]; [discriminate|exact E].
        - destruct j as [|j']; [lia|]. cbn [truthy]. exists (Nat.min (S j') (m_start x)).
          repeat split; [lia|]. intros [E|E]; [inversion E; lia|lia]. }
      destruct Hnew as [j [Ej [Hj Hp']]]. rewrite Ej. apply IH; auto.
      * right. exists j. split; [reflexivity|exact Hj].
      * destruct Hhit as [Hex|E].
        -- inversion Hex as [? ? Hh|? ? Hh]; subst.
           ++ right. destruct Hh as [x' [Hx' Hst]]. rewrite Ex in Hx'. inversion Hx' as [Exx]. subst x'.
              rewrite (Hp' (or_intror Hst)). reflexivity.
           ++ left. exact Hh.
        -- right. rewrite (Hp' (or_introl E)). reflexivity.
    + apply IH; auto. destruct Hhit as [Hex|E]; [|right; exact E].
      inversion Hex as [? ? Hh|? ? Hh]; subst; [|left; exact Hh].
      destruct Hh as [x' [Hx' _]]. rewrite Ex in Hx'. discriminate.
Qed.

Lemma get_junk_hit : forall exprs s off p, off < p ->
  Forall (jbounded s off p) exprs -> Exists (jhits s off p) exprs ->
  get_junk exprs s off = mk_junk (off, p).
Proof.
  intros exprs s off p Hp Hb Hh. unfold get_junk.
  rewrite (junk_end_hit exprs s off p None); auto; [|lia].
  destruct p; [lia|]. reflexivity.
Qed.

Lemma get_junk_none : forall exprs s off,
  Forall (fun r => osearch r s (S off) = None) exprs ->
  get_junk exprs s off = mk_junk (off, length s).
Proof.
  intros exprs s off H. unfold get_junk.
  assert (E : junk_end exprs s off None = None).
  { induction exprs as [|r rest IH]; [reflexivity|]. inversion H; subst. cbn [junk_end].
    rewrite H2. apply IH. exact H3. }
  rewrite E. reflexivity.
Qed.

(* ---- step: a garbage region ---------------------------------------------------------------------------- *)
Inductive ijunk_after : str -> Prop :=
| ija_eof : ijunk_after []
| ija_comment : forall cs X, cs <> [] -> forallb (legal_cline_m CMI) cs = true ->
                head_is (fun c => mem c CMI) X = false -> ijunk_after (ctext cs ++ X)
| ija_key : forall c0 ktl val T, legal_ikey (c0 :: ktl) = true -> no_nl val = true -> tail_nl T ->
            ijunk_after (c0 :: ktl ++ 61%N :: val ++ T)
| ija_section : forall name X, no_chars [10; 93; 61]%N name = true ->
                ijunk_after (91%N :: name ++ 93%N :: X).

Lemma search_bound : forall R fuel pr after p,
  match search_from R fuel (mkst pr after p []) None with
  | MSome x => p <= m_start x
  | _ => True
  end.
Proof.
  intros R fuel pr after p.
  destruct (search_from R fuel (mkst pr after p []) None) as [|x|] eqn:E; auto.
  apply search_from_some in E. cbn [pos] in E. lia.
Qed.

Lemma igtext_pos : forall gl, legal_igarbage gl = true -> 1 <= length (igtext gl).
Proof.
  intros [|[|c l] gl] H; unfold legal_igarbage in H; apply andb_true_iff in H; destruct H as [_ H];
    try discriminate. rewrite igtext_cons. simpl. lia.
Qed.

Lemma igtext_ends_nl : forall gl, gl <> [] -> bol (rev (igtext gl)) = true.
Proof.
  induction gl as [|l [|l2 gl] IH]; intros H; [contradiction| |].
  - unfold igtext. simpl. rewrite app_nil_r, rev_app_distr. reflexivity.
  - rewrite igtext_cons.
    replace (l ++ 10%N :: igtext (l2 :: gl)) with ((l ++ [10%N]) ++ igtext (l2 :: gl)) by (norm_app; reflexivity).
    rewrite rev_app_distr.
    assert (IH' := IH ltac:(discriminate)).
    destruct (rev (igtext (l2 :: gl))) as [|d r]; [|exact IH'].
    simpl. rewrite rev_app_distr. reflexivity.
Qed.

Lemma bol_app : forall (x y : list N), x <> [] -> bol (x ++ y) = bol x.
Proof. intros [|c x] y H; [contradiction|reflexivity]. Qed.

Lemma gn_ini_junk : forall (a : str) gl after,
  legal_igarbage gl = true -> ijunk_after after ->
  gn_ini (a ++ igtext gl ++ after) (length a) =
  mk_junk (length a, length a + length (igtext gl)).
Proof.
  intros a gl after Hg Hafter. pose proof (igtext_pos gl Hg) as Hpos.
  unfold legal_igarbage in Hg. apply andb_true_iff in Hg. destruct Hg as [Hleg Hhead].
  set (s := a ++ igtext gl ++ after).
  assert (Hex : exists c l0 gl', gl = (c :: l0) :: gl' /\ mem c WS = false).
  { destruct gl as [|[|c l0] gl']; try discriminate. exists c, l0, gl'. split; [reflexivity|].
    apply negb_true_iff. exact Hhead. }
  destruct Hex as [c [l0 [gl' [Egl Hhead']]]]. clear Hhead. rename Hhead' into Hhead.
  assert (Hl0 : legal_igline (c :: l0) = true).
  { pose proof Hleg as Hleg'. rewrite Egl in Hleg'. cbn [forallb] in Hleg'. apply andb_true_iff in Hleg'. apply Hleg'. }
  unfold legal_igline in Hl0. apply andb_true_iff in Hl0. destruct Hl0 as [Hc0 Hm0].
  apply negb_true_iff in Hm0. cbn [head_is] in Hm0.
  assert (Es : s = a ++ (c :: l0) ++ (10%N :: (igtext gl' ++ after))).
  { unfold s. rewrite Egl, igtext_cons. norm_app. reflexivity. }
  assert (H91 : N.eqb c 91 = false) by (eapply igc_no91; [exact Hc0|left; reflexivity]).
  (* nothing matches at the start of the region *)
  assert (Esec : omatch rx_ini_section s (length a) = None).
  { rewrite Es. apply omatch_section_none. exact H91. }
  assert (Ec : omatch (ACOMMENT CMI) s (length a) = None).
  { rewrite Es. apply omatch_acomment_none. exact Hm0. }
  assert (Ew : omatch rx_props_ws s (length a) = None).
  { rewrite Es. apply omatch_ws_none. exact Hhead. }
  assert (Ek : omatch rx_ini_key s (length a) = None).
  { rewrite Es. apply omatch_ikey_none; [apply igc_key; exact Hc0|right; eexists; reflexivity]. }
  unfold gn_ini, get_next_ini. fold s. rewrite Esec.
  unfold get_next_base, fmt_ini. cbn [f_comment f_ws f_key f_cstyle f_license_below f_create f_junk].
  rewrite ini_comment_shape, ini_ws_shape. fold s. rewrite Ec, Ew, Ek.
  (* the three searches of getJunk *)
  set (G := igtext gl) in *. set (p := length a + length G).
  assert (Hgl : gl <> []) by (rewrite Egl; discriminate).
  assert (Hbol : bol (rev G ++ rev a) = true).
  { rewrite bol_app; [apply igtext_ends_nl; exact Hgl|].
    intro E. apply (f_equal (@length N)) in E. rewrite rev_length in E. simpl in E. lia. }
  assert (Sk := search_from_igarbage gl after a rx_ini_key (ikey_attempt_g gl after a Hleg) Hpos).
  assert (Sc := search_from_igarbage gl after a (ACOMMENT CMI) (comment_attempt_g gl after a Hleg) Hpos).
  assert (Ss := search_from_igarbage gl after a rx_ini_section (section_attempt_g gl after a Hleg) Hpos).
  fold G in Sk, Sc, Ss. fold p in Sk, Sc, Ss.
  set (z := mkst (rev G ++ rev a) after p []) in *.
  assert (Ok : osearch rx_ini_key s (S (length a)) =
               match search_from rx_ini_key (S (length after)) z None with MSome x => Some x | _ => None end)
    by (unfold osearch; unfold s; rewrite Sk; reflexivity).
  assert (Oc : osearch (ACOMMENT CMI) s (S (length a)) =
               match search_from (ACOMMENT CMI) (S (length after)) z None with MSome x => Some x | _ => None end)
    by (unfold osearch; unfold s; rewrite Sc; reflexivity).
  assert (Os : osearch rx_ini_section s (S (length a)) =
               match search_from rx_ini_section (S (length after)) z None with MSome x => Some x | _ => None end)
    by (unfold osearch; unfold s; rewrite Ss; reflexivity).
  assert (Bnd : forall R, osearch R s (S (length a)) =
                  match search_from R (S (length after)) z None with MSome x => Some x | _ => None end ->
                  jbounded s (length a) p R).
  { intros R HO. unfold jbounded. rewrite HO.
    pose proof (search_bound R (S (length after)) (rev G ++ rev a) after p) as B. fold z in B.
    destruct (search_from R (S (length after)) z None) as [|x|]; [left|right|left]; auto.
    exists x. split; [reflexivity|exact B]. }
  assert (HB : Forall (jbounded s (length a) p) [rx_ini_key; ACOMMENT CMI; rx_ini_section])
    by (constructor; [apply Bnd; exact Ok|constructor; [apply Bnd; exact Oc|constructor; [apply Bnd; exact Os|constructor]]]).
  assert (Hit : forall R x, run_at R z (fun _ => true) = MSome x -> m_start x = p ->
                  osearch R s (S (length a)) =
                  match search_from R (S (length after)) z None with MSome x => Some x | _ => None end ->
                  jhits s (length a) p R).
  { intros R x Hr Hs HO. exists x. rewrite HO, search_from_S. cbv beta iota.
    change (fun s' : st => true) with (fun _ : st => true). rewrite Hr. split; [reflexivity|exact Hs]. }
  destruct Hafter as [|cs X Hne Hcs HX|k0 ktl val T Hk Hv HT|name X Hn].
  - (* the end of the file: nothing is found *)
    rewrite get_junk_none.
    + unfold s. rewrite !app_length. simpl. rewrite Nat.add_0_r. reflexivity.
    + repeat constructor.
      * rewrite Ok, search_from_S. reflexivity.
      * rewrite Oc, search_from_S. cbv beta iota. change (fun s' : st => true) with (fun _ : st => true).
        unfold z. rewrite run_at_k0, acomment_fails by reflexivity. reflexivity.
      * rewrite Os, search_from_S. reflexivity.
  - (* a comment *)
    apply get_junk_hit; [unfold p; lia|exact HB|]. apply Exists_cons_tl. apply Exists_cons_hd.
    eapply Hit; [unfold z; rewrite run_at_k0, acomment_match by auto; reflexivity|reflexivity|exact Oc].
  - (* a key line *)
    destruct (ikey_facts k0 ktl Hk) as [_ [_ [_ K4]]].
    destruct (ikey_match k0 ktl val T (rev G ++ rev a) p K4 Hv HT) as [s' [E1 [E2 E3]]].
    assert (E2' : m_start (mkres (pos z) (pos s') (caps s')) = p) by reflexivity.
    apply get_junk_hit; [unfold p; lia|exact HB|]. apply Exists_cons_hd.
    eapply Hit; [unfold z; rewrite run_at_k0, E1; reflexivity|exact E2'|exact Ok].
  - (* a section header *)
    assert (Hn' : no_chars [10; 93]%N name = true).
    { eapply no_chars_weaken; [|exact Hn]. intros x Hx. unfold mem in *. cbn [existsb] in *.
      destruct (N.eqb x 10); [reflexivity|]. destruct (N.eqb x 93); [reflexivity|]. discriminate. }
    destruct (section_match name X (rev G ++ rev a) p Hn') as [s' [E1 [E2 E3]]].
    apply get_junk_hit; [unfold p; lia|exact HB|]. apply Exists_cons_tl. apply Exists_cons_tl.
    apply Exists_cons_hd.
    eapply Hit; [unfold z; rewrite run_at_k0, E1; reflexivity|reflexivity|exact Os].
Qed.

(* ---- blocks with garbage regions -------------------------------------------------------------------------- *)
Inductive ijblock :=
| IJB (b : iblock)
| IJG (gl : list str).

Definition ijtext (jb : ijblock) : str := match jb with IJB b => itext b | IJG gl => igtext gl end.
Definition legal_ijblockb (jb : ijblock) : bool :=
  match jb with IJB b => legal_iblockb b | IJG gl => legal_igarbage gl end.
Definition legal_ijblock (jb : ijblock) : Prop := legal_ijblockb jb = true.

(* as C02BlocksIni.isep; a garbage region is followed by the end of the file, a comment, a
   section header or an entity, and is not directly preceded by a standalone comment *)
Fixpoint ijsep (ls : bool) (bs : list ijblock) : bool :=
  match bs with
  | [] => true
  | IJB (IBlank w) :: rest => ijsep (N.eqb (last w 0%N) 10) rest
  | IJB (IComment _) :: rest =>
      ls && match rest with
            | [] => true
            | IJB (IBlank w) :: _ => mem 10%N w
            | IJB (ISection _ _) :: _ => true
            | _ => false
            end && ijsep true rest
  | IJB (ISection _ nl) :: rest => (nl || is_nil rest) && ijsep nl rest
  | IJB (IEntity cs _ _ nl) :: rest => (is_nil cs || ls) && (nl || is_nil rest) && ijsep nl rest
  | IJG _ :: rest =>
      match rest with
      | [] | IJB (IComment _) :: _ | IJB (ISection _ _) :: _ | IJB (IEntity _ _ _ _) :: _ => true
      | _ => false
      end && ijsep true rest
  end.

Fixpoint ijlic (off : nat) (bs : list ijblock) : bool :=
  match bs with
  | IJB (IBlank w) :: rest => ijlic (off + length w) rest
  | IJB (IEntity cs _ _ _) :: _ =>
      (2 <=? off) || negb (contains s_License (comment_val (COffset 1) (cbody cs)))
  | _ => true
  end.

Definition ijadjacent_okb (bs : list ijblock) : bool := ijsep true bs && ijlic 0 bs.
Definition ijadjacent_ok (bs : list ijblock) : Prop := ijadjacent_okb bs = true.

Fixpoint ijents (off w : nat) (bs : list ijblock) : list entry :=
  match bs with
  | [] => flush off w
  | IJB (IBlank x) :: rest => ijents off (w + length x) rest
  | IJB (IComment cs) :: rest =>
      let a := off + w in
      let e := a + length (cbody cs) in
      flush off w ++ mk_comment (a, e) :: ijents e 1 rest
  | IJB (ISection name nl) :: rest =>
      let a := off + w in
      let e := a + S (length name) + 1 in
      flush off w ++
      mkentry KSection (a, e) (Some (a + 1, a + 1 + length name)) (Some (a + 1, a + 1 + length name))
              None None
      :: ijents e (length (eol nl)) rest
  | IJB (IEntity cs key val nl) :: rest =>
      let a := off + w in
      let k := a + length (ctext cs) in
      let ke := k + length key in
      let v := ke + 1 in
      let e := v + length val in
      flush off w ++
      mkentry KEntity (k, e) (Some (k, ke)) (Some (v, e))
              (match cs with [] => None | _ => Some (a, k - 1) end)
              (match cs with [] => None | _ => Some (k - 1, k) end)
      :: ijents e (length (eol nl)) rest
  | IJG gl :: rest =>
      let a := off + w in
      flush off w ++ mk_junk (a, a + length (igtext gl)) :: ijents (a + length (igtext gl)) 0 rest
  end.

Definition ijentries_of (bs : list ijblock) : list entry := ijents 0 0 bs.
Definition ijfile_text (bs : list ijblock) : str := concat (map ijtext bs).

(* sanity, by evaluation:  [Str] / k=v / garbage, <empty>, " x;y" / ;c #d "a b = x ; y" / junk / [Str] / tail junk *)
Definition ijx_g : ijblock := IJG [A [103; 97; 114; 98]; []; A [32; 120; 59; 121]].
Example ijx_junk :
  let bs := [IJB ix_sec; IJB ix_e1; ijx_g; IJB ix_e2; IJG [A [106]]; IJB ix_sec; IJB ix_b; IJB ix_c;
             IJB ix_b; IJG [A [122]; []]] in
  Forall legal_ijblock bs /\ ijadjacent_ok bs /\ walk_ini (ijfile_text bs) = Ok (ijentries_of bs) /\
  map (fun e => (e_kind e, e_span e)) (ijentries_of bs) =
  [(KSection, (0, 5)); (KWhitespace, (5, 6)); (KEntity, (6, 9)); (KWhitespace, (9, 10));
   (KJunk, (10, 21)); (KEntity, (27, 38)); (KWhitespace, (38, 39)); (KJunk, (39, 41));
   (KSection, (41, 46)); (KWhitespace, (46, 48)); (KComment, (48, 53)); (KWhitespace, (53, 55));
   (KJunk, (55, 58))].
Proof. split; [repeat constructor|]. split; [vm_compute; reflexivity|]. split; vm_compute; reflexivity. Qed.

(* ---- the walk with garbage regions ------------------------------------------------------------------------ *)
Definition ijstmt (bs : list ijblock) (ls : bool) (a w : str) : Prop :=
  (ls = true -> bol (rev (a ++ w)) = true) ->
  ijlic (length a + length w) bs = true ->
  forall fuel, length (a ++ w ++ ijfile_text bs) - length a < fuel ->
  walk_loop (stateless gn_ini) fuel tt (a ++ w ++ ijfile_text bs) (length a) =
  Ok (ijents (length a) (length w) bs).

Definition ijnonblank_head (bs : list ijblock) : Prop :=
  match bs with IJB (IBlank _) :: _ => False | _ => True end.

Lemma ijents_flush : forall bs off w, ijnonblank_head bs ->
  ijents off w bs = flush off w ++ ijents (off + w) 0 bs.
Proof.
  intros [|[[x|cs|name nl|cs key val nl]|gl] rest] off w H; try contradiction; simpl;
    rewrite ?Nat.add_0_r, ?app_nil_r; reflexivity.
Qed.

Lemma ijlic_ge2 : forall bs off, 2 <= off -> ijlic off bs = true.
Proof.
  induction bs as [|[[x|cs|name nl|cs key val nl]|gl] rest IH]; intros off H; try reflexivity.
  - simpl. apply IH. lia.
  - simpl. replace (2 <=? off) with true by (symmetry; apply Nat.leb_le; exact H). reflexivity.
Qed.

Lemma ijlift_flush : forall bs ls, ijnonblank_head bs ->
  head_is (fun c => mem c WS) (ijfile_text bs) = false ->
  (forall a, ijstmt bs ls a []) ->
  forall a w, forallb (fun c => mem c WS) w = true -> ijstmt bs ls a w.
Proof.
  intros bs ls Hnb Hhead H0 a w Hw Hbol Hlic fuel Hf.
  destruct w as [|c w'] eqn:Ew; [apply (H0 a); auto|]. rewrite <- Ew in *.
  assert (Hne : w <> []) by (rewrite Ew; discriminate).
  destruct fuel as [|f]; [lia|].
  rewrite ijents_flush by exact Hnb.
  assert (Efl : flush (length a) (length w) = [mk_white (length a, length a + length w)])
    by (rewrite Ew; reflexivity).
  rewrite Efl. simpl app.
  pose proof (gn_ini_white a w (ijfile_text bs) Hne Hw Hhead) as G.
  rewrite <- G. apply walk_step.
  - rewrite !app_length. rewrite Ew. simpl. lia.
  - rewrite G. cbn [mk_white e_span snd].
    assert (Hs : a ++ w ++ ijfile_text bs = (a ++ w) ++ [] ++ ijfile_text bs)
      by (rewrite <- app_assoc; reflexivity).
    rewrite Hs, <- app_length. apply (H0 (a ++ w)).
    + rewrite app_nil_r. exact Hbol.
    + rewrite app_length. simpl length. rewrite Nat.add_0_r. exact Hlic.
    + rewrite <- Hs. rewrite !app_length in *. rewrite Ew in *. simpl in *. lia.
Qed.

Lemma ijfile_text_cons : forall b bs, ijfile_text (b :: bs) = ijtext b ++ ijfile_text bs.
Proof. reflexivity. Qed.

Lemma ijeol_tail : forall nl rest, (nl || is_nil rest) = true -> tail_nl (eol nl ++ ijfile_text rest).
Proof.
  intros [|] rest H; [right; eexists; reflexivity|]. simpl in H.
  destruct rest; [left; reflexivity|discriminate].
Qed.

(* what follows a garbage region, read off the next block *)
Lemma ijunk_after_rest : forall rest, Forall legal_ijblock rest -> ijsep true rest = true ->
  match rest with
  | [] | IJB (IComment _) :: _ | IJB (ISection _ _) :: _ | IJB (IEntity _ _ _ _) :: _ => true
  | _ => false
  end = true ->
  ijunk_after (ijfile_text rest).
Proof.
  intros [|[[x|cs|name nl|cs key val nl]|gl] rest'] Hleg Hsep Hk; try discriminate.
  - constructor.
  - (* a standalone comment *)
    inversion Hleg as [|b' r' Hb Hrest]; subst. unfold legal_ijblock in Hb. cbn [legal_ijblockb legal_iblockb] in Hb.
    apply andb_true_iff in Hb. destruct Hb as [Hc1 Hc2].
    assert (Hne : cs <> []) by (destruct cs; [discriminate|discriminate]).
    rewrite ijfile_text_cons. cbn [ijtext itext]. constructor; auto.
    simpl in Hsep. apply andb_true_iff in Hsep. destruct Hsep as [Hnext _].
    destruct rest' as [|[[x| |name nl|]|] rest'']; try discriminate; [reflexivity| |reflexivity].
    inversion Hrest as [|b' r' Hx _]; subst. unfold legal_ijblock in Hx. cbn [legal_ijblockb legal_iblockb] in Hx.
    apply andb_true_iff in Hx. destruct Hx as [Hx1 Hx2].
    assert (x <> []) by (destruct x; [discriminate|discriminate]).
    rewrite ijfile_text_cons. cbn [ijtext itext]. rewrite head_is_app by auto.
    eapply head_all; eauto. apply ws_not_cmi.
  - (* a section header *)
    inversion Hleg as [|b' r' Hb Hrest]; subst. unfold legal_ijblock in Hb. cbn [legal_ijblockb legal_iblockb] in Hb.
    rewrite ijfile_text_cons. cbn [ijtext itext].
    replace ((91%N :: name ++ 93%N :: eol nl) ++ ijfile_text rest')
      with (91%N :: name ++ 93%N :: (eol nl ++ ijfile_text rest')) by (norm_app; reflexivity).
    constructor. exact Hb.
  - (* an entity, with or without attached comment lines *)
    inversion Hleg as [|b' r' Hb Hrest]; subst. unfold legal_ijblock in Hb. cbn [legal_ijblockb legal_iblockb] in Hb.
    apply andb_true_iff in Hb. destruct Hb as [Hb Hv]. apply andb_true_iff in Hb. destruct Hb as [Hcs Hkey].
    simpl in Hsep. apply andb_true_iff in Hsep. destruct Hsep as [Hsep0 _].
    apply andb_true_iff in Hsep0. destruct Hsep0 as [_ Hnl].
    destruct key as [|c0 ktl]; [discriminate|].
    destruct (ikey_facts c0 ktl Hkey) as [_ [C2 _]].
    rewrite ijfile_text_cons. cbn [ijtext itext].
    replace ((ctext cs ++ (c0 :: ktl) ++ 61%N :: val ++ eol nl) ++ ijfile_text rest')
      with (ctext cs ++ c0 :: ktl ++ 61%N :: val ++ (eol nl ++ ijfile_text rest')) by (norm_app; reflexivity).
    destruct cs as [|c1 cs1].
    + change (ctext []) with (@nil N). simpl app. constructor; auto. apply ijeol_tail. exact Hnl.
    + constructor; [discriminate|exact Hcs|exact C2].
Qed.

Lemma walk_ijents : forall bs, Forall legal_ijblock bs -> forall ls, ijsep ls bs = true ->
  forall a w, forallb (fun c => mem c WS) w = true -> ijstmt bs ls a w.
Proof.
  induction bs as [|b rest IH]; intros Hleg ls Hsep.
  - apply ijlift_flush; [exact I|reflexivity|].
    intros a _ _ fuel Hf. simpl. apply walk_loop_done. rewrite !app_length. simpl. lia.
  - inversion Hleg as [|b' rest' Hb Hrest]; subst b' rest'.
    destruct b as [[x|cs|name nl|cs key val nl]|gl].
    + (* whitespace: joins what is pending *)
      intros a w Hw Hbol Hlic fuel Hf. simpl in Hsep.
      unfold legal_ijblock in Hb. cbn [legal_ijblockb legal_iblockb] in Hb. apply andb_true_iff in Hb.
      destruct Hb as [Hx1 Hx2].
      assert (Hxne : x <> []) by (destruct x; [discriminate|discriminate]).
      assert (Hs : a ++ w ++ ijfile_text (IJB (IBlank x) :: rest) = a ++ (w ++ x) ++ ijfile_text rest).
      { rewrite ijfile_text_cons. cbn [ijtext itext]. rewrite <- app_assoc. reflexivity. }
      simpl ijents. rewrite Hs in *. rewrite <- app_length.
      apply (IH Hrest _ Hsep); auto.
      * rewrite forallb_app, Hw, Hx2. reflexivity.
      * intros E. rewrite app_assoc. apply bol_rev_last; auto.
      * rewrite app_length, Nat.add_assoc. exact Hlic.
    + (* a standalone comment *)
      unfold legal_ijblock in Hb. cbn [legal_ijblockb legal_iblockb] in Hb. apply andb_true_iff in Hb.
      destruct Hb as [Hc1 Hc2].
      assert (Hne : cs <> []) by (destruct cs; [discriminate|discriminate]).
      simpl in Hsep. apply andb_true_iff in Hsep. destruct Hsep as [Hsep0 Hsep].
      apply andb_true_iff in Hsep0. destruct Hsep0 as [Hls Hnext]. subst ls.
      apply ijlift_flush; [exact I| rewrite ijfile_text_cons; apply head_ctext_m; auto; apply cmi_not_ws |].
      intros a Hbol _ fuel Hf. destruct fuel as [|f]; [lia|].
      rewrite app_nil_r in Hbol. specialize (Hbol eq_refl).
      rewrite ijfile_text_cons in *. cbn [ijtext itext] in *. simpl app in *.
      assert (Hafter : after_comment (ijfile_text rest)).
      { destruct rest as [|[[x| |name nl|]|] rest']; try discriminate; [constructor| |].
        - rewrite ijfile_text_cons. cbn [ijtext itext]. constructor; [|exact Hnext].
          inversion Hrest as [|b' r' Hx _]; subst. unfold legal_ijblock in Hx.
          cbn [legal_ijblockb legal_iblockb] in Hx.
          apply andb_true_iff in Hx. destruct Hx as [_ Hx]. exact Hx.
        - rewrite ijfile_text_cons. cbn [ijtext itext].
          replace ((91%N :: name ++ 93%N :: eol nl) ++ ijfile_text rest')
            with (91%N :: name ++ 93%N :: (eol nl ++ ijfile_text rest')) by (norm_app; reflexivity).
          inversion Hrest as [|b' r' Hx _]; subst. constructor; [exact Hx|].
          simpl in Hsep. apply andb_true_iff in Hsep. destruct Hsep as [Hn _].
          apply ijeol_tail. exact Hn. }
      pose proof (gn_ini_comment a cs (ijfile_text rest) Hbol Hne Hc2 Hafter) as G.
      simpl ijents. rewrite !Nat.add_0_r. rewrite <- G. apply walk_step.
      * rewrite !app_length. pose proof (ctext_length_ge cs). destruct cs; [contradiction|].
        simpl in *. lia.
      * rewrite G. cbn [mk_comment e_span snd].
        assert (Hs : a ++ ctext cs ++ ijfile_text rest = (a ++ cbody cs) ++ [10%N] ++ ijfile_text rest).
        { rewrite (ctext_body cs Hne), <- !app_assoc. reflexivity. }
        pose proof (cbody_length_pos cs Hne) as Hpos.
        rewrite Hs, <- app_length. change 1 with (length [10%N]).
        apply (IH Hrest _ Hsep); [reflexivity| | |].
        -- intros _. apply bol_rev_snoc.
        -- apply ijlic_ge2. rewrite app_length. simpl. lia.
        -- rewrite <- Hs.
           assert (Elen : length (ctext cs) = length (cbody cs) + 1)
             by (rewrite (ctext_body cs Hne), app_length; reflexivity).
           rewrite !app_length in *. simpl in *. lia.
    + (* a section header *)
      unfold legal_ijblock in Hb. cbn [legal_ijblockb legal_iblockb] in Hb.
      simpl in Hsep. apply andb_true_iff in Hsep. destruct Hsep as [Hnl Hsep].
      apply ijlift_flush; [exact I|reflexivity|].
      intros a _ _ fuel Hf. destruct fuel as [|f]; [lia|].
      assert (Etxt : a ++ [] ++ ijfile_text (IJB (ISection name nl) :: rest) =
                     a ++ 91%N :: name ++ 93%N :: (eol nl ++ ijfile_text rest)).
      { rewrite ijfile_text_cons. cbn [ijtext itext]. norm_app. reflexivity. }
      rewrite Etxt in *.
      pose proof (gn_ini_section a name (eol nl ++ ijfile_text rest) Hb) as G.
      simpl ijents. rewrite !Nat.add_0_r. rewrite <- G. apply walk_step.
      * rewrite !app_length. simpl. lia.
      * rewrite G. cbn [e_span snd].
        set (A0 := a ++ 91%N :: name ++ [93%N]).
        assert (Hs2 : a ++ 91%N :: name ++ 93%N :: (eol nl ++ ijfile_text rest) =
                      A0 ++ eol nl ++ ijfile_text rest) by (unfold A0; norm_app; reflexivity).
        assert (El : length a + S (length name) + 1 = length A0).
        { unfold A0. rewrite !app_length. simpl. rewrite app_length. simpl. lia. }
        rewrite Hs2, El. apply (IH Hrest _ Hsep); [apply eol_ws| | |].
        -- intros E. subst nl. apply bol_rev_snoc.
        -- apply ijlic_ge2. lia.
        -- rewrite Hs2 in Hf. rewrite !app_length in *. simpl in *. lia.
    + (* an entity line *)
      unfold legal_ijblock in Hb. cbn [legal_ijblockb legal_iblockb] in Hb. apply andb_true_iff in Hb.
      destruct Hb as [Hb Hv]. apply andb_true_iff in Hb. destruct Hb as [Hcs Hk].
      simpl in Hsep. apply andb_true_iff in Hsep. destruct Hsep as [Hsep0 Hsep].
      apply andb_true_iff in Hsep0. destruct Hsep0 as [Hls Hnl].
      destruct key as [|c0 ktl]; [discriminate|].
      destruct (ikey_facts c0 ktl Hk) as [C1 _].
      assert (Etxt : forall Y, itext (IEntity cs (c0 :: ktl) val nl) ++ Y =
                     ctext cs ++ c0 :: ktl ++ 61%N :: val ++ eol nl ++ Y).
      { intros Y. cbn [itext]. norm_app. reflexivity. }
      apply ijlift_flush; [exact I| |].
      { rewrite ijfile_text_cons. cbn [ijtext]. rewrite Etxt. destruct cs as [|c1 cs1]; [exact C1|].
        apply head_ctext_m; [discriminate|exact Hcs|apply cmi_not_ws]. }
      intros a Hbol Hlic fuel Hf. destruct fuel as [|f]; [lia|].
      rewrite app_nil_r in Hbol.
      rewrite ijfile_text_cons in *. cbn [ijtext] in *. rewrite Etxt in *. simpl app in *.
      assert (Hb2 : cs <> [] -> bol (rev a) = true).
      { intros Hne. apply Hbol. destruct cs; [contradiction|]. exact Hls. }
      assert (Hl : length a < 2 -> contains s_License (comment_val (COffset 1) (cbody cs)) = false).
      { intros Ha. simpl in Hlic. rewrite Nat.add_0_r in Hlic.
        replace (2 <=? length a) with false in Hlic by (symmetry; apply Nat.leb_gt; exact Ha).
        apply negb_true_iff in Hlic. exact Hlic. }
      pose proof (gn_ini_entity a cs c0 ktl val (eol nl ++ ijfile_text rest) Hcs Hk Hv
                    (ijeol_tail nl rest Hnl) Hb2 Hl) as G.
      cbv zeta in G. simpl ijents. rewrite !Nat.add_0_r. simpl length.
      set (k := length a + length (ctext cs)) in *.
      rewrite <- G. apply walk_step.
      * rewrite !app_length. simpl. rewrite !app_length. simpl. lia.
      * rewrite G. cbn [e_span snd].
        set (A0 := a ++ ctext cs ++ c0 :: ktl ++ 61%N :: val).
        assert (Hs2 : a ++ ctext cs ++ c0 :: ktl ++ 61%N :: val ++ eol nl ++ ijfile_text rest
                      = A0 ++ eol nl ++ ijfile_text rest) by (unfold A0; norm_app; reflexivity).
        assert (El : k + S (length ktl) + 1 + length val = length A0).
        { unfold A0, k. rewrite !app_length. simpl. rewrite !app_length. simpl. lia. }
        rewrite Hs2, El. apply (IH Hrest _ Hsep); [apply eol_ws| | |].
        -- intros E. subst nl. apply bol_rev_snoc.
        -- apply ijlic_ge2. rewrite <- El. lia.
        -- assert (Hlt : length a < length A0) by (rewrite <- El; unfold k; lia).
           rewrite Hs2 in Hf. clear - Hf Hlt. rewrite !app_length in *. simpl in *. lia.
    + (* a garbage region: one junk entry, exactly the region *)
      unfold legal_ijblock in Hb. cbn [legal_ijblockb] in Hb.
      simpl in Hsep. apply andb_true_iff in Hsep. destruct Hsep as [Hnext Hsep].
      pose proof (igtext_pos gl Hb) as Hpos.
      assert (Hgne : gl <> []) by (intro E; subst gl; simpl in Hpos; lia).
      apply ijlift_flush; [exact I| |].
      { rewrite ijfile_text_cons. cbn [ijtext].
        unfold legal_igarbage in Hb. apply andb_true_iff in Hb. destruct Hb as [_ Hh].
        destruct gl as [|[|c l0] gl']; try discriminate. rewrite igtext_cons. simpl app. cbn [head_is].
        apply negb_true_iff. exact Hh. }
      intros a _ _ fuel Hf. destruct fuel as [|f]; [lia|].
      rewrite ijfile_text_cons in *. cbn [ijtext] in *. simpl app in *.
      pose proof (gn_ini_junk a gl (ijfile_text rest) Hb (ijunk_after_rest rest Hrest Hsep Hnext)) as G.
      simpl ijents. rewrite !Nat.add_0_r. rewrite <- G. apply walk_step.
      * rewrite !app_length. lia.
      * rewrite G. cbn [mk_junk e_span snd].
        assert (Hs : a ++ igtext gl ++ ijfile_text rest = (a ++ igtext gl) ++ [] ++ ijfile_text rest)
          by (rewrite <- app_assoc; reflexivity).
        rewrite Hs, <- app_length. change 0 with (length (@nil N)).
        apply (IH Hrest _ Hsep); [reflexivity| | |].
        -- intros _. rewrite app_nil_r, rev_app_distr. rewrite bol_app; [apply igtext_ends_nl; exact Hgne|].
           intro E. apply (f_equal (@length N)) in E. rewrite rev_length in E. simpl in E. lia.
        -- apply ijlic_ge2. simpl length. rewrite app_length.
           unfold legal_igarbage in Hb. apply andb_true_iff in Hb. destruct Hb as [_ Hh].
           destruct gl as [|[|c l0] gl']; try discriminate. rewrite igtext_cons, app_length. simpl. lia.
        -- rewrite <- Hs. rewrite !app_length in *. lia.
Qed.

(* ---- the block theorem with garbage regions ---------------------------------------------------------------- *)
Theorem blocks_ini_junk : forall bs : list ijblock,
  Forall legal_ijblock bs -> ijadjacent_ok bs ->
  walk_ini (ijfile_text bs) = Ok (ijentries_of bs).
Proof.
  intros bs Hleg Hadj. unfold ijadjacent_ok, ijadjacent_okb in Hadj. apply andb_true_iff in Hadj.
  destruct Hadj as [Hsep Hlic]. unfold walk_ini, walk, ijentries_of.
  apply (walk_ijents bs Hleg true Hsep [] [] eq_refl); [reflexivity|exact Hlic|]. simpl. lia.
Qed.
Print Assumptions blocks_ini_junk.

(* ---- what the entries contain ----------------------------------------------------------------------------- *)
Fixpoint ijrecords_of (bs : list ijblock) : list irecord :=
  match bs with
  | [] => []
  | IJB (IEntity cs key val _) :: rest =>
      (key, val, match cs with [] => None | _ => Some (cbody cs) end) :: ijrecords_of rest
  | _ :: rest => ijrecords_of rest
  end.
Fixpoint ijcomments_of (bs : list ijblock) : list str :=
  match bs with
  | [] => []
  | IJB (IComment cs) :: rest => cbody cs :: ijcomments_of rest
  | _ :: rest => ijcomments_of rest
  end.
Fixpoint ijsections_of (bs : list ijblock) : list str :=
  match bs with
  | [] => []
  | IJB (ISection name _) :: rest => name :: ijsections_of rest
  | _ :: rest => ijsections_of rest
  end.
Fixpoint ijgarbage_of (bs : list ijblock) : list str :=
  match bs with
  | [] => []
  | IJG gl :: rest => igtext gl :: ijgarbage_of rest
  | _ :: rest => ijgarbage_of rest
  end.

Definition ijviews (s : str) (es : list entry) (bs : list ijblock) : Prop :=
  map (entity_record s) (filter (is_kind KEntity) es) = ijrecords_of bs /\
  map (fun e => span_text s (e_span e)) (filter (is_kind KComment) es) = ijcomments_of bs /\
  map (fun e => opt_text s (e_val e)) (filter (is_kind KSection) es) = ijsections_of bs /\
  map (fun e => span_text s (e_span e)) (filter (is_kind KJunk) es) = ijgarbage_of bs.

Lemma ijents_views : forall bs, Forall legal_ijblock bs -> forall (a w : str),
  ijviews (a ++ w ++ ijfile_text bs) (ijents (length a) (length w) bs) bs.
Proof.
  induction bs as [|b rest IH]; intros Hleg a w; unfold ijviews.
  - simpl ijents. rewrite !flush_no by discriminate. repeat split.
  - inversion Hleg as [|b' rest' Hb Hrest]; subst b' rest'. specialize (IH Hrest).
    set (s := a ++ w ++ ijfile_text (b :: rest)).
    destruct b as [[x|cs|name nl|cs key val nl]|gl].
    + assert (Hs : s = a ++ (w ++ x) ++ ijfile_text rest).
      { unfold s. rewrite ijfile_text_cons. cbn [ijtext itext]. rewrite <- app_assoc. reflexivity. }
      simpl ijents. rewrite <- app_length, Hs. apply IH.
    + unfold legal_ijblock in Hb. cbn [legal_ijblockb legal_iblockb] in Hb. apply andb_true_iff in Hb.
      destruct Hb as [Hc1 _].
      assert (Hne : cs <> []) by (destruct cs; [discriminate|discriminate]).
      set (A0 := a ++ w ++ cbody cs).
      assert (Hs : s = A0 ++ [10%N] ++ ijfile_text rest).
      { unfold s, A0. rewrite ijfile_text_cons. cbn [ijtext itext]. rewrite (ctext_body cs Hne).
        norm_app. reflexivity. }
      assert (El : length a + length w + length (cbody cs) = length A0)
        by (unfold A0; rewrite !app_length; lia).
      destruct (IH A0 [10%N]) as [I1 [I2 [I3 I4]]]. rewrite <- Hs in I1, I2, I3, I4.
      change (length [10%N]) with 1 in I1, I2, I3, I4.
      simpl ijents. rewrite !filter_app, !flush_no by discriminate. rewrite El.
      cbn [app filter is_kind mk_comment e_kind map e_span]. rewrite I1, I2, I3, I4.
      split; [reflexivity|split; [|split; reflexivity]]. cbn [ijcomments_of]. f_equal.
      assert (Hs' : s = (a ++ w) ++ cbody cs ++ [10%N] ++ ijfile_text rest)
        by (rewrite Hs; unfold A0; norm_app; reflexivity).
      unfold span_text. cbn [fst snd]. rewrite <- El, <- app_length, Hs'. apply slice_mid.
    + set (N0 := a ++ w ++ [91%N]).
      set (A0 := N0 ++ name ++ [93%N]).
      assert (Hs : s = A0 ++ eol nl ++ ijfile_text rest).
      { unfold s, A0, N0. rewrite ijfile_text_cons. cbn [ijtext itext]. norm_app. reflexivity. }
      assert (En : length a + length w + 1 = length N0)
        by (unfold N0; rewrite !app_length; simpl; lia).
      assert (Ee : length a + length w + S (length name) + 1 = length A0).
      { unfold A0, N0. rewrite !app_length. simpl. lia. }
      destruct (IH A0 (eol nl)) as [I1 [I2 [I3 I4]]]. rewrite <- Hs in I1, I2, I3, I4.
      simpl ijents. rewrite !filter_app, !flush_no by discriminate. rewrite Ee, En.
      cbn [app filter is_kind e_kind map e_val]. rewrite I1, I2, I3, I4.
      split; [reflexivity|split; [reflexivity|split; [|reflexivity]]].
      cbn [ijsections_of]. f_equal. unfold opt_text, span_text. cbn [fst snd].
      assert (Hs' : s = N0 ++ name ++ [93%N] ++ eol nl ++ ijfile_text rest)
        by (rewrite Hs; unfold A0; norm_app; reflexivity).
      rewrite Hs'. apply slice_mid.
    + set (K0 := a ++ w ++ ctext cs).
      set (V0 := K0 ++ key ++ [61%N]).
      set (A0 := V0 ++ val).
      assert (Hs : s = A0 ++ eol nl ++ ijfile_text rest).
      { unfold s, A0, V0, K0. rewrite ijfile_text_cons. cbn [ijtext itext]. norm_app. reflexivity. }
      assert (Ek : length a + length w + length (ctext cs) = length K0)
        by (unfold K0; rewrite !app_length; lia).
      assert (Ev : length K0 + length key + 1 = length V0).
      { unfold V0. rewrite !app_length. simpl. lia. }
      assert (Ee : length V0 + length val = length A0) by (unfold A0; rewrite app_length; lia).
      destruct (IH A0 (eol nl)) as [I1 [I2 [I3 I4]]]. rewrite <- Hs in I1, I2, I3, I4.
      simpl ijents. rewrite !filter_app, !flush_no by discriminate. rewrite Ek, Ev, Ee.
      cbn [app filter is_kind e_kind map]. rewrite I1, I2, I3, I4.
      split; [|split; [reflexivity|split; reflexivity]]. cbn [ijrecords_of]. f_equal.
      unfold entity_record. cbn [e_key e_val e_pre opt_text].
      unfold span_text. cbn [fst snd].
      assert (S1 : slice s (length K0) (length K0 + length key) = key).
      { replace s with (K0 ++ key ++ ([61%N] ++ val ++ eol nl) ++ ijfile_text rest)
          by (unfold s, K0; rewrite ijfile_text_cons; cbn [ijtext itext]; norm_app; reflexivity).
        apply slice_mid. }
      assert (S2 : slice s (length V0) (length A0) = val).
      { rewrite <- Ee, Hs. unfold A0. rewrite <- app_assoc. apply slice_mid. }
      rewrite S1, S2. f_equal.
      assert (Hcase : cs = [] \/ cs <> []) by (destruct cs; [left; reflexivity|right; discriminate]).
      destruct Hcase as [Ecs|Hne]; [rewrite Ecs; reflexivity|].
      rewrite !(match_ne cs) by exact Hne.
      cbn [option_map]. f_equal. cbn [fst snd].
      assert (Ec : length K0 - 1 = length (a ++ w) + length (cbody cs)).
      { rewrite <- Ek, (ctext_body cs Hne), !app_length. simpl. lia. }
      rewrite <- app_length, Ec.
      replace s with ((a ++ w) ++ cbody cs ++ [10%N] ++ (key ++ 61%N :: val ++ eol nl) ++ ijfile_text rest)
        by (unfold s; rewrite ijfile_text_cons; cbn [ijtext itext]; rewrite (ctext_body cs Hne); norm_app; reflexivity).
      apply slice_mid.
    + set (A0 := a ++ w ++ igtext gl).
      assert (Hs : s = A0 ++ [] ++ ijfile_text rest).
      { unfold s, A0. rewrite ijfile_text_cons. cbn [ijtext]. norm_app. reflexivity. }
      assert (El : length a + length w + length (igtext gl) = length A0)
        by (unfold A0; rewrite !app_length; lia).
      destruct (IH A0 []) as [I1 [I2 [I3 I4]]]. rewrite <- Hs in I1, I2, I3, I4.
      change (length (@nil N)) with 0 in I1, I2, I3, I4.
      simpl ijents. rewrite !filter_app, !flush_no by discriminate. rewrite El.
      cbn [app filter is_kind mk_junk e_kind map e_span]. rewrite I1, I2, I3, I4.
      split; [reflexivity|split; [reflexivity|split; [reflexivity|]]]. cbn [ijgarbage_of]. f_equal.
      assert (Hs' : s = (a ++ w) ++ igtext gl ++ ijfile_text rest)
        by (rewrite Hs; unfold A0; norm_app; reflexivity).
      unfold span_text. cbn [fst snd]. rewrite <- El, <- app_length, Hs'. apply slice_mid.
Qed.

(* with garbage regions: the entities are exactly the records, the standalone comments the
   comment blocks, the sections the section headers, and the Junk entries are, one for one
   and in order, exactly the garbage regions *)
Theorem roundtrip_ini_junk : forall bs : list ijblock,
  Forall legal_ijblock bs -> ijadjacent_ok bs ->
  exists es, walk_ini (ijfile_text bs) = Ok es /\ ijviews (ijfile_text bs) es bs.
Proof.
  intros bs Hleg Hadj. exists (ijentries_of bs). split; [apply blocks_ini_junk; auto|].
  exact (ijents_views bs Hleg [] []).
Qed.
Print Assumptions roundtrip_ini_junk.

(* ---- ONE garbage region between two block lists ---------------------------------------------------------- *)
Definition iwith_garbage (bs1 : list iblock) (gl : list str) (bs2 : list iblock) : list ijblock :=
  map IJB bs1 ++ IJG gl :: map IJB bs2.

Lemma ijfile_text_app : forall x y, ijfile_text (x ++ y) = ijfile_text x ++ ijfile_text y.
Proof. intros. unfold ijfile_text. rewrite map_app, concat_app. reflexivity. Qed.

Lemma ijfile_text_IJB : forall bs, ijfile_text (map IJB bs) = ifile_text bs.
Proof. induction bs as [|b bs IH]; [reflexivity|]. rewrite map_cons, ijfile_text_cons, IH. reflexivity. Qed.

Lemma ij_of_IJB : forall bs, ijrecords_of (map IJB bs) = irecords_of bs /\
  ijcomments_of (map IJB bs) = icomments_of bs /\ ijsections_of (map IJB bs) = isections_of bs.
Proof.
  induction bs as [|[x|cs|name nl|cs key val nl] bs [I1 [I2 I3]]]; [repeat split| | | |];
    cbn [map ijrecords_of ijcomments_of ijsections_of irecords_of icomments_of isections_of];
    rewrite ?I1, ?I2, ?I3; repeat split.
Qed.

Lemma ijrecords_app : forall x y, ijrecords_of (x ++ y) = ijrecords_of x ++ ijrecords_of y.
Proof.
  induction x as [|[[x0|cs|name nl|cs key val nl]|gl] x IH]; intros y; simpl; rewrite ?IH; reflexivity.
Qed.
Lemma ijcomments_app : forall x y, ijcomments_of (x ++ y) = ijcomments_of x ++ ijcomments_of y.
Proof.
  induction x as [|[[x0|cs|name nl|cs key val nl]|gl] x IH]; intros y; simpl; rewrite ?IH; reflexivity.
Qed.
Lemma ijsections_app : forall x y, ijsections_of (x ++ y) = ijsections_of x ++ ijsections_of y.
Proof.
  induction x as [|[[x0|cs|name nl|cs key val nl]|gl] x IH]; intros y; simpl; rewrite ?IH; reflexivity.
Qed.

(* the spans of the Junk entries *)
Fixpoint ijspans (off w : nat) (bs : list ijblock) : list span :=
  match bs with
  | [] => []
  | IJB (IBlank x) :: rest => ijspans off (w + length x) rest
  | IJB (IComment cs) :: rest => ijspans (off + w + length (cbody cs)) 1 rest
  | IJB (ISection name nl) :: rest => ijspans (off + w + S (length name) + 1) (length (eol nl)) rest
  | IJB (IEntity cs key val nl) :: rest =>
      ijspans (off + w + length (ctext cs) + length key + 1 + length val) (length (eol nl)) rest
  | IJG gl :: rest =>
      (off + w, off + w + length (igtext gl)) :: ijspans (off + w + length (igtext gl)) 0 rest
  end.

Lemma ijents_junk : forall bs off w,
  filter (is_kind KJunk) (ijents off w bs) = map mk_junk (ijspans off w bs).
Proof.
  induction bs as [|[[x|cs|name nl|cs key val nl]|gl] rest IH]; intros off w;
    cbn [ijents ijspans]; rewrite ?filter_app, ?flush_no by discriminate;
    cbn [app filter is_kind mk_comment mk_junk e_kind map]; rewrite ?IH; reflexivity.
Qed.

Lemma ijspans_IJB : forall bs off w, ijspans off w (map IJB bs) = [].
Proof.
  induction bs as [|[x|cs|name nl|cs key val nl] bs IH]; intros off w; cbn [map ijspans]; auto.
Qed.

Lemma ijspans_prefix : forall bs, Forall legal_iblock bs -> forall off w R,
  exists off' w', off' + w' = off + w + length (ifile_text bs) /\
                  ijspans off w (map IJB bs ++ R) = ijspans off' w' R.
Proof.
  induction bs as [|b bs IH]; intros Hleg off w R.
  - exists off, w. split; [simpl; lia|reflexivity].
  - inversion Hleg as [|? ? Hb Hrest]; subst. specialize (IH Hrest).
    rewrite ifile_text_cons, app_length.
    destruct b as [x|cs|name nl|cs key val nl]; cbn [map app ijspans itext].
    + destruct (IH off (w + length x) R) as [o [w' [E1 E2]]]. exists o, w'. split; [lia|exact E2].
    + unfold legal_iblock in Hb. cbn [legal_iblockb] in Hb. apply andb_true_iff in Hb. destruct Hb as [Hc _].
      assert (Hne : cs <> []) by (destruct cs; [discriminate|discriminate]).
      destruct (IH (off + w + length (cbody cs)) 1 R) as [o [w' [E1 E2]]]. exists o, w'.
      split; [|exact E2]. rewrite (ctext_body cs Hne), app_length. simpl. lia.
    + destruct (IH (off + w + S (length name) + 1) (length (eol nl)) R) as [o [w' [E1 E2]]].
      exists o, w'. split; [|exact E2]. simpl. rewrite !app_length. simpl. lia.
    + destruct (IH (off + w + length (ctext cs) + length key + 1 + length val) (length (eol nl)) R)
        as [o [w' [E1 E2]]].
      exists o, w'. split; [|exact E2]. rewrite !app_length. simpl. rewrite !app_length. lia.
Qed.

(* a file printed from two block lists with ONE garbage region between them: every record,
   comment and section header is recovered unchanged, and there is exactly one Junk entry,
   whose span is exactly the region *)
Theorem ini_junk_one_region : forall (bs1 : list iblock) (gl : list str) (bs2 : list iblock),
  Forall legal_iblock bs1 -> legal_igarbage gl = true -> Forall legal_iblock bs2 ->
  ijadjacent_ok (iwith_garbage bs1 gl bs2) ->
  let s := ifile_text bs1 ++ igtext gl ++ ifile_text bs2 in
  let p := length (ifile_text bs1) in
  exists es, walk_ini s = Ok es /\
    map (entity_record s) (filter (is_kind KEntity) es) = irecords_of bs1 ++ irecords_of bs2 /\
    map (fun e => span_text s (e_span e)) (filter (is_kind KComment) es) =
      icomments_of bs1 ++ icomments_of bs2 /\
    map (fun e => opt_text s (e_val e)) (filter (is_kind KSection) es) =
      isections_of bs1 ++ isections_of bs2 /\
    filter (is_kind KJunk) es = [mk_junk (p, p + length (igtext gl))] /\
    slice s p (p + length (igtext gl)) = igtext gl.
Proof.
  intros bs1 gl bs2 H1 Hg H2 Hadj s p.
  assert (Hleg : Forall legal_ijblock (iwith_garbage bs1 gl bs2)).
  { unfold iwith_garbage. apply Forall_app. split; [|constructor; [exact Hg|]];
      rewrite Forall_map; assumption. }
  assert (Es : ijfile_text (iwith_garbage bs1 gl bs2) = s).
  { unfold iwith_garbage, s. rewrite ijfile_text_app, ijfile_text_cons, !ijfile_text_IJB. reflexivity. }
  exists (ijentries_of (iwith_garbage bs1 gl bs2)).
  pose proof (blocks_ini_junk _ Hleg Hadj) as Hw. rewrite Es in Hw.
  destruct (ijents_views _ Hleg [] []) as [V1 [V2 [V3 _]]]. cbn [app length] in V1, V2, V3.
  rewrite Es in V1, V2, V3. fold (ijentries_of (iwith_garbage bs1 gl bs2)) in V1, V2, V3.
  destruct (ij_of_IJB bs1) as [A1 [A2 A3]]. destruct (ij_of_IJB bs2) as [B1 [B2 B3]].
  split; [exact Hw|]. split; [|split; [|split; [|split]]].
  - rewrite V1. unfold iwith_garbage. rewrite ijrecords_app. cbn [ijrecords_of]. rewrite A1, B1. reflexivity.
  - rewrite V2. unfold iwith_garbage. rewrite ijcomments_app. cbn [ijcomments_of]. rewrite A2, B2. reflexivity.
  - rewrite V3. unfold iwith_garbage. rewrite ijsections_app. cbn [ijsections_of]. rewrite A3, B3. reflexivity.
  - unfold ijentries_of. rewrite ijents_junk. unfold iwith_garbage.
    destruct (ijspans_prefix bs1 H1 0 0 (IJG gl :: map IJB bs2)) as [o [w' [E1 E2]]].
    rewrite E2. cbn [ijspans]. rewrite ijspans_IJB. cbn [map]. simpl in E1. rewrite E1. reflexivity.
  - unfold s, p. apply slice_mid.
Qed.
Print Assumptions ini_junk_one_region.

(*  [Str] / k=v / "garb" "" " x;y" / ;c #d a b = x ; y  *)
Example ijx_one_region :
  let bs1 := [ix_sec; ix_e1] in let gl := [A [103; 97; 114; 98]; []; A [32; 120; 59; 121]] in
  let bs2 := [ix_e2; ix_e3] in
  Forall legal_iblock bs1 /\ legal_igarbage gl = true /\ Forall legal_iblock bs2 /\
  ijadjacent_ok (iwith_garbage bs1 gl bs2) /\
  length (ifile_text bs1) = 10 /\ length (igtext gl) = 11.
Proof.
  split; [repeat constructor|]. split; [reflexivity|]. split; [repeat constructor|].
  split; [vm_compute; reflexivity|]. split; reflexivity.
Qed.
