(* C01 for the five text parsers instantiated with the regular expressions
   generated from the source. *)
From Coq Require Import NArith List Bool Arith Lia.
From CL Require Import Base.Sx Base.Res Base.Str Regex.Rx Regex.RxLemmas Regex.RxWidth Model.Entry
  Model.Parse Model.ParseFormats Generated.Regexes
  Proofs.WalkSpec Proofs.WalkProofs Proofs.ParseContracts.
Import ListNotations.

(* ---- side conditions on the generated expressions: decided by computation ---- *)
Lemma side_props :
  nullable rx_props_comment = false /\ nullable rx_props_ws = false /\
  nullable rx_props_key = false.
Proof. vm_compute. repeat split. Qed.

Lemma side_ini :
  nullable rx_ini_comment = false /\ nullable rx_ini_ws = false /\
  nullable rx_ini_key = false /\ nullable rx_ini_section = false.
Proof. vm_compute. repeat split. Qed.

Lemma side_inc :
  nullable rx_inc_comment = false /\ nullable rx_inc_ws = false /\
  nullable rx_inc_key = false /\ nullable rx_inc_pi = false.
Proof. vm_compute. repeat split. Qed.

Lemma side_po :
  nullable rx_po_comment = false /\ nullable rx_po_ws = false.
Proof. vm_compute. repeat split. Qed.

Lemma side_dtd :
  nullable rx_dtd_comment = false /\ nullable rx_dtd_ws = false /\
  nullable rx_dtd_key = false /\ nullable rx_dtd_pe = false.
Proof. vm_compute. repeat split. Qed.

(* ---- the theorems ---------------------------------------------------------------- *)
Theorem lossless_properties : forall s, lossless (stateless gn_properties) tt s.
Proof.
  destruct side_props as [H1 [H2 H3]]. apply walk_lossless.
  apply get_next_properties_contract; assumption.
Qed.

Theorem lossless_ini : forall s, lossless (stateless gn_ini) tt s.
Proof.
  destruct side_ini as [H1 [H2 [H3 H4]]]. apply walk_lossless.
  apply get_next_ini_contract; assumption.
Qed.

Theorem lossless_defines : forall s, lossless gn_defines false s.
Proof.
  destruct side_inc as [H1 [H2 [H3 H4]]]. apply walk_lossless.
  apply get_next_defines_contract; assumption.
Qed.

Theorem lossless_po : forall s, lossless (stateless gn_po) tt s.
Proof.
  destruct side_po as [H1 H2]. apply walk_lossless.
  apply get_next_po_contract; assumption.
Qed.

Lemma header_bom_dtd : forall s,
  (exists x, omatch rx_dtd_header s 0 = Some x) <-> (exists s', s = bom :: s').
Proof.
  intros s. destruct s as [|c s'].
  - split; intros [x H]; [|discriminate]. vm_compute in H. discriminate.
  - unfold omatch, rmatch, run_at, rx_dtd_header. simpl.
    destruct (N.eq_dec c bom) as [E|E].
    + subst c. split; intros _; [exists s'; reflexivity|]. vm_compute. eexists. reflexivity.
    + split; intros [x H].
      * exfalso. destruct ((65279 <=? c)%N && (c <=? 65279)%N || false) eqn:B; [|discriminate].
        apply orb_true_iff in B. destruct B as [B|B]; [|discriminate].
        apply andb_true_iff in B. destruct B as [B1 B2].
        apply N.leb_le in B1, B2. apply E. unfold bom. lia.
      * inversion H. contradiction.
Qed.

(* the value group of the DTD entity expression contains its two quotes:
   every [Grp val _] subterm of rx_dtd_key is at least two characters wide *)
Lemma val_wide_dtd : forall s off x sp,
  omatch rx_dtd_key s off = Some x -> group g_dtd_key_val x = Some sp -> fst sp + 2 <= snd sp.
Proof.
  unfold omatch. intros s off x sp H G.
  destruct (rmatch rx_dtd_key s off) as [|y|] eqn:E; try discriminate.
  inversion H; subst y.
  eapply (rmatch_group_wide 2 g_dtd_key_val rx_dtd_key);
    [vm_compute; reflexivity|exact E|exact G].
Qed.

Theorem lossless_dtd : forall s, lossless_dtd (stateless gn_dtd) s.
Proof.
  destruct side_dtd as [H1 [H2 [H3 H4]]]. apply walk_lossless_dtd.
  apply get_next_dtd_contract; auto.
  - exact val_wide_dtd.
  - exact header_bom_dtd.
Qed.

