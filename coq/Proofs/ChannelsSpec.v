(* The clauses of C15 over Model/Channels.v, assembled from Proofs/ChannelsProofs.v. *)
From Coq Require Import ZArith NArith List Bool Arith Lia Permutation.
From CL Require Import Base.Sx Base.Res Base.Str Regex.Rx Regex.RxLemmas Model.AddRemove
                       Proofs.AddRemoveProofs Proofs.AddRemoveSpec Model.Channels
                       Proofs.ChannelsProofs.
Import ListNotations.
Local Open Scope nat_scope.

Notation dmem := (AddRemove.mem dkey_eqb).
Notation dspec_keys := (spec_keys dkey_eqb).

(* merge_resources on freshly walked versions *)
Definition merge_entries (vs : list (list centry)) : result (list centry) :=
  merge_resources true (number_all 0 vs).

Lemma merge_channels_inv name vs txt : merge_channels name vs = Ok txt ->
  exists out, merge_entries vs = Ok out /\ txt = serialize_legacy out.
Proof.
  unfold merge_channels, merge_entries. destruct (get_parser name) as [[p|]|t]; cbn; try discriminate.
  destruct (merge_resources true (number_all 0 vs)) as [out|t]; cbn; [|discriminate].
  intros H; inversion H; subst. exists out. auto.
Qed.

Lemma merge_channels_ok name p vs out : get_parser name = Ok (Some p) ->
  merge_entries vs = Ok out -> merge_channels name vs = Ok (serialize_legacy out).
Proof. unfold merge_channels, merge_entries. intros -> H. cbn. rewrite H. reflexivity. Qed.

Lemma number_all_uniq vs : Forall ukeys vs -> forall ctr, Forall uniq (number_all ctr vs).
Proof.
  induction 1 as [|v vs Hv _ IH]; intros ctr; cbn; constructor; [apply number_uniq; exact Hv|apply IH].
Qed.

Lemma number_all_ekeys vs : Forall ukeys vs -> forall ctr,
  map ekeys (map parse_resource (number_all ctr vs)) = map vkeys vs.
Proof.
  induction 1 as [|v vs Hv _ IH]; intros ctr; cbn; [reflexivity|].
  rewrite ekeys_parse_number by exact Hv. rewrite IH. reflexivity.
Qed.

(* the merged dict behind the output entries *)
Theorem merged_dict v vs out : Forall ukeys (v :: vs) -> merge_entries (v :: vs) = Ok out ->
  exists D, out = dvalues D /\ wf D /\
    ekeys D = spec_fold (vkeys v) (map vkeys vs) /\
    (forall k, od_get dkey_eqb (DK k) D = first_entry k (number_all 0 (v :: vs))).
Proof.
  intros Hu H. unfold merge_entries, merge_resources, merge_dicts in H. cbn in H.
  inversion H; subst; clear H.
  destruct (number_all_sep (v :: vs) Hu 0) as (S1 & S2 & _). cbn in S1, S2.
  inversion S2 as [|? ? Sv Svs]; subst.
  destruct (fold_merge_inv _ _ Sv Svs S1) as (I1 & I2 & I3 & _).
  inversion Hu as [|? ? Hv Hvs]; subst.
  eexists. split; [reflexivity|]. split; [exact I1|]. split.
  - unfold fold_merge in I2. rewrite I2. rewrite ekeys_parse_number by exact Hv.
    rewrite number_all_ekeys by exact Hvs. reflexivity.
  - intros k. unfold fold_merge in I3. rewrite (I3 (DK k) eq_refl).
    change (parse_resource (number 0 v) :: map parse_resource (number_all (length v) vs))
      with (map parse_resource (number_all 0 (v :: vs))).
    apply first_get_entry. apply number_all_uniq. exact Hu.
Qed.

Lemma merge_entries_nil : merge_entries [] = Raise TypeError.
Proof. reflexivity. Qed.

Lemma first_entry_some k vs v e : In v vs -> In e v -> has_key k e = true ->
  first_entry k vs <> None.
Proof.
  induction vs as [|w vs IH]; intros Hv He Hk; [contradiction|]. cbn.
  destruct (find (has_key k) w) eqn:E; [discriminate|].
  destruct Hv as [->|Hv]; [|apply IH; assumption].
  exfalso. apply (find_none _ _ E) in He. congruence.
Qed.

Lemma first_entry_In k vs e : first_entry k vs = Some e ->
  exists v, In v vs /\ In e v /\ has_key k e = true.
Proof.
  induction vs as [|w vs IH]; cbn; [discriminate|].
  destruct (find (has_key k) w) eqn:E.
  - intros H; inversion H; subst. apply find_some in E. exists w. split; [left; reflexivity|exact E].
  - intros H. destruct (IH H) as [v [Hv He]]. exists v. split; [right; exact Hv|exact He].
Qed.

Lemma has_key_self e : keyed e = true -> has_key (c_key e) e = true.
Proof. intros H. unfold has_key. rewrite H. cbn. apply str_eqb_eq. reflexivity. Qed.

(* every entity key of any version exactly once *)
Theorem keys_once vs out : Forall ukeys vs -> merge_entries vs = Ok out ->
  forall v e, In v vs -> In e v -> keyed e = true ->
  length (filter (has_key (c_key e)) out) = 1.
Proof.
  intros Hu H v e Hv He Hk. destruct vs as [|v0 vs]; [contradiction|].
  destruct (merged_dict v0 vs out Hu H) as (D & -> & HD & _ & Hget).
  rewrite (wf_count_key D (c_key e) HD).
  destruct (dmem (DK (c_key e)) (dkeys D)) eqn:E; [reflexivity|].
  exfalso. assert (Hn : od_get dkey_eqb (DK (c_key e)) D = None).
  { apply (od_get_None dkey_eqb dkey_eqb_eq). intros Hin. apply dmem_In in Hin. unfold dkeys in E. congruence. }
  rewrite Hget in Hn.
  pose proof (first_entry_number (c_key e) (v0 :: vs) 0) as Hs. rewrite Hn in Hs.
  destruct (first_entry (c_key e) (v0 :: vs)) eqn:E2; [cbn in Hs; discriminate|].
  revert E2. apply (first_entry_some (c_key e) (v0 :: vs) v e Hv He). apply has_key_self. exact Hk.
Qed.

(* each keyed entry of the output is the entry of the first (newest) version that has the key *)
Theorem newest_wins vs out : Forall ukeys vs -> merge_entries vs = Ok out ->
  forall e, In e out -> keyed e = true ->
  exists e0, first_entry (c_key e) vs = Some e0 /\ strip e0 = strip e.
Proof.
  intros Hu H e He Hk. destruct vs as [|v0 vs]; [discriminate|].
  destruct (merged_dict v0 vs out Hu H) as (D & -> & HD & _ & Hget).
  pose proof (wf_keyed_In D e HD He Hk) as Hg. rewrite Hget in Hg.
  pose proof (first_entry_number (c_key e) (v0 :: vs) 0) as Hs. rewrite Hg in Hs.
  destruct (first_entry (c_key e) (v0 :: vs)) as [e0|]; [|cbn in Hs; discriminate].
  exists e0. split; [reflexivity|]. cbn in Hs. congruence.
Qed.

(* ---- order ------------------------------------------------------------------------------------- *)
Lemma filter_filter_imp {A} (P Q : A -> bool) (xs : list A) :
  (forall x, P x = true -> Q x = true) -> filter P (filter Q xs) = filter P xs.
Proof.
  intros H. induction xs as [|x xs IH]; cbn; [reflexivity|].
  destruct (Q x) eqn:EQ; cbn; [rewrite IH; reflexivity|].
  destruct (P x) eqn:EP; [apply H in EP; congruence|exact IH].
Qed.

Lemma spec_keys_nodup l r : NoDup l -> NoDup r -> NoDup (dspec_keys l r).
Proof.
  intros Hl Hr. rewrite <- (addremove_anchor dkey_eqb dkey_eqb_eq l r Hl Hr).
  apply (addremove_once dkey_eqb dkey_eqb_eq l r Hl Hr).
Qed.

Lemma spec_keys_left l r : NoDup l -> NoDup r ->
  filter (fun k => dmem k l) (dspec_keys l r) = l.
Proof.
  intros Hl Hr. rewrite <- (addremove_anchor dkey_eqb dkey_eqb_eq l r Hl Hr).
  apply (addremove_left_order dkey_eqb dkey_eqb_eq l r Hl Hr).
Qed.

Lemma spec_fold_left l ls : forall acc, NoDup acc -> Forall (@NoDup dkey) ls ->
  filter (fun k => dmem k l) acc = l ->
  filter (fun k => dmem k l) (spec_fold acc ls) = l /\ NoDup (spec_fold acc ls).
Proof.
  induction ls as [|y ls IH]; intros acc Ha Hls Hf; cbn; [split; assumption|].
  inversion Hls as [|? ? Hy Hls']; subst.
  apply IH; [apply spec_keys_nodup; assumption|exact Hls'|].
  rewrite <- (filter_filter_imp (fun k => dmem k l) (fun k => dmem k acc)).
  - rewrite spec_keys_left by assumption. exact Hf.
  - intros x Hx. apply dmem_In in Hx. apply dmem_In.
    rewrite <- Hf in Hx. apply filter_In in Hx. apply Hx.
Qed.

Lemma vkeys_nodup v : ukeys v -> NoDup (vkeys v).
Proof.
  intros H. rewrite <- (ekeys_parse_number v 0 H). unfold ekeys. apply NoDup_filter.
  apply parse_resource_wf. apply number_uniq. exact H.
Qed.

Lemma filter_self l : NoDup l -> filter (fun k => dmem k l) l = l.
Proof.
  intros _. rewrite (filter_all (fun k => dmem k l)); [reflexivity|].
  apply Forall_forall. intros x Hx. apply dmem_In. exact Hx.
Qed.

(* the non-whitespace keys of the merge are the iterated C20 specification of the
   versions' keys; the newest version's keys keep their order *)
Theorem merged_order v vs out : Forall ukeys (v :: vs) -> merge_entries (v :: vs) = Ok out ->
  exists D, out = dvalues D /\ wf D /\
    ekeys D = spec_fold (vkeys v) (map vkeys vs) /\
    filter (fun k => dmem k (vkeys v)) (ekeys D) = vkeys v.
Proof.
  intros Hu H. destruct (merged_dict v vs out Hu H) as (D & Ho & HD & He & _).
  exists D. repeat split; try assumption; try apply HD.
  rewrite He. inversion Hu as [|? ? Hv Hvs]; subst.
  apply spec_fold_left.
  - apply vkeys_nodup. exact Hv.
  - apply Forall_forall. intros l Hl. apply in_map_iff in Hl. destruct Hl as [w [<- Hw]].
    apply vkeys_nodup. rewrite Forall_forall in Hvs. apply Hvs. exact Hw.
  - apply filter_self. apply vkeys_nodup. exact Hv.
Qed.

(* entity-level reading of the key list: the keys of the keyed output entries *)
Definition dk_strs (ks : list dkey) : list str :=
  flat_map (fun k => match k with DK s => [s] | _ => [] end) ks.

Lemma wf_keyed_keys D : Forall key_ok D ->
  map c_key (filter keyed (dvalues D)) = dk_strs (dkeys D).
Proof.
  unfold dvalues, dkeys. induction 1 as [|[k e] D Hp _ IH]; cbn; [reflexivity|].
  unfold key_ok in Hp. cbn in Hp. destruct k as [s|c n|i|s]; destruct Hp as [H1 H2]; cbn.
  - rewrite H1. cbn. rewrite IH, H2. reflexivity.
  - rewrite (not_keyed e) by auto. exact IH.
  - rewrite (not_keyed e) by auto. exact IH.
  - rewrite (not_keyed e) by auto. exact IH.
Qed.

(* ---- single version ----------------------------------------------------------------------------- *)
Theorem merge_single name p v : get_parser name = Ok (Some p) -> ukeys v ->
  merge_channels name [v] = Ok (serialize_legacy v).
Proof.
  intros Hp Hu. rewrite (merge_channels_ok name p [v] (number 0 v) Hp).
  - rewrite number_text. reflexivity.
  - unfold merge_entries, merge_resources, merge_dicts. cbn.
    rewrite parse_resource_values by (apply number_uniq; exact Hu). reflexivity.
Qed.

(* ---- unsupported names ---------------------------------------------------------------------------- *)
Lemma get_parser_from_total tbl name : exists o, get_parser_from tbl name = Ok o.
Proof.
  induction tbl as [|[r c] tbl IH]; cbn [get_parser_from]; [eauto|].
  destruct (rsearch r name 0) eqn:E; [exact IH|eauto|].
  exfalso. revert E. apply rsearch_no_fuel.
Qed.

Theorem get_parser_total name : exists o, get_parser name = Ok o.
Proof. apply get_parser_from_total. Qed.

Theorem merge_unsupported name vs : get_parser name = Ok None ->
  merge_channels name vs = Raise NotSupported.
Proof. unfold merge_channels. intros ->. reflexivity. Qed.
