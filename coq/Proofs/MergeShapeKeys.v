(* Shape of the AddRemove order (C20 specification [spec_keys]) on key lists in which
   every key that is no whitespace key is directly followed by a whitespace key:
   the shape survives the merge order.  Generic in the key type. *)
From Coq Require Import List Bool Arith Lia.
From CL Require Import Base.Sx Base.Res Model.AddRemove Proofs.AddRemoveProofs Proofs.AddRemoveSpec.
Import ListNotations.
Local Open Scope nat_scope.

Section Shape.
Context {K : Type} (eqb : K -> K -> bool).
Hypothesis eqb_eq : forall a b, eqb a b = true <-> a = b.
(* isw k: a whitespace key; need k: the least length of the whitespace a non-whitespace key
   asks for after it; len k: the length of the whitespace under a whitespace key *)
Variables (isw : K -> bool) (need len : K -> nat).

Definition after (x : K) (t : list K) : Prop :=
  match t with w :: _ => isw w = true /\ need x <= len w | [] => False end.

Fixpoint nfk (l : list K) : Prop :=
  match l with
  | [] => True
  | x :: t => (isw x = false -> after x t) /\ nfk t
  end.

Lemma after_app x a b : after x a -> after x (a ++ b).
Proof. destruct a; cbn; [contradiction|auto]. Qed.

Lemma nfk_app a b : nfk a -> nfk b -> nfk (a ++ b).
Proof.
  induction a as [|x a IH]; cbn; intros Ha Hb; [exact Hb|].
  destruct Ha as [H1 H2]. split; [|apply IH; assumption].
  intros Hx. apply after_app. apply H1. exact Hx.
Qed.

Lemma nfk_suffix a b : nfk (a ++ b) -> nfk b.
Proof. induction a as [|x a IH]; cbn; [auto|]. intros [_ H]. apply IH. exact H. Qed.

Lemma nfk_split a c b : nfk (a ++ c :: b) -> isw c = false -> nfk a.
Proof.
  induction a as [|x a IH]; cbn; intros H Hc; [exact I|].
  destruct H as [H1 H2]. split; [|apply IH; assumption].
  intros Hx. specialize (H1 Hx). destruct a as [|y a']; cbn in *; [|exact H1].
  destruct H1 as [H1 _]. congruence.
Qed.

Lemma nfk_cons_ws w t : isw w = true -> nfk t -> nfk (w :: t).
Proof. intros Hw Ht. cbn. split; [intros H; congruence|exact Ht]. Qed.

(* two adjacent whitespace keys: dropping the second, or replacing the first by a longer one *)
Lemma nfk_drop_second a p e b : nfk (a ++ p :: e :: b) -> isw p = true -> isw e = true ->
  nfk (a ++ p :: b).
Proof.
  intros H Hp He. induction a as [|x a IH]; cbn in *.
  - destruct H as [_ [_ H]]. split; [intros E; congruence|exact H].
  - destruct H as [H1 H2]. split; [|apply IH; exact H2].
    intros Hx. specialize (H1 Hx). destruct a as [|y a']; cbn in *; exact H1.
Qed.

Lemma nfk_replace_first a p e b : nfk (a ++ p :: e :: b) -> isw p = true -> isw e = true ->
  len p <= len e -> nfk (a ++ e :: b).
Proof.
  intros H Hp He Hl. induction a as [|x a IH]; cbn in *.
  - destruct H as [_ H]. exact H.
  - destruct H as [H1 H2]. split; [|apply IH; exact H2].
    intros Hx. specialize (H1 Hx). destruct a as [|y a']; cbn in *; [|exact H1].
    destruct H1 as [_ H1]. split; [exact He|lia].
Qed.

(* removing keys that are no whitespace keys *)
Lemma nfk_filter (keep : K -> bool) l : (forall x, keep x = false -> isw x = false) ->
  nfk l -> nfk (filter keep l).
Proof.
  intros Hk. induction l as [|x l IH]; cbn; [auto|]. intros [H1 H2]. specialize (IH H2).
  destruct (keep x) eqn:E; [|exact IH]. cbn. split; [|exact IH].
  intros Hx. specialize (H1 Hx). destruct l as [|w l']; [contradiction|]. destruct H1 as [Hw Hn].
  cbn. destruct (keep w) eqn:Ew; [cbn; auto|]. apply Hk in Ew. congruence.
Qed.

(* ---- the runs of r ----------------------------------------------------------------------- *)
Notation mem := (AddRemove.mem eqb).
Definition flat (gs : list (K * list K)) : list K := concat (map (fun g => fst g :: snd g) gs).

Lemma runs_flat l r :
  r = fst (runs eqb l r) ++ flat (snd (runs eqb l r)) /\
  Forall (fun g => mem (fst g) l = true) (snd (runs eqb l r)).
Proof.
  induction r as [|y r IH]; cbn; [split; [reflexivity|constructor]|].
  destruct (runs eqb l r) as [pre gs]. cbn in IH. destruct IH as [IH1 IH2].
  destruct (mem y l) eqn:E; cbn.
  - split; [unfold flat; cbn; f_equal; exact IH1|constructor; [exact E|exact IH2]].
  - split; [f_equal; exact IH1|exact IH2].
Qed.

Lemma flat_groups gs : nfk (flat gs) -> Forall (fun g => isw (fst g) = false) gs ->
  Forall (fun g => nfk (snd g) /\ after (fst g) (snd g)) gs.
Proof.
  induction gs as [|[c run] gs IH]; intros H Hh; [constructor|].
  inversion Hh as [|? ? Hc Hh']; subst. cbn in Hc. unfold flat in H. cbn [map concat] in H.
  fold (flat gs) in H. cbn [fst snd app] in H.
  destruct H as [H1 H2]. specialize (H1 Hc).
  assert (Hrun : nfk run /\ after c run /\ nfk (flat gs)).
  { destruct gs as [|[c2 run2] gs'].
    - unfold flat in *. cbn in *. rewrite app_nil_r in *. auto.
    - inversion Hh' as [|? ? Hc2 _]; subst. cbn in Hc2.
      unfold flat in H1, H2 |- *. cbn [map concat fst snd] in H1, H2 |- *.
      cbn [app] in H1, H2. split; [eapply nfk_split; [exact H2|exact Hc2]|].
      split; [|eapply nfk_suffix; exact H2].
      destruct run as [|w run']; [|exact H1]. cbn in H1. destruct H1 as [H1 _]. congruence. }
  destruct Hrun as (R1 & R2 & R3). constructor; [split; assumption|].
  apply IH; assumption.
Qed.

Lemma followers_prop (Q : K -> list K -> Prop) x gs :
  Forall (fun g => Q (fst g) (snd g)) gs -> followers eqb x gs = [] \/ Q x (followers eqb x gs).
Proof.
  induction 1 as [|[a ys] gs Ha _ IH]; cbn; [left; reflexivity|].
  destruct (eqb x a) eqn:E; [|exact IH]. apply eqb_eq in E. subst. right. exact Ha.
Qed.

Lemma flat_map_nfk gs l : nfk l ->
  (forall x, isw x = true -> followers eqb x gs = []) ->
  (forall x, followers eqb x gs = [] \/ (nfk (followers eqb x gs) /\ after x (followers eqb x gs))) ->
  nfk (flat_map (fun x => x :: followers eqb x gs) l).
Proof.
  intros Hl Hw Hf. induction l as [|x l IH]; [exact I|].
  cbn [flat_map]. destruct Hl as [H1 H2]. specialize (IH H2).
  destruct (isw x) eqn:Ex.
  - rewrite (Hw x Ex). cbn [app]. apply nfk_cons_ws; assumption.
  - specialize (H1 eq_refl). destruct l as [|w l']; [contradiction|]. destruct H1 as [Hww Hlen].
    cbn [flat_map] in IH |- *. rewrite (Hw w Hww) in IH |- *. cbn [app] in IH |- *.
    destruct (Hf x) as [E|[F1 F2]].
    + rewrite E. cbn [app]. split; [intros _; cbn; auto|exact IH].
    + cbn. split; [intros _; apply after_app; exact F2|]. apply nfk_app; assumption.
Qed.

(* the merge order keeps the shape *)
Theorem spec_keys_nfk l r : nfk l -> nfk r ->
  (forall k, In k l -> In k r -> isw k = false) ->
  nfk (spec_keys eqb l r).
Proof.
  intros Hl Hr Hc. unfold spec_keys.
  pose proof (runs_flat l r) as [Hflat Hheads].
  pose proof (followers_notin eqb eqb_eq l r) as Hfn.
  destruct (runs eqb l r) as [pre gs] eqn:Er. cbn [fst snd] in *.
  assert (Hgs_in : forall g, In g gs -> In (fst g) r).
  { intros g Hg. rewrite Hflat. apply in_or_app. right. unfold flat. apply in_concat.
    exists (fst g :: snd g). split; [apply in_map_iff; exists g; auto|left; reflexivity]. }
  assert (Hhw : Forall (fun g => isw (fst g) = false) gs).
  { rewrite Forall_forall in Hheads |- *. intros g Hg. apply Hc; [|apply Hgs_in; exact Hg].
    apply (mem_In eqb eqb_eq). apply Hheads. exact Hg. }
  assert (Hpre : nfk pre /\ nfk (flat gs)).
  { rewrite Hflat in Hr. split; [|eapply nfk_suffix; exact Hr].
    destruct gs as [|[c run] gs']; [unfold flat in Hr; cbn in Hr; rewrite app_nil_r in Hr; exact Hr|].
    inversion Hhw as [|? ? Hc1 _]; subst. unfold flat in Hr. cbn in Hr. eapply nfk_split; [exact Hr|exact Hc1]. }
  destruct Hpre as [Hpre Hfl].
  pose proof (flat_groups gs Hfl Hhw) as Hg.
  apply nfk_app; [exact Hpre|]. apply flat_map_nfk; [exact Hl| |].
  - intros x Hx. destruct (AddRemove.mem eqb x r) eqn:Em;
      [apply (mem_In eqb eqb_eq) in Em; rename Em into Hin
      |apply (mem_nIn eqb eqb_eq) in Em; rename Em into Hn].
    + (* a whitespace key of r is no key of l, hence heads no group *)
      destruct (followers_prop (fun a _ => isw a = false) x gs) as [E|E]; [|exact E|].
      * rewrite Forall_forall in Hhw |- *. exact Hhw.
      * congruence.
    + apply Hfn. exact Hn.
  - intros x. apply (followers_prop (fun a ys => nfk ys /\ after a ys)). exact Hg.
Qed.
End Shape.

Lemma nfk_ext {K} (isw isw' : K -> bool) (need need' len len' : K -> nat) l :
  (forall k, In k l -> isw k = isw' k /\ (isw k = false -> need k = need' k) /\
                       (isw k = true -> len k = len' k)) ->
  nfk isw need len l -> nfk isw' need' len' l.
Proof.
  induction l as [|x l IH]; cbn; [auto|]. intros He [H1 H2].
  split; [|apply IH; [intros k Hk; apply He; right; exact Hk|exact H2]].
  destruct (He x (or_introl eq_refl)) as (E1 & E2 & _). intros Hx. rewrite <- E1 in Hx.
  specialize (H1 Hx). destruct l as [|w l']; [contradiction|]. cbn in *.
  destruct (He w (or_intror (or_introl eq_refl))) as (W1 & _ & W3).
  destruct H1 as [Hw Hn]. split; [rewrite <- W1; exact Hw|]. rewrite <- (E2 Hx), <- (W3 Hw). exact Hn.
Qed.

Lemma nfk_map {K V} (f : K -> V) (isw : V -> bool) (need len : V -> nat) l :
  nfk isw need len (map f l) <->
  nfk (fun k => isw (f k)) (fun k => need (f k)) (fun k => len (f k)) l.
Proof.
  induction l as [|x l IH]; cbn; [tauto|]. rewrite IH.
  destruct l as [|w l']; cbn; tauto.
Qed.
