(* The printed cells as a function of the event history: composition of
   Proofs/SummariesProofs.v (columns_counts) with the run theorems of
   Proofs/C10Final.v (summary_counts, list_run). *)
From Coq Require Import ZArith NArith List Bool Arith.
From CL Require Import Base.Sx Base.Res Base.Str Model.Tree Model.Observer Model.Summaries
  Generated.ObserverFacts Proofs.ObserverProofs Proofs.ObserverList Proofs.C10Final
  Proofs.SummariesProofs.
Import ListNotations.

Lemma Forall_filter_keep : forall (A : Type) (P : A -> Prop) (f : A -> bool) (l : list A),
  Forall P l -> Forall P (filter f l).
Proof.
  intros A P f l H. induction H as [|x l Hx Hl IH]; cbn [filter]; [constructor|].
  destruct (f x); [constructor; assumption|exact IH].
Qed.

Lemma summaries_cells_history : forall q confs h loc k, Forall ev_ok h ->
  map (Summaries.cget k) (columns (fst (lrun q (init_list confs) h)) loc) =
    map (fun cf => hist_count (c_filter cf) h loc k) confs
    ++ (if Nat.ltb 1 (length confs)
        then [hist_count None (filter (ev_reaches confs) h) loc k] else []).
Proof.
  intros q confs h loc k H. rewrite columns_counts.
  pose proof (list_run q confs h H) as L. cbv zeta in L. destruct L as [Hown Hobs].
  rewrite Hobs, Hown. rewrite map_map, map_length. f_equal.
  - apply map_ext. intros cf. cbn [snd].
    destruct (summary_counts (c_quiet cf) (c_filter cf) h loc k H) as [E _]. exact E.
  - destruct (Nat.ltb 1 (length confs)); [|reflexivity]. f_equal.
    destruct (summary_counts q None (filter (ev_reaches confs) h) loc k
                (Forall_filter_keep _ _ _ _ H)) as [E _]. exact E.
Qed.
