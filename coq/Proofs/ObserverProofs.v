(* Proofs about Model/Observer.v, part 1: counters, one notify / updateStats
   step of an Observer, and what a whole history does to summary, error flag
   and details. *)
From Coq Require Import ZArith NArith List Bool Arith Lia.
From CL Require Import Base.Sx Base.Res Base.Str Model.Tree Model.Observer
  Generated.ObserverFacts Proofs.TreeProofs.
Import ListNotations.

Local Open Scope nat_scope.
Local Arguments Nat.leb : simpl never.
Local Arguments Nat.ltb : simpl never.
Local Arguments Nat.eqb : simpl never.

(* ---- strings --------------------------------------------------------------- *)
Lemma seqb_eq : forall a b : str, str_eqb a b = true <-> a = b.
Proof.
  unfold str_eqb. induction a as [|x a IH]; destruct b as [|y b]; split; intro H;
    try reflexivity; try discriminate.
  - apply andb_true_iff in H as [H1 H2]. apply N.eqb_eq in H1. apply IH in H2. congruence.
  - inversion H; subst. rewrite N.eqb_refl. apply IH. reflexivity.
Qed.

Lemma seqb_refl : forall a, str_eqb a a = true.
Proof. intro a. apply seqb_eq. reflexivity. Qed.

Lemma seqb_neq : forall a b : str, str_eqb a b = false <-> a <> b.
Proof.
  intros a b. split; intro H.
  - intro E. apply seqb_eq in E. congruence.
  - destruct (str_eqb a b) eqn:E; [apply seqb_eq in E; contradiction | reflexivity].
Qed.

(* ---- counters --------------------------------------------------------------- *)
Fixpoint cget (k : str) (c : counters) : nat :=
  match c with
  | [] => 0
  | (k', v) :: c' => if str_eqb k k' then v else cget k c'
  end.

Fixpoint sget (loc : N) (s : summary_t) : option counters :=
  match s with
  | [] => None
  | (l, c) :: s' => if N.eqb loc l then Some c else sget loc s'
  end.

(* the number the summary shows for a locale and a key (0 when the locale has
   no entry yet) *)
Definition count_of (s : summary_t) (loc : N) (k : str) : nat :=
  match sget loc s with Some c => cget k c | None => 0 end.

(* over all locales *)
Fixpoint total (s : summary_t) (k : str) : nat :=
  match s with
  | [] => 0
  | (_, c) :: s' => cget k c + total s' k
  end.

Definition cwf (c : counters) : Prop := map fst c = summary_keys.
Definition swf (s : summary_t) : Prop := Forall (fun lc => cwf (snd lc)) s.

Lemma cincr_some : forall k n c, In k (map fst c) ->
  exists c', cincr k n c = Some c' /\ map fst c' = map fst c /\
             forall k', cget k' c' = cget k' c + (if str_eqb k' k then n else 0).
Proof.
  induction c as [|[k0 v0] c IH]; intro Hin; [destruct Hin|]. simpl.
  destruct (str_eqb k k0) eqn:E.
  - apply seqb_eq in E. subst k0. eexists. split; [reflexivity|]. split; [reflexivity|].
    intro k'. simpl. destruct (str_eqb k' k); lia.
  - destruct Hin as [Hin | Hin]; [simpl in Hin; subst; rewrite seqb_refl in E; discriminate|].
    destruct (IH Hin) as (c' & Hc & Hm & Hg). rewrite Hc. eexists. split; [reflexivity|].
    split; [simpl; congruence|]. intro k'. simpl.
    destruct (str_eqb k' k0) eqn:E'; [|apply Hg].
    apply seqb_eq in E'. subst k'. apply seqb_neq in E.
    assert (E2 : str_eqb k0 k = false) by (apply seqb_neq; congruence). rewrite E2. lia.
Qed.

Lemma cincr_none : forall k n c, ~ In k (map fst c) -> cincr k n c = None.
Proof.
  induction c as [|[k0 v0] c IH]; intro Hn; [reflexivity|]. simpl.
  destruct (str_eqb k k0) eqn:E.
  - apply seqb_eq in E. subst. exfalso. apply Hn. left. reflexivity.
  - rewrite IH; [reflexivity|]. intro H. apply Hn. right. exact H.
Qed.

Lemma map_fst_zero : forall l : list str, map fst (map (fun k => (k, 0)) l) = l.
Proof. induction l as [|k l IH]; simpl; [reflexivity | rewrite IH; reflexivity]. Qed.

Lemma fresh_wf : cwf fresh_counters.
Proof. apply map_fst_zero. Qed.

Lemma cget_fresh : forall k, cget k fresh_counters = 0.
Proof.
  intro k. unfold fresh_counters. generalize summary_keys. induction l as [|k0 l IH]; [reflexivity|].
  simpl. destruct (str_eqb k k0); [reflexivity | exact IH].
Qed.

(* self.summary[loc][k] += n for a key of the counter dict *)
Lemma sum_add_ok : forall loc k n s, swf s -> In k summary_keys ->
  exists s', sum_add loc k n s = (s', true) /\ swf s' /\
    (forall loc' k', count_of s' loc' k' =
       count_of s loc' k' + (if N.eqb loc' loc && str_eqb k' k then n else 0)) /\
    (forall k', total s' k' = total s k' + (if str_eqb k' k then n else 0)).
Proof.
  intros loc k n s Hwf Hk. induction s as [|[l c] s IH].
  - cbn [sum_add]. destruct (cincr_some k n fresh_counters) as (c' & Hc & Hm & Hg).
    { rewrite fresh_wf. exact Hk. }
    rewrite Hc. eexists. split; [reflexivity|]. split; [|split].
    + constructor; [|constructor]. unfold cwf. simpl. rewrite Hm. apply fresh_wf.
    + intros loc' k'. unfold count_of. simpl. destruct (N.eqb loc' loc); simpl; [|reflexivity].
      rewrite Hg, cget_fresh. reflexivity.
    + intro k'. simpl. rewrite Hg, cget_fresh. lia.
  - pose proof (Forall_inv Hwf) as Hc0. pose proof (Forall_inv_tail Hwf) as Hwf'. simpl in Hc0.
    simpl. destruct (N.eqb loc l) eqn:El.
    + apply N.eqb_eq in El. subst l.
      destruct (cincr_some k n c) as (c' & Hc & Hm & Hg). { rewrite Hc0. exact Hk. }
      rewrite Hc. eexists. split; [reflexivity|]. split; [|split].
      * constructor; [|exact Hwf']. unfold cwf. simpl. congruence.
      * intros loc' k'. unfold count_of. simpl. destruct (N.eqb loc' loc); simpl; [apply Hg | lia].
      * intro k'. simpl. rewrite Hg. lia.
    + destruct (IH Hwf') as (s' & Hs & Hwf1 & Hcnt & Htot). rewrite Hs.
      eexists. split; [reflexivity|]. split; [|split].
      * constructor; assumption.
      * intros loc' k'. unfold count_of. simpl. destruct (N.eqb loc' l) eqn:El'.
        -- apply N.eqb_eq in El'. subst loc'. rewrite N.eqb_sym, El. simpl. lia.
        -- apply Hcnt.
      * intro k'. simpl. rewrite Htot. lia.
Qed.

(* ---- one step of an Observer -------------------------------------------------- *)
Definition ost_ok (st : ostate) : Prop := swf (o_summary st) /\ keys_ok (o_details st).

Lemma init_ok : ost_ok init_state.
Proof. split; [constructor | exact I]. Qed.

(* what the observer's filter says about an event (the return value of notify) *)
Definition overdict (flt : option filter_t) (c : category) (f : file) (d : data) : verdict :=
  match flt with
  | None => VError
  | Some g => g f (if is_file_cat c then DNone else d)
  end.

Definition is_msg (c : category) : bool :=
  match c with CError | CWarning => true | _ => false end.

(* the dict appended for a displayed event *)
Definition item_of (c : category) (v : verdict) (d : data) : item :=
  match c with
  | MissingFile => IFile true v
  | ObsoleteFile => IFile false v
  | MissingEntity => IEntity true d
  | ObsoleteEntity => IEntity false d
  | CError => IMsg true d
  | _ => IMsg false d
  end.

(* does the event leave a detail *)
Definition detailed (q : nat) (flt : option filter_t) (c : category) (f : file) (d : data) : bool :=
  negb (is_ignore (overdict flt c f d)) && shown q c.

(* does it count in the summary *)
Definition counted (flt : option filter_t) (c : category) (f : file) (d : data) : bool :=
  negb (is_ignore (overdict flt c f d)) && is_msg c.

Definition msg_key (c : category) : str := cat_name c ++ summary_suffix.

Lemma msg_keys_in : In (msg_key CError) summary_keys /\ In (msg_key CWarning) summary_keys.
Proof. split; vm_compute; tauto. Qed.

Lemma is_ignore_VError : is_ignore VError = false.
Proof. reflexivity. Qed.

(* the details after self.details[file].append(it) *)
Definition ins (t : tree item) (f : file) (it : item) : tree item :=
  match tree_getitem t (file_parts f) [it] with Ok t' => t' | Raise _ => t end.

Lemma add_detail_ok : forall st f it, ost_ok st -> file_parts f <> [] ->
  add_detail st f it = Ok (with_details st (ins (o_details st) f it)) /\
  ost_ok (with_details st (ins (o_details st) f it)).
Proof.
  intros st f it [Hs Hk] Hp. unfold add_detail, ins.
  destruct (tree_getitem_ok (o_details st) (file_parts f) [it] Hp Hk) as (t' & Ht & Hk').
  rewrite Ht. simpl. split; [reflexivity | split; assumption].
Qed.

(* notify, as a function of the state: never raises, returns the filter's verdict *)
Definition notify_state (q : nat) (flt : option filter_t) (st : ostate)
           (c : category) (f : file) (d : data) : ostate :=
  let st1 := if counted flt c f d && (match c with CError => true | _ => false end)
             then set_error st else st in
  let st2 := if detailed q flt c f d
             then with_details st1 (ins (o_details st1) f (item_of c (overdict flt c f d) d))
             else st1 in
  if counted flt c f d
  then with_summary st2 (fst (sum_add (f_locale f) (msg_key c) 1 (o_summary st2)))
  else st2.

Lemma ost_ok_set_error : forall st, ost_ok st -> ost_ok (set_error st).
Proof. intros st [A B]. split; assumption. Qed.

Lemma ost_ok_ins : forall st f it, ost_ok st -> file_parts f <> [] ->
  ost_ok (with_details st (ins (o_details st) f it)).
Proof. intros. apply add_detail_ok; assumption. Qed.

Lemma ost_ok_sum : forall st loc k n, ost_ok st -> In k summary_keys ->
  ost_ok (with_summary st (fst (sum_add loc k n (o_summary st)))).
Proof.
  intros st loc k n [Hs Hk] Hin.
  destruct (sum_add_ok loc k n (o_summary st) Hs Hin) as (s' & E & Hwf & _).
  rewrite E. split; assumption.
Qed.

Lemma sum_add_fst : forall st loc k n, ost_ok st -> In k summary_keys ->
  sum_add loc k n (o_summary st) = (fst (sum_add loc k n (o_summary st)), true).
Proof.
  intros st loc k n [Hs _] Hin.
  destruct (sum_add_ok loc k n (o_summary st) Hs Hin) as (s' & E & _). rewrite E. reflexivity.
Qed.

Lemma notify_state_ok : forall q flt st c f d, ost_ok st -> file_parts f <> [] ->
  ost_ok (notify_state q flt st c f d).
Proof.
  intros q flt st c f d Hok Hp. unfold notify_state.
  set (st1 := if counted flt c f d && _ then set_error st else st).
  assert (H1 : ost_ok st1) by (unfold st1; destruct (counted flt c f d && _); [apply ost_ok_set_error|]; exact Hok).
  set (st2 := if detailed q flt c f d then _ else st1).
  assert (H2 : ost_ok st2) by (unfold st2; destruct (detailed q flt c f d); [apply ost_ok_ins|]; assumption).
  destruct (counted flt c f d) eqn:Ec; [|exact H2].
  apply ost_ok_sum; [exact H2|]. unfold counted in Ec. apply andb_true_iff in Ec as [_ Ec].
  destruct c; try discriminate; apply msg_keys_in.
Qed.

Lemma notify_eq : forall q flt st c f d, ost_ok st -> file_parts f <> [] ->
  notify q flt st c f d = (notify_state q flt st c f d, Ok (overdict flt c f d)).
Proof.
  intros q flt st c f d Hok Hp.
  pose proof (ost_ok_set_error st Hok) as Hok1.
  pose proof msg_keys_in as [Hke Hkw].
  unfold notify, notify_state, counted, detailed, overdict, shown, msg_key in *.
  destruct c; cbn [is_file_cat is_msg item_of cat_name];
    destruct flt as [g|]; cbn [is_ignore verdict_eqb];
    try (destruct (is_ignore (g f DNone)) eqn:Ei);
    try (destruct (is_ignore (g f d)) eqn:Ei);
    cbn [negb andb orb];
    repeat match goal with
           | |- context [?a <=? ?b] => destruct (a <=? b) eqn:?
           | |- context [?a <? ?b] => destruct (a <? b) eqn:?
           | |- context [?a =? ?b] => destruct (a =? b) eqn:?
           end;
    cbn [negb andb orb];
    repeat match goal with
           | |- context [add_detail ?s f ?it] =>
               rewrite (proj1 (add_detail_ok s f it ltac:(assumption) Hp))
           end;
    try reflexivity.
  all: repeat match goal with
           | |- context [sum_add ?l ?k ?n (o_summary ?s)] =>
               rewrite (sum_add_fst s l k n) by
                 (try assumption; try (apply ost_ok_ins; assumption))
           end; try reflexivity.
Qed.

