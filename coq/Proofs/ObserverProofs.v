(* Proofs about Model/Observer.v, part 1: counters, one notify / updateStats
   step of an Observer, and what a whole history does to summary, error flag
   and details. *)
From Coq Require Import ZArith NArith List Bool Arith Lia.
From CL Require Import Base.Sx Base.Res Base.Str Model.Tree Model.Observer
  Generated.ObserverFacts Proofs.TreeProofs.
Import ListNotations.

Local Open Scope nat_scope.
Local Arguments Nat.leb : simpl never.
Local Arguments Nat.ltb : simpl never.
Local Arguments Nat.eqb : simpl never.

(* ---- strings --------------------------------------------------------------- *)
Lemma seqb_eq : forall a b : str, str_eqb a b = true <-> a = b.
Proof.
  unfold str_eqb. induction a as [|x a IH]; destruct b as [|y b]; split; intro H;
    try reflexivity; try discriminate.
  - apply andb_true_iff in H as [H1 H2]. apply N.eqb_eq in H1. apply IH in H2. congruence.
  - inversion H; subst. rewrite N.eqb_refl. apply IH. reflexivity.
Qed.

Lemma seqb_refl : forall a, str_eqb a a = true.
Proof. intro a. apply seqb_eq. reflexivity. Qed.

Lemma seqb_neq : forall a b : str, str_eqb a b = false <-> a <> b.
Proof.
  intros a b. split; intro H.
  - intro E. apply seqb_eq in E. congruence.
  - destruct (str_eqb a b) eqn:E; [apply seqb_eq in E; contradiction | reflexivity].
Qed.

(* ---- counters --------------------------------------------------------------- *)
Fixpoint cget (k : str) (c : counters) : nat :=
  match c with
  | [] => 0
  | (k', v) :: c' => if str_eqb k k' then v else cget k c'
  end.

Fixpoint sget (loc : N) (s : summary_t) : option counters :=
  match s with
  | [] => None
  | (l, c) :: s' => if N.eqb loc l then Some c else sget loc s'
  end.

(* the number the summary shows for a locale and a key (0 when the locale has
   no entry yet) *)
Definition count_of (s : summary_t) (loc : N) (k : str) : nat :=
  match sget loc s with Some c => cget k c | None => 0 end.

(* over all locales *)
Fixpoint total (s : summary_t) (k : str) : nat :=
  match s with
  | [] => 0
  | (_, c) :: s' => cget k c + total s' k
  end.

Definition cwf (c : counters) : Prop := map fst c = summary_keys.
Definition swf (s : summary_t) : Prop := Forall (fun lc => cwf (snd lc)) s.

Lemma cincr_some : forall k n c, In k (map fst c) ->
  exists c', cincr k n c = Some c' /\ map fst c' = map fst c /\
             forall k', cget k' c' = cget k' c + (if str_eqb k' k then n else 0).
Proof.
  induction c as [|[k0 v0] c IH]; intro Hin; [destruct Hin|]. simpl.
  destruct (str_eqb k k0) eqn:E.
  - apply seqb_eq in E. subst k0. eexists. split; [reflexivity|]. split; [reflexivity|].
    intro k'. simpl. destruct (str_eqb k' k); lia.
  - destruct Hin as [Hin | Hin]; [simpl in Hin; subst; rewrite seqb_refl in E; discriminate|].
    destruct (IH Hin) as (c' & Hc & Hm & Hg). rewrite Hc. eexists. split; [reflexivity|].
    split; [simpl; congruence|]. intro k'. simpl.
    destruct (str_eqb k' k0) eqn:E'; [|apply Hg].
    apply seqb_eq in E'. subst k'. apply seqb_neq in E.
    assert (E2 : str_eqb k0 k = false) by (apply seqb_neq; congruence). rewrite E2. lia.
Qed.

Lemma cincr_none : forall k n c, ~ In k (map fst c) -> cincr k n c = None.
Proof.
  induction c as [|[k0 v0] c IH]; intro Hn; [reflexivity|]. simpl.
  destruct (str_eqb k k0) eqn:E.
  - apply seqb_eq in E. subst. exfalso. apply Hn. left. reflexivity.
  - rewrite IH; [reflexivity|]. intro H. apply Hn. right. exact H.
Qed.

Lemma map_fst_zero : forall l : list str, map fst (map (fun k => (k, 0)) l) = l.
Proof. induction l as [|k l IH]; simpl; [reflexivity | rewrite IH; reflexivity]. Qed.

Lemma fresh_wf : cwf fresh_counters.
Proof. apply map_fst_zero. Qed.

Lemma cget_fresh : forall k, cget k fresh_counters = 0.
Proof.
  intro k. unfold fresh_counters. generalize summary_keys. induction l as [|k0 l IH]; [reflexivity|].
  simpl. destruct (str_eqb k k0); [reflexivity | exact IH].
Qed.

(* self.summary[loc][k] += n for a key of the counter dict *)
Lemma sum_add_ok : forall loc k n s, swf s -> In k summary_keys ->
  exists s', sum_add loc k n s = (s', true) /\ swf s' /\
    (forall loc' k', count_of s' loc' k' =
       count_of s loc' k' + (if N.eqb loc' loc && str_eqb k' k then n else 0)) /\
    (forall k', total s' k' = total s k' + (if str_eqb k' k then n else 0)).
Proof.
  intros loc k n s Hwf Hk. induction s as [|[l c] s IH].
  - cbn [sum_add]. destruct (cincr_some k n fresh_counters) as (c' & Hc & Hm & Hg).
    { rewrite fresh_wf. exact Hk. }
    rewrite Hc. eexists. split; [reflexivity|]. split; [|split].
    + constructor; [|constructor]. unfold cwf. simpl. rewrite Hm. apply fresh_wf.
    + intros loc' k'. unfold count_of. simpl. destruct (N.eqb loc' loc); simpl; [|reflexivity].
      rewrite Hg, cget_fresh. reflexivity.
    + intro k'. simpl. rewrite Hg, cget_fresh. lia.
  - pose proof (Forall_inv Hwf) as Hc0. pose proof (Forall_inv_tail Hwf) as Hwf'. simpl in Hc0.
    simpl. destruct (N.eqb loc l) eqn:El.
    + apply N.eqb_eq in El. subst l.
      destruct (cincr_some k n c) as (c' & Hc & Hm & Hg). { rewrite Hc0. exact Hk. }
      rewrite Hc. eexists. split; [reflexivity|]. split; [|split].
      * constructor; [|exact Hwf']. unfold cwf. simpl. congruence.
      * intros loc' k'. unfold count_of. simpl. destruct (N.eqb loc' loc); simpl; [apply Hg | lia].
      * intro k'. simpl. rewrite Hg. lia.
    + destruct (IH Hwf') as (s' & Hs & Hwf1 & Hcnt & Htot). rewrite Hs.
      eexists. split; [reflexivity|]. split; [|split].
      * constructor; assumption.
      * intros loc' k'. unfold count_of. simpl. destruct (N.eqb loc' l) eqn:El'.
        -- apply N.eqb_eq in El'. subst loc'. rewrite N.eqb_sym, El. simpl. lia.
        -- apply Hcnt.
      * intro k'. simpl. rewrite Htot. lia.
Qed.

(* ---- one step of an Observer -------------------------------------------------- *)
Definition ost_ok (st : ostate) : Prop := swf (o_summary st) /\ keys_ok (o_details st).

Lemma init_ok : ost_ok init_state.
Proof. split; [constructor | exact I]. Qed.

(* what the observer's filter says about an event (the return value of notify) *)
Definition overdict (flt : option filter_t) (c : category) (f : file) (d : data) : verdict :=
  match flt with
  | None => VError
  | Some g => g f (if is_file_cat c then DNone else d)
  end.

Definition is_msg (c : category) : bool :=
  match c with CError | CWarning => true | _ => false end.

(* the dict appended for a displayed event *)
Definition item_of (c : category) (v : verdict) (d : data) : item :=
  match c with
  | MissingFile => IFile true v
  | ObsoleteFile => IFile false v
  | MissingEntity => IEntity true d
  | ObsoleteEntity => IEntity false d
  | CError => IMsg true d
  | _ => IMsg false d
  end.

(* does the event leave a detail *)
Definition detailed (q : nat) (flt : option filter_t) (c : category) (f : file) (d : data) : bool :=
  negb (is_ignore (overdict flt c f d)) && shown q c.

(* does it count in the summary *)
Definition counted (flt : option filter_t) (c : category) (f : file) (d : data) : bool :=
  negb (is_ignore (overdict flt c f d)) && is_msg c.

Definition msg_key (c : category) : str := cat_name c ++ summary_suffix.

Lemma msg_keys_in : In (msg_key CError) summary_keys /\ In (msg_key CWarning) summary_keys.
Proof. split; vm_compute; tauto. Qed.

Lemma is_ignore_VError : is_ignore VError = false.
Proof. reflexivity. Qed.

(* the details after self.details[file].append(it) *)
Definition ins (t : tree item) (f : file) (it : item) : tree item :=
  match tree_getitem t (file_parts f) [it] with Ok t' => t' | Raise _ => t end.

Lemma add_detail_ok : forall st f it, ost_ok st -> file_parts f <> [] ->
  add_detail st f it = Ok (with_details st (ins (o_details st) f it)) /\
  ost_ok (with_details st (ins (o_details st) f it)).
Proof.
  intros st f it [Hs Hk] Hp. unfold add_detail, ins.
  destruct (tree_getitem_ok (o_details st) (file_parts f) [it] Hp Hk) as (t' & Ht & Hk').
  rewrite Ht. simpl. split; [reflexivity | split; assumption].
Qed.

(* notify, as a function of the state: never raises, returns the filter's verdict *)
Definition notify_state (q : nat) (flt : option filter_t) (st : ostate)
           (c : category) (f : file) (d : data) : ostate :=
  let st1 := if counted flt c f d && (match c with CError => true | _ => false end)
             then set_error st else st in
  let st2 := if detailed q flt c f d
             then with_details st1 (ins (o_details st1) f (item_of c (overdict flt c f d) d))
             else st1 in
  if counted flt c f d
  then with_summary st2 (fst (sum_add (f_locale f) (msg_key c) 1 (o_summary st2)))
  else st2.

Lemma ost_ok_set_error : forall st, ost_ok st -> ost_ok (set_error st).
Proof. intros st [A B]. split; assumption. Qed.

Lemma ost_ok_ins : forall st f it, ost_ok st -> file_parts f <> [] ->
  ost_ok (with_details st (ins (o_details st) f it)).
Proof. intros. apply add_detail_ok; assumption. Qed.

Lemma ost_ok_sum : forall st loc k n, ost_ok st -> In k summary_keys ->
  ost_ok (with_summary st (fst (sum_add loc k n (o_summary st)))).
Proof.
  intros st loc k n [Hs Hk] Hin.
  destruct (sum_add_ok loc k n (o_summary st) Hs Hin) as (s' & E & Hwf & _).
  rewrite E. split; assumption.
Qed.

Lemma sum_add_fst : forall st loc k n, ost_ok st -> In k summary_keys ->
  sum_add loc k n (o_summary st) = (fst (sum_add loc k n (o_summary st)), true).
Proof.
  intros st loc k n [Hs _] Hin.
  destruct (sum_add_ok loc k n (o_summary st) Hs Hin) as (s' & E & _). rewrite E. reflexivity.
Qed.

Lemma notify_state_ok : forall q flt st c f d, ost_ok st -> file_parts f <> [] ->
  ost_ok (notify_state q flt st c f d).
Proof.
  intros q flt st c f d Hok Hp. unfold notify_state.
  set (st1 := if counted flt c f d && _ then set_error st else st).
  assert (H1 : ost_ok st1) by (unfold st1; destruct (counted flt c f d && _); [apply ost_ok_set_error|]; exact Hok).
  set (st2 := if detailed q flt c f d then _ else st1).
  assert (H2 : ost_ok st2) by (unfold st2; destruct (detailed q flt c f d); [apply ost_ok_ins|]; assumption).
  destruct (counted flt c f d) eqn:Ec; [|exact H2].
  apply ost_ok_sum; [exact H2|]. unfold counted in Ec. apply andb_true_iff in Ec as [_ Ec].
  destruct c; try discriminate; apply msg_keys_in.
Qed.

Lemma notify_eq : forall q flt st c f d, ost_ok st -> file_parts f <> [] ->
  notify q flt st c f d = (notify_state q flt st c f d, Ok (overdict flt c f d)).
Proof.
  intros q flt st c f d Hok Hp.
  pose proof (ost_ok_set_error st Hok) as Hok1.
  pose proof msg_keys_in as [Hke Hkw].
  unfold notify, notify_state, counted, detailed, overdict, shown, msg_key in *.
  destruct c; cbn [is_file_cat is_msg item_of cat_name];
    (destruct flt as [g|];
     [ match goal with
       | |- context [g f DNone] => remember (g f DNone) as v eqn:Ev; clear Ev
       | |- context [g f d] => remember (g f d) as v eqn:Ev; clear Ev
       end;
       destruct (is_ignore v) eqn:Ei
     | change (is_ignore VError) with false ]);
    cbn [negb andb orb];
    repeat match goal with
           | |- context [?a <=? ?b] => destruct (a <=? b) eqn:?
           | |- context [?a <? ?b] => destruct (a <? b) eqn:?
           | |- context [?a =? ?b] => destruct (a =? b) eqn:?
           end;
    cbn [negb andb orb];
    repeat match goal with
           | |- context [add_detail ?s f ?it] =>
               rewrite (proj1 (add_detail_ok s f it ltac:(assumption) Hp))
           end;
    try reflexivity.
  all: match goal with
       | |- context [sum_add ?l ?k ?n (o_summary ?s)] =>
           rewrite (sum_add_fst s l k n) at 1 by
             (try assumption; try (apply ost_ok_ins; assumption))
       end.
  all: reflexivity.
Qed.

(* projections of one notify *)
Definition is_cerror (c : category) : bool := match c with CError => true | _ => false end.

Lemma notify_state_summary : forall q flt st c f d,
  o_summary (notify_state q flt st c f d) =
  if counted flt c f d then fst (sum_add (f_locale f) (msg_key c) 1 (o_summary st)) else o_summary st.
Proof.
  intros. unfold notify_state. fold (is_cerror c).
  destruct (counted flt c f d), (is_cerror c), (detailed q flt c f d); reflexivity.
Qed.

Lemma notify_state_error : forall q flt st c f d,
  o_error (notify_state q flt st c f d) = o_error st || (counted flt c f d && is_cerror c).
Proof.
  intros. unfold notify_state. fold (is_cerror c).
  destruct (counted flt c f d), (is_cerror c), (detailed q flt c f d); simpl;
    rewrite ?orb_true_r, ?orb_false_r; reflexivity.
Qed.

Lemma notify_state_details : forall q flt st c f d,
  o_details (notify_state q flt st c f d) =
  if detailed q flt c f d then ins (o_details st) f (item_of c (overdict flt c f d) d) else o_details st.
Proof.
  intros. unfold notify_state. fold (is_cerror c).
  destruct (counted flt c f d), (is_cerror c), (detailed q flt c f d); reflexivity.
Qed.

(* ---- updateStats ------------------------------------------------------------- *)
Definition stats_ok (stats : list (str * nat)) : Prop :=
  Forall (fun kv => In (fst kv) summary_keys) stats.

Fixpoint stats_state (st : ostate) (loc : N) (stats : list (str * nat)) : ostate :=
  match stats with
  | [] => st
  | (cat, v) :: r =>
      let st1 := if str_eqb cat stats_errors_key then set_error st else st in
      stats_state (with_summary st1 (fst (sum_add loc cat v (o_summary st1)))) loc r
  end.

Definition stats_ignored (flt : option filter_t) (f : file) : bool :=
  match flt with Some g => is_ignore (g f empty_entity) | None => false end.

Definition update_state (flt : option filter_t) (st : ostate) (f : file)
           (stats : list (str * nat)) : ostate :=
  if stats_ignored flt f then st else stats_state st (f_locale f) stats.

Lemma stats_loop_eq : forall stats st loc, ost_ok st -> stats_ok stats ->
  stats_loop st loc stats = (stats_state st loc stats, Ok tt) /\ ost_ok (stats_state st loc stats).
Proof.
  induction stats as [|[cat v] r IH]; intros st loc Hok Hs; [split; [reflexivity | exact Hok]|].
  pose proof (Forall_inv Hs) as Hc. pose proof (Forall_inv_tail Hs) as Hs'. simpl in Hc.
  cbn [stats_loop stats_state].
  set (st1 := if str_eqb cat stats_errors_key then set_error st else st).
  assert (H1 : ost_ok st1) by (unfold st1; destruct (str_eqb cat stats_errors_key); [apply ost_ok_set_error|]; exact Hok).
  rewrite (sum_add_fst st1 loc cat v H1 Hc).
  apply IH; [apply ost_ok_sum; assumption | exact Hs'].
Qed.

Lemma update_eq : forall flt st f stats, ost_ok st -> stats_ok stats ->
  update_stats flt st f stats = (update_state flt st f stats, Ok tt) /\
  ost_ok (update_state flt st f stats).
Proof.
  intros flt st f stats Hok Hs. unfold update_stats, update_state, stats_ignored.
  destruct flt as [g|]; [destruct (is_ignore (g f empty_entity)); [split; [reflexivity | exact Hok]|]|];
    apply stats_loop_eq; assumption.
Qed.

Lemma stats_state_details : forall stats st loc, o_details (stats_state st loc stats) = o_details st.
Proof.
  induction stats as [|[cat v] r IH]; intros; [reflexivity|]. cbn [stats_state]. rewrite IH.
  destruct (str_eqb cat stats_errors_key); reflexivity.
Qed.

(* ---- histories: the pure step --------------------------------------------- *)
Definition ev_ok (e : event) : Prop :=
  match e with
  | ENotify _ f _ => file_parts f <> []
  | EStats _ stats => stats_ok stats
  end.

Definition ostate_step (q : nat) (flt : option filter_t) (st : ostate) (e : event) : ostate :=
  match e with
  | ENotify c f d => notify_state q flt st c f d
  | EStats f stats => update_state flt st f stats
  end.

Definition ev_outcome (flt : option filter_t) (e : event) : outcome :=
  match e with
  | ENotify c f d => OVerdict (overdict flt c f d)
  | EStats _ _ => ONone
  end.

Lemma ostep_eq : forall q flt st e, ost_ok st -> ev_ok e ->
  ostep q flt st e = (ostate_step q flt st e, ev_outcome flt e) /\ ost_ok (ostate_step q flt st e).
Proof.
  intros q flt st [c f d | f stats] Hok He; simpl in *.
  - rewrite (notify_eq q flt st c f d Hok He). split; [reflexivity | apply notify_state_ok; assumption].
  - destruct (update_eq flt st f stats Hok He) as [E H]. rewrite E. split; [reflexivity | exact H].
Qed.

Fixpoint orun_pure (q : nat) (flt : option filter_t) (st : ostate) (h : list event) : ostate :=
  match h with
  | [] => st
  | e :: h' => orun_pure q flt (ostate_step q flt st e) h'
  end.

Lemma orun_eq : forall q flt h st, ost_ok st -> Forall ev_ok h ->
  orun q flt st h = orun_pure q flt st h /\ ost_ok (orun_pure q flt st h).
Proof.
  induction h as [|e h IH]; intros st Hok Hh; [split; [reflexivity | exact Hok]|].
  pose proof (Forall_inv Hh) as He. pose proof (Forall_inv_tail Hh) as Hh'.
  destruct (ostep_eq q flt st e Hok He) as [E H]. simpl. rewrite E. simpl. apply IH; assumption.
Qed.

(* ---- summary and error flag: a run that does not know the quiet level ------- *)
Definition se := (summary_t * bool)%type.
Definition proj (st : ostate) : se := (o_summary st, o_error st).

Fixpoint se_stats (x : se) (loc : N) (stats : list (str * nat)) : se :=
  match stats with
  | [] => x
  | (cat, v) :: r =>
      se_stats (fst (sum_add loc cat v (fst x)), snd x || str_eqb cat stats_errors_key) loc r
  end.

Definition se_step (flt : option filter_t) (x : se) (e : event) : se :=
  match e with
  | ENotify c f d =>
      (if counted flt c f d then fst (sum_add (f_locale f) (msg_key c) 1 (fst x)) else fst x,
       snd x || (counted flt c f d && is_cerror c))
  | EStats f stats => if stats_ignored flt f then x else se_stats x (f_locale f) stats
  end.

Definition se_run (flt : option filter_t) (x : se) (h : list event) : se := fold_left (se_step flt) h x.

Lemma proj_stats : forall stats st loc, proj (stats_state st loc stats) = se_stats (proj st) loc stats.
Proof.
  induction stats as [|[cat v] r IH]; intros; [reflexivity|]. cbn [stats_state se_stats]. rewrite IH.
  f_equal. unfold proj. destruct (str_eqb cat stats_errors_key); simpl; rewrite ?orb_true_r, ?orb_false_r; reflexivity.
Qed.

Lemma proj_step : forall q flt st e, proj (ostate_step q flt st e) = se_step flt (proj st) e.
Proof.
  intros q flt st [c f d | f stats]; simpl.
  - unfold proj. rewrite notify_state_summary, notify_state_error. reflexivity.
  - unfold update_state. destruct (stats_ignored flt f); [reflexivity | apply proj_stats].
Qed.

Lemma proj_run : forall q flt h st, proj (orun_pure q flt st h) = se_run flt (proj st) h.
Proof.
  induction h as [|e h IH]; intro st; [reflexivity|]. simpl. rewrite IH, proj_step. reflexivity.
Qed.

(* ---- the expected counts ------------------------------------------------------ *)
Fixpoint stats_sum (k : str) (stats : list (str * nat)) : nat :=
  match stats with
  | [] => 0
  | (cat, v) :: r => (if str_eqb k cat then v else 0) + stats_sum k r
  end.

(* what one event contributes to summary[loc][k] *)
Definition ev_count (flt : option filter_t) (e : event) (loc : N) (k : str) : nat :=
  match e with
  | ENotify c f d =>
      if counted flt c f d && N.eqb loc (f_locale f) && str_eqb k (msg_key c) then 1 else 0
  | EStats f stats =>
      if stats_ignored flt f then 0 else if N.eqb loc (f_locale f) then stats_sum k stats else 0
  end.

Fixpoint hist_count (flt : option filter_t) (h : list event) (loc : N) (k : str) : nat :=
  match h with
  | [] => 0
  | e :: h' => ev_count flt e loc k + hist_count flt h' loc k
  end.

(* ... and to the total over all locales *)
Definition ev_total (flt : option filter_t) (e : event) (k : str) : nat :=
  match e with
  | ENotify c f d => if counted flt c f d && str_eqb k (msg_key c) then 1 else 0
  | EStats f stats => if stats_ignored flt f then 0 else stats_sum k stats
  end.

Fixpoint hist_total (flt : option filter_t) (h : list event) (k : str) : nat :=
  match h with
  | [] => 0
  | e :: h' => ev_total flt e k + hist_total flt h' k
  end.

Definition se_ok (x : se) : Prop := swf (fst x).

Lemma se_stats_count : forall stats x loc, se_ok x -> stats_ok stats ->
  se_ok (se_stats x loc stats) /\
  (forall loc' k, count_of (fst (se_stats x loc stats)) loc' k =
                  count_of (fst x) loc' k + (if N.eqb loc' loc then stats_sum k stats else 0)) /\
  (forall k, total (fst (se_stats x loc stats)) k = total (fst x) k + stats_sum k stats).
Proof.
  induction stats as [|[cat v] r IH]; intros x loc Hx Hs.
  - split; [exact Hx|]. split; intros; simpl; [destruct (N.eqb loc' loc)|]; lia.
  - pose proof (Forall_inv Hs) as Hc. pose proof (Forall_inv_tail Hs) as Hs'. simpl in Hc.
    destruct (sum_add_ok loc cat v (fst x) Hx Hc) as (s' & E & Hwf & Hcnt & Htot).
    cbn [se_stats]. rewrite E. cbn [fst].
    destruct (IH (s', snd x || str_eqb cat stats_errors_key) loc Hwf Hs') as (A & B & C).
    split; [exact A|]. split.
    + intros loc' k. rewrite B. cbn [fst]. rewrite Hcnt. cbn [stats_sum].
      destruct (N.eqb loc' loc); simpl; lia.
    + intro k. rewrite C. cbn [fst]. rewrite Htot. cbn [stats_sum]. lia.
Qed.

Lemma se_step_count : forall flt x e, se_ok x -> ev_ok e ->
  se_ok (se_step flt x e) /\
  (forall loc k, count_of (fst (se_step flt x e)) loc k = count_of (fst x) loc k + ev_count flt e loc k) /\
  (forall k, total (fst (se_step flt x e)) k = total (fst x) k + ev_total flt e k).
Proof.
  intros flt x [c f d | f stats] Hx He; simpl in *.
  - destruct (counted flt c f d) eqn:Ec; simpl.
    + assert (Hk : In (msg_key c) summary_keys).
      { unfold counted in Ec. apply andb_true_iff in Ec as [_ Ec]. destruct c; try discriminate; apply msg_keys_in. }
      destruct (sum_add_ok (f_locale f) (msg_key c) 1 (fst x) Hx Hk) as (s' & E & Hwf & Hcnt & Htot).
      rewrite E. simpl. split; [exact Hwf|]. split.
      * intros loc k. rewrite Hcnt. destruct (N.eqb loc (f_locale f)), (str_eqb k (msg_key c)); reflexivity.
      * intro k. rewrite Htot. reflexivity.
    + split; [exact Hx|]. split; intros; lia.
  - destruct (stats_ignored flt f).
    + split; [exact Hx|]. split; intros; lia.
    + destruct (se_stats_count stats x (f_locale f) Hx He) as (A & B & C). auto.
Qed.

Lemma se_run_count : forall flt h x, se_ok x -> Forall ev_ok h ->
  se_ok (se_run flt x h) /\
  (forall loc k, count_of (fst (se_run flt x h)) loc k = count_of (fst x) loc k + hist_count flt h loc k) /\
  (forall k, total (fst (se_run flt x h)) k = total (fst x) k + hist_total flt h k).
Proof.
  induction h as [|e h IH]; intros x Hx Hh.
  - split; [exact Hx|]. split; intros; simpl; lia.
  - pose proof (Forall_inv Hh) as He. pose proof (Forall_inv_tail Hh) as Hh'.
    destruct (se_step_count flt x e Hx He) as (A & B & C).
    destruct (IH (se_step flt x e) A Hh') as (A' & B' & C').
    unfold se_run in *. simpl. split; [exact A'|]. split.
    + intros loc k. rewrite B', B. lia.
    + intro k. rewrite C', C. lia.
Qed.

(* the error flag: set by a counted error or by a stats dict with the errors key *)
Definition ev_sets_error (flt : option filter_t) (e : event) : bool :=
  match e with
  | ENotify c f d => counted flt c f d && is_cerror c
  | EStats f stats => negb (stats_ignored flt f) && existsb (fun kv => str_eqb (fst kv) stats_errors_key) stats
  end.

Lemma se_stats_error : forall stats x loc,
  snd (se_stats x loc stats) = snd x || existsb (fun kv => str_eqb (fst kv) stats_errors_key) stats.
Proof.
  induction stats as [|[cat v] r IH]; intros; simpl; [rewrite orb_false_r; reflexivity|].
  rewrite IH. simpl. rewrite orb_assoc. reflexivity.
Qed.

Lemma se_run_error : forall flt h x,
  snd (se_run flt x h) = snd x || existsb (ev_sets_error flt) h.
Proof.
  induction h as [|e h IH]; intro x; simpl; [rewrite orb_false_r; reflexivity|].
  unfold se_run in *. simpl. rewrite IH. rewrite orb_assoc. f_equal.
  destruct e as [c f d | f stats]; simpl; [reflexivity|].
  destruct (stats_ignored flt f); simpl; [rewrite orb_false_r; reflexivity | apply se_stats_error].
Qed.
