(* C14 end to end: the raising, pattern-level filter (Model/FilterE2E.v)
   returns Ok of the table-based cache-free filter (Model/Filter.v) whenever
   every matcher of the project can be bound to the locale and evaluated on the
   path, the table being what binding and matching compute. *)
From Coq Require Import NArith List Bool Arith Lia.
From CL Require Import Base.Sx Base.Res Base.Str Regex.Rx Generated.FilterFacts
  Model.Pattern Model.Matcher Model.Filter Model.FilterSpec Model.FilterE2E
  Proofs.FilterProofs Proofs.FilterCacheProofs.
Import ListNotations.

Lemma mapM_ok_map {A B} (fn : A -> result B) (g : A -> B) (l : list A) :
  (forall x, In x l -> fn x = Ok (g x)) -> mapM fn l = Ok (map g l).
Proof.
  induction l as [|x l IH]; intro H; simpl; [reflexivity|].
  rewrite (H x (or_introl eq_refl)). simpl. rewrite IH; [reflexivity|].
  intros y Hy. apply H. right. exact Hy.
Qed.

Lemma mapM_ok_rel {A B} (fn : A -> result B) (R : A -> B -> Prop) (l : list A) :
  (forall x, In x l -> exists y, fn x = Ok y /\ R x y) ->
  exists ys, mapM fn l = Ok ys /\ Forall2 R l ys.
Proof.
  induction l as [|x l IH]; intro H; simpl.
  - exists []. split; [reflexivity|constructor].
  - destruct (H x (or_introl eq_refl)) as [y [Hy Ry]].
    destruct IH as [ys [Hys Rys]]; [intros z Hz; apply H; right; exact Hz|].
    exists (y :: ys). rewrite Hy. simpl. rewrite Hys. simpl. split; [reflexivity|].
    constructor; assumption.
Qed.

Lemma any_res_ok {A} (p : A -> result bool) (q : A -> bool) (l : list A) :
  (forall x, In x l -> p x = Ok (q x)) -> any_res p l = Ok (existsb q l).
Proof.
  induction l as [|x l IH]; intro H; simpl; [reflexivity|].
  rewrite (H x (or_introl eq_refl)). simpl. destruct (q x); [reflexivity|].
  apply IH. intros y Hy. apply H. right. exact Hy.
Qed.

Lemma any_res_rel {A B} (p : B -> result bool) (q : A -> bool) (l : list A) (l' : list B) :
  Forall2 (fun x y => p y = Ok (q x)) l l' -> any_res p l' = Ok (existsb q l).
Proof.
  induction 1 as [|x y l l' Hxy _ IH]; simpl; [reflexivity|].
  rewrite Hxy. simpl. destruct (q x); [reflexivity|exact IH].
Qed.

Lemma Forall2_rev {A B} (R : A -> B -> Prop) l l' : Forall2 R l l' -> Forall2 R (rev l) (rev l').
Proof.
  induction 1 as [|x y l l' Hxy _ IH]; simpl; [constructor|].
  apply Forall2_app; [exact IH|constructor; [exact Hxy|constructor]].
Qed.

Lemma existsb_filter {A} (p q : A -> bool) (l : list A) :
  existsb q (filter p l) = existsb (fun x => p x && q x) l.
Proof.
  induction l as [|x l IH]; simpl; [reflexivity|].
  destruct (p x); simpl; rewrite IH; reflexivity.
Qed.

Section Refine.
Variables (matcher bmatcher locale file : Type).
Variable loc_eqb : locale -> locale -> bool.
Variable rbind : matcher -> locale -> result bmatcher.
Variable rmatch_b : bmatcher -> file -> result bool.
Variable mb : matcher -> locale -> file -> bool.

Notation config := (config matcher locale).
Notation rule := (rule matcher).
Notation pathd := (pathd matcher locale).
Notation filter_node_res := (filter_node_res matcher bmatcher locale file loc_eqb rbind rmatch_b).
Notation filter_res := (filter_res matcher bmatcher locale file loc_eqb rbind rmatch_b).
Notation filter_node_pure := (filter_node_pure matcher locale file loc_eqb mb).
Notation filter_pure := (filter_pure matcher locale file loc_eqb mb).

(* the matcher can be bound and evaluated, and the table says what comes out *)
Definition def_at (loc : locale) (f : file) (M : matcher) : Prop :=
  exists B, rbind M loc = Ok B /\ rmatch_b B f = Ok (mb M loc f).

Lemma scan_res_ok : forall (rules : list rule) brs loc f ent,
  Forall2 (fun (r : rule) t => rmatch_b (fst (fst t)) f = Ok (mb (r_path _ r) loc f) /\
                               snd (fst t) = r_key _ r /\ snd t = r_action _ r) rules brs ->
  scan_res bmatcher file rmatch_b brs f ent =
  Ok (scan_rules_pure matcher locale file mb rules loc f ent).
Proof.
  induction 1 as [|r [[b key] a] rules brs [H1 [H2 H3]] _ IH]; simpl; [reflexivity|].
  simpl in H1, H2, H3. subst key a. rewrite H1. simpl.
  destruct (mb (r_path _ r) loc f); simpl; [|exact IH].
  destruct (r_key _ r) as [k|], ent as [e|]; simpl; try exact IH; try reflexivity.
  destruct (key_match k e); simpl; [reflexivity|exact IH].
Qed.

Lemma own_action_res_ok : forall (paths : list pathd) (rules : list rule) loc f ent,
  (forall p, In p paths -> def_at loc f (p_l10n _ _ p)) ->
  (forall r, In r rules -> def_at loc f (r_path _ r)) ->
  own_action_res matcher bmatcher locale file loc_eqb rbind rmatch_b paths rules loc f ent =
  Ok (own_action_pure matcher locale file loc_eqb mb paths rules loc f ent).
Proof.
  intros paths rules loc f ent Hp Hr. unfold own_action_res, bind_paths, bind_rules.
  destruct (mapM_ok_rel (fun p : pathd => rbind (p_l10n _ _ p) loc)
              (fun p b => rmatch_b b f = Ok (mb (p_l10n _ _ p) loc f))
              (filter (fun p => loc_ok _ _ loc_eqb p loc) paths)) as [bps [E1 F1]].
  { intros p Hin. apply filter_In in Hin. destruct Hin as [Hin _].
    destruct (Hp p Hin) as [B [HB HM]]. exists B. split; assumption. }
  rewrite E1. simpl.
  destruct (mapM_ok_rel (fun r : rule => do b <- rbind (r_path _ r) loc; Ok (b, r_key _ r, r_action _ r))
              (fun (r : rule) t => rmatch_b (fst (fst t)) f = Ok (mb (r_path _ r) loc f) /\
                                   snd (fst t) = r_key _ r /\ snd t = r_action _ r)
              rules) as [brs [E2 F2]].
  { intros r Hin. destruct (Hr r Hin) as [B [HB HM]]. exists (B, r_key _ r, r_action _ r).
    rewrite HB. simpl. auto. }
  rewrite E2. simpl.
  rewrite (any_res_rel (fun b => rmatch_b b f) (fun p : pathd => mb (p_l10n _ _ p) loc f) _ _ F1).
  simpl. rewrite existsb_filter. unfold own_action_pure.
  destruct (existsb _ paths); [|reflexivity].
  rewrite (scan_res_ok (rev rules) (rev brs) loc f ent (Forall2_rev _ _ _ F2)). reflexivity.
Qed.

Lemma node_res_ok : forall loc f (c : config),
  (forall M, In M (cfg_matchers _ _ c) -> def_at loc f M) ->
  forall ent, filter_node_res c loc f ent = Ok (filter_node_pure c loc f ent).
Proof.
  intros loc f. apply (config_ind2 matcher locale (fun c =>
    (forall M, In M (cfg_matchers _ _ c) -> def_at loc f M) ->
    forall ent, filter_node_res c loc f ent = Ok (filter_node_pure c loc f ent))).
  intros locs allc paths rules fc children excludes IHc IHe Hd ent.
  rewrite Forall_forall in IHc, IHe. simpl in Hd. simpl.
  rewrite (any_res_ok _ (fun e => action_beq (filter_wrap_pure _ _ loc_eqb
                                   (fun x => filter_node_pure x loc f None) e loc)
                                 act_exclude_trigger)).
  2:{ intros e Hin. unfold filter_wrap_res, filter_wrap_pure.
      destruct (mem_loc _ loc_eqb loc (all_locales_pure _ _ e)); [|reflexivity].
      rewrite (IHe e Hin); [reflexivity|].
      intros M HM. apply Hd. apply in_or_app. right. apply in_or_app. right.
      apply in_or_app. right. apply in_flat_map. exists e. split; assumption. }
  simpl. destruct (existsb _ excludes); [reflexivity|].
  rewrite (mapM_ok_map _ (fun ch => filter_node_pure ch loc f ent)).
  2:{ intros ch Hin. apply IHc; [exact Hin|].
      intros M HM. apply Hd. apply in_or_app. right. apply in_or_app. right.
      apply in_or_app. left. apply in_flat_map. exists ch. split; assumption. }
  simpl. destruct (mem_act _ _); [reflexivity|].
  rewrite own_action_res_ok.
  - reflexivity.
  - intros p Hin. apply Hd. apply in_or_app. left. apply in_map. exact Hin.
  - intros r Hin. apply Hd. apply in_or_app. right. apply in_or_app. left. apply in_map. exact Hin.
Qed.

(* the refinement: every theorem about [filter_pure] transfers *)
Theorem filter_res_refines : forall (c : config) loc f ent,
  (forall M, In M (cfg_matchers _ _ c) -> def_at loc f M) ->
  filter_res c loc f ent = Ok (filter_pure c loc f ent).
Proof.
  intros c loc f ent Hd. unfold FilterE2E.filter_res, filter_wrap_res, Filter.filter_pure, filter_wrap_pure.
  destruct (mem_loc _ loc_eqb loc (all_locales_pure _ _ c)); [|reflexivity].
  rewrite (node_res_ok loc f c Hd ent). reflexivity.
Qed.

End Refine.
