(* C15 / C16 for .inc (DefinesParser): the re-parse clauses from the block theorem of C02
   (blocks_inc / roundtrip_inc_nojunk).  The parser keeps a filter state: a run of more than
   one newline is Whitespace only after "#filter emptyLines" (and Junk otherwise, as is any
   newline at offset 0).  The theorems cover (a) files without empty lines and (b) files that
   start with "#filter emptyLines" and have no "#unfilter emptyLines". *)
From Coq Require Import ZArith NArith List Bool Arith Lia.
From CL Require Import Base.Sx Base.Res Base.Str Model.Entry Model.Parse Model.ParseFormats
                       Proofs.C02Roundtrip Proofs.C02BlocksRx Proofs.C02BlocksIniRx Proofs.C02BlocksIncRx
                       Proofs.C02BlocksInc
                       Model.AddRemove Proofs.AddRemoveProofs Proofs.AddRemoveSpec
                       Model.Channels Proofs.ChannelsProofs Proofs.ChannelsSpec
                       Model.Serializer Proofs.SerializerProofs Proofs.SerializerSpec
                       Proofs.SerializerFinal Proofs.MergeShapeKeys Proofs.MergeShape
                       Proofs.ReparsePartial Proofs.IncShape Proofs.MergeHead Proofs.MergeHeadInstr.
From CL Require Proofs.C02Blocks Proofs.PropsShape Proofs.MergeReparse15 Proofs.SerializeReparse16
                Proofs.MergeEntriesShape Proofs.PropsWrap.
Import ListNotations.
Local Open Scope nat_scope.
Local Notation mem := C02Roundtrip.mem.
Local Arguments ctext : simpl never.
Local Arguments s_define : simpl never.

Local Notation ws_centry := PropsShape.ws_centry.
Local Notation cflush := PropsShape.cflush.
Local Notation strip_fields := PropsShape.strip_fields.

Lemma nls_nil w : nls w = [] -> w = 0.
Proof. destruct w; [reflexivity|discriminate]. Qed.

Lemma ncents_In bs : forall w e, In e (ncents w bs) ->
  (exists k, e = ws_centry (nls (S k))) \/
  (exists cs, In (NComment cs) bs /\ e = ncom_centry cs) \/
  (exists w0 b r nl, In (NInstr w0 b r nl) bs /\ e = ninstr_centry w0 b r) \/
  (exists cs b1 key v nl, In (NEntity cs b1 key v nl) bs /\ e = nent_centry cs b1 key v).
Proof.
  induction bs as [|b rest IH]; intros w e Hin; cbn [ncents] in Hin.
  - apply MergeReparse15.cflush_In in Hin. destruct Hin as [-> Hn]. left.
    destruct w as [|k]; [contradiction Hn; reflexivity|]. exists k. reflexivity.
  - assert (Lift : forall w', In e (ncents w' rest) ->
              (exists k, e = ws_centry (nls (S k))) \/
              (exists cs, In (NComment cs) (b :: rest) /\ e = ncom_centry cs) \/
              (exists w0 b0 r nl, In (NInstr w0 b0 r nl) (b :: rest) /\ e = ninstr_centry w0 b0 r) \/
              (exists cs b1 key v nl, In (NEntity cs b1 key v nl) (b :: rest) /\ e = nent_centry cs b1 key v)).
    { intros w' Hin'.
      destruct (IH w' e Hin') as [H|[(cs & H1 & H2)|[(w0 & b0 & r & nl & H1 & H2)|(cs & b1 & k & v & nl & H1 & H2)]]].
      - left; exact H.
      - right; left. exists cs. split; [right; exact H1|exact H2].
      - right; right; left. exists w0, b0, r, nl. split; [right; exact H1|exact H2].
      - right; right; right. exists cs, b1, k, v, nl. split; [right; exact H1|exact H2]. }
    assert (Fl : In e (cflush (nls w)) -> exists k, e = ws_centry (nls (S k))).
    { intros H. apply MergeReparse15.cflush_In in H. destruct H as [-> Hn].
      destruct w as [|k]; [contradiction Hn; reflexivity|]. exists k. reflexivity. }
    destruct b as [n|cs|w0 b0 r nl|cs b1 key v nl].
    + apply (Lift (w + n)). exact Hin.
    + apply in_app_or in Hin. destruct Hin as [Hin|[Hin|Hin]].
      * left. apply Fl. exact Hin.
      * right; left. exists cs. split; [left; reflexivity|symmetry; exact Hin].
      * apply (Lift 1). exact Hin.
    + apply in_app_or in Hin. destruct Hin as [Hin|[Hin|Hin]].
      * left. apply Fl. exact Hin.
      * right; right; left. exists w0, b0, r, nl. split; [left; reflexivity|symmetry; exact Hin].
      * apply (Lift (length (eol nl))). exact Hin.
    + apply in_app_or in Hin. destruct Hin as [Hin|[Hin|Hin]].
      * left. apply Fl. exact Hin.
      * right; right; right. exists cs, b1, key, v, nl. split; [left; reflexivity|symmetry; exact Hin].
      * apply (Lift (length (eol nl))). exact Hin.
Qed.

Lemma ncentries_dec bs : Forall legal_nblock bs -> Forall ndec (ncentries_of bs).
Proof.
  intros Hleg. apply Forall_forall. intros e He. rewrite Forall_forall in Hleg.
  destruct (ncents_In bs 0 e He)
    as [(k & ->)|[(cs & H1 & ->)|[(w0 & b0 & r & nl & H1 & ->)|(cs & b1 & key & v & nl & H1 & ->)]]].
  - apply (ndec_ws _ k). reflexivity.
  - pose proof (Hleg _ H1) as L. unfold legal_nblock in L. cbn in L.
    apply andb_true_iff in L. destruct L as [L1 L2].
    apply (ndec_com _ cs); [destruct cs; [discriminate|discriminate]|exact L2|reflexivity].
  - apply (ndec_instr _ w0 b0 r); [exact (Hleg _ H1)|reflexivity].
  - apply (ndec_ent _ cs b1 key v); [exact (Hleg _ H1)|reflexivity].
Qed.

Lemma ncentries_plain bs : Forall MergeEntriesShape.plain (ncentries_of bs).
Proof.
  apply Forall_forall. intros e He. unfold MergeEntriesShape.plain.
  destruct (ncents_In bs 0 e He)
    as [(k & ->)|[(cs & _ & ->)|[(w0 & b0 & r & nl & _ & ->)|(cs & b1 & key & v & nl & _ & ->)]]]; cbn; auto 8.
Qed.

Lemma ncents_noadj bs : forall w, noadj (ncents w bs).
Proof.
  induction bs as [|b rest IH]; intros w; cbn [ncents].
  - destruct (nls w); cbn; exact I.
  - destruct b; [apply IH| | |]; (apply MergeReparse15.noadj_flush; [reflexivity|]);
      (apply MergeReparse15.noadj_nonws; [reflexivity|apply IH]).
Qed.

(* ---- filter regions ---------------------------------------------------------------------------- *)
Definition single_ws (v : list centry) : Prop :=
  forall e, In e v -> is_white e = true -> length (c_text e) = 1.
Definition no_unfilter (v : list centry) : Prop :=
  forall e, In e v -> c_kind e = COther -> c_key e <> s_unfilter.

Lemma cblanks_single l : single_ws l -> forall fe, cblanks fe l = true.
Proof.
  induction l as [|e l IH]; intros H fe; [reflexivity|]. cbn [cblanks].
  assert (Hl : single_ws l) by (intros x Hx; apply H; right; exact Hx).
  destruct (c_kind e) eqn:K; try apply (IH Hl).
  rewrite (H e (or_introl eq_refl)) by (unfold is_white; rewrite K; reflexivity).
  cbn. apply (IH Hl).
Qed.

Lemma cblanks_on l : no_unfilter l -> cblanks true l = true.
Proof.
  induction l as [|e l IH]; intros H; [reflexivity|]. cbn [cblanks].
  assert (Hl : no_unfilter l) by (intros x Hx; apply H; right; exact Hx).
  destruct (c_kind e) eqn:K; try apply (IH Hl).
  - rewrite orb_true_r. cbn. apply (IH Hl).
  - assert (Hk : new_filter true (c_key e) = true).
    { unfold new_filter. destruct (str_eqb (c_key e) s_filter); [reflexivity|].
      destruct (str_eqb (c_key e) s_unfilter) eqn:E; [|reflexivity].
      apply str_eqb_eq in E. exfalso. apply (H e (or_introl eq_refl) K E). }
    rewrite Hk. apply (IH Hl).
Qed.

Lemma single_ws_strip e e' : strip e = strip e' ->
  (is_white e = true -> length (c_text e) = 1) -> is_white e' = true -> length (c_text e') = 1.
Proof.
  intros Hs H Hw. destruct (strip_fields _ _ Hs) as (F1 & _ & F3 & _).
  rewrite <- F3. apply H. unfold is_white in *. rewrite F1. exact Hw.
Qed.

Section N.
Variable m : nat.
Hypothesis Hm : 2 <= m.

Definition nversion_ok (bs : list nblock) : Prop :=
  Forall legal_nblock bs /\ ukeys (ncentries_of bs) /\ nf m (ncentries_of bs) /\ hdnw (ncentries_of bs).

(* (a) no empty lines at all, or (b) every version starts with "#filter emptyLines" and none
   has "#unfilter emptyLines" *)
Definition nregions (vs : list (list centry)) : Prop :=
  Forall single_ws vs \/ (Forall (starts_instr s_filter) vs /\ Forall no_unfilter vs).

Lemma key_ok_white k e e' : key_ok (k, e) -> key_ok (k, e') -> is_white e = false -> is_white e' = false.
Proof.
  intros H1 H2 Hw. destruct (key_ok_kinds k e H1) as [A _]. destruct (key_ok_kinds k e' H2) as [B _]. congruence.
Qed.

Lemma white_strip e e' : strip e = strip e' -> is_white e = false -> is_white e' = false.
Proof. intros Hs H. destruct (strip_fields _ _ Hs) as (F1 & _). unfold is_white in *. rewrite <- F1. exact H. Qed.

(* ---- C15 ---------------------------------------------------------------------------------------------- *)
Theorem merge_reparse_inc name (bss : list (list nblock)) txt :
  Forall nversion_ok bss -> nregions (map ncentries_of bss) ->
  merge_channels name (map ncentries_of bss) = Ok txt ->
  exists out es,
    merge_entries (map ncentries_of bss) = Ok out /\ txt = concat (map c_text out) /\
    walk_defines txt = Ok es /\
    map (fun e => let r := entity_nrecord txt e in
                  (fst (fst r), match snd (fst r) with Some v => v | None => [] end))
        (filter (is_kind KEntity) es) = PropsShape.krecs out /\
    map (fun e => span_text txt (e_span e)) (filter (is_kind KComment) es) = PropsShape.ccoms out /\
    map (fun e => opt_text txt (e_val e)) (filter (is_kind KInstruction) es) = cinstrs out /\
    filter (is_kind KJunk) es = [].
Proof.
  intros Hok Hreg H. destruct (merge_channels_inv _ _ _ H) as (out & Ho & ->). exists out.
  assert (Hu : Forall ukeys (map ncentries_of bss)).
  { apply Forall_forall. intros v Hv. apply in_map_iff in Hv. destruct Hv as (bs & <- & Hb).
    rewrite Forall_forall in Hok. apply (Hok bs Hb). }
  assert (Hn : Forall (nf m) (map ncentries_of bss)).
  { apply Forall_forall. intros v Hv. apply in_map_iff in Hv. destruct Hv as (bs & <- & Hb).
    rewrite Forall_forall in Hok. apply (Hok bs Hb). }
  assert (Ha : Forall noadj (map ncentries_of bss)).
  { apply Forall_forall. intros v Hv. apply in_map_iff in Hv. destruct Hv as (bs & <- & Hb). apply ncents_noadj. }
  assert (Hh : Forall (hdq (fun e => is_white e = false)) (map ncentries_of bss)).
  { apply Forall_forall. intros v Hv. apply in_map_iff in Hv. destruct Hv as (bs & <- & Hb).
    rewrite Forall_forall in Hok. apply (Hok bs Hb). }
  destruct (MergeEntriesShape.merge_entries_shape m _ out Hu Hn Ha Ho) as (S1 & S2 & S3).
  assert (Hhd : hdnw out).
  { apply (merge_entries_hdq (fun e => is_white e = false) (fun e H => H) key_ok_white white_strip _ out Hu Hh Ho). }
  assert (Hd : Forall ndec out).
  { apply Forall_forall. intros e He. destruct (S3 e He) as (v & e0 & Hv & He0 & Hs).
    apply in_map_iff in Hv. destruct Hv as (bs & <- & Hb). rewrite Forall_forall in Hok.
    destruct (Hok bs Hb) as (Lb & _).
    pose proof (ncentries_dec bs Lb) as D. rewrite Forall_forall in D.
    eapply ndec_strip; [symmetry; exact Hs|apply D; exact He0]. }
  assert (Hb : cblanks false out = true).
  { destruct Hreg as [Hs|[Hf Hnu]].
    - apply cblanks_single. intros e He Hw. destruct (S3 e He) as (v & e0 & Hv & He0 & Hse).
      rewrite Forall_forall in Hs. apply (single_ws_strip e0 e (eq_sym Hse)); [|exact Hw].
      apply (Hs v Hv e0 He0).
    - destruct (merge_entries_instr s_filter _ out Hu Hf Ho) as (e & t & -> & [K1 K2]).
      cbn [cblanks]. rewrite K1, K2.
      assert (new_filter false s_filter = true) as -> by (vm_compute; reflexivity).
      apply cblanks_on. intros x Hx Kx Ex.
      destruct (S3 x (or_intror Hx)) as (v & e0 & Hv & He0 & Hse).
      destruct (strip_fields _ _ Hse) as (F1 & F2 & _).
      rewrite Forall_forall in Hnu. apply (Hnu v Hv e0 He0); congruence. }
  destruct (nshape_reparse m Hm out S1 S2 Hhd Hd Hb) as (es & E1 & E2 & E3 & E4 & E5).
  exists es. unfold serialize_legacy. repeat split; assumption.
Qed.

(* ---- C16 ---------------------------------------------------------------------------------------------- *)
(* every entity of the reference has a value ("#define KEY" alone has none: Entity.wrap then
   works on the span (-1, -1), listed finding inc-wrap-valueless-define) *)
Definition nvalued (b : nblock) : Prop :=
  match b with NEntity _ _ _ None _ => False | _ => True end.

Lemma text_pre_nent e cs b1 key c val :
  strip e = strip (nent_centry cs b1 key (Some (c, val))) ->
  PropsWrap.text_pre e = ctext cs ++ s_define ++ b1 ++ key ++ [c].
Proof.
  intros H. destruct (strip_fields _ _ H) as (_ & _ & K3 & K4). cbn [c_text c_val nent_centry nval] in K3, K4.
  unfold PropsWrap.text_pre. rewrite K3, K4. unfold nent_text. cbn [vtext].
  replace (ctext cs ++ s_define ++ b1 ++ key ++ c :: val) with ((ctext cs ++ s_define ++ b1 ++ key ++ [c]) ++ val)
    by (rewrite <- !app_assoc; reflexivity).
  rewrite app_length.
  replace (length (ctext cs ++ s_define ++ b1 ++ key ++ [c]) + length val - length val)
    with (length (ctext cs ++ s_define ++ b1 ++ key ++ [c]) + 0) by lia.
  rewrite firstn_app_2. cbn [firstn]. rewrite app_nil_r. reflexivity.
Qed.

Theorem serialize_reparse_inc kf rbs obs wrap nd name txt :
  nversion_ok rbs -> nversion_ok obs -> NoDup (map fst nd) -> SerializeReparse16.props_wrap wrap ->
  (forall k raw, In (k, Some raw) nd -> no_nl raw = true) ->
  Forall nvalued rbs ->
  starts_instr kf (ncentries_of rbs) ->
  (ncentries_of obs = [] \/ starts_instr kf (ncentries_of obs)) ->
  ((single_ws (ncentries_of rbs) /\ single_ws (ncentries_of obs)) \/
   (kf = s_filter /\ no_unfilter (ncentries_of rbs) /\ no_unfilter (ncentries_of obs))) ->
  let R := number 0 (ncentries_of rbs) in
  let L := number (length (ncentries_of rbs)) (ncentries_of obs) in
  serialize wrap name R L nd = Ok txt ->
  exists out es,
    serialize_entries wrap R L nd = Ok out /\ txt = concat (map c_text out) /\
    walk_defines txt = Ok es /\
    map (fun e => let r := entity_nrecord txt e in
                  (fst (fst r), match snd (fst r) with Some v => v | None => [] end))
        (filter (is_kind KEntity) es) = PropsShape.krecs out /\
    map fst (PropsShape.krecs out) = filter (has_value L nd) (refkeys R) /\
    map (fun e => span_text txt (e_span e)) (filter (is_kind KComment) es) = PropsShape.ccoms out /\
    map (fun e => opt_text txt (e_val e)) (filter (is_kind KInstruction) es) = cinstrs out /\
    filter (is_kind KJunk) es = [].
Proof.
  intros Hr Ho Hnd Hw Hraw Hval HsR HsL Hreg R L H.
  pose proof (SerializeReparse16.props_wrap_ok wrap Hw) as Hwo.
  destruct (serialize_inv wrap name R L nd txt H) as (out & Hout & ->).
  destruct Hr as (Lr & Ur & Nr & _). destruct Ho as (Lo & Uo & No & _).
  pose proof (ncentries_dec rbs Lr) as DR. pose proof (ncentries_dec obs Lo) as DL.
  pose proof (ncentries_plain rbs) as PlR. pose proof (ncentries_plain obs) as PlL.
  destruct (MergeEntriesShape.serialize_entries_shape m _ _ PlR PlL Ur Uo Nr No wrap nd Hnd Hwo out Hout) as (S1 & S2).
  destruct (serialize_entries_instr kf _ _ PlR PlL Ur Uo HsR HsL wrap nd Hnd Hwo out Hout) as (e0 & t0 & E0 & [K01 K02]).
  assert (Hhd : hdnw out) by (rewrite E0; cbn; unfold is_white; rewrite K01; reflexivity).
  (* where the entries of the output come from *)
  assert (Src : forall e, In e out ->
            (exists e1, (In e1 (ncentries_of rbs) \/ In e1 (ncentries_of obs)) /\ strip e = strip e1) \/
            (exists cs b1 key c raw, legal_nblockb (NEntity cs b1 key (Some (c, raw)) true) = true /\
                                     strip e = strip (nent_centry cs b1 key (Some (c, raw))))).
  { intros e He.
    destruct (serialize_sources wrap R L nd out Hout e He) as [_ [(Hin & _ & _)|[(Hin & _ & _)|(r & raw & Hr1 & Hr2 & Hr3 & Hr4)]]].
    - destruct (SerializeReparse16.number_In_strip _ _ _ Hin) as (e1 & H1 & Hs). left. exists e1. auto.
    - destruct (SerializeReparse16.number_In_strip _ _ _ Hin) as (e1 & H1 & Hs). left. exists e1. auto.
    - right. destruct (SerializeReparse16.number_In_strip _ _ _ Hr1) as (r0 & Hr0 & Hs).
      destruct (ncents_In rbs 0 r0 Hr0)
        as [(k & E)|[(cs & _ & E)|[(w0 & b0 & r1 & nl & _ & E)|(cs & b1 & key & v & nl & Hb & E)]]].
      + exfalso. unfold is_entity in Hr2. rewrite (SerializeReparse16.strip_kind_eq _ _ Hs), E in Hr2. discriminate.
      + exfalso. unfold is_entity in Hr2. rewrite (SerializeReparse16.strip_kind_eq _ _ Hs), E in Hr2. discriminate.
      + exfalso. unfold is_entity in Hr2. rewrite (SerializeReparse16.strip_kind_eq _ _ Hs), E in Hr2. discriminate.
      + subst r0. rewrite Forall_forall in Lr, Hval. pose proof (Lr _ Hb) as Lb. pose proof (Hval _ Hb) as Vb.
        destruct v as [[c val]|]; [|contradiction].
        exists cs, b1, key, c, raw. split.
        * unfold legal_nblock in Lb. cbn [legal_nblockb legal_nval] in Lb |- *.
          apply andb_true_iff in Lb. destruct Lb as [Lb Lv]. rewrite Lb. cbn [andb].
          apply andb_true_iff in Lv. destruct Lv as [Lc _]. rewrite Lc. exact (Hraw _ _ Hr3).
        * rewrite (Hw r raw e Hr4). destruct (strip_fields _ _ Hs) as (_ & K2 & _ & _). cbn in K2.
          unfold strip, literal, nent_centry. cbn [c_kind c_key c_text c_val nval]. rewrite K2.
          rewrite (text_pre_nent r cs b1 key c val Hs). unfold nent_text. cbn [vtext].
          rewrite <- !app_assoc. reflexivity. }
  assert (Hd : Forall ndec out).
  { apply Forall_forall. intros e He. destruct (Src e He) as [(e1 & [H1|H1] & Hs)|(cs & b1 & key & c & raw & Hl & Hs)].
    - rewrite Forall_forall in DR. eapply ndec_strip; [symmetry; exact Hs|apply DR; exact H1].
    - rewrite Forall_forall in DL. eapply ndec_strip; [symmetry; exact Hs|apply DL; exact H1].
    - apply (ndec_ent e cs b1 key (Some (c, raw)) Hl Hs). }
  assert (Hb : cblanks false out = true).
  { destruct Hreg as [[SR SL]|(-> & UR & UL)].
    - apply cblanks_single. intros e He Hwh. destruct (Src e He) as [(e1 & H1 & Hs)|(cs & b1 & key & c & raw & _ & Hs)].
      + apply (single_ws_strip e1 e (eq_sym Hs)); [|exact Hwh]. destruct H1 as [H1|H1]; [apply (SR e1 H1)|apply (SL e1 H1)].
      + exfalso. destruct (strip_fields _ _ Hs) as (F1 & _). unfold is_white in Hwh. rewrite F1 in Hwh. discriminate.
    - rewrite E0. cbn [cblanks]. rewrite K01, K02.
      assert (new_filter false s_filter = true) as -> by (vm_compute; reflexivity).
      apply cblanks_on. intros x Hx Kx Ex.
      assert (Hxo : In x out) by (rewrite E0; right; exact Hx).
      destruct (Src x Hxo) as [(e1 & H1 & Hs)|(cs & b1 & key & c & raw & _ & Hs)].
      + destruct (strip_fields _ _ Hs) as (F1 & F2 & _).
        destruct H1 as [H1|H1]; [apply (UR e1 H1)|apply (UL e1 H1)]; congruence.
      + destruct (strip_fields _ _ Hs) as (F1 & _). cbn in F1. congruence. }
  destruct (nshape_reparse m Hm out S1 S2 Hhd Hd Hb) as (es & E1 & E2 & E3 & E4 & E5).
  exists out, es. unfold serialize_legacy. repeat split; try assumption.
  rewrite SerializeReparse16.krecs_cent, map_map. cbn [fst].
  apply (entities_keys_thm wrap R L nd).
  - apply (MergeEntriesShape.guR _ PlR Ur).
  - apply (MergeEntriesShape.guL _ _ PlL Uo).
  - exact Hnd.
  - exact Hwo.
  - exact Hout.
Qed.
End N.
