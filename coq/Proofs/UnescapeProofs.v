(* C02: what pattern.sub(function, text) computes for an escape expression of the
   shape  \\ + one character of a class, captured as group 1
        esc_rx cls = Cat (Chr false [(92,92)]) (Grp 1 (Chr false cls))
   (po.po_escape has exactly this shape), by reasoning about the engine
   (m / search_from / finditer_from) on that AST; then the PO theorem:
   eval_stringlist of rendered token lists is the concatenation of the token meanings. *)
From Coq Require Import NArith List Bool Arith Lia.
From CL Require Import Base.Sx Base.Res Base.Str Regex.Rx Regex.RxLemmas Model.Entry Model.Parse
  Generated.RxC02 Generated.C02Facts Model.Unescape.
Import ListNotations.

Local Arguments Nat.ltb : simpl never.
Local Arguments Nat.leb : simpl never.
Local Arguments Nat.eqb : simpl never.
Local Arguments N.eqb : simpl never.
Local Arguments N.leb : simpl never.
Local Arguments in_ranges : simpl never.
Local Arguments chr_ok : simpl never.

Definition esc_rx (cls : cset) : rx := Cat (Chr false [(92, 92)%N]) (Grp 1 (Chr false cls)).

Definition is_bs (c : N) : bool := chr_ok false [(92, 92)%N] c.

Lemma is_bs_iff : forall c, is_bs c = true <-> c = 92%N.
Proof.
  intros c. unfold is_bs, chr_ok, in_ranges. simpl.
  destruct (N.leb_spec 92 c); destruct (N.leb_spec c 92); simpl; split; intros; try discriminate;
    try reflexivity; lia.
Qed.

Lemma is_bs_neq : forall c, c <> 92%N -> is_bs c = false.
Proof.
  intros c H. destruct (is_bs c) eqn:E; [|reflexivity]. apply is_bs_iff in E. contradiction.
Qed.

(* ---- lists ------------------------------------------------------------------- *)
Lemma skipn_app_length : forall (a b : str), skipn (length a) (a ++ b) = b.
Proof. induction a; simpl; auto. Qed.

Lemma skipn_app_plus : forall (a b : str) n, skipn (length a + n) (a ++ b) = skipn n b.
Proof. induction a; simpl; auto. Qed.

Lemma slice_app : forall (a b : str) i j,
  slice (a ++ b) (length a + i) (length a + j) = slice b i j.
Proof.
  intros a b i j. unfold slice. rewrite skipn_app_plus.
  replace (length a + j - (length a + i)) with (j - i) by lia. reflexivity.
Qed.

Lemma slice_0 : forall (b : str) n, slice b 0 n = firstn n b.
Proof. intros. unfold slice. simpl. rewrite Nat.sub_0_r. reflexivity. Qed.

Lemma slice_app0 : forall (a b : str) n, slice (a ++ b) (length a) (length a + n) = firstn n b.
Proof.
  intros. pose proof (slice_app a b 0 n) as H. rewrite Nat.add_0_r in H. rewrite H. apply slice_0.
Qed.

Section Esc.
Variable cls : cset.
Let E := esc_rx cls.

(* ---- one attempt of the matcher ------------------------------------------------- *)
Lemma m_esc_2 : forall pre c d t p k,
  m E (mkst pre (c :: d :: t) p []) k =
  if is_bs c && chr_ok false cls d
  then k (mkst (d :: c :: pre) t (S (S p)) [(1, (S p, S (S p)))])
  else Fail.
Proof.
  intros. unfold E, esc_rx, is_bs. simpl.
  destruct (chr_ok false [(92, 92)%N] c); simpl; [|reflexivity].
  unfold advance. simpl.
  destruct (chr_ok false cls d); reflexivity.
Qed.

Lemma m_esc_1 : forall pre c p k, m E (mkst pre [c] p []) k = Fail.
Proof.
  intros. unfold E, esc_rx. simpl.
  destruct (chr_ok false [(92, 92)%N] c); reflexivity.
Qed.

Lemma m_esc_0 : forall pre p k, m E (mkst pre [] p []) k = Fail.
Proof. reflexivity. Qed.

(* does an escape start at the head of [suf]? *)
Definition esc_here (suf : str) : bool :=
  match suf with
  | c :: d :: _ => is_bs c && chr_ok false cls d
  | _ => false
  end.

Local Arguments esc_here : simpl never.

(* offset of the first escape in [suf] *)
Fixpoint first_esc (suf : str) : option nat :=
  match suf with
  | [] => None
  | c :: t => if esc_here suf then Some 0
              else match first_esc t with Some q => Some (S q) | None => None end
  end.

Definition esc_res (p q : nat) : mres := mkres (p + q) (p + q + 2) [(1, (p + q + 1, p + q + 2))].

Lemma run_at_esc : forall pre suf p,
  run_at E (mkst pre suf p []) (fun _ => true) =
  if esc_here suf then MSome (esc_res p 0) else MNone.
Proof.
  intros pre suf p. unfold run_at, esc_here.
  destruct suf as [|c [|d t]].
  - reflexivity.
  - rewrite m_esc_1. reflexivity.
  - rewrite m_esc_2. simpl. destruct (is_bs c && chr_ok false cls d); [|reflexivity].
    simpl. unfold esc_res. rewrite Nat.add_0_r.
    replace (p + 2) with (S (S p)) by lia. replace (p + 1) with (S p) by lia. reflexivity.
Qed.

(* ---- search --------------------------------------------------------------------- *)
Lemma search_esc : forall suf pre p fuel, length suf < fuel ->
  search_from E fuel (mkst pre suf p []) None =
  match first_esc suf with
  | None => MNone
  | Some q => MSome (esc_res p q)
  end.
Proof.
  induction suf as [|c t IH]; intros pre p fuel Hf.
  - destruct fuel; [simpl in Hf; lia|]. reflexivity.
  - destruct fuel; [lia|]. rewrite search_from_S. cbv zeta.
    assert (A : (fun s' : st => match @None nat with
                                | Some p0 => negb (Nat.eqb (pos (mkst pre (c :: t) p [])) p0 &&
                                                   Nat.eqb (pos s') p0)
                                | None => true end) = (fun _ => true)) by reflexivity.
    simpl suf. rewrite A, run_at_esc. simpl first_esc.
    destruct (esc_here (c :: t)).
    + reflexivity.
    + unfold advance. simpl. rewrite IH by (simpl in Hf; lia).
      destruct (first_esc t) as [q|]; [|reflexivity].
      unfold esc_res. replace (S p + q) with (p + S q) by lia. reflexivity.
Qed.

Lemma first_esc_bound : forall suf q, first_esc suf = Some q -> q + 2 <= length suf.
Proof.
  induction suf as [|c t IH]; intros q H; simpl in H; [discriminate|].
  destruct (esc_here (c :: t)) eqn:Eh.
  - inversion H; subst. unfold esc_here in Eh. destruct t as [|d t']; [discriminate|]. simpl. lia.
  - destruct (first_esc t) as [q'|] eqn:F; [|discriminate]. inversion H; subst.
    pose proof (IH q' eq_refl). simpl. lia.
Qed.

(* ---- finditer -------------------------------------------------------------------- *)
Fixpoint esc_matches (fuel p : nat) (suf : str) : list mres :=
  match fuel with
  | O => []
  | S f =>
      match first_esc suf with
      | None => []
      | Some q => esc_res p q :: esc_matches f (p + q + 2) (skipn (q + 2) suf)
      end
  end.

Lemma fwd_mkst : forall n pre suf p, n <= length suf ->
  fwd n (mkst pre suf p []) = mkst (rev (firstn n suf) ++ pre) (skipn n suf) (p + n) [].
Proof.
  induction n as [|n IH]; intros pre suf p H.
  - simpl. rewrite Nat.add_0_r. reflexivity.
  - destruct suf as [|c t]; [simpl in H; lia|].
    simpl fwd. unfold advance. simpl. rewrite IH by (simpl in H; lia).
    rewrite <- app_assoc. simpl. f_equal. lia.
Qed.

Lemma finditer_esc : forall fuel sf pr p, length sf < fuel ->
  finditer_from E fuel (mkst pr sf p []) None = Some (esc_matches fuel p sf).
Proof.
  induction fuel as [|f IH]; intros sf pr p Hf; [lia|].
  rewrite finditer_from_S. cbn [suf pre pos]. rewrite search_esc by lia.
  simpl esc_matches. destruct (first_esc sf) as [q|] eqn:F; [|reflexivity].
  pose proof (first_esc_bound _ _ F) as Hb.
  unfold esc_res at 1 2 3. cbn [m_end m_start].
  replace (p + q + 2 - p) with (q + 2) by lia.
  rewrite fwd_mkst by lia.
  replace (Nat.eqb (p + q) (p + q + 2)) with false by (symmetry; apply Nat.eqb_neq; lia).
  rewrite IH by (rewrite skipn_length; lia).
  replace (p + (q + 2)) with (p + q + 2) by lia. reflexivity.
Qed.

Lemma rfinditer_esc : forall s,
  rfinditer E s = Some (esc_matches (2 * length s + 2) 0 s).
Proof.
  intros s. unfold rfinditer, st_at. simpl firstn. simpl skipn. simpl rev.
  apply finditer_esc. lia.
Qed.

(* ---- sub --------------------------------------------------------------------------- *)
Variable g : N -> result str.                 (* replacement for the escaped character *)

(* the substitution, stated directly on the text *)
Fixpoint esc_spec (suf : str) : result str :=
  match suf with
  | [] => Ok []
  | c :: t =>
      match t with
      | d :: t' =>
          if is_bs c && chr_ok false cls d then
            match g d with
            | Raise e => Raise e
            | Ok r => match esc_spec t' with Raise e => Raise e | Ok tl => Ok (r ++ tl) end
            end
          else match esc_spec t with Raise e => Raise e | Ok tl => Ok (c :: tl) end
      | [] => Ok [c]
      end
  end.

Lemma esc_spec_skip : forall c t, esc_here (c :: t) = false ->
  esc_spec (c :: t) = match esc_spec t with Raise e => Raise e | Ok tl => Ok (c :: tl) end.
Proof.
  intros c t H. destruct t as [|d t']; [reflexivity|].
  unfold esc_here in H. simpl esc_spec at 1. rewrite H. reflexivity.
Qed.

Lemma esc_spec_hit : forall c d t, is_bs c = true -> chr_ok false cls d = true ->
  esc_spec (c :: d :: t) =
  match g d with
  | Raise e => Raise e
  | Ok r => match esc_spec t with Raise e => Raise e | Ok tl => Ok (r ++ tl) end
  end.
Proof. intros c d t H1 H2. simpl esc_spec at 1. rewrite H1, H2. reflexivity. Qed.

Lemma first_esc_none : forall suf, first_esc suf = None -> esc_spec suf = Ok suf.
Proof.
  induction suf as [|c t IH]; intros H; [reflexivity|].
  simpl in H. destruct (esc_here (c :: t)) eqn:Eh; [discriminate|].
  destruct (first_esc t) eqn:F; [discriminate|].
  rewrite esc_spec_skip by exact Eh. rewrite IH by reflexivity. reflexivity.
Qed.

Lemma first_esc_some : forall suf q, first_esc suf = Some q ->
  exists d, nth_error suf (q + 1) = Some d /\
    esc_spec suf =
    match g d with
    | Raise e => Raise e
    | Ok r => match esc_spec (skipn (q + 2) suf) with
              | Raise e => Raise e
              | Ok tl => Ok (firstn q suf ++ r ++ tl)
              end
    end.
Proof.
  induction suf as [|c t IH]; intros q H; [discriminate|].
  simpl in H. destruct (esc_here (c :: t)) eqn:Eh.
  - inversion H; subst q. unfold esc_here in Eh. destruct t as [|d t']; [discriminate|].
    exists d. split; [reflexivity|]. simpl esc_spec at 1. rewrite Eh.
    simpl. reflexivity.
  - destruct (first_esc t) as [q'|] eqn:F; [|discriminate]. inversion H; subst q.
    destruct (IH q' eq_refl) as [d [Hn Hs]]. exists d. split; [exact Hn|].
    rewrite esc_spec_skip by exact Eh. rewrite Hs. simpl.
    destruct (g d) as [r|e]; [|reflexivity].
    destruct (esc_spec (skipn (q' + 2) t)); reflexivity.
Qed.

(* the callback reads the escaped character from group 1 of the match *)
Definition esc_fun (line : str) (x : mres) : result str :=
  match group_text line 1 x with
  | Some [c] => g c
  | _ => Raise KeyError
  end.

Lemma nth_error_slice1 : forall (b : str) i d, nth_error b i = Some d -> slice b i (i + 1) = [d].
Proof.
  intros b i d. unfold slice. replace (i + 1 - i) with 1 by lia. revert i.
  induction b as [|c b IH]; intros i H; destruct i; simpl in H; try discriminate.
  - inversion H; subst. reflexivity.
  - simpl skipn. apply IH. exact H.
Qed.

Lemma esc_fun_res : forall a suf q d, nth_error suf (q + 1) = Some d ->
  esc_fun (a ++ suf) (esc_res (length a) q) = g d.
Proof.
  intros a suf q d H. unfold esc_fun, group_text, group, esc_res. simpl.
  unfold span_text. simpl.
  replace (length a + q + 1) with (length a + (q + 1)) by lia.
  replace (length a + q + 2) with (length a + (q + 1 + 1)) by lia.
  rewrite slice_app. rewrite (nth_error_slice1 _ _ _ H). reflexivity.
Qed.

Lemma sub_esc : forall n suf a fuel, length suf <= n -> length suf < fuel ->
  sub_pieces (esc_fun (a ++ suf)) (a ++ suf) (length a) (esc_matches fuel (length a) suf) =
  esc_spec suf.
Proof.
  induction n as [|n IH]; intros suf a fuel Hn Hf.
  - destruct suf; [|simpl in Hn; lia]. destruct fuel; [lia|]. simpl.
    rewrite skipn_app_length. reflexivity.
  - destruct fuel as [|f]; [lia|]. simpl esc_matches.
    destruct (first_esc suf) as [q|] eqn:F.
    + pose proof (first_esc_bound _ _ F) as Hb.
      destruct (first_esc_some _ _ F) as [d [Hd Hs]]. rewrite Hs.
      simpl sub_pieces. rewrite (esc_fun_res a suf q d Hd).
      destruct (g d) as [r|e]; [|reflexivity].
      simpl m_end. simpl m_start.
      (* the rest of the text, re-split *)
      assert (Hsplit : a ++ suf = (a ++ firstn (q + 2) suf) ++ skipn (q + 2) suf).
      { rewrite <- app_assoc, firstn_skipn. reflexivity. }
      assert (Hlen : length (a ++ firstn (q + 2) suf) = length a + q + 2).
      { rewrite app_length, firstn_length. lia. }
      pose proof (IH (skipn (q + 2) suf) (a ++ firstn (q + 2) suf) f) as IH'.
      rewrite <- Hsplit, Hlen in IH'. rewrite IH' by (rewrite skipn_length; lia).
      destruct (esc_spec (skipn (q + 2) suf)) as [tl|e]; [|reflexivity].
      rewrite slice_app0. reflexivity.
    + simpl. rewrite skipn_app_length. rewrite first_esc_none by exact F. reflexivity.
Qed.

(* pattern.sub for the escape shape *)
Theorem rsub_with_esc : forall line,
  rsub_with E (esc_fun line) line = esc_spec line.
Proof.
  intros line. unfold rsub_with. rewrite rfinditer_esc.
  apply (sub_esc (length line) line [] (2 * length line + 2)); lia.
Qed.
End Esc.
