(* Lemmas about Model/Merge.v (ContentComparer.merge). *)
From Coq Require Import NArith List Bool Arith Lia Permutation Sorted.
From CL Require Import Base.Sx Base.Res Base.Str Model.AddRemove Model.Merge Generated.C04Facts.
Import ListNotations.
Local Open Scope nat_scope.

(* ---- ensure_newline ------------------------------------------------------ *)
Lemma ends_with_nl_cons2 : forall a b s, ends_with_nl (a :: b :: s) = ends_with_nl (b :: s).
Proof. reflexivity. Qed.

Lemma ends_with_nl_app_nl : forall s, ends_with_nl (s ++ [10%N]) = true.
Proof.
  induction s as [|c s IH]; [reflexivity|].
  destruct s as [|d s]; [reflexivity|].
  change ((c :: d :: s) ++ [10%N]) with (c :: (d :: s) ++ [10%N]).
  simpl app in *. rewrite ends_with_nl_cons2. exact IH.
Qed.

Lemma ends_with_nl_spec : forall s,
  ends_with_nl s = true <-> exists p, s = p ++ [10%N].
Proof.
  split.
  - induction s as [|c s IH]; [discriminate|].
    destruct s as [|d s].
    + simpl. intro H. apply N.eqb_eq in H. subst. exists []. reflexivity.
    + rewrite ends_with_nl_cons2. intro H. destruct (IH H) as [p Hp].
      exists (c :: p). simpl. now rewrite Hp.
  - intros [p ->]. apply ends_with_nl_app_nl.
Qed.

Lemma ensure_newline_ends : forall s, ends_with_nl (ensure_newline s) = true.
Proof.
  intro s. unfold ensure_newline. destruct (ends_with_nl s) eqn:E; [exact E|].
  apply ends_with_nl_app_nl.
Qed.

Lemma ensure_newline_cases : forall s,
  (ends_with_nl s = true /\ ensure_newline s = s) \/
  (ends_with_nl s = false /\ ensure_newline s = s ++ [10%N]).
Proof. intro s. unfold ensure_newline. destruct (ends_with_nl s); auto. Qed.

Lemma ensure_newline_idem : forall s, ensure_newline (ensure_newline s) = ensure_newline s.
Proof.
  intro s. unfold ensure_newline at 1. now rewrite ensure_newline_ends.
Qed.

(* ---- slices -------------------------------------------------------------- *)
Lemma skipn_skipn' : forall {A} x y (l : list A), skipn x (skipn y l) = skipn (y + x) l.
Proof.
  intros A x y. induction y as [|y IH]; intro l; [reflexivity|].
  destruct l; [now rewrite !skipn_nil|]. simpl. apply IH.
Qed.

Lemma firstn_add' : forall {A} n m (l : list A),
  firstn (n + m) l = firstn n l ++ firstn m (skipn n l).
Proof.
  intros A n. induction n as [|n IH]; intros m l; [reflexivity|].
  destruct l; [now rewrite !firstn_nil|]. simpl. now rewrite IH.
Qed.

Lemma slice_full : forall (s : str) o, slice s o (length s) = skipn o s.
Proof.
  intros s o. unfold slice. rewrite <- (skipn_length o s). apply firstn_all.
Qed.

Lemma slice_empty : forall (s : str) a b, b <= a -> slice s a b = [].
Proof. intros s a b H. unfold slice. replace (b - a) with 0 by lia. reflexivity. Qed.

Lemma skipn_split : forall (s : str) o a, o <= a ->
  skipn o s = slice s o a ++ skipn a s.
Proof.
  intros s o a H. unfold slice.
  replace (skipn a s) with (skipn (a - o) (skipn o s)).
  - symmetry. apply firstn_skipn.
  - rewrite skipn_skipn'. f_equal. lia.
Qed.

Lemma slice_length : forall (s : str) o a, o <= a -> a <= length s -> length (slice s o a) = a - o.
Proof.
  intros s o a H1 H2. unfold slice. rewrite firstn_length, skipn_length. lia.
Qed.

Lemma slice_split : forall (s : str) o a b, o <= a -> a <= b ->
  slice s o b = slice s o a ++ slice s a b.
Proof.
  intros s o a b H1 H2. unfold slice.
  replace (b - o) with ((a - o) + (b - a)) by lia.
  rewrite firstn_add'. f_equal. rewrite skipn_skipn'. do 2 f_equal. lia.
Qed.

(* ---- the characters outside every skipped span --------------------------- *)
Lemma keep_from_app : forall s1 s2 i spans,
  keep_from i (s1 ++ s2) spans = keep_from i s1 spans ++ keep_from (i + length s1) s2 spans.
Proof.
  induction s1 as [|c s1 IH]; intros s2 i spans; simpl.
  - now rewrite Nat.add_0_r.
  - rewrite IH. replace (S i + length s1) with (i + S (length s1)) by lia.
    destruct (covered i spans); reflexivity.
Qed.

Lemma keep_from_none : forall s i spans,
  (forall j, i <= j < i + length s -> covered j spans = false) -> keep_from i s spans = s.
Proof.
  induction s as [|c s IH]; intros i spans H; simpl; [reflexivity|].
  rewrite (H i) by (simpl; lia). f_equal. apply IH. intros j Hj. apply H. simpl. lia.
Qed.

Lemma keep_from_all : forall s i spans,
  (forall j, i <= j < i + length s -> covered j spans = true) -> keep_from i s spans = [].
Proof.
  induction s as [|c s IH]; intros i spans H; simpl; [reflexivity|].
  rewrite (H i) by (simpl; lia). apply IH. intros j Hj. apply H. simpl. lia.
Qed.

Lemma keep_from_ext : forall s i A B,
  (forall j, i <= j -> covered j A = covered j B) -> keep_from i s A = keep_from i s B.
Proof.
  induction s as [|c s IH]; intros i A B H; simpl; [reflexivity|].
  rewrite (H i) by lia. rewrite (IH (S i) A B) by (intros; apply H; lia). reflexivity.
Qed.

Lemma covered_perm : forall i A B, Permutation A B -> covered i A = covered i B.
Proof.
  intros i A B P. unfold covered. induction P; simpl.
  - reflexivity.
  - now rewrite IHP.
  - destruct (covers i x), (covers i y); reflexivity.
  - congruence.
Qed.

Lemma uncovered_perm : forall s A B, Permutation A B -> uncovered s A = uncovered s B.
Proof. intros. apply keep_from_ext. intros. now apply covered_perm. Qed.

Lemma covered_false_iff : forall i spans,
  covered i spans = false <-> forall s, In s spans -> ~ (fst s <= i < snd s).
Proof.
  intros i spans. unfold covered. split.
  - intros H s Hs [H1 H2].
    assert (existsb (covers i) spans = true) as E.
    { apply existsb_exists. exists s. split; [exact Hs|]. unfold covers.
      apply andb_true_iff. split; [apply Nat.leb_le|apply Nat.ltb_lt]; assumption. }
    congruence.
  - intro H. destruct (existsb (covers i) spans) eqn:E; [|reflexivity].
    apply existsb_exists in E. destruct E as [s [Hs Hc]]. unfold covers in Hc.
    apply andb_true_iff in Hc. destruct Hc as [H1 H2].
    apply Nat.leb_le in H1. apply Nat.ltb_lt in H2. exfalso. apply (H s Hs). lia.
Qed.

(* the meaning of [uncovered]: position by position *)
Lemma keep_from_In : forall s i spans c,
  In c (keep_from i s spans) -> exists k, nth_error s k = Some c /\ covered (i + k) spans = false.
Proof.
  induction s as [|d s IH]; intros i spans c H; simpl in H; [contradiction|].
  destruct (covered i spans) eqn:E.
  - destruct (IH _ _ _ H) as [k [Hk Hc]]. exists (S k). split; [exact Hk|].
    now replace (i + S k) with (S i + k) by lia.
  - destruct H as [<-|H].
    + exists 0. split; [reflexivity|]. now rewrite Nat.add_0_r.
    + destruct (IH _ _ _ H) as [k [Hk Hc]]. exists (S k). split; [exact Hk|].
      now replace (i + S k) with (S i + k) by lia.
Qed.

Lemma keep_from_length : forall s i spans,
  length (keep_from i s spans) =
  length (filter (fun j => negb (covered j spans)) (seq i (length s))).
Proof.
  induction s as [|c s IH]; intros i spans; simpl; [reflexivity|].
  destruct (covered i spans); simpl; now rewrite IH.
Qed.

(* ---- the copy loop on well-placed spans ---------------------------------- *)
(* spans as the loop meets them: each non-empty and inside the text, starting
   at or behind the write offset (or a repetition of the span just handled),
   everything later being the same span again or beginning behind its end *)
Fixpoint ok_spans (n o : nat) (L : list nspan) : Prop :=
  match L with
  | [] => o <= n
  | s :: L' =>
      fst s < snd s /\ snd s <= n /\ (o <= fst s \/ o = snd s) /\
      Forall (fun t => t = s \/ snd s <= fst t) L' /\ ok_spans n (snd s) L'
  end.

Lemma keep_from_drop_head : forall s i a b L, b <= i ->
  keep_from i s ((a, b) :: L) = keep_from i s L.
Proof.
  intros s i a b L H. apply keep_from_ext. intros j Hj. unfold covered. simpl.
  unfold covers at 1. simpl. replace (j <? b) with false; [now rewrite andb_false_r|].
  symmetry. apply Nat.ltb_ge. lia.
Qed.

Lemma keep_from_step : forall (c : str) a b L o,
  a < b -> b <= length c -> o <= a ->
  Forall (fun t : nspan => t = (a, b) \/ b <= fst t) L ->
  keep_from o (skipn o c) ((a, b) :: L) = slice c o a ++ keep_from b (skipn b c) L.
Proof.
  intros c a b L o Hab Hbn Ho Hall.
  rewrite (skipn_split c o a Ho). rewrite keep_from_app.
  rewrite (slice_length c o a Ho) by lia. replace (o + (a - o)) with a by lia.
  rewrite (keep_from_none (slice c o a)).
  2:{ intros j Hj. rewrite slice_length in Hj by lia.
      apply covered_false_iff. intros s [<-|Hs]; simpl; [lia|].
      rewrite Forall_forall in Hall. destruct (Hall s Hs) as [->|Hge]; simpl in *; lia. }
  f_equal.
  rewrite (skipn_split c a b) by lia. rewrite keep_from_app.
  rewrite (slice_length c a b) by lia. replace (a + (b - a)) with b by lia.
  rewrite (keep_from_all (slice c a b)).
  2:{ intros j Hj. rewrite slice_length in Hj by lia. unfold covered. simpl.
      unfold covers at 1. simpl.
      replace (a <=? j) with true by (symmetry; apply Nat.leb_le; lia).
      replace (j <? b) with true by (symmetry; apply Nat.ltb_lt; lia). reflexivity. }
  simpl. apply keep_from_drop_head. lia.
Qed.

Lemma copy_around_ok : forall c L o,
  ok_spans (length c) o L ->
  copy_around c (Some o) (map ospan_of L) = keep_from o (skipn o c) L.
Proof.
  intros c L. induction L as [|[a b] L IH]; intros o H; simpl in H.
  - simpl. unfold pyslice. rewrite slice_full. symmetry. apply keep_from_none. reflexivity.
  - destruct H as (Hab & Hbn & Ho & Hall & Hrest). simpl in Hab, Hbn, Ho, Hall, Hrest.
    simpl map. simpl copy_around. unfold pyslice at 1. simpl fst. simpl snd.
    rewrite (IH b Hrest).
    destruct Ho as [Ho|Ho].
    + symmetry. now apply keep_from_step.
    + subst o. rewrite slice_empty by lia. simpl. symmetry. apply keep_from_drop_head. lia.
Qed.

(* ---- sorting -------------------------------------------------------------- *)
Section Sort.
Context {K : Type}.
Notation skip := (@skip K).

Lemma insert_skip_ok : forall (x : skip) l, has_start x -> Forall has_start l ->
  StronglySorted start_le l ->
  exists l', insert_skip x l = Ok l' /\ Permutation (x :: l) l' /\ StronglySorted start_le l' /\
             Forall has_start l'.
Proof.
  intros x l [a Ha]. induction l as [|y l IH]; intros Hl Hs; simpl.
  - exists [x]. repeat split; auto. constructor; constructor.
    constructor; [exists a; exact Ha|constructor].
  - inversion Hl as [|? ? [b Hb] Hl']; subst. inversion Hs as [|? ? Hs' Hy]; subst.
    unfold key_lt. rewrite Hb, Ha. simpl. destruct (Nat.ltb b a) eqn:E.
    + destruct (IH Hl' Hs') as (l' & E' & P & S' & F'). rewrite E'. simpl.
      exists (y :: l'). split; [reflexivity|]. split.
      { rewrite perm_swap. now constructor. }
      split.
      { constructor; [exact S'|]. rewrite Forall_forall. intros z Hz.
        apply (Permutation_in _ (Permutation_sym P)) in Hz. destruct Hz as [<-|Hz].
        - unfold start_le. rewrite Hb, Ha. apply Nat.ltb_lt in E. lia.
        - rewrite Forall_forall in Hy. now apply Hy. }
      constructor; [exists b; exact Hb|exact F'].
    + exists (x :: y :: l). split; [reflexivity|]. split; [reflexivity|]. split.
      { constructor; [exact Hs|]. apply Nat.ltb_ge in E.
        constructor.
        - unfold start_le. now rewrite Ha, Hb.
        - rewrite Forall_forall in Hy |- *. intros z Hz. specialize (Hy z Hz).
          unfold start_le in Hy |- *. rewrite Hb in Hy. rewrite Ha.
          destruct (sk_start z); [lia|exact Hy]. }
      constructor; [exists a; exact Ha|exact Hl].
Qed.

Lemma sort_skips_ok : forall (l : list skip), Forall has_start l ->
  exists l', sort_skips l = Ok l' /\ Permutation l l' /\ StronglySorted start_le l' /\
             Forall has_start l'.
Proof.
  induction l as [|x l IH]; intro H; simpl.
  - exists []. repeat split; auto; constructor.
  - inversion H as [|? ? Hx Hl]; subst.
    destruct (IH Hl) as (l' & E & P & S' & F'). rewrite E. simpl.
    destruct (insert_skip_ok x l' Hx F' S') as (l'' & E'' & P'' & S'' & F'').
    exists l''. split; [exact E''|]. split; [|split; assumption].
    rewrite <- P''. now constructor.
Qed.

(* an already sorted list is left as it is *)
Lemma sort_skips_sorted : forall (l : list skip), StronglySorted start_le l ->
  Forall has_start l -> sort_skips l = Ok l.
Proof.
  induction l as [|x l IH]; intros Hs Hl; [reflexivity|].
  inversion Hs as [|? ? Hs' Hx]; subst. inversion Hl as [|? ? [a Ha] Hl']; subst.
  simpl. rewrite (IH Hs' Hl'). simpl. destruct l as [|y l]; [reflexivity|].
  simpl. inversion Hx as [|? ? Hxy _]; subst. unfold start_le in Hxy. rewrite Ha in Hxy.
  destruct (sk_start y) as [b|] eqn:Hb; [|contradiction].
  unfold key_lt. rewrite Ha. simpl.
  replace (Nat.ltb b a) with false by (symmetry; apply Nat.ltb_ge; lia). reflexivity.
Qed.

(* comparing with None: every list of two or more skips one of which has no
   start makes the sort raise *)
Lemma insert_skip_none : forall (x : skip) y l, sk_start x = None ->
  insert_skip x (y :: l) = Raise TypeError.
Proof.
  intros x y l H. simpl. unfold key_lt. rewrite H. destruct (sk_start y); reflexivity.
Qed.

Lemma insert_skip_raises_or_has : forall (x : skip) l l',
  insert_skip x l = Ok l' -> l' <> [] /\ (forall z, In z l -> In z l') /\ In x l'.
Proof.
  intros x l. induction l as [|y l IH]; intros l' H; simpl in H.
  - inversion H; subst. split; [discriminate|]. split; [intros z []|now left].
  - destruct (key_lt (sk_start y) (sk_start x)) as [b|] eqn:E; simpl in H; [|discriminate].
    destruct b.
    + destruct (insert_skip x l) as [r|] eqn:E2; simpl in H; [|discriminate].
      inversion H; subst. destruct (IH r eq_refl) as (_ & Hin & Hx).
      split; [discriminate|]. split; [|now right].
      intros z [<-|Hz]; [now left|right; auto].
    + inversion H; subst. split; [discriminate|]. split; [|now left].
      intros z Hz. now right.
Qed.

Lemma insert_skip_has_start : forall (x : skip) l l',
  l <> [] -> insert_skip x l = Ok l' -> has_start x.
Proof.
  intros x [|y l] l' Hne H; [contradiction|]. simpl in H.
  unfold key_lt in H. destruct (sk_start y); [|discriminate].
  destruct (sk_start x) as [a|] eqn:E; [now exists a|discriminate].
Qed.

Lemma sort_skips_all_started : forall (l : list skip) l',
  2 <= length l -> sort_skips l = Ok l' -> Forall has_start l.
Proof.
  induction l as [|x l IH]; intros l' Hlen H; [simpl in Hlen; lia|].
  simpl in H. destruct (sort_skips l) as [s|] eqn:E; simpl in H; [|discriminate].
  destruct l as [|y l].
  - simpl in Hlen. lia.
  - assert (s <> []) as Hne.
    { simpl in E. destruct (sort_skips l) as [s0|]; simpl in E; [|discriminate].
      now destruct (insert_skip_raises_or_has _ _ _ E). }
    pose proof (insert_skip_has_start x s l' Hne H) as Hx.
    constructor; [exact Hx|].
    destruct l as [|z l].
    + (* exactly two: y was compared with x *)
      simpl in E. inversion E; subst. simpl in H. unfold key_lt in H.
      destruct (sk_start y) as [b|] eqn:Hb; [|discriminate].
      constructor; [now exists b|constructor].
    + apply (IH s); [simpl; lia|reflexivity].
Qed.

Lemma sort_skips_raises : forall (l : list skip),
  2 <= length l -> (exists x, In x l /\ sk_start x = None) -> sort_skips l = Raise TypeError.
Proof.
  intros l Hlen [x [Hx Hn]].
  destruct (sort_skips l) as [l'|t] eqn:E.
  - pose proof (sort_skips_all_started l l' Hlen E) as F. rewrite Forall_forall in F.
    destruct (F x Hx) as [a Ha]. congruence.
  - (* the only tag the model can raise here *)
    clear Hx Hn Hlen x. revert t E. induction l as [|y l IH]; intros t E; [discriminate|].
    simpl in E. destruct (sort_skips l) as [s|t'] eqn:E2; simpl in E.
    + clear IH E2. revert t E. induction s as [|z s IHs]; intros t E; [discriminate|].
      simpl in E. unfold key_lt in E.
      destruct (sk_start z); [|inversion E; reflexivity].
      destruct (sk_start y); [|inversion E; reflexivity]. simpl in E.
      destruct (Nat.ltb n n0); [|discriminate].
      destruct (insert_skip y s) eqn:E3; simpl in E; [discriminate|].
      inversion E; subst. f_equal. specialize (IHs t eq_refl). now inversion IHs.
    + inversion E; subst. now apply IH.
Qed.

Lemma sort_skips_short : forall (l : list skip), length l <= 1 -> sort_skips l = Ok l.
Proof.
  intros [|x [|y l]] H; try reflexivity. simpl in H. lia.
Qed.

(* whenever the sort returns, it returns a permutation *)
Lemma sort_skips_perm : forall (l l' : list skip), sort_skips l = Ok l' -> Permutation l l'.
Proof.
  intros l l' H. destruct (le_lt_dec (length l) 1) as [Hs|Hl].
  - rewrite (sort_skips_short l Hs) in H. inversion H. reflexivity.
  - pose proof (sort_skips_all_started l l' Hl H) as F.
    destruct (sort_skips_ok l F) as (l'' & E & P & _). rewrite E in H. inversion H; subst. exact P.
Qed.

Lemma NoDup_app_intro : forall {A} (l1 l2 : list A),
  NoDup l1 -> NoDup l2 -> (forall x, In x l1 -> In x l2 -> False) -> NoDup (l1 ++ l2).
Proof.
  intros A l1 l2 H1 H2 Hd. induction l1 as [|x l1 IH]; simpl; [exact H2|].
  inversion H1 as [|? ? Hx Hl]; subst. constructor.
  - intro Hin. apply in_app_or in Hin. destruct Hin as [Hin|Hin]; [now apply Hx|].
    apply (Hd x); [now left|exact Hin].
  - apply IH; [exact Hl|]. intros y Hy. apply Hd. now right.
Qed.

Lemma NoDup_map_filter : forall {A B} (f : A -> B) (p : A -> bool) (l : list A),
  NoDup (map f l) -> NoDup (map f (filter p l)).
Proof.
  intros A B f p l. induction l as [|x l IH]; intro H; simpl; [constructor|].
  inversion H as [|? ? Hx Hl]; subst. destruct (p x); simpl; [|now apply IH].
  constructor; [|now apply IH]. intro Hin. apply Hx.
  apply in_map_iff in Hin. destruct Hin as [y [Ey Hy]]. apply filter_In in Hy.
  apply in_map_iff. exists y. tauto.
Qed.

(* every reference text is appended once: the keys whose texts are appended are
   pairwise different when the skip list names each entity once *)
Lemma appended_keys_nodup : forall (skips sorted : list skip) (missing : list K),
  NoDup (map sk_key skips) -> NoDup missing ->
  (forall k, In k missing -> ~ In k (map sk_key skips)) ->
  sort_skips skips = Ok sorted ->
  NoDup (missing ++ map sk_key (non_junk sorted)).
Proof.
  intros skips sorted missing Hs Hm Hd E.
  pose proof (sort_skips_perm _ _ E) as P.
  assert (NoDup (map sk_key sorted)) as Hs'.
  { eapply Permutation_NoDup; [apply Permutation_map; exact P|exact Hs]. }
  apply NoDup_app_intro; [exact Hm|now apply NoDup_map_filter|].
  intros k Hk Hk'. apply (Hd k Hk).
  unfold non_junk in Hk'. apply in_map_iff in Hk'. destruct Hk' as [y [Ey Hy]].
  apply filter_In in Hy. destruct Hy as [Hy _].
  apply in_map_iff. exists y. split; [exact Ey|].
  apply (Permutation_in _ (Permutation_sym P) Hy).
Qed.

End Sort.

(* ---- the splice theorem --------------------------------------------------- *)
Section Splice.
Context {K : Type}.
Notation skip := (@skip K).

Lemma placed_span : forall n (s : skip), placed n s -> sk_span s = ospan_of (nsp s).
Proof. intros n s (a & b & E & _). unfold nsp. now rewrite E. Qed.

Lemma placed_nsp : forall n (s : skip), placed n s -> fst (nsp s) < snd (nsp s) /\ snd (nsp s) <= n.
Proof. intros n s (a & b & E & H). unfold nsp. rewrite E. exact H. Qed.

Lemma placed_start : forall n (s : skip), placed n s -> sk_start s = Some (fst (nsp s)).
Proof. intros n s (a & b & E & _). unfold sk_start, nsp. now rewrite E. Qed.

Lemma ok_of_sorted : forall n (l : list skip) o,
  StronglySorted start_le l ->
  (forall s, In s l -> placed n s) ->
  (forall s t, In s l -> In t l -> apart s t) ->
  o <= n ->
  match l with [] => True | s :: _ => o <= fst (nsp s) \/ o = snd (nsp s) end ->
  ok_spans n o (map nsp l).
Proof.
  intros n l. induction l as [|s l IH]; intros o Hs Hp Ha Ho Hh; simpl; [exact Ho|].
  inversion Hs as [|? ? Hs' Hle]; subst.
  destruct (placed_nsp n s (Hp s (or_introl eq_refl))) as [H1 H2].
  assert (Forall (fun t => t = nsp s \/ snd (nsp s) <= fst t) (map nsp l)) as HF.
  { rewrite Forall_forall. intros t Ht. apply in_map_iff in Ht. destruct Ht as [u [<- Hu]].
    rewrite Forall_forall in Hle. specialize (Hle u Hu). unfold start_le in Hle.
    rewrite (placed_start n s) in Hle by (apply Hp; now left).
    rewrite (placed_start n u) in Hle by (apply Hp; now right).
    destruct (placed_nsp n u (Hp u (or_intror Hu))) as [H3 H4].
    destruct (Ha s u (or_introl eq_refl) (or_intror Hu)) as [E|[E|E]];
      [left; now rewrite E|right; exact E|lia]. }
  repeat split; try assumption.
  apply IH; try assumption.
  - intros; apply Hp; now right.
  - intros; apply Ha; now right.
  - destruct l as [|u l]; [exact I|].
    inversion HF as [|? ? [E|E] _]; subst; [right; now rewrite E|left; exact E].
Qed.

Theorem splice_any_order : forall (contents : str) (skips : list skip),
  (forall s, In s skips -> placed (length contents) s) ->
  (forall s t, In s skips -> In t skips -> apart s t) ->
  exists sorted, sort_skips skips = Ok sorted /\ Permutation skips sorted /\
    remove_spans contents (map sk_span sorted) = uncovered contents (map nsp skips).
Proof.
  intros contents skips Hp Ha.
  assert (Forall has_start skips) as HF.
  { rewrite Forall_forall. intros s Hs. exists (fst (nsp s)). apply (placed_start _ _ (Hp s Hs)). }
  destruct (sort_skips_ok skips HF) as (sorted & E & P & S' & _).
  exists sorted. split; [exact E|]. split; [exact P|].
  assert (forall s, In s sorted -> placed (length contents) s) as Hp'.
  { intros s Hs. apply Hp. apply (Permutation_in _ (Permutation_sym P) Hs). }
  assert (map sk_span sorted = map ospan_of (map nsp sorted)) as ->.
  { rewrite map_map. apply map_ext_in. intros s Hs. apply (placed_span _ _ (Hp' s Hs)). }
  unfold remove_spans. rewrite copy_around_ok.
  - simpl. unfold uncovered. apply keep_from_ext. intros j _. apply covered_perm.
    apply Permutation_map. now apply Permutation_sym.
  - apply ok_of_sorted; try assumption.
    + intros s t Hs Ht. apply Ha; apply (Permutation_in _ (Permutation_sym P)); assumption.
    + lia.
    + destruct sorted; [exact I|left; lia].
Qed.

End Splice.

(* ---- block level: the localization as a list of blocks ------------------- *)
Lemma slice_app_left : forall (p q : str) o, o <= length p ->
  slice (p ++ q) o (length p) = skipn o p.
Proof.
  intros p q o H. unfold slice. rewrite skipn_app.
  replace (o - length p) with 0 by lia. simpl.
  rewrite firstn_app. rewrite skipn_length.
  replace (length p - o - (length p - o)) with 0 by lia. simpl. rewrite app_nil_r.
  rewrite <- (skipn_length o p). apply firstn_all.
Qed.

Lemma copy_around_blocks : forall bs (pre : str) o, o <= length pre ->
  copy_around (pre ++ concat (map snd bs)) (Some o)
              (map ospan_of (block_spans (length pre) bs))
  = skipn o pre ++ concat (kept_blocks bs).
Proof.
  induction bs as [|[skipped t] bs IH]; intros pre o Ho.
  - simpl. unfold pyslice. rewrite slice_full. rewrite app_nil_r. now rewrite app_nil_r.
  - simpl map. simpl concat. simpl block_spans.
    specialize (IH (pre ++ t)). rewrite app_length in IH. rewrite <- app_assoc in IH.
    destruct skipped.
    + simpl app. simpl map. simpl copy_around. unfold pyslice at 1. simpl fst. simpl snd.
      rewrite (IH (length pre + length t)) by lia.
      rewrite slice_app_left by exact Ho. f_equal.
      unfold kept_blocks at 2. simpl.
      replace (skipn (length pre + length t) (pre ++ t)) with (@nil N); [reflexivity|].
      symmetry. rewrite <- app_length. apply skipn_all.
    + simpl app. rewrite (IH o) by lia. unfold kept_blocks. simpl.
      rewrite skipn_app. replace (o - length pre) with 0 by lia. simpl.
      now rewrite <- app_assoc.
Qed.

Theorem remove_block_spans : forall bs,
  remove_spans (concat (map snd bs)) (map ospan_of (block_spans 0 bs)) = concat (kept_blocks bs).
Proof.
  intro bs. unfold remove_spans. exact (copy_around_blocks bs [] 0 (le_n 0)).
Qed.

(* ---- merge, branch by branch ---------------------------------------------- *)
Section MergeFacts.
Context {K : Type} (keqb : K -> K -> bool).
Notation skip := (@skip K).

Lemma has_none_false : forall flag, has can_none flag = false.
Proof. intro flag. unfold has, can_none. reflexivity. Qed.

Lemma has_not_none : forall caps flag, has caps flag = true -> N.eqb caps can_none = false.
Proof.
  intros caps flag H. destruct (N.eqb caps can_none) eqn:E; [|reflexivity].
  apply N.eqb_eq in E. subst. now rewrite has_none_false in H.
Qed.

Lemma merge_no_file : forall caps contents skips missing refs,
  merge keqb false caps contents skips missing refs = Ok NoFile.
Proof. reflexivity. Qed.

Lemma merge_none : forall mf contents skips missing refs,
  merge keqb mf can_none contents skips missing refs = Ok NoFile.
Proof. intros [|]; reflexivity. Qed.

Lemma merge_copy : forall caps contents (skips : list skip) missing refs,
  has caps can_copy = true ->
  merge keqb true caps contents skips missing refs =
  Ok (if nonempty skips || nonempty missing then CopyRef else CopyL10n).
Proof.
  intros caps contents skips missing refs H. unfold merge. simpl negb.
  now rewrite (has_not_none _ _ H), H.
Qed.

Lemma merge_identity : forall caps contents refs,
  has caps can_copy = true \/ has caps can_skip = true ->
  merge keqb true caps contents [] [] refs = Ok CopyL10n.
Proof.
  intros caps contents refs [H|H].
  - now rewrite merge_copy.
  - unfold merge. simpl negb. rewrite (has_not_none _ _ H), H.
    destruct (has caps can_copy); [reflexivity|]. simpl.
    destruct (has caps can_merge); reflexivity.
Qed.

(* without CAN_COPY and CAN_MERGE the result is a function of the capabilities,
   the contents and the skips alone *)
Lemma merge_skip_only : forall caps contents (skips : list skip) missing refs,
  has caps can_copy = false -> has caps can_merge = false ->
  merge keqb true caps contents skips missing refs =
  if N.eqb caps can_none then Ok NoFile
  else if negb (has caps can_skip) then Ok DirOnly
  else match skips with
       | [] => Ok CopyL10n
       | _ => do sorted <- sort_skips skips;
              Ok (Write (remove_spans contents (map sk_span sorted)))
       end.
Proof.
  intros caps contents skips missing refs Hc Hm. unfold merge. simpl negb. rewrite Hc, Hm.
  destruct (N.eqb caps can_none); [reflexivity|].
  destruct (has caps can_skip); simpl; [|reflexivity].
  destruct skips as [|s skips]; [reflexivity|]. simpl nonempty. cbv iota.
  destruct (sort_skips (s :: skips)); reflexivity.
Qed.

Lemma merge_append : forall caps contents (skips : list skip) missing refs sorted ms ss,
  has caps can_copy = false -> has caps can_skip = true -> has caps can_merge = true ->
  nonempty skips || nonempty missing = true ->
  sort_skips skips = Ok sorted ->
  map_result (ref_all keqb refs) missing = Ok ms ->
  map_result (fun s => ref_all keqb refs (sk_key s)) (non_junk sorted) = Ok ss ->
  merge keqb true caps contents skips missing refs =
  Ok (let t := [10%N] ++ concat (map ensure_newline (ms ++ ss)) in
      if nonempty skips
      then Write (remove_spans contents (map sk_span sorted) ++ t)
      else CopyL10nAppend t).
Proof.
  intros caps contents skips missing refs sorted ms ss Hc Hs Hm Hne Hsort Hms Hss.
  unfold merge. simpl negb. rewrite (has_not_none _ _ Hs), Hc, Hs, Hm. simpl.
  assert ((if nonempty skips then sort_skips skips else Ok skips) = Ok sorted) as ->.
  { destruct skips; [simpl in Hsort; inversion Hsort; reflexivity|exact Hsort]. }
  simpl. rewrite Hne. unfold trailing. rewrite Hms, Hss. simpl.
  unfold appended_text. simpl. unfold ensure_newline at 1. simpl.
  destruct (nonempty skips); reflexivity.
Qed.

(* nothing else is ever raised by the sort, and the other branches do not raise *)
Lemma merge_raises_only_by_sort_or_lookup : forall caps contents (skips : list skip) missing refs t,
  merge keqb true caps contents skips missing refs = Raise t ->
  has caps can_copy = false /\ has caps can_skip = true /\
  (sort_skips skips = Raise t \/
   exists sorted, sort_skips skips = Ok sorted /\ has caps can_merge = true /\
                  trailing keqb refs missing sorted = Raise t).
Proof.
  intros caps contents skips missing refs t. unfold merge. simpl negb.
  destruct (N.eqb caps can_none); [discriminate|].
  destruct (has caps can_copy); [discriminate|].
  destruct (has caps can_skip); simpl; [|discriminate].
  intro H. split; [reflexivity|]. split; [reflexivity|].
  destruct skips as [|s skips].
  - simpl in H. right. exists []. split; [reflexivity|].
    destruct (has caps can_merge); [|discriminate]. split; [reflexivity|].
    destruct (nonempty missing); [|discriminate].
    destruct (trailing keqb refs missing []); [discriminate|]. simpl in H. now inversion H.
  - simpl nonempty in H. cbv iota in H.
    destruct (sort_skips (s :: skips)) as [sorted|t'] eqn:E; simpl in H.
    + right. exists sorted. split; [reflexivity|].
      destruct (has caps can_merge); [|discriminate]. split; [reflexivity|].
      destruct (trailing keqb refs missing sorted); [discriminate|]. simpl in H. now inversion H.
    + left. now inversion H.
Qed.

End MergeFacts.

(* ---- effects --------------------------------------------------------------- *)
Section EffectFacts.
Context {P B : Type} (peqb : P -> P -> bool) (enc : str -> list B).
Hypothesis peqb_true : forall p q, peqb p q = true -> p = q.

Lemma apply_action_elsewhere : forall mf l10n ref a (f : fs (P := P) (B := B)) p,
  p <> mf -> apply_action peqb enc mf l10n ref a f p = f p.
Proof.
  intros mf l10n ref a f p Hp. unfold apply_action.
  destruct (staged enc _ _ a); [|reflexivity].
  destruct (peqb p mf) eqn:E; [|reflexivity]. apply peqb_true in E. contradiction.
Qed.

End EffectFacts.
