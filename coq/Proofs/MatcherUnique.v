(* Uniqueness of the decomposition of a path against a pattern whose variables
   are all bound: the node list is read as a shape F0 W1 F1 ... Wn Fn and
   PathUnique.shape_unique applies. *)
From Coq Require Import NArith List Bool Arith Lia.
From CL Require Import Base.Sx Base.Res Base.Str Model.Pattern Model.Matcher
  Proofs.MatcherBase Proofs.MatcherSpec Proofs.PathUnique.
Import ListNotations.

Definition fixed_text (e : env) (n : node) : option str :=
  match n with
  | NLit t => Some t
  | NVar name _ => match lookup name e with Some v => value_text v | None => None end
  | _ => None
  end.

Definition is_wild (n : node) : bool :=
  match n with NStar _ | NStarstar _ _ => true | _ => false end.

Fixpoint shape_of (e : env) (ns : list node) : str * list wild :=
  match ns with
  | [] => ([], [])
  | n :: ns' =>
      let (F, ws) := shape_of e ns' in
      match n with
      | NStar _ => ([], (WStar, F) :: ws)
      | NStarstar _ suffix => ([], (WSS suffix, F) :: ws)
      | _ => (match fixed_text e n with Some t => t | None => [] end ++ F, ws)
      end
  end.

(* the piece of a node: the fixed text, or a value of the wildcard's kind *)
Definition pfit (e : env) (n : node) (p : str) : Prop :=
  match n with
  | NStar _ => has_char sl p = false
  | NStarstar _ suffix => p = [] \/ exists b, p = b ++ suffix
  | NAndroid _ => False
  | _ => fixed_text e n = Some p
  end.

Fixpoint wild_pieces (ns : list node) (ps : list str) : list str :=
  match ns, ps with
  | n :: ns', p :: ps' =>
      if is_wild n then p :: wild_pieces ns' ps' else wild_pieces ns' ps'
  | _, _ => []
  end.

Lemma shape_decomp : forall e ns ps, Forall2 (pfit e) ns ps ->
  concat ps = fst (shape_of e ns) ++ body (snd (shape_of e ns)) (wild_pieces ns ps) /\
  Forall2 fit (map fst (snd (shape_of e ns))) (wild_pieces ns ps).
Proof.
  intros e ns ps HF. induction HF as [|n p ns ps Hp HF [IH1 IH2]]; simpl.
  - split; [reflexivity|constructor].
  - destruct (shape_of e ns) as [F ws] eqn:Es. simpl in IH1, IH2.
    destruct n as [t|name rep|rep|k|k suffix]; simpl in *.
    + inversion Hp; subst. rewrite IH1, <- app_assoc. auto.
    + rewrite Hp. rewrite IH1, <- app_assoc. auto.
    + contradiction.
    + rewrite IH1. split; [reflexivity|]. constructor; auto. constructor. exact Hp.
    + rewrite IH1. split; [reflexivity|]. constructor; auto. constructor. exact Hp.
Qed.

Lemma rebuild : forall e ns X Y, Forall2 (pfit e) ns X -> Forall2 (pfit e) ns Y ->
  wild_pieces ns X = wild_pieces ns Y -> X = Y.
Proof.
  intros e ns X Y HX. revert Y. induction HX as [|n p ns X Hp HX IH]; intros Y HY Hw;
    inversion HY as [|? q ? Y' Hq HY']; subst; auto.
  destruct n as [t|name rep|rep|k|k suffix]; simpl in *.
  - f_equal; [congruence|auto].
  - f_equal; [congruence|auto].
  - contradiction.
  - injection Hw as E1 E2. f_equal; auto.
  - injection Hw as E1 E2. f_equal; auto.
Qed.

Theorem pieces_unique : forall e ns X Y,
  Forall2 (pfit e) ns X -> Forall2 (pfit e) ns Y ->
  shape_ok (snd (shape_of e ns)) -> concat X = concat Y -> X = Y.
Proof.
  intros e ns X Y HX HY Hs Hc.
  destruct (shape_decomp e ns X HX) as [D1 D2]. destruct (shape_decomp e ns Y HY) as [D3 D4].
  rewrite D1, D3 in Hc. apply app_inv_head in Hc.
  eapply rebuild; eauto. eapply shape_unique; eauto.
Qed.
