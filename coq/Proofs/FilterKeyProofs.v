(* C14: the compiled form of a literal key, `re.escape(key) + "$"` used with
   `.match`, accepts exactly the key and the key followed by one newline. *)
From Coq Require Import NArith List Bool Arith Lia.
From CL Require Import Base.Str Regex.Rx Regex.RxLemmas Generated.FilterFacts Generated.RxC14
  Model.Filter.
Import ListNotations.

Lemma f_str_eqb_eq : forall a b : str, str_eqb a b = true <-> a = b.
Proof.
  unfold str_eqb. induction a as [|x a IH]; destruct b as [|y b]; simpl; split; intro H;
    try reflexivity; try discriminate.
  - apply andb_true_iff in H. destruct H as [H1 H2]. apply N.eqb_eq in H1. apply IH in H2.
    congruence.
  - injection H as -> ->. rewrite N.eqb_refl. simpl. apply IH. reflexivity.
Qed.

Lemma f_str_eqb_refl : forall a, str_eqb a a = true.
Proof. intro a. apply f_str_eqb_eq. reflexivity. Qed.

(* the fact the model of literal keys rests on; breaks when the source appends
   something else than "$" *)
Lemma key_suffix_is_eol : rx_c14_key_suffix = Eol false.
Proof. reflexivity. Qed.

Lemma chr_single : forall a c, chr_ok false [(a, a)] c = N.eqb a c.
Proof.
  intros a c. unfold chr_ok, in_ranges. simpl. rewrite orb_false_r.
  destruct (N.eqb_spec a c) as [->|Hne].
  - rewrite N.leb_refl. reflexivity.
  - destruct (N.leb_spec a c), (N.leb_spec c a); simpl; try reflexivity. lia.
Qed.

Lemma m_lit_rx : forall s z k,
  m (lit_rx s) z k =
  match lit s z with
  | Some z' => if at_eol false z' then k z' else Fail
  | None => Fail
  end.
Proof.
  unfold lit_rx. rewrite key_suffix_is_eol.
  induction s as [|a s IH]; intros z k; simpl.
  - reflexivity.
  - destruct (suf z) as [|c t] eqn:E; [reflexivity|].
    pose proof (chr_single a c) as Hc. unfold chr_ok, in_ranges in Hc. simpl in Hc. rewrite Hc.
    destruct (N.eqb a c); [|reflexivity]. apply IH.
Qed.

Lemma lit_suf : forall s z,
  match lit s z with
  | Some z' => suf z = s ++ suf z'
  | None => forall t, suf z <> s ++ t
  end.
Proof.
  induction s as [|a s IH]; intros z; simpl.
  - reflexivity.
  - destruct (suf z) as [|c t] eqn:E.
    + intros t' H. discriminate.
    + destruct (N.eqb_spec a c) as [->|Hne].
      * specialize (IH (advance z c t)). destruct (lit s (advance z c t)) as [z'|].
        -- simpl in IH. rewrite IH. reflexivity.
        -- simpl in IH. intros t' H. injection H as H. exact (IH t' H).
      * intros t' H. injection H as H _. congruence.
Qed.

Lemma app_eq_self : forall (k t : str), k = k ++ t -> t = [].
Proof.
  intros k t H. rewrite <- (app_nil_r k) in H at 1. apply app_inv_head in H. congruence.
Qed.

Lemma eqb_false_of : forall (a b : str), a <> b -> str_eqb a b = false.
Proof.
  intros a b H. destruct (str_eqb a b) eqn:Q; [|reflexivity]. apply f_str_eqb_eq in Q. contradiction.
Qed.

(* `re.compile(re.escape(k) + "$").match(e)`: e is k, or k and a final newline *)
Theorem lit_key_match : forall k e,
  key_match (lit_rx k) e = str_eqb e k || str_eqb e (k ++ [10%N]).
Proof.
  intros k e. unfold key_match, rmatch. simpl (length e <? 0).
  unfold run_at. rewrite m_lit_rx.
  pose proof (lit_suf k (st_at e 0)) as H.
  destruct (lit k (st_at e 0)) as [z'|].
  - unfold st_at in H. simpl in H. unfold at_eol.
    destruct (suf z') as [|c t] eqn:E.
    + simpl. rewrite app_nil_r in H. rewrite H. rewrite f_str_eqb_refl. reflexivity.
    + simpl. destruct (N.eqb_spec c nlc) as [->|Hne]; simpl.
      * destruct t as [|d t].
        -- simpl. rewrite H. unfold nlc. rewrite f_str_eqb_refl. apply eq_sym, orb_true_r.
        -- simpl. symmetry. apply orb_false_iff. split; apply eqb_false_of; intro Q;
             rewrite Q in H.
           ++ apply app_eq_self in H. discriminate.
           ++ apply app_inv_head in H. discriminate.
      * symmetry. apply orb_false_iff. split; apply eqb_false_of; intro Q; rewrite Q in H.
        -- apply app_eq_self in H. discriminate.
        -- apply app_inv_head in H. injection H as H _. unfold nlc in Hne. congruence.
  - simpl. symmetry. apply orb_false_iff. unfold st_at in H. simpl in H.
    split; apply eqb_false_of; intro Q.
    + apply (H []). rewrite app_nil_r. exact Q.
    + exact (H _ Q).
Qed.

(* the engine never runs out of fuel: the MFuel branch of is_match is dead *)
Theorem key_match_no_fuel : forall r e, rmatch r e 0 <> MFuel.
Proof. intros r e. apply rmatch_no_fuel. Qed.
