(* C01 for Fluent: FluentParser.walk over a well-formed oracle body loses
   nothing.  The statement is in Proofs/FluentWalkSpec.v. *)
From Coq Require Import NArith List Bool Arith Lia.
From CL Require Import Base.Sx Base.Res Base.Str Regex.Rx Model.Entry Model.Parse
  Model.ParseFluent Proofs.WalkSpec Proofs.WalkProofs Proofs.FluentWalkSpec.
Import ListNotations.

Local Arguments Nat.ltb : simpl never.
Local Arguments Nat.leb : simpl never.

(* ---- chains: entries that tile [a, b) --------------------------------------- *)
Fixpoint chain (a : nat) (es : list entry) (b : nat) : Prop :=
  match es with
  | [] => a = b
  | e :: es' => span_start e = a /\ a < snd (e_span e) /\ chain (snd (e_span e)) es' b
  end.

Lemma chain_app : forall es1 es2 a b c,
  chain a es1 b -> chain b es2 c -> chain a (es1 ++ es2) c.
Proof.
  induction es1 as [|e es1 IH]; intros es2 a b c H1 H2; simpl in *.
  - subst b. exact H2.
  - destruct H1 as [Hs [Hlt Hr]]. repeat split; try assumption.
    eapply IH; eassumption.
Qed.

Lemma chain_one : forall e a b,
  span_start e = a -> snd (e_span e) = b -> a < b -> chain a [e] b.
Proof. intros e a b Hs He Hlt. simpl. subst. auto. Qed.

(* each entry is non-empty, so there are at most b - a of them *)
Lemma chain_length : forall es a b, chain a es b -> a + length es <= b.
Proof.
  induction es as [|e es IH]; intros a b H; simpl in *.
  - lia.
  - destruct H as [Hs [Hlt Hr]]. apply IH in Hr. lia.
Qed.

Lemma chain_le : forall es a b, chain a es b -> a <= b.
Proof. intros es a b H. apply chain_length in H. lia. Qed.

Lemma chain_tiles : forall (s : str) es a, chain a es (length s) -> tiles s a es.
Proof.
  intros s. induction es as [|e es IH]; intros a H; simpl in *.
  - lia.
  - destruct H as [Hs [Hlt Hr]]. repeat split; try assumption.
    + eapply chain_le; eassumption.
    + apply IH. exact Hr.
Qed.

Lemma chain_concat : forall (s : str) es a b, chain a es b -> b <= length s ->
  concat (map (all_text s) es) ++ skipn b s = skipn a s.
Proof.
  intros s. induction es as [|e es IH]; intros a b H Hb; simpl in *.
  - subst b. reflexivity.
  - destruct H as [Hs [Hlt Hr]]. rewrite <- app_assoc.
    rewrite (IH _ _ Hr Hb). unfold all_text. rewrite Hs.
    apply slice_skipn; [lia|].
    apply chain_le in Hr. lia.
Qed.

(* the generic bound asked for: tiling entries are at most one per character *)
Lemma tiles_length : forall (s : str) es off, tiles s off es -> length es <= length s - off.
Proof.
  intros s. induction es as [|e es IH]; intros off H; simpl in *.
  - lia.
  - destruct H as [Hs [Hlt [Hle Hr]]]. apply IH in Hr. lia.
Qed.

Section FluentProofs.
Context (reLead reTrail : rx).
Hypothesis Htrim : trim_ok reLead reTrail.

Lemma junk_trim : forall (s : str) a b, a < b -> b <= length s ->
  lead reLead (trim_content (slice s a b)) + trail reTrail (trim_content (slice s a b)) < b - a.
Proof.
  intros s a b Hab Hb.
  assert (Hl : length (slice s a b) = b - a).
  { unfold slice. rewrite firstn_length, skipn_length. lia. }
  rewrite <- Hl. apply Htrim. intros E. rewrite E in Hl. simpl in Hl. lia.
Qed.

Lemma gap_chain : forall a b, a <= b -> chain a (gap false a b) b.
Proof.
  intros a b H. unfold gap. simpl. destruct (a <? b) eqn:E.
  - apply Nat.ltb_lt in E. apply chain_one; [reflexivity|reflexivity|exact E].
  - apply Nat.ltb_ge in E. simpl. lia.
Qed.

Lemma gap_spans_inside : forall a b, Forall spans_inside (gap false a b).
Proof.
  intros a b. unfold gap. simpl. destruct (a <? b).
  - constructor; [|constructor]. intros Hk. discriminate Hk.
  - constructor.
Qed.

Lemma gap_true : forall a b, gap true a b = [].
Proof. reflexivity. Qed.

Lemma gap_filter : forall a b, filter is_localizable (gap false a b) = [].
Proof. intros a b. unfold gap. simpl. destruct (a <? b); reflexivity. Qed.

(* ---- the walk tiles [last, length s) ---------------------------------------- *)
Lemma walk_fluent_chain : forall s body last,
  body_ok s last body ->
  chain last (walk_fluent_from reLead reTrail false last body (length s)) (length s).
Proof.
  intros s. induction body as [|e rest IH]; intros last H; simpl in *.
  - apply gap_chain. exact H.
  - destruct H as [Hla [Hab [Hb [Hok Hrest]]]].
    eapply chain_app; [apply gap_chain; exact Hla|].
    eapply chain_app; [|apply IH; exact Hrest].
    unfold fentry_ok in Hok.
    destruct (f_kind e).
    + apply chain_one; [reflexivity|reflexivity|exact Hab].
    + apply chain_one; [reflexivity|reflexivity|exact Hab].
    + pose proof (junk_trim s _ _ Hab Hb) as Hlt. rewrite <- Hok in Hlt.
      set (l := lead reLead (trim_content (f_content e))) in *.
      set (t := trail reTrail (trim_content (f_content e))) in *.
      eapply chain_app; [apply gap_chain; lia|].
      simpl. split; [reflexivity|]. split; [lia|].
      apply gap_chain. lia.
    + apply chain_one; [reflexivity|reflexivity|exact Hab].
    + contradiction.
Qed.

Lemma walk_fluent_spans_inside : forall s body last,
  body_ok s last body ->
  Forall spans_inside (walk_fluent_from reLead reTrail false last body (length s)).
Proof.
  intros s. induction body as [|e rest IH]; intros last H; simpl in *.
  - apply gap_spans_inside.
  - destruct H as [Hla [Hab [Hb [Hok Hrest]]]].
    apply Forall_app. split; [apply gap_spans_inside|].
    apply Forall_app. split; [|apply IH; exact Hrest].
    unfold fentry_ok in Hok. unfold fluent_entity.
    destruct (f_kind e) eqn:Ek.
    + destruct Hok as [H1 [H2 [H3 H4]]].
      constructor; [|constructor]. intros _.
      unfold span_start; simpl. split; [|exact H4].
      intros sp Hsp. injection Hsp as <-. lia.
    + destruct Hok as [H1 [H2 [H3 H4]]].
      constructor; [|constructor]. intros _.
      unfold span_start; simpl. split; [|exact H4].
      intros sp Hsp. injection Hsp as <-. simpl. lia.
    + apply Forall_app. split; [apply gap_spans_inside|].
      constructor; [|apply gap_spans_inside]. intros Hk. discriminate Hk.
    + constructor; [|constructor]. intros Hk. discriminate Hk.
    + constructor.
Qed.

(* the localizable run is the full run with gaps and comments dropped; this
   needs nothing of the body *)
Lemma walk_fluent_filter : forall body last eof,
  walk_fluent_from reLead reTrail true last body eof =
  filter is_localizable (walk_fluent_from reLead reTrail false last body eof).
Proof.
  induction body as [|e rest IH]; intros last eof; simpl.
  - rewrite gap_filter. reflexivity.
  - rewrite !filter_app, gap_filter, <- IH, !gap_true. simpl.
    f_equal. destruct (f_kind e); simpl; try reflexivity.
    rewrite !filter_app, !gap_filter. simpl. rewrite gap_filter. reflexivity.
Qed.

Lemma walk_fluent_from_lossless : forall s body last,
  body_ok s last body ->
  let es := walk_fluent_from reLead reTrail false last body (length s) in
  length es <= length s - last /\
  concat (map (all_text s) es) = skipn last s /\
  tiles s last es /\
  Forall spans_inside es /\
  walk_fluent_from reLead reTrail true last body (length s) = filter is_localizable es.
Proof.
  intros s body last H es.
  pose proof (walk_fluent_chain s body last H) as Hc. fold es in Hc.
  pose proof (chain_tiles s es last Hc) as Ht.
  split; [apply tiles_length; exact Ht|].
  split.
  - pose proof (chain_concat s es last (length s) Hc (le_n _)) as Hcc.
    rewrite skipn_all, app_nil_r in Hcc. exact Hcc.
  - split; [exact Ht|].
    split; [apply walk_fluent_spans_inside; exact H|].
    apply walk_fluent_filter.
Qed.

Theorem walk_fluent_lossless : forall s body,
  body_ok s 0 body -> lossless_fluent reLead reTrail s body.
Proof.
  intros s body H. unfold lossless_fluent, walk_fluent.
  destruct (walk_fluent_from_lossless s body 0 H) as [H1 [H2 [H3 [H4 H5]]]].
  simpl in H2. rewrite Nat.sub_0_r in H1.
  repeat split; assumption.
Qed.
End FluentProofs.
