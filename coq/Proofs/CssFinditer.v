(* finditer of the CSS declaration expression over a rendered list of
   declarations with arbitrary layout: exactly one match per declaration, with
   the group spans of that declaration, and the empty match at the end. *)
From Coq Require Import NArith List Bool Arith Lia ZifyBool.
From CL Require Import Base.Str Regex.Rx Regex.RxLemmas Generated.RxC07 Proofs.CssRxKit Proofs.CssRxSpec.
Import ListNotations.

Local Arguments Nat.ltb : simpl never.
Local Arguments Nat.leb : simpl never.
Local Arguments Nat.eqb : simpl never.
Local Arguments Nat.sub : simpl never.
Local Arguments Nat.add : simpl never.

Record item := mkitem { it_gap : gap; it_decl : decl }.

Definition render_item (it : item) : str := render_gap (it_gap it) ++ render_decl (it_decl it).
Definition render_items (items : list item) (tr : str) : str := concat (map render_item items) ++ tr.
Definition item_ok (it : item) : bool := gap_ok (it_gap it) && decl_ok (it_decl it).

(* the matches finditer yields when it starts at offset off *)
Fixpoint exp_ms (off : nat) (items : list item) (tr : str) : list mres :=
  match items with
  | [] => [mkres (off + length tr) (off + length tr) []]
  | it :: rest =>
      let a := off + length (render_gap (it_gap it)) in
      let e := a + length (render_decl (it_decl it)) in
      mkres a e (decl_caps a (it_decl it) []) :: exp_ms e rest tr
  end.

Lemma gap_chars g : gap_ok g = true -> forallb gapchar (render_gap g) = true.
Proof.
  destruct g as [w o]. unfold gap_ok, render_gap. cbn [fst snd]. intros H.
  apply andb_true_iff in H. destruct H as [Hw Ho]. rewrite forallb_app.
  assert (G : forall l, forallb cssws l = true -> forallb gapchar l = true).
  { intros l Hl. rewrite forallb_forall in *. intros c Hc. unfold gapchar. rewrite (Hl c Hc). reflexivity. }
  rewrite (G w Hw). destruct o as [w'|]; [|reflexivity]. cbn [forallb andb].
  rewrite (G w' Ho). reflexivity.
Qed.

Lemma decl_nonempty d : decl_ok d = true -> 0 < length (render_decl d).
Proof.
  intros H. unfold decl_ok in H. repeat (apply andb_true_iff in H; destruct H as [H ?]).
  apply inb_In in H. destruct (prop_head _ H) as [c [t [E _]]]. unfold render_decl. rewrite E. cbn. lia.
Qed.

Notation RX := rx_c07_css_spec.

Lemma skip_gapchar z c t f : suf z = c :: t -> gapchar c = true -> caps z = [] ->
  finditer_from RX (S f) z None = finditer_from RX (S f) (St z [c] t []) None.
Proof.
  intros Hs Hc Hcz. rewrite !finditer_from_S. cbn [suf St]. rewrite Hs. cbn [length].
  rewrite (search_from_S RX (S (length t)) z None).
  rewrite run_at_fail by (apply (spec_at_gapchar z c t); assumption).
  rewrite Hs, advance_St, Hcz.
  destruct (search_from RX (S (length t)) (St z [c] t []) None) as [|x|] eqn:E; try reflexivity.
  apply search_from_some in E. destruct E as (E1 & E2 & _). cbn [St pos length] in E1.
  match goal with |- match finditer_from _ _ ?A _ with _ => _ end =
                     match finditer_from _ _ ?B _ with _ => _ end =>
    assert (A = B) as ->; [|reflexivity] end.
  replace (m_end x - pos z) with (S (m_end x - (pos z + 1))) by lia.
  cbn [fwd suf pre pos St rev app length]. f_equal. apply st_ext; cbn; auto. lia.
Qed.

Lemma skip_gap : forall s z rest f, suf z = s ++ rest -> forallb gapchar s = true -> caps z = [] ->
  finditer_from RX (S f) z None = finditer_from RX (S f) (St z s rest []) None.
Proof.
  induction s as [|c s IH]; intros z rest f Hs Hm Hcz.
  - cbn [app] in Hs. rewrite <- Hs, <- Hcz, St_nil. reflexivity.
  - cbn [forallb] in Hm. apply andb_true_iff in Hm. destruct Hm as [Hc Hm]. cbn [app] in Hs.
    rewrite (skip_gapchar z c (s ++ rest) f Hs Hc Hcz).
    rewrite (IH (St z [c] (s ++ rest) []) rest f) by (first [reflexivity|exact Hm]).
    rewrite St_St. reflexivity.
Qed.

Lemma search_at_decl z d rest :
  caps z = [] -> suf z = render_decl d ++ rest -> decl_ok d = true ->
  search_from RX (S (length (suf z))) z None =
  MSome (mkres (pos z) (pos z + length (render_decl d)) (decl_caps (pos z) d [])).
Proof.
  intros Hcz Hs Hok. rewrite search_from_S.
  rewrite (run_at_done RX z _ (St z (render_decl d) rest (decl_caps (pos z) d [])))
    by (eapply spec_at_decl; [exact Hok | exact Hs | rewrite Hcz; reflexivity]).
  reflexivity.
Qed.

Theorem finditer_items : forall items tr z fuel,
  caps z = [] -> suf z = render_items items tr ->
  forallb item_ok items = true -> forallb gapchar tr = true ->
  2 * length (suf z) + 1 < fuel ->
  finditer_from RX fuel z None = Some (exp_ms (pos z) items tr).
Proof.
  induction items as [|it items IH]; intros tr z fuel Hcz Hs Hok Htr Hfuel.
  - (* the trailing separator, then the empty match at the end *)
    destruct fuel as [|f]; [lia|]. unfold render_items in Hs. cbn [map concat app] in Hs.
    rewrite (skip_gap tr z [] f) by (first [rewrite app_nil_r; exact Hs | exact Htr | exact Hcz]).
    set (z1 := St z tr [] []).
    rewrite finditer_from_S, search_from_S.
    rewrite (run_at_done RX z1 _ z1) by (rewrite spec_at_end by reflexivity; reflexivity).
    cbn [m_start m_end]. rewrite Nat.eqb_refl, Nat.sub_diag. cbn [fwd].
    destruct f as [|f]; [lia|].
    rewrite finditer_from_S, search_from_S.
    rewrite run_at_fail.
    2: { rewrite spec_at_end by reflexivity. cbn [pos]. rewrite !Nat.eqb_refl. reflexivity. }
    cbn [suf z1 St]. cbn [exp_ms]. reflexivity.
  - destruct fuel as [|f]; [lia|].
    cbn [forallb] in Hok. apply andb_true_iff in Hok. destruct Hok as [Hit Hok].
    unfold item_ok in Hit. apply andb_true_iff in Hit. destruct Hit as [Hg Hd].
    unfold render_items in Hs. cbn [map concat] in Hs. unfold render_item in Hs.
    set (g := render_gap (it_gap it)) in *. set (dt := render_decl (it_decl it)) in *.
    assert (Hs1 : suf z = g ++ (dt ++ render_items items tr)).
    { rewrite Hs. unfold render_items. unfold str in *. rewrite <- !app_assoc. reflexivity. }
    rewrite (skip_gap g z _ f Hs1 (gap_chars _ Hg) Hcz).
    set (z1 := St z g (dt ++ render_items items tr) []).
    rewrite finditer_from_S.
    rewrite (search_at_decl z1 (it_decl it) (render_items items tr)) by (first [reflexivity | exact Hd]).
    pose proof (decl_nonempty _ Hd) as Hne. fold dt in Hne.
    cbn [m_start m_end]. fold dt.
    assert (Nat.eqb (pos z1) (pos z1 + length dt) = false) as -> by (apply Nat.eqb_neq; lia).
    replace (pos z1 + length dt - pos z1) with (length dt) by lia.
    rewrite (z_nocaps z1 eq_refl), (fwd_St dt z1 (render_items items tr) eq_refl).
    cbn [caps z1 St].
    rewrite (IH tr (St z1 dt (render_items items tr) []) f);
      [ | reflexivity | reflexivity | exact Hok | exact Htr | ].
    + cbn [exp_ms]. fold g dt. cbn [pos z1 St]. reflexivity.
    + cbn [suf St]. rewrite Hs1, !app_length in Hfuel. lia.
Qed.
