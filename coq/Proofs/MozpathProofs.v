(* mozpath.match: the glob helper.  The model (Model/Matcher.v glob_regex) reads
   the glob with the generated regex rx_mozpath_glob and assembles, piece by
   piece, the regular expression the Python code assembles as text: literal
   text through re.escape (one single-character literal per character); a star
   as "any run of non-separators"; a double star component followed by a
   separator as its leading separator plus an optional "something, separator";
   a double star at the end as an optional "leading separator, something";
   finally an optional "separator, anything" and the end anchor.
   Here the assembled expression is described by a token list ([glob_rx]); the
   theorems characterise, through the engine, exactly which newline-free paths
   it matches.  That [glob_regex pat] is [glob_rx ts] for the tokens one reads
   off the glob is shown on examples by computation (and compared with CPython's
   reading of the implementation's regex text by the GLOB-REGEX suite). *)
From Coq Require Import NArith List Bool Arith Lia.
From CL Require Import Base.Sx Base.Res Base.Str Regex.Rx Regex.RxLemmas Regex.RxSem
  Model.Pattern Model.Matcher Proofs.MatcherBase Proofs.MatcherSpec Proofs.MatcherCompile
  Proofs.MatcherSound Proofs.MatcherComplete Proofs.PathUnique.
Import ListNotations.

Inductive gtok :=
| GLit (s : str)             (* literal text, metacharacters and all *)
| GStar                      (* a single star *)
| GDirs (lead : str)         (* lead = "" or "/", then double star and "/" *)
| GTail (lead : str).        (* lead = "" or "/", then double star at the end of the glob *)

Definition dirs_rx : rx := Alt (cat_list (rx_any_plus :: map chr_lit [c_slash])) Eps.
Definition tail_rx (lead : str) : rx := Alt (cat_list (map chr_lit lead ++ [rx_any_plus])) Eps.
Definition below_rx : rx := Alt (Cat (chr_lit c_slash) rx_any_star) Eps.

Definition tok_items (t : gtok) : list rx :=
  match t with
  | GLit s => map chr_lit s
  | GStar => [rx_not_slash]
  | GDirs lead => map chr_lit lead ++ [dirs_rx]
  | GTail lead => [tail_rx lead]
  end.

Definition glob_items (ts : list gtok) : list rx := concat (map tok_items ts).
Definition glob_rx (ts : list gtok) : rx := cat_list (glob_items ts ++ [below_rx; Eol false]).

(* what a token stands for in a path *)
Definition fills_tok (t : gtok) (piece : str) : Prop :=
  match t with
  | GLit s => piece = s
  | GStar => has_char c_slash piece = false
  | GDirs lead => piece = lead \/
                  exists x, x <> [] /\ has_char nl x = false /\ piece = lead ++ x ++ [c_slash]
  | GTail lead => piece = [] \/
                  exists x, x <> [] /\ has_char nl x = false /\ piece = lead ++ x
  end.

(* a filling of the glob, optionally followed by "/" and anything: the glob matches
   its own paths and everything below them *)
Definition glob_denotes (ts : list gtok) (path : str) : Prop :=
  exists pieces rest, Forall2 fills_tok ts pieces /\ path = concat pieces ++ rest /\
                      (rest = [] \/ exists r, rest = c_slash :: r).

Ltac inv1 H := inversion H; subst; clear H.

(* ---- soundness ------------------------------------------------------------------------ *)
Lemma any_plus_sound : forall s s', sem rx_any_plus s s' ->
  exists x, x <> [] /\ has_char nl x = false /\ consumed s s' x /\ caps s' = caps s.
Proof.
  intros s s' H. unfold rx_any_plus, rx_any in H. inv1 H.
  match goal with H : iter _ _ _ _ |- _ => apply iter_chr in H; destruct H as [x [Hc [Hl [Hf Hcaps]]]] end.
  exists x. split; [destruct x; [simpl in Hl; lia|discriminate]|].
  split; [apply (not_char_has nl); exact Hf|auto].
Qed.

Lemma tok_sound : forall t s s', sem_list (tok_items t) s s' ->
  exists piece, fills_tok t piece /\ consumed s s' piece.
Proof.
  intros t s s' H. destruct t as [lit| |lead|lead]; simpl in H.
  - apply sem_lits in H. destruct H as [Hc _]. exists lit. simpl. auto.
  - inv1 H. match goal with H : sem_list [] _ _ |- _ => inv1 H end.
    unfold rx_not_slash in *. match goal with H : sem (Rep _ _ _ _) _ _ |- _ => inv1 H end.
    match goal with H : iter _ _ _ _ |- _ => apply iter_chr in H; destruct H as [x [Hc [_ [Hf _]]]] end.
    exists x. split; [apply not_slash_chars; exact Hf|exact Hc].
  - apply sem_list_app in H. destruct H as [s1 [Hl Hd]]. apply sem_lits in Hl. destruct Hl as [Cl _].
    inv1 Hd. match goal with H : sem_list [] _ _ |- _ => inv1 H end.
    unfold dirs_rx in *. match goal with H : sem (Alt _ _) _ _ |- _ => inv1 H end.
    + match goal with H : sem ?r s1 s' |- _ =>
        change r with (cat_list (rx_any_plus :: map chr_lit [c_slash])) in H;
        apply sem_cat_list in H; inversion H as [|? ? ? s2 ? Hp Hs]; subst end.
      apply any_plus_sound in Hp. destruct Hp as [x [Hx [Hn [Cx _]]]].
      apply (sem_lits [c_slash]) in Hs. destruct Hs as [Cs _].
      exists (lead ++ x ++ [c_slash]). split; [right; exists x; auto|].
      eapply consumed_trans; [exact Cl|]. eapply consumed_trans; eauto.
    + match goal with H : sem Eps _ _ |- _ => inv1 H end.
      exists lead. split; [left; reflexivity|]. rewrite <- (app_nil_r lead).
      eapply consumed_trans; [exact Cl|apply consumed_refl].
  - inv1 H. match goal with H : sem_list [] _ _ |- _ => inv1 H end.
    unfold tail_rx in *. match goal with H : sem (Alt _ _) _ _ |- _ => inv1 H end.
    + match goal with H : sem (cat_list _) _ _ |- _ =>
        apply sem_cat_list, sem_list_app in H; destruct H as [s1 [Hl Hp]] end.
      apply sem_lits in Hl. destruct Hl as [Cl _].
      inv1 Hp. match goal with H : sem_list [] _ _ |- _ => inv1 H end.
      match goal with H : sem rx_any_plus _ _ |- _ => apply any_plus_sound in H;
        destruct H as [x [Hx [Hn [Cx _]]]] end.
      exists (lead ++ x). split; [right; exists x; auto|]. eapply consumed_trans; eauto.
    + match goal with H : sem Eps _ _ |- _ => inv1 H end.
      exists []. split; [left; reflexivity|apply consumed_refl].
Qed.

Lemma toks_sound : forall ts s s', sem_list (glob_items ts) s s' ->
  exists pieces, Forall2 fills_tok ts pieces /\ consumed s s' (concat pieces).
Proof.
  unfold glob_items. induction ts as [|t ts IH]; intros s s' H; simpl in H.
  - inv1 H. exists []. split; [constructor|apply consumed_refl].
  - apply sem_list_app in H. destruct H as [s1 [H1 H2]].
    destruct (tok_sound _ _ _ H1) as [p [Hp Cp]]. destruct (IH _ _ H2) as [ps [Hps Cps]].
    exists (p :: ps). split; [constructor; auto|]. simpl. eapply consumed_trans; eauto.
Qed.

Lemma has_char_app_nl : forall (a : str), has_char nl (a ++ [nl]) = true.
Proof. intros a. rewrite has_char_app. simpl. rewrite orb_true_r. reflexivity. Qed.

Theorem glob_sound : forall ts path x, has_char nl path = false ->
  rmatch (glob_rx ts) path 0 = MSome x -> glob_denotes ts path.
Proof.
  intros ts path x Hnl Hm. apply rmatch_sem in Hm. destruct Hm as [sF [Hsem _]].
  unfold glob_rx in Hsem. apply sem_cat_list, sem_list_app in Hsem. destruct Hsem as [s1 [Hts Hend]].
  destruct (toks_sound _ _ _ Hts) as [pieces [HF Cp]].
  inv1 Hend. match goal with H : sem_list [Eol false] _ _ |- _ => inv1 H end.
  match goal with H : sem_list [] _ _ |- _ => inv1 H end.
  match goal with H : sem (Eol false) _ _ |- _ => inv1 H end.
  match goal with H : at_eol false _ = true |- _ => apply at_eol_false in H; rename H into Heol end.
  assert (Hrest : exists rest, consumed s1 sF rest /\ (rest = [] \/ exists r, rest = c_slash :: r)).
  { unfold below_rx in *. match goal with H : sem (Alt _ _) _ _ |- _ => inv1 H end.
    - match goal with H : sem (Cat _ _) _ _ |- _ => inv1 H end.
      unfold chr_lit in *. match goal with H : sem (Chr false _) _ _ |- _ => inv1 H end.
      match goal with H : chr_ok false _ _ = true |- _ => apply chr_lit_ok in H; subst end.
      unfold rx_any_star in *. match goal with H : sem (Rep _ _ _ _) _ _ |- _ => inv1 H end.
      match goal with H : iter _ _ _ _ |- _ => apply iter_chr in H; destruct H as [r [Cr _]] end.
      exists (c_slash :: r). split; [|right; eauto].
      change (c_slash :: r) with ([c_slash] ++ r). eapply consumed_trans; [|exact Cr].
      unfold consumed. simpl. match goal with H : suf s1 = _ |- _ => rewrite H end. repeat split. lia.
    - match goal with H : sem Eps _ _ |- _ => inv1 H end. exists []. split; [apply consumed_refl|auto]. }
  destruct Hrest as [rest [Cr Hr]].
  pose proof (consumed_trans _ _ _ _ _ Cp Cr) as [Hall _]. simpl in Hall.
  assert (HsF : suf sF = []).
  { destruct Heol as [H|H]; auto. exfalso. rewrite H in Hall. rewrite Hall in Hnl.
    change [10%N] with [nl] in Hnl. rewrite has_char_app_nl in Hnl. discriminate. }
  rewrite HsF, app_nil_r in Hall. exists pieces, rest. auto.
Qed.

(* ---- completeness --------------------------------------------------------------------- *)
Lemma any_plus_complete : forall x s u, x <> [] -> has_char nl x = false -> suf s = x ++ u ->
  exists s', sem rx_any_plus s s' /\ consumed s s' x /\ suf s' = u.
Proof.
  intros x s u Hx Hn Hs.
  destruct (iter_chr_intro true [(nl, nl)] x s (not_char_chars _ _ Hn) u Hs) as [s' [H1 [H2 [H3 _]]]].
  exists s'. split; [|auto]. unfold rx_any_plus, rx_any. econstructor; [exact H1|].
  destruct x; [congruence|simpl; lia].
Qed.

Lemma tok_complete : forall t piece s u, fills_tok t piece -> suf s = piece ++ u ->
  exists s', sem_list (tok_items t) s s' /\ consumed s s' piece /\ suf s' = u.
Proof.
  intros t piece s u Hf Hs. destruct t as [lit| |lead|lead]; simpl in Hf.
  - subst piece. destruct (sem_lits_intro lit s u Hs) as [s' [H1 [H2 [H3 _]]]]. exists s'. auto.
  - destruct (iter_chr_intro true [(c_slash, c_slash)] piece s (not_char_chars _ _ Hf) u Hs)
      as [s' [H1 [H2 [H3 _]]]].
    exists s'. split; [|auto]. simpl. econstructor; [|constructor].
    unfold rx_not_slash. econstructor; [exact H1|lia].
  - destruct Hf as [Hf|[x [Hx [Hn Hf]]]]; subst piece.
    + destruct (sem_lits_intro lead s u Hs) as [s1 [H1 [H2 [H3 _]]]].
      exists s1. split; [|auto]. simpl. apply sem_list_app. exists s1. split; [exact H1|].
      econstructor; [|constructor]. apply S_AltR. constructor.
    + rewrite <- !app_assoc in Hs.
      destruct (sem_lits_intro lead s _ Hs) as [s1 [H1 [H2 [H3 _]]]].
      destruct (any_plus_complete x s1 _ Hx Hn H3) as [s2 [P1 [P2 P3]]].
      destruct (sem_lits_intro [c_slash] s2 u P3) as [s3 [L1 [L2 [L3 _]]]].
      exists s3. split; [|split; [|auto]].
      * simpl. apply sem_list_app. exists s1. split; [exact H1|].
        econstructor; [|constructor]. apply S_AltL.
        apply (sem_cat_list (rx_any_plus :: map chr_lit [c_slash])). econstructor; eauto.
      * eapply consumed_trans; [exact H2|]. eapply consumed_trans; eauto.
  - destruct Hf as [Hf|[x [Hx [Hn Hf]]]]; subst piece.
    + exists s. split; [|split; [apply consumed_refl|auto]].
      simpl. econstructor; [|constructor]. apply S_AltR. constructor.
    + rewrite <- app_assoc in Hs.
      destruct (sem_lits_intro lead s _ Hs) as [s1 [H1 [H2 [H3 _]]]].
      destruct (any_plus_complete x s1 u Hx Hn H3) as [s2 [P1 [P2 P3]]].
      exists s2. split; [|split; [eapply consumed_trans; eauto|auto]].
      simpl. econstructor; [|constructor]. apply S_AltL.
      apply sem_cat_list, sem_list_app. exists s1. split; [exact H1|].
      econstructor; [exact P1|constructor].
Qed.

Lemma toks_complete : forall ts pieces, Forall2 fills_tok ts pieces -> forall s u,
  suf s = concat pieces ++ u ->
  exists s', sem_list (glob_items ts) s s' /\ suf s' = u.
Proof.
  unfold glob_items. intros ts pieces HF. induction HF as [|t p ts ps Hp HF IH]; intros s u Hs; simpl in *.
  - exists s. split; [constructor|auto].
  - rewrite <- app_assoc in Hs. destruct (tok_complete t p s _ Hp Hs) as [s1 [H1 [_ H3]]].
    destruct (IH s1 u H3) as [s2 [H4 H5]]. exists s2. split; [apply sem_list_app; eauto|auto].
Qed.

Lemma plain_tok_items : forall t, forallb plain (tok_items t) = true.
Proof.
  intros [lit| |lead|lead]; simpl.
  - apply plain_lits.
  - reflexivity.
  - rewrite forallb_app, plain_lits. reflexivity.
  - rewrite andb_true_r. unfold tail_rx. simpl. rewrite andb_true_r. apply plain_cat_list.
    rewrite forallb_app, plain_lits. reflexivity.
Qed.

Lemma plain_glob_rx : forall ts, plain (glob_rx ts) = true.
Proof.
  intros ts. unfold glob_rx. apply plain_cat_list. rewrite forallb_app.
  assert (H : forallb plain (glob_items ts) = true).
  { unfold glob_items. induction ts as [|t ts IH]; simpl; auto.
    rewrite forallb_app, plain_tok_items, IH. reflexivity. }
  rewrite H. reflexivity.
Qed.

Theorem glob_complete : forall ts path, has_char nl path = false -> glob_denotes ts path ->
  exists x, rmatch (glob_rx ts) path 0 = MSome x.
Proof.
  intros ts path Hnl [pieces [rest [HF [Hp Hr]]]].
  assert (Hs : suf (st_at path 0) = concat pieces ++ rest) by (simpl; auto).
  destruct (toks_complete ts pieces HF _ _ Hs) as [s1 [H1 H2]].
  assert (Hend : exists sF, sem_list [below_rx; Eol false] s1 sF).
  { destruct Hr as [Hr|[r Hr]]; subst rest.
    - exists s1. econstructor; [apply S_AltR; constructor|].
      econstructor; [|constructor]. constructor. unfold at_eol. rewrite H2. reflexivity.
    - assert (Hrn : has_char nl r = false).
      { subst path. rewrite has_char_app in Hnl. apply orb_false_iff in Hnl. destruct Hnl as [_ Hn].
        simpl in Hn. exact Hn. }
      destruct (sem_lits_intro [c_slash] s1 r H2) as [s2 [L1 [_ [L3 _]]]].
      assert (L3' : suf s2 = r ++ []) by (rewrite app_nil_r; exact L3).
      destruct (iter_chr_intro true [(nl, nl)] r s2 (not_char_chars _ _ Hrn) [] L3')
        as [s3 [I1 [_ [I3 _]]]].
      exists s3. econstructor.
      + apply S_AltL. inversion L1 as [|? ? ? sm ? Hc Hn0]; subst. inversion Hn0; subst.
        econstructor; [exact Hc|]. unfold rx_any_star, rx_any. econstructor; [exact I1|lia].
      + econstructor; [|constructor]. constructor. unfold at_eol. rewrite I3. reflexivity. }
  destruct Hend as [sF Hend].
  apply (rmatch_complete _ path sF (plain_glob_rx ts)).
  unfold glob_rx. apply sem_cat_list, sem_list_app. exists s1. auto.
Qed.

(* ---- the function ------------------------------------------------------------------------- *)
Theorem mozpath_match_iff : forall pat ts path, pat <> [] -> glob_regex pat = Ok (glob_rx ts) ->
  has_char nl path = false ->
  (mozpath_match path pat = Ok true <-> glob_denotes ts path).
Proof.
  intros pat ts path Hp Hg Hnl. unfold mozpath_match. destruct pat as [|c pat]; [congruence|].
  rewrite Hg. simpl. destruct (rmatch (glob_rx ts) path 0) as [|x|] eqn:Em.
  - split; [discriminate|]. intro Hd. destruct (glob_complete ts path Hnl Hd) as [x Hx]. congruence.
  - split; [intros _; eapply glob_sound; eauto|reflexivity].
  - exfalso. revert Em. apply rmatch_no_fuel.
Qed.

Theorem mozpath_match_total : forall pat ts path, glob_regex pat = Ok (glob_rx ts) ->
  exists b, mozpath_match path pat = Ok b.
Proof.
  intros pat ts path Hg. unfold mozpath_match. destruct pat as [|c pat]; [eauto|].
  rewrite Hg. simpl. destruct (rmatch (glob_rx ts) path 0) eqn:Em; eauto.
  exfalso. revert Em. apply rmatch_no_fuel.
Qed.

(* ---- corollaries ----------------------------------------------------------------------------- *)
Corollary filled_matches : forall pat ts pieces, pat <> [] -> glob_regex pat = Ok (glob_rx ts) ->
  Forall2 fills_tok ts pieces -> has_char nl (concat pieces) = false ->
  mozpath_match (concat pieces) pat = Ok true.
Proof.
  intros pat ts pieces Hp Hg HF Hnl. apply (mozpath_match_iff pat ts _ Hp Hg Hnl).
  exists pieces, []. rewrite app_nil_r. auto.
Qed.

Corollary descendant_matches : forall pat ts pieces below, pat <> [] ->
  glob_regex pat = Ok (glob_rx ts) -> Forall2 fills_tok ts pieces ->
  has_char nl (concat pieces ++ c_slash :: below) = false ->
  mozpath_match (concat pieces ++ c_slash :: below) pat = Ok true.
Proof.
  intros pat ts pieces below Hp Hg HF Hnl. apply (mozpath_match_iff pat ts _ Hp Hg Hnl).
  exists pieces, (c_slash :: below). split; auto. split; auto. right. eauto.
Qed.

(* a glob without wildcards: its own path and what is below it, nothing else; so an
   ancestor, a foreign head and an extended last component (foo/barbaz for foo/bar) do not
   match, whatever characters the literal contains *)
Corollary literal_glob : forall pat lit path, pat <> [] -> glob_regex pat = Ok (glob_rx [GLit lit]) ->
  has_char nl path = false ->
  (mozpath_match path pat = Ok true <-> path = lit \/ exists r, path = lit ++ c_slash :: r).
Proof.
  intros pat lit path Hp Hg Hnl. rewrite (mozpath_match_iff pat _ path Hp Hg Hnl). split.
  - intros [pieces [rest [HF [Hpath Hr]]]]. inversion HF as [|? p ? ps Hf HF']; subst. inversion HF'; subst.
    simpl in Hf. subst p. simpl. rewrite app_nil_r.
    destruct Hr as [Hr|[r Hr]]; subst rest; [left; apply app_nil_r|right; eauto].
  - intros [H|[r H]]; subst path.
    + exists [lit], []. simpl. rewrite !app_nil_r. repeat split; auto. constructor; [reflexivity|constructor].
    + exists [lit], (c_slash :: r). simpl. rewrite app_nil_r. repeat split; eauto.
      constructor; [reflexivity|constructor].
Qed.

(* a foreign head: the literal text the glob starts with is the head of every match *)
Corollary foreign_head : forall pat lit ts path, pat <> [] ->
  glob_regex pat = Ok (glob_rx (GLit lit :: ts)) -> has_char nl path = false ->
  starts_with lit path = false -> mozpath_match path pat = Ok false.
Proof.
  intros pat lit ts path Hp Hg Hnl Hs.
  destruct (mozpath_match_total pat _ path Hg) as [[|] Hb]; [|exact Hb].
  exfalso. apply (mozpath_match_iff pat _ path Hp Hg Hnl) in Hb.
  destruct Hb as [pieces [rest [HF [Hpath _]]]]. inversion HF as [|? p ? ps Hf HF']; subst.
  simpl in Hf. subst p. simpl in Hs. rewrite <- app_assoc, starts_with_app in Hs. discriminate.
Qed.

(* an ancestor: every match has at least the separators of the glob's literal text *)
Definition tok_slashes (t : gtok) : nat :=
  match t with GLit s => count_char c_slash s | GDirs lead => count_char c_slash lead | _ => 0 end.
Definition glob_slashes (ts : list gtok) : nat := fold_right (fun t n => tok_slashes t + n) 0 ts.

Lemma count_char_app : forall c (a b : str), count_char c (a ++ b) = count_char c a + count_char c b.
Proof. intros. unfold count_char. rewrite filter_app, app_length. reflexivity. Qed.

Corollary too_few_separators : forall pat ts path, pat <> [] -> glob_regex pat = Ok (glob_rx ts) ->
  has_char nl path = false -> count_char c_slash path < glob_slashes ts ->
  mozpath_match path pat = Ok false.
Proof.
  intros pat ts path Hp Hg Hnl Hlt.
  destruct (mozpath_match_total pat _ path Hg) as [[|] Hb]; [|exact Hb].
  exfalso. apply (mozpath_match_iff pat _ path Hp Hg Hnl) in Hb.
  destruct Hb as [pieces [rest [HF [Hpath _]]]]. subst path. rewrite count_char_app in Hlt.
  assert (Hge : glob_slashes ts <= count_char c_slash (concat pieces)).
  { clear - HF. induction HF as [|t p ts ps Hf HF IH]; simpl; [lia|].
    rewrite count_char_app. assert (tok_slashes t <= count_char c_slash p); [|lia].
    destruct t as [lit| |lead|lead]; simpl in *; try lia.
    - subst. lia.
    - destruct Hf as [Hf|[x [_ [_ Hf]]]]; subst p; [lia|]. rewrite count_char_app. lia. }
  lia.
Qed.
