(* PropertiesEntityMixin.val never raises: props_val returns on EVERY string.
   (int() only ever sees 1-4 hexadecimal digits, so chr() gets a number below 65536; the
   substitution callback always finds one of its three groups; the fuel suffices.) *)
From Coq Require Import NArith List Bool Arith Lia.
From CL Require Import Base.Sx Base.Res Base.Str Regex.Rx Model.Unescape Generated.C02Facts
  Proofs.ClassLoop Proofs.SubLocal Proofs.C02Props.
Import ListNotations.

Local Arguments chr_ok : simpl never.
Local Arguments N.leb : simpl never.
Local Arguments N.ltb : simpl never.
Local Arguments N.mul : simpl never.

Lemma run_all : forall neg cls b l,
  forallb (chr_ok neg cls) (firstn (run neg cls b l) l) = true.
Proof.
  intros neg cls b l. revert b. induction l as [|c t IH]; intros b; [reflexivity|].
  cbn [run]. destruct b as [[|b]|]; [reflexivity| |].
  - destruct (chr_ok neg cls c) eqn:E; [|reflexivity]. cbn [firstn forallb]. rewrite E, IH. reflexivity.
  - destruct (chr_ok neg cls c) eqn:E; [|reflexivity]. cbn [firstn forallb]. rewrite E, IH. reflexivity.
Qed.

Lemma forallb_same : forall {A} (f g : A -> bool) l, (forall x, f x = g x) -> forallb f l = forallb g l.
Proof. intros A f g l H. induction l as [|x l IH]; cbn; [reflexivity|]. rewrite H, IH. reflexivity. Qed.

Lemma hex_digit_ok : forall c, is_hex c = true -> exists d, hex_digit c = Some d /\ (d < 16)%N.
Proof.
  intros c H. unfold is_hex in H. unfold hex_digit.
  destruct (N.leb 48 c && N.leb c 57) eqn:E1.
  - apply andb_true_iff in E1. destruct E1 as [A B]. apply N.leb_le in A, B. eexists. split; [reflexivity|lia].
  - destruct (N.leb 97 c && N.leb c 102) eqn:E2.
    + apply andb_true_iff in E2. destruct E2 as [A B]. apply N.leb_le in A, B. eexists. split; [reflexivity|lia].
    + destruct (N.leb 65 c && N.leb c 70) eqn:E3; [|cbn in H; discriminate].
      apply andb_true_iff in E3. destruct E3 as [A B]. apply N.leb_le in A, B. eexists. split; [reflexivity|lia].
Qed.

Lemma int_digits_hex : forall l acc, forallb is_hex l = true ->
  exists n, int_digits 16 acc l = Ok n /\ (n < (acc + 1) * 16 ^ N.of_nat (length l))%N.
Proof.
  induction l as [|c l IH]; intros acc H.
  - exists acc. split; [reflexivity|]. cbn. lia.
  - cbn [forallb] in H. apply andb_true_iff in H. destruct H as [Hc Hl].
    destruct (hex_digit_ok c Hc) as (d & Hd & Hlt). cbn [int_digits]. rewrite Hd.
    assert ((d <? 16)%N = true) as -> by (apply N.ltb_lt; exact Hlt).
    destruct (IH (acc * 16 + d)%N Hl) as (n & Hn & Hb). exists n. split; [exact Hn|].
    eapply N.lt_le_trans; [exact Hb|].
    cbn [length]. rewrite Nat2N.inj_succ, N.pow_succ_r by lia.
    rewrite N.mul_assoc. apply N.mul_le_mono_r. lia.
Qed.

Lemma props_repl_ok : forall sf n cf, here_g sf = Some (n, cf) -> exists r, props_repl sf = Ok r.
Proof.
  intros sf n cf Hh. destruct sf as [|c [|d t]]; try discriminate.
  unfold props_repl.
  destruct (chr_ok false ucls d && (1 <=? hexrun hexcls t)) eqn:E1; [|destruct (chr_ok false nlcls d); eauto].
  apply andb_true_iff in E1. destruct E1 as [_ E1]. apply Nat.leb_le in E1.
  set (ds := firstn (hexrun hexcls t) t).
  assert (Hlen : length ds = hexrun hexcls t).
  { unfold ds. rewrite firstn_length. pose proof (run_le false hexcls (Some 4) t). unfold hexrun in *. lia. }
  assert (Hall : forallb is_hex ds = true).
  { unfold ds, hexrun. rewrite <- (forallb_same _ _ _ hexcls_spec). apply run_all. }
  assert (H4 : length ds <= 4) by (rewrite Hlen; unfold hexrun; apply run_budget).
  unfold py_int. destruct ds as [|x ds'] eqn:Eds; [change (length (@nil N)) with 0 in Hlen; lia|].
  change uni_base with 16%N.
  destruct (int_digits_hex (x :: ds') 0%N Hall) as (v & -> & Hb).
  unfold py_chr. assert ((v <? 1114112)%N = true) as ->; [|eauto].
  apply N.ltb_lt. eapply N.lt_le_trans; [exact Hb|].
  rewrite N.add_0_l, N.mul_1_l.
  apply (N.le_trans _ (16 ^ 4)%N); [|cbn; lia].
  apply N.pow_le_mono_r; lia.
Qed.

Lemma loc_spec_total : forall fuel sf, length sf < fuel ->
  exists v, loc_spec here_g props_repl fuel sf = Ok v.
Proof.
  induction fuel as [|fu IH]; intros sf Hlt; [lia|].
  cbn [loc_spec]. destruct (here_g sf) as [[n cf]|] eqn:Hh.
  - destruct (props_repl_ok sf n cf Hh) as [r ->].
    destruct (props_here_len ucls hexcls nlcls blankcls notcls sf n cf Hh) as [Hn Hle].
    destruct (IH (skipn n sf)) as [tl ->]; [rewrite skipn_length; lia|]. eauto.
  - destruct sf as [|c t]; [eauto|].
    destruct (IH t) as [tl ->]; [cbn in Hlt; lia|]. eauto.
Qed.

Theorem props_val_total : forall raw, exists v, props_val raw = Ok v.
Proof. intros raw. rewrite props_val_scan. apply loc_spec_total. lia. Qed.
