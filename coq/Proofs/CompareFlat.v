(* The comparison of two files whose keys do not repeat, stated over "logical files":
   a file is a list of (key, value) pairs; [reads C l J] says that the entity list C
   holds exactly the pairs of l (in order, as non-Junk entities whose word count is
   [wd] of the value) plus the Junk entities J.  With nothing filtered the report is
   then given by explicit list functions of the two logical files ([flat_report]):
   `missings` is the list of reference keys absent from the localization IN REFERENCE
   ORDER, every counter is the length of such a list, the word counters are sums of
   [wd] over the reference values, and the junk errors are those of J.
   Derived from the theorems of Proofs/CompareProofs.v (which hold with duplicates). *)
From Coq Require Import ZArith NArith List Bool Arith Lia Permutation.
From CL Require Import Base.Sx Base.Res Base.Str Model.AddRemove Proofs.AddRemoveProofs
  Model.Compare Proofs.CompareSpec Proofs.CompareProofs.
Import ListNotations.
Local Open Scope nat_scope.

(* ---- generic list facts ------------------------------------------------------------ *)
Lemma Forall2_In_l {A B} (R : A -> B -> Prop) l l' x :
  Forall2 R l l' -> In x l -> exists y, In y l' /\ R x y.
Proof.
  induction 1 as [|a b l l' Hab _ IH]; intros Hin; [destruct Hin|].
  destruct Hin as [<-|Hin]; [exists b; split; [left; reflexivity|exact Hab]|].
  destruct (IH Hin) as (y & Hy & Hr). exists y. split; [right; exact Hy|exact Hr].
Qed.

Lemma Forall2_In_r {A B} (R : A -> B -> Prop) l l' y :
  Forall2 R l l' -> In y l' -> exists x, In x l /\ R x y.
Proof.
  induction 1 as [|a b l l' Hab _ IH]; intros Hin; [destruct Hin|].
  destruct Hin as [<-|Hin]; [exists a; split; [left; reflexivity|exact Hab]|].
  destruct (IH Hin) as (x & Hx & Hr). exists x. split; [right; exact Hx|exact Hr].
Qed.

Lemma Forall2_map {A B C} (R : A -> B -> Prop) (f : A -> C) (g : B -> C) l l' :
  Forall2 R l l' -> (forall a b, R a b -> f a = g b) -> map f l = map g l'.
Proof.
  intros H Hfg. induction H as [|a b l l' Hab _ IH]; cbn; [reflexivity|].
  rewrite (Hfg a b Hab), IH. reflexivity.
Qed.

Lemma NoDup_map_inj {A B} (f : A -> B) l x y :
  NoDup (map f l) -> In x l -> In y l -> f x = f y -> x = y.
Proof.
  induction l as [|a l IH]; cbn; intros Hnd Hx Hy E; [contradiction|].
  inversion Hnd as [|? ? Ha Hl]; subst.
  destruct Hx as [<-|Hx], Hy as [<-|Hy]; auto.
  - exfalso. apply Ha. rewrite E. apply in_map. exact Hy.
  - exfalso. apply Ha. rewrite <- E. apply in_map. exact Hx.
Qed.

Lemma bool_eq_iff (a b : bool) : (a = true <-> b = true) -> a = b.
Proof.
  destruct a, b; intros [H1 H2]; try reflexivity.
  - symmetry. apply H1. reflexivity.
  - apply H2. reflexivity.
Qed.

Lemma no_members_nil {A} (l : list A) : (forall x, ~ In x l) -> l = [].
Proof. destruct l as [|a l]; [reflexivity|]. intros H. destruct (H a). left; reflexivity. Qed.

Lemma filter_none_junk {A} (p : A -> bool) (l : list A) :
  filter p l = [] -> filter (fun x => negb (p x)) l = l.
Proof.
  induction l as [|a l IH]; cbn; [reflexivity|]. destruct (p a); cbn; [discriminate|].
  intros H. rewrite IH by exact H. reflexivity.
Qed.

Lemma Permutation_singleton {A} (l : list A) x : Permutation l [x] -> l = [x].
Proof. intros H. apply Permutation_sym, Permutation_length_1_inv in H. exact H. Qed.

Section Flat.
Context {K V : Type} (eqb : K -> K -> bool) (veq : V -> V -> bool) (keyname : K -> bool).
Context (wd : V -> nat).                (* count_words of a value *)
Hypothesis eqb_eq : forall a b, eqb a b = true <-> a = b.

Notation cent := (@cent K V).
Notation mem := (mem eqb).

Definition lfile : Type := list (K * V).
Definition lkeys (l : lfile) : list K := map fst l.

(* the value of key k *)
Definition lget (k : K) (l : lfile) : option V :=
  match find (fun kv => eqb k (fst kv)) l with
  | Some kv => Some (snd kv)
  | None => None
  end.

Definition ent_of (kv : K * V) (c : cent) : Prop :=
  c_key c = fst kv /\ c_val c = snd kv /\ c_words c = wd (snd kv) /\ c_junk c = false.

Definition nonjunkb (e : cent) : bool := negb (c_junk e).

Definition reads (C : list cent) (l : lfile) (J : list cent) : Prop :=
  Forall2 ent_of l (filter nonjunkb C) /\ filter (@c_junk K V) C = J.

(* ---- the report as functions of the two logical files ------------------------------ *)
Section Report.
Context (lR lL : lfile).

Definition missing_keys : list K := filter (fun k => negb (mem k (lkeys lL))) (lkeys lR).
Definition obsolete_keys : list K := filter (fun k => negb (mem k (lkeys lR))) (lkeys lL).
Definition shared_keys : list K := filter (fun k => mem k (lkeys lL)) (lkeys lR).
Definition same_value (k : K) : bool :=
  match lget k lR, lget k lL with
  | Some a, Some b => veq a b
  | _, _ => false
  end.
Definition binding_keys : list K := filter keyname shared_keys.
Definition unchanged_keys : list K :=
  filter (fun k => negb (keyname k) && same_value k) shared_keys.
Definition changed_keys : list K :=
  filter (fun k => negb (keyname k) && negb (same_value k)) shared_keys.
Definition ref_words (k : K) : nat := match lget k lR with Some v => wd v | None => 0 end.
Definition wsum (ks : list K) : nat := list_sum (map ref_words ks).

(* the stats dictionary, in the order of stats_fields *)
Definition flat_stats : list nat :=
  [length missing_keys; wsum missing_keys; 0; length obsolete_keys;
   length changed_keys; wsum changed_keys; length unchanged_keys; wsum unchanged_keys;
   length binding_keys].
End Report.

(* ---- what [reads] gives ---------------------------------------------------------------- *)
Lemma lget_In k v (l : lfile) : lget k l = Some v -> In (k, v) l.
Proof.
  unfold lget. destruct (find _ l) as [[k' v']|] eqn:E; [|discriminate].
  intros H; inversion H; subst. apply find_some in E. destruct E as [Hin Hk].
  cbn in Hk. apply eqb_eq in Hk. subst. exact Hin.
Qed.

Lemma lget_some k (l : lfile) : In k (lkeys l) -> exists v, lget k l = Some v.
Proof.
  intros H. unfold lget. destruct (find _ l) as [[k' v']|] eqn:E; [eauto|].
  exfalso. apply in_map_iff in H. destruct H as ([k' v'] & Hk & Hin). cbn in Hk. subst.
  pose proof (find_none _ _ E _ Hin) as Hn. cbn in Hn.
  rewrite (eqb_refl eqb eqb_eq) in Hn. discriminate.
Qed.

Lemma lget_keys k v (l : lfile) : lget k l = Some v -> In k (lkeys l).
Proof. intros H. apply lget_In in H. apply in_map_iff. exists (k, v). auto. Qed.

Section Reads.
Context (C : list cent) (l : lfile) (J : list cent).
Hypothesis HC : reads C l J.
Hypothesis Hnd : NoDup (map (@c_key K V) C).

Lemma reads_keys_eq : map (@c_key K V) (filter nonjunkb C) = lkeys l.
Proof.
  destruct HC as [HF _]. symmetry. unfold lkeys.
  apply (Forall2_map _ _ _ _ _ HF). intros kv c (Hk & _). symmetry. exact Hk.
Qed.

Lemma reads_NoDup : NoDup (lkeys l).
Proof. rewrite <- reads_keys_eq. apply NoDup_map_filter. exact Hnd. Qed.

Lemma reads_In_C k : In k (map (@c_key K V) C) <-> In k (lkeys l) \/ In k (map (@c_key K V) J).
Proof.
  destruct HC as [_ HJ]. rewrite <- reads_keys_eq, <- HJ, !in_map_iff. split.
  - intros (e & Hk & He). destruct (c_junk e) eqn:Ej.
    + right. exists e. split; [exact Hk|]. apply filter_In. auto.
    + left. exists e. split; [exact Hk|]. apply filter_In. unfold nonjunkb. rewrite Ej. auto.
  - intros [(e & Hk & He)|(e & Hk & He)]; apply filter_In in He; exists e; tauto.
Qed.

Lemma reads_last k v : lget k l = Some v ->
  exists e, last_ent C k e /\ c_val e = v /\ c_words e = wd v /\ c_junk e = false.
Proof.
  intros Hg. apply lget_In in Hg. destruct HC as [HF _].
  destruct (Forall2_In_l _ _ _ _ HF Hg) as (e & He & Hk & Hv & Hw & Hj). cbn in Hk, Hv, Hw.
  apply filter_In in He. destruct He as [He _].
  exists e. repeat split; auto. rewrite <- Hk. apply NoDup_keys_last; assumption.
Qed.

Lemma reads_present k : present C k <-> In k (lkeys l).
Proof.
  split.
  - intros (e & (pre & post & E & Hk & _) & Hj). destruct HC as [HF _].
    assert (He : In e (filter nonjunkb C)).
    { apply filter_In. split; [rewrite E; apply in_or_app; right; left; reflexivity|].
      unfold nonjunkb. rewrite Hj. reflexivity. }
    destruct (Forall2_In_r _ _ _ _ HF He) as ([k' v'] & Hin & Hk' & _). cbn in Hk'.
    apply in_map_iff. exists (k', v'). split; [cbn; congruence|exact Hin].
  - intros Hin. destruct (lget_some k l Hin) as [v Hv].
    destruct (reads_last k v Hv) as (e & He & _ & _ & Hj). exists e. auto.
Qed.

Lemma reads_junk_disjoint k : In k (lkeys l) -> ~ In k (map (@c_key K V) J).
Proof.
  intros Hin HJ. destruct (lget_some k l Hin) as [v Hv].
  destruct (reads_last k v Hv) as (e & (pre & post & E & Hk & _) & _ & _ & Hj).
  destruct HC as [_ HJe]. rewrite <- HJe in HJ. apply in_map_iff in HJ.
  destruct HJ as (j & Hkj & Hjin). apply filter_In in Hjin. destruct Hjin as [Hjin Hjj].
  assert (e = j).
  { apply (NoDup_map_inj (@c_key K V) C); auto; [|congruence].
    rewrite E. apply in_or_app; right; left; reflexivity. }
  subst. congruence.
Qed.

(* the Junk entities: exactly the keys whose (last) entity is Junk *)
Lemma reads_junk k : In k (map (@c_key K V) J) <->
  exists e, last_ent C k e /\ c_junk e = true.
Proof.
  destruct HC as [_ HJe]. rewrite <- HJe, in_map_iff. split.
  - intros (j & Hk & Hj). apply filter_In in Hj. destruct Hj as [Hj Hjj].
    exists j. split; [|exact Hjj]. rewrite <- Hk. apply NoDup_keys_last; assumption.
  - intros (e & (pre & post & E & Hk & _) & Hj). exists e. split; [exact Hk|].
    apply filter_In. split; [rewrite E; apply in_or_app; right; left; reflexivity|exact Hj].
Qed.
End Reads.

(* ---- the theorem ------------------------------------------------------------------------ *)
Section Main.
Context (flt : K -> verdict) (chk : cent -> cent -> list finding) (merge : bool).
Context (R L J : list cent) (lR lL : lfile).
Hypothesis HR : reads R lR [].
Hypothesis HL : reads L lL J.
Hypothesis HndR : NoDup (lkeys lR).
Hypothesis HndL : NoDup (map (@c_key K V) L).
Hypothesis HJ : forall j, In j J -> ~ In (c_key j) (lkeys lR).
Hypothesis Hflt : forall k, flt k = VError.

Notation kr := (map (@c_key K V) R).
Notation kl := (map (@c_key K V) L).
Notation run := (compare eqb veq keyname flt chk merge R L).

Lemma R_all : filter nonjunkb R = R.
Proof. destruct HR as [_ H]. apply filter_none_junk. exact H. Qed.

Lemma kr_eq : kr = lkeys lR.
Proof. rewrite <- (reads_keys_eq R lR [] HR), R_all. reflexivity. Qed.

Lemma HndR' : NoDup kr.
Proof. rewrite kr_eq. exact HndR. Qed.

Lemma R_nonjunk e : In e R -> c_junk e = false.
Proof.
  intros He. rewrite <- R_all in He. apply filter_In in He. destruct He as [_ H].
  unfold nonjunkb in H. destruct (c_junk e); [discriminate|reflexivity].
Qed.

Lemma kl_ref k : In k (lkeys lR) -> (In k kl <-> In k (lkeys lL)).
Proof.
  intros Hk. rewrite (reads_In_C L lL J HL). split; [|auto].
  intros [H|H]; [exact H|]. exfalso. apply in_map_iff in H. destruct H as (j & Hkj & Hj).
  apply (HJ j Hj). rewrite Hkj. exact Hk.
Qed.

Lemma presentR k : In k (lkeys lR) -> present R k.
Proof. intros H. apply (reads_present R lR [] HR HndR'). exact H. Qed.

Theorem flat_no_raise : exists r, run = Ok r.
Proof.
  apply (compare_no_raise eqb veq keyname eqb_eq).
  intros k e (pre & post & E & _) Hj _. exfalso.
  rewrite (R_nonjunk e) in Hj; [discriminate|]. rewrite E. apply in_or_app; right; left; reflexivity.
Qed.

Lemma mem_iff k l : mem k l = true <-> In k l.
Proof. apply (mem_In eqb eqb_eq). Qed.

Lemma negb_mem_iff k l : negb (mem k l) = true <-> ~ In k l.
Proof.
  rewrite negb_true_iff. split.
  - intros H Hin. apply mem_iff in Hin. congruence.
  - intros H. destruct (mem k l) eqn:E; [|reflexivity]. apply mem_iff in E. contradiction.
Qed.

(* `missings`: the reference keys absent from the localization, in reference order *)
Theorem flat_missings r : run = Ok r -> a_missings r = missing_keys lR lL.
Proof.
  intros H. rewrite (missings_is_sel eqb veq keyname flt chk merge R L r H).
  rewrite (sel_ref_order eqb eqb_eq R L _ HndR' HndL).
  - rewrite kr_eq. unfold missing_keys. apply filter_ext_in. intros k Hk.
    apply bool_eq_iff. unfold p_missing. rewrite andb_true_iff, Hflt, negb_mem_iff.
    cbn [snd is_verr].
    pose proof (absent_iff eqb keyname eqb_eq flt R L k) as Ha. rewrite kr_eq in Ha.
    pose proof (kl_ref k Hk) as Hkl. pose proof (presentR k Hk) as Hp.
    assert (Ht : true = true) by reflexivity. tauto.
  - intros k Hk. unfold p_missing in Hk. apply andb_true_iff in Hk. destruct Hk as [Hk _].
    destruct (label_of eqb kr kl k) eqn:El; cbn in Hk; try discriminate.
    apply (label_Delete eqb keyname eqb_eq) in El. tauto.
Qed.

Lemma ref_words_at k : In k (lkeys lR) -> words_at eqb R k = ref_words lR k.
Proof.
  intros Hk. destruct (lget_some k lR Hk) as [v Hv].
  destruct (reads_last R lR [] HR HndR' k v Hv) as (e & He & _ & Hw & _).
  rewrite (words_at_last eqb eqb_eq R k e He). unfold ref_words. rewrite Hv. exact Hw.
Qed.

Lemma wsum_words_at ks : (forall k, In k ks -> In k (lkeys lR)) ->
  list_sum (map (words_at eqb R) ks) = wsum lR ks.
Proof.
  intros H. unfold wsum. f_equal. apply map_ext_in. intros k Hk. apply ref_words_at, H, Hk.
Qed.

Lemma card_explicit (P : K -> Prop) n (E : list K) :
  card P n -> NoDup E -> (forall k, In k E <-> P k) -> n = length E.
Proof.
  intros (Lst & Hnd & Hin & ->) HE HEin. apply Permutation_length.
  apply NoDup_Permutation; auto. intros k. rewrite Hin, HEin. tauto.
Qed.

Lemma card_sum_explicit (P : K -> Prop) f n w (E : list K) :
  card_sum P f n w -> NoDup E -> (forall k, In k E <-> P k) ->
  n = length E /\ w = list_sum (map f E).
Proof.
  intros (Lst & Hnd & Hin & -> & ->) HE HEin.
  assert (HP : Permutation Lst E).
  { apply NoDup_Permutation; auto. intros k. rewrite Hin, HEin. tauto. }
  split; [apply Permutation_length; exact HP|].
  apply list_sum_perm. apply Permutation_map. exact HP.
Qed.

Lemma NoDup_lL : NoDup (lkeys lL).
Proof. exact (reads_NoDup L lL J HL HndL). Qed.

Lemma shared_iff_l k : shared R L k <-> In k (lkeys lR) /\ In k (lkeys lL).
Proof.
  unfold shared. rewrite kr_eq. split.
  - intros [H1 H2]. split; [exact H1|]. apply (kl_ref k H1). exact H2.
  - intros [H1 H2]. split; [exact H1|]. apply (kl_ref k H1). exact H2.
Qed.

Lemma shared_keys_In k : In k (shared_keys lR lL) <-> In k (lkeys lR) /\ In k (lkeys lL).
Proof. unfold shared_keys. rewrite filter_In, mem_iff. tauto. Qed.

Lemma same_value_iff k : In k (lkeys lR) -> In k (lkeys lL) ->
  (same_val eqb veq R L k <-> same_value lR lL k = true) /\
  (diff_val eqb veq R L k <-> same_value lR lL k = false).
Proof.
  intros H1 H2. destruct (lget_some k lR H1) as [a Ha]. destruct (lget_some k lL H2) as [b Hb].
  destruct (reads_last R lR [] HR HndR' k a Ha) as (er & Her & Hva & _ & _).
  destruct (reads_last L lL J HL HndL k b Hb) as (el & Hel & Hvb & _ & _).
  assert (Heq : equals eqb veq er el = veq a b).
  { unfold equals. destruct Her as (_ & _ & _ & Hk1 & _). destruct Hel as (_ & _ & _ & Hk2 & _).
    rewrite Hk1, Hk2, (eqb_refl eqb eqb_eq), Hva, Hvb. reflexivity. }
  unfold same_value. rewrite Ha, Hb. split; split.
  - intros (er' & el' & Hr' & Hl' & E).
    rewrite (last_ent_unique eqb eqb_eq _ _ _ _ Hr' Her), (last_ent_unique eqb eqb_eq _ _ _ _ Hl' Hel) in E.
    congruence.
  - intros E. exists er, el. repeat split; auto. congruence.
  - intros (er' & el' & Hr' & Hl' & E).
    rewrite (last_ent_unique eqb eqb_eq _ _ _ _ Hr' Her), (last_ent_unique eqb eqb_eq _ _ _ _ Hl' Hel) in E.
    congruence.
  - intros E. exists er, el. repeat split; auto. congruence.
Qed.

(* every counter *)
Theorem flat_stats_eq r : run = Ok r -> stats_fields (a_stats r) = flat_stats lR lL.
Proof.
  intros H. unfold stats_fields, flat_stats.
  destruct (compare_missing eqb veq keyname eqb_eq flt chk merge R L r H) as (_ & _ & Hm & Hmw).
  rewrite (flat_missings r H) in Hm, Hmw.
  rewrite wsum_words_at in Hmw
    by (intros k Hk; unfold missing_keys in Hk; apply filter_In in Hk; tauto).
  (* report *)
  assert (Hrep : s_report (a_stats r) = 0).
  { destruct (compare_report eqb veq keyname eqb_eq flt chk merge R L r H) as (Lst & _ & Hin & ->).
    rewrite (no_members_nil Lst); [reflexivity|].
    intros k Hk. apply Hin in Hk. destruct Hk as (_ & _ & Hw & _). rewrite Hflt in Hw. discriminate. }
  (* obsolete *)
  assert (Hobs : s_obsolete (a_stats r) = length (obsolete_keys lR lL)).
  { apply (card_explicit _ _ _ (compare_obsolete eqb veq keyname eqb_eq flt chk merge R L r H)).
    - apply NoDup_filter, NoDup_lL.
    - intros k. unfold obsolete_keys. rewrite filter_In, negb_mem_iff, kr_eq.
      rewrite (reads_present L lL J HL HndL), (reads_In_C L lL J HL), Hflt.
      split; [|intros (H1 & H2 & _ & H4); tauto].
      intros [H1 H2]. repeat split; auto. discriminate. }
  destruct (compare_shared eqb veq keyname eqb_eq flt chk merge R L r H) as (Hk & Hu & Hc).
  assert (Hsub : forall p k, In k (filter p (shared_keys lR lL)) -> In k (lkeys lR)).
  { intros p k Hin. apply filter_In in Hin. destruct Hin as [Hin _].
    apply shared_keys_In in Hin. tauto. }
  assert (HndS : NoDup (shared_keys lR lL)) by (apply NoDup_filter; exact HndR).
  assert (Hkeys : s_keys (a_stats r) = length (binding_keys lR lL)).
  { apply (card_explicit _ _ _ Hk); [apply NoDup_filter; exact HndS|].
    intros k. unfold binding_keys. rewrite filter_In, shared_keys_In, shared_iff_l. tauto. }
  destruct (card_sum_explicit _ _ _ _ (unchanged_keys lR lL) Hu) as [Hun Hunw].
  { apply NoDup_filter; exact HndS. }
  { intros k. unfold unchanged_keys. rewrite filter_In, shared_keys_In, shared_iff_l.
    rewrite andb_true_iff, negb_true_iff. split.
    - intros [[H1 H2] [H3 H4]]. destruct (same_value_iff k H1 H2) as [Hs _]. tauto.
    - intros [[H1 H2] [H3 H4]]. destruct (same_value_iff k H1 H2) as [Hs _]. tauto. }
  destruct (card_sum_explicit _ _ _ _ (changed_keys lR lL) Hc) as [Hch Hchw].
  { apply NoDup_filter; exact HndS. }
  { intros k. unfold changed_keys. rewrite filter_In, shared_keys_In, shared_iff_l.
    rewrite andb_true_iff, !negb_true_iff. split.
    - intros [[H1 H2] [H3 H4]]. destruct (same_value_iff k H1 H2) as [_ Hs]. tauto.
    - intros [[H1 H2] [H3 H4]]. destruct (same_value_iff k H1 H2) as [_ Hs]. tauto. }
  rewrite wsum_words_at in Hunw by (apply Hsub).
  rewrite wsum_words_at in Hchw by (apply Hsub).
  rewrite Hm, Hmw, Hrep, Hobs, Hkeys, Hun, Hunw, Hch, Hchw. reflexivity.
Qed.

Lemma sel_junk_perm : Permutation (sel eqb (p_junk eqb L) kr kl) (map (@c_key K V) J).
Proof.
  set (S := sel eqb (p_junk eqb L) kr kl).
  { apply NoDup_Permutation.
    - apply (sel_NoDup eqb eqb_eq).
    - destruct HL as [_ HJe]. rewrite <- HJe. apply NoDup_map_filter. exact HndL.
    - intros k. unfold S. rewrite (sel_In eqb keyname eqb_eq), (reads_junk L lL J HL HndL).
      unfold p_junk, l10njunk. cbn [fst snd]. split.
      + intros [Hin Hp]. destruct (label_of eqb kr kl k) eqn:El; try discriminate.
        apply (label_Add eqb keyname eqb_eq) in El.
        destruct Hin as [Hin|Hin]; [contradiction|].
        destruct (lastw_In eqb eqb_eq L k Hin) as [e He]. rewrite He in Hp.
        exists e. split; [apply (last_ent_iff eqb eqb_eq); exact He|exact Hp].
      + intros (e & He & Hj).
        assert (HkJ : In k (map (@c_key K V) J)) by (apply (reads_junk L lL J HL HndL); eauto).
        assert (Hnr : ~ In k kr).
        { rewrite kr_eq. apply in_map_iff in HkJ. destruct HkJ as (j & <- & Hjin). apply HJ, Hjin. }
        split.
        * right. apply (reads_In_C L lL J HL). right. exact HkJ.
        * assert (El : label_of eqb kr kl k = Add) by (apply (label_Add eqb keyname eqb_eq); exact Hnr).
          rewrite El. apply (last_ent_iff eqb eqb_eq) in He. rewrite He. exact Hj. }
Qed.

(* the junk errors are those of the Junk entities of the localization *)
Theorem flat_junk_notes r : run = Ok r ->
  Permutation (filter (@is_njunk K) (a_notes r)) (map (fun j => NJunk (c_id j)) J).
Proof.
  intros H. rewrite (junk_notes eqb veq keyname flt chk merge R L r H).
  rewrite (Permutation_map (fun k => NJunk (jid eqb L k)) sel_junk_perm), map_map.
  apply Permutation_refl'. apply map_ext_in. intros j Hj. f_equal. unfold jid.
  destruct HL as [_ HJe]. rewrite <- HJe in Hj. apply filter_In in Hj. destruct Hj as [Hj _].
  pose proof (NoDup_keys_last L j HndL Hj) as Hl. apply (last_ent_iff eqb eqb_eq) in Hl.
  rewrite Hl. reflexivity.
Qed.

Lemma filter_true {A} (p : A -> bool) (l : list A) : (forall x, p x = true) -> filter p l = l.
Proof. intros H. induction l as [|a l IH]; cbn; [reflexivity|]. rewrite H, IH. reflexivity. Qed.

(* the observer's summary when the checker is silent: one error per Junk entity of the
   localization, no warning, then the stats *)
Theorem flat_summary r : run = Ok r -> (forall a b, chk a b = []) ->
  summary flt r = length J :: 0 :: flat_stats lR lL.
Proof.
  intros H Hchk. unfold summary. rewrite (flat_stats_eq r H).
  assert (Hd : details flt r = a_notes r).
  { unfold details. apply filter_true. intros [| | k | k | |]; try reflexivity;
      cbn; rewrite Hflt; reflexivity. }
  rewrite Hd.
  destruct (msgs_notes eqb veq keyname flt chk merge R L r H Hchk) as [He Hw].
  assert (Hdup : dup_notes eqb R L = []).
  { unfold dup_notes. rewrite (find_duplicates_NoDup eqb keyname eqb_eq R HndR'),
      (find_duplicates_NoDup eqb keyname eqb_eq L HndL). reflexivity. }
  rewrite Hdup in He, Hw. cbn [filter app] in He, Hw.
  assert (Hce : count_cat CatError (a_notes r) = length (filter (@is_err K) (a_notes r))).
  { unfold count_cat. f_equal; try (apply filter_ext; intros n; unfold is_err; destruct (note_cat n); reflexivity). }
  assert (Hcw : count_cat CatWarning (a_notes r) = length (filter (@is_warn K) (a_notes r))).
  { unfold count_cat. f_equal; try (apply filter_ext; intros n; unfold is_warn; destruct (note_cat n); reflexivity). }
  rewrite Hce, Hcw, He, Hw, !map_length.
  rewrite (Permutation_length sel_junk_perm), map_length.
  assert (Hz : sel eqb (p_refjunk eqb R) kr kl = []).
  { apply no_members_nil. intros k Hk. apply (sel_In eqb keyname eqb_eq) in Hk. destruct Hk as [_ Hk].
    unfold p_refjunk in Hk. cbn [fst snd] in Hk.
    destruct (label_of eqb kr kl k) eqn:El; try discriminate.
    apply (label_Delete eqb keyname eqb_eq) in El. destruct El as [Hin _].
    unfold refjunk in Hk. destruct (lastw_In eqb eqb_eq R k Hin) as [e He']. rewrite He' in Hk.
    apply (lastw_Some_In eqb eqb_eq) in He'. rewrite (R_nonjunk e (proj1 He')) in Hk. discriminate. }
  rewrite Hz. reflexivity.
Qed.

End Main.
End Flat.
