(* C06_check_plain_silent: on plain inputs (Model/CheckPlain.v plain_in) the .properties
   checker reports nothing. *)
From Coq Require Import ZArith NArith List Bool Arith Lia.
From CL Require Import Base.Sx Base.Res Base.Str Regex.Rx Regex.RxLemmas Generated.RxC06
  Generated.C06Facts Model.CheckProps Model.CheckPropsSpec Model.CheckPlain
  Proofs.CheckPropsProofs Proofs.PrintfRxProofs.
Import ListNotations.

(* ---- an expression that needs the character c finds nothing in a text without it ------ *)
Section NoMatch.
Variables (r : rx) (c : N).
Hypothesis Hfail : forall z k, head_not (fun x => N.eqb x c) (suf z) -> m r z k = Fail.

Lemma search_none : forall s z fuel ne, suf z = s -> mem_N c s = false -> length s < fuel ->
  search_from r fuel z ne = MNone.
Proof.
  induction s as [|y t IH]; intros z fuel ne Hs Hm Hf; (destruct fuel as [|f]; [cbn in Hf; lia|]);
    rewrite search_from_S.
  - rewrite run_at_fail by (apply Hfail; rewrite Hs; exact I). rewrite Hs. reflexivity.
  - cbn [mem_N] in Hm. apply orb_false_iff in Hm. destruct Hm as [Hy Hm].
    rewrite run_at_fail by (apply Hfail; rewrite Hs; cbn; rewrite N.eqb_sym; exact Hy).
    rewrite Hs. apply IH; [reflexivity|exact Hm|cbn in Hf; lia].
Qed.

Lemma rfinditer_none s : mem_N c s = false -> rfinditer r s = Some [].
Proof.
  intros Hm. unfold rfinditer.
  replace (2 * length s + 2) with (S (2 * length s + 1)) by lia.
  rewrite finditer_from_S.
  rewrite (search_none s (st_at s 0) _ None); [reflexivity|reflexivity|exact Hm|].
  cbn [st_at suf skipn]. lia.
Qed.
End NoMatch.

Lemma mochibake_none s : mem_N c_fffd s = false -> rfinditer rx_mochibake s = Some [].
Proof.
  apply rfinditer_none. intros z k H. apply m_Chr_fail.
  eapply head_not_ext; [apply chr_single|exact H].
Qed.

Lemma escape_none s : mem_N c_backslash s = false -> rfinditer rx_c06_escape s = Some [].
Proof.
  apply rfinditer_none. intros z k H. unfold rx_c06_escape. rewrite m_Cat. apply m_Chr_fail.
  eapply head_not_ext; [apply chr_single|exact H].
Qed.

Lemma printf_none s : mem_N c_pct s = false -> rfinditer rx_printf s = Some [].
Proof. apply rfinditer_none. intros z k H. apply printf_at_other. exact H. Qed.

(* a value without a per cent sign has no printf arguments *)
Lemma specs_pct_free v : mem_N c_pct v = false -> get_printf_specs v = Ok (SOk []).
Proof. intros H. unfold get_printf_specs, finditer. rewrite (printf_none v H). reflexivity. Qed.

Theorem check_plain_silent : forall c, plain_in c = true -> check c = Ok [].
Proof.
  intros c H. unfold plain_in in H.
  apply andb_true_iff in H. destruct H as [H Hpl].
  apply andb_true_iff in H. destruct H as [H Hraw].
  apply andb_true_iff in H. destruct H as [Hval Hall].
  apply negb_true_iff in Hval, Hall, Hraw.
  unfold check, encoding_findings, escape_findings, finditer.
  rewrite (mochibake_none _ Hall). cbn [map].
  destruct (is_plural c) as [[|]|]; try discriminate.
  rewrite (escape_none _ Hraw). cbn [flat_map].
  rewrite (specs_pct_free _ Hval). reflexivity.
Qed.

(* ways not to be a plural entity *)
Lemma not_plural_no_comment c : ref_comment c = None -> is_plural c = Ok false.
Proof. unfold is_plural. intros ->. reflexivity. Qed.

Lemma not_plural_no_marker c all : ref_comment c = Some all ->
  contains lit_plural_comment all = false -> is_plural c = Ok false.
Proof. unfold is_plural. intros -> ->. reflexivity. Qed.

(* the lint variant: an entity against itself *)
Theorem check_plain_silent_self : forall comment key all val raw locale,
  mem_N c_pct val = false -> mem_N c_fffd all = false -> mem_N c_backslash raw = false ->
  match comment with Some a => contains lit_plural_comment a = false | None => True end ->
  check (self_in comment key all val raw locale) = Ok [].
Proof.
  intros comment key all val raw locale H1 H2 H3 H4. apply check_plain_silent.
  unfold plain_in, self_in. cbn [ref_val l10n_all l10n_raw]. rewrite H1, H2, H3. cbn [negb andb].
  destruct comment as [a|].
  - rewrite (not_plural_no_marker (mkin (Some a) key val key all val raw locale) a eq_refl H4).
    reflexivity.
  - rewrite not_plural_no_comment by reflexivity. reflexivity.
Qed.
