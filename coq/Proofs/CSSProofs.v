(* Lemmas about Model/CSS.v: check_style / maybe_style verdicts, and
   parse_css_spec on rendered spec lists (bounded, by evaluation). *)
From Coq Require Import NArith ZArith List Bool Arith Lia.
From CL Require Import Base.Sx Base.Res Base.Str Regex.Rx Generated.RxC07 Generated.C07Facts
  Model.CSS Model.XmlContent Model.CheckDTD Proofs.CheckDTDProofs.
Import ListNotations.

(* the two dicts map the same properties to the same units *)
Definition agree (rm lm : cmap) : Prop := forall p, cget p rm = cget p lm.

Definition keys (m : cmap) : list str := map fst m.

(* ---- dict lemmas -------------------------------------------------------------- *)
Lemma cget_In_keys : forall m p u, cget p m = Some u -> In p (keys m).
Proof.
  induction m as [|[k v] m IH]; simpl; intros p u H; [discriminate|].
  destruct (str_eqb p k) eqn:E; [left; apply str_eqb_eq in E; auto | right; eauto].
Qed.

Lemma cget_None_keys : forall m p, cget p m = None <-> ~ In p (keys m).
Proof.
  induction m as [|[k v] m IH]; simpl; intros p; [tauto|].
  destruct (str_eqb p k) eqn:E.
  - apply str_eqb_eq in E. subst. split; [discriminate | intros H; exfalso; apply H; auto].
  - apply str_eqb_neq in E. rewrite IH. split; [intros H [H1|H1]; [congruence|tauto] | tauto].
Qed.

Lemma cdel_other : forall m p q, q <> p -> cget q (cdel p m) = cget q m.
Proof.
  induction m as [|[k v] m IH]; simpl; intros p q H; [reflexivity|].
  destruct (str_eqb p k) eqn:E.
  - apply str_eqb_eq in E. subst k. destruct (str_eqb q p) eqn:E2; [apply str_eqb_eq in E2; contradiction | reflexivity].
  - simpl. destruct (str_eqb q k); [reflexivity | apply IH; exact H].
Qed.

Lemma cdel_keys_incl : forall m p q, In q (keys (cdel p m)) -> In q (keys m).
Proof.
  induction m as [|[k v] m IH]; simpl; intros p q H; [exact H|].
  destruct (str_eqb p k); simpl in *; [auto | destruct H; eauto].
Qed.

Lemma cdel_NoDup : forall m p, NoDup (keys m) -> NoDup (keys (cdel p m)).
Proof.
  induction m as [|[k v] m IH]; simpl; intros p H; [exact H|]. inversion H; subst.
  destruct (str_eqb p k); simpl; [assumption|]. constructor; [|apply IH; assumption].
  intros Hi. apply cdel_keys_incl in Hi. contradiction.
Qed.

Lemma cdel_same : forall m p, NoDup (keys m) -> cget p (cdel p m) = None.
Proof.
  induction m as [|[k v] m IH]; simpl; intros p H; [reflexivity|]. inversion H; subst.
  destruct (str_eqb p k) eqn:E.
  - apply str_eqb_eq in E. subst k. apply cget_None_keys. assumption.
  - simpl. rewrite E. apply IH. assumption.
Qed.

Lemma cset_keys_In : forall m k v q, In q (keys (cset k v m)) <-> q = k \/ In q (keys m).
Proof.
  induction m as [|[k' v'] m IH]; simpl; intros k v q; [intuition|].
  destruct (str_eqb k k') eqn:E; simpl.
  - apply str_eqb_eq in E. subst. intuition.
  - rewrite IH. intuition.
Qed.

Lemma cset_NoDup : forall m k v, NoDup (keys m) -> NoDup (keys (cset k v m)).
Proof.
  induction m as [|[k' v'] m IH]; simpl; intros k v H.
  - constructor; [intros []|constructor].
  - inversion H; subst. destruct (str_eqb k k') eqn:E; simpl; [constructor; assumption|].
    constructor; [|apply IH; assumption].
    rewrite cset_keys_In. intros [->|Hi]; [rewrite str_eqb_refl in E; discriminate | contradiction].
Qed.

Lemma cget_cset : forall m k v q, cget q (cset k v m) = if str_eqb q k then Some v else cget q m.
Proof.
  induction m as [|[k' v'] m IH]; simpl; intros k v q; [reflexivity|].
  destruct (str_eqb k k') eqn:E; simpl.
  - apply str_eqb_eq in E. subst k'. destruct (str_eqb q k); reflexivity.
  - rewrite IH. destruct (str_eqb q k') eqn:E1; [|reflexivity].
    destruct (str_eqb q k) eqn:E2; [|reflexivity].
    apply str_eqb_eq in E1, E2. subst. rewrite str_eqb_refl in E. discriminate.
Qed.

(* ---- style_loop ------------------------------------------------------------------ *)
Lemma style_loop_grows : forall items rm msgs, length msgs <= length (snd (style_loop items rm msgs)).
Proof.
  induction items as [|[p u] items IH]; simpl; intros rm msgs; [lia|].
  destruct (cget p rm) as [ru|].
  - destruct (str_eqb u ru); [apply IH|]. etransitivity; [|apply IH]. rewrite app_length. simpl. lia.
  - etransitivity; [|apply IH]. simpl. lia.
Qed.

Lemma fold_only_ref_length : forall ks msgs,
  length (fold_left (fun ms prop => render t_only_ref [prop] :: ms) ks msgs) = length ks + length msgs.
Proof. induction ks as [|k ks IH]; simpl; intros msgs; [reflexivity|]. rewrite IH. simpl. lia. Qed.

Lemma style_msgs_nil_fwd : forall lm rm, style_msgs rm lm = [] -> agree rm lm.
Proof.
  unfold style_msgs.
  assert (G : forall lm rm msgs,
             (let '(rest, ms) := style_loop lm rm msgs in
              fold_left (fun ms prop => render t_only_ref [prop] :: ms) (map fst rest) ms) = [] ->
             msgs = [] /\ agree rm lm).
  { induction lm as [|[p u] lm IH]; simpl; intros rm msgs H.
    - apply (f_equal (@length str)) in H. rewrite fold_only_ref_length in H. simpl in H.
      destruct rm as [|[k v] rm]; [|simpl in H; lia].
      destruct msgs; [|simpl in H; lia]. split; [reflexivity | intros q; reflexivity].
    - destruct (cget p rm) as [ru|] eqn:Eg.
      + destruct (str_eqb u ru) eqn:Eu.
        * apply str_eqb_eq in Eu. subst ru. destruct (IH _ _ H) as [Hm Ha]. split; [exact Hm|].
          intros q. simpl. destruct (str_eqb q p) eqn:E.
          -- apply str_eqb_eq in E. subst q. exact Eg.
          -- apply str_eqb_neq in E. rewrite <- Ha. symmetry. apply cdel_other. exact E.
        * destruct (IH _ _ H) as [Hm _]. destruct msgs; discriminate.
      + destruct (IH _ _ H) as [Hm _]. discriminate. }
  intros lm rm H. destruct (G lm rm [] H) as [_ Ha]. exact Ha.
Qed.

Lemma style_msgs_nil_bwd : forall lm rm, NoDup (keys rm) -> NoDup (keys lm) ->
  agree rm lm -> style_msgs rm lm = [].
Proof.
  unfold style_msgs.
  induction lm as [|[p u] lm IH]; simpl; intros rm Hr Hl Ha.
  - destruct rm as [|[k v] rm]; [reflexivity|]. specialize (Ha k). simpl in Ha.
    rewrite str_eqb_refl in Ha. discriminate.
  - pose proof (Ha p) as Hp. simpl in Hp. rewrite str_eqb_refl in Hp. rewrite Hp, str_eqb_refl.
    inversion Hl; subst. apply IH; [apply cdel_NoDup; assumption | assumption |].
    intros q. destruct (str_eqb q p) eqn:E.
    + apply str_eqb_eq in E. subst q. rewrite cdel_same by assumption.
      symmetry. apply cget_None_keys. assumption.
    + apply str_eqb_neq in E. rewrite cdel_other by assumption. rewrite Ha. simpl.
      apply str_eqb_neq in E. rewrite E. reflexivity.
Qed.

(* ---- check_style ----------------------------------------------------------------------- *)
(* no (usable) localized spec: the one error *)
Lemma check_style_unparseable : forall rm lmo errs,
  (lmo = None \/ lmo = Some [] \/ nonempty errs = true) ->
  check_style rm lmo errs = [lit_issue y_css_spec (PInt 0)].
Proof.
  intros rm lmo errs H. unfold check_style. destruct lmo as [[|x l]|]; try reflexivity.
  destruct H as [H|[H|H]]; try discriminate. rewrite H. reflexivity.
Qed.

(* a parseable localized spec: no issue iff same properties and units, else one warning *)
Lemma check_style_parseable : forall rm lm errs,
  lm <> [] -> nonempty errs = false -> NoDup (keys rm) -> NoDup (keys lm) ->
  (check_style rm (Some lm) errs = [] <-> agree rm lm) /\
  (~ agree rm lm -> exists msg, check_style rm (Some lm) errs = [var_issue y_css_warn (PInt 0) msg]).
Proof.
  intros rm lm errs Hne He Hr Hl. unfold check_style. destruct lm as [|x l]; [contradiction|].
  rewrite He. destruct (style_msgs rm (x :: l)) as [|m ms] eqn:Es.
  - split; [split; [intros _; apply style_msgs_nil_fwd; exact Es | reflexivity]|].
    intros Hna. exfalso. apply Hna. apply style_msgs_nil_fwd. exact Es.
  - split.
    + split; [discriminate|]. intros Ha. rewrite (style_msgs_nil_bwd _ _ Hr Hl Ha) in Es. discriminate.
    + intros _. eexists. reflexivity.
Qed.

(* ---- parse_css_spec yields dicts (distinct keys) --------------------------------------------- *)
Definition omap_nodup (o : option cmap) : Prop :=
  match o with Some m => NoDup (keys m) | None => True end.

Lemma css_loop_nodup : forall val ms refMap errors e r,
  omap_nodup refMap -> css_loop val ms refMap errors e = Ok r -> omap_nodup (fst r).
Proof.
  induction ms as [|m ms IH]; simpl; intros refMap errors e r Hn H.
  - inversion H; subst. exact Hn.
  - destruct (Nat.eqb e 0 && Nat.eqb (m_start m) (m_end m)); [inversion H; subst; exact I|].
    apply bind_ok in H. destruct H as [rm1 [H1 H2]].
    eapply IH; [|exact H2].
    destruct (group_str val m g_c07_css_spec_prop) as [[|c p]|]; try (inversion H1; subst; exact Hn).
    destruct (group_str val m g_c07_css_spec_unit) as [u|]; [|discriminate].
    inversion H1; subst. simpl. apply cset_NoDup.
    destruct refMap as [r0|]; [exact Hn | constructor].
Qed.

Lemma parse_css_spec_nodup : forall val r, parse_css_spec val = Ok r -> omap_nodup (fst r).
Proof.
  unfold parse_css_spec. intros val r H. apply bind_ok in H. destruct H as [ms [_ H]].
  eapply css_loop_nodup; [|exact H]. exact I.
Qed.

(* ---- maybe_style -------------------------------------------------------------------------------- *)
Theorem maybe_style_verdict : forall rv lv rm e1 lmo errs,
  parse_css_spec rv = Ok (Some rm, e1) -> rm <> [] ->
  parse_css_spec lv = Ok (lmo, errs) ->
  ((lmo = None \/ lmo = Some [] \/ nonempty errs = true) ->
   maybe_style rv lv = Ok [lit_issue y_css_spec (PInt 0)]) /\
  (forall lm, lmo = Some lm -> lm <> [] -> nonempty errs = false ->
   (maybe_style rv lv = Ok [] <-> agree rm lm) /\
   (~ agree rm lm -> exists msg, maybe_style rv lv = Ok [var_issue y_css_warn (PInt 0) msg])).
Proof.
  intros rv lv rm e1 lmo errs Hr Hne Hl.
  pose proof (parse_css_spec_nodup _ _ Hr) as Nr. pose proof (parse_css_spec_nodup _ _ Hl) as Nl.
  simpl in Nr, Nl.
  assert (E : maybe_style rv lv = Ok (check_style rm lmo errs)).
  { unfold maybe_style. rewrite Hr. simpl. destruct rm as [|x l]; [contradiction|].
    rewrite Hl. reflexivity. }
  rewrite E. split.
  - intros H. rewrite (check_style_unparseable _ _ _ H). reflexivity.
  - intros lm -> Hlm He.
    destruct (check_style_parseable rm lm errs Hlm He Nr Nl) as [[H1 H2] H3]. split.
    + split; [intros H; inversion H as [H']; apply H1; exact H' | intros Ha; f_equal; apply H2; exact Ha].
    + intros Hna. destruct (H3 Hna) as [msg Hm]. exists msg. f_equal. exact Hm.
Qed.

(* a reference that is not a CSS spec asks nothing of the localization *)
Lemma maybe_style_no_spec : forall rv lv e1,
  (parse_css_spec rv = Ok (None, e1) \/ parse_css_spec rv = Ok (Some [], e1)) ->
  maybe_style rv lv = Ok [].
Proof. intros rv lv e1 [H|H]; unfold maybe_style; rewrite H; reflexivity. Qed.

