(* Format-independent part of the re-parse theorems: the shape of the merged entry list
   (merge_channels) and of the serializer's output, and where their entries come from. *)
From Coq Require Import ZArith NArith List Bool Arith Lia.
From CL Require Import Base.Sx Base.Res Base.Str
                       Model.AddRemove Proofs.AddRemoveProofs Proofs.AddRemoveSpec
                       Model.Channels Proofs.ChannelsProofs Proofs.ChannelsSpec
                       Model.Serializer Proofs.SerializerProofs Proofs.SerializerSpec
                       Proofs.SerializerFinal Proofs.MergeShapeKeys Proofs.MergeShape
                       Proofs.MergeReparse15 Proofs.SerializeReparse16.
Import ListNotations.
Local Open Scope nat_scope.

Section G.
Variable m : nat.

(* ---- merge_channels ------------------------------------------------------------------------------ *)
Theorem merge_entries_shape vs out :
  Forall ukeys vs -> Forall (nf m) vs -> Forall noadj vs ->
  merge_entries vs = Ok out ->
  nf m out /\ noadj out /\
  (forall e, In e out -> exists v e0, In v vs /\ In e0 v /\ strip e = strip e0).
Proof.
  intros Hu Hn Ha Ho. destruct vs as [|v0 vs]; [discriminate|].
  unfold merge_entries, merge_resources, merge_dicts in Ho. cbn in Ho. inversion Ho; subst out; clear Ho.
  destruct (number_all_sep (v0 :: vs) Hu 0) as (S1 & S2 & _). cbn in S1, S2.
  inversion S2 as [|? ? Sv Svs]; subst.
  inversion Hu as [|? ? U0 Ur]; subst. inversion Hn as [|? ? N0 Nr]; subst. inversion Ha as [|? ? A0 Ar]; subst.
  pose proof (number_uniq v0 0 U0) as Un0.
  assert (Hn0 : nf m (dvalues (parse_resource (number 0 v0)))).
  { rewrite parse_resource_values by exact Un0. eapply nf_strip; [symmetry; apply number_strip|exact N0]. }
  assert (Ha0 : noadj (dvalues (parse_resource (number 0 v0)))).
  { rewrite parse_resource_values by exact Un0. eapply noadj_strip; [symmetry; apply number_strip|exact A0]. }
  assert (Hnr : Forall (fun x => nf m (dvalues x)) (map parse_resource (number_all (length v0) vs))).
  { clear - Ur Nr. generalize (length v0). revert Nr. induction Ur as [|v vs Hv _ IH]; intros Nr c; cbn; constructor.
    - inversion Nr; subst. rewrite parse_resource_values by (apply number_uniq; exact Hv).
      eapply nf_strip; [symmetry; apply number_strip|assumption].
    - inversion Nr; subst. apply IH. assumption. }
  destruct (fold_shape m _ _ Sv Svs S1 Hn0 Ha0 Hnr) as [F1 F2].
  split; [exact F1|]. split; [exact F2|].
  intros e He. destruct (fold_values _ _ e Sv Svs He) as (d' & Hd' & He').
  assert (Hv : exists v c, In v (v0 :: vs) /\ In e (number c v)).
  { destruct Hd' as [<-|Hd'].
    - rewrite parse_resource_values in He' by exact Un0. exists v0, 0. split; [left; reflexivity|exact He'].
    - clear - Hd' He' Ur. revert Hd'. generalize (length v0).
      induction Ur as [|v vs Hv _ IH]; intros c Hd'; cbn in Hd'; [contradiction|].
      destruct Hd' as [<-|Hd'].
      + rewrite parse_resource_values in He' by (apply number_uniq; exact Hv).
        exists v, c. split; [right; left; reflexivity|exact He'].
      + destruct (IH _ Hd') as (v' & c' & [E|E] & E2).
        * exists v', c'. split; [left; exact E|exact E2].
        * exists v', c'. split; [right; right; exact E|exact E2]. }
  destruct Hv as (v & c & Hv1 & Hv2). destruct (number_In_strip _ _ _ Hv2) as (e0 & H0 & Hs).
  exists v, e0. auto.
Qed.

(* ---- serialize -------------------------------------------------------------------------------------- *)
(* entries as the text formats' parsers yield them for junk-free files: entities, standalone
   comments, whitespace, ini section headers, .inc instructions *)
Definition plain (e : centry) : Prop :=
  c_kind e = CEntity \/ c_kind e = CComment \/ c_kind e = CWhite \/ c_kind e = CSection \/
  c_kind e = COther.

Variables (vR vL : list centry).
Hypothesis HpR : Forall plain vR.
Hypothesis HpL : Forall plain vL.
Hypothesis HuR : ukeys vR.
Hypothesis HuL : ukeys vL.
Hypothesis HnR : nf m vR.
Hypothesis HnL : nf m vL.
Let R : list centry := number 0 vR.
Let L : list centry := number (length vR) vL.
Variable wrap : centry -> str -> result centry.
Variable nd : new_data_t.
Hypothesis Hnd : NoDup (map fst nd).
Hypothesis Hwo : wrap_ok wrap.

Lemma numbered_plain v c e : Forall plain v -> In e (number c v) -> plain e.
Proof.
  intros Hp He. destruct (number_In_strip _ _ _ He) as (e0 & H0 & Hs).
  rewrite Forall_forall in Hp. unfold plain. rewrite (strip_kind_eq _ _ Hs). apply (Hp e0 H0).
Qed.

Lemma plain_nojunk e : plain e -> is_junk e = false.
Proof. unfold plain, is_junk. intros [K|[K|[K|[K|K]]]]; rewrite K; reflexivity. Qed.
Lemma plain_nosticky e : plain e -> is_sticky e = false.
Proof. unfold plain, is_sticky. intros [K|[K|[K|[K|K]]]]; rewrite K; reflexivity. Qed.

Lemma gnjR : nj R = R.
Proof. apply nj_all. intros e He. apply plain_nojunk. apply (numbered_plain vR 0 e HpR He). Qed.
Lemma gnjL : nj L = L.
Proof. apply nj_all. intros e He. apply plain_nojunk. apply (numbered_plain vL _ e HpL He). Qed.
Lemma guR : uniq (nj R).
Proof. rewrite gnjR. apply number_uniq. exact HuR. Qed.
Lemma guL : uniq (nj L).
Proof. rewrite gnjL. apply number_uniq. exact HuL. Qed.

Lemma san_rel_gen ref e : shape_rel e (san ref nd e).
Proof.
  unfold san. destruct (should_placeholder (refkeys ref) nd e); [apply placeholder_rel|unfold shape_rel; auto].
Qed.

Lemma gws_disj : ws_disjoint (dkeys (P R)) (dkeys (O' R L nd)).
Proof.
  intros k Hk H1 H2. apply nwk_false in Hk. destruct Hk as [i ->].
  apply (dw_ids _ i (PL_uniq R guR)) in H1. apply (dw_ids _ i (OL_uniq R L nd guL)) in H2.
  unfold PL, placeholders in H1. unfold OL in H2. fold (nj R) in H1. fold (nj L) in H2.
  rewrite gnjR in H1. rewrite gnjL in H2.
  rewrite white_ids_map in H1 by (intros e; destruct (placeholder_facts e) as (_ & _ & F3 & F4 & _); auto).
  rewrite white_ids_map in H2 by (intros e; destruct (san_facts R nd e) as (_ & _ & F3 & F4 & _); auto).
  apply number_white_ids in H1. apply number_white_ids in H2. lia.
Qed.

Theorem serialize_entries_shape out : serialize_entries wrap R L nd = Ok out ->
  nf m out /\ noadj out.
Proof.
  intros H.
  destruct (serialize_entries_inv wrap R L nd guR out H) as (NL & HNL & Hout).
  pose proof (P_wf R guR) as WP. pose proof (O_wf R L nd guL) as WO.
  pose proof (M1_wf R L nd guR guL) as WM1.
  pose proof (N_wf wrap R nd Hnd Hwo NL HNL) as WN.
  assert (SP : nf m (dvalues (P R))).
  { unfold P. rewrite parse_resource_values by (apply PL_uniq; exact guR).
    unfold PL, placeholders. fold (nj R). rewrite gnjR. apply nf_map_rel; [apply placeholder_rel|].
    eapply nf_strip; [symmetry; apply number_strip|exact HnR]. }
  assert (SO : nf m (dvalues (O' R L nd))).
  { unfold O'. rewrite parse_resource_values by (apply OL_uniq; exact guL).
    unfold OL. fold (nj L). rewrite gnjL. apply nf_map_rel; [apply san_rel_gen|].
    eapply nf_strip; [symmetry; apply number_strip|exact HnL]. }
  assert (StO : Forall (fun p => is_sticky (snd p) = false) (O' R L nd)).
  { apply Forall_forall. intros [k e] Hin. cbn.
    assert (He : In e (OL R L nd)).
    { rewrite <- (parse_resource_values _ (OL_uniq R L nd guL)). unfold dvalues. apply in_map_iff. exists (k, e). auto. }
    unfold OL in He. fold (nj L) in He. rewrite gnjL in He. apply in_map_iff in He. destruct He as (o & <- & Ho').
    pose proof (plain_nosticky o (numbered_plain vL _ o HpL Ho')) as Hs.
    unfold san. destruct (should_placeholder (refkeys R) nd o); [|exact Hs].
    unfold placeholder. destruct (is_entity o); [reflexivity|exact Hs]. }
  destruct (merge_two_shape m (P R) (O' R L nd) false WP WO gws_disj (fun _ => StO) SP SO) as [S1 _].
  fold (M1 R L nd) in S1.
  assert (StN : Forall (fun p => is_sticky (snd p) = false) (Nw NL)).
  { apply Forall_forall. intros [k e] Hin. cbn.
    destruct (N_pairs wrap R nd guR Hnd Hwo NL HNL k e Hin) as (Hc & _).
    unfold is_cent in Hc. unfold is_sticky. destruct (c_kind e); try discriminate; reflexivity. }
  assert (DisN : ws_disjoint (dkeys (M1 R L nd)) (dkeys (Nw NL))).
  { intros k Hk _ H2. unfold dkeys in H2. apply in_map_iff in H2. destruct H2 as ([k' e] & Hk' & Hin).
    cbn in Hk'. subst k'. destruct (N_pairs wrap R nd guR Hnd Hwo NL HNL k e Hin) as (_ & -> & _). discriminate. }
  destruct (merge_two_shape_sub m (M1 R L nd) (Nw NL) false WM1 WN DisN (fun _ => StN)
              (N_keys_in_M1 wrap R L nd guR guL Hnd Hwo NL HNL) S1) as [S2 _].
  fold (M R L nd NL) in S2.
  rewrite Hout, prune_placeholders_pws. apply pws_shape. unfold nf.
  apply nfk_filter; [|exact S2]. intros x Hx. apply negb_false_iff in Hx.
  unfold is_placeholder in Hx. unfold is_white. destruct (c_kind x); try discriminate; reflexivity.
Qed.
End G.
