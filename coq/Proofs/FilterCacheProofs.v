(* C14: the FilterCache slot and the _all_locales slot are transparent: on a
   coherent configuration every filter call answers what the cache-free
   function answers, and leaves a coherent configuration with the same data. *)
From Coq Require Import NArith List Bool Arith Lia.
From CL Require Import Base.Sx Base.Res Base.Str Regex.Rx Generated.FilterFacts
  Model.Filter Proofs.FilterProofs.
Import ListNotations.

Lemma existsb_map' {A B} (p : B -> bool) (g : A -> B) (l : list A) :
  existsb p (map g l) = existsb (fun x => p (g x)) l.
Proof. induction l as [|x l IH]; simpl; [reflexivity|]. rewrite IH. reflexivity. Qed.

Section Cache.
Variables (matcher locale file : Type).
Variable loc_eqb : locale -> locale -> bool.
Variable matches : matcher -> locale -> file -> bool.
Hypothesis loc_eqb_eq : forall a b, loc_eqb a b = true <-> a = b.

Notation config := (config matcher locale).
Notation pathd := (pathd matcher locale).
Notation rule := (rule matcher).
Notation filter_node := (filter_node matcher locale file loc_eqb matches).
Notation filter_node_pure := (filter_node_pure matcher locale file loc_eqb matches).
Notation filter_st := (filter_st matcher locale file loc_eqb matches).
Notation filter_pure := (filter_pure matcher locale file loc_eqb matches).
Notation filter_wrap := (filter_wrap matcher locale loc_eqb).
Notation filter_wrap_pure := (filter_wrap_pure matcher locale loc_eqb).
Notation all_locales_pure := (all_locales_pure matcher locale).
Notation erase := (erase matcher locale).
Notation coherent := (coherent matcher locale loc_eqb).
Notation build_cache := (build_cache matcher locale loc_eqb).

Lemma config_ind2 (P : config -> Prop) :
  (forall locs allc paths rules fc children excludes,
      Forall P children -> Forall P excludes ->
      P (mkconfig _ _ locs allc paths rules fc children excludes)) ->
  forall c, P c.
Proof.
  intro H. fix IH 1. intros [locs allc paths rules fc children excludes]. apply H.
  - induction children as [|c cs IHc]; constructor; [apply IH|exact IHc].
  - induction excludes as [|c cs IHc]; constructor; [apply IH|exact IHc].
Qed.

(* ---- the cache-free functions only see the data -------------------------- *)
Lemma own_locales_erase : forall c, own_locales _ _ (erase c) = own_locales _ _ c.
Proof. intros [locs allc paths rules fc children excludes]. reflexivity. Qed.

Lemma pure_erase : forall c,
  configs _ _ (erase c) = map erase (configs _ _ c) /\
  forall loc f ent, filter_node_pure (erase c) loc f ent = filter_node_pure c loc f ent.
Proof.
  apply config_ind2. intros locs allc paths rules fc children excludes IHc IHe.
  rewrite Forall_forall in IHc, IHe.
  assert (Hcfg : configs _ _ (erase (mkconfig _ _ locs allc paths rules fc children excludes)) =
                 map erase (configs _ _ (mkconfig _ _ locs allc paths rules fc children excludes))).
  { simpl. f_equal. induction children as [|c cs IH]; simpl; [reflexivity|].
    rewrite map_app, (proj1 (IHc c (or_introl eq_refl))), IH; [reflexivity|].
    intros x Hx. apply IHc. right. exact Hx. }
  split; [exact Hcfg|]. intros loc f ent. simpl.
  assert (Hall : forall e, In e excludes -> all_locales_pure (erase e) = all_locales_pure e).
  { intros e Hin. unfold Filter.all_locales_pure. rewrite (proj1 (IHe e Hin)).
    rewrite flat_map_concat_map, map_map, <- flat_map_concat_map.
    apply flat_map_ext_in'. intros x _. apply own_locales_erase. }
  rewrite existsb_map'.
  rewrite (existsb_ext' _ (fun e => action_beq (filter_wrap_pure
             (fun x => filter_node_pure x loc f None) e loc) act_exclude_trigger)).
  2:{ intros e Hin. unfold Filter.filter_wrap_pure. rewrite (Hall e Hin), (proj2 (IHe e Hin)).
      reflexivity. }
  destruct (existsb _ excludes); [reflexivity|].
  rewrite map_map.
  rewrite (map_ext_in _ (fun ch => filter_node_pure ch loc f ent)).
  2:{ intros ch Hin. apply (proj2 (IHc ch Hin)). }
  reflexivity.
Qed.

Lemma all_locales_erase : forall c, all_locales_pure (erase c) = all_locales_pure c.
Proof.
  intro c. unfold Filter.all_locales_pure. rewrite (proj1 (pure_erase c)).
  rewrite flat_map_concat_map, map_map, <- flat_map_concat_map.
  apply flat_map_ext_in'. intros x _. apply own_locales_erase.
Qed.

Lemma same_data_locales : forall c c', erase c' = erase c -> all_locales_pure c' = all_locales_pure c.
Proof. intros c c' H. rewrite <- (all_locales_erase c'), H. apply all_locales_erase. Qed.

Lemma same_data_node : forall c c' loc f ent, erase c' = erase c ->
  filter_node_pure c' loc f ent = filter_node_pure c loc f ent.
Proof.
  intros c c' loc f ent H. rewrite <- (proj2 (pure_erase c') loc f ent), H.
  apply (proj2 (pure_erase c)).
Qed.

Lemma same_data_filter : forall c c' loc f ent, erase c' = erase c ->
  filter_pure c' loc f ent = filter_pure c loc f ent.
Proof.
  intros c c' loc f ent H. unfold Filter.filter_pure, Filter.filter_wrap_pure.
  rewrite (same_data_locales c c' H), (same_data_node c c' loc f ent H). reflexivity.
Qed.

(* ---- a freshly filled cache slot answers like the direct computation ------- *)
Lemma scan_rules_bound : forall (rs : list rule) loc f ent,
  scan_rules matcher locale file matches
    (map (fun r => mkcrule _ _ (r_path _ r, loc) (r_key _ r) (r_action _ r)) rs) f ent =
  scan_rules_pure matcher locale file matches rs loc f ent.
Proof.
  induction rs as [|r rs IH]; intros loc f ent; simpl; [reflexivity|].
  unfold bmatch. simpl. rewrite IH. reflexivity.
Qed.

Lemma own_action_cache : forall paths rules loc f ent,
  own_action matcher locale file matches (build_cache loc paths rules) f ent =
  own_action_pure matcher locale file loc_eqb matches paths rules loc f ent.
Proof.
  intros paths rules loc f ent. unfold own_action, own_action_pure, Filter.build_cache. simpl.
  assert (E : existsb (fun p => bmatch _ _ _ matches p f)
                (flat_map (fun p : pathd =>
                   match p_locales _ _ p with
                   | Some ls => if mem_loc _ loc_eqb loc ls then [(p_l10n _ _ p, loc)] else []
                   | None => [(p_l10n _ _ p, loc)]
                   end) paths) =
              existsb (fun p : pathd => loc_ok _ _ loc_eqb p loc && matches (p_l10n _ _ p) loc f) paths).
  { induction paths as [|p ps IH]; simpl; [reflexivity|].
    rewrite existsb_app. f_equal; [|exact IH]. unfold loc_ok, bmatch.
    destruct (p_locales _ _ p) as [ls|]; simpl.
    - destruct (mem_loc _ loc_eqb loc ls); simpl; [apply orb_false_r|reflexivity].
    - apply orb_false_r. }
  rewrite E. destruct (existsb _ paths); [|reflexivity].
  rewrite <- map_rev, scan_rules_bound. reflexivity.
Qed.

Lemma get_cache_coh : forall fc loc paths rules,
  (forall ch, fc = Some ch -> ch = build_cache (fc_locale _ _ ch) paths rules) ->
  get_cache matcher locale loc_eqb fc loc paths rules = build_cache loc paths rules.
Proof.
  intros fc loc paths rules H. unfold get_cache. destruct fc as [ch|]; [|reflexivity].
  destruct (loc_eqb (fc_locale _ _ ch) loc) eqn:E; [|reflexivity].
  apply loc_eqb_eq in E. rewrite (H ch eq_refl), E. reflexivity.
Qed.

(* ---- any(...) over elements that carry state -------------------------------- *)
Lemma scan_until_spec {A} (step : A -> bool * A) (p : A -> bool) (R : A -> A -> Prop) (l : list A) :
  (forall x, In x l -> fst (step x) = p x /\ R x (snd (step x))) ->
  (forall x, In x l -> R x x) ->
  fst (scan_until step l) = existsb p l /\ Forall2 R l (snd (scan_until step l)).
Proof.
  induction l as [|x l IH]; intros Hs Hr; simpl.
  - split; [reflexivity|constructor].
  - destruct (Hs x (or_introl eq_refl)) as [Hp HR].
    destruct (step x) as [b x'] eqn:E. simpl in Hp, HR. subst b.
    destruct (p x); simpl.
    + split; [reflexivity|]. constructor; [exact HR|].
      clear -Hr. induction l as [|y l IH]; constructor.
      * apply Hr. right. left. reflexivity.
      * apply IH. intros z [Hz|Hz]; apply Hr; [left; exact Hz|right; right; exact Hz].
    + destruct IH as [IH1 IH2].
      * intros y Hy. apply Hs. right. exact Hy.
      * intros y Hy. apply Hr. right. exact Hy.
      * destruct (scan_until step l) as [b' l'']. simpl in *. split; [exact IH1|].
        constructor; assumption.
Qed.

Definition node_ok (c : config) : Prop :=
  coherent c -> forall loc f ent,
    fst (filter_node c loc f ent) = filter_node_pure c loc f ent /\
    coherent (snd (filter_node c loc f ent)) /\
    erase (snd (filter_node c loc f ent)) = erase c /\
    c_allc _ _ (snd (filter_node c loc f ent)) = c_allc _ _ c.

Lemma coherent_set_allc : forall c l,
  coherent c -> l = all_locales_pure c -> coherent (set_allc _ _ (Some l) c).
Proof.
  intros c l H Hl. destruct H as [locs allc paths rules fc children excludes Ha Hf Hc He].
  simpl. constructor; try assumption. intros l' E. injection E as <-. rewrite Hl. reflexivity.
Qed.

Lemma erase_set_allc : forall c v, erase (set_allc _ _ v c) = erase c.
Proof. intros [locs allc paths rules fc children excludes] v. reflexivity. Qed.

Lemma all_locales_set_allc : forall c v, all_locales_pure (set_allc _ _ v c) = all_locales_pure c.
Proof. intros c v. apply same_data_locales. apply erase_set_allc. Qed.

(* filter() around a _filter that behaves *)
Lemma filter_wrap_ok : forall c loc f ent, coherent c -> node_ok c ->
  fst (filter_wrap (fun x => filter_node x loc f ent) c loc) =
    filter_wrap_pure (fun x => filter_node_pure x loc f ent) c loc /\
  coherent (snd (filter_wrap (fun x => filter_node x loc f ent) c loc)) /\
  erase (snd (filter_wrap (fun x => filter_node x loc f ent) c loc)) = erase c.
Proof.
  intros c loc f ent Hc Hn. unfold Filter.filter_wrap, Filter.filter_wrap_pure, all_locales_st.
  assert (Hls : forall l, c_allc _ _ c = Some l -> l = all_locales_pure c).
  { intros l E. destruct Hc as [locs allc paths rules fc children excludes Ha _ _ _]. apply Ha. exact E. }
  destruct (Hn Hc loc f ent) as (Hv & Hc2 & He2 & Ha2).
  destruct (c_allc _ _ c) as [l|] eqn:Eal.
  - rewrite <- (Hls l eq_refl).
    destruct (mem_loc _ loc_eqb loc l); [|simpl; auto].
    destruct (filter_node c loc f ent) as [v c2]. simpl in *. rewrite Hv. split; [reflexivity|].
    rewrite erase_set_allc. split; [|exact He2]. rewrite Eal.
    apply coherent_set_allc; [exact Hc2|]. rewrite (same_data_locales c c2 He2). apply Hls. reflexivity.
  - destruct (mem_loc _ loc_eqb loc (all_locales_pure c)).
    + destruct (filter_node c loc f ent) as [v c2]. simpl in *. rewrite Hv. split; [reflexivity|].
      rewrite erase_set_allc. split; [|exact He2].
      destruct c as [locs allc paths rules fc children excludes]. simpl.
      apply coherent_set_allc; [exact Hc2|]. symmetry. apply (same_data_locales _ c2 He2).
    + simpl. split; [reflexivity|]. rewrite erase_set_allc. split; [|reflexivity].
      apply coherent_set_allc; [exact Hc|reflexivity].
Qed.

Lemma Forall2_erase : forall l l' : list config,
  Forall2 (fun x y => coherent y /\ erase y = erase x) l l' -> map erase l' = map erase l.
Proof. induction 1 as [|x y l l' [_ H] _ IH]; simpl; [reflexivity|]. rewrite H, IH. reflexivity. Qed.

Lemma Forall2_coherent : forall l l' : list config,
  Forall2 (fun x y => coherent y /\ erase y = erase x) l l' -> Forall coherent l'.
Proof. induction 1 as [|x y l l' [H _] _ IH]; constructor; assumption. Qed.

Lemma node_all : forall c, node_ok c.
Proof.
  apply config_ind2. intros locs allc paths rules fc children excludes IHc IHe Hcoh loc f ent.
  rewrite Forall_forall in IHc, IHe.
  inversion Hcoh as [? ? ? ? ? ? ? Ha Hf Hcc Hce]; subst.
  pose proof Hcc as Fcc. pose proof Hce as Fce.
  rewrite Forall_forall in Hcc, Hce.
  simpl.
  (* the excluded configurations *)
  set (step := fun e : config =>
                 let '(v, e') := filter_wrap (fun x => filter_node x loc f None) e loc in
                 (action_beq v act_exclude_trigger, e')).
  destruct (scan_until_spec step
              (fun e => action_beq (filter_wrap_pure (fun x => filter_node_pure x loc f None) e loc)
                                   act_exclude_trigger)
              (fun x y => coherent y /\ erase y = erase x) excludes) as [Hhit Hex'].
  { intros e Hin. unfold step.
    destruct (filter_wrap_ok e loc f None (Hce e Hin) (IHe e Hin)) as (H1 & H2 & H3).
    destruct (filter_wrap (fun x => filter_node x loc f None) e loc) as [v e']. simpl in *.
    rewrite H1. auto. }
  { intros e Hin. split; [apply Hce; exact Hin|reflexivity]. }
  destruct (scan_until step excludes) as [hit excludes']. simpl in Hhit, Hex'. subst hit.
  pose proof (Forall2_erase _ _ Hex') as Eex. pose proof (Forall2_coherent _ _ Hex') as Cex.
  (* the included configurations *)
  set (results := map (fun ch => filter_node ch loc f ent) children).
  assert (Hacts : map fst results = map (fun ch => filter_node_pure ch loc f ent) children).
  { unfold results. rewrite map_map. apply map_ext_in. intros ch Hin.
    exact (proj1 (IHc ch Hin (Hcc ch Hin) loc f ent)). }
  assert (Ech : map erase (map snd results) = map erase children).
  { unfold results. rewrite !map_map. apply map_ext_in. intros ch Hin.
    exact (proj1 (proj2 (proj2 (IHc ch Hin (Hcc ch Hin) loc f ent)))). }
  assert (Cch : Forall coherent (map snd results)).
  { unfold results. rewrite map_map. apply Forall_forall. intros y Hy. apply in_map_iff in Hy.
    destruct Hy as (ch & <- & Hin). exact (proj1 (proj2 (IHc ch Hin (Hcc ch Hin) loc f ent))). }
  assert (Hall : forall fc', all_locales_pure (mkconfig _ _ locs allc paths rules fc' (map snd results) excludes') =
                 all_locales_pure (mkconfig _ _ locs allc paths rules fc children excludes)).
  { intro fc'. apply same_data_locales. simpl. rewrite Ech, Eex. reflexivity. }
  destruct (existsb _ excludes).
  - (* suppressed *)
    simpl. split; [reflexivity|]. split; [|split; [rewrite Eex; reflexivity|reflexivity]].
    constructor; assumption.
  - rewrite Hacts.
    destruct (mem_act (Some act_early) (map (fun ch => filter_node_pure ch loc f ent) children)).
    + simpl. split; [reflexivity|]. split; [|split; [rewrite Ech, Eex; reflexivity|reflexivity]].
      constructor; try assumption. intros l E. rewrite (Ha l E). symmetry. apply Hall.
    + simpl. rewrite (get_cache_coh fc loc paths rules Hf), own_action_cache.
      split; [reflexivity|]. split; [|split; [rewrite Ech, Eex; reflexivity|reflexivity]].
      constructor; try assumption.
      * intros l E. rewrite (Ha l E). symmetry. apply Hall.
      * intros ch E. injection E as <-. reflexivity.
Qed.

(* ---- C14_cache_transparent ---------------------------------------------------- *)
Theorem filter_st_transparent : forall c loc f ent, coherent c ->
  fst (filter_st c loc f ent) = filter_pure c loc f ent /\
  coherent (snd (filter_st c loc f ent)) /\
  erase (snd (filter_st c loc f ent)) = erase c.
Proof.
  intros c loc f ent H. unfold Filter.filter_st, Filter.filter_pure.
  apply filter_wrap_ok; [exact H|apply node_all].
Qed.

Theorem cache_transparent : forall qs c, coherent c ->
  run_queries matcher locale file loc_eqb matches c qs =
  map (fun q => filter_pure c (fst (fst q)) (snd (fst q)) (snd q)) qs.
Proof.
  induction qs as [|[[loc f] ent] qs IH]; intros c H; simpl; [reflexivity|].
  destruct (filter_st_transparent c loc f ent H) as (H1 & H2 & H3).
  destruct (filter_st c loc f ent) as [v c']. simpl in *. rewrite H1, (IH c' H2). f_equal.
  apply map_ext. intros [[l g] e]. simpl. apply same_data_filter. exact H3.
Qed.

End Cache.

(* a configuration built through the API has empty cache slots *)
Section Fresh.
Variables (matcher locale : Type).
Variable loc_eqb : locale -> locale -> bool.
Variable compile_re : str -> option rx.

Lemma built_coherent : forall raw cfg,
  build matcher locale compile_re raw = Ok cfg -> coherent matcher locale loc_eqb cfg.
Proof.
  apply (rawconfig_ind2 matcher locale
           (fun raw => forall cfg, build matcher locale compile_re raw = Ok cfg ->
                                   coherent matcher locale loc_eqb cfg)).
  intros locs paths rules children excludes IHc IHe cfg Hb.
  destruct (build_ok matcher locale compile_re _ _ _ _ _ _ Hb) as (rs & cs & es & Hr & Hcs & Hes & ->).
  apply mapM_Forall2 in Hcs, Hes. rewrite Forall_forall in IHc, IHe.
  constructor; try discriminate.
  - clear -Hcs IHc. induction Hcs as [|x y l l' Hxy _ IH]; constructor.
    + apply (IHc x (or_introl eq_refl) y Hxy).
    + apply IH. intros z Hz. apply IHc. right. exact Hz.
  - clear -Hes IHe. induction Hes as [|x y l l' Hxy _ IH]; constructor.
    + apply (IHe x (or_introl eq_refl) y Hxy).
    + apply IH. intros z Hz. apply IHe. right. exact Hz.
Qed.
End Fresh.
