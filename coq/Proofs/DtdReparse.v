(* C15 / C16 for DTD: the re-parse clauses from the block theorem of C02 (blocks_dtd), for
   files without parameter-entity blocks. *)
From Coq Require Import ZArith NArith List Bool Arith Lia.
From CL Require Import Base.Sx Base.Res Base.Str Model.Entry Model.Parse Model.ParseFormats
                       Proofs.C02Roundtrip Proofs.C02BlocksRx Proofs.C02BlocksDtdRx
                       Proofs.C02BlocksDtdPeRx Proofs.C02BlocksDtd
                       Model.AddRemove Proofs.AddRemoveProofs Proofs.AddRemoveSpec
                       Model.Channels Proofs.ChannelsProofs Proofs.ChannelsSpec
                       Model.Serializer Proofs.SerializerProofs Proofs.SerializerSpec
                       Proofs.SerializerFinal Proofs.MergeShapeKeys Proofs.MergeShape
                       Proofs.ReparsePartial Proofs.DtdShape.
From CL Require Proofs.C02Blocks Proofs.PropsShape Proofs.MergeReparse15 Proofs.SerializeReparse16
                Proofs.MergeEntriesShape.
Import ListNotations.
Local Open Scope nat_scope.
Local Notation mem := C02Roundtrip.mem.
Local Arguments comment_text : simpl never.
Local Arguments decl_text : simpl never.

Section D.
Variable m : nat.

Definition dwsok (e : centry) : Prop :=
  is_white e = true -> m <= length (c_text e) -> 2 <= count_char 10%N (c_text e).

Definition ent_lic_free (b : block) : Prop :=
  match b with BEntity pre _ _ _ _ _ _ => pre_license_free pre | _ => True end.

Lemma dflush_In w e : In e (dflush w) -> e = dws_centry w /\ w <> [].
Proof. destruct w; cbn; [contradiction|]. intros [H|[]]. split; [symmetry; exact H|discriminate]. Qed.

Lemma is_ws_app a b : is_ws a = true -> is_ws b = true -> is_ws (a ++ b) = true.
Proof. unfold is_ws. intros. rewrite forallb_app. apply andb_true_iff. auto. Qed.

Lemma dcents_In bs : Forall legal_block bs -> no_pe bs -> forall w e, is_ws w = true -> In e (dcents w bs) ->
  (exists w0, e = dws_centry w0 /\ w0 <> [] /\ is_ws w0 = true) \/
  (exists body, In (BComment body) bs /\ e = dcom_centry body) \/
  (exists pre ws1 name ws2 q v ws3, In (BEntity pre ws1 name ws2 q v ws3) bs /\
                                    e = dent_centry pre ws1 name ws2 q v ws3).
Proof.
  induction 1 as [|b rest Hb _ IH]; intros Hpe w e Hw Hin; cbn [dcents] in Hin.
  - apply dflush_In in Hin. destruct Hin as [-> Hn]. left. exists w. auto.
  - inversion Hpe as [|? ? Hpb Hpr]; subst. specialize (IH Hpr).
    assert (Lift : forall w', is_ws w' = true -> In e (dcents w' rest) ->
              (exists w0, e = dws_centry w0 /\ w0 <> [] /\ is_ws w0 = true) \/
              (exists body, In (BComment body) (b :: rest) /\ e = dcom_centry body) \/
              (exists pre ws1 name ws2 q v ws3, In (BEntity pre ws1 name ws2 q v ws3) (b :: rest) /\
                                                e = dent_centry pre ws1 name ws2 q v ws3)).
    { intros w' Hw' Hin'. destruct (IH w' e Hw' Hin') as [H|[(body & H1 & H2)|(pre & a1 & n & a2 & q & v & a3 & H1 & H2)]].
      - left; exact H.
      - right; left. exists body. split; [right; exact H1|exact H2].
      - right; right. exists pre, a1, n, a2, q, v, a3. split; [right; exact H1|exact H2]. }
    destruct b as [x|body|pre ws1 name ws2 q v ws3|d]; [| | |contradiction].
    + apply (Lift (w ++ x)); [|exact Hin]. apply is_ws_app; [exact Hw|].
      unfold legal_block in Hb. cbn in Hb. apply andb_true_iff in Hb. apply Hb.
    + apply in_app_or in Hin. destruct Hin as [Hin|[Hin|Hin]].
      * apply dflush_In in Hin. destruct Hin as [-> Hn]. left. exists w. auto.
      * right; left. exists body. split; [left; reflexivity|symmetry; exact Hin].
      * apply (Lift []); [reflexivity|exact Hin].
    + apply in_app_or in Hin. destruct Hin as [Hin|[Hin|Hin]].
      * apply dflush_In in Hin. destruct Hin as [-> Hn]. left. exists w. auto.
      * right; right. exists pre, ws1, name, ws2, q, v, ws3. split; [left; reflexivity|symmetry; exact Hin].
      * apply (Lift []); [reflexivity|exact Hin].
Qed.

Definition dversion_ok (bs : list block) : Prop :=
  Forall legal_block bs /\ no_pe bs /\ Forall ent_lic_free bs /\
  ukeys (dcentries_of bs) /\ nf m (dcentries_of bs) /\ Forall dwsok (dcentries_of bs).

Lemma dcentries_dec bs : dversion_ok bs -> Forall (ddec m) (dcentries_of bs).
Proof.
  intros (Hleg & Hpe & Hlic & _ & _ & Hws). apply Forall_forall. intros e He.
  rewrite Forall_forall in Hws, Hlic, Hleg. pose proof (Hws e He) as Hwe.
  destruct (dcents_In bs ltac:(apply Forall_forall; exact Hleg) Hpe [] e eq_refl He)
    as [(w0 & -> & N0 & W0)|[(body & H1 & ->)|(pre & a1 & n & a2 & q & v & a3 & H1 & ->)]].
  - apply (ddec_ws m _ w0); [reflexivity|exact N0|exact W0|]. intros Hl. apply (Hwe eq_refl Hl).
  - pose proof (Hleg _ H1) as L. apply (ddec_com m _ body); [exact L|reflexivity].
  - apply (ddec_ent m _ pre a1 n a2 q v a3); [exact (Hleg _ H1)|exact (Hlic _ H1)|reflexivity].
Qed.

Lemma dcentries_plain bs : Forall legal_block bs -> no_pe bs -> Forall MergeEntriesShape.plain (dcentries_of bs).
Proof.
  intros Hl Hp. apply Forall_forall. intros e He. unfold MergeEntriesShape.plain.
  destruct (dcents_In bs Hl Hp [] e eq_refl He) as [(w0 & -> & _)|[(body & _ & ->)|(pre & a1 & n & a2 & q & v & a3 & _ & ->)]]; auto 8.
Qed.

Lemma noadj_dflush w x l : is_white x = false -> noadj (x :: l) -> noadj (dflush w ++ x :: l).
Proof. intros Hx Hl. destruct w; cbn [dflush app]; [exact Hl|]. cbn. split; [right; exact Hx|exact Hl]. Qed.

Lemma dcents_noadj bs : forall w, noadj (dcents w bs).
Proof.
  induction bs as [|b rest IH]; intros w; cbn [dcents].
  - destruct w; cbn; exact I.
  - destruct b; [apply IH| | |]; (apply noadj_dflush; [reflexivity|]);
      (apply MergeReparse15.noadj_nonws; [reflexivity|apply IH]).
Qed.

(* ---- C15 ---------------------------------------------------------------------------------------------- *)
Theorem merge_reparse_dtd name (bss : list (list block)) txt :
  Forall dversion_ok bss ->
  merge_channels name (map dcentries_of bss) = Ok txt ->
  exists out es,
    merge_entries (map dcentries_of bss) = Ok out /\ txt = concat (map c_text out) /\
    walk_dtd txt = Ok es /\
    map (fun e => let r := C02Blocks.entity_record txt e in (fst (fst r), snd (fst r)))
        (filter (C02Blocks.is_kind KEntity) es) = PropsShape.krecs out /\
    map (fun e => C02Blocks.span_text txt (e_span e)) (filter (C02Blocks.is_kind KComment) es) =
      PropsShape.ccoms out /\
    filter (C02Blocks.is_kind KJunk) es = [].
Proof.
  intros Hok H. destruct (merge_channels_inv _ _ _ H) as (out & Ho & ->). exists out.
  assert (Hu : Forall ukeys (map dcentries_of bss)).
  { apply Forall_forall. intros v Hv. apply in_map_iff in Hv. destruct Hv as (bs & <- & Hb).
    rewrite Forall_forall in Hok. apply (Hok bs Hb). }
  assert (Hn : Forall (nf m) (map dcentries_of bss)).
  { apply Forall_forall. intros v Hv. apply in_map_iff in Hv. destruct Hv as (bs & <- & Hb).
    rewrite Forall_forall in Hok. apply (Hok bs Hb). }
  assert (Ha : Forall noadj (map dcentries_of bss)).
  { apply Forall_forall. intros v Hv. apply in_map_iff in Hv. destruct Hv as (bs & <- & Hb). apply dcents_noadj. }
  destruct (MergeEntriesShape.merge_entries_shape m _ out Hu Hn Ha Ho) as (S1 & _ & S3).
  assert (Hd : Forall (ddec m) out).
  { apply Forall_forall. intros e He. destruct (S3 e He) as (v & e0 & Hv & He0 & Hs).
    apply in_map_iff in Hv. destruct Hv as (bs & <- & Hb). rewrite Forall_forall in Hok.
    pose proof (dcentries_dec bs (Hok bs Hb)) as D. rewrite Forall_forall in D.
    eapply ddec_strip; [symmetry; exact Hs|apply D; exact He0]. }
  destruct (dshape_reparse m out S1 Hd) as (es & E1 & E2 & E3 & E4).
  exists es. unfold serialize_legacy. repeat split; assumption.
Qed.

(* ---- C16 ---------------------------------------------------------------------------------------------- *)
(* Entity.wrap: the raw value replaces the text between the quotes *)
Definition dtd_wrap (wrap : centry -> str -> result centry) : Prop :=
  forall r raw e pre ws1 name ws2 q v ws3,
    legal_blockb (BEntity pre ws1 name ws2 q v ws3) = true ->
    strip r = strip (dent_centry pre ws1 name ws2 q v ws3) -> wrap r raw = Ok e ->
    strip e = strip (dent_centry pre ws1 name ws2 q raw ws3).

(* a raw value without quote characters fits between either kind of quotes *)
Definition legal_dtd_raw (raw : str) : bool :=
  forallb (fun c => negb (N.eqb c 34) && negb (N.eqb c 39)) raw.

Lemma legal_dtd_raw_qval q raw : is_quote q = true -> legal_dtd_raw raw = true -> legal_qval q raw = true.
Proof.
  intros Hq Hr. unfold legal_qval. rewrite Hq. cbn [andb]. unfold legal_dtd_raw in Hr.
  rewrite forallb_forall in Hr |- *. intros c Hc. specialize (Hr c Hc). apply andb_true_iff in Hr.
  destruct Hr as [R1 R2]. unfold is_quote in Hq. apply orb_true_iff in Hq.
  destruct Hq as [Hq|Hq]; apply N.eqb_eq in Hq; subst q; assumption.
Qed.

Theorem serialize_reparse_dtd rbs obs wrap nd name txt :
  dversion_ok rbs -> dversion_ok obs -> NoDup (map fst nd) -> wrap_ok wrap -> dtd_wrap wrap ->
  (forall k raw, In (k, Some raw) nd -> legal_dtd_raw raw = true) ->
  let R := number 0 (dcentries_of rbs) in
  let L := number (length (dcentries_of rbs)) (dcentries_of obs) in
  serialize wrap name R L nd = Ok txt ->
  exists out es,
    serialize_entries wrap R L nd = Ok out /\ txt = concat (map c_text out) /\
    walk_dtd txt = Ok es /\
    map (fun e => let r := C02Blocks.entity_record txt e in (fst (fst r), snd (fst r)))
        (filter (C02Blocks.is_kind KEntity) es) = PropsShape.krecs out /\
    map fst (PropsShape.krecs out) = filter (has_value L nd) (refkeys R) /\
    map (fun e => C02Blocks.span_text txt (e_span e)) (filter (C02Blocks.is_kind KComment) es) =
      PropsShape.ccoms out /\
    filter (C02Blocks.is_kind KJunk) es = [].
Proof.
  intros Hr Ho Hnd Hwo Hw Hraw R L H.
  destruct (serialize_inv wrap name R L nd txt H) as (out & Hout & ->).
  destruct Hr as (Lr & Pr & Cr & Ur & Nr & Wr). destruct Ho as (Lo & Po & Co & Uo & No & Wo).
  pose proof (dcentries_plain rbs Lr Pr) as PlR. pose proof (dcentries_plain obs Lo Po) as PlL.
  destruct (MergeEntriesShape.serialize_entries_shape m _ _ PlR PlL Ur Uo Nr No wrap nd Hnd Hwo out Hout) as (S1 & _).
  pose proof (dcentries_dec rbs (conj Lr (conj Pr (conj Cr (conj Ur (conj Nr Wr)))))) as DR.
  pose proof (dcentries_dec obs (conj Lo (conj Po (conj Co (conj Uo (conj No Wo)))))) as DL.
  assert (Hd : Forall (ddec m) out).
  { apply Forall_forall. intros e He.
    destruct (serialize_sources wrap R L nd out Hout e He) as [_ [(Hin & _ & _)|[(Hin & _ & _)|(r & raw & Hr1 & Hr2 & Hr3 & Hr4)]]].
    - destruct (SerializeReparse16.number_In_strip _ _ _ Hin) as (e0 & H0 & Hs).
      rewrite Forall_forall in DR. eapply ddec_strip; [symmetry; exact Hs|apply DR; exact H0].
    - destruct (SerializeReparse16.number_In_strip _ _ _ Hin) as (e0 & H0 & Hs).
      rewrite Forall_forall in DL. eapply ddec_strip; [symmetry; exact Hs|apply DL; exact H0].
    - destruct (SerializeReparse16.number_In_strip _ _ _ Hr1) as (r0 & Hr0 & Hs).
      destruct (dcents_In rbs Lr Pr [] r0 eq_refl Hr0) as [(w0 & E & _)|[(body & _ & E)|(pre & a1 & n & a2 & q & v & a3 & Hb & E)]].
      + exfalso. unfold is_entity in Hr2. rewrite (SerializeReparse16.strip_kind_eq _ _ Hs), E in Hr2. discriminate.
      + exfalso. unfold is_entity in Hr2. rewrite (SerializeReparse16.strip_kind_eq _ _ Hs), E in Hr2. discriminate.
      + subst r0. rewrite Forall_forall in Lr, Cr. pose proof (Lr _ Hb) as Lb. pose proof (Cr _ Hb) as Cb.
        pose proof (Hw r raw e pre a1 n a2 q v a3 Lb Hs Hr4) as He'.
        apply (ddec_ent m e pre a1 n a2 q raw a3); [|exact Cb|exact He'].
        unfold legal_block in Lb. cbn [legal_blockb] in Lb |- *. apply andb_true_iff in Lb. destruct Lb as [Lp Ld].
        rewrite Lp. cbn [andb]. unfold legal_decl in Ld |- *.
        apply andb_true_iff in Ld. destruct Ld as [Ld D7]. apply andb_true_iff in Ld. destruct Ld as [Ld D6].
        apply andb_true_iff in Ld. destruct Ld as [Ld D5]. apply andb_true_iff in Ld. destruct Ld as [Ld D4].
        apply andb_true_iff in Ld. destruct Ld as [Ld D3]. apply andb_true_iff in Ld. destruct Ld as [D1 D2].
        assert (Dq : legal_qval q raw = true).
        { apply legal_dtd_raw_qval; [|exact (Hraw _ _ Hr3)]. unfold legal_qval in D6. apply andb_true_iff in D6. apply D6. }
        rewrite D1, D2, D3, D4, D5, Dq, D7. reflexivity. }
  destruct (dshape_reparse m out S1 Hd) as (es & E1 & E2 & E3 & E4).
  exists out, es. unfold serialize_legacy. repeat split; try assumption.
  rewrite SerializeReparse16.krecs_cent, map_map. cbn [fst].
  apply (entities_keys_thm wrap R L nd).
  - apply (MergeEntriesShape.guR _ PlR Ur).
  - apply (MergeEntriesShape.guL _ _ PlL Uo).
  - exact Hnd.
  - exact Hwo.
  - exact Hout.
Qed.
End D.

(* ---- a concrete Entity.wrap for DTD entries ------------------------------------------------------ *)
(* the text from the last quote character on: the closing quote, whitespace, '>' *)
Fixpoint lastq_suffix (t : str) : option str :=
  match t with
  | [] => None
  | c :: t' =>
      match lastq_suffix t' with
      | Some s => Some s
      | None => if is_quote c then Some (c :: t') else None
      end
  end.

Definition wrap_dtd (r : centry) (raw : str) : result centry :=
  match lastq_suffix (c_text r) with
  | Some suf =>
      let pre := firstn (length (c_text r) - length suf - length (c_val r)) (c_text r) in
      Ok (literal (c_key r) raw (pre ++ raw ++ suf))
  | None => Raise ValueError
  end.

Lemma lastq_none w : forallb (fun c => negb (is_quote c)) w = true -> lastq_suffix w = None.
Proof.
  induction w as [|c w IH]; cbn; [reflexivity|]. intros H. apply andb_true_iff in H. destruct H as [H1 H2].
  rewrite (IH H2). apply negb_true_iff in H1. rewrite H1. reflexivity.
Qed.

Lemma lastq_app a q w : is_quote q = true -> forallb (fun c => negb (is_quote c)) w = true ->
  lastq_suffix (a ++ q :: w) = Some (q :: w).
Proof.
  intros Hq Hw. induction a as [|c a IH]; cbn [app lastq_suffix].
  - rewrite (lastq_none w Hw), Hq. reflexivity.
  - rewrite IH. reflexivity.
Qed.

Lemma ws_noquote w : is_ws w = true -> forallb (fun c => negb (is_quote c)) (w ++ [62%N]) = true.
Proof.
  intros H. rewrite forallb_app. apply andb_true_iff. split; [|reflexivity].
  unfold is_ws in H. rewrite forallb_forall in H |- *. intros c Hc. specialize (H c Hc).
  unfold mem, WS in H. cbn in H. unfold is_quote.
  repeat (apply orb_true_iff in H; destruct H as [H|H]); try discriminate;
    apply N.eqb_eq in H; subst c; reflexivity.
Qed.

Theorem wrap_dtd_contract : wrap_ok wrap_dtd /\ dtd_wrap wrap_dtd.
Proof.
  split.
  - intros r raw e. unfold wrap_dtd. destruct (lastq_suffix (c_text r)); [|discriminate].
    intros H. inversion H. split; reflexivity.
  - intros r raw e pre ws1 name ws2 q v ws3 Hl Hs. destruct (PropsShape.strip_fields _ _ Hs) as (_ & K2 & K3 & K4).
    cbn in K2, K3, K4. unfold wrap_dtd. rewrite K3, K4.
    unfold legal_blockb in Hl. apply andb_true_iff in Hl. destruct Hl as [_ Hd]. unfold legal_decl in Hd.
    apply andb_true_iff in Hd. destruct Hd as [Hd D7]. apply andb_true_iff in Hd. destruct Hd as [_ D6].
    unfold legal_qval in D6. apply andb_true_iff in D6. destruct D6 as [Dq _].
    set (P0 := pre_text pre ++ ENT ++ ws1 ++ name ++ ws2 ++ [q]).
    assert (Ht : forall val, dent_text pre ws1 name ws2 q val ws3 = (P0 ++ val) ++ q :: ws3 ++ [62%N]).
    { intros val. unfold dent_text, decl_text, P0. repeat (progress (rewrite <- ?app_assoc; cbn [app])). reflexivity. }
    rewrite (Ht v). rewrite (lastq_app (P0 ++ v) q (ws3 ++ [62%N]) Dq (ws_noquote ws3 D7)).
    intros H. inversion H; subst e; clear H. unfold strip, literal, dent_centry. cbn [c_kind c_key c_text c_val].
    rewrite K2. f_equal. f_equal. rewrite (Ht raw).
    match goal with |- firstn ?n _ ++ _ = _ =>
      replace n with (length P0 + 0) by (rewrite ?app_length; cbn [length]; rewrite ?app_length; cbn [length]; lia) end.
    rewrite <- (app_assoc P0 v). rewrite firstn_app_2. cbn [firstn]. rewrite app_nil_r.
    repeat (progress (rewrite <- ?app_assoc; cbn [app])). reflexivity.
Qed.
