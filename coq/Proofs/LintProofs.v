From Coq Require Import ZArith NArith List Bool Lia ZifyBool Arith.
From CL Require Import Base.Sx Base.Res Regex.Rx Model.AddRemove Model.LineCol Model.Lint
                       Proofs.AddRemoveProofs Proofs.LineColProofs.
Import ListNotations.
Open Scope Z_scope.
Local Arguments Nat.ltb : simpl never.
Local Arguments Nat.leb : simpl never.

(* ---- the position methods of the parser classes never run out of fuel ---- *)
Lemma linecol_some s p : exists lc, linecol s p = Some lc.
Proof.
  unfold linecol, line_ends.
  rewrite (bisect_correct _ _ (line_ends_from_sorted 0 s)). eauto.
Qed.

Lemma ctx_linecol_ok s p : exists lc, ctx_linecol s p = Ok lc.
Proof.
  unfold ctx_linecol. destruct (p <? 0); [eauto|].
  destruct (linecol_some s (Z.to_nat p)) as [[l c] H]. rewrite H. eauto.
Qed.

Lemma entry_position_ok s sp off : exists lc, entry_position s sp off = Ok lc.
Proof. unfold entry_position. destruct (off <? 0); apply ctx_linecol_ok. Qed.

Lemma entry_value_position_ok s vs off :
  exists lc, entry_value_position s (Some vs) (VOff off) = Ok lc.
Proof. unfold entry_value_position. destruct (off <? 0); apply ctx_linecol_ok. Qed.

Lemma dtd_value_position_ok s vs v : exists lc, dtd_value_position s (Some vs) v = Ok lc.
Proof.
  destruct v as [off|l c]; cbn [dtd_value_position].
  - apply entry_value_position_ok.
  - destruct (entry_value_position_ok s vs 0) as [[a b] H]. rewrite H. cbn.
    destruct (l =? 1); eauto.
Qed.

Lemma fluent_value_position_ok s sp off :
  exists lc, fluent_value_position s sp (VOff off) = Ok lc.
Proof. apply entry_position_ok. Qed.

(* for a position inside the text, ctx_linecol is the C17 specification *)
Lemma ctx_linecol_spec s p : 0 <= p <= Z.of_nat (length s) ->
  ctx_linecol s p = Ok (Z.of_nat (1 + count_nl (firstn (Z.to_nat p) s)),
                        Z.of_nat (1 + cur 0 (firstn (Z.to_nat p) s))).
Proof.
  intros H. unfold ctx_linecol.
  assert (p <? 0 = false) as -> by lia.
  rewrite linecol_spec by lia. reflexivity.
Qed.

(* ---- generic ------------------------------------------------------------ *)
Lemma mapM_Forall2 {A B} (f : A -> result B) l ys :
  mapM f l = Ok ys <-> Forall2 (fun x y => f x = Ok y) l ys.
Proof.
  revert ys; induction l as [|x l IH]; intros ys; cbn.
  - split; intros H; [inversion H; constructor|inversion H; reflexivity].
  - destruct (f x) as [y|t] eqn:Ef; cbn.
    + destruct (mapM f l) as [ys'|t] eqn:Em; cbn.
      * split; intros H.
        -- inversion H; subst. constructor; [exact Ef|]. apply IH. reflexivity.
        -- inversion H as [|? y0 ? ys0 Hy Hr]; subst. rewrite Ef in Hy. inversion Hy; subst.
           apply IH in Hr. inversion Hr; subst. reflexivity.
      * split; intros H; [discriminate|].
        inversion H as [|? y0 ? ys0 Hy Hr]; subst. apply IH in Hr. discriminate.
    + split; intros H; [discriminate|].
      inversion H as [|? y0 ? ys0 Hy Hr]; subst. rewrite Ef in Hy. discriminate.
Qed.

Lemma mapM_nil_all {A B} (f : A -> result (list B)) l :
  (forall x, In x l -> f x = Ok []) -> exists fss, mapM f l = Ok fss /\ concat fss = [].
Proof.
  induction l as [|x l IH]; intros H; cbn; [exists []; auto|].
  rewrite (H x (or_introl eq_refl)). cbn.
  destruct IH as (fss & -> & Hc); [intros y Hy; apply H; right; exact Hy|].
  cbn. exists ([] :: fss). split; [reflexivity|exact Hc].
Qed.

Lemma Forall2_imp {A B} (P Q : A -> B -> Prop) l l' :
  (forall a b, P a b -> Q a b) -> Forall2 P l l' -> Forall2 Q l l'.
Proof. intros H; induction 1; constructor; auto. Qed.

Lemma filter_concat {A} (p : A -> bool) (ls : list (list A)) :
  filter p (concat ls) = concat (map (filter p) ls).
Proof.
  induction ls as [|l ls IH]; cbn; [reflexivity|].
  rewrite filter_app, IH. reflexivity.
Qed.

Section LintProofs.
Context {K : Type} (keqb : K -> K -> bool).
Hypothesis keqb_eq : forall a b, keqb a b = true <-> a = b.
Context {Msg : Type}.
Variable equals : @entity K -> @entity K -> result bool.

Notation entity := (@entity K).
Notation finding := (@finding K Msg).
Notation linter := (@linter K Msg).
Notation lint_entity := (@lint_entity K keqb Msg equals).
Notation lint_entities := (@lint_entities K keqb Msg equals).
Notation new_linter := (@new_linter K keqb Msg).

Local Lemma krefl a : keqb a a = true.
Proof. apply keqb_eq; reflexivity. Qed.

(* number of entities of the file with the key *)
Definition kcount (k : K) (l : list entity) : nat :=
  length (filter (fun e => keqb k (e_key e)) l).

Lemma cget_cinc k k' m :
  cget keqb k (cinc keqb k' m) = if keqb k k' then S (cget keqb k m) else cget keqb k m.
Proof.
  induction m as [|[k'' n] m IH]; cbn; [reflexivity|].
  destruct (keqb k' k'') eqn:E1; cbn.
  - apply keqb_eq in E1; subst k''. destruct (keqb k k'); reflexivity.
  - rewrite IH. destruct (keqb k k'') eqn:E2; [|reflexivity].
    destruct (keqb k k') eqn:E3; [|reflexivity].
    apply keqb_eq in E2, E3. subst. rewrite krefl in E1. discriminate.
Qed.

Lemma cget_counter_from k l m :
  cget keqb k (counter_from keqb l m) = (cget keqb k l + kcount k m)%nat.
Proof.
  revert l; induction m as [|e m IH]; intros l; cbn; [lia|].
  rewrite IH, cget_cinc. unfold kcount. cbn.
  destruct (keqb k (e_key e)); cbn; lia.
Qed.

(* the Counter of the linter counts the entities with the key in the whole file *)
Lemma key_count_spec cur chk ref k :
  cget keqb k (key_count (new_linter cur chk ref)) = kcount k cur.
Proof. cbn. unfold counter. rewrite cget_counter_from. reflexivity. Qed.

Lemma kcount_in e l : In e l -> (1 <= kcount (e_key e) l)%nat.
Proof.
  induction l as [|x l IH]; intros H; [contradiction|].
  unfold kcount in *. cbn. destruct H as [->|H].
  - rewrite krefl. cbn. lia.
  - specialize (IH H). destruct (keqb (e_key e) (e_key x)); cbn; lia.
Qed.

Lemma kcount_nodup e l : NoDup (map e_key l) -> In e l -> kcount (e_key e) l = 1%nat.
Proof.
  induction l as [|x l IH]; intros Hn H; [contradiction|].
  cbn in Hn. inversion Hn as [|? ? Hx Hl]; subst.
  unfold kcount in *. cbn. destruct H as [->|H].
  - rewrite krefl. cbn. f_equal.
    assert (Hf : filter (fun e0 => keqb (e_key e) (e_key e0)) l = []).
    { clear -Hx keqb_eq. induction l as [|y l IHl]; cbn; [reflexivity|].
      destruct (keqb (e_key e) (e_key y)) eqn:E.
      - apply keqb_eq in E. exfalso. apply Hx. left. symmetry. exact E.
      - apply IHl. intros Hin. apply Hx. right. exact Hin. }
    rewrite Hf. reflexivity.
  - destruct (keqb (e_key e) (e_key x)) eqn:E.
    + apply keqb_eq in E. exfalso. apply Hx. rewrite <- E. apply in_map. exact H.
    + apply IH; assumption.
Qed.

(* ---- the reference lookup ---------------------------------------------- *)
(* the reference entity the linter compares with: the last with the key *)
Definition ref_entity (ref : option (list entity)) (k : K) : option entity :=
  match ref with Some rl => last_with keqb e_key k rl | None => None end.

Lemma contains_last k rl :
  kt_contains keqb e_key k rl = match last_with keqb e_key k rl with Some _ => true | None => false end.
Proof.
  unfold kt_contains, kt_index.
  pose proof (kt_index_from_last keqb e_key 0 k rl) as H.
  destruct (kt_index_from keqb e_key 0 k rl).
  - destruct H as (_ & _ & Hne). destruct (last_with keqb e_key k rl); [reflexivity|contradiction].
  - rewrite H. reflexivity.
Qed.

(* ---- classification of findings ---------------------------------------- *)
Definition is_dup (f : finding) : bool :=
  match f_message f with MDuplicate _ => true | _ => false end.
Definition is_changed (f : finding) : bool :=
  match f_message f with MChanged _ => true | _ => false end.
Definition is_junk (f : finding) : bool :=
  match f_message f with MJunk _ _ _ => true | _ => false end.
Definition is_check (f : finding) : bool :=
  match f_message f with MCheck _ => true | _ => false end.

Definition dup_finding (e : entity) (p : pos) : finding := mkf p LError (MDuplicate (e_key e)).
Definition changed_finding (e : entity) (p : pos) : finding := mkf p LWarning (MChanged (e_key e)).
Definition junk_finding (e : entity) (p q : pos) : finding := mkf p LError (MJunk (e_id e) p q).

(* a checker result with its position resolved by the entity's methods *)
Definition resolved (e : entity) (r : @cres Msg) (f : finding) : Prop :=
  exists p, match c_pos r with
            | EntityPos off => e_position e off
            | ValuePos v => e_value_position e v
            end = Ok p /\ f = mkf p (c_level r) (MCheck (c_msg r)).

Lemma resolve_resolved e r f : resolve e r = Ok f <-> resolved e r f.
Proof.
  unfold resolve, resolved. destruct (c_pos r) as [off|v].
  - destruct (e_position e off) as [p|t]; cbn.
    + split; [intros H; inversion H; eauto|intros (p' & H1 & ->); inversion H1; reflexivity].
    + split; [discriminate|intros (p' & H1 & _); discriminate].
  - destruct (e_value_position e v) as [p|t]; cbn.
    + split; [intros H; inversion H; eauto|intros (p' & H1 & ->); inversion H1; reflexivity].
    + split; [discriminate|intros (p' & H1 & _); discriminate].
Qed.

Definition check_results (chk : option (@checker K Msg)) (e : entity) : list (@cres Msg) :=
  match chk with Some c => c e e | None => [] end.

Lemma resolved_all_check e rs cks :
  Forall2 (resolved e) rs cks ->
  filter is_check cks = cks /\ filter is_dup cks = [] /\ filter is_changed cks = [] /\
  filter is_junk cks = [].
Proof.
  induction 1 as [|r f rs cks (p & _ & ->) _ IH]; [auto|].
  destruct IH as (I1 & I2 & I3 & I4). cbn. rewrite I1, I2, I3, I4. auto.
Qed.

(* ---- the structure of one entity's results ------------------------------ *)
Section OneLinter.
Variables (cur : list entity) (chk : option (@checker K Msg)) (ref : option (list entity)).
Let li := new_linter cur chk ref.

Definition dup_part (e : entity) (dups : list finding) : Prop :=
  if (1 <? kcount (e_key e) cur)%nat
  then exists p, e_position e 0 = Ok p /\ dups = [dup_finding e p]
  else dups = [].

Definition changed_part (e : entity) (chg : list finding) : Prop :=
  match ref_entity ref (e_key e) with
  | Some r => match equals e r with
              | Ok true => chg = []
              | Ok false => exists p, e_position e 0 = Ok p /\ chg = [changed_finding e p]
              | Raise _ => False
              end
  | None => chg = []
  end.

Lemma lint_full_entity_spec e fs :
  lint_full_entity keqb equals li e = Ok fs ->
  exists dups chg, fs = dups ++ chg /\ dup_part e dups /\ changed_part e chg.
Proof.
  unfold lint_full_entity, dup_part, changed_part. subst li.
  rewrite key_count_spec. cbn [reference new_linter].
  destruct (1 <? kcount (e_key e) cur)%nat.
  - destruct (e_position e 0) as [p|t] eqn:Ep; cbn; [|discriminate].
    destruct ref as [rl|]; cbn [ref_entity].
    + rewrite contains_last, kt_getitem_last by exact keqb_eq.
      destruct (last_with keqb e_key (e_key e) rl) as [r|]; cbn.
      * destruct (equals e r) as [[|]|t]; cbn; [| |discriminate]; intros H; inversion H; subst.
        -- exists [dup_finding e p], []. rewrite app_nil_r. eauto 10.
        -- exists [dup_finding e p], [changed_finding e p]. eauto 10.
      * intros H; inversion H; subst. exists [dup_finding e p], []. eauto 10.
    + intros H; inversion H; subst. exists [dup_finding e p], []. eauto 10.
  - cbn. destruct ref as [rl|]; cbn [ref_entity].
    + rewrite contains_last, kt_getitem_last by exact keqb_eq.
      destruct (last_with keqb e_key (e_key e) rl) as [r|]; cbn.
      * destruct (equals e r) as [[|]|t]; cbn; [| |discriminate].
        -- intros H; inversion H; subst. exists [], []. auto.
        -- destruct (e_position e 0) as [p|t]; cbn; [|discriminate].
           intros H; inversion H; subst. exists [], [changed_finding e p]. eauto 10.
      * intros H; inversion H; subst. exists [], []. auto.
    + intros H; inversion H; subst. exists [], []. auto.
Qed.

Lemma lint_value_spec e cks :
  lint_value li e = Ok cks <-> Forall2 (resolved e) (check_results chk e) cks.
Proof.
  unfold lint_value, check_results. subst li. cbn [the_checker new_linter].
  destruct chk as [c|].
  - rewrite mapM_Forall2. split; intros H; (eapply Forall2_imp; [|exact H]);
      intros r f Hr; apply resolve_resolved; exact Hr.
  - split; intros H; [inversion H; constructor|inversion H; reflexivity].
Qed.

(* junk: exactly one error, nothing else *)
Lemma lint_entity_junk e fs :
  e_junk e = true -> lint_entity li e = Ok fs ->
  exists p q, e_position e 0 = Ok p /\ e_position e (-1) = Ok q /\ fs = [junk_finding e p q].
Proof.
  intros Hj. unfold Lint.lint_entity, handle_junk. rewrite Hj.
  destruct (e_position e 0) as [p|t]; cbn; [|discriminate].
  destruct (e_position e (-1)) as [q|t]; cbn; [|discriminate].
  intros H; inversion H; subst. eauto.
Qed.

(* a full entity: duplicate error, changed warning, resolved checker results, in this order *)
Lemma lint_entity_full e fs :
  e_junk e = false -> lint_entity li e = Ok fs ->
  exists dups chg cks, fs = dups ++ chg ++ cks /\ dup_part e dups /\ changed_part e chg /\
                       Forall2 (resolved e) (check_results chk e) cks.
Proof.
  intros Hj. unfold Lint.lint_entity, handle_junk. rewrite Hj. cbn.
  destruct (lint_full_entity keqb equals li e) as [a|t] eqn:Ea; cbn; [|discriminate].
  destruct (lint_value li e) as [b|t] eqn:Eb; cbn; [|discriminate].
  intros H; inversion H; subst.
  apply lint_full_entity_spec in Ea. destruct Ea as (dups & chg & -> & Hd & Hc).
  apply lint_value_spec in Eb.
  exists dups, chg, b. rewrite app_assoc. auto.
Qed.

Lemma dup_part_filters e dups : dup_part e dups ->
  filter is_dup dups = dups /\ filter is_changed dups = [] /\ filter is_check dups = [] /\
  filter is_junk dups = [].
Proof.
  unfold dup_part. destruct (1 <? kcount (e_key e) cur)%nat.
  - intros (p & _ & ->). cbn. auto.
  - intros ->. auto.
Qed.

Lemma changed_part_filters e chg : changed_part e chg ->
  filter is_changed chg = chg /\ filter is_dup chg = [] /\ filter is_check chg = [] /\
  filter is_junk chg = [].
Proof.
  unfold changed_part. destruct (ref_entity ref (e_key e)) as [r|].
  - destruct (equals e r) as [[|]|t].
    + intros ->. auto.
    + intros (p & _ & ->). cbn. auto.
    + intros [].
  - intros ->. auto.
Qed.

Lemma lint_entity_filters e fs :
  e_junk e = false -> lint_entity li e = Ok fs ->
  dup_part e (filter is_dup fs) /\ changed_part e (filter is_changed fs) /\
  Forall2 (resolved e) (check_results chk e) (filter is_check fs) /\
  filter is_junk fs = [] /\
  fs = filter is_dup fs ++ filter is_changed fs ++ filter is_check fs.
Proof.
  intros Hj H. destruct (lint_entity_full e fs Hj H) as (dups & chg & cks & -> & Hd & Hc & Hk).
  destruct (dup_part_filters _ _ Hd) as (D1 & D2 & D3 & D4).
  destruct (changed_part_filters _ _ Hc) as (C1 & C2 & C3 & C4).
  destruct (resolved_all_check _ _ _ Hk) as (K1 & K2 & K3 & K4).
  rewrite !filter_app, D1, D2, D3, D4, C1, C2, C3, C4, K1, K2, K3, K4. cbn.
  rewrite !app_nil_r. auto.
Qed.

(* the reference lookup never raises: with positions that resolve the entity lints *)
Lemma lint_entity_total e :
  (forall off, exists p, e_position e off = Ok p) ->
  (forall r, ref_entity ref (e_key e) = Some r -> exists b, equals e r = Ok b) ->
  (forall r, In r (check_results chk e) ->
             forall v, c_pos r = ValuePos v -> exists p, e_value_position e v = Ok p) ->
  exists fs, lint_entity li e = Ok fs.
Proof.
  intros Hp He Hv. unfold Lint.lint_entity, handle_junk.
  destruct (Hp 0) as [p0 E0]. destruct (Hp (-1)) as [p1 E1].
  destruct (e_junk e); [rewrite E0, E1; cbn; eauto|]. cbn.
  assert (exists a, lint_full_entity keqb equals li e = Ok a) as [a ->].
  { unfold lint_full_entity. rewrite E0. subst li. cbn [reference new_linter].
    destruct (1 <? cget keqb (e_key e) _)%nat; cbn.
    - destruct ref as [rl|]; [|eauto]. cbn [ref_entity] in He.
      rewrite contains_last, kt_getitem_last by exact keqb_eq.
      destruct (last_with keqb e_key (e_key e) rl) as [r|]; cbn; [|eauto].
      destruct (He r eq_refl) as [b ->]. cbn. destruct b; eauto.
    - destruct ref as [rl|]; [|eauto]. cbn [ref_entity] in He.
      rewrite contains_last, kt_getitem_last by exact keqb_eq.
      destruct (last_with keqb e_key (e_key e) rl) as [r|]; cbn; [|eauto].
      destruct (He r eq_refl) as [b ->]. cbn. destruct b; eauto. }
  cbn.
  assert (exists b, lint_value li e = Ok b) as [b ->]; [|cbn; eauto].
  unfold lint_value. subst li. cbn [the_checker new_linter].
  unfold check_results in Hv. destruct chk as [c|]; [|eauto].
  induction (c e e) as [|r rs IH]; cbn; [eauto|].
  assert (exists f, resolve e r = Ok f) as [f ->].
  { unfold resolve. destruct (c_pos r) as [off|v] eqn:Er.
    - destruct (Hp off) as [p ->]. cbn. eauto.
    - destruct (Hv r (or_introl eq_refl) v Er) as [p ->]. cbn. eauto. }
  cbn. destruct IH as [fs ->]; [intros r' Hr'; apply Hv; right; exact Hr'|]. cbn. eauto.
Qed.

(* ---- forward computation of one entity's results ---------------------------- *)
Lemma lint_entity_junk_exact e p q :
  e_junk e = true -> e_position e 0 = Ok p -> e_position e (-1) = Ok q ->
  lint_entity li e = Ok [junk_finding e p q].
Proof.
  intros Hj Hp Hq. unfold Lint.lint_entity, handle_junk. rewrite Hj, Hp, Hq. reflexivity.
Qed.

(* what the reference says about a full entity: nothing (no entity with the key, or an
   equal one) or "changed" *)
Definition ref_verdict (e : entity) : result bool :=
  match ref_entity ref (e_key e) with
  | Some r => match equals e r with Ok b => Ok (negb b) | Raise t => Raise t end
  | None => Ok false
  end.

Lemma lint_entity_exact e p changed :
  e_junk e = false -> e_position e 0 = Ok p -> ref_verdict e = Ok changed ->
  lint_entity li e =
  match mapM (resolve e) (check_results chk e) with
  | Ok cks => Ok ((if (1 <? kcount (e_key e) cur)%nat then [dup_finding e p] else []) ++
                  (if changed then [changed_finding e p] else []) ++ cks)
  | Raise t => Raise t
  end.
Proof.
  intros Hj Hp Hv. unfold Lint.lint_entity, handle_junk. rewrite Hj. cbn.
  assert (Hf : lint_full_entity keqb equals li e =
               Ok ((if (1 <? kcount (e_key e) cur)%nat then [dup_finding e p] else []) ++
                   (if changed then [changed_finding e p] else []))).
  { unfold lint_full_entity. subst li. rewrite key_count_spec, Hp. cbn [reference new_linter].
    unfold ref_verdict in Hv.
    destruct (1 <? kcount (e_key e) cur)%nat; cbn.
    - destruct ref as [rl|]; cbn [ref_entity] in Hv.
      + rewrite contains_last, kt_getitem_last by exact keqb_eq.
        destruct (last_with keqb e_key (e_key e) rl) as [r|]; cbn.
        * destruct (equals e r) as [b|t]; [|discriminate]. inversion Hv; subst. cbn.
          destruct b; reflexivity.
        * inversion Hv; subst. reflexivity.
      + inversion Hv; subst. reflexivity.
    - destruct ref as [rl|]; cbn [ref_entity] in Hv.
      + rewrite contains_last, kt_getitem_last by exact keqb_eq.
        destruct (last_with keqb e_key (e_key e) rl) as [r|]; cbn.
        * destruct (equals e r) as [b|t]; [|discriminate]. inversion Hv; subst. cbn.
          destruct b; reflexivity.
        * inversion Hv; subst. reflexivity.
      + inversion Hv; subst. reflexivity. }
  rewrite Hf. cbn.
  assert (Hl : lint_value li e = mapM (resolve e) (check_results chk e)).
  { unfold lint_value, check_results. subst li. cbn [the_checker new_linter].
    destruct chk; reflexivity. }
  rewrite Hl. destruct (mapM (resolve e) (check_results chk e)); cbn; [|reflexivity].
  rewrite app_assoc. reflexivity.
Qed.

Lemma lint_entities_cons e l :
  lint_entities li (e :: l) =
  match lint_entity li e with
  | Ok f => match lint_entities li l with Ok fs => Ok (f ++ fs) | Raise t => Raise t end
  | Raise t => Raise t
  end.
Proof.
  unfold Lint.lint_entities. cbn [mapM].
  destruct (Lint.lint_entity keqb equals li e) as [f|t]; cbn; [|reflexivity].
  destruct (mapM (Lint.lint_entity keqb equals li) l) as [fss|t]; cbn; reflexivity.
Qed.

(* ---- the whole file ------------------------------------------------------ *)
Lemma lint_entities_split l fs :
  lint_entities li l = Ok fs <->
  exists fss, Forall2 (fun e f => lint_entity li e = Ok f) l fss /\ fs = concat fss.
Proof.
  unfold Lint.lint_entities.
  destruct (mapM (Lint.lint_entity keqb equals li) l) as [fss|t] eqn:E; cbn.
  - apply mapM_Forall2 in E. split.
    + intros H; inversion H; subst. eauto.
    + intros (fss' & H & ->). apply mapM_Forall2 in H, E. rewrite E in H. inversion H. reflexivity.
  - split; [discriminate|]. intros (fss' & H & _). apply mapM_Forall2 in H. rewrite E in H.
    discriminate.
Qed.

(* a per-entity description of one class of findings lifts to the file, in file order *)
Lemma lift_class (sel : entity -> bool) (cls : finding -> bool) (R : entity -> finding -> Prop) l fs :
  (forall e f, In e l -> lint_entity li e = Ok f ->
     if sel e then exists x, filter cls f = [x] /\ R e x else filter cls f = []) ->
  lint_entities li l = Ok fs ->
  Forall2 R (filter sel l) (filter cls fs).
Proof.
  intros Hone H. apply lint_entities_split in H. destruct H as (fss & H & ->).
  rewrite filter_concat.
  induction H as [|e f l fss He _ IH]; cbn; [constructor|].
  specialize (Hone e f (or_introl eq_refl) He) as Hs.
  destruct (sel e).
  - destruct Hs as (x & -> & Hr). cbn. constructor; [exact Hr|].
    apply IH. intros e' f' Hin. apply Hone. right; exact Hin.
  - rewrite Hs. cbn. apply IH. intros e' f' Hin. apply Hone. right; exact Hin.
Qed.

Definition dup_sel (e : entity) : bool := negb (e_junk e) && (1 <? kcount (e_key e) cur)%nat.
Definition changed_sel (e : entity) : bool :=
  negb (e_junk e) &&
  match ref_entity ref (e_key e) with
  | Some r => match equals e r with Ok false => true | _ => false end
  | None => false
  end.

Lemma file_duplicates l fs :
  lint_entities li l = Ok fs ->
  Forall2 (fun e f => exists p, e_position e 0 = Ok p /\ f = dup_finding e p)
          (filter dup_sel l) (filter is_dup fs).
Proof.
  apply lift_class. intros e f _ He. unfold dup_sel.
  destruct (e_junk e) eqn:Hj; cbn.
  - destruct (lint_entity_junk e f Hj He) as (p & q & _ & _ & ->). reflexivity.
  - destruct (lint_entity_filters e f Hj He) as (Hd & _). unfold dup_part in Hd.
    destruct (1 <? kcount (e_key e) cur)%nat; [|exact Hd].
    destruct Hd as (p & Hp & ->). eauto.
Qed.

Lemma file_changed l fs :
  lint_entities li l = Ok fs ->
  Forall2 (fun e f => exists p, e_position e 0 = Ok p /\ f = changed_finding e p)
          (filter changed_sel l) (filter is_changed fs).
Proof.
  apply lift_class. intros e f _ He. unfold changed_sel.
  destruct (e_junk e) eqn:Hj; cbn.
  - destruct (lint_entity_junk e f Hj He) as (p & q & _ & _ & ->). reflexivity.
  - destruct (lint_entity_filters e f Hj He) as (_ & Hc & _). unfold changed_part in Hc.
    destruct (ref_entity ref (e_key e)) as [r|]; [|exact Hc].
    destruct (equals e r) as [[|]|t]; cbn; [exact Hc| |destruct Hc].
    destruct Hc as (p & Hp & ->). eauto.
Qed.

Lemma file_junk l fs :
  lint_entities li l = Ok fs ->
  Forall2 (fun e f => exists p q, e_position e 0 = Ok p /\ e_position e (-1) = Ok q /\
                                  f = junk_finding e p q)
          (filter e_junk l) (filter is_junk fs).
Proof.
  apply lift_class. intros e f _ He.
  destruct (e_junk e) eqn:Hj.
  - destruct (lint_entity_junk e f Hj He) as (p & q & Hp & Hq & ->). cbn. eauto 10.
  - destruct (lint_entity_filters e f Hj He) as (_ & _ & _ & Hk & _). exact Hk.
Qed.

(* clean file *)
Lemma lint_entity_clean e :
  e_junk e = false -> (kcount (e_key e) cur <= 1)%nat -> check_results chk e = [] ->
  (forall r, ref_entity ref (e_key e) = Some r -> equals e r = Ok true) ->
  lint_entity li e = Ok [].
Proof.
  intros Hj Hc Hk Hr. unfold Lint.lint_entity, handle_junk. rewrite Hj. cbn.
  unfold lint_full_entity. subst li. rewrite key_count_spec. cbn [reference new_linter].
  assert ((1 <? kcount (e_key e) cur)%nat = false) as -> by lia. cbn.
  unfold lint_value. cbn [the_checker new_linter].
  assert (Hv : match chk with Some c => mapM (resolve e) (c e e) | None => Ok [] end = Ok []).
  { unfold check_results in Hk. destruct chk as [c|]; [rewrite Hk|]; reflexivity. }
  destruct ref as [rl|]; cbn [ref_entity] in *.
  - rewrite contains_last, kt_getitem_last by exact keqb_eq.
    destruct (last_with keqb e_key (e_key e) rl) as [r|]; cbn.
    + rewrite (Hr r eq_refl). cbn. rewrite Hv. reflexivity.
    + rewrite Hv. reflexivity.
  - cbn. rewrite Hv. reflexivity.
Qed.

Lemma lint_entities_clean :
  NoDup (map e_key cur) ->
  (forall e, In e cur -> e_junk e = false) ->
  (forall e, In e cur -> check_results chk e = []) ->
  (forall e r, In e cur -> ref_entity ref (e_key e) = Some r -> equals e r = Ok true) ->
  lint_entities li cur = Ok [].
Proof.
  intros Hn Hj Hk Hr. unfold Lint.lint_entities.
  destruct (mapM_nil_all (Lint.lint_entity keqb equals li) cur) as (fss & -> & Hc).
  - intros e He. apply lint_entity_clean; auto.
    rewrite (kcount_nodup e cur Hn He). lia.
  - cbn. rewrite Hc. reflexivity.
Qed.

End OneLinter.

(* the reference entity, characterised without the lookup code *)
Lemma ref_entity_spec ref k r :
  ref_entity ref k = Some r <->
  exists rl pre post, ref = Some rl /\ rl = pre ++ r :: post /\ e_key r = k /\
                      Forall (fun e' => e_key e' <> k) post.
Proof.
  unfold ref_entity. destruct ref as [rl|].
  - rewrite (last_with_spec keqb keqb_eq e_key). split.
    + intros (pre & post & H). exists rl, pre, post. tauto.
    + intros (rl' & pre & post & Hrl & H). inversion Hrl; subst. eauto.
  - split; [discriminate|]. intros (rl & pre & post & H & _). discriminate.
Qed.

(* "the key is in the reference and the last reference entity with it differs" *)
Definition differs_from_reference (ref : option (list entity)) (e : entity) : Prop :=
  exists rl pre r post, ref = Some rl /\ rl = pre ++ r :: post /\ e_key r = e_key e /\
                        Forall (fun e' => e_key e' <> e_key e) post /\ equals e r = Ok false.

Lemma lint_entity_changed cur chk ref e fs :
  e_junk e = false -> lint_entity (new_linter cur chk ref) e = Ok fs ->
  (differs_from_reference ref e ->
     exists p, e_position e 0 = Ok p /\ filter is_changed fs = [changed_finding e p]) /\
  (~ differs_from_reference ref e -> filter is_changed fs = []).
Proof.
  intros Hj H. destruct (lint_entity_filters cur chk ref e fs Hj H) as (_ & Hc & _).
  unfold changed_part in Hc. destruct (ref_entity ref (e_key e)) as [r|] eqn:Er.
  - destruct (equals e r) as [[|]|t] eqn:Eq.
    + split; [|intros _; exact Hc].
      intros (rl & pre & r' & post & H1 & H2 & H3 & H4 & H5). exfalso.
      assert (ref_entity ref (e_key e) = Some r') as Hr'
        by (apply ref_entity_spec; exists rl, pre, post; auto).
      rewrite Er in Hr'. inversion Hr'; subst. rewrite Eq in H5. discriminate.
    + split; [intros _; exact Hc|]. intros Hn. exfalso. apply Hn.
      apply ref_entity_spec in Er. destruct Er as (rl & pre & post & H1 & H2 & H3 & H4).
      exists rl, pre, r, post. auto.
    + destruct Hc.
  - split; [|intros _; exact Hc].
    intros (rl & pre & r' & post & H1 & H2 & H3 & H4 & H5). exfalso.
    assert (ref_entity ref (e_key e) = Some r') as Hr'
      by (apply ref_entity_spec; exists rl, pre, post; auto).
    rewrite Er in Hr'. discriminate.
Qed.

(* "every entity equals the last reference entity with its key" *)
Definition equal_to_reference (ref : option (list entity)) (e : entity) : Prop :=
  forall rl pre r post, ref = Some rl -> rl = pre ++ r :: post -> e_key r = e_key e ->
                        Forall (fun e' => e_key e' <> e_key e) post -> equals e r = Ok true.

Lemma lint_entities_clean' cur chk ref :
  NoDup (map e_key cur) ->
  (forall e, In e cur -> e_junk e = false) ->
  (forall e, In e cur -> check_results chk e = []) ->
  (forall e, In e cur -> equal_to_reference ref e) ->
  lint_entities (new_linter cur chk ref) cur = Ok [].
Proof.
  intros Hn Hj Hk Hr. apply lint_entities_clean; auto.
  intros e r He Er. apply ref_entity_spec in Er.
  destruct Er as (rl & pre & post & H1 & H2 & H3 & H4). exact (Hr e He rl pre r post H1 H2 H3 H4).
Qed.

(* ---- lint_file / lint ---------------------------------------------------- *)
Section Files.
Variable table : list rx.
Variable plugins : path -> bool.
Variable parse : path -> path -> list entity.
Variable isfile : path -> bool.
Variable Tests : Type.
Variable get_checker : path -> option Tests -> option (@checker_obj K Msg).

Notation lint_file := (@lint_file K keqb Msg equals table plugins parse isfile Tests get_checker).
Notation lint := (@lint K keqb Msg equals table plugins parse isfile Tests get_checker).
Notation has_parser := (has_parser table plugins).

Lemma lint_file_no_parser p ref extra :
  has_parser p = false -> lint_file p ref extra = Raise NotSupported.
Proof. intros H. unfold Lint.lint_file. rewrite H. reflexivity. Qed.

Lemma lint_skip l1 p l2 g :
  has_parser p = false -> lint (l1 ++ p :: l2) g = lint (l1 ++ l2) g.
Proof.
  intros H. induction l1 as [|x l1 IH]; cbn.
  - rewrite H. reflexivity.
  - rewrite IH. reflexivity.
Qed.

Lemma lint_only_skipped files g :
  (forall p, In p files -> has_parser p = false) -> lint files g = Ok [].
Proof.
  induction files as [|p files IH]; intros H; cbn; [reflexivity|].
  rewrite (H p (or_introl eq_refl)). apply IH. intros q Hq. apply H. right; exact Hq.
Qed.

Lemma lint_app l1 l2 g :
  lint (l1 ++ l2) g =
  match lint l1 g with
  | Ok a => match lint l2 g with Ok b => Ok (a ++ b) | Raise t => Raise t end
  | Raise t => Raise t
  end.
Proof.
  induction l1 as [|p l1 IH]; cbn.
  - destruct (lint l2 g); reflexivity.
  - destruct (has_parser p); [|exact IH].
    destruct (g p) as [r x]. destruct (lint_file p r x) as [a|t]; cbn; [|reflexivity].
    rewrite IH. destruct (lint l1 g) as [b|t]; cbn; [|reflexivity].
    destruct (lint l2 g) as [c|t]; cbn; [|reflexivity]. rewrite app_assoc. reflexivity.
Qed.

(* the linter lint_file builds *)
Definition file_reference (p : path) (ref : option path) : option (list entity) :=
  match ref with Some r => if isfile r then Some (parse p r) else None | None => None end.
Definition file_checker (p : path) (extra : option Tests) : option (@checker K Msg) :=
  match get_checker p extra with
  | Some c => Some (check c (if needs_reference c then Some (parse p p) else None))
  | None => None
  end.

Lemma lint_file_unfold p ref extra :
  has_parser p = true ->
  lint_file p ref extra =
  match lint_entities (new_linter (parse p p) (file_checker p extra) (file_reference p ref))
                      (parse p p) with
  | Ok fs => Ok (map (fun f => (p, f)) fs)
  | Raise t => Raise t
  end.
Proof.
  intros H. unfold Lint.lint_file, file_checker, file_reference. rewrite H.
  destruct (Lint.lint_entities _ _ _ _); reflexivity.
Qed.

Lemma lint_file_clean p ref extra :
  has_parser p = true ->
  NoDup (map e_key (parse p p)) ->
  (forall e, In e (parse p p) -> e_junk e = false) ->
  (forall e, In e (parse p p) -> check_results (file_checker p extra) e = []) ->
  (forall e r, In e (parse p p) ->
               ref_entity (file_reference p ref) (e_key e) = Some r -> equals e r = Ok true) ->
  lint_file p ref extra = Ok [].
Proof.
  intros H Hn Hj Hk Hr. rewrite lint_file_unfold by exact H.
  rewrite lint_entities_clean; auto.
Qed.

Lemma lint_file_clean' p ref extra :
  has_parser p = true ->
  NoDup (map e_key (parse p p)) ->
  (forall e, In e (parse p p) -> e_junk e = false) ->
  (forall e, In e (parse p p) -> check_results (file_checker p extra) e = []) ->
  (forall e, In e (parse p p) -> equal_to_reference (file_reference p ref) e) ->
  lint_file p ref extra = Ok [].
Proof.
  intros H Hn Hj Hk Hr. rewrite lint_file_unfold by exact H.
  rewrite lint_entities_clean'; auto.
Qed.

End Files.
End LintProofs.
