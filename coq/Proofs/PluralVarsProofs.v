(* plural_vars never raises: every match of the #n expression has its group
   and the group is a non-empty run of ASCII digits, so int() succeeds. *)
From Coq Require Import NArith List Bool Arith Lia ZifyBool.
From CL Require Import Base.Sx Base.Res Base.Str Regex.Rx Regex.RxLemmas Generated.RxC06
  Model.CheckProps Model.CheckPropsSpec Proofs.CheckPropsProofs Proofs.SpecsProofs Proofs.PrintfRxProofs.
Import ListNotations.

Local Arguments Nat.ltb : simpl never.
Local Arguments Nat.leb : simpl never.
Local Arguments Nat.eqb : simpl never.
Local Arguments Nat.sub : simpl never.
Local Arguments Nat.add : simpl never.

Lemma rx_plural_var_shape :
  rx_plural_var = Cat (Chr false [(35, 35)]%N) (Grp 1 (Rep true 1 None (Chr false DIG))).
Proof. reflexivity. Qed.

Lemma span_digits : forall l : list N, exists run rest,
  l = run ++ rest /\ forallb is_digit run = true /\ head_not is_digit rest.
Proof.
  induction l as [|c l IH]; [exists [], []; cbn; auto|].
  destruct (is_digit c) eqn:E.
  - destruct IH as (run & rest & -> & H1 & H2). exists (c :: run), rest. cbn. rewrite E, H1. auto.
  - exists [], (c :: l). cbn. auto.
Qed.

(* the group of a match: a non-empty run of digits of the subject *)
Definition good (s : str) (x : mres) : Prop :=
  exists a b, get_cap 1 (m_caps x) = Some (a, b) /\ digits (slice s a b) = true.

Lemma whole_advance z c t : suf z = c :: t -> whole (advance z c t) = whole z.
Proof. intros H. rewrite advance_St. apply (whole_St z [c] t). exact H. Qed.

Lemma wf_advance z c t : wf z -> wf (advance z c t).
Proof. intros H. rewrite advance_St. apply wf_St. exact H. Qed.

Lemma search_good : forall fuel z ne x, wf z -> caps z = [] ->
  search_from rx_plural_var fuel z ne = MSome x -> good (whole z) x.
Proof.
  induction fuel as [|f IH]; intros z ne x Hwf Hcz H; [discriminate|].
  rewrite search_from_S in H.
  set (acc := fun s' : st => match ne with
                             | Some p => negb (Nat.eqb (pos z) p && Nat.eqb (pos s') p)
                             | None => true end) in *.
  assert (forall c t, suf z = c :: t -> run_at rx_plural_var z acc = MNone -> good (whole z) x) as Hrec.
  { intros c t Hs Hn. rewrite Hn, Hs in H.
    rewrite <- (whole_advance z c t Hs). apply (IH _ ne); auto. apply wf_advance; exact Hwf. }
  destruct (suf z) as [|c t] eqn:Hs.
  - rewrite run_at_fail in H; [discriminate|].
    rewrite rx_plural_var_shape, m_Cat. apply m_Chr_fail. rewrite Hs. exact I.
  - destruct (N.eqb c 35) eqn:Ec.
    + apply N.eqb_eq in Ec. subst c.
      destruct (span_digits t) as (run & rest & -> & Hrun & Hrest).
      destruct run as [|d r].
      * apply (Hrec _ _ eq_refl). apply run_at_fail.
        rewrite rx_plural_var_shape, m_Cat.
        rewrite (m_Chr_ok false _ z 35%N rest) by (first [exact Hs|reflexivity]).
        rewrite m_Grp. apply m_Rep1_none. cbn [suf St app].
        eapply head_not_ext; [apply chr_DIG|exact Hrest].
      * set (run := d :: r) in *.
        set (sfin := St z (35%N :: run) rest ((1, (pos z + 1, pos z + 1 + length run)) :: caps z)).
        assert (run_at rx_plural_var z acc = MSome (mkres (pos z) (pos sfin) (caps sfin))) as Hrun_at.
        { apply run_at_done. rewrite rx_plural_var_shape, m_Cat.
          rewrite (m_Chr_ok false _ z 35%N (run ++ rest)) by (first [exact Hs|reflexivity]).
          rewrite m_Grp.
          apply (m_Rep_max false DIG 1 run _ rest); [reflexivity| | | |].
          - apply digits_Forall. exact Hrun.
          - eapply head_not_ext; [apply chr_DIG|exact Hrest].
          - unfold run. cbn [length]. lia.
          - match goal with |- (if acc ?s then _ else _) = _ => replace s with sfin end.
            + assert (acc sfin = true) as ->; [|reflexivity].
              unfold acc. destruct ne as [p|]; [|reflexivity].
              apply negb_true_iff. apply andb_false_iff.
              destruct (Nat.eqb (pos z) p) eqn:Ep; [right|left; reflexivity].
              apply Nat.eqb_eq in Ep. apply Nat.eqb_neq. unfold sfin. cbn [St pos length]. lia.
            + unfold sfin. rewrite St_St. apply st_ext; cbn [St pre suf pos caps set_cap app]; auto;
                try (cbn [length]; lia).
              apply f_equal2; [|reflexivity]. apply f_equal. apply f_equal2; cbn [length]; lia. }
        rewrite Hrun_at in H. inversion H; subst x.
        exists (pos z + 1), (pos z + 1 + length run). split; [apply get_cap_hd|].
        assert (suf z = [35%N] ++ run ++ rest) as Hs2 by exact Hs.
        pose proof (slice_whole z [35%N] run rest Hwf Hs2) as Hsl. cbn [length] in Hsl.
        rewrite Hsl. unfold digits. rewrite Hrun. reflexivity.
    + apply (Hrec _ _ eq_refl). apply run_at_fail.
      rewrite rx_plural_var_shape, m_Cat. apply m_Chr_fail. rewrite Hs. cbn [head_not].
      rewrite chr_single. exact Ec.
Qed.

Lemma fwd_keeps : forall n z, wf z ->
  wf (fwd n z) /\ whole (fwd n z) = whole z /\ caps (fwd n z) = caps z.
Proof.
  induction n as [|n IH]; intros z Hwf; cbn [fwd]; [auto|].
  destruct (suf z) as [|c t] eqn:Hs; [auto|].
  destruct (IH (advance z c t) (wf_advance z c t Hwf)) as (A & B & C).
  split; [exact A|]. split; [rewrite B; apply whole_advance; exact Hs|]. rewrite C. reflexivity.
Qed.

Lemma finditer_good : forall fuel z ne ms, wf z -> caps z = [] ->
  finditer_from rx_plural_var fuel z ne = Some ms -> Forall (good (whole z)) ms.
Proof.
  induction fuel as [|f IH]; intros z ne ms Hwf Hcz H; [discriminate|].
  rewrite finditer_from_S in H.
  destruct (search_from rx_plural_var (S (length (suf z))) z ne) as [|x|] eqn:E; try discriminate.
  - inversion H; subst. constructor.
  - destruct (finditer_from rx_plural_var f _ _) as [rest|] eqn:F; [|discriminate].
    inversion H; subst ms. constructor; [apply (search_good (S (length (suf z))) z ne); assumption|].
    rewrite (z_nocaps z Hcz) in F.
    destruct (fwd_keeps (m_end x - pos z) z Hwf) as (A & B & C).
    rewrite <- B. eapply IH; [exact A|rewrite C; exact Hcz|exact F].
Qed.

Theorem plural_vars_total : forall s, exists l, plural_vars s = Ok l.
Proof.
  intros s. unfold plural_vars, finditer.
  destruct (rfinditer rx_plural_var s) as [ms|] eqn:E; [|exfalso; exact (rfinditer_no_fuel _ _ E)].
  unfold rfinditer in E.
  assert (st_at s 0 = mkst [] s 0 []) as Hst by reflexivity. rewrite Hst in E.
  apply finditer_good in E; [|reflexivity|reflexivity].
  change (whole (mkst [] s 0 [])) with s in E.
  destruct (mapM_ok (fun x => match gtext s 1 x with Some t => py_int t | None => Raise TypeError end) ms)
    as (l & Hl & _); [|exists l; exact Hl].
  intros x Hx. rewrite Forall_forall in E. destruct (E x Hx) as (a & b & Hc & Hd).
  unfold gtext, group. rewrite Hc. unfold digits in Hd. apply andb_true_iff in Hd.
  destruct Hd as [Hne Hall]. unfold py_int.
  destruct (slice s a b) as [|c r] eqn:Es; [discriminate|].
  rewrite (int_digits_val (c :: r) 0%N Hall). eexists. reflexivity.
Qed.
