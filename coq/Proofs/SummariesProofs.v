(* Proofs about Model/Summaries.v (ObserverList.serializeSummaries). *)
From Coq Require Import ZArith NArith List Bool Arith Lia DecimalNat Sorting.Sorted
  Sorting.Permutation.
From CL Require Import Base.Sx Base.Res Base.Str Model.Tree Model.Observer Model.Summaries
  Generated.ObserverFacts.
Import ListNotations.

(* ---- decimal text ------------------------------------------------------- *)
Lemma str_uint_uint_str : forall u, str_uint (uint_str u) = Some u.
Proof.
  induction u as [|u IH|u IH|u IH|u IH|u IH|u IH|u IH|u IH|u IH|u IH];
    cbn [uint_str str_uint]; [reflexivity|..]; rewrite IH; reflexivity.
Qed.

Definition is_digit (c : N) : bool := (48 <=? c)%N && (c <=? 57)%N.

Lemma uint_str_digits : forall u, forallb is_digit (uint_str u) = true.
Proof.
  induction u as [|u IH|u IH|u IH|u IH|u IH|u IH|u IH|u IH|u IH|u IH];
    cbn [uint_str forallb]; [reflexivity|..]; rewrite IH; reflexivity.
Qed.

Lemma uint_str_nil : forall u, uint_str u = [] -> u = Decimal.Nil.
Proof. destruct u; cbn [uint_str]; intros H; [reflexivity|..]; discriminate H. Qed.

Lemma dec_nonempty : forall n, dec n <> [].
Proof.
  intros n H. apply uint_str_nil in H.
  assert (E : Nat.to_uint n = Decimal.unorm (Nat.to_uint n)).
  { rewrite <- (Unsigned.to_of (Nat.to_uint n)), Unsigned.of_to. reflexivity. }
  rewrite H in E. cbv in E. discriminate E.
Qed.

Lemma dec_digits : forall n, forallb is_digit (dec n) = true.
Proof. intros n. apply uint_str_digits. Qed.

Lemma digit_not_sp : forall c, is_digit c = true -> N.eqb c sp = false.
Proof.
  intros c H. unfold is_digit in H. apply andb_true_iff in H. destruct H as [H _].
  apply N.leb_le in H. apply N.eqb_neq. unfold sp. lia.
Qed.

Lemma drop_sp_repeat : forall n s, drop_sp (repeat sp n ++ s) = drop_sp s.
Proof. induction n as [|n IH]; intros s; cbn [repeat app drop_sp]; [reflexivity|]. apply IH. Qed.

Lemma drop_sp_dec : forall n, drop_sp (dec n) = dec n.
Proof.
  intros n. pose proof (dec_digits n) as D. destruct (dec n) as [|c r]; [reflexivity|].
  cbn [forallb] in D. apply andb_true_iff in D. destruct D as [D _].
  cbn [drop_sp]. rewrite (digit_not_sp c D). reflexivity.
Qed.

(* what is printed in a cell reads back as the number (blanks = 0), whatever
   the width *)
Lemma read_cell_cell : forall n, read_cell (cell n) = Some n.
Proof.
  intros n. unfold read_cell, cell, lpad. cbn [drop_sp]. unfold sp at 1. rewrite N.eqb_refl.
  rewrite drop_sp_repeat. unfold cell_text. destruct (Nat.eqb n 0) eqn:E.
  - apply Nat.eqb_eq in E. subst n. reflexivity.
  - rewrite drop_sp_dec. pose proof (dec_nonempty n) as NE.
    destruct (dec n) as [|c r] eqn:D; [congruence|]. rewrite <- D. unfold dec.
    rewrite str_uint_uint_str. cbn [option_map]. rewrite Unsigned.of_to. reflexivity.
Qed.

(* ---- which rows are shown ------------------------------------------------ *)
Lemma has_ink_app : forall a b, has_ink (a ++ b) = has_ink a || has_ink b.
Proof. intros a b. unfold has_ink. apply existsb_app. Qed.

Lemma has_ink_repeat : forall n, has_ink (repeat sp n) = false.
Proof.
  induction n as [|n IH]; [reflexivity|]. unfold has_ink in *. cbn [repeat existsb].
  rewrite N.eqb_refl. exact IH.
Qed.

Lemma has_ink_cell : forall n, has_ink (cell n) = negb (Nat.eqb n 0).
Proof.
  intros n. unfold cell, lpad. change (sp :: ?x) with ([sp] ++ x).
  rewrite !has_ink_app, has_ink_repeat. unfold has_ink at 1. cbn [existsb]. rewrite N.eqb_refl.
  cbn [negb orb]. unfold cell_text. destruct (Nat.eqb n 0); [reflexivity|].
  pose proof (dec_digits n) as D. pose proof (dec_nonempty n) as NE.
  destruct (dec n) as [|c r]; [congruence|]. cbn [forallb] in D. apply andb_true_iff in D.
  destruct D as [D _]. unfold has_ink. cbn [existsb]. rewrite (digit_not_sp c D). reflexivity.
Qed.

Definition nonzero (k : str) (c : counters) : bool := negb (Nat.eqb (cget k c) 0).

Lemma has_ink_row : forall k cols, has_ink (row_cells k cols) = existsb (nonzero k) cols.
Proof.
  intros k. induction cols as [|c cols IH]; [reflexivity|].
  unfold row_cells in *. cbn [flat_map existsb]. rewrite has_ink_app, has_ink_cell, IH. reflexivity.
Qed.

Definition row_of (cols : list counters) (k : str) : str := rpad lead_width k ++ row_cells k cols.

Lemma rows_on : forall cols keys,
  flat_map (fun k => if has_ink (row_cells k cols)
                     then [rpad lead_width k ++ row_cells k cols] else []) keys
  = map (row_of cols) (filter (fun k => existsb (nonzero k) cols) keys).
Proof.
  intros cols. induction keys as [|k keys IH]; [reflexivity|].
  cbn [flat_map filter]. rewrite has_ink_row, IH.
  destruct (existsb (nonzero k) cols); reflexivity.
Qed.

(* the rows of a locale: exactly the display keys for which some column holds
   a non-zero count, in the order of the display keys *)
Lemma rows_spec : forall cols,
  rows cols = map (row_of cols) (filter (fun k => existsb (nonzero k) cols) display_keys).
Proof. intros cols. unfold rows. cbv zeta. apply rows_on. Qed.

(* ---- reading a cell of a row by its position ----------------------------- *)
Definition fits (k : str) (c : counters) : Prop := length (cell_text (cget k c)) <= cell_width.

Lemma length_cell_fit : forall n, length (cell_text n) <= cell_width -> length (cell n) = S cell_width.
Proof.
  intros n H. unfold cell, lpad. cbn [length]. rewrite app_length, repeat_length. lia.
Qed.

Lemma skipn_len_app : forall (a b : str) n, skipn (length a + n) (a ++ b) = skipn n b.
Proof. induction a as [|x a IH]; intros b n; cbn [length app Nat.add skipn]; [reflexivity|apply IH]. Qed.

Lemma firstn_len_app : forall (a b : str), firstn (length a) (a ++ b) = a.
Proof. induction a as [|x a IH]; intros b; cbn [length app firstn]; [reflexivity|]. rewrite IH. reflexivity. Qed.

Lemma nth_cell_cells : forall k cols i c,
  Forall (fits k) cols -> nth_error cols i = Some c ->
  firstn (S cell_width) (skipn (i * S cell_width) (row_cells k cols)) = cell (cget k c).
Proof.
  intros k. induction cols as [|c0 cols IH]; intros i c F E.
  - destruct i; discriminate E.
  - inversion F as [|? ? F0 F']; subst. unfold row_cells. cbn [flat_map]. fold (row_cells k cols).
    destruct i as [|i].
    + cbn [nth_error] in E. inversion E; subst c0. cbn [Nat.mul skipn].
      rewrite <- (length_cell_fit _ F0). apply firstn_len_app.
    + cbn [nth_error] in E. cbn [Nat.mul]. rewrite <- (length_cell_fit _ F0) at 2.
      rewrite skipn_len_app. apply IH; assumption.
Qed.

Lemma length_rpad : forall w s, length s <= w -> length (rpad w s) = w.
Proof. intros w s H. unfold rpad. rewrite app_length, repeat_length. lia. Qed.

Lemma nth_cell_row : forall k cols i c,
  length k <= lead_width -> Forall (fits k) cols -> nth_error cols i = Some c ->
  read_cell (nth_cell (row_of cols k) i) = Some (cget k c).
Proof.
  intros k cols i c Hk F E. unfold nth_cell, row_of.
  rewrite <- (length_rpad lead_width k Hk) at 1. rewrite skipn_len_app.
  rewrite (nth_cell_cells k cols i c F E). apply read_cell_cell.
Qed.

Lemma display_keys_fit : forallb (fun k => Nat.leb (length k) lead_width) display_keys = true.
Proof. vm_compute. reflexivity. Qed.

Lemma display_key_fits : forall k, In k display_keys -> length k <= lead_width.
Proof.
  intros k H. pose proof display_keys_fit as F. rewrite forallb_forall in F.
  apply Nat.leb_le. apply F. exact H.
Qed.

(* ---- the percent line ---------------------------------------------------- *)
Lemma rate_key_in_total : forall c, cget rate_key c <= total_of c.
Proof.
  intros c. unfold total_of, rate_keys, rate_key. cbn [fold_right]. lia.
Qed.

Lemma rate_spec : forall c, total_of c <> 0 ->
  rate_of c * total_of c <= cget rate_key c * 100 < (rate_of c + 1) * total_of c.
Proof.
  intros c H. unfold rate_of. destruct (Nat.eqb (total_of c) 0) eqn:E.
  - apply Nat.eqb_eq in E. contradiction.
  - pose proof (Nat.div_mod (cget rate_key c * 100) (total_of c) H) as D.
    pose proof (Nat.mod_upper_bound (cget rate_key c * 100) (total_of c) H) as U.
    set (q := cget rate_key c * 100 / total_of c) in *.
    set (r := cget rate_key c * 100 mod total_of c) in *. nia.
Qed.

Lemma rate_le_100 : forall c, rate_of c <= 100.
Proof.
  intros c. unfold rate_of. destruct (Nat.eqb (total_of c) 0) eqn:E; [lia|].
  apply Nat.eqb_neq in E. pose proof (rate_key_in_total c) as H.
  apply Nat.div_le_upper_bound; [exact E|]. nia.
Qed.

Lemma rate_zero_total : forall c, total_of c = 0 -> rate_of c = 0.
Proof. intros c H. unfold rate_of. rewrite H. reflexivity. Qed.

(* ---- locales: sorted, each once per entry --------------------------------- *)
Lemma insert_loc_perm : forall l ls, Permutation (l :: ls) (insert_loc l ls).
Proof.
  intros l. induction ls as [|x r IH]; cbn [insert_loc]; [apply Permutation_refl|].
  destruct (N.leb l x); [apply Permutation_refl|].
  eapply Permutation_trans; [apply perm_swap|]. apply perm_skip. exact IH.
Qed.

Lemma sort_locs_perm : forall ls, Permutation ls (sort_locs ls).
Proof.
  induction ls as [|l ls IH]; [apply Permutation_refl|]. unfold sort_locs in *. cbn [fold_right].
  eapply Permutation_trans; [apply perm_skip; exact IH|]. apply insert_loc_perm.
Qed.

Lemma insert_loc_sorted : forall l ls, Sorted N.le ls -> Sorted N.le (insert_loc l ls).
Proof.
  intros l. induction ls as [|x r IH]; intros S; cbn [insert_loc].
  - constructor; constructor.
  - destruct (N.leb l x) eqn:E.
    + apply N.leb_le in E. constructor; [exact S|]. constructor. exact E.
    + apply N.leb_gt in E. inversion S as [|? ? S' HR]; subst.
      constructor; [apply IH; exact S'|].
      destruct r as [|y r']; cbn [insert_loc].
      * constructor. lia.
      * destruct (N.leb l y); constructor; [lia|]. inversion HR; subst. assumption.
Qed.

Lemma sort_locs_sorted : forall ls, Sorted N.le (sort_locs ls).
Proof.
  induction ls as [|l ls IH]; [constructor|]. unfold sort_locs in *. cbn [fold_right].
  apply insert_loc_sorted. exact IH.
Qed.

(* ---- the whole text -------------------------------------------------------- *)
Definition block_lines (st : lstate) (loc : N) : list sumline :=
  (if N.eqb loc 0 then [] else [SLocale loc]) ++ map SText (rows (columns st loc))
  ++ [SText (dec (rate_of (last (columns st loc) [])) ++ rate_suffix)].

Lemma columns_nonempty : forall st loc, l_obs st <> [] -> columns st loc <> [].
Proof.
  intros st loc H. unfold columns. destruct (l_obs st) as [|o os]; [congruence|].
  cbn [map app]. discriminate.
Qed.

Lemma rev_last : forall (A : Type) (l : list A) (x : A) r d, rev l = x :: r -> last l d = x.
Proof.
  intros A l x r d H. assert (E : l = rev r ++ [x]).
  { rewrite <- (rev_involutive l), H. reflexivity. }
  rewrite E. apply last_last.
Qed.

Lemma locale_block_ok : forall st loc, l_obs st <> [] ->
  locale_block st loc = Ok (block_lines st loc).
Proof.
  intros st loc H. unfold locale_block, block_lines.
  pose proof (columns_nonempty st loc H) as NE.
  destruct (rev (columns st loc)) as [|x r] eqn:E.
  - exfalso. apply NE. rewrite <- (rev_involutive (columns st loc)), E. reflexivity.
  - pose proof (rev_last _ (columns st loc) x r [] E) as L. rewrite <- L. reflexivity.
Qed.

Lemma blocks_ok : forall st locs, l_obs st <> [] ->
  blocks st locs = Ok (flat_map (block_lines st) locs).
Proof.
  intros st locs H. induction locs as [|l r IH]; [reflexivity|].
  cbn [blocks flat_map]. rewrite (locale_block_ok st l H). cbn [bind]. rewrite IH. reflexivity.
Qed.

Lemma serialize_ok : forall st, l_obs st <> [] ->
  unsortable (map fst (o_summary (l_own st))) = false ->
  serialize_summaries st =
    Ok (flat_map (block_lines st) (sort_locs (map fst (o_summary (l_own st))))).
Proof. intros st H U. unfold serialize_summaries. cbv zeta. rewrite U. apply blocks_ok. exact H. Qed.

Lemma serialize_unsortable : forall st,
  unsortable (map fst (o_summary (l_own st))) = true -> serialize_summaries st = Raise TypeError.
Proof. intros st U. unfold serialize_summaries. cbv zeta. rewrite U. reflexivity. Qed.

(* no project observer: nothing to print when nothing was counted, IndexError
   otherwise (`summaries[-1]` of an empty list) *)
Lemma sort_locs_nil : forall ls, sort_locs ls = [] -> ls = [].
Proof.
  intros ls H. pose proof (sort_locs_perm ls) as P. rewrite H in P.
  apply Permutation_sym in P. apply Permutation_nil in P. exact P.
Qed.

Lemma serialize_no_observers : forall st, l_obs st = [] ->
  unsortable (map fst (o_summary (l_own st))) = false ->
  serialize_summaries st =
    match o_summary (l_own st) with [] => Ok [] | _ :: _ => Raise IndexError end.
Proof.
  intros st H U. unfold serialize_summaries. cbv zeta. rewrite U.
  destruct (o_summary (l_own st)) as [|lc s] eqn:E; [reflexivity|].
  destruct (sort_locs (map fst (lc :: s))) as [|l r] eqn:S.
  - apply sort_locs_nil in S. discriminate S.
  - cbn [blocks]. unfold locale_block, columns. rewrite H. reflexivity.
Qed.

(* ---- link to the counters of Proofs/ObserverProofs.v ----------------------- *)
From CL Require Proofs.ObserverProofs.

Lemma cget_agrees : forall k c, cget k c = ObserverProofs.cget k c.
Proof.
  intros k. induction c as [|[k' v] c IH]; [reflexivity|].
  unfold cget in *. cbn [find fst snd ObserverProofs.cget].
  destruct (str_eqb k k'); [reflexivity|exact IH].
Qed.

(* the number printed for (locale, key) in an observer's column is the count
   of C10_summary *)
Lemma column_count : forall k loc s,
  cget k (loc_counters loc s) = ObserverProofs.count_of s loc k.
Proof.
  intros k loc s. unfold ObserverProofs.count_of, loc_counters.
  induction s as [|[l c] s IH]; [reflexivity|].
  cbn [find fst snd ObserverProofs.sget]. destruct (N.eqb loc l); [apply cget_agrees|exact IH].
Qed.

Lemma columns_counts : forall st loc k,
  map (cget k) (columns st loc) =
    map (fun cs => ObserverProofs.count_of (o_summary (snd cs)) loc k) (l_obs st)
    ++ (if Nat.ltb 1 (length (l_obs st))
        then [ObserverProofs.count_of (o_summary (l_own st)) loc k] else []).
Proof.
  intros st loc k. unfold columns. rewrite map_app, map_map.
  f_equal.
  - apply map_ext. intros cs. apply column_count.
  - destruct (Nat.ltb 1 (length (l_obs st))); [|reflexivity]. cbn [map]. rewrite column_count.
    reflexivity.
Qed.
