(* C02, PO: junk regions.  The blocks of Proofs/C02BlocksPo.v plus garbage regions: any nonempty
   text without "#" in which "m" is never directly followed by "s" (so neither msgctxt nor msgid
   starts inside it), that does not start with whitespace or a double quote (a quote would
   continue the string list of the message before it).  Parser.getNext finds no comment,
   whitespace or key at its start; Parser.getJunk searches the key expression  msgctxt|msgid  and
   the comment expression from the next position on, and both fail at every position inside the
   region.  So the junk ends exactly at the next comment or message, or at the end of the text:
   ONE Junk entry per region, covering exactly that region. *)
From Coq Require Import NArith List Bool Arith Lia.
From CL Require Import Base.Sx Base.Res Base.Str Regex.Rx Regex.RxLemmas Model.Entry Model.Parse
  Model.ParseFormats Generated.RxParser Proofs.UnescapeProofs
  Proofs.ClassLoop Proofs.ClassLoop2 Proofs.C02Props Proofs.WalkProofs Proofs.C02Roundtrip
  Proofs.C02BlocksRx Proofs.C02BlocksIniRx Proofs.C02BlocksIncRx Proofs.C02Po Proofs.ParseContracts
  Proofs.C02BlocksPoRx Proofs.C02BlocksPo.
From CL Require Proofs.C02BlocksIniJunk Proofs.C02BlocksDtdJunk.
Import ListNotations.

Local Arguments Nat.ltb : simpl never.
Local Arguments Nat.leb : simpl never.
Local Arguments Nat.eqb : simpl never.
Local Arguments N.eqb : simpl never.
Local Arguments N.leb : simpl never.
Local Arguments chr_ok : simpl never.
Local Arguments run : simpl never.
Local Arguments fwd : simpl never.

Ltac norm_app := repeat (progress (rewrite <- ?app_assoc; cbn [app])).

(* ---- garbage ------------------------------------------------------------------------------------------- *)
Definition is_s (d : N) : bool := N.eqb d 115.
Definition ms_head (X : str) : bool :=
  match X with [] => false | c :: t => N.eqb c 109 && head_is is_s t end.
Definition hash_head (X : str) : bool := head_is (fun c => N.eqb c 35) X.
(* no "#", no "ms" *)
Fixpoint plain_garbage (g : str) : bool :=
  match g with
  | [] => true
  | c :: t => negb (N.eqb c 35) && negb (N.eqb c 109 && head_is is_s t) && plain_garbage t
  end.
Definition legal_pgarbage (g : str) : bool :=
  match g with
  | [] => false
  | c :: _ => negb (mem c (34%N :: WS)) && plain_garbage g
  end.

Lemma garbage_suffix : forall g after, plain_garbage g = true -> head_is is_s after = false ->
  forall i, i < length g ->
  ms_head (skipn i g ++ after) = false /\ hash_head (skipn i g ++ after) = false.
Proof.
  induction g as [|c g IH]; intros after Hg Ha i Hi; [simpl in Hi; lia|].
  cbn [plain_garbage] in Hg. apply andb_true_iff in Hg. destruct Hg as [Hg H3].
  apply andb_true_iff in Hg. destruct Hg as [H1 H2]. apply negb_true_iff in H1. apply negb_true_iff in H2.
  destruct i as [|i].
  - cbn [skipn app ms_head hash_head head_is]. split; [|exact H1].
    destruct g as [|d g']; [cbn [app]; rewrite Ha; apply andb_false_r|]. cbn [app head_is] in *. exact H2.
  - cbn [skipn]. apply IH; auto. simpl in Hi. lia.
Qed.

Lemma ms_head_key : forall X, ms_head X = false -> starts_with [109; 115; 103]%N X = false.
Proof.
  intros [|c [|d X]] H; [reflexivity| |].
  - cbn [starts_with]. destruct (N.eqb 109 c); reflexivity.
  - cbn [starts_with]. cbn [ms_head head_is] in H. unfold is_s in H.
    rewrite (N.eqb_sym 109 c), (N.eqb_sym 115 d).
    destruct (N.eqb c 109); [|reflexivity]. cbn [andb] in *. rewrite H. reflexivity.
Qed.

Lemma key_fails : forall X pr p cs k, ms_head X = false -> m rx_po_key (mkst pr X p cs) k = Fail.
Proof. intros X pr p cs k H. rewrite po_key_shape, m_lit, ms_head_key by exact H. reflexivity. Qed.

Lemma key_attempt : forall X pr p, ms_head X = false ->
  run_at rx_po_key (mkst pr X p []) (fun _ => true) = MNone.
Proof. intros X pr p H. rewrite run_at_k0, key_fails by exact H. reflexivity. Qed.

Lemma comment_attempt : forall X pr p, hash_head X = false ->
  run_at rx_po_comment (mkst pr X p []) (fun _ => true) = MNone.
Proof. intros X pr p H. rewrite run_at_k0, pcomment_fails by exact H. reflexivity. Qed.

Lemma omatch_po_key_none : forall (a X : str), ms_head X = false ->
  omatch rx_po_key (a ++ X) (length a) = None.
Proof. intros a X H. rewrite omatch_split, run_at_k0, key_fails by exact H. reflexivity. Qed.

(* the key expression matches where a message starts *)
Lemma key_hit : forall ctxt idl w2 strl X pr p,
  exists x, run_at rx_po_key (mkst pr (msg_text ctxt idl w2 strl ++ X) p []) (fun _ => true) = MSome x /\
            m_start x = p.
Proof.
  intros [[ci w1]|] idl w2 strl X pr p; unfold msg_text; cbn [ctxt_text].
  - set (Y := items_text ci ++ w1 ++ s_msgid ++ items_text idl ++ w2 ++ s_msgstr ++ items_text strl).
    replace (((s_msgctxt ++ items_text ci ++ w1) ++ s_msgid ++ items_text idl ++ w2 ++ s_msgstr ++ items_text strl) ++ X)
      with (s_msgctxt ++ (Y ++ X)) by (unfold Y; norm_app; reflexivity).
    rewrite run_at_k0, po_key_shape, m_lit.
    change (starts_with [109; 115; 103]%N (s_msgctxt ++ (Y ++ X))) with true. cbv iota.
    rewrite m_Alt, m_lit.
    change (skipn (length [109; 115; 103]%N) (s_msgctxt ++ (Y ++ X))) with ([99; 116; 120; 116]%N ++ (Y ++ X)).
    change (starts_with [99; 116; 120]%N ([99; 116; 120; 116]%N ++ (Y ++ X))) with true. cbv iota.
    rewrite m_Chr. cbn [suf skipn length app]. rewrite single_class.
    replace (N.eqb 116 116) with true by reflexivity. rewrite k0_done, orelse_done.
    eexists. split; reflexivity.
  - set (Y := items_text idl ++ w2 ++ s_msgstr ++ items_text strl).
    replace (([] ++ s_msgid ++ Y) ++ X) with (s_msgid ++ (Y ++ X)) by (norm_app; reflexivity).
    rewrite run_at_k0, po_key_shape, m_lit.
    change (starts_with [109; 115; 103]%N (s_msgid ++ (Y ++ X))) with true. cbv iota.
    rewrite m_Alt, m_lit.
    change (skipn (length [109; 115; 103]%N) (s_msgid ++ (Y ++ X))) with ([105; 100]%N ++ (Y ++ X)).
    change (starts_with [99; 116; 120]%N ([105; 100]%N ++ (Y ++ X))) with false. cbv iota.
    rewrite orelse_fail, m_lit.
    change (starts_with [105%N] ([105; 100]%N ++ (Y ++ X))) with true. cbv iota.
    rewrite m_Chr. cbn [suf skipn length app]. rewrite single_class.
    replace (N.eqb 100 100) with true by reflexivity. rewrite k0_done.
    eexists. split; reflexivity.
Qed.

(* ---- step: a garbage region ---------------------------------------------------------------------------- *)
Inductive pjunk_after : str -> Prop :=
| pja_eof : pjunk_after []
| pja_comment : forall cs X, cs <> [] -> forallb legal_cline_p cs = true -> hash_head X = false ->
                pjunk_after (ctext cs ++ X)
| pja_msg : forall ctxt idl w2 strl X, pjunk_after (msg_text ctxt idl w2 strl ++ X).

Lemma pjunk_after_head : forall after, pjunk_after after -> head_is is_s after = false.
Proof.
  intros after [|cs X Hne Hcs _|ctxt idl w2 strl X]; [reflexivity| |].
  - apply head_ctext_p; auto.
  - destruct ctxt as [[ci w1]|]; reflexivity.
Qed.

Lemma gn_po_garbage : forall (a g after : str),
  legal_pgarbage g = true -> pjunk_after after ->
  gn_po (a ++ g ++ after) (length a) = mk_junk (length a, length a + length g).
Proof.
  intros a g after Hg Hafter. pose proof (pjunk_after_head after Hafter) as Hah.
  destruct g as [|c g'] eqn:Eg; [discriminate|]. rewrite <- Eg in *.
  assert (Hpos : 1 <= length g) by (rewrite Eg; simpl; lia).
  unfold legal_pgarbage in Hg. rewrite Eg in Hg. rewrite <- Eg in Hg.
  apply andb_true_iff in Hg. destruct Hg as [Hq Hpl]. apply negb_true_iff in Hq.
  pose proof (garbage_suffix g after Hpl Hah) as Hsuf.
  set (s := a ++ g ++ after).
  destruct (Hsuf 0 ltac:(lia)) as [S1 S2]. cbn [skipn] in S1, S2.
  assert (Hhw : head_is (fun c => mem c WS) (g ++ after) = false).
  { rewrite Eg. cbn [app head_is]. unfold mem in *. cbn [existsb] in Hq. apply orb_false_iff in Hq. apply Hq. }
  assert (Ec : omatch rx_po_comment s (length a) = None) by (apply omatch_pcomment_none; exact S2).
  assert (Ew : omatch rx_props_ws s (length a) = None) by (apply omatch_ws_none; exact Hhw).
  assert (Ek : omatch rx_po_key s (length a) = None) by (apply omatch_po_key_none; exact S1).
  open_po. fold s. rewrite Ec. cbv beta iota zeta. rewrite Ew. cbv beta iota zeta. rewrite Ek.
  (* the two searches of getJunk *)
  set (p := length a + length g).
  assert (Ak : forall i, i < length g ->
            run_at rx_po_key (mkst (rev (firstn i g) ++ rev a) (skipn i g ++ after) (length a + i) [])
                   (fun _ => true) = MNone) by (intros i Hi; apply key_attempt; apply Hsuf; exact Hi).
  assert (Ac : forall i, i < length g ->
            run_at rx_po_comment (mkst (rev (firstn i g) ++ rev a) (skipn i g ++ after) (length a + i) [])
                   (fun _ => true) = MNone) by (intros i Hi; apply comment_attempt; apply Hsuf; exact Hi).
  assert (Sk := C02BlocksDtdJunk.search_from_region rx_po_key a g after Ak Hpos).
  assert (Sc := C02BlocksDtdJunk.search_from_region rx_po_comment a g after Ac Hpos).
  fold p in Sk, Sc. set (z := mkst (rev g ++ rev a) after p []) in *.
  assert (OO : forall R, rsearch R (a ++ g ++ after) (S (length a)) = search_from R (S (length after)) z None ->
               osearch R s (S (length a)) =
               match search_from R (S (length after)) z None with MSome x => Some x | _ => None end)
    by (intros R HR; unfold osearch; unfold s; rewrite HR; reflexivity).
  assert (Ok := OO _ Sk). assert (Oc := OO _ Sc).
  assert (Bnd : forall R, osearch R s (S (length a)) =
                  match search_from R (S (length after)) z None with MSome x => Some x | _ => None end ->
                  C02BlocksIniJunk.jbounded s (length a) p R).
  { intros R HO. unfold C02BlocksIniJunk.jbounded. rewrite HO.
    pose proof (C02BlocksIniJunk.search_bound R (S (length after)) (rev g ++ rev a) after p) as B. fold z in B.
    destruct (search_from R (S (length after)) z None) as [|x|]; [left|right|left]; auto.
    exists x. split; [reflexivity|exact B]. }
  assert (HB : Forall (C02BlocksIniJunk.jbounded s (length a) p) [rx_po_key; rx_po_comment])
    by (constructor; [apply Bnd; exact Ok|constructor; [apply Bnd; exact Oc|constructor]]).
  assert (Hit : forall R x, run_at R z (fun _ => true) = MSome x -> m_start x = p ->
                  osearch R s (S (length a)) =
                  match search_from R (S (length after)) z None with MSome x => Some x | _ => None end ->
                  C02BlocksIniJunk.jhits s (length a) p R).
  { intros R x Hr Hs HO. exists x. rewrite HO, search_from_S. cbv beta iota.
    change (fun s' : st => true) with (fun _ : st => true). rewrite Hr. split; [reflexivity|exact Hs]. }
  destruct Hafter as [|cs X Hne Hcs HX|ctxt idl w2 strl X].
  - (* the end of the file: nothing is found *)
    rewrite C02BlocksIniJunk.get_junk_none.
    + unfold s. rewrite !app_length. simpl. rewrite Nat.add_0_r. reflexivity.
    + repeat constructor.
      * rewrite Ok, search_from_S. cbv beta iota. change (fun s' : st => true) with (fun _ : st => true).
        unfold z. rewrite key_attempt by reflexivity. reflexivity.
      * rewrite Oc, search_from_S. cbv beta iota. change (fun s' : st => true) with (fun _ : st => true).
        unfold z. rewrite comment_attempt by reflexivity. reflexivity.
  - (* comment lines *)
    apply C02BlocksIniJunk.get_junk_hit; [unfold p; lia|exact HB|]. apply Exists_cons_tl. apply Exists_cons_hd.
    eapply Hit; [unfold z; rewrite run_at_k0, pcomment_match by auto; reflexivity|reflexivity|exact Oc].
  - (* a message *)
    destruct (key_hit ctxt idl w2 strl X (rev g ++ rev a) p) as [x [Hx1 Hx2]].
    apply C02BlocksIniJunk.get_junk_hit; [unfold p; lia|exact HB|]. apply Exists_cons_hd.
    eapply Hit; [unfold z; exact Hx1|exact Hx2|exact Ok].
Qed.
