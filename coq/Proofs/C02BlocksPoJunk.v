(* C02, PO: junk regions.  The blocks of Proofs/C02BlocksPo.v plus garbage regions: any nonempty
   text without "#" in which "m" is never directly followed by "s" (so neither msgctxt nor msgid
   starts inside it), that does not start with whitespace or a double quote (a quote would
   continue the string list of the message before it).  Parser.getNext finds no comment,
   whitespace or key at its start; Parser.getJunk searches the key expression  msgctxt|msgid  and
   the comment expression from the next position on, and both fail at every position inside the
   region.  So the junk ends exactly at the next comment or message, or at the end of the text:
   ONE Junk entry per region, covering exactly that region. *)
From Coq Require Import NArith List Bool Arith Lia.
From CL Require Import Base.Sx Base.Res Base.Str Regex.Rx Regex.RxLemmas Model.Entry Model.Parse
  Model.ParseFormats Generated.RxParser Model.Unescape Proofs.UnescapeProofs
  Proofs.ClassLoop Proofs.ClassLoop2 Proofs.C02Props Proofs.WalkProofs Proofs.C02Roundtrip
  Proofs.C02BlocksRx Proofs.C02BlocksIniRx Proofs.C02BlocksIncRx Proofs.C02Po Proofs.ParseContracts
  Proofs.C02BlocksPoRx Proofs.C02BlocksPo.
From CL Require Proofs.C02BlocksIniJunk Proofs.C02BlocksDtdJunk Proofs.C02BlocksPoVal.
Import ListNotations.

Local Arguments Nat.ltb : simpl never.
Local Arguments Nat.leb : simpl never.
Local Arguments Nat.eqb : simpl never.
Local Arguments N.eqb : simpl never.
Local Arguments N.leb : simpl never.
Local Arguments chr_ok : simpl never.
Local Arguments run : simpl never.
Local Arguments fwd : simpl never.

Ltac norm_app := repeat (progress (rewrite <- ?app_assoc; cbn [app])).

(* ---- garbage ------------------------------------------------------------------------------------------- *)
Definition is_s (d : N) : bool := N.eqb d 115.
Definition ms_head (X : str) : bool :=
  match X with [] => false | c :: t => N.eqb c 109 && head_is is_s t end.
Definition hash_head (X : str) : bool := head_is (fun c => N.eqb c 35) X.
(* no "#", no "ms" *)
Fixpoint plain_garbage (g : str) : bool :=
  match g with
  | [] => true
  | c :: t => negb (N.eqb c 35) && negb (N.eqb c 109 && head_is is_s t) && plain_garbage t
  end.
Definition legal_pgarbage (g : str) : bool :=
  match g with
  | [] => false
  | c :: _ => negb (mem c (34%N :: WS)) && plain_garbage g
  end.

Lemma garbage_suffix : forall g after, plain_garbage g = true -> head_is is_s after = false ->
  forall i, i < length g ->
  ms_head (skipn i g ++ after) = false /\ hash_head (skipn i g ++ after) = false.
Proof.
  induction g as [|c g IH]; intros after Hg Ha i Hi; [simpl in Hi; lia|].
  cbn [plain_garbage] in Hg. apply andb_true_iff in Hg. destruct Hg as [Hg H3].
  apply andb_true_iff in Hg. destruct Hg as [H1 H2]. apply negb_true_iff in H1. apply negb_true_iff in H2.
  destruct i as [|i].
  - cbn [skipn app ms_head hash_head head_is]. split; [|exact H1].
    destruct g as [|d g']; [cbn [app]; rewrite Ha; apply andb_false_r|]. cbn [app head_is] in *. exact H2.
  - cbn [skipn]. apply IH; auto. simpl in Hi. lia.
Qed.

Lemma ms_head_key : forall X, ms_head X = false -> starts_with [109; 115; 103]%N X = false.
Proof.
  intros [|c [|d X]] H; [reflexivity| |].
  - cbn [starts_with]. destruct (N.eqb 109 c); reflexivity.
  - cbn [starts_with]. cbn [ms_head head_is] in H. unfold is_s in H.
    rewrite (N.eqb_sym 109 c), (N.eqb_sym 115 d).
    destruct (N.eqb c 109); [|reflexivity]. cbn [andb] in *. rewrite H. reflexivity.
Qed.

Lemma key_fails : forall X pr p cs k, ms_head X = false -> m rx_po_key (mkst pr X p cs) k = Fail.
Proof. intros X pr p cs k H. rewrite po_key_shape, m_lit, ms_head_key by exact H. reflexivity. Qed.

Lemma key_attempt : forall X pr p, ms_head X = false ->
  run_at rx_po_key (mkst pr X p []) (fun _ => true) = MNone.
Proof. intros X pr p H. rewrite run_at_k0, key_fails by exact H. reflexivity. Qed.

Lemma comment_attempt : forall X pr p, hash_head X = false ->
  run_at rx_po_comment (mkst pr X p []) (fun _ => true) = MNone.
Proof. intros X pr p H. rewrite run_at_k0, pcomment_fails by exact H. reflexivity. Qed.

Lemma omatch_po_key_none : forall (a X : str), ms_head X = false ->
  omatch rx_po_key (a ++ X) (length a) = None.
Proof. intros a X H. rewrite omatch_split, run_at_k0, key_fails by exact H. reflexivity. Qed.

(* the key expression matches where a message starts *)
Lemma key_hit : forall ctxt idl w2 strl X pr p,
  exists x, run_at rx_po_key (mkst pr (msg_text ctxt idl w2 strl ++ X) p []) (fun _ => true) = MSome x /\
            m_start x = p.
Proof.
  intros [[ci w1]|] idl w2 strl X pr p; unfold msg_text; cbn [ctxt_text].
  - set (Y := items_text ci ++ w1 ++ s_msgid ++ items_text idl ++ w2 ++ s_msgstr ++ items_text strl).
    replace (((s_msgctxt ++ items_text ci ++ w1) ++ s_msgid ++ items_text idl ++ w2 ++ s_msgstr ++ items_text strl) ++ X)
      with (s_msgctxt ++ (Y ++ X)) by (unfold Y; norm_app; reflexivity).
    rewrite run_at_k0, po_key_shape, m_lit.
    change (starts_with [109; 115; 103]%N (s_msgctxt ++ (Y ++ X))) with true. cbv iota.
    rewrite m_Alt, m_lit.
    change (skipn (length [109; 115; 103]%N) (s_msgctxt ++ (Y ++ X))) with ([99; 116; 120; 116]%N ++ (Y ++ X)).
    change (starts_with [99; 116; 120]%N ([99; 116; 120; 116]%N ++ (Y ++ X))) with true. cbv iota.
    rewrite m_Chr. cbn [suf skipn length app]. rewrite single_class.
    replace (N.eqb 116 116) with true by reflexivity. rewrite k0_done, orelse_done.
    eexists. split; reflexivity.
  - set (Y := items_text idl ++ w2 ++ s_msgstr ++ items_text strl).
    replace (([] ++ s_msgid ++ Y) ++ X) with (s_msgid ++ (Y ++ X)) by (norm_app; reflexivity).
    rewrite run_at_k0, po_key_shape, m_lit.
    change (starts_with [109; 115; 103]%N (s_msgid ++ (Y ++ X))) with true. cbv iota.
    rewrite m_Alt, m_lit.
    change (skipn (length [109; 115; 103]%N) (s_msgid ++ (Y ++ X))) with ([105; 100]%N ++ (Y ++ X)).
    change (starts_with [99; 116; 120]%N ([105; 100]%N ++ (Y ++ X))) with false. cbv iota.
    rewrite orelse_fail, m_lit.
    change (starts_with [105%N] ([105; 100]%N ++ (Y ++ X))) with true. cbv iota.
    rewrite m_Chr. cbn [suf skipn length app]. rewrite single_class.
    replace (N.eqb 100 100) with true by reflexivity. rewrite k0_done.
    eexists. split; reflexivity.
Qed.

(* ---- step: a garbage region ---------------------------------------------------------------------------- *)
Inductive pjunk_after : str -> Prop :=
| pja_eof : pjunk_after []
| pja_comment : forall cs X, cs <> [] -> forallb legal_cline_p cs = true -> hash_head X = false ->
                pjunk_after (ctext cs ++ X)
| pja_msg : forall ctxt idl w2 strl X, pjunk_after (msg_text ctxt idl w2 strl ++ X).

Lemma pjunk_after_head : forall after, pjunk_after after -> head_is is_s after = false.
Proof.
  intros after [|cs X Hne Hcs _|ctxt idl w2 strl X]; [reflexivity| |].
  - apply head_ctext_p; auto.
  - destruct ctxt as [[ci w1]|]; reflexivity.
Qed.

Lemma gn_po_garbage : forall (a g after : str),
  legal_pgarbage g = true -> pjunk_after after ->
  gn_po (a ++ g ++ after) (length a) = mk_junk (length a, length a + length g).
Proof.
  intros a g after Hg Hafter. pose proof (pjunk_after_head after Hafter) as Hah.
  destruct g as [|c g'] eqn:Eg; [discriminate|]. rewrite <- Eg in *.
  assert (Hpos : 1 <= length g) by (rewrite Eg; simpl; lia).
  unfold legal_pgarbage in Hg. rewrite Eg in Hg. rewrite <- Eg in Hg.
  apply andb_true_iff in Hg. destruct Hg as [Hq Hpl]. apply negb_true_iff in Hq.
  pose proof (garbage_suffix g after Hpl Hah) as Hsuf.
  set (s := a ++ g ++ after).
  destruct (Hsuf 0 ltac:(lia)) as [S1 S2]. cbn [skipn] in S1, S2.
  assert (Hhw : head_is (fun c => mem c WS) (g ++ after) = false).
  { rewrite Eg. cbn [app head_is]. unfold mem in *. cbn [existsb] in Hq. apply orb_false_iff in Hq. apply Hq. }
  assert (Ec : omatch rx_po_comment s (length a) = None) by (apply omatch_pcomment_none; exact S2).
  assert (Ew : omatch rx_props_ws s (length a) = None) by (apply omatch_ws_none; exact Hhw).
  assert (Ek : omatch rx_po_key s (length a) = None) by (apply omatch_po_key_none; exact S1).
  open_po. fold s. rewrite Ec. cbv beta iota zeta. rewrite Ew. cbv beta iota zeta. rewrite Ek.
  (* the two searches of getJunk *)
  set (p := length a + length g).
  assert (Ak : forall i, i < length g ->
            run_at rx_po_key (mkst (rev (firstn i g) ++ rev a) (skipn i g ++ after) (length a + i) [])
                   (fun _ => true) = MNone) by (intros i Hi; apply key_attempt; apply Hsuf; exact Hi).
  assert (Ac : forall i, i < length g ->
            run_at rx_po_comment (mkst (rev (firstn i g) ++ rev a) (skipn i g ++ after) (length a + i) [])
                   (fun _ => true) = MNone) by (intros i Hi; apply comment_attempt; apply Hsuf; exact Hi).
  assert (Sk := C02BlocksDtdJunk.search_from_region rx_po_key a g after Ak Hpos).
  assert (Sc := C02BlocksDtdJunk.search_from_region rx_po_comment a g after Ac Hpos).
  fold p in Sk, Sc. set (z := mkst (rev g ++ rev a) after p []) in *.
  assert (OO : forall R, rsearch R (a ++ g ++ after) (S (length a)) = search_from R (S (length after)) z None ->
               osearch R s (S (length a)) =
               match search_from R (S (length after)) z None with MSome x => Some x | _ => None end)
    by (intros R HR; unfold osearch; unfold s; rewrite HR; reflexivity).
  assert (Ok := OO _ Sk). assert (Oc := OO _ Sc).
  assert (Bnd : forall R, osearch R s (S (length a)) =
                  match search_from R (S (length after)) z None with MSome x => Some x | _ => None end ->
                  C02BlocksIniJunk.jbounded s (length a) p R).
  { intros R HO. unfold C02BlocksIniJunk.jbounded. rewrite HO.
    pose proof (C02BlocksIniJunk.search_bound R (S (length after)) (rev g ++ rev a) after p) as B. fold z in B.
    destruct (search_from R (S (length after)) z None) as [|x|]; [left|right|left]; auto.
    exists x. split; [reflexivity|exact B]. }
  assert (HB : Forall (C02BlocksIniJunk.jbounded s (length a) p) [rx_po_key; rx_po_comment])
    by (constructor; [apply Bnd; exact Ok|constructor; [apply Bnd; exact Oc|constructor]]).
  assert (Hit : forall R x, run_at R z (fun _ => true) = MSome x -> m_start x = p ->
                  osearch R s (S (length a)) =
                  match search_from R (S (length after)) z None with MSome x => Some x | _ => None end ->
                  C02BlocksIniJunk.jhits s (length a) p R).
  { intros R x Hr Hs HO. exists x. rewrite HO, search_from_S. cbv beta iota.
    change (fun s' : st => true) with (fun _ : st => true). rewrite Hr. split; [reflexivity|exact Hs]. }
  destruct Hafter as [|cs X Hne Hcs HX|ctxt idl w2 strl X].
  - (* the end of the file: nothing is found *)
    rewrite C02BlocksIniJunk.get_junk_none.
    + unfold s. rewrite !app_length. simpl. rewrite Nat.add_0_r. reflexivity.
    + repeat constructor.
      * rewrite Ok, search_from_S. cbv beta iota. change (fun s' : st => true) with (fun _ : st => true).
        unfold z. rewrite key_attempt by reflexivity. reflexivity.
      * rewrite Oc, search_from_S. cbv beta iota. change (fun s' : st => true) with (fun _ : st => true).
        unfold z. rewrite comment_attempt by reflexivity. reflexivity.
  - (* comment lines *)
    apply C02BlocksIniJunk.get_junk_hit; [unfold p; lia|exact HB|]. apply Exists_cons_tl. apply Exists_cons_hd.
    eapply Hit; [unfold z; rewrite run_at_k0, pcomment_match by auto; reflexivity|reflexivity|exact Oc].
  - (* a message *)
    destruct (key_hit ctxt idl w2 strl X (rev g ++ rev a) p) as [x [Hx1 Hx2]].
    apply C02BlocksIniJunk.get_junk_hit; [unfold p; lia|exact HB|]. apply Exists_cons_hd.
    eapply Hit; [unfold z; exact Hx1|exact Hx2|exact Ok].
Qed.

(* ---- blocks with garbage regions -------------------------------------------------------------------------- *)
Inductive pjblock :=
| PJB (b : pblock)
| PJG (g : str).

Definition pjtext (jb : pjblock) : str := match jb with PJB b => ptext b | PJG g => g end.
Definition pjfile_text (bs : list pjblock) : str := concat (map pjtext bs).
Definition legal_pjblockb (jb : pjblock) : bool :=
  match jb with PJB b => legal_pblockb b | PJG g => legal_pgarbage g end.
Definition legal_pjblock (jb : pjblock) : Prop := legal_pjblockb jb = true.

(* as C02BlocksPo.psep; a garbage region is followed by the end of the file, a comment or a
   message (whitespace would belong to the junk), and does not directly follow a standalone
   comment *)
Fixpoint pjsep (bs : list pjblock) : bool :=
  match bs with
  | [] => true
  | PJB (PComment _) :: rest =>
      match rest with
      | [] => true
      | PJB (PBlank w) :: _ => 2 <=? count_char 10%N w
      | _ => false
      end && pjsep rest
  | PJG _ :: rest =>
      match rest with
      | [] | PJB (PComment _) :: _ | PJB (PEntity _ _ _ _ _ _) :: _ => true
      | _ => false
      end && pjsep rest
  | _ :: rest => pjsep rest
  end.

Fixpoint pjlic (off : nat) (bs : list pjblock) : bool :=
  match bs with
  | PJB (PBlank w) :: rest => pjlic (off + length w) rest
  | PJG g :: rest => pjlic (off + length g) rest
  | PJB (PEntity cs _ _ _ _ _) :: _ =>
      (2 <=? off) || negb (contains s_License (ctext cs))
  | _ => true
  end.

Definition pjadjacent_okb (bs : list pjblock) : bool := pjsep bs && pjlic 0 bs.
Definition pjadjacent_ok (bs : list pjblock) : Prop := pjadjacent_okb bs = true.

Fixpoint pjents (off w : nat) (bs : list pjblock) : list entry :=
  match bs with
  | [] => flush off w
  | PJB (PBlank x) :: rest => pjents off (w + length x) rest
  | PJB (PComment cs) :: rest =>
      let a := off + w in
      flush off w ++ mk_comment (a, a + length (ctext cs)) :: pjents (a + length (ctext cs)) 0 rest
  | PJB (PEntity cs iw ctxt idl w2 strl) :: rest =>
      let a := off + w in
      let l := a + length (ctext cs) in
      let k := l + length iw in
      let id_end := k + length (ctxt_text ctxt) + 5 + length (items_text idl) in
      let c3 := id_end + length w2 in
      let c4 := c3 + 6 + length (items_text strl) in
      flush off w ++
      mkentry KEntity (k, c4) (Some (k, id_end)) (Some (c3, c4))
              (match cs with [] => None | _ => Some (a, l) end)
              (match iw with [] => None | _ => Some (l, k) end)
      :: pjents c4 0 rest
  | PJG g :: rest =>
      let a := off + w in
      flush off w ++ mk_junk (a, a + length g) :: pjents (a + length g) 0 rest
  end.
Definition pjentries_of (bs : list pjblock) : list entry := pjents 0 0 bs.

(* sanity, by evaluation: message / "junk text" newline / message with comment / newline newline /
   comment / newline newline / "x = y" newline / message / "tail" *)
Definition pjx_g : pjblock := PJG (A [106; 117; 110; 107; 32; 116; 101; 120; 116; 10]).
Example pjx_junk :
  let bs := [PJB px_e1; pjx_g; PJB px_e2; PJB px_b2; PJB px_c; PJB px_b2; PJG (A [120; 32; 61; 32; 121; 10]);
             PJB px_e1; PJG (A [116; 97; 105; 108])] in
  Forall legal_pjblock bs /\ pjadjacent_ok bs /\ walk_po (pjfile_text bs) = Ok (pjentries_of bs) /\
  length (filter (C02BlocksPoVal.is_kind KJunk) (pjentries_of bs)) = 3.
Proof. split; [repeat constructor|]. split; [vm_compute; reflexivity|]. split; vm_compute; reflexivity. Qed.

(* ---- the walk with garbage regions ------------------------------------------------------------------------ *)
Definition pjstmt (bs : list pjblock) (a w : str) : Prop :=
  pjlic (length a + length w) bs = true ->
  forall fuel, length (a ++ w ++ pjfile_text bs) - length a < fuel ->
  walk_loop (stateless gn_po) fuel tt (a ++ w ++ pjfile_text bs) (length a) =
  Ok (pjents (length a) (length w) bs).

Definition pjnonblank_head (bs : list pjblock) : Prop :=
  match bs with PJB (PBlank _) :: _ => False | _ => True end.

Lemma pjents_flush : forall bs off w, pjnonblank_head bs ->
  pjents off w bs = flush off w ++ pjents (off + w) 0 bs.
Proof.
  intros [|[[x|cs|cs iw ctxt idl w2 strl]|g] rest] off w H; try contradiction; simpl;
    rewrite ?Nat.add_0_r, ?app_nil_r; reflexivity.
Qed.

Lemma pjlic_ge2 : forall bs off, 2 <= off -> pjlic off bs = true.
Proof.
  induction bs as [|[[x|cs|cs iw ctxt idl w2 strl]|g] rest IH]; intros off H; try reflexivity.
  - simpl. apply IH. lia.
  - simpl. replace (2 <=? off) with true by (symmetry; apply Nat.leb_le; exact H). reflexivity.
  - simpl. apply IH. lia.
Qed.

Lemma pjlift_flush : forall bs, pjnonblank_head bs ->
  head_is (fun c => mem c WS) (pjfile_text bs) = false ->
  (forall a, pjstmt bs a []) ->
  forall a w, all_ws w = true -> pjstmt bs a w.
Proof.
  intros bs Hnb Hhead H0 a w Hw Hlic fuel Hf.
  destruct w as [|c w'] eqn:Ew; [apply (H0 a); auto|]. rewrite <- Ew in *.
  assert (Hne : w <> []) by (rewrite Ew; discriminate).
  destruct fuel as [|f]; [lia|].
  rewrite pjents_flush by exact Hnb.
  assert (Efl : flush (length a) (length w) = [mk_white (length a, length a + length w)])
    by (rewrite Ew; reflexivity).
  rewrite Efl. simpl app.
  pose proof (gn_po_white a w (pjfile_text bs) Hne Hw Hhead) as G.
  rewrite <- G. apply walk_step_po.
  - rewrite !app_length. rewrite Ew. simpl. lia.
  - rewrite G. cbn [mk_white e_span snd].
    assert (Hs : a ++ w ++ pjfile_text bs = (a ++ w) ++ [] ++ pjfile_text bs)
      by (rewrite <- app_assoc; reflexivity).
    rewrite Hs, <- app_length. apply (H0 (a ++ w)).
    + rewrite app_length. simpl length. rewrite Nat.add_0_r. exact Hlic.
    + rewrite <- Hs. rewrite !app_length in *. rewrite Ew in *. simpl in *. lia.
Qed.

Lemma pjfile_text_cons : forall b bs, pjfile_text (b :: bs) = pjtext b ++ pjfile_text bs.
Proof. reflexivity. Qed.

Lemma garbage_head : forall g Y, legal_pgarbage g = true ->
  head_is (fun c => mem c (34%N :: WS)) (g ++ Y) = false.
Proof.
  intros [|c g] Y H; [discriminate|]. unfold legal_pgarbage in H. apply andb_true_iff in H.
  destruct H as [H _]. apply negb_true_iff in H. exact H.
Qed.

Lemma jitem_stops_rest : forall rest, Forall legal_pjblock rest -> item_stops (pjfile_text rest).
Proof.
  induction rest as [|b rest IH]; intros Hleg.
  - exists [], []. repeat split.
  - inversion Hleg as [|? ? Hb Hrest]; subst. rewrite pjfile_text_cons.
    destruct b as [[x|cs|cs iw ctxt idl w2 strl]|g]; cbn [pjtext ptext].
    + destruct (IH Hrest) as [w [Y [E [Hw HY]]]]. exists (x ++ w), Y. rewrite E.
      split; [rewrite <- app_assoc; reflexivity|]. split; [|exact HY].
      unfold legal_pjblock in Hb. cbn [legal_pjblockb legal_pblockb] in Hb. apply andb_true_iff in Hb. destruct Hb as [_ Hx].
      unfold all_ws in *. rewrite forallb_app, Hx, Hw. reflexivity.
    + unfold legal_pjblock in Hb. cbn [legal_pjblockb legal_pblockb] in Hb. apply andb_true_iff in Hb. destruct Hb as [Hc1 Hc2].
      exists [], (ctext cs ++ pjfile_text rest). split; [reflexivity|]. split; [reflexivity|].
      apply head_ctext_p; [destruct cs; discriminate|exact Hc2|reflexivity].
    + exists [], ((ctext cs ++ iw ++ msg_text ctxt idl w2 strl) ++ pjfile_text rest).
      split; [reflexivity|]. split; [reflexivity|].
      unfold legal_pjblock in Hb. cbn [legal_pjblockb legal_pblockb] in Hb.
      repeat (apply andb_true_iff in Hb; let H := fresh "L" in destruct Hb as [Hb H]).
      destruct cs as [|c1 cs1].
      * assert (iw = []) by (destruct iw; [reflexivity|discriminate]). subst iw. cbn [ctext concat map app].
        destruct (msg_head ctxt idl w2 strl (pjfile_text rest)) as [_ [_ M3]]. exact M3.
      * rewrite <- app_assoc. apply head_ctext_p; [discriminate|exact Hb|reflexivity].
    + exists [], (g ++ pjfile_text rest). split; [reflexivity|]. split; [reflexivity|].
      apply garbage_head. exact Hb.
Qed.


(* what follows a garbage region, read off the next block *)
Lemma pjunk_after_rest : forall rest, Forall legal_pjblock rest -> pjsep rest = true ->
  match rest with
  | [] | PJB (PComment _) :: _ | PJB (PEntity _ _ _ _ _ _) :: _ => true
  | _ => false
  end = true ->
  pjunk_after (pjfile_text rest).
Proof.
  intros [|[[x|cs|cs iw ctxt idl w2 strl]|g] rest'] Hleg Hsep Hk; try discriminate.
  - constructor.
  - inversion Hleg as [|b' r' Hb Hrest]; subst. unfold legal_pjblock in Hb. cbn [legal_pjblockb legal_pblockb] in Hb.
    apply andb_true_iff in Hb. destruct Hb as [Hc1 Hc2].
    assert (Hne : cs <> []) by (destruct cs; [discriminate|discriminate]).
    rewrite pjfile_text_cons. cbn [pjtext ptext]. constructor; auto.
    cbn [pjsep] in Hsep. apply andb_true_iff in Hsep. destruct Hsep as [Hnext _].
    destruct rest' as [|[[x| |]|] rest'']; try discriminate; [reflexivity|].
    inversion Hrest as [|b' r' Hx _]; subst. unfold legal_pjblock in Hx. cbn [legal_pjblockb legal_pblockb] in Hx.
    apply andb_true_iff in Hx. destruct Hx as [Hx1 Hx2].
    rewrite pjfile_text_cons. cbn [pjtext ptext]. unfold hash_head.
    rewrite head_is_app by (destruct x; [discriminate|discriminate]). apply head_ws_not_35; [|exact Hx2].
    destruct x; [discriminate|discriminate].
  - inversion Hleg as [|b' r' Hb Hrest]; subst. unfold legal_pjblock in Hb. cbn [legal_pjblockb legal_pblockb] in Hb.
    repeat (apply andb_true_iff in Hb; let H := fresh "L" in destruct Hb as [Hb H]).
    rewrite pjfile_text_cons. cbn [pjtext ptext].
    destruct cs as [|c1 cs1].
    + assert (iw = []) by (destruct iw; [reflexivity|discriminate]). subst iw. cbn [ctext concat map app].
      constructor.
    + rewrite <- !app_assoc. constructor; [discriminate|exact Hb|]. unfold hash_head.
      destruct iw as [|d iw'].
      * cbn [app]. destruct (msg_head ctxt idl w2 strl (pjfile_text rest')) as [_ [M2 _]]. exact M2.
      * cbn [app head_is]. apply ws_not_35. unfold all_ws in L5. simpl in L5. apply andb_true_iff in L5. apply L5.
Qed.

Lemma walk_pjents : forall bs, Forall legal_pjblock bs -> pjsep bs = true ->
  forall a w, all_ws w = true -> pjstmt bs a w.
Proof.
  induction bs as [|b rest IH]; intros Hleg Hsep.
  - apply pjlift_flush; [exact I|reflexivity|].
    intros a _ fuel Hf. simpl. apply walk_loop_done. rewrite !app_length. simpl. lia.
  - inversion Hleg as [|b' rest' Hb Hrest]; subst b' rest'.
    destruct b as [[x|cs|cs iw ctxt idl w2 strl]|g].
    + (* whitespace: joins what is pending *)
      intros a w Hw Hlic fuel Hf. simpl in Hsep.
      unfold legal_pjblock in Hb. cbn [legal_pjblockb legal_pblockb] in Hb. apply andb_true_iff in Hb.
      destruct Hb as [Hx1 Hx2].
      assert (Hs : a ++ w ++ pjfile_text (PJB (PBlank x) :: rest) = a ++ (w ++ x) ++ pjfile_text rest).
      { rewrite pjfile_text_cons. cbn [pjtext ptext]. rewrite <- app_assoc. reflexivity. }
      simpl pjents. rewrite Hs in *. rewrite <- app_length. apply (IH Hrest Hsep); auto.
      * unfold all_ws in *. rewrite forallb_app, Hw, Hx2. reflexivity.
      * rewrite app_length, Nat.add_assoc. exact Hlic.
    + (* a standalone comment *)
      unfold legal_pjblock in Hb. cbn [legal_pjblockb legal_pblockb] in Hb. apply andb_true_iff in Hb.
      destruct Hb as [Hc1 Hc2].
      assert (Hne : cs <> []) by (destruct cs; [discriminate|discriminate]).
      simpl in Hsep. apply andb_true_iff in Hsep. destruct Hsep as [Hnext Hsep].
      apply pjlift_flush; [exact I| rewrite pjfile_text_cons; apply head_ctext_p; auto |].
      intros a _ fuel Hf. destruct fuel as [|f]; [lia|].
      rewrite pjfile_text_cons in *. cbn [pjtext ptext] in *. simpl app in *.
      assert (Hafter : pjfile_text rest = [] \/
                exists x y, pjfile_text rest = x ++ y /\ x <> [] /\ all_ws x = true /\
                            2 <= count_char 10%N x).
      { destruct rest as [|[[x| |]|] rest']; try discriminate; [left; reflexivity|].
        right. exists x, (pjfile_text rest'). split; [reflexivity|].
        inversion Hrest as [|b' r' Hx _]; subst. unfold legal_pjblock in Hx. cbn [legal_pjblockb legal_pblockb] in Hx.
        apply andb_true_iff in Hx. destruct Hx as [Hx1 Hx2].
        split; [destruct x; discriminate|]. split; [exact Hx2|]. apply Nat.leb_le. exact Hnext. }
      pose proof (gn_po_comment a cs (pjfile_text rest) Hne Hc2 Hafter) as G.
      simpl pjents. rewrite !Nat.add_0_r. rewrite <- G. apply walk_step_po.
      * rewrite !app_length. pose proof (ctext_length_ge cs). destruct cs; [contradiction|].
        simpl in *. lia.
      * rewrite G. cbn [mk_comment e_span snd].
        assert (Hs : a ++ ctext cs ++ pjfile_text rest = (a ++ ctext cs) ++ [] ++ pjfile_text rest)
          by (rewrite <- app_assoc; reflexivity).
        pose proof (ctext_length_ge cs) as Hpos.
        assert (1 <= length (ctext cs)) by (destruct cs; [contradiction|simpl in *; lia]).
        rewrite Hs, <- app_length. apply (IH Hrest Hsep (a ++ ctext cs) []); [reflexivity| |].
        -- simpl length. rewrite Nat.add_0_r. apply pjlic_ge2.
           (* a comment line is at least "#" and its newline *)
           destruct cs as [|[c0 t0] cs']; [contradiction|]. rewrite app_length, ctext_cons_len. lia.
        -- rewrite <- Hs. rewrite !app_length in *. lia.
    + (* a message *)
      assert (Hb' := Hb). unfold legal_pjblock in Hb'. simpl in Hsep.
      apply pjlift_flush; [exact I| |].
      { rewrite pjfile_text_cons. cbn [pjtext ptext].
        cbn [legal_pjblockb legal_pblockb] in Hb'.
        repeat (apply andb_true_iff in Hb'; let H := fresh "L" in destruct Hb' as [Hb' H]).
        destruct cs as [|c1 cs1].
        - assert (iw = []) by (destruct iw; [reflexivity|discriminate]). subst iw. cbn [ctext concat map app].
          destruct (msg_head ctxt idl w2 strl (pjfile_text rest)) as [M1 _]. exact M1.
        - rewrite <- app_assoc. apply head_ctext_p; [discriminate|exact Hb'|reflexivity]. }
      intros a Hlic fuel Hf. destruct fuel as [|f]; [lia|].
      assert (Etxt : a ++ [] ++ pjfile_text (PJB (PEntity cs iw ctxt idl w2 strl) :: rest) =
                     a ++ ctext cs ++ iw ++ msg_text ctxt idl w2 strl ++ pjfile_text rest).
      { rewrite pjfile_text_cons. cbn [pjtext ptext]. norm_app. reflexivity. }
      rewrite Etxt in *.
      assert (Hl : length a < 2 -> contains s_License (ctext cs) = false).
      { intros Ha. simpl in Hlic. rewrite Nat.add_0_r in Hlic.
        replace (2 <=? length a) with false in Hlic by (symmetry; apply Nat.leb_gt; exact Ha).
        apply negb_true_iff in Hlic. exact Hlic. }
      pose proof (gn_po_entity a cs iw ctxt idl w2 strl (pjfile_text rest) Hb
                    (jitem_stops_rest rest Hrest) Hl) as G.
      cbv zeta in G. simpl pjents. rewrite !Nat.add_0_r.
      rewrite <- G. apply walk_step_po.
      * rewrite !app_length. unfold msg_text. rewrite !app_length. simpl. lia.
      * rewrite G. cbn [e_span snd].
        set (A0 := a ++ ctext cs ++ iw ++ msg_text ctxt idl w2 strl).
        assert (Hs2 : a ++ ctext cs ++ iw ++ msg_text ctxt idl w2 strl ++ pjfile_text rest
                      = A0 ++ [] ++ pjfile_text rest) by (unfold A0; norm_app; reflexivity).
        assert (El : length a + length (ctext cs) + length iw + length (ctxt_text ctxt) + 5 +
                     length (items_text idl) + length w2 + 6 + length (items_text strl) = length A0).
        { unfold A0, msg_text. rewrite !app_length. simpl. lia. }
        rewrite Hs2, El. apply (IH Hrest Hsep A0 []); [reflexivity| |].
        -- simpl length. rewrite Nat.add_0_r. apply pjlic_ge2. rewrite <- El. lia.
        -- rewrite Hs2 in Hf. rewrite <- El in *. rewrite !app_length in *. simpl in *. lia.
    + (* a garbage region: one junk entry, exactly the region *)
      unfold legal_pjblock in Hb. cbn [legal_pjblockb] in Hb.
      cbn [pjsep] in Hsep. apply andb_true_iff in Hsep. destruct Hsep as [Hnext Hsep].
      assert (Hpos : 1 <= length g) by (destruct g; [discriminate|simpl; lia]).
      apply pjlift_flush; [exact I| |].
      { rewrite pjfile_text_cons. cbn [pjtext]. apply head_ws_weak. apply garbage_head. exact Hb. }
      intros a Hlic fuel Hf. destruct fuel as [|f]; [lia|].
      rewrite pjfile_text_cons in *. cbn [pjtext] in *. cbn [app] in *.
      pose proof (gn_po_garbage a g (pjfile_text rest) Hb (pjunk_after_rest rest Hrest Hsep Hnext)) as G.
      cbn [length pjents flush app]. rewrite !Nat.add_0_r. rewrite <- G. apply walk_step_po.
      * rewrite !app_length. lia.
      * rewrite G. cbn [mk_junk e_span snd].
        assert (Hs : a ++ g ++ pjfile_text rest = (a ++ g) ++ [] ++ pjfile_text rest)
          by (rewrite <- app_assoc; reflexivity).
        rewrite Hs, <- app_length. apply (IH Hrest Hsep (a ++ g) []); [reflexivity| |].
        -- cbn [pjlic length] in Hlic. rewrite Nat.add_0_r in *. rewrite app_length. exact Hlic.
        -- rewrite <- Hs. rewrite !app_length in *. lia.
Qed.

(* ---- the block theorem with garbage regions ---------------------------------------------------------------- *)
Theorem blocks_po_junk : forall bs : list pjblock,
  Forall legal_pjblock bs -> pjadjacent_ok bs ->
  walk_po (pjfile_text bs) = Ok (pjentries_of bs).
Proof.
  intros bs Hleg Hadj. unfold pjadjacent_ok, pjadjacent_okb in Hadj. apply andb_true_iff in Hadj.
  destruct Hadj as [Hsep Hlic]. unfold walk_po, walk, pjentries_of.
  apply (walk_pjents bs Hleg Hsep [] [] eq_refl); [exact Hlic|]. simpl. lia.
Qed.
Print Assumptions blocks_po_junk.

(* ---- what the entries contain ----------------------------------------------------------------------------- *)
Fixpoint pjrecords_of (bs : list pjblock) : list C02BlocksPoVal.precord :=
  match bs with
  | [] => []
  | PJB (PEntity cs _ ctxt idl _ strl) :: rest =>
      (mkpov (C02BlocksPoVal.items_meaning idl)
             (match ctxt with Some (ci, _) => Some (C02BlocksPoVal.items_meaning ci) | None => None end)
             (C02BlocksPoVal.items_meaning strl),
       match cs with [] => None | _ => Some (ctext cs) end) :: pjrecords_of rest
  | _ :: rest => pjrecords_of rest
  end.
Fixpoint pjcomments_of (bs : list pjblock) : list str :=
  match bs with
  | [] => []
  | PJB (PComment cs) :: rest => ctext cs :: pjcomments_of rest
  | _ :: rest => pjcomments_of rest
  end.
Fixpoint pjgarbage_of (bs : list pjblock) : list str :=
  match bs with
  | [] => []
  | PJG g :: rest => g :: pjgarbage_of rest
  | _ :: rest => pjgarbage_of rest
  end.

(* for every entity: its evaluated string lists and its attached comment; the comment entries;
   the texts of the Junk entries *)
Definition pjviews (s : str) (es : list entry) (bs : list pjblock) : Prop :=
  map (fun e => (po_value_at s (fst (e_span e)), option_map (C02BlocksPoVal.span_text' s) (e_pre e)))
      (filter (C02BlocksPoVal.is_kind KEntity) es) =
    map (fun r => (Ok (fst r), snd r)) (pjrecords_of bs) /\
  map (fun e => C02BlocksPoVal.span_text' s (e_span e)) (filter (C02BlocksPoVal.is_kind KComment) es) =
    pjcomments_of bs /\
  map (fun e => C02BlocksPoVal.span_text' s (e_span e)) (filter (C02BlocksPoVal.is_kind KJunk) es) =
    pjgarbage_of bs.

Lemma pjents_views : forall bs, Forall legal_pjblock bs -> forall (a w : str),
  pjviews (a ++ w ++ pjfile_text bs) (pjents (length a) (length w) bs) bs.
Proof.
  induction bs as [|b rest IH]; intros Hleg a w; unfold pjviews.
  - simpl pjents. rewrite !C02BlocksPoVal.flush_no by discriminate. repeat split.
  - inversion Hleg as [|b' rest' Hb Hrest]; subst b' rest'. specialize (IH Hrest).
    set (s := a ++ w ++ pjfile_text (b :: rest)).
    destruct b as [[x|cs|cs iw ctxt idl w2 strl]|g].
    + assert (Hs : s = a ++ (w ++ x) ++ pjfile_text rest).
      { unfold s. rewrite pjfile_text_cons. cbn [pjtext ptext]. rewrite <- app_assoc. reflexivity. }
      simpl pjents. rewrite <- app_length, Hs. apply IH.
    + set (A0 := a ++ w ++ ctext cs).
      assert (Hs : s = A0 ++ [] ++ pjfile_text rest).
      { unfold s, A0. rewrite pjfile_text_cons. cbn [pjtext ptext]. norm_app. reflexivity. }
      assert (El : length a + length w + length (ctext cs) = length A0)
        by (unfold A0; rewrite !app_length; lia).
      destruct (IH A0 []) as [I1 [I2 I3]]. rewrite <- Hs in I1, I2, I3.
      change (length (@nil N)) with 0 in I1, I2, I3.
      simpl pjents. rewrite !filter_app, !C02BlocksPoVal.flush_no by discriminate. rewrite El.
      cbn [app filter C02BlocksPoVal.is_kind mk_comment e_kind map e_span]. rewrite I1, I2, I3.
      split; [reflexivity|split; [|reflexivity]]. cbn [pjcomments_of]. f_equal.
      assert (Hs' : s = (a ++ w) ++ ctext cs ++ pjfile_text rest)
        by (rewrite Hs; unfold A0; norm_app; reflexivity).
      unfold C02BlocksPoVal.span_text'. cbn [fst snd]. rewrite <- El, <- app_length, Hs'. apply slice_mid.
    + assert (Hb' := Hb). unfold legal_pjblock in Hb'. cbn [legal_pjblockb legal_pblockb] in Hb'.
      repeat (apply andb_true_iff in Hb'; let H := fresh "L" in destruct Hb' as [Hb' H]).
      set (K0 := a ++ w ++ ctext cs ++ iw).
      set (A0 := K0 ++ msg_text ctxt idl w2 strl).
      assert (Hs : s = A0 ++ [] ++ pjfile_text rest).
      { unfold s, A0, K0. rewrite pjfile_text_cons. cbn [pjtext ptext]. norm_app. reflexivity. }
      assert (Ek : length a + length w + length (ctext cs) + length iw = length K0)
        by (unfold K0; rewrite !app_length; lia).
      assert (Ee : length K0 + length (ctxt_text ctxt) + 5 + length (items_text idl) + length w2 + 6 +
                   length (items_text strl) = length A0).
      { unfold A0, msg_text. rewrite !app_length. simpl. lia. }
      destruct (IH A0 []) as [I1 [I2 I3]]. rewrite <- Hs in I1, I2, I3.
      change (length (@nil N)) with 0 in I1, I2, I3.
      simpl pjents. rewrite !filter_app, !C02BlocksPoVal.flush_no by discriminate. rewrite Ek, Ee.
      cbn [app filter C02BlocksPoVal.is_kind e_kind map e_span e_pre fst]. rewrite I1, I2, I3.
      split; [|split; reflexivity]. cbn [pjrecords_of map fst snd]. f_equal. f_equal.
      * assert (Hs' : s = K0 ++ msg_text ctxt idl w2 strl ++ pjfile_text rest)
          by (rewrite Hs; unfold A0; norm_app; reflexivity).
        rewrite Hs'. apply C02BlocksPoVal.po_value_ok; auto. apply jitem_stops_rest. exact Hrest.
      * destruct cs as [|c1 cs1]; [reflexivity|]. cbn [option_map]. f_equal.
        unfold C02BlocksPoVal.span_text'. cbn [fst snd].
        assert (Hs' : s = (a ++ w) ++ ctext (c1 :: cs1) ++ iw ++ msg_text ctxt idl w2 strl ++ pjfile_text rest)
          by (rewrite Hs; unfold A0, K0; norm_app; reflexivity).
        rewrite Hs', <- app_length. apply slice_mid.
    + set (A0 := a ++ w ++ g).
      assert (Hs : s = A0 ++ [] ++ pjfile_text rest).
      { unfold s, A0. rewrite pjfile_text_cons. cbn [pjtext]. norm_app. reflexivity. }
      assert (El : length a + length w + length g = length A0)
        by (unfold A0; rewrite !app_length; lia).
      destruct (IH A0 []) as [I1 [I2 I3]]. rewrite <- Hs in I1, I2, I3.
      change (length (@nil N)) with 0 in I1, I2, I3.
      simpl pjents. rewrite !filter_app, !C02BlocksPoVal.flush_no by discriminate. rewrite El.
      cbn [app filter C02BlocksPoVal.is_kind mk_junk e_kind map e_span]. rewrite I1, I2, I3.
      split; [reflexivity|split; [reflexivity|]]. cbn [pjgarbage_of]. f_equal.
      assert (Hs' : s = (a ++ w) ++ g ++ pjfile_text rest)
        by (rewrite Hs; unfold A0; norm_app; reflexivity).
      unfold C02BlocksPoVal.span_text'. cbn [fst snd]. rewrite <- El, <- app_length, Hs'. apply slice_mid.
Qed.

(* with garbage regions: every message is recovered with the values of its string lists and its
   attached comment, every standalone comment is a comment entry, and the Junk entries are, one
   for one and in order, exactly the garbage regions *)
Theorem roundtrip_po_junk : forall bs : list pjblock,
  Forall legal_pjblock bs -> pjadjacent_ok bs ->
  exists es, walk_po (pjfile_text bs) = Ok es /\ pjviews (pjfile_text bs) es bs.
Proof.
  intros bs Hleg Hadj. exists (pjentries_of bs). split; [apply blocks_po_junk; auto|].
  exact (pjents_views bs Hleg [] []).
Qed.
Print Assumptions roundtrip_po_junk.

(* ---- ONE garbage region between two block lists ---------------------------------------------------------- *)
Definition pwith_garbage (bs1 : list pblock) (g : str) (bs2 : list pblock) : list pjblock :=
  map PJB bs1 ++ PJG g :: map PJB bs2.

Lemma pjfile_text_app : forall x y, pjfile_text (x ++ y) = pjfile_text x ++ pjfile_text y.
Proof. intros. unfold pjfile_text. rewrite map_app, concat_app. reflexivity. Qed.

Lemma pjfile_text_PJB : forall bs, pjfile_text (map PJB bs) = pfile_text bs.
Proof. induction bs as [|b bs IH]; [reflexivity|]. rewrite map_cons, pjfile_text_cons, IH. reflexivity. Qed.

Lemma pj_of_PJB : forall bs, pjrecords_of (map PJB bs) = C02BlocksPoVal.precords_of bs /\
  pjcomments_of (map PJB bs) = C02BlocksPoVal.pcomments_of bs.
Proof.
  induction bs as [|[x|cs|cs iw ctxt idl w2 strl] bs [I1 I2]]; [repeat split| | |];
    cbn [map pjrecords_of pjcomments_of C02BlocksPoVal.precords_of C02BlocksPoVal.pcomments_of];
    rewrite ?I1, ?I2; repeat split.
Qed.

Lemma pjrecords_app : forall x y, pjrecords_of (x ++ y) = pjrecords_of x ++ pjrecords_of y.
Proof.
  induction x as [|[[x0|cs|cs iw ctxt idl w2 strl]|g] x IH]; intros y; simpl; rewrite ?IH; reflexivity.
Qed.
Lemma pjcomments_app : forall x y, pjcomments_of (x ++ y) = pjcomments_of x ++ pjcomments_of y.
Proof.
  induction x as [|[[x0|cs|cs iw ctxt idl w2 strl]|g] x IH]; intros y; simpl; rewrite ?IH; reflexivity.
Qed.

(* the spans of the Junk entries *)
Fixpoint pjspans (off w : nat) (bs : list pjblock) : list span :=
  match bs with
  | [] => []
  | PJB (PBlank x) :: rest => pjspans off (w + length x) rest
  | PJB (PComment cs) :: rest => pjspans (off + w + length (ctext cs)) 0 rest
  | PJB (PEntity cs iw ctxt idl w2 strl) :: rest =>
      pjspans (off + w + length (ctext cs) + length iw + length (ctxt_text ctxt) + 5 + length (items_text idl) +
               length w2 + 6 + length (items_text strl)) 0 rest
  | PJG g :: rest => (off + w, off + w + length g) :: pjspans (off + w + length g) 0 rest
  end.

Lemma pjents_junk : forall bs off w,
  filter (C02BlocksPoVal.is_kind KJunk) (pjents off w bs) = map mk_junk (pjspans off w bs).
Proof.
  induction bs as [|[[x|cs|cs iw ctxt idl w2 strl]|g] rest IH]; intros off w;
    cbn [pjents pjspans]; rewrite ?filter_app, ?C02BlocksPoVal.flush_no by discriminate;
    cbn [app filter C02BlocksPoVal.is_kind mk_comment mk_junk e_kind map]; rewrite ?IH; reflexivity.
Qed.

Lemma pjspans_PJB : forall bs off w, pjspans off w (map PJB bs) = [].
Proof.
  induction bs as [|[x|cs|cs iw ctxt idl w2 strl] bs IH]; intros off w; cbn [map pjspans]; auto.
Qed.

Lemma pjspans_prefix : forall bs off w R,
  exists off' w', off' + w' = off + w + length (pfile_text bs) /\
                  pjspans off w (map PJB bs ++ R) = pjspans off' w' R.
Proof.
  induction bs as [|b bs IH]; intros off w R.
  - exists off, w. split; [simpl; lia|reflexivity].
  - rewrite pfile_text_cons, app_length.
    destruct b as [x|cs|cs iw ctxt idl w2 strl]; cbn [map app pjspans ptext].
    + destruct (IH off (w + length x) R) as [o [w' [E1 E2]]]. exists o, w'. split; [lia|exact E2].
    + destruct (IH (off + w + length (ctext cs)) 0 R) as [o [w' [E1 E2]]]. exists o, w'.
      split; [lia|exact E2].
    + destruct (IH (off + w + length (ctext cs) + length iw + length (ctxt_text ctxt) + 5 +
                    length (items_text idl) + length w2 + 6 + length (items_text strl)) 0 R)
        as [o [w' [E1 E2]]].
      exists o, w'. split; [|exact E2]. unfold msg_text. rewrite !app_length. simpl. lia.
Qed.

(* a file printed from two block lists with ONE garbage region between them: every message (with
   its values and attached comment) and every standalone comment is recovered unchanged, and
   there is exactly one Junk entry, whose span is exactly the region *)
Theorem po_junk_one_region : forall (bs1 : list pblock) (g : str) (bs2 : list pblock),
  Forall legal_pblock bs1 -> legal_pgarbage g = true -> Forall legal_pblock bs2 ->
  pjadjacent_ok (pwith_garbage bs1 g bs2) ->
  let s := pfile_text bs1 ++ g ++ pfile_text bs2 in
  let p := length (pfile_text bs1) in
  exists es, walk_po s = Ok es /\
    map (fun e => (po_value_at s (fst (e_span e)), option_map (C02BlocksPoVal.span_text' s) (e_pre e)))
        (filter (C02BlocksPoVal.is_kind KEntity) es) =
      map (fun r => (Ok (fst r), snd r)) (C02BlocksPoVal.precords_of bs1 ++ C02BlocksPoVal.precords_of bs2) /\
    map (fun e => C02BlocksPoVal.span_text' s (e_span e)) (filter (C02BlocksPoVal.is_kind KComment) es) =
      C02BlocksPoVal.pcomments_of bs1 ++ C02BlocksPoVal.pcomments_of bs2 /\
    filter (C02BlocksPoVal.is_kind KJunk) es = [mk_junk (p, p + length g)] /\
    slice s p (p + length g) = g.
Proof.
  intros bs1 g bs2 H1 Hg H2 Hadj s p.
  assert (Hleg : Forall legal_pjblock (pwith_garbage bs1 g bs2)).
  { unfold pwith_garbage. apply Forall_app. split; [|constructor; [exact Hg|]];
      rewrite Forall_map; assumption. }
  assert (Es : pjfile_text (pwith_garbage bs1 g bs2) = s).
  { unfold pwith_garbage, s. rewrite pjfile_text_app, pjfile_text_cons, !pjfile_text_PJB. reflexivity. }
  exists (pjentries_of (pwith_garbage bs1 g bs2)).
  pose proof (blocks_po_junk _ Hleg Hadj) as Hw. rewrite Es in Hw.
  destruct (pjents_views _ Hleg [] []) as [V1 [V2 _]]. cbn [app length] in V1, V2.
  rewrite Es in V1, V2. fold (pjentries_of (pwith_garbage bs1 g bs2)) in V1, V2.
  destruct (pj_of_PJB bs1) as [A1 A2]. destruct (pj_of_PJB bs2) as [B1 B2].
  split; [exact Hw|]. split; [|split; [|split]].
  - rewrite V1. unfold pwith_garbage. rewrite pjrecords_app. cbn [pjrecords_of]. rewrite A1, B1. reflexivity.
  - rewrite V2. unfold pwith_garbage. rewrite pjcomments_app. cbn [pjcomments_of]. rewrite A2, B2. reflexivity.
  - unfold pjentries_of. rewrite pjents_junk. unfold pwith_garbage.
    destruct (pjspans_prefix bs1 0 0 (PJG g :: map PJB bs2)) as [o [w' [E1 E2]]].
    rewrite E2. cbn [pjspans]. rewrite pjspans_PJB. cbn [map]. simpl in E1. rewrite E1. reflexivity.
  - unfold s, p. apply slice_mid.
Qed.
Print Assumptions po_junk_one_region.

Example pjx_one_region :
  let bs1 := [px_e1] in let g := A [106; 117; 110; 107; 32; 116; 101; 120; 116; 10] in let bs2 := [px_e2; px_b; px_e3] in
  Forall legal_pblock bs1 /\ legal_pgarbage g = true /\ Forall legal_pblock bs2 /\
  pjadjacent_ok (pwith_garbage bs1 g bs2) /\ length g = 10.
Proof.
  split; [repeat constructor|]. split; [reflexivity|]. split; [repeat constructor|].
  split; [vm_compute; reflexivity|]. reflexivity.
Qed.
