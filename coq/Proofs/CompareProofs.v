(* Proofs about Model/Compare.v.  Route:
   (1) AddRemove over ARBITRARY key sequences (duplicates allowed) yields every
       key of either side exactly once, labelled by membership (from the C20
       lemmas keys_order_map / sort_perm / addremove_labels);
   (2) [run] adds up the effects of the iterations;
   (3) the effect of one iteration is decided by boolean predicates on
       (label, key) phrased with the LAST entity of that key;
   (4) so every counter is the size of a duplicate-free key list with an
       explicit membership condition. *)
From Coq Require Import ZArith NArith List Bool Arith Lia Permutation.
From CL Require Import Base.Sx Base.Res Base.Str Model.AddRemove Proofs.AddRemoveProofs Proofs.AddRemoveSpec
  Model.Compare Proofs.CompareSpec.
Import ListNotations.
Local Open Scope nat_scope.

(* ---- generic list facts -------------------------------------------------- *)
Lemma list_sum_filter {A} (p : A -> bool) (w : A -> nat) (xs : list A) :
  list_sum (map (fun x => if p x then w x else 0) xs) = list_sum (map w (filter p xs)).
Proof.
  induction xs as [|x xs IH]; [reflexivity|].
  cbn [map filter]. destruct (p x); cbn [map]; change (list_sum (?a :: ?l)) with (a + list_sum l);
    rewrite IH; reflexivity.
Qed.

Lemma list_sum_ones {A} (xs : list A) : list_sum (map (fun _ => 1) xs) = length xs.
Proof.
  induction xs; [reflexivity|]. cbn [map length].
  change (list_sum (?a :: ?l)) with (a + list_sum l). rewrite IHxs. reflexivity.
Qed.

Lemma concat_filter {A B} (p : A -> bool) (g : A -> B) (xs : list A) :
  concat (map (fun x => if p x then [g x] else []) xs) = map g (filter p xs).
Proof.
  induction xs as [|x xs IH]; cbn; [reflexivity|].
  destruct (p x); cbn; rewrite IH; reflexivity.
Qed.

Lemma Forall2_sum {A B} (R : A -> B -> Prop) (f : B -> nat) (w : A -> nat) xs ds :
  Forall2 R xs ds -> (forall x d, R x d -> f d = w x) ->
  list_sum (map f ds) = list_sum (map w xs).
Proof.
  intros H Hf. induction H as [|x d xs ds Hxd _ IH]; [reflexivity|].
  cbn [map]. change (list_sum (?a :: ?l)) with (a + list_sum l).
  rewrite IH, (Hf x d Hxd). reflexivity.
Qed.

Lemma Forall2_concat {A B C} (R : A -> B -> Prop) (g : B -> list C) (w : A -> list C) xs ds :
  Forall2 R xs ds -> (forall x d, R x d -> g d = w x) ->
  concat (map g ds) = concat (map w xs).
Proof.
  intros H Hg. induction H as [|x d xs ds Hxd _ IH]; cbn; [reflexivity|].
  rewrite IH, (Hg x d Hxd). reflexivity.
Qed.

Lemma NoDup_map_filter {A B} (g : A -> B) (p : A -> bool) (xs : list A) :
  NoDup (map g xs) -> NoDup (map g (filter p xs)).
Proof.
  induction xs as [|x xs IH]; cbn; intros H; [constructor|].
  inversion H as [|? ? Hx Hxs]; subst.
  destruct (p x); cbn; [|apply IH; exact Hxs].
  constructor; [|apply IH; exact Hxs].
  intros Hin. apply Hx. apply in_map_iff in Hin. destruct Hin as (y & Hy & Hyin).
  apply filter_In in Hyin. apply in_map_iff. exists y. tauto.
Qed.

Lemma list_sum_perm (l l' : list nat) : Permutation l l' -> list_sum l = list_sum l'.
Proof.
  induction 1 as [|x l l' _ IH|x y l|l l' l'' _ IH1 _ IH2].
  - reflexivity.
  - change (x + list_sum l = x + list_sum l'). rewrite IH. reflexivity.
  - change (y + (x + list_sum l) = x + (y + list_sum l)). lia.
  - rewrite IH1. exact IH2.
Qed.

Lemma fold_left_sum {A} (w : A -> nat) (xs : list A) (a : nat) :
  fold_left (fun acc e => acc + w e) xs a = a + list_sum (map w xs).
Proof.
  revert a; induction xs as [|x xs IH]; intros a; cbn [fold_left map]; [cbn; lia|].
  change (list_sum (?b :: ?l)) with (b + list_sum l). rewrite IH. lia.
Qed.

Section Proofs.
Context {K V : Type} (eqb : K -> K -> bool) (veq : V -> V -> bool) (keyname : K -> bool).
Hypothesis eqb_eq : forall a b, eqb a b = true <-> a = b.

Notation cent := (@cent K V).
Notation mem := (mem eqb).
Notation addnew := (addnew eqb).
Notation lastw := (last_with eqb (@c_key K V)).

(* ---- (1) AddRemove on arbitrary sequences --------------------------------- *)
Lemma addnew_In acc l k : In k (addnew acc l) <-> In k acc \/ In k l.
Proof.
  revert acc; induction l as [|x l IH]; intros acc; cbn.
  - tauto.
  - rewrite IH. destruct (mem x acc) eqn:E.
    + apply (mem_In eqb eqb_eq) in E. split; [tauto|].
      intros [H|[H|H]]; subst; auto.
    + rewrite in_app_iff. cbn. tauto.
Qed.

Lemma addnew_NoDup acc l : NoDup acc -> NoDup (addnew acc l).
Proof.
  revert acc; induction l as [|x l IH]; intros acc H; cbn; [exact H|].
  apply IH. destruct (mem x acc) eqn:E; [exact H|].
  apply (mem_nIn eqb eqb_eq) in E.
  apply NoDup_app_disjoint; [exact H|constructor; [intros []|constructor]|].
  intros y Hy [Hx|[]]. subst. contradiction.
Qed.

Lemma steps_perm l r :
  Permutation (map snd (addremove eqb l r)) (addnew (addnew [] l) r).
Proof.
  rewrite addremove_keys. unfold keys. rewrite (sort_perm (order_map eqb l r)).
  fold (keys (order_map eqb l r)). rewrite (keys_order_map eqb). reflexivity.
Qed.

(* every key of either sequence exactly once, whatever the repetitions *)
Lemma steps_NoDup l r : NoDup (map snd (addremove eqb l r)).
Proof.
  eapply Permutation_NoDup; [symmetry; apply steps_perm|].
  apply addnew_NoDup, addnew_NoDup. constructor.
Qed.

Lemma steps_In l r k : In k (map snd (addremove eqb l r)) <-> In k l \/ In k r.
Proof.
  split.
  - intros H. eapply Permutation_in in H; [|apply steps_perm].
    apply addnew_In in H. destruct H as [H|H]; [|auto].
    apply addnew_In in H. destruct H as [[]|H]. auto.
  - intros H. eapply Permutation_in; [symmetry; apply steps_perm|].
    apply addnew_In. destruct H as [H|H]; [left|right; exact H].
    apply addnew_In. right; exact H.
Qed.

Lemma label_Delete l r k : label_of eqb l r k = Delete <-> In k l /\ ~ In k r.
Proof.
  unfold label_of. destruct (mem k l) eqn:El; [destruct (mem k r) eqn:Er|].
  - apply (mem_In eqb eqb_eq) in Er. split; [discriminate|tauto].
  - apply (mem_In eqb eqb_eq) in El. apply (mem_nIn eqb eqb_eq) in Er. tauto.
  - apply (mem_nIn eqb eqb_eq) in El. split; [discriminate|tauto].
Qed.

Lemma label_Add l r k : label_of eqb l r k = Add <-> ~ In k l.
Proof.
  unfold label_of. destruct (mem k l) eqn:El; [destruct (mem k r) eqn:Er|].
  - apply (mem_In eqb eqb_eq) in El. split; [discriminate|tauto].
  - apply (mem_In eqb eqb_eq) in El. split; [discriminate|tauto].
  - apply (mem_nIn eqb eqb_eq) in El. tauto.
Qed.

Lemma label_Equal l r k : label_of eqb l r k = Equal <-> In k l /\ In k r.
Proof.
  unfold label_of. destruct (mem k l) eqn:El; [destruct (mem k r) eqn:Er|].
  - apply (mem_In eqb eqb_eq) in El, Er. tauto.
  - apply (mem_nIn eqb eqb_eq) in Er. split; [discriminate|tauto].
  - apply (mem_nIn eqb eqb_eq) in El. split; [discriminate|tauto].
Qed.

(* the keys selected by a predicate on (label, key): a duplicate-free list
   with an explicit membership condition *)
Definition sel (p : label * K -> bool) (l r : list K) : list K :=
  map snd (filter p (addremove eqb l r)).

Lemma sel_NoDup p l r : NoDup (sel p l r).
Proof. apply NoDup_map_filter, steps_NoDup. Qed.

Lemma sel_In p l r k :
  In k (sel p l r) <-> (In k l \/ In k r) /\ p (label_of eqb l r k, k) = true.
Proof.
  unfold sel. rewrite in_map_iff. split.
  - intros ([lab k'] & Hk & Hin). cbn in Hk. subst k'.
    apply filter_In in Hin. destruct Hin as [Hin Hp].
    pose proof (addremove_labels eqb l r lab k Hin) as ->.
    split; [|exact Hp]. apply steps_In. apply in_map_iff. exists (label_of eqb l r k, k). auto.
  - intros [Hk Hp]. apply steps_In in Hk. apply in_map_iff in Hk.
    destruct Hk as ([lab k'] & Hk & Hin). cbn in Hk. subst k'.
    pose proof (addremove_labels eqb l r lab k Hin) as ->.
    exists (label_of eqb l r k, k). split; [reflexivity|]. apply filter_In. auto.
Qed.

(* ---- last entity ---------------------------------------------------------- *)
Lemma last_ent_iff (ents : list cent) k e : lastw k ents = Some e <-> last_ent ents k e.
Proof. apply (last_with_spec eqb eqb_eq). Qed.

Lemma lastw_Some_In (ents : list cent) k e : lastw k ents = Some e -> In e ents /\ c_key e = k.
Proof.
  intros H. apply last_ent_iff in H. destruct H as (pre & post & -> & Hk & _).
  split; [apply in_or_app; right; left; reflexivity|exact Hk].
Qed.

Lemma lastw_In (ents : list cent) k : In k (map c_key ents) -> exists e, lastw k ents = Some e.
Proof.
  intros H. destruct (kt_getitem_total eqb eqb_eq c_key k ents H) as [e He].
  rewrite (kt_getitem_last eqb c_key) in He.
  destruct (lastw k ents) as [e'|]; [eauto|discriminate].
Qed.

Lemma lastw_None (ents : list cent) k : lastw k ents = None -> ~ In k (map c_key ents).
Proof. intros H Hin. destruct (lastw_In ents k Hin) as [e He]. congruence. Qed.

Lemma last_ent_unique (ents : list cent) k e e' :
  last_ent ents k e -> last_ent ents k e' -> e = e'.
Proof. intros H H'. apply last_ent_iff in H, H'. congruence. Qed.

Lemma words_at_last (ents : list cent) k e : last_ent ents k e -> words_at eqb ents k = c_words e.
Proof. intros H. apply last_ent_iff in H. unfold words_at. rewrite H. reflexivity. Qed.

(* ---- findDuplicates -------------------------------------------------------- *)
Definition kcount (k : K) (l : list K) : nat := length (filter (eqb k) l).

Fixpoint cget (k : K) (m : list (K * nat)) : nat :=
  match m with
  | [] => 0
  | (k', n) :: m' => if eqb k k' then n else cget k m'
  end.

Lemma eqb_sym_false a b : eqb a b = false -> eqb b a = false.
Proof.
  intros H. destruct (eqb b a) eqn:E; [|reflexivity].
  apply eqb_eq in E. subst. rewrite (eqb_refl eqb eqb_eq) in H. discriminate.
Qed.

Lemma cget_counter_add x k m :
  cget x (counter_add eqb k m) = cget x m + (if eqb x k then 1 else 0).
Proof.
  induction m as [|[k' n] m IH]; cbn.
  - destruct (eqb x k); reflexivity.
  - destruct (eqb k k') eqn:E; cbn.
    + apply eqb_eq in E. subst k'. destruct (eqb x k); lia.
    + destruct (eqb x k') eqn:E'; [|exact IH].
      apply eqb_eq in E'. subst k'. rewrite (eqb_sym_false _ _ E). lia.
Qed.

Lemma keys_counter_add k (m : list (K * nat)) :
  map fst (counter_add eqb k m) = if mem k (map fst m) then map fst m else map fst m ++ [k].
Proof.
  induction m as [|[k' n] m IH]; cbn; [reflexivity|].
  destruct (eqb k k'); cbn; [reflexivity|]. rewrite IH.
  destruct (mem k (map fst m)); reflexivity.
Qed.

Lemma counter_fold l : forall m,
  map fst (fold_left (fun m k => counter_add eqb k m) l m) = addnew (map fst m) l /\
  forall x, cget x (fold_left (fun m k => counter_add eqb k m) l m) = cget x m + kcount x l.
Proof.
  induction l as [|k l IH]; intros m; cbn.
  - split; [reflexivity|]. intros x. unfold kcount. cbn. lia.
  - destruct (IH (counter_add eqb k m)) as [IH1 IH2]. split.
    + rewrite IH1, keys_counter_add. reflexivity.
    + intros x. rewrite IH2, cget_counter_add. unfold kcount. cbn.
      destruct (eqb x k); cbn; lia.
Qed.

Lemma cget_In (m : list (K * nat)) : NoDup (map fst m) ->
  forall k n, In (k, n) m <-> In k (map fst m) /\ cget k m = n.
Proof.
  induction m as [|[k' c] m IH]; cbn; intros Hnd k n.
  - tauto.
  - inversion Hnd as [|? ? Hk' Hm]; subst. destruct (eqb k k') eqn:E.
    + apply eqb_eq in E. subst k'. split.
      * intros [H|H]; [inversion H; auto|].
        exfalso. apply Hk'. apply in_map_iff. exists (k, n). auto.
      * intros [_ ->]. auto.
    + rewrite (IH Hm). split.
      * intros [H|H]; [inversion H; subst; rewrite (eqb_refl eqb eqb_eq) in E; discriminate|tauto].
      * intros [[H|H] Hc]; [subst; rewrite (eqb_refl eqb eqb_eq) in E; discriminate|tauto].
Qed.

Lemma kcount_pos k l : 0 < kcount k l <-> In k l.
Proof.
  unfold kcount. induction l as [|x l IH]; cbn; [split; [lia|tauto]|].
  destruct (eqb k x) eqn:E; cbn.
  - apply eqb_eq in E. subst. split; [auto|lia].
  - rewrite IH. split; [auto|]. intros [H|H]; [|exact H].
    subst. rewrite (eqb_refl eqb eqb_eq) in E. discriminate.
Qed.

(* findDuplicates yields each key occurring more than once, once, with its count *)
Theorem find_duplicates_spec (ents : list cent) :
  NoDup (map fst (find_duplicates eqb ents)) /\
  forall k n, In (k, n) (find_duplicates eqb ents) <->
              n = kcount k (map c_key ents) /\ 1 < n.
Proof.
  unfold find_duplicates, counter.
  destruct (counter_fold (map c_key ents) []) as [Hk Hc]. cbn in Hk, Hc.
  set (m := fold_left _ _ _) in *.
  assert (Hnd : NoDup (map fst m)) by (rewrite Hk; apply addnew_NoDup; constructor).
  split; [apply NoDup_map_filter; exact Hnd|].
  intros k n. rewrite filter_In, (cget_In m Hnd), Hk, Hc. cbn [snd].
  rewrite addnew_In. split.
  - intros [[_ <-] Hn]. split; [reflexivity|]. apply Nat.ltb_lt. exact Hn.
  - intros [-> Hn]. split; [split; [|reflexivity]|apply Nat.ltb_lt; exact Hn].
    right. apply kcount_pos. lia.
Qed.

(* ---- (2) run adds up the effects ------------------------------------------ *)
Section Run.
Context (flt : K -> verdict) (chk : cent -> cent -> list finding) (merge : bool)
        (ref l10n : list cent).

Notation iteration := (iteration eqb veq keyname flt chk merge ref l10n).
Notation run := (run eqb veq keyname flt chk merge ref l10n).
Notation acc := (@acc K).

(* [iter x d]: d is the effect of the iteration for x, whatever [skips] held before *)
Definition iter (x : label * K) (d : acc) : Prop := exists sk, iteration sk x = Ok d.

Lemma run_spec (steps : list (label * K)) : forall (a r : acc),
  run a steps = Ok r ->
  exists ds, Forall2 iter steps ds /\
             r = fold_left acc_app ds a.
Proof.
  induction steps as [|x steps IH]; intros a r H; cbn in H.
  - inversion H; subst. exists []. split; [constructor|reflexivity].
  - destruct (iteration (a_skips a) x) as [d|t] eqn:E; [|discriminate].
    destruct (IH _ _ H) as (ds & HF & ->).
    exists (d :: ds). split; [constructor; [exists (a_skips a); exact E|assumption]|reflexivity].
Qed.

Lemma run_total (steps : list (label * K)) : forall a : acc,
  (forall x, In x steps -> forall sk, exists d, iteration sk x = Ok d) ->
  exists r, run a steps = Ok r.
Proof.
  induction steps as [|x steps IH]; intros a H; cbn; [eauto|].
  destruct (H x (or_introl eq_refl) (a_skips a)) as [d ->].
  apply IH. intros y Hy. apply H. right; exact Hy.
Qed.

Lemma fold_nat (f : acc -> nat) :
  (forall a d, f (acc_app a d) = f a + f d) ->
  forall ds a, f (fold_left acc_app ds a) = f a + list_sum (map f ds).
Proof.
  intros Hf. induction ds as [|d ds IH]; intros a; cbn [fold_left map]; [cbn; lia|].
  change (list_sum (?b :: ?l)) with (b + list_sum l). rewrite IH, Hf. lia.
Qed.

Lemma fold_list {C} (g : acc -> list C) :
  (forall a d, g (acc_app a d) = g a ++ g d) ->
  forall ds a, g (fold_left acc_app ds a) = g a ++ concat (map g ds).
Proof.
  intros Hg. induction ds as [|d ds IH]; intros a; cbn; [rewrite app_nil_r; reflexivity|].
  rewrite IH, Hg, app_assoc. reflexivity.
Qed.

(* ---- (3) the effect of one iteration ---------------------------------------- *)
Definition is_verr (v : verdict) : bool := match v with VError => true | _ => false end.
Definition is_vwarn (v : verdict) : bool := match v with VWarning => true | _ => false end.

Definition refjunk (k : K) : bool :=
  match lastw k ref with Some e => c_junk e | None => true end.
Definition l10njunk (k : K) : bool :=
  match lastw k l10n with Some e => c_junk e | None => true end.
Definition same (k : K) : bool :=
  match lastw k ref, lastw k l10n with
  | Some a, Some b => equals eqb veq a b
  | _, _ => false
  end.

Definition p_absent (x : label * K) : bool :=        (* missingEntity is notified *)
  match fst x with Delete => negb (refjunk (snd x)) | _ => false end.
Definition p_missing (x : label * K) : bool := p_absent x && is_verr (flt (snd x)).
Definition p_report (x : label * K) : bool := p_absent x && is_vwarn (flt (snd x)).
Definition p_extra (x : label * K) : bool :=         (* obsoleteEntity is notified *)
  match fst x with Add => negb (l10njunk (snd x)) | _ => false end.
Definition p_obsolete (x : label * K) : bool := p_extra x && negb (is_ignore (flt (snd x))).
Definition p_shared (x : label * K) : bool :=
  match fst x with Equal => true | _ => false end.
Definition p_keys (x : label * K) : bool := p_shared x && keyname (snd x).
Definition p_unchanged (x : label * K) : bool :=
  p_shared x && negb (keyname (snd x)) && same (snd x).
Definition p_changed (x : label * K) : bool :=
  p_shared x && negb (keyname (snd x)) && negb (same (snd x)).

Definition b2n (b : bool) : nat := if b then 1 else 0.
Definition wref (k : K) : nat := words_at eqb ref k.

Lemma getitem_lastw k (ents : list cent) :
  getitem eqb k ents = match lastw k ents with Some e => Ok e | None => Raise TypeError end.
Proof. apply (kt_getitem_last eqb c_key). Qed.

Lemma iteration_counts x d : iter x d ->
  s_missing (a_stats d) = b2n (p_missing x) /\
  s_missing_w (a_stats d) = (if p_missing x then wref (snd x) else 0) /\
  a_missings d = (if p_missing x then [snd x] else []) /\
  s_report (a_stats d) = b2n (p_report x) /\
  s_obsolete (a_stats d) = b2n (p_obsolete x) /\
  s_keys (a_stats d) = b2n (p_keys x) /\
  s_unchanged (a_stats d) = b2n (p_unchanged x) /\
  s_unchanged_w (a_stats d) = (if p_unchanged x then wref (snd x) else 0) /\
  s_changed (a_stats d) = b2n (p_changed x) /\
  s_changed_w (a_stats d) = (if p_changed x then wref (snd x) else 0).
Proof.
  intros [sk Hit]; revert Hit.
  destruct x as [lab k]. unfold iteration, Compare.iteration.
  rewrite !getitem_lastw.
  unfold p_missing, p_report, p_obsolete, p_keys, p_unchanged, p_changed, p_absent, p_extra,
    p_shared, refjunk, l10njunk, same, wref, words_at, b2n. cbn [fst snd].
  destruct lab; cbn [bind].
  - (* Equal *)
    destruct (lastw k ref) as [a|]; cbn [bind]; [|discriminate].
    destruct (lastw k l10n) as [b|]; cbn [bind]; [|discriminate].
    destruct (keyname k); cbn [bind negb andb].
    + intros H; inversion H; subst; cbn. repeat split; reflexivity.
    + destruct (c_junk a); cbn [bind]; [discriminate|].
      destruct (equals eqb veq a b); cbn [bind negb andb];
        intros H; inversion H; subst; cbn; repeat split; reflexivity.
  - (* Delete *)
    destruct (lastw k ref) as [a|]; cbn [bind]; [|discriminate].
    destruct (c_junk a); cbn [negb andb].
    + intros H; inversion H; subst; cbn. repeat split; reflexivity.
    + destruct (flt k); intros H; inversion H; subst; cbn; repeat split; reflexivity.
  - (* Add *)
    destruct (lastw k l10n) as [b|]; cbn [bind]; [|discriminate].
    destruct (c_junk b); cbn [negb andb].
    + intros H; inversion H; subst; cbn. repeat split; reflexivity.
    + destruct (flt k); intros H; inversion H; subst; cbn; repeat split; reflexivity.
Qed.

(* the notifications of one iteration *)
Lemma iteration_notes x d : iter x d ->
  forall k, (In (NMissing k) (a_notes d) <-> (snd x = k /\ p_absent x = true)) /\
            (In (NObsolete k) (a_notes d) <-> (snd x = k /\ p_extra x = true)).
Proof.
  intros [sk Hit]; revert Hit.
  destruct x as [lab k0]. unfold iteration, Compare.iteration.
  rewrite !getitem_lastw.
  unfold p_absent, p_extra, refjunk, l10njunk. cbn [fst snd].
  destruct lab; cbn [bind].
  - destruct (lastw k0 ref) as [a|]; cbn [bind]; [|discriminate].
    destruct (lastw k0 l10n) as [b|]; cbn [bind]; [|discriminate].
    assert (Hn : forall k (fs : list finding),
               ~ In (NMissing k) (map (fun f => NCheck (f_error f) (f_msg f)) fs) /\
               ~ In (@NObsolete K k) (map (fun f => NCheck (f_error f) (f_msg f)) fs)).
    { intros k fs. split; intros H; apply in_map_iff in H; destruct H as (f & Hf & _);
        discriminate. }
    destruct (keyname k0); cbn [bind].
    + intros H; inversion H; subst; cbn. intros k. destruct (Hn k (chk a b)).
      split; split; try tauto; intros [_ Hf]; discriminate.
    + destruct (c_junk a); cbn [bind]; [discriminate|].
      destruct (equals eqb veq a b); cbn [bind]; intros H; inversion H; subst; cbn;
        intros k; destruct (Hn k (chk a b));
        split; split; try tauto; intros [_ Hf]; discriminate.
  - destruct (lastw k0 ref) as [a|]; cbn [bind]; [|discriminate].
    destruct (c_junk a); cbn [negb].
    + intros H; inversion H; subst; cbn. intros k.
      split; split; try (intros [Hf|[]]; discriminate); intros [_ Hf]; discriminate.
    + destruct (flt k0); intros H; inversion H; subst; cbn; intros k;
        (split; split;
         [intros [Hf|[]]; inversion Hf; auto | intros [-> _]; auto
         | intros [Hf|[]]; discriminate | intros [_ Hf]; discriminate]).
  - destruct (lastw k0 l10n) as [b|]; cbn [bind]; [|discriminate].
    destruct (c_junk b); cbn [negb].
    + intros H; inversion H; subst; cbn. intros k.
      split; split; try (intros [Hf|[]]; discriminate); intros [_ Hf]; discriminate.
    + destruct (flt k0); intros H; inversion H; subst; cbn; intros k;
        (split; split;
         [intros [Hf|[]]; discriminate | intros [_ Hf]; discriminate
         | intros [Hf|[]]; inversion Hf; auto | intros [-> _]; auto]).
Qed.

(* when does an iteration raise?  only through Junk.equals *)
Lemma iteration_ok lab k :
  In k (map c_key ref) \/ In k (map c_key l10n) ->
  lab = label_of eqb (map c_key ref) (map c_key l10n) k ->
  (lab = Equal -> refjunk k = true -> keyname k = true) ->
  forall sk, exists d, iteration sk (lab, k) = Ok d.
Proof.
  intros Hin Hlab Hj sk. unfold iteration, Compare.iteration. rewrite !getitem_lastw.
  destruct lab; cbn [bind].
  - symmetry in Hlab. apply label_Equal in Hlab. destruct Hlab as [Hr Hl].
    destruct (lastw_In ref k Hr) as [a Ha]. destruct (lastw_In l10n k Hl) as [b Hb].
    rewrite Ha, Hb. cbn [bind]. unfold refjunk in Hj. rewrite Ha in Hj.
    destruct (keyname k); cbn [bind]; [eauto|].
    destruct (c_junk a); [specialize (Hj eq_refl eq_refl); discriminate|].
    destruct (equals eqb veq a b); cbn [bind]; eauto.
  - symmetry in Hlab. apply label_Delete in Hlab. destruct Hlab as [Hr _].
    destruct (lastw_In ref k Hr) as [a Ha]. rewrite Ha. cbn [bind].
    destruct (c_junk a); [eauto|]. destruct (flt k); eauto.
  - symmetry in Hlab. apply label_Add in Hlab.
    destruct Hin as [Hin|Hin]; [contradiction|].
    destruct (lastw_In l10n k Hin) as [b Hb]. rewrite Hb. cbn [bind].
    destruct (c_junk b); [eauto|]. destruct (flt k); eauto.
Qed.

(* ---- (4) compare ------------------------------------------------------------- *)
Notation compare := (compare eqb veq keyname flt chk merge ref l10n).
Notation kr := (map (@c_key K V) ref).
Notation kl := (map (@c_key K V) l10n).
Notation steps := (addremove eqb kr kl).

Definition dup_notes : list (@note K) :=
  map (fun kn => NDup false (fst kn) (snd kn)) (find_duplicates eqb ref) ++
  map (fun kn => NDup true (fst kn) (snd kn)) (find_duplicates eqb l10n).

Lemma compare_unfold r : compare = Ok r ->
  exists ds, Forall2 iter steps ds /\
             r = fold_left acc_app ds (notes_only dup_notes).
Proof. unfold Compare.compare. intros H. apply run_spec in H. exact H. Qed.

(* a counter that starts at 0 and to which every iteration adds [b2n (p x)] *)
Lemma counter_is_card (f : acc -> nat) (p : label * K -> bool) r :
  compare = Ok r ->
  (forall a d, f (acc_app a d) = f a + f d) -> f (notes_only dup_notes) = 0 ->
  (forall x d, iter x d -> f d = b2n (p x)) ->
  f r = length (sel p kr kl).
Proof.
  intros H Hadd H0 Hp. destruct (compare_unfold r H) as (ds & HF & ->).
  rewrite (fold_nat f Hadd), H0. cbn.
  rewrite (Forall2_sum _ f (fun x => b2n (p x)) _ _ HF Hp).
  unfold b2n. rewrite (list_sum_filter p (fun _ => 1)), list_sum_ones.
  unfold sel. rewrite map_length. reflexivity.
Qed.

Lemma words_is_sum (f : acc -> nat) (p : label * K -> bool) r :
  compare = Ok r ->
  (forall a d, f (acc_app a d) = f a + f d) -> f (notes_only dup_notes) = 0 ->
  (forall x d, iter x d -> f d = if p x then wref (snd x) else 0) ->
  f r = list_sum (map wref (sel p kr kl)).
Proof.
  intros H Hadd H0 Hp. destruct (compare_unfold r H) as (ds & HF & ->).
  rewrite (fold_nat f Hadd), H0. cbn.
  rewrite (Forall2_sum _ f (fun x => if p x then wref (snd x) else 0) _ _ HF Hp).
  rewrite (list_sum_filter p (fun x => wref (snd x))).
  unfold sel. rewrite map_map. reflexivity.
Qed.

Lemma missings_is_sel r : compare = Ok r -> a_missings r = sel p_missing kr kl.
Proof.
  intros H. destruct (compare_unfold r H) as (ds & HF & ->).
  rewrite (fold_list (@a_missings K)) by reflexivity. cbn.
  rewrite (Forall2_concat _ (@a_missings K) (fun x => if p_missing x then [snd x] else []) _ _ HF).
  - apply concat_filter.
  - intros x d Hx. apply (iteration_counts x d Hx).
Qed.

Lemma notes_unfold r : compare = Ok r ->
  exists ds, Forall2 iter steps ds /\
             a_notes r = dup_notes ++ concat (map (@a_notes K) ds).
Proof.
  intros H. destruct (compare_unfold r H) as (ds & HF & ->).
  exists ds. split; [exact HF|].
  rewrite (fold_list (@a_notes K)) by reflexivity. reflexivity.
Qed.

Lemma dup_notes_plain n : In n dup_notes -> exists b k c, n = NDup b k c.
Proof.
  unfold dup_notes. rewrite in_app_iff, !in_map_iff.
  intros [([k c] & <- & _)|([k c] & <- & _)]; eauto.
Qed.

Lemma concat_notes_In (xs : list (label * K)) ds k :
  Forall2 iter xs ds ->
  (In (NMissing k) (concat (map (@a_notes K) ds)) <-> In k (map snd (filter p_absent xs))) /\
  (In (NObsolete k) (concat (map (@a_notes K) ds)) <-> In k (map snd (filter p_extra xs))).
Proof.
  intros HF. induction HF as [|x d xs ds Hxd _ IH]; cbn [map concat filter].
  - split; split; intros [].
  - destruct (iteration_notes x d Hxd k) as [Hm Ho]. destruct IH as [IHm IHo].
    rewrite !in_app_iff. split.
    + rewrite Hm, IHm. destruct (p_absent x); cbn [map In].
      * intuition congruence.
      * intuition discriminate.
    + rewrite Ho, IHo. destruct (p_extra x); cbn [map In].
      * intuition congruence.
      * intuition discriminate.
Qed.

Lemma notes_In r k : compare = Ok r ->
  (In (NMissing k) (a_notes r) <-> In k (sel p_absent kr kl)) /\
  (In (NObsolete k) (a_notes r) <-> In k (sel p_extra kr kl)).
Proof.
  intros H. destruct (notes_unfold r H) as (ds & HF & ->).
  assert (Hd : ~ In (NMissing k) dup_notes /\ ~ In (NObsolete k) dup_notes).
  { split; intros Hin; apply dup_notes_plain in Hin; destruct Hin as (b & k' & c & Hn);
      discriminate. }
  destruct (concat_notes_In _ _ k HF) as [Hm Ho].
  unfold sel. rewrite !in_app_iff, Hm, Ho. tauto.
Qed.

(* ---- membership conditions in terms of the last entity ------------------------ *)
Definition shared (k : K) : Prop := In k kr /\ In k kl.
Definition present (ents : list cent) (k : K) : Prop :=
  exists e, last_ent ents k e /\ c_junk e = false.
Definition same_val (k : K) : Prop :=
  exists er el, last_ent ref k er /\ last_ent l10n k el /\ equals eqb veq er el = true.
Definition diff_val (k : K) : Prop :=
  exists er el, last_ent ref k er /\ last_ent l10n k el /\ equals eqb veq er el = false.

Lemma refjunk_false k : refjunk k = false <-> present ref k.
Proof.
  unfold refjunk, present. destruct (lastw k ref) as [e|] eqn:E.
  - split.
    + intros H. exists e. split; [apply last_ent_iff; exact E|exact H].
    + intros (e' & He' & Hj). apply last_ent_iff in He'. congruence.
  - split; [discriminate|]. intros (e' & He' & _). apply last_ent_iff in He'. congruence.
Qed.

Lemma l10njunk_false k : l10njunk k = false <-> present l10n k.
Proof.
  unfold l10njunk, present. destruct (lastw k l10n) as [e|] eqn:E.
  - split.
    + intros H. exists e. split; [apply last_ent_iff; exact E|exact H].
    + intros (e' & He' & Hj). apply last_ent_iff in He'. congruence.
  - split; [discriminate|]. intros (e' & He' & _). apply last_ent_iff in He'. congruence.
Qed.

Lemma same_true k : same k = true <-> same_val k.
Proof.
  unfold same, same_val.
  destruct (lastw k ref) as [a|] eqn:Ea; [destruct (lastw k l10n) as [b|] eqn:Eb|].
  - split.
    + intros H. exists a, b. repeat split; try (apply last_ent_iff; assumption). exact H.
    + intros (er & el & Hr & Hl & H). apply last_ent_iff in Hr, Hl. congruence.
  - split; [discriminate|]. intros (er & el & _ & Hl & _). apply last_ent_iff in Hl. congruence.
  - split; [discriminate|]. intros (er & el & Hr & _). apply last_ent_iff in Hr. congruence.
Qed.

Lemma same_false k : shared k -> (same k = false <-> diff_val k).
Proof.
  intros [Hr Hl]. unfold same, diff_val.
  destruct (lastw_In ref k Hr) as [a Ea]. destruct (lastw_In l10n k Hl) as [b Eb].
  rewrite Ea, Eb. split.
  - intros H. exists a, b. repeat split; try (apply last_ent_iff; assumption). exact H.
  - intros (er & el & Hr' & Hl' & H). apply last_ent_iff in Hr', Hl'. congruence.
Qed.

Lemma negb_true b : negb b = true <-> b = false.
Proof. destruct b; split; auto; discriminate. Qed.

Lemma absent_iff k :
  (In k kr \/ In k kl) /\ p_absent (label_of eqb kr kl k, k) = true <->
  In k kr /\ ~ In k kl /\ present ref k.
Proof.
  unfold p_absent. cbn [fst snd]. destruct (label_of eqb kr kl k) eqn:El.
  - apply label_Equal in El. split; [intros [_ H]; discriminate|tauto].
  - apply label_Delete in El. rewrite negb_true, refjunk_false. tauto.
  - apply label_Add in El. split; [intros [_ H]; discriminate|tauto].
Qed.

Lemma extra_iff k :
  (In k kr \/ In k kl) /\ p_extra (label_of eqb kr kl k, k) = true <->
  In k kl /\ ~ In k kr /\ present l10n k.
Proof.
  unfold p_extra. cbn [fst snd]. destruct (label_of eqb kr kl k) eqn:El.
  - apply label_Equal in El. split; [intros [_ H]; discriminate|tauto].
  - apply label_Delete in El. split; [intros [_ H]; discriminate|tauto].
  - apply label_Add in El. rewrite negb_true, l10njunk_false. tauto.
Qed.

Lemma shared_iff k :
  (In k kr \/ In k kl) /\ p_shared (label_of eqb kr kl k, k) = true <-> shared k.
Proof.
  unfold p_shared, shared. cbn [fst]. destruct (label_of eqb kr kl k) eqn:El.
  - apply label_Equal in El. tauto.
  - apply label_Delete in El. split; [intros [_ H]; discriminate|tauto].
  - apply label_Add in El. split; [intros [_ H]; discriminate|tauto].
Qed.

Lemma is_verr_iff v : is_verr v = true <-> v = VError.
Proof. destruct v; split; auto; discriminate. Qed.
Lemma is_vwarn_iff v : is_vwarn v = true <-> v = VWarning.
Proof. destruct v; split; auto; discriminate. Qed.
Lemma not_ignore_iff v : negb (is_ignore v) = true <-> v <> VIgnore.
Proof. destruct v; cbn; split; auto; try discriminate; intros H; contradiction. Qed.

Lemma sel_and_In (p q : label * K -> bool) k :
  In k (sel (fun x => p x && q x) kr kl) <->
  ((In k kr \/ In k kl) /\ p (label_of eqb kr kl k, k) = true) /\
  q (label_of eqb kr kl k, k) = true.
Proof. rewrite sel_In, andb_true_iff. tauto. Qed.

(* ---- the theorems ---------------------------------------------------------------- *)
Theorem compare_missing r : compare = Ok r ->
  NoDup (a_missings r) /\
  (forall k, In k (a_missings r) <->
     In k kr /\ ~ In k kl /\ flt k = VError /\ present ref k) /\
  s_missing (a_stats r) = length (a_missings r) /\
  s_missing_w (a_stats r) = list_sum (map (words_at eqb ref) (a_missings r)).
Proof.
  intros H. rewrite (missings_is_sel r H). repeat split.
  - apply sel_NoDup.
  - unfold p_missing in H0. apply sel_and_In in H0. destruct H0 as [H0 _].
    apply absent_iff in H0. tauto.
  - unfold p_missing in H0. apply sel_and_In in H0. destruct H0 as [H0 _].
    apply absent_iff in H0. tauto.
  - unfold p_missing in H0. apply sel_and_In in H0. destruct H0 as [_ H0].
    cbn [snd] in H0. apply is_verr_iff in H0. exact H0.
  - unfold p_missing in H0. apply sel_and_In in H0. destruct H0 as [H0 _].
    apply absent_iff in H0. tauto.
  - intros (Hr & Hl & Hv & Hp). unfold p_missing. apply sel_and_In. split.
    + apply absent_iff. tauto.
    + cbn [snd]. apply is_verr_iff. exact Hv.
  - apply (counter_is_card (fun a => s_missing (a_stats a)) p_missing r H); try reflexivity.
    intros x d Hx. apply (iteration_counts x d Hx).
  - apply (words_is_sum (fun a => s_missing_w (a_stats a)) p_missing r H); try reflexivity.
    intros x d Hx. apply (iteration_counts x d Hx).
Qed.

Theorem compare_report r : compare = Ok r ->
  card (fun k => In k kr /\ ~ In k kl /\ flt k = VWarning /\ present ref k)
       (s_report (a_stats r)).
Proof.
  intros H. exists (sel p_report kr kl). split; [apply sel_NoDup|]. split.
  - intros k. unfold p_report. rewrite sel_and_In, absent_iff. cbn [snd].
    rewrite is_vwarn_iff. tauto.
  - apply (counter_is_card (fun a => s_report (a_stats a)) p_report r H); try reflexivity.
    intros x d Hx. apply (iteration_counts x d Hx).
Qed.

Theorem compare_obsolete r : compare = Ok r ->
  card (fun k => In k kl /\ ~ In k kr /\ flt k <> VIgnore /\ present l10n k)
       (s_obsolete (a_stats r)).
Proof.
  intros H. exists (sel p_obsolete kr kl). split; [apply sel_NoDup|]. split.
  - intros k. unfold p_obsolete. rewrite sel_and_In, extra_iff. cbn [snd].
    rewrite not_ignore_iff. tauto.
  - apply (counter_is_card (fun a => s_obsolete (a_stats a)) p_obsolete r H); try reflexivity.
    intros x d Hx. apply (iteration_counts x d Hx).
Qed.

(* what an observer with this filter records about missing and obsolete keys *)
Theorem compare_details r : compare = Ok r -> forall k,
  (In (NMissing k) (details flt r) <->
     In k kr /\ ~ In k kl /\ flt k <> VIgnore /\ present ref k) /\
  (In (NObsolete k) (details flt r) <->
     In k kl /\ ~ In k kr /\ flt k <> VIgnore /\ present l10n k).
Proof.
  intros H k. destruct (notes_In r k H) as [Hm Ho]. unfold details.
  rewrite !filter_In, Hm, Ho, !sel_In, absent_iff, extra_iff. cbn [observed].
  rewrite not_ignore_iff. tauto.
Qed.

Theorem compare_shared r : compare = Ok r ->
  card (fun k => shared k /\ keyname k = true) (s_keys (a_stats r)) /\
  card_sum (fun k => shared k /\ keyname k = false /\ same_val k) (words_at eqb ref)
           (s_unchanged (a_stats r)) (s_unchanged_w (a_stats r)) /\
  card_sum (fun k => shared k /\ keyname k = false /\ diff_val k) (words_at eqb ref)
           (s_changed (a_stats r)) (s_changed_w (a_stats r)).
Proof.
  intros H. split; [|split].
  - exists (sel p_keys kr kl). split; [apply sel_NoDup|]. split.
    + intros k. unfold p_keys. rewrite sel_and_In, shared_iff. cbn [snd]. tauto.
    + apply (counter_is_card (fun a => s_keys (a_stats a)) p_keys r H); try reflexivity.
      intros x d Hx. apply (iteration_counts x d Hx).
  - exists (sel p_unchanged kr kl). split; [apply sel_NoDup|]. split; [|split].
    + intros k. unfold p_unchanged. rewrite sel_In. cbn [snd].
      rewrite !andb_true_iff, negb_true, same_true. pose proof (shared_iff k). tauto.
    + apply (counter_is_card (fun a => s_unchanged (a_stats a)) p_unchanged r H); try reflexivity.
      intros x d Hx. apply (iteration_counts x d Hx).
    + apply (words_is_sum (fun a => s_unchanged_w (a_stats a)) p_unchanged r H); try reflexivity.
      intros x d Hx. apply (iteration_counts x d Hx).
  - exists (sel p_changed kr kl). split; [apply sel_NoDup|]. split; [|split].
    + intros k. unfold p_changed. rewrite sel_In. cbn [snd].
      rewrite !andb_true_iff, !negb_true. pose proof (shared_iff k) as Hsh. split.
      * intros [Hin [[Hs Hk] Hd]]. assert (Hs' : shared k) by tauto.
        apply (same_false k Hs') in Hd. tauto.
      * intros (Hs & Hk & Hd). apply (same_false k Hs) in Hd. tauto.
    + apply (counter_is_card (fun a => s_changed (a_stats a)) p_changed r H); try reflexivity.
      intros x d Hx. apply (iteration_counts x d Hx).
    + apply (words_is_sum (fun a => s_changed_w (a_stats a)) p_changed r H); try reflexivity.
      intros x d Hx. apply (iteration_counts x d Hx).
Qed.

(* the three classes of a shared key exclude each other and leave nothing out *)
Theorem shared_classes k : shared k ->
  let A := keyname k = true in
  let B := keyname k = false /\ same_val k in
  let C := keyname k = false /\ diff_val k in
  (A /\ ~ B /\ ~ C) \/ (~ A /\ B /\ ~ C) \/ (~ A /\ ~ B /\ C).
Proof.
  intros Hs A B C. subst A B C.
  assert (Hx : same_val k -> diff_val k -> False).
  { intros (a & b & Ha & Hb & E) (a' & b' & Ha' & Hb' & E').
    rewrite (last_ent_unique _ _ _ _ Ha Ha'), (last_ent_unique _ _ _ _ Hb Hb') in E. congruence. }
  destruct (keyname k) eqn:Ek.
  - left. repeat split; [intros [Hf _]; discriminate|intros [Hf _]; discriminate].
  - destruct (same k) eqn:Es.
    + apply same_true in Es. right; left.
      repeat split; [discriminate|exact Es|]. intros [_ Hd]. exact (Hx Es Hd).
    + apply (same_false k Hs) in Es. right; right.
      repeat split; [discriminate| |exact Es]. intros [_ Hsv]. exact (Hx Hsv Es).
Qed.

(* flt == error, no junk in the reference: every distinct reference key is
   counted in exactly one of missing / changed / unchanged / keys *)
Theorem compare_partition r :
  (forall k, flt k = VError) -> (forall e, In e ref -> c_junk e = false) ->
  compare = Ok r ->
  card (fun k => In k kr)
       (s_missing (a_stats r) + s_changed (a_stats r) + s_unchanged (a_stats r) +
        s_keys (a_stats r)).
Proof.
  intros Hflt Hj H.
  set (p := fun x : label * K => match fst x with Add => false | _ => true end).
  exists (sel p kr kl). split; [apply sel_NoDup|]. split.
  - intros k. rewrite sel_In. unfold p. cbn [fst].
    destruct (label_of eqb kr kl k) eqn:El.
    + apply label_Equal in El. tauto.
    + apply label_Delete in El. tauto.
    + apply label_Add in El. split; [intros [_ Hf]; discriminate|tauto].
  - apply (counter_is_card
             (fun a => s_missing (a_stats a) + s_changed (a_stats a) + s_unchanged (a_stats a) +
                       s_keys (a_stats a)) p r H).
    + intros a d. cbn. lia.
    + reflexivity.
    + intros [lab k] d Hx.
      destruct (iteration_counts _ _ Hx) as (-> & _ & _ & _ & _ & -> & -> & _ & -> & _).
      destruct Hx as [sk Hx].
      revert Hx. unfold iteration, Compare.iteration. rewrite !getitem_lastw.
      unfold p, p_missing, p_changed, p_unchanged, p_keys, p_absent, p_shared, refjunk, same.
      cbn [fst snd]. rewrite Hflt.
      destruct lab; cbn [bind].
      * destruct (lastw k ref) as [a|]; cbn [bind]; [|discriminate].
        destruct (lastw k l10n) as [b|]; cbn [bind]; [|discriminate].
        intros _. destruct (keyname k), (equals eqb veq a b); reflexivity.
      * destruct (lastw k ref) as [a|] eqn:Ea; cbn [bind]; [|discriminate].
        intros _. apply lastw_Some_In in Ea. rewrite (Hj a (proj1 Ea)). reflexivity.
      * intros _. reflexivity.
Qed.

Lemma iteration_no_dup x d : iter x d -> forall b k n, ~ In (NDup b k n) (a_notes d).
Proof.
  intros [sk Hit]; revert Hit.
  destruct x as [lab k0]. unfold iteration, Compare.iteration. rewrite !getitem_lastw.
  assert (Hn : forall b k n (fs : list finding),
             ~ In (@NDup K b k n) (map (fun f => NCheck (f_error f) (f_msg f)) fs)).
  { intros b k n fs H. apply in_map_iff in H. destruct H as (f & Hf & _). discriminate. }
  destruct lab; cbn [bind].
  - destruct (lastw k0 ref) as [a|]; cbn [bind]; [|discriminate].
    destruct (lastw k0 l10n) as [b|]; cbn [bind]; [|discriminate].
    destruct (keyname k0); cbn [bind].
    + intros H; inversion H; subst; cbn. intros; apply Hn.
    + destruct (c_junk a); cbn [bind]; [discriminate|].
      destruct (equals eqb veq a b); cbn [bind]; intros H; inversion H; subst; cbn;
        intros; apply Hn.
  - destruct (lastw k0 ref) as [a|]; cbn [bind]; [|discriminate].
    destruct (c_junk a); [|destruct (flt k0)]; intros H; inversion H; subst; cbn;
      intros b k n [Hf|[]]; discriminate.
  - destruct (lastw k0 l10n) as [b|]; cbn [bind]; [|discriminate].
    destruct (c_junk b); [|destruct (flt k0)]; intros H; inversion H; subst; cbn;
      intros b' k n [Hf|[]]; discriminate.
Qed.

(* the duplicate warnings (reference) and errors (localization) *)
Theorem compare_duplicates r : compare = Ok r -> forall k n,
  (In (NDup false k n) (a_notes r) <-> n = kcount k kr /\ 1 < n) /\
  (In (NDup true k n) (a_notes r) <-> n = kcount k kl /\ 1 < n).
Proof.
  intros H k n. destruct (notes_unfold r H) as (ds & HF & ->).
  assert (Hno : forall b, ~ In (NDup b k n) (concat (map (@a_notes K) ds))).
  { intros b Hin. apply in_concat in Hin. destruct Hin as (ns & Hns & Hin).
    apply in_map_iff in Hns. destruct Hns as (d & <- & Hd).
    clear -HF Hd Hin eqb_eq. induction HF as [|x d' xs ds Hxd _ IH]; [destruct Hd|].
    destruct Hd as [->|Hd]; [exact (iteration_no_dup x d Hxd b k n Hin)|exact (IH Hd)]. }
  destruct (find_duplicates_spec ref) as [_ Hr]. destruct (find_duplicates_spec l10n) as [_ Hl].
  unfold dup_notes. rewrite !in_app_iff, !in_map_iff. split; split.
  - intros [[([k' n'] & E & Hin)|([k' n'] & E & _)]|Hin]; [|discriminate|destruct (Hno _ Hin)].
    cbn in E. inversion E; subst. apply Hr. exact Hin.
  - intros Hk. left; left. exists (k, n). split; [reflexivity|]. apply Hr. exact Hk.
  - intros [[([k' n'] & E & _)|([k' n'] & E & Hin)]|Hin]; [discriminate| |destruct (Hno _ Hin)].
    cbn in E. inversion E; subst. apply Hl. exact Hin.
  - intros Hk. left; right. exists (k, n). split; [reflexivity|]. apply Hl. exact Hk.
Qed.

(* ---- skips: an entity is skipped at most once ----------------------------------- *)
Notation check_skips := (check_skips merge).

Lemma in_skips_In id sk : in_skips id sk = true <-> In id sk.
Proof.
  unfold in_skips. rewrite existsb_exists. split.
  - intros (y & Hy & E). apply Z.eqb_eq in E. subst. exact Hy.
  - intros H. exists id. split; [exact H|apply Z.eqb_refl].
Qed.

Lemma check_skips_in mg id sk fs : In id sk -> Compare.check_skips mg id sk fs = [].
Proof.
  revert sk; induction fs as [|f fs IH]; intros sk H; cbn; [reflexivity|].
  apply in_skips_In in H. rewrite H. cbn. rewrite !andb_false_r.
  apply IH. apply in_skips_In. exact H.
Qed.

Lemma check_skips_shape_gen mg id sk fs :
  Compare.check_skips mg id sk fs = [] \/
  (Compare.check_skips mg id sk fs = [id] /\ ~ In id sk /\ mg = true /\
   exists f, In f fs /\ f_error f = true).
Proof.
  revert sk; induction fs as [|f fs IH]; intros sk; cbn; [left; reflexivity|].
  destruct (f_error f) eqn:Ef; cbn [andb].
  - destruct mg; cbn [andb].
    + destruct (in_skips id sk) eqn:Ei; cbn [negb].
      * destruct (IH sk) as [H|(H & Hn & _ & f' & Hf' & Ef')]; [left; exact H|].
        apply in_skips_In in Ei. contradiction.
      * right. rewrite check_skips_in by (apply in_or_app; right; left; reflexivity).
        repeat split; [|exists f; auto].
        intros Hin. apply in_skips_In in Hin. congruence.
    + destruct (IH sk) as [H|(_ & _ & Hf & _)]; [left; exact H|discriminate].
  - destruct (IH sk) as [H|(H & Hn & Hm & f' & Hf' & Ef')]; [left; exact H|].
    right. repeat split; auto. exists f'. auto.
Qed.

Lemma check_skips_shape id sk fs :
  check_skips id sk fs = [] \/
  (check_skips id sk fs = [id] /\ ~ In id sk /\ merge = true /\
   exists f, In f fs /\ f_error f = true).
Proof. apply check_skips_shape_gen. Qed.

Lemma c_id_inj (ents : list cent) e e' :
  NoDup (map (@c_id K V) ents) -> In e ents -> In e' ents -> c_id e = c_id e' -> e = e'.
Proof.
  induction ents as [|a ents IH]; cbn; intros Hnd He He' E; [contradiction|].
  inversion Hnd as [|? ? Ha Hents]; subst.
  destruct He as [<-|He], He' as [<-|He']; auto.
  - exfalso. apply Ha. rewrite E. apply in_map. exact He'.
  - exfalso. apply Ha. rewrite <- E. apply in_map. exact He.
Qed.

(* what one iteration appends to skips *)
Lemma iteration_skips sk lab k d : iteration sk (lab, k) = Ok d ->
  a_skips d = [] \/
  exists e, lastw k l10n = Some e /\ a_skips d = [c_id e] /\ merge = true /\
            (lab = Equal -> ~ In (c_id e) sk).
Proof.
  unfold iteration, Compare.iteration. rewrite !getitem_lastw.
  destruct lab; cbn [bind].
  - destruct (lastw k ref) as [a|]; cbn [bind]; [|discriminate].
    destruct (lastw k l10n) as [b|]; cbn [bind]; [|discriminate].
    assert (Hc : forall st : stats,
               Ok (mkacc st [] (check_skips (c_id b) sk (chk a b))
                         (map (fun f => NCheck (f_error f) (f_msg f)) (chk a b))) = Ok d ->
               a_skips d = [] \/
               exists e, Some b = Some e /\ a_skips d = [c_id e] /\ merge = true /\
                         (Equal = Equal -> ~ In (c_id e) sk)).
    { intros st H; inversion H; subst; cbn.
      destruct (check_skips_shape (c_id b) sk (chk a b)) as [E|(E & Hn & Hm & _)];
        [left; exact E|]. right. exists b. auto. }
    destruct (keyname k); cbn [bind]; [apply Hc|].
    destruct (c_junk a); cbn [bind]; [discriminate|].
    destruct (equals eqb veq a b); cbn [bind]; apply Hc.
  - destruct (lastw k ref) as [a|]; cbn [bind]; [|discriminate].
    destruct (c_junk a); [|destruct (flt k)]; intros H; inversion H; subst; cbn; left; reflexivity.
  - destruct (lastw k l10n) as [b|]; cbn [bind]; [|discriminate].
    destruct (c_junk b).
    + intros H; inversion H; subst; cbn. clear H.
      assert (Hm : forall mg : bool, mg = merge ->
                (if mg then [c_id b] else []) = [] \/
                exists e, Some b = Some e /\ (if mg then [c_id b] else []) = [c_id e] /\
                          merge = true /\ (Add = Equal -> ~ In (c_id e) sk)).
      { intros [|] Em; [|left; reflexivity]. right. exists b. repeat split; auto. discriminate. }
      apply (Hm merge eq_refl).
    + destruct (flt k); intros H; inversion H; subst; cbn; left; reflexivity.
Qed.

Lemma run_cons (a : acc) x steps :
  run a (x :: steps) =
  match iteration (a_skips a) x with
  | Ok d => run (acc_app a d) steps
  | Raise t => Raise t
  end.
Proof. reflexivity. Qed.

Lemma run_skips (steps : list (label * K)) : forall (a r : acc),
  NoDup (map (@c_id K V) l10n) -> NoDup (map snd steps) ->
  NoDup (a_skips a) ->
  (forall id, In id (a_skips a) ->
     merge = true /\ exists k e, lastw k l10n = Some e /\ c_id e = id /\ ~ In k (map snd steps)) ->
  run a steps = Ok r ->
  NoDup (a_skips r) /\
  (forall id, In id (a_skips r) ->
     merge = true /\ exists k e, lastw k l10n = Some e /\ c_id e = id).
Proof.
  induction steps as [|[lab k] steps IH]; intros a r Hid Hnd Ha Hinv H.
  - cbn in H. inversion H; subst. split; [exact Ha|]. intros id Hin.
    destruct (Hinv id Hin) as (Hm & k & e & He & Hi & _). eauto.
  - rewrite run_cons in H.
    destruct (iteration (a_skips a) (lab, k)) as [d|t] eqn:E; [|discriminate].
    cbn in Hnd. inversion Hnd as [|? ? Hk Hnd']; subst.
    apply (IH (acc_app a d) r Hid Hnd'); [| |exact H]; cbn [acc_app a_skips].
    + destruct (iteration_skips _ _ _ _ E) as [->|(e & He & -> & Hm & Heq)];
        [rewrite app_nil_r; exact Ha|].
      apply NoDup_app_disjoint; [exact Ha|constructor; [intros []|constructor]|].
      intros y Hy [<-|[]].
      destruct (Hinv _ Hy) as (_ & k' & e' & He' & Hi & Hk').
      apply lastw_Some_In in He, He'. destruct He as [Hin Hke], He' as [Hin' Hke'].
      assert (e' = e) by (apply (c_id_inj l10n); assumption). subst e'.
      apply Hk'. left. cbn. congruence.
    + intros id Hin. apply in_app_or in Hin. destruct Hin as [Hin|Hin].
      * destruct (Hinv id Hin) as (Hm & k' & e' & He' & Hi & Hk').
        split; [exact Hm|]. exists k', e'. repeat split; auto.
        intros Hc. apply Hk'. right. exact Hc.
      * destruct (iteration_skips _ _ _ _ E) as [E0|(e & He & E1 & Hm & _)];
          [rewrite E0 in Hin; destruct Hin|].
        rewrite E1 in Hin. destruct Hin as [<-|[]].
        split; [exact Hm|]. exists k, e. auto.
Qed.

(* when merging, every skipped entity is the last localized entity of some key and is
   skipped once, however many errors the checker reports for it; otherwise nothing is *)
Theorem compare_skips r :
  NoDup (map (@c_id K V) l10n) -> compare = Ok r ->
  NoDup (a_skips r) /\
  (forall id, In id (a_skips r) ->
     merge = true /\ exists k e, last_ent l10n k e /\ c_id e = id).
Proof.
  intros Hid H. unfold Compare.compare in H.
  destruct (run_skips steps (notes_only dup_notes) r Hid (steps_NoDup kr kl) (NoDup_nil _)
                      (fun id (Hf : In id []) => match Hf with end) H) as [H1 H2].
  split; [exact H1|]. intros id Hin. destruct (H2 id Hin) as (Hm & k & e & He & Hi).
  split; [exact Hm|]. exists k, e. split; [apply last_ent_iff; exact He|exact Hi].
Qed.

(* ---- the order of `missings`; the junk notifications ------------------------------ *)
Lemma map_filter_labelled (p : label * K -> bool) (xs : list (label * K)) :
  (forall x, In x xs -> fst x = label_of eqb kr kl (snd x)) ->
  map snd (filter p xs) = filter (fun k => p (label_of eqb kr kl k, k)) (map snd xs).
Proof.
  induction xs as [|[lab k] xs IH]; intros H; cbn [filter map snd]; [reflexivity|].
  pose proof (H (lab, k) (or_introl eq_refl)) as E. cbn in E. subst lab.
  rewrite <- IH by (intros y Hy; apply H; right; exact Hy).
  destruct (p (label_of eqb kr kl k, k)); reflexivity.
Qed.

Lemma sel_as_filter (p : label * K -> bool) :
  sel p kr kl = filter (fun k => p (label_of eqb kr kl k, k)) (map snd steps).
Proof.
  unfold sel. apply map_filter_labelled. intros [lab k] Hin.
  exact (addremove_labels eqb kr kl lab k Hin).
Qed.

Lemma filter_through {A} (p q : A -> bool) (l : list A) :
  (forall x, p x = true -> q x = true) -> filter p l = filter p (filter q l).
Proof.
  intros H. induction l as [|x l IH]; cbn; [reflexivity|].
  destruct (p x) eqn:Ep.
  - rewrite (H x Ep). cbn. rewrite Ep, IH. reflexivity.
  - destruct (q x); cbn; [rewrite Ep|]; exact IH.
Qed.

(* with duplicate-free key sequences, what a predicate that implies "is a reference key"
   selects comes in the order of the reference *)
Lemma sel_ref_order (p : label * K -> bool) :
  NoDup kr -> NoDup kl ->
  (forall k, p (label_of eqb kr kl k, k) = true -> In k kr) ->
  sel p kr kl = filter (fun k => p (label_of eqb kr kl k, k)) kr.
Proof.
  intros Hr Hl Hp. rewrite sel_as_filter.
  rewrite (filter_through _ (fun k => mem k kr)).
  - rewrite (AddRemoveSpec.addremove_left_order eqb eqb_eq kr kl Hr Hl). reflexivity.
  - intros k Hk. apply (mem_In eqb eqb_eq). apply Hp. exact Hk.
Qed.

Definition is_njunk (n : @note K) : bool := match n with NJunk _ => true | _ => false end.
Definition p_junk (x : label * K) : bool :=
  match fst x with Add => l10njunk (snd x) | _ => false end.
Definition jid (k : K) : Z := match lastw k l10n with Some e => c_id e | None => 0%Z end.

Lemma iteration_junk x d : iter x d ->
  filter is_njunk (a_notes d) = if p_junk x then [NJunk (jid (snd x))] else [].
Proof.
  intros [sk Hit]; revert Hit.
  destruct x as [lab k0]. unfold iteration, Compare.iteration. rewrite !getitem_lastw.
  unfold p_junk, l10njunk, jid. cbn [fst snd].
  assert (Hn : forall fs : list finding,
             filter is_njunk (map (fun f => @NCheck K (f_error f) (f_msg f)) fs) = []).
  { induction fs as [|f fs IHf]; [reflexivity|exact IHf]. }
  destruct lab; cbn [bind].
  - destruct (lastw k0 ref) as [a|]; cbn [bind]; [|discriminate].
    destruct (lastw k0 l10n) as [b|]; cbn [bind]; [|discriminate].
    destruct (keyname k0); cbn [bind].
    + intros H; inversion H; subst; cbn. apply Hn.
    + destruct (c_junk a); cbn [bind]; [discriminate|].
      destruct (equals eqb veq a b); cbn [bind]; intros H; inversion H; subst; cbn; apply Hn.
  - destruct (lastw k0 ref) as [a|]; cbn [bind]; [|discriminate].
    destruct (c_junk a); [|destruct (flt k0)]; intros H; inversion H; subst; reflexivity.
  - destruct (lastw k0 l10n) as [b|]; cbn [bind]; [|discriminate].
    destruct (c_junk b); [|destruct (flt k0)]; intros H; inversion H; subst; reflexivity.
Qed.

(* the junk errors: one per localized key whose entity is Junk and which is no reference key *)
Lemma junk_notes r : compare = Ok r ->
  filter is_njunk (a_notes r) = map (fun k => NJunk (jid k)) (sel p_junk kr kl).
Proof.
  intros H. destruct (notes_unfold r H) as (ds & HF & ->).
  rewrite filter_app.
  assert (Hd : filter is_njunk dup_notes = []).
  { assert (Hall : forall n, In n dup_notes -> is_njunk n = false).
    { intros n Hn. apply dup_notes_plain in Hn. destruct Hn as (b & k & c & ->). reflexivity. }
    induction dup_notes as [|n ns IHn]; [reflexivity|]. cbn.
    rewrite (Hall n (or_introl eq_refl)). apply IHn. intros m Hm. apply Hall. right; exact Hm. }
  rewrite Hd. cbn [app]. unfold sel. rewrite map_map.
  induction HF as [|x d xs ds Hxd _ IH]; cbn [map concat filter]; [reflexivity|].
  rewrite filter_app, (iteration_junk x d Hxd), IH.
  destruct (p_junk x); reflexivity.
Qed.

(* ---- errors and warnings when the checker is silent -------------------------------- *)
Definition is_err (n : @note K) : bool :=
  match note_cat n with CatError => true | _ => false end.
Definition is_warn (n : @note K) : bool :=
  match note_cat n with CatWarning => true | _ => false end.
Definition p_refjunk (x : label * K) : bool :=
  match fst x with Delete => refjunk (snd x) | _ => false end.

Lemma iteration_msgs x d : iter x d -> (forall a b, chk a b = []) ->
  filter is_err (a_notes d) = (if p_junk x then [NJunk (jid (snd x))] else []) /\
  filter is_warn (a_notes d) = (if p_refjunk x then [NRefJunk] else []).
Proof.
  intros [sk Hit] Hchk; revert Hit.
  destruct x as [lab k0]. unfold iteration, Compare.iteration. rewrite !getitem_lastw.
  unfold p_junk, p_refjunk, l10njunk, refjunk, jid. cbn [fst snd].
  destruct lab; cbn [bind].
  - destruct (lastw k0 ref) as [a|]; cbn [bind]; [|discriminate].
    destruct (lastw k0 l10n) as [b|]; cbn [bind]; [|discriminate]. rewrite Hchk.
    destruct (keyname k0); cbn [bind].
    + intros H; inversion H; subst; cbn. split; reflexivity.
    + destruct (c_junk a); cbn [bind]; [discriminate|].
      destruct (equals eqb veq a b); cbn [bind]; intros H; inversion H; subst; cbn;
        split; reflexivity.
  - destruct (lastw k0 ref) as [a|]; cbn [bind]; [|discriminate].
    destruct (c_junk a); [|destruct (flt k0)]; intros H; inversion H; subst; split; reflexivity.
  - destruct (lastw k0 l10n) as [b|]; cbn [bind]; [|discriminate].
    destruct (c_junk b); [|destruct (flt k0)]; intros H; inversion H; subst; split; reflexivity.
Qed.

Lemma msgs_notes r : compare = Ok r -> (forall a b, chk a b = []) ->
  filter is_err (a_notes r) =
    filter is_err dup_notes ++ map (fun k => NJunk (jid k)) (sel p_junk kr kl) /\
  filter is_warn (a_notes r) =
    filter is_warn dup_notes ++ map (fun _ => NRefJunk) (sel p_refjunk kr kl).
Proof.
  intros H Hchk. destruct (notes_unfold r H) as (ds & HF & ->).
  rewrite !filter_app. unfold sel. rewrite !map_map.
  induction HF as [|x d xs ds Hxd _ IH]; cbn [map concat filter]; [split; reflexivity|].
  destruct IH as [IH1 IH2]. destruct (iteration_msgs x d Hxd Hchk) as [E1 E2].
  rewrite !filter_app, E1, E2.
  apply app_inv_head in IH1. apply app_inv_head in IH2. rewrite IH1, IH2.
  destruct (p_junk x), (p_refjunk x); split; reflexivity.
Qed.

Lemma kcount_NoDup k l : NoDup l -> kcount k l <= 1.
Proof.
  unfold kcount. induction 1 as [|x l Hx _ IH]; cbn; [lia|].
  destruct (eqb k x) eqn:E; [|exact IH]. apply eqb_eq in E. subst. cbn.
  assert (Hz : filter (eqb x) l = []).
  { clear IH. induction l as [|y l IHl]; [reflexivity|]. cbn.
    destruct (eqb x y) eqn:E; [apply eqb_eq in E; subst; exfalso; apply Hx; left; reflexivity|].
    apply IHl. intros Hin. apply Hx. right; exact Hin. }
  rewrite Hz. cbn. lia.
Qed.

Lemma find_duplicates_NoDup (ents : list cent) :
  NoDup (map c_key ents) -> find_duplicates eqb ents = [].
Proof.
  intros Hnd. destruct (find_duplicates_spec ents) as [_ Hin].
  destruct (find_duplicates eqb ents) as [|[k n] rest]; [reflexivity|].
  destruct (proj1 (Hin k n) (or_introl eq_refl)) as [-> Hn].
  pose proof (kcount_NoDup k _ Hnd). lia.
Qed.

(* the only way to raise: Junk.equals on a reference Junk whose generated key is
   also a key of the localization *)
Theorem compare_no_raise :
  (forall k e, last_ent ref k e -> c_junk e = true -> In k kl -> keyname k = true) ->
  exists r, compare = Ok r.
Proof.
  intros Hj. unfold Compare.compare. apply run_total.
  intros [lab k] Hin.
  pose proof (addremove_labels eqb kr kl lab k Hin) as Hlab.
  apply iteration_ok; [|exact Hlab|].
  - apply steps_In. apply in_map_iff. exists (lab, k). auto.
  - intros -> Hrj. symmetry in Hlab. apply label_Equal in Hlab. destruct Hlab as [Hr Hl].
    unfold refjunk in Hrj. destruct (lastw k ref) as [e|] eqn:Ee.
    + apply (Hj k e); [apply last_ent_iff; exact Ee|exact Hrj|exact Hl].
    + apply lastw_None in Ee. contradiction.
Qed.

End Run.
(* ---- ContentComparer.add ---------------------------------------------------------- *)
Definition nonjunk (e : cent) : bool := negb (c_junk e).

Theorem add_file_counts v (ents : list cent) :
  add_file v ents =
  if is_ignore v then None
  else Some (length (filter nonjunk ents), list_sum (map (@c_words K V) (filter nonjunk ents))).
Proof.
  unfold add_file. destruct (is_ignore v); [reflexivity|].
  fold nonjunk. rewrite (fold_left_sum (@c_words K V)). reflexivity.
Qed.

Lemma filter_partition_length {A} (p : A -> bool) (l : list A) :
  length (filter p l) + length (filter (fun x => negb (p x)) l) = length l.
Proof. induction l as [|x l IH]; cbn; [reflexivity|]. destruct (p x); cbn; lia. Qed.

Lemma NoDup_keys_last (ents : list cent) e :
  NoDup (map c_key ents) -> In e ents -> last_ent ents (c_key e) e.
Proof.
  intros Hnd Hin. apply in_split in Hin. destruct Hin as (pre & post & ->).
  exists pre, post. repeat split. rewrite map_app in Hnd. cbn in Hnd.
  apply NoDup_remove_2 in Hnd. apply Forall_forall. intros e' He' Hk. apply Hnd.
  apply in_or_app. right. rewrite <- Hk. apply in_map. exact He'.
Qed.

(* a missing file is counted like the comparison with an empty localization,
   as long as the reference has no duplicate keys *)
Theorem add_file_is_compare_empty chk merge (ref : list cent) r :
  NoDup (map c_key ref) ->
  compare eqb veq keyname (fun _ => VError) chk merge ref [] = Ok r ->
  add_file VError ref = Some (s_missing (a_stats r), s_missing_w (a_stats r)).
Proof.
  intros Hnd H. rewrite add_file_counts. cbn [is_ignore].
  destruct (compare_missing _ _ _ _ _ r H) as (HM & HIn & -> & ->).
  set (M := a_missings r) in *. set (N := map c_key (filter nonjunk ref)).
  assert (HN : NoDup N) by (apply NoDup_map_filter; exact Hnd).
  assert (HP : Permutation M N).
  { apply NoDup_Permutation; [exact HM|exact HN|]. intros k. rewrite HIn. unfold N.
    rewrite (in_map_iff c_key (filter nonjunk ref)). split.
    - intros (_ & _ & _ & e & He & Hj). exists e.
      destruct He as (pre & post & -> & Hk & _). split; [exact Hk|].
      apply filter_In. split; [apply in_or_app; right; left; reflexivity|].
      unfold nonjunk. rewrite Hj. reflexivity.
    - intros (e & Hk & He). apply filter_In in He. destruct He as [He Hj]. subst k.
      split; [apply in_map; exact He|]. split; [intros []|]. split; [reflexivity|].
      exists e. split; [apply NoDup_keys_last; assumption|].
      unfold nonjunk in Hj. destruct (c_junk e); [discriminate|reflexivity]. }
  f_equal. f_equal.
  - rewrite (Permutation_length HP). unfold N. rewrite map_length. reflexivity.
  - rewrite (list_sum_perm _ _ (Permutation_map (words_at eqb ref) HP)). unfold N.
    rewrite map_map. f_equal. apply map_ext_in. intros e He. apply filter_In in He.
    symmetry. apply words_at_last. apply NoDup_keys_last; tauto.
Qed.

End Proofs.
