(* C16, .properties: the text serialize produces for a reference and an old localization
   that are legal block lists and new values that are legal raw value texts re-parses
   (walk_properties) without junk to exactly the entities of the output entry list (which
   C16_entities / C16_values characterise), with their raw values, and to its standalone
   comments. *)
From Coq Require Import ZArith NArith List Bool Arith Lia.
From CL Require Import Base.Sx Base.Res Base.Str Model.Entry Model.Parse Model.ParseFormats
                       Proofs.C02Roundtrip Proofs.C02BlocksRx Proofs.C02BlocksVal Proofs.C02Blocks
                       Model.AddRemove Proofs.AddRemoveProofs Proofs.AddRemoveSpec
                       Model.Channels Proofs.ChannelsProofs Proofs.ChannelsSpec
                       Model.Serializer Proofs.SerializerProofs Proofs.SerializerSpec
                       Proofs.SerializerFinal Proofs.MergeShapeKeys Proofs.MergeShape
                       Proofs.PropsShape Proofs.MergeReparse15 Proofs.ReparsePartial Proofs.PropsView
                       Proofs.PropsWrap.
Import ListNotations.
Local Open Scope nat_scope.

Local Arguments vraw : simpl never.
Local Arguments ctext : simpl never.
Local Notation mem := C02Roundtrip.mem.

(* ---- raw values ------------------------------------------------------------------------------ *)
(* the physical lines of a raw value text *)
Fixpoint rsplit_aux (cur : str) (raw : str) : list str * str :=
  match raw with
  | [] => ([], rev cur)
  | c :: t =>
      if N.eqb c 10 then let (cs, l) := rsplit_aux [] t in (rev cur :: cs, l)
      else rsplit_aux (c :: cur) t
  end.

Lemma vraw_rsplit raw : forall cur,
  vraw (fst (rsplit_aux cur raw)) (snd (rsplit_aux cur raw)) = rev cur ++ raw.
Proof.
  induction raw as [|c t IH]; intros cur; cbn [rsplit_aux].
  - cbn. unfold vraw. cbn. rewrite app_nil_r. reflexivity.
  - destruct (N.eqb c 10) eqn:E.
    + apply N.eqb_eq in E. subst c. specialize (IH []).
      destruct (rsplit_aux [] t) as [cs l]. cbn [fst snd] in *. unfold vraw in *.
      rewrite vpre_cons. rewrite <- app_assoc. cbn [app]. f_equal. f_equal. exact IH.
    + rewrite IH. cbn [rev]. rewrite <- app_assoc. reflexivity.
Qed.

(* a legal raw value: every physical line but the last ends in an odd number of backslashes
   (the line break is escaped), the last line does not (an even number, no trailing blank,
   no CR), and the text does not start with a blank.  The serializer does no escaping: the
   raw value is spliced in verbatim, so a raw value outside this class (a bare line break,
   a trailing backslash) changes how the following text parses (C16_raw_newline_refuted). *)
Definition legal_rawb (raw : str) : bool :=
  legal_value (fst (rsplit_aux [] raw)) (snd (rsplit_aux [] raw)).

Lemma legal_rawb_value raw : legal_rawb raw = true ->
  exists conts lastl, raw = vraw conts lastl /\ legal_value conts lastl = true.
Proof.
  intros H. exists (fst (rsplit_aux [] raw)), (snd (rsplit_aux [] raw)).
  split; [rewrite (vraw_rsplit raw []); reflexivity|exact H].
Qed.

(* ---- Entity.wrap for a format whose value is the tail of the entity ---------------------- *)
Definition props_wrap (wrap : centry -> str -> result centry) : Prop :=
  forall r raw e, wrap r raw = Ok e -> e = literal (c_key r) raw (text_pre r ++ raw).

Lemma props_wrap_ok wrap : props_wrap wrap -> wrap_ok wrap.
Proof. intros H r raw e Hw. rewrite (H r raw e Hw). split; reflexivity. Qed.

Lemma text_pre_ent e cs key b1 sc b2 conts lastl :
  strip e = strip (ent_centry cs key b1 sc b2 conts lastl) -> text_pre e = ent_pre cs key b1 sc b2.
Proof.
  intros H. destruct (strip_fields _ _ H) as (_ & _ & K3 & K4). cbn in K3, K4.
  unfold text_pre. rewrite K3, K4, app_length.
  replace (length (ent_pre cs key b1 sc b2) + length (vraw conts lastl) - length (vraw conts lastl))
    with (length (ent_pre cs key b1 sc b2) + 0) by lia.
  rewrite firstn_app_2. cbn. rewrite app_nil_r. reflexivity.
Qed.

(* ---- entries of block lists: no junk, numbering ------------------------------------------------ *)
Lemma centries_kinds bs : Forall legal_block bs -> forall e, In e (centries_of bs) ->
  c_kind e = CWhite \/ c_kind e = CComment \/ c_kind e = CEntity.
Proof.
  intros Hl e He.
  destruct (cents_In bs Hl [] e eq_refl He) as [(w0 & -> & _)|[(cs & _ & ->)|(cs & k & a1 & s0 & a2 & cn & ll & nl & _ & ->)]]; auto.
Qed.

Lemma number_In_strip es : forall c e, In e (number c es) -> exists e0, In e0 es /\ strip e = strip e0.
Proof.
  induction es as [|a es IH]; intros c e; cbn; [contradiction|].
  intros [H|H]; [exists a; split; [left; reflexivity|rewrite <- H; reflexivity]|].
  destruct (IH _ _ H) as (e0 & H1 & H2). exists e0. split; [right; exact H1|exact H2].
Qed.

Lemma nj_all l : (forall e, In e l -> is_junk e = false) -> nj l = l.
Proof.
  intros H. unfold nj. apply filter_all. apply Forall_forall. intros e He. rewrite (H e He). reflexivity.
Qed.

Lemma strip_kind_eq e e0 : strip e = strip e0 -> c_kind e = c_kind e0.
Proof. intros H. apply strip_fields in H. apply H. Qed.

Section R.
Variable m : nat.
Variables (rbs obs : list block).
Hypothesis Hr : version_ok m rbs.
Hypothesis Ho : version_ok m obs.
Let R : list centry := number 0 (centries_of rbs).
Let L : list centry := number (length (centries_of rbs)) (centries_of obs).
Variable wrap : centry -> str -> result centry.
Variable nd : new_data_t.
Hypothesis Hnd : NoDup (map fst nd).
Hypothesis Hwrap : props_wrap wrap.
Hypothesis Hraw : forall k raw, In (k, Some raw) nd -> legal_rawb raw = true.

Lemma numbered_kinds bs c e : Forall legal_block bs -> In e (number c (centries_of bs)) ->
  c_kind e = CWhite \/ c_kind e = CComment \/ c_kind e = CEntity.
Proof.
  intros Hl He. destruct (number_In_strip _ _ _ He) as (e0 & H0 & Hs).
  rewrite (strip_kind_eq _ _ Hs). apply (centries_kinds bs Hl e0 H0).
Qed.

Lemma numbered_nojunk bs c e : Forall legal_block bs -> In e (number c (centries_of bs)) -> is_junk e = false.
Proof.
  intros Hl He. unfold is_junk. destruct (numbered_kinds bs c e Hl He) as [K|[K|K]]; rewrite K; reflexivity.
Qed.

Lemma numbered_nosticky bs c e : Forall legal_block bs -> In e (number c (centries_of bs)) -> is_sticky e = false.
Proof.
  intros Hl He. unfold is_sticky. destruct (numbered_kinds bs c e Hl He) as [K|[K|K]]; rewrite K; reflexivity.
Qed.

Lemma njR : nj R = R.
Proof. apply nj_all. intros e He. apply (numbered_nojunk rbs 0 e); [apply Hr|exact He]. Qed.
Lemma njL : nj L = L.
Proof. apply nj_all. intros e He. eapply (numbered_nojunk obs); [apply Ho|exact He]. Qed.

Lemma uniqR : uniq (nj R).
Proof. rewrite njR. apply number_uniq. apply Hr. Qed.
Lemma uniqL : uniq (nj L).
Proof. rewrite njL. apply number_uniq. apply Ho. Qed.

Lemma nfR : nf m R.
Proof. eapply nf_strip; [symmetry; apply number_strip|apply Hr]. Qed.
Lemma nfL : nf m L.
Proof. eapply nf_strip; [symmetry; apply number_strip|apply Ho]. Qed.

Lemma decR : Forall (dec m) R.
Proof.
  destruct Hr as (H1 & H2 & _ & _ & H5).
  eapply Forall_dec_strip; [symmetry; apply number_strip|apply centries_dec; assumption].
Qed.
Lemma decL : Forall (dec m) L.
Proof.
  destruct Ho as (H1 & H2 & _ & _ & H5).
  eapply Forall_dec_strip; [symmetry; apply number_strip|apply centries_dec; assumption].
Qed.

(* placeholder / sanitize keep what the shape looks at *)
Lemma placeholder_rel e : shape_rel e (placeholder e).
Proof.
  unfold shape_rel, placeholder. destruct (is_entity e) eqn:E; [|auto].
  unfold is_entity in E. unfold is_white, is_comment. destruct (c_kind e); try discriminate; cbn; repeat split; intros; discriminate.
Qed.

Lemma san_rel e : shape_rel e (san R nd e).
Proof. unfold san. destruct (should_placeholder (refkeys R) nd e); [apply placeholder_rel|unfold shape_rel; auto]. Qed.

Lemma white_ids_map (f : centry -> centry) l :
  (forall e, is_white (f e) = is_white e /\ (is_white e = true -> c_id (f e) = c_id e)) ->
  map c_id (filter is_white (map f l)) = map c_id (filter is_white l).
Proof.
  intros Hf. induction l as [|e l IH]; cbn; [reflexivity|]. destruct (Hf e) as [F1 F2].
  rewrite F1. destruct (is_white e) eqn:E; cbn; rewrite IH; [rewrite (F2 eq_refl)|]; reflexivity.
Qed.

Lemma dw_ids es i : uniq es -> In (DW i) (dkeys (parse_resource es)) -> In i (map c_id (filter is_white es)).
Proof. intros Hu H. rewrite parse_resource_uniq in H by exact Hu. eapply key_values_DW. exact H. Qed.

Lemma ws_disj_PO : ws_disjoint (dkeys (P R)) (dkeys (O' R L nd)).
Proof.
  intros k Hk H1 H2. apply nwk_false in Hk. destruct Hk as [i ->].
  apply (dw_ids _ i (PL_uniq R uniqR)) in H1. apply (dw_ids _ i (OL_uniq R L nd uniqL)) in H2.
  unfold PL, placeholders in H1. unfold OL in H2. fold (nj R) in H1. fold (nj L) in H2.
  rewrite njR in H1. rewrite njL in H2.
  rewrite white_ids_map in H1 by (intros e; destruct (placeholder_facts e) as (_ & _ & F3 & F4 & _); auto).
  rewrite white_ids_map in H2 by (intros e; destruct (san_facts R nd e) as (_ & _ & F3 & F4 & _); auto).
  apply number_white_ids in H1. apply number_white_ids in H2. lia.
Qed.

Theorem serialize_shape out : serialize_entries wrap R L nd = Ok out ->
  nf m out /\ noadj out /\ Forall (dec m) out.
Proof.
  intros H. pose proof (props_wrap_ok wrap Hwrap) as Hwo.
  destruct (serialize_entries_inv wrap R L nd uniqR out H) as (NL & HNL & Hout).
  pose proof (P_wf R uniqR) as WP. pose proof (O_wf R L nd uniqL) as WO.
  pose proof (M1_wf R L nd uniqR uniqL) as WM1.
  pose proof (N_wf wrap R nd Hnd Hwo NL HNL) as WN.
  (* the template and the old localization are well shaped *)
  assert (SP : nf m (dvalues (P R))).
  { unfold P. rewrite parse_resource_values by (apply PL_uniq; exact uniqR).
    unfold PL, placeholders. fold (nj R). rewrite njR. apply nf_map_rel; [apply placeholder_rel|exact nfR]. }
  assert (SO : nf m (dvalues (O' R L nd))).
  { unfold O'. rewrite parse_resource_values by (apply OL_uniq; exact uniqL).
    unfold OL. fold (nj L). rewrite njL. apply nf_map_rel; [apply san_rel|exact nfL]. }
  assert (StO : Forall (fun p => is_sticky (snd p) = false) (O' R L nd)).
  { apply Forall_forall. intros [k e] Hin. cbn.
    assert (He : In e (OL R L nd)).
    { rewrite <- (parse_resource_values _ (OL_uniq R L nd uniqL)). unfold dvalues. apply in_map_iff. exists (k, e). auto. }
    unfold OL in He. fold (nj L) in He. rewrite njL in He. apply in_map_iff in He. destruct He as (o & <- & Ho').
    pose proof (numbered_nosticky obs _ o (proj1 Ho) Ho') as Hs.
    unfold san. destruct (should_placeholder (refkeys R) nd o); [|exact Hs].
    unfold placeholder. destruct (is_entity o); [reflexivity|exact Hs]. }
  destruct (merge_two_shape m (P R) (O' R L nd) false WP WO ws_disj_PO (fun _ => StO) SP SO) as [S1 _].
  fold (M1 R L nd) in S1.
  assert (StN : Forall (fun p => is_sticky (snd p) = false) (Nw NL)).
  { apply Forall_forall. intros [k e] Hin. cbn.
    destruct (N_pairs wrap R nd uniqR Hnd Hwo NL HNL k e Hin) as (Hc & _).
    unfold is_cent in Hc. unfold is_sticky. destruct (c_kind e); try discriminate; reflexivity. }
  assert (DisN : ws_disjoint (dkeys (M1 R L nd)) (dkeys (Nw NL))).
  { intros k Hk _ H2. unfold dkeys in H2. apply in_map_iff in H2. destruct H2 as ([k' e] & Hk' & Hin).
    cbn in Hk'. subst k'. destruct (N_pairs wrap R nd uniqR Hnd Hwo NL HNL k e Hin) as (_ & -> & _). discriminate. }
  destruct (merge_two_shape_sub m (M1 R L nd) (Nw NL) false WM1 WN DisN (fun _ => StN)
              (N_keys_in_M1 wrap R L nd uniqR uniqL Hnd Hwo NL HNL) S1) as [S2 _].
  fold (M R L nd NL) in S2.
  assert (Sout : nf m out /\ noadj out).
  { rewrite Hout, prune_placeholders_pws. apply pws_shape. unfold nf.
    apply nfk_filter; [|exact S2]. intros x Hx. apply negb_false_iff in Hx.
    unfold is_placeholder in Hx. unfold is_white. destruct (c_kind x); try discriminate; reflexivity. }
  destruct Sout as [So1 So2]. split; [exact So1|]. split; [exact So2|].
  (* every entry goes back into a block *)
  apply Forall_forall. intros e He.
  destruct (serialize_sources wrap R L nd out H e He) as [_ [(Hin & _ & _)|[(Hin & _ & _)|(r & raw & Hr1 & Hr2 & Hr3 & Hr4)]]].
  - pose proof decR as D. rewrite Forall_forall in D. apply D. exact Hin.
  - pose proof decL as D. rewrite Forall_forall in D. apply D. exact Hin.
  - rewrite (Hwrap r raw e Hr4).
    destruct (number_In_strip _ _ _ Hr1) as (r0 & Hr0 & Hs).
    destruct Hr as (Lr & Cr & _).
    destruct (cents_In rbs Lr [] r0 eq_refl Hr0) as [(w0 & E & _)|[(cs & _ & E)|(cs & k & a1 & s0 & a2 & cn & ll & nl & Hb & E)]].
    + exfalso. unfold is_entity in Hr2. rewrite (strip_kind_eq _ _ Hs), E in Hr2. discriminate.
    + exfalso. unfold is_entity in Hr2. rewrite (strip_kind_eq _ _ Hs), E in Hr2. discriminate.
    + subst r0. destruct (legal_rawb_value raw (Hraw _ _ Hr3)) as (conts & lastl & -> & Hv).
      rewrite Forall_forall in Lr, Cr. pose proof (Lr _ Hb) as Lb. pose proof (Cr _ Hb) as Cb.
      apply (dec_ent m _ cs k a1 s0 a2 conts lastl).
      * unfold legal_block in Lb. cbn [legal_blockb] in Lb |- *.
        apply andb_true_iff in Lb. destruct Lb as [Lb _]. rewrite Lb, Hv. reflexivity.
      * exact Cb.
      * rewrite (text_pre_ent r cs k a1 s0 a2 cn ll Hs).
        destruct (strip_fields _ _ Hs) as (_ & K2 & _). cbn in K2. rewrite K2. reflexivity.
Qed.
End R.

Lemma krecs_cent l : krecs l = map (fun e => (c_key e, c_val e)) (filter is_cent l).
Proof.
  induction l as [|e l IH]; [reflexivity|]. unfold krecs in *. cbn [flat_map filter].
  unfold krec at 1, is_cent at 1. destruct (c_kind e); cbn; rewrite IH; reflexivity.
Qed.

(* the re-parse of the serializer's output *)
Theorem serialize_reparse_properties m rbs obs wrap nd name txt :
  version_ok m rbs -> version_ok m obs -> NoDup (map fst nd) -> props_wrap wrap ->
  (forall k raw, In (k, Some raw) nd -> legal_rawb raw = true) ->
  let R := number 0 (centries_of rbs) in
  let L := number (length (centries_of rbs)) (centries_of obs) in
  serialize wrap name R L nd = Ok txt ->
  exists out es,
    serialize_entries wrap R L nd = Ok out /\ txt = concat (map c_text out) /\
    walk_properties txt = Ok es /\
    map (fun e => let r := entity_record txt e in (fst (fst r), snd (fst r)))
        (filter (is_kind KEntity) es) = krecs out /\
    map fst (krecs out) = filter (has_value L nd) (refkeys R) /\
    map (fun e => span_text txt (e_span e)) (filter (is_kind KComment) es) = ccoms out /\
    filter (is_kind KJunk) es = [].
Proof.
  intros Hr Ho Hnd Hw Hraw R L H.
  destruct (serialize_inv wrap name R L nd txt H) as (out & Hout & ->).
  destruct (serialize_shape m rbs obs Hr Ho wrap nd Hnd Hw Hraw out Hout) as (S1 & S2 & S3).
  destruct (shape_reparse m out S1 S2 S3) as (es & E1 & E2 & E3 & E4).
  exists out, es. unfold serialize_legacy. repeat split; try assumption.
  rewrite krecs_cent, map_map. cbn [fst].
  apply (entities_keys_thm wrap R L nd (uniqR m rbs Hr) (uniqL m rbs obs Ho) Hnd
           (props_wrap_ok wrap Hw) out Hout).
Qed.
