(* C01, per-format part: each getNext satisfies the step contract of
   Proofs/WalkSpec.v.  The proofs are over the section-parametrised models of
   Model/Parse.v and only assume that the relevant regular expressions are not
   nullable; they do not depend on what the expressions are. *)
From Coq Require Import NArith List Bool Arith Lia.
From CL Require Import Base.Sx Base.Res Base.Str Regex.Rx Regex.RxLemmas Model.Entry
  Model.Parse Proofs.WalkSpec Proofs.WalkProofs.
Import ListNotations.

Local Arguments Nat.ltb : simpl never.
Local Arguments Nat.leb : simpl never.
Local Arguments Nat.eqb : simpl never.
Local Arguments N.eqb : simpl never.

(* ---- the regex calls ------------------------------------------------------- *)
Lemma omatch_span : forall r s off x, omatch r s off = Some x ->
  m_start x = off /\ off <= m_end x /\ m_end x <= length s /\
  caps_in off (m_end x) (m_caps x).
Proof.
  unfold omatch. intros r s off x H.
  destruct (rmatch r s off) as [|y|] eqn:E; try discriminate.
  inversion H; subst y. apply rmatch_span in E. exact E.
Qed.

Lemma omatch_progress : forall r s off x, nullable r = false ->
  omatch r s off = Some x -> off < m_end x.
Proof.
  unfold omatch. intros r s off x Hn H.
  destruct (rmatch r s off) as [|y|] eqn:E; try discriminate.
  inversion H; subst y. eapply rmatch_progress; eauto.
Qed.

Lemma osearch_span : forall r s off x, osearch r s off = Some x ->
  off <= m_start x /\ m_start x <= m_end x /\ m_end x <= length s.
Proof.
  unfold osearch. intros r s off x H.
  destruct (rsearch r s off) as [|y|] eqn:E; try discriminate.
  inversion H; subst y. apply rsearch_span in E. tauto.
Qed.

Lemma osearch_end_span : forall r s off e x, osearch_end r s off e = Some x ->
  off <= m_start x /\ m_start x <= m_end x /\ m_end x <= length s /\ m_end x <= e.
Proof.
  unfold osearch_end. intros r s off e x H.
  destruct (rsearch_end r s off e) as [|y|] eqn:E; try discriminate.
  inversion H; subst y. apply rsearch_end_span in E. exact E.
Qed.

Lemma get_cap_in : forall n cs sp, get_cap n cs = Some sp -> In (n, sp) cs.
Proof.
  induction cs as [|[m0 sp0] cs IH]; intros sp H; simpl in H.
  - discriminate.
  - destruct (Nat.eqb n m0) eqn:E.
    + apply Nat.eqb_eq in E. inversion H; subst. left. reflexivity.
    + right. apply IH. exact H.
Qed.

Lemma group_inside : forall lo hi n x, caps_in lo hi (m_caps x) ->
  span_inside lo hi (group n x).
Proof.
  unfold span_inside, group, caps_in. intros lo hi n x H sp Hg.
  apply get_cap_in in Hg. rewrite Forall_forall in H. apply H in Hg. simpl in Hg. exact Hg.
Qed.

Lemma span_inside_mono : forall lo lo' hi hi' o, lo' <= lo -> hi <= hi' ->
  span_inside lo hi o -> span_inside lo' hi' o.
Proof.
  unfold span_inside. intros lo lo' hi hi' o H1 H2 H sp Ho. apply H in Ho. lia.
Qed.

Lemma span_inside_none : forall lo hi, span_inside lo hi None.
Proof. unfold span_inside. intros lo hi sp H. discriminate. Qed.

Lemma span_inside_some : forall lo hi a b, lo <= a -> a <= b -> b <= hi ->
  span_inside lo hi (Some (a, b)).
Proof. unfold span_inside. intros lo hi a b H1 H2 H3 sp H. inversion H; subst. simpl. lia. Qed.

(* a match of the key: its groups lie inside it *)
Lemma omatch_group_inside : forall r s off x n, omatch r s off = Some x ->
  span_inside (m_start x) (m_end x) (group n x).
Proof.
  intros r s off x n H. apply omatch_span in H. destruct H as [H1 [H2 [H3 H4]]].
  rewrite H1. apply group_inside. exact H4.
Qed.

(* ---- getJunk ------------------------------------------------------------------ *)
Lemma junk_end_bounds : forall exprs s off je,
  (forall j, je = Some j -> off < j /\ j <= length s) ->
  forall j, junk_end exprs s off je = Some j -> off < j /\ j <= length s.
Proof.
  induction exprs as [|r rest IH]; intros s off je Hje j H; simpl in H.
  - apply Hje. exact H.
  - destruct (osearch r s (S off)) as [x|] eqn:E.
    + apply osearch_span in E. eapply IH; [|exact H].
      intros j' Hj'. destruct (truthy je) eqn:T.
      * destruct je as [j0|]; [|discriminate]. inversion Hj'; subst j'.
        specialize (Hje j0 eq_refl). lia.
      * inversion Hj'; subst j'. lia.
    + eapply IH; eauto.
Qed.

Lemma get_junk_ok : forall exprs s off, off < length s ->
  entry_ok s off (get_junk exprs s off) /\ e_kind (get_junk exprs s off) = KJunk.
Proof.
  intros exprs s off Hoff. unfold get_junk.
  pose proof (junk_end_bounds exprs s off None) as H.
  destruct (junk_end exprs s off None) as [j|] eqn:E.
  - destruct (H ltac:(discriminate) j eq_refl) as [H1 H2].
    destruct j as [|j]; [lia|]. simpl. unfold entry_ok, span_start. simpl. repeat split; lia.
  - simpl. unfold entry_ok, span_start. simpl. repeat split; lia.
Qed.

Lemma not_entity_spans_inside : forall e, e_kind e <> KEntity -> spans_inside e.
Proof. unfold spans_inside. intros e H H'. contradiction. Qed.

(* ---- Parser.getNext -------------------------------------------------------------- *)
Definition create_ok (key : rx)
  (create : str -> mres -> option span -> option span -> option entry) : Prop :=
  forall s off k c w e, omatch key s off = Some k -> create s k c w = Some e ->
    e_kind e = KEntity /\ e_pre e = c /\ fst (e_span e) = m_start k /\
    m_start k < snd (e_span e) /\ snd (e_span e) <= length s /\
    span_inside (m_start k) (snd (e_span e)) (e_key e) /\
    span_inside (m_start k) (snd (e_span e)) (e_val e).

Definition step_ok (s : str) (off : nat) (e : entry) : Prop :=
  entry_ok s off e /\ spans_inside e.

(* the shapes of entry that getNext returns *)
Lemma step_comment : forall r s off x, nullable r = false -> omatch r s off = Some x ->
  step_ok s off (mk_comment (mspan x)).
Proof.
  intros r s off x Hn H. pose proof (omatch_progress _ _ _ _ Hn H).
  apply omatch_span in H. destruct H as [H1 [H2 [H3 _]]].
  split; [|apply not_entity_spans_inside; discriminate].
  unfold entry_ok, span_start, mk_comment, mspan. simpl. repeat split; lia.
Qed.

Lemma step_white : forall r s off x, nullable r = false -> omatch r s off = Some x ->
  step_ok s off (mk_white (mspan x)).
Proof.
  intros r s off x Hn H. pose proof (omatch_progress _ _ _ _ Hn H).
  apply omatch_span in H. destruct H as [H1 [H2 [H3 _]]].
  split; [|apply not_entity_spans_inside; discriminate].
  unfold entry_ok, span_start, mk_white, mspan. simpl. repeat split; lia.
Qed.

Lemma step_junk : forall exprs s off, off < length s -> step_ok s off (get_junk exprs s off).
Proof.
  intros exprs s off H. destruct (get_junk_ok exprs s off H) as [H1 H2].
  split; auto. apply not_entity_spans_inside. rewrite H2. discriminate.
Qed.

(* an entity whose own span starts at [ks], with an optional pre-comment that
   starts at [off]; without the comment, ks = off *)
Lemma step_entity : forall s off ks e (c : option span),
  e_pre e = c -> fst (e_span e) = ks -> ks < snd (e_span e) -> snd (e_span e) <= length s ->
  span_inside ks (snd (e_span e)) (e_key e) ->
  span_inside ks (snd (e_span e)) (e_val e) ->
  off <= ks ->
  match c with Some sp => fst sp = off | None => ks = off end ->
  step_ok s off e.
Proof.
  intros s off ks e c Hp Hf Hlt Hle Hk Hv Hoff Hc.
  assert (Hs : span_start e = off).
  { unfold span_start. rewrite Hp. destruct c as [sp|]; [exact Hc|lia]. }
  split.
  - unfold entry_ok. rewrite Hs. repeat split; lia.
  - intros _. rewrite Hs.
    split; [eapply span_inside_mono; [| |exact Hk]|eapply span_inside_mono; [| |exact Hv]]; lia.
Qed.

Lemma get_next_base_step : forall F,
  nullable (f_comment F) = false -> nullable (f_ws F) = false ->
  create_ok (f_key F) (f_create F) ->
  forall s off, off < length s -> step_ok s off (get_next_base F s off).
Proof.
  intros F Hnc Hnw Hcr s off Hoff. unfold get_next_base. cbv zeta.
  destruct (omatch (f_comment F) s off) as [x|] eqn:Hc.
  - pose proof (step_comment _ _ _ _ Hnc Hc) as Scom.
    pose proof (omatch_progress _ _ _ _ Hnc Hc) as Pc.
    pose proof (omatch_span _ _ _ _ Hc) as [Sc1 [Sc2 [Sc3 _]]].
    destruct ((off <? f_license_below F) && _); [exact Scom|].
    destruct (omatch (f_ws F) s (m_end x)) as [w|] eqn:Hw.
    + pose proof (omatch_span _ _ _ _ Hw) as [Sw1 [Sw2 [Sw3 _]]].
      destruct (1 <? count_char 10 (slice s (m_start w) (m_end w))); [exact Scom|].
      destruct (omatch (f_key F) s (m_end w)) as [k|] eqn:Hk; [|exact Scom].
      destruct (f_create F s k (Some (mspan x)) (Some (mspan w))) as [e|] eqn:He; [|exact Scom].
      pose proof (omatch_span _ _ _ _ Hk) as [Sk1 _].
      destruct (Hcr _ _ _ _ _ _ Hk He) as [_ [C2 [C3 [C4 [C5 [C6 C7]]]]]].
      eapply (step_entity s off (m_start k) e); eauto; simpl; lia.
    + destruct (omatch (f_key F) s (m_end x)) as [k|] eqn:Hk; [|exact Scom].
      destruct (f_create F s k (Some (mspan x)) None) as [e|] eqn:He; [|exact Scom].
      pose proof (omatch_span _ _ _ _ Hk) as [Sk1 _].
      destruct (Hcr _ _ _ _ _ _ Hk He) as [_ [C2 [C3 [C4 [C5 [C6 C7]]]]]].
      eapply (step_entity s off (m_start k) e); eauto; simpl; lia.
  - destruct (omatch (f_ws F) s off) as [w|] eqn:Hw.
    + eapply step_white; eauto.
    + destruct (omatch (f_key F) s off) as [k|] eqn:Hk; [|apply step_junk; exact Hoff].
      destruct (f_create F s k None None) as [e|] eqn:He; [|apply step_junk; exact Hoff].
      pose proof (omatch_span _ _ _ _ Hk) as [Sk1 _].
      destruct (Hcr _ _ _ _ _ _ Hk He) as [_ [C2 [C3 [C4 [C5 [C6 C7]]]]]].
      eapply (step_entity s off (m_start k) e); eauto; simpl; lia.
Qed.

Lemma stateless_contract : forall g,
  (forall s off, off < length s -> step_ok s off (g s off)) -> gn_contract (stateless g).
Proof. unfold gn_contract, stateless, step_ok. intros g H c s off Hoff. simpl. auto. Qed.

Lemma get_next_base_contract : forall F,
  nullable (f_comment F) = false -> nullable (f_ws F) = false ->
  create_ok (f_key F) (f_create F) ->
  gn_contract (stateless (get_next_base F)).
Proof. intros. apply stateless_contract. apply get_next_base_step; auto. Qed.

Lemma create_base_ok : forall key gkey gval, nullable key = false ->
  create_ok key (create_base gkey gval).
Proof.
  unfold create_ok, create_base. intros key gkey gval Hn s off k c w e Hk He.
  inversion He; subst e; clear He. simpl.
  pose proof (omatch_progress _ _ _ _ Hn Hk).
  pose proof (omatch_span _ _ _ _ Hk) as [S1 [S2 [S3 _]]].
  repeat split; try lia; eapply omatch_group_inside; eauto.
Qed.
