(* C01, per-format part: each getNext satisfies the step contract of
   Proofs/WalkSpec.v.  The proofs are over the section-parametrised models of
   Model/Parse.v and only assume that the relevant regular expressions are not
   nullable; they do not depend on what the expressions are. *)
From Coq Require Import NArith List Bool Arith Lia.
From CL Require Import Base.Sx Base.Res Base.Str Regex.Rx Regex.RxLemmas Model.Entry
  Model.Parse Proofs.WalkSpec Proofs.WalkProofs.
Import ListNotations.

Local Arguments Nat.ltb : simpl never.
Local Arguments Nat.leb : simpl never.
Local Arguments Nat.eqb : simpl never.
Local Arguments N.eqb : simpl never.

(* ---- the regex calls ------------------------------------------------------- *)
Lemma omatch_span : forall r s off x, omatch r s off = Some x ->
  m_start x = off /\ off <= m_end x /\ m_end x <= length s /\
  caps_in off (m_end x) (m_caps x).
Proof.
  unfold omatch. intros r s off x H.
  destruct (rmatch r s off) as [|y|] eqn:E; try discriminate.
  inversion H; subst y. apply rmatch_span in E. exact E.
Qed.

Lemma omatch_progress : forall r s off x, nullable r = false ->
  omatch r s off = Some x -> off < m_end x.
Proof.
  unfold omatch. intros r s off x Hn H.
  destruct (rmatch r s off) as [|y|] eqn:E; try discriminate.
  inversion H; subst y. eapply rmatch_progress; eauto.
Qed.

Lemma osearch_span : forall r s off x, osearch r s off = Some x ->
  off <= m_start x /\ m_start x <= m_end x /\ m_end x <= length s.
Proof.
  unfold osearch. intros r s off x H.
  destruct (rsearch r s off) as [|y|] eqn:E; try discriminate.
  inversion H; subst y. apply rsearch_span in E. tauto.
Qed.

Lemma osearch_end_span : forall r s off e x, osearch_end r s off e = Some x ->
  off <= m_start x /\ m_start x <= m_end x /\ m_end x <= length s /\ m_end x <= e.
Proof.
  unfold osearch_end. intros r s off e x H.
  destruct (rsearch_end r s off e) as [|y|] eqn:E; try discriminate.
  inversion H; subst y. apply rsearch_end_span in E. exact E.
Qed.

Lemma get_cap_in : forall n cs sp, get_cap n cs = Some sp -> In (n, sp) cs.
Proof.
  induction cs as [|[m0 sp0] cs IH]; intros sp H; simpl in H.
  - discriminate.
  - destruct (Nat.eqb n m0) eqn:E.
    + apply Nat.eqb_eq in E. inversion H; subst. left. reflexivity.
    + right. apply IH. exact H.
Qed.

Lemma group_inside : forall lo hi n x, caps_in lo hi (m_caps x) ->
  span_inside lo hi (group n x).
Proof.
  unfold span_inside, group, caps_in. intros lo hi n x H sp Hg.
  apply get_cap_in in Hg. rewrite Forall_forall in H. apply H in Hg. simpl in Hg. exact Hg.
Qed.

Lemma span_inside_mono : forall lo lo' hi hi' o, lo' <= lo -> hi <= hi' ->
  span_inside lo hi o -> span_inside lo' hi' o.
Proof.
  unfold span_inside. intros lo lo' hi hi' o H1 H2 H sp Ho. apply H in Ho. lia.
Qed.

Lemma span_inside_none : forall lo hi, span_inside lo hi None.
Proof. unfold span_inside. intros lo hi sp H. discriminate. Qed.

Lemma span_inside_some : forall lo hi a b, lo <= a -> a <= b -> b <= hi ->
  span_inside lo hi (Some (a, b)).
Proof. unfold span_inside. intros lo hi a b H1 H2 H3 sp H. inversion H; subst. simpl. lia. Qed.

(* a match of the key: its groups lie inside it *)
Lemma omatch_group_inside : forall r s off x n, omatch r s off = Some x ->
  span_inside (m_start x) (m_end x) (group n x).
Proof.
  intros r s off x n H. apply omatch_span in H. destruct H as [H1 [H2 [H3 H4]]].
  rewrite H1. apply group_inside. exact H4.
Qed.

(* ---- getJunk ------------------------------------------------------------------ *)
Lemma junk_end_bounds : forall exprs s off je,
  (forall j, je = Some j -> off < j /\ j <= length s) ->
  forall j, junk_end exprs s off je = Some j -> off < j /\ j <= length s.
Proof.
  induction exprs as [|r rest IH]; intros s off je Hje j H; simpl in H.
  - apply Hje. exact H.
  - destruct (osearch r s (S off)) as [x|] eqn:E.
    + apply osearch_span in E. eapply IH; [|exact H].
      intros j' Hj'. destruct (truthy je) eqn:T.
      * destruct je as [j0|]; [|discriminate]. inversion Hj'; subst j'.
        specialize (Hje j0 eq_refl). lia.
      * inversion Hj'; subst j'. lia.
    + eapply IH; eauto.
Qed.

Lemma get_junk_ok : forall exprs s off, off < length s ->
  entry_ok s off (get_junk exprs s off) /\ e_kind (get_junk exprs s off) = KJunk.
Proof.
  intros exprs s off Hoff. unfold get_junk.
  pose proof (junk_end_bounds exprs s off None) as H.
  destruct (junk_end exprs s off None) as [j|] eqn:E.
  - destruct (H ltac:(discriminate) j eq_refl) as [H1 H2].
    destruct j as [|j]; [lia|]. simpl. unfold entry_ok, span_start. simpl. repeat split; lia.
  - simpl. unfold entry_ok, span_start. simpl. repeat split; lia.
Qed.

Lemma not_entity_spans_inside : forall e, e_kind e <> KEntity -> spans_inside e.
Proof. unfold spans_inside. intros e H H'. contradiction. Qed.

(* ---- Parser.getNext -------------------------------------------------------------- *)
Definition create_ok (key : rx)
  (create : str -> mres -> option span -> option span -> option entry) : Prop :=
  forall s off k c w e, omatch key s off = Some k -> create s k c w = Some e ->
    e_kind e = KEntity /\ e_pre e = c /\ fst (e_span e) = m_start k /\
    m_start k < snd (e_span e) /\ snd (e_span e) <= length s /\
    span_inside (m_start k) (snd (e_span e)) (e_key e) /\
    span_inside (m_start k) (snd (e_span e)) (e_val e).

Definition step_ok (s : str) (off : nat) (e : entry) : Prop :=
  entry_ok s off e /\ spans_inside e.

(* the shapes of entry that getNext returns *)
Lemma step_comment : forall r s off x, nullable r = false -> omatch r s off = Some x ->
  step_ok s off (mk_comment (mspan x)).
Proof.
  intros r s off x Hn H. pose proof (omatch_progress _ _ _ _ Hn H).
  apply omatch_span in H. destruct H as [H1 [H2 [H3 _]]].
  split; [|apply not_entity_spans_inside; discriminate].
  unfold entry_ok, span_start, mk_comment, mspan. simpl. repeat split; lia.
Qed.

Lemma step_white : forall r s off x, nullable r = false -> omatch r s off = Some x ->
  step_ok s off (mk_white (mspan x)).
Proof.
  intros r s off x Hn H. pose proof (omatch_progress _ _ _ _ Hn H).
  apply omatch_span in H. destruct H as [H1 [H2 [H3 _]]].
  split; [|apply not_entity_spans_inside; discriminate].
  unfold entry_ok, span_start, mk_white, mspan. simpl. repeat split; lia.
Qed.

Lemma step_junk : forall exprs s off, off < length s -> step_ok s off (get_junk exprs s off).
Proof.
  intros exprs s off H. destruct (get_junk_ok exprs s off H) as [H1 H2].
  split; auto. apply not_entity_spans_inside. rewrite H2. discriminate.
Qed.

(* an entity whose own span starts at [ks], with an optional pre-comment that
   starts at [off]; without the comment, ks = off *)
Lemma step_entity : forall s off ks e (c : option span),
  e_pre e = c -> fst (e_span e) = ks -> ks < snd (e_span e) -> snd (e_span e) <= length s ->
  span_inside ks (snd (e_span e)) (e_key e) ->
  span_inside ks (snd (e_span e)) (e_val e) ->
  off <= ks ->
  match c with Some sp => fst sp = off | None => ks = off end ->
  step_ok s off e.
Proof.
  intros s off ks e c Hp Hf Hlt Hle Hk Hv Hoff Hc.
  assert (Hs : span_start e = off).
  { unfold span_start. rewrite Hp. destruct c as [sp|]; [exact Hc|lia]. }
  split.
  - unfold entry_ok. rewrite Hs. repeat split; lia.
  - intros _. rewrite Hs.
    split; [eapply span_inside_mono; [| |exact Hk]|eapply span_inside_mono; [| |exact Hv]]; lia.
Qed.

Lemma get_next_base_step : forall F,
  nullable (f_comment F) = false -> nullable (f_ws F) = false ->
  create_ok (f_key F) (f_create F) ->
  forall s off, off < length s -> step_ok s off (get_next_base F s off).
Proof.
  intros F Hnc Hnw Hcr s off Hoff. unfold get_next_base. cbv zeta.
  destruct (omatch (f_comment F) s off) as [x|] eqn:Hc.
  - pose proof (step_comment _ _ _ _ Hnc Hc) as Scom.
    pose proof (omatch_progress _ _ _ _ Hnc Hc) as Pc.
    pose proof (omatch_span _ _ _ _ Hc) as [Sc1 [Sc2 [Sc3 _]]].
    destruct ((off <? f_license_below F) && _); [exact Scom|].
    destruct (omatch (f_ws F) s (m_end x)) as [w|] eqn:Hw.
    + pose proof (omatch_span _ _ _ _ Hw) as [Sw1 [Sw2 [Sw3 _]]].
      destruct (1 <? count_char 10 (slice s (m_start w) (m_end w))); [exact Scom|].
      destruct (omatch (f_key F) s (m_end w)) as [k|] eqn:Hk; [|exact Scom].
      destruct (f_create F s k (Some (mspan x)) (Some (mspan w))) as [e|] eqn:He; [|exact Scom].
      pose proof (omatch_span _ _ _ _ Hk) as [Sk1 _].
      destruct (Hcr _ _ _ _ _ _ Hk He) as [_ [C2 [C3 [C4 [C5 [C6 C7]]]]]].
      eapply (step_entity s off (m_start k) e); eauto; simpl; lia.
    + destruct (omatch (f_key F) s (m_end x)) as [k|] eqn:Hk; [|exact Scom].
      destruct (f_create F s k (Some (mspan x)) None) as [e|] eqn:He; [|exact Scom].
      pose proof (omatch_span _ _ _ _ Hk) as [Sk1 _].
      destruct (Hcr _ _ _ _ _ _ Hk He) as [_ [C2 [C3 [C4 [C5 [C6 C7]]]]]].
      eapply (step_entity s off (m_start k) e); eauto; simpl; lia.
  - destruct (omatch (f_ws F) s off) as [w|] eqn:Hw.
    + exact (step_white _ _ _ _ Hnw Hw).
    + destruct (omatch (f_key F) s off) as [k|] eqn:Hk; [|apply step_junk; exact Hoff].
      destruct (f_create F s k None None) as [e|] eqn:He; [|apply step_junk; exact Hoff].
      pose proof (omatch_span _ _ _ _ Hk) as [Sk1 _].
      destruct (Hcr _ _ _ _ _ _ Hk He) as [_ [C2 [C3 [C4 [C5 [C6 C7]]]]]].
      eapply (step_entity s off (m_start k) e); eauto; simpl; lia.
Qed.

Lemma stateless_contract : forall g,
  (forall s off, off < length s -> step_ok s off (g s off)) -> gn_contract (stateless g).
Proof. unfold gn_contract, stateless, step_ok. intros g H c s off Hoff. simpl. auto. Qed.

Lemma get_next_base_contract : forall F,
  nullable (f_comment F) = false -> nullable (f_ws F) = false ->
  create_ok (f_key F) (f_create F) ->
  gn_contract (stateless (get_next_base F)).
Proof. intros. apply stateless_contract. apply get_next_base_step; auto. Qed.

Lemma create_base_ok : forall key gkey gval, nullable key = false ->
  create_ok key (create_base gkey gval).
Proof.
  unfold create_ok, create_base. intros key gkey gval Hn s off k c w e Hk He.
  inversion He; subst e; clear He. simpl.
  pose proof (omatch_progress _ _ _ _ Hn Hk).
  pose proof (omatch_span _ _ _ _ Hk) as [S1 [S2 [S3 _]]].
  repeat split; try lia; eapply omatch_group_inside; eauto.
Qed.

(* ---- str.find ------------------------------------------------------------------------ *)
Lemma find_from_bounds : forall c s i j, find_from c s i = Some j -> i <= j /\ j < i + length s.
Proof.
  induction s as [|x s IH]; intros i j H; simpl in H.
  - discriminate.
  - destruct (N.eqb x c).
    + inversion H; subst. simpl. lia.
    + apply IH in H. simpl. lia.
Qed.

Lemma find_char_bounds : forall c s off i, find_char c s off = Some i ->
  off <= i /\ i < length s.
Proof.
  unfold find_char. intros c s off i H. apply find_from_bounds in H.
  rewrite skipn_length in H. lia.
Qed.

(* ---- properties ------------------------------------------------------------------------ *)
Section PropertiesContract.
Variables (reComment reWs reKey reEscapedEnd reTrailingWS : rx) (gkey : nat).
Hypothesis Hnc : nullable reComment = false.
Hypothesis Hnw : nullable reWs = false.
Hypothesis Hnk : nullable reKey = false.

Lemma value_loop_bounds : forall fuel s o st e st',
  value_loop reEscapedEnd fuel s o st = (e, st') -> o <= length s -> st <= o ->
  o <= e /\ e <= length s /\ st <= st' /\ st' <= e.
Proof.
  induction fuel as [|f IH]; intros s o st e st' H Ho Hst; simpl in H.
  - inversion H; subst. lia.
  - destruct (find_char 10 s o) as [nl|] eqn:Hf.
    + apply find_char_bounds in Hf.
      destruct (osearch_end reEscapedEnd s o nl) as [x|].
      * destruct (Nat.even (m_end x - m_start x)).
        -- inversion H; subst. lia.
        -- apply IH in H; lia.
      * inversion H; subst. lia.
    + inversion H; subst. lia.
Qed.

Lemma props_entity : forall s o k c w, omatch reKey s o = Some k ->
  exists ev,
    (let (endval, startline) := value_loop reEscapedEnd (S (length s)) s (m_end k) (m_end k) in
     mkentry KEntity
       (m_start k, match osearch reTrailingWS s startline with
                   | Some ws => m_start ws
                   | None => endval
                   end)
       (group gkey k)
       (Some (m_end k, match osearch reTrailingWS s startline with
                       | Some ws => m_start ws
                       | None => endval
                       end)) c w)
    = mkentry KEntity (m_start k, ev) (group gkey k) (Some (m_end k, ev)) c w /\
    m_end k <= ev /\ ev <= length s.
Proof.
  intros s o k c w Hk. pose proof (omatch_span _ _ _ _ Hk) as [S1 [S2 [S3 _]]].
  destruct (value_loop reEscapedEnd (S (length s)) s (m_end k) (m_end k)) as [ev sl] eqn:V.
  apply value_loop_bounds in V; [|lia|lia].
  destruct (osearch reTrailingWS s sl) as [ws|] eqn:T.
  - apply osearch_span in T. exists (m_start ws). split; [reflexivity|lia].
  - exists ev. split; [reflexivity|lia].
Qed.

Lemma props_entity_step : forall s off o k c w ev,
  omatch reKey s o = Some k -> m_end k <= ev -> ev <= length s -> off <= o ->
  match c with Some sp => fst sp = off | None => o = off end ->
  step_ok s off (mkentry KEntity (m_start k, ev) (group gkey k) (Some (m_end k, ev)) c w).
Proof.
  intros s off o k c w ev Hk H1 H2 H3 H4.
  pose proof (omatch_progress _ _ _ _ Hnk Hk).
  pose proof (omatch_group_inside _ _ _ _ gkey Hk) as Hg.
  pose proof (omatch_span _ _ _ _ Hk) as [S1 [S2 [S3 _]]].
  eapply (step_entity s off (m_start k)); simpl; try reflexivity; try lia.
  - eapply span_inside_mono; [| |exact Hg]; lia.
  - apply span_inside_some; lia.
  - destruct c; lia.
Qed.

Lemma get_next_properties_step : forall s off, off < length s ->
  step_ok s off (get_next_properties reComment reWs reKey reEscapedEnd reTrailingWS gkey s off).
Proof.
  intros s off Hoff. unfold get_next_properties. cbv zeta.
  destruct (omatch reComment s off) as [x|] eqn:Hc.
  - pose proof (step_comment _ _ _ _ Hnc Hc) as Scom.
    pose proof (omatch_progress _ _ _ _ Hnc Hc) as Pc.
    pose proof (omatch_span _ _ _ _ Hc) as [Sc1 [Sc2 [Sc3 _]]].
    destruct (Nat.eqb off 0 && _); [exact Scom|].
    destruct (omatch reWs s (m_end x)) as [w|] eqn:Hw.
    + pose proof (omatch_span _ _ _ _ Hw) as [Sw1 [Sw2 [Sw3 _]]].
      destruct (1 <? count_char 10 (slice s (m_start w) (m_end w))); [exact Scom|].
      destruct (omatch reKey s (m_end w)) as [k|] eqn:Hk; [|exact Scom].
      destruct (props_entity s _ k (Some (mspan x)) (Some (mspan w)) Hk) as [ev [-> [E1 E2]]].
      eapply props_entity_step; eauto; simpl; lia.
    + destruct (omatch reKey s (m_end x)) as [k|] eqn:Hk; [|exact Scom].
      destruct (props_entity s _ k (Some (mspan x)) None Hk) as [ev [-> [E1 E2]]].
      eapply props_entity_step; eauto; simpl; lia.
  - destruct (omatch reWs s off) as [w|] eqn:Hw.
    + exact (step_white _ _ _ _ Hnw Hw).
    + destruct (omatch reKey s off) as [k|] eqn:Hk; [|apply step_junk; exact Hoff].
      destruct (props_entity s _ k None None Hk) as [ev [-> [E1 E2]]].
      eapply props_entity_step; eauto.
Qed.

Theorem get_next_properties_contract :
  gn_contract (stateless (get_next_properties reComment reWs reKey reEscapedEnd reTrailingWS gkey)).
Proof. apply stateless_contract. apply get_next_properties_step. Qed.
End PropertiesContract.

(* an entry that is exactly one non-empty match at [off], without pre-comment *)
Lemma step_match : forall r s off x kd ky vl wh, nullable r = false ->
  omatch r s off = Some x ->
  span_inside (m_start x) (m_end x) ky -> span_inside (m_start x) (m_end x) vl ->
  step_ok s off (mkentry kd (mspan x) ky vl None wh).
Proof.
  intros r s off x kd ky vl wh Hn H Hk Hv. pose proof (omatch_progress _ _ _ _ Hn H).
  pose proof (omatch_span _ _ _ _ H) as [H1 [H2 [H3 _]]].
  eapply (step_entity s off (m_start x)); simpl; try reflexivity; auto; lia.
Qed.

(* ---- ini ---------------------------------------------------------------------------------- *)
Section IniContract.
Variables (reComment reWs reKey reSection : rx) (gkey gval gsecval : nat).
Hypothesis Hnc : nullable reComment = false.
Hypothesis Hnw : nullable reWs = false.
Hypothesis Hnk : nullable reKey = false.
Hypothesis Hns : nullable reSection = false.

Lemma get_next_ini_step : forall s off, off < length s ->
  step_ok s off (get_next_ini reComment reWs reKey reSection gkey gval gsecval s off).
Proof.
  intros s off Hoff. unfold get_next_ini.
  destruct (omatch reSection s off) as [x|] eqn:Hs.
  - eapply step_match; eauto; eapply omatch_group_inside; eauto.
  - apply get_next_base_step; auto. simpl. apply create_base_ok. exact Hnk.
Qed.

Theorem get_next_ini_contract :
  gn_contract (stateless (get_next_ini reComment reWs reKey reSection gkey gval gsecval)).
Proof. apply stateless_contract. apply get_next_ini_step. Qed.
End IniContract.

(* ---- defines -------------------------------------------------------------------------------- *)
Section DefinesContract.
Variables (reComment reWs reKey rePI : rx) (gkey gval gpival : nat).
Hypothesis Hnc : nullable reComment = false.
Hypothesis Hnw : nullable reWs = false.
Hypothesis Hnk : nullable reKey = false.
Hypothesis Hnp : nullable rePI = false.

Lemma defines_entity_step : forall s off o k c w,
  omatch reKey s o = Some k -> off <= o ->
  match c with Some sp => fst sp = off | None => o = off end ->
  step_ok s off (mkentry KEntity (mspan k) (group gkey k) (group gval k) c w).
Proof.
  intros s off o k c w Hk H3 H4.
  pose proof (omatch_progress _ _ _ _ Hnk Hk).
  pose proof (omatch_span _ _ _ _ Hk) as [S1 [S2 [S3 _]]].
  eapply (step_entity s off (m_start k)); simpl; try reflexivity; try lia.
  - eapply omatch_group_inside; eauto.
  - eapply omatch_group_inside; eauto.
  - destruct c; lia.
Qed.

Lemma get_next_defines_step : forall fe s off, off < length s ->
  step_ok s off (fst (get_next_defines reComment reWs reKey rePI gkey gval gpival fe s off)).
Proof.
  intros fe s off Hoff. unfold get_next_defines. cbv zeta.
  destruct (omatch reComment s off) as [x|] eqn:Hc.
  - pose proof (step_comment _ _ _ _ Hnc Hc) as Scom.
    pose proof (omatch_progress _ _ _ _ Hnc Hc) as Pc.
    pose proof (omatch_span _ _ _ _ Hc) as [Sc1 [Sc2 [Sc3 _]]].
    destruct (omatch reWs s (m_end x)) as [w|] eqn:Hw.
    + pose proof (omatch_span _ _ _ _ Hw) as [Sw1 [Sw2 [Sw3 _]]].
      destruct (Nat.eqb (m_end x) 0 || _); [exact Scom|].
      destruct (1 <? count_char 10 (slice s (m_start w) (m_end w))); [exact Scom|].
      destruct (omatch reKey s (m_end w)) as [k|] eqn:Hk; [|exact Scom].
      simpl. eapply defines_entity_step; eauto; simpl; lia.
    + destruct (omatch reKey s (m_end x)) as [k|] eqn:Hk; [|exact Scom].
      simpl. eapply defines_entity_step; eauto; simpl; lia.
  - destruct (omatch reWs s off) as [w|] eqn:Hw.
    + pose proof (omatch_progress _ _ _ _ Hnw Hw) as Pw.
      pose proof (omatch_span _ _ _ _ Hw) as [Sw1 [Sw2 [Sw3 _]]].
      destruct (Nat.eqb off 0 || _).
      * simpl. eapply (step_match reWs); eauto; apply span_inside_none.
      * simpl. exact (step_white _ _ _ _ Hnw Hw).
    + destruct (omatch reKey s off) as [k|] eqn:Hk.
      * simpl. eapply defines_entity_step; eauto.
      * destruct (omatch rePI s off) as [p|] eqn:Hp.
        -- simpl. eapply (step_match rePI); eauto; eapply omatch_group_inside; eauto.
        -- simpl. apply step_junk. exact Hoff.
Qed.

Theorem get_next_defines_contract :
  gn_contract (get_next_defines reComment reWs reKey rePI gkey gval gpival).
Proof. intros c s off Hoff. apply get_next_defines_step. exact Hoff. Qed.
End DefinesContract.

(* ---- po --------------------------------------------------------------------------------------- *)
Lemma starts_with_length : forall p l, starts_with p l = true -> length p <= length l.
Proof.
  induction p as [|x p IH]; intros l H; simpl in *.
  - lia.
  - destruct l as [|y l]; [discriminate|]. apply andb_true_iff in H. destruct H as [_ H].
    apply IH in H. simpl. lia.
Qed.

Lemma startswith_at_bounds : forall key s cur, startswith_at key s cur = true ->
  cur + length key <= length s.
Proof.
  unfold startswith_at. intros key s cur H. apply andb_true_iff in H. destruct H as [H1 H2].
  apply Nat.leb_le in H1. apply starts_with_length in H2. rewrite skipn_length in H2. lia.
Qed.

Section PoContract.
Variables (reWs reListItem : rx).

Lemma list_items_bounds : forall fuel s cur l c', list_items reListItem fuel s cur = (l, c') ->
  cur <= length s -> cur <= c' /\ c' <= length s.
Proof.
  induction fuel as [|f IH]; intros s cur l c' H Hc; simpl in H.
  - inversion H; subst. lia.
  - destruct (omatch reListItem s cur) as [x|] eqn:E.
    + apply omatch_span in E. destruct E as [_ [E2 [E3 _]]].
      destruct (list_items reListItem f s (m_end x)) as [rest c1] eqn:L.
      apply IH in L; [|lia]. inversion H; subst. lia.
    + inversion H; subst. lia.
Qed.

Lemma parse_string_list_bounds : forall s cur key fr c',
  parse_string_list reListItem s cur key = Some (fr, c') ->
  cur + length key <= c' /\ c' <= length s.
Proof.
  unfold parse_string_list. intros s cur key fr c' H.
  destruct (startswith_at key s cur) eqn:E; [|discriminate].
  apply startswith_at_bounds in E.
  destruct (list_items reListItem (S (length s)) s (cur + length key)) as [l c1] eqn:L.
  apply list_items_bounds in L; [|lia].
  destruct l; [discriminate|]. inversion H; subst. lia.
Qed.

Lemma skip_ws_bounds : forall s c, c <= length s ->
  c <= skip_ws reWs s c /\ skip_ws reWs s c <= length s.
Proof.
  unfold skip_ws. intros s c Hc. destruct (omatch reWs s c) as [w|] eqn:E; [|lia].
  apply omatch_span in E. lia.
Qed.

Lemma create_po_ok : forall key, create_ok key (create_po reWs reListItem).
Proof.
  unfold create_ok, create_po, create_po_full. intros key s off k c w e Hk He.
  pose proof (omatch_span _ _ _ _ Hk) as [S1 [S2 [S3 _]]].
  set (start := m_start k) in *.
  assert (Hst : start <= length s) by lia.
  destruct (match parse_string_list reListItem s start s_msgctxt with
            | Some (fr, c1) => (Some fr, skip_ws reWs s c1)
            | None => (None, start)
            end) as [msgctxt cursor] eqn:E0.
  assert (Hcur : start <= cursor /\ cursor <= length s).
  { destruct (parse_string_list reListItem s start s_msgctxt) as [[fr c1]|] eqn:P0.
    - apply parse_string_list_bounds in P0. inversion E0; subst.
      pose proof (skip_ws_bounds s c1). lia.
    - inversion E0; subst. lia. }
  destruct (parse_string_list reListItem s cursor s_msgid) as [[msgid c2]|] eqn:P1;
    [|discriminate].
  apply parse_string_list_bounds in P1.
  pose proof (skip_ws_bounds s c2 ltac:(lia)) as W2.
  destruct (parse_string_list reListItem s (skip_ws reWs s c2) s_msgstr) as [[msgstr c4]|] eqn:P2;
    [|discriminate].
  apply parse_string_list_bounds in P2.
  assert (L1 : length s_msgid = 5) by reflexivity.
  inversion He; subst e; clear He. simpl.
  split; [reflexivity|]. split; [reflexivity|]. split; [reflexivity|].
  split; [lia|]. split; [lia|]. split; apply span_inside_some; lia.
Qed.
End PoContract.

Theorem get_next_po_contract : forall reComment reWs reKey reListItem,
  nullable reComment = false -> nullable reWs = false ->
  gn_contract (stateless (get_next_base (fmt_po reComment reWs reKey reListItem))).
Proof.
  intros. apply get_next_base_contract; simpl; auto. apply create_po_ok.
Qed.

(* ---- at the end of the text ----------------------------------------------------------------------- *)
Lemma omatch_at_end : forall r s off, nullable r = false -> length s <= off ->
  omatch r s off = None.
Proof.
  intros r s off Hn Hl. destruct (omatch r s off) as [x|] eqn:E; [|reflexivity].
  pose proof (omatch_progress _ _ _ _ Hn E). apply omatch_span in E. lia.
Qed.

Lemma junk_end_at_end : forall exprs s off je, length s <= off ->
  junk_end exprs s off je = je.
Proof.
  induction exprs as [|r rest IH]; intros s off je Hl; simpl; [reflexivity|].
  destruct (osearch r s (S off)) as [x|] eqn:E.
  - apply osearch_span in E. lia.
  - apply IH. exact Hl.
Qed.

Lemma get_junk_at_end : forall exprs s, get_junk exprs s (length s) = mk_junk (length s, length s).
Proof.
  intros exprs s. unfold get_junk. rewrite junk_end_at_end; [reflexivity|lia].
Qed.

Lemma get_next_base_at_end : forall F s,
  nullable (f_comment F) = false -> nullable (f_ws F) = false -> nullable (f_key F) = false ->
  get_next_base F s (length s) = mk_junk (length s, length s).
Proof.
  intros F s Hnc Hnw Hnk. unfold get_next_base. cbv zeta.
  rewrite (omatch_at_end (f_comment F)), (omatch_at_end (f_ws F)), (omatch_at_end (f_key F));
    auto. apply get_junk_at_end.
Qed.

(* ---- dtd --------------------------------------------------------------------------------------------- *)
Section DtdContract.
Variables (reComment reWs reKey reHeader rePE : rx) (gkey gval gpekey gpeval : nat).
Hypothesis Hnc : nullable reComment = false.
Hypothesis Hnw : nullable reWs = false.
Hypothesis Hnk : nullable reKey = false.
Hypothesis Hnp : nullable rePE = false.
(* the value group includes its two quotes *)
Hypothesis val_wide : forall s off x sp,
  omatch reKey s off = Some x -> group gval x = Some sp -> fst sp + 2 <= snd sp.
Hypothesis header_bom : forall s,
  (exists x, omatch reHeader s 0 = Some x) <-> (exists s', s = bom :: s').

Lemma create_dtd_ok : create_ok reKey (create_dtd gkey gval).
Proof.
  unfold create_ok, create_dtd. intros s off k c w e Hk He.
  inversion He; subst e; clear He. simpl.
  pose proof (omatch_progress _ _ _ _ Hnk Hk).
  pose proof (omatch_span _ _ _ _ Hk) as [S1 [S2 [S3 _]]].
  split; [reflexivity|]. split; [reflexivity|]. split; [reflexivity|].
  split; [lia|]. split; [lia|]. split; [eapply omatch_group_inside; eauto|].
  destruct (group gval k) as [[a b]|] eqn:G; [|apply span_inside_none].
  pose proof (val_wide _ _ _ _ Hk G) as Hw. simpl in Hw.
  pose proof (omatch_group_inside _ _ _ _ gval Hk _ G) as Hi. simpl in Hi.
  apply span_inside_some; lia.
Qed.

Let gn := get_next_dtd reComment reWs reKey reHeader rePE gkey gval gpekey gpeval.
Let F := fmt_dtd reComment reWs reKey gkey gval.

(* what get_next_dtd does after it has fixed the offset *)
Definition dtd_at (s : str) (offset : nat) : entry :=
  let entity := get_next_base F s offset in
  match e_kind entity with
  | KJunk =>
      match omatch rePE s offset with
      | Some x => mkentry KEntity (mspan x) (group gpekey x) (group gpeval x) None None
      | None => entity
      end
  | _ => entity
  end.

Lemma dtd_offset : forall s off,
  (if Nat.eqb off 0 && match omatch reHeader s 0 with Some _ => true | None => false end
   then off + 1 else off) = off + (if Nat.eqb off 0 then skip_of s else 0).
Proof.
  intros s off. destruct (Nat.eqb off 0); simpl; [|lia].
  destruct (omatch reHeader s 0) as [x|] eqn:E.
  - destruct (proj1 (header_bom s) (ex_intro _ x E)) as [s' Hs]. subst s. reflexivity.
  - destruct s as [|c s']; simpl; [lia|].
    destruct (N.eqb c bom) eqn:Ec; [|lia].
    apply N.eqb_eq in Ec. subst c.
    destruct (proj2 (header_bom (bom :: s')) (ex_intro _ s' eq_refl)) as [x Hx].
    rewrite Hx in E. discriminate.
Qed.

Lemma gn_dtd_at : forall s off,
  gn s off = dtd_at s (off + (if Nat.eqb off 0 then skip_of s else 0)).
Proof.
  intros s off. unfold gn, get_next_dtd. cbv zeta. rewrite dtd_offset. reflexivity.
Qed.

Lemma dtd_at_step : forall s off, off < length s -> step_ok s off (dtd_at s off).
Proof.
  intros s off Hoff. unfold dtd_at. cbv zeta.
  assert (Hb : step_ok s off (get_next_base F s off)).
  { apply get_next_base_step; auto. apply create_dtd_ok. }
  destruct (e_kind (get_next_base F s off)); try exact Hb.
  destruct (omatch rePE s off) as [x|] eqn:Hp; [|exact Hb].
  eapply (step_match rePE); eauto; eapply omatch_group_inside; eauto.
Qed.

Lemma dtd_at_end : forall s, dtd_at s (length s) = mk_junk (length s, length s).
Proof.
  intros s. unfold dtd_at. cbv zeta. rewrite get_next_base_at_end; auto. simpl.
  rewrite omatch_at_end; auto.
Qed.

Theorem get_next_dtd_contract : dtd_contract (stateless gn).
Proof.
  intros s. unfold stateless. simpl. split; [|split].
  - intros _ off H1 H2. rewrite gn_dtd_at.
    destruct (Nat.eqb off 0) eqn:E; [apply Nat.eqb_eq in E; lia|].
    rewrite Nat.add_0_r. apply dtd_at_step. exact H2.
  - intros H. rewrite gn_dtd_at. simpl. apply dtd_at_step. exact H.
  - intros Hs. rewrite gn_dtd_at. subst s. simpl.
    change 1 with (length [bom]) at 1. rewrite dtd_at_end. reflexivity.
Qed.
End DtdContract.
