(* Iteration of ProjectFiles as "the first claim on a key wins": soundness,
   completeness, the claiming rule, agreement with match.  (C13) *)
From Coq Require Import ZArith NArith List Bool Arith Lia Sorted Permutation.
From CL Require Import Base.Sx Base.Str Model.ProjectFiles Proofs.ProjectFilesBase.
Import ListNotations.

Lemma NoDup_snoc {T} : forall (l : list T) x, NoDup l -> ~ In x l -> NoDup (l ++ [x]).
Proof.
  induction l as [|y l IH]; intros x Hn Hx; simpl.
  - constructor; [intros []|constructor].
  - inversion Hn; subst. constructor.
    + rewrite in_app_iff. intros [H|[H|[]]]; [contradiction|]. apply Hx. left. congruence.
    + apply IH; [assumption|]. intro H. apply Hx. right. exact H.
Qed.

Section Iter.
Context {M : Type}.
Variable prefix : M -> str.
Variable matches : M -> str -> bool.
Variable sub : M -> M -> str -> option str.
Variable fs : list str.

Notation mrec := (@mrec M).
Notation files := (files prefix matches sub fs).
Notation excluded := (excluded matches sub).
Notation match_ms := (match_ms matches sub).
Notation step_matcher := (step_matcher prefix matches sub fs).
Notation step_matcher_ref := (step_matcher_ref prefix matches sub fs).
Notation iter_locale := (iter_locale prefix matches sub fs).
Notation iter_reference := (iter_reference prefix matches sub fs).
Notation iterate := (iterate prefix matches sub fs).
Notation pf_match := (pf_match matches sub).
Notation osub := (osub sub).

(* ---- the known dict: first claim wins --------------------------------------- *)
Definition kstep (known : known_t) (kv : okey * info) : known_t := kadd (fst kv) (snd kv) known.
Definition kfold (cl : list (okey * info)) (known : known_t) : known_t := fold_left kstep cl known.

Definition first_claim (k : okey) (cl : list (okey * info)) : option info :=
  match find (fun kv => okey_eqb k (fst kv)) cl with
  | Some kv => Some (snd kv)
  | None => None
  end.

Lemma kmem_In : forall k known, kmem k known = true <-> In k (map fst known).
Proof.
  intros k known. unfold kmem. rewrite existsb_exists. split.
  - intros [kv [H E]]. apply okey_eqb_eq in E. subst. apply in_map. exact H.
  - intro H. apply in_map_iff in H as [kv [E H]]. exists kv. split; [exact H|].
    apply okey_eqb_eq. symmetry. exact E.
Qed.

Lemma first_claim_app : forall k a b,
  first_claim k (a ++ b) = match first_claim k a with Some v => Some v | None => first_claim k b end.
Proof.
  intros k a b. unfold first_claim. induction a as [|x a IH]; simpl; [reflexivity|].
  destruct (okey_eqb k (fst x)); [reflexivity | exact IH].
Qed.

Lemma first_claim_None : forall k cl, first_claim k cl = None <-> ~ In k (map fst cl).
Proof.
  intros k cl. unfold first_claim. induction cl as [|x cl IH]; simpl.
  - split; auto.
  - destruct (okey_eqb k (fst x)) eqn:E.
    + apply okey_eqb_eq in E. split; [discriminate | intro H; exfalso; apply H; left; congruence].
    + rewrite IH. split.
      * intros H [H1|H1]; [|contradiction]. rewrite H1 in E.
        assert (okey_eqb k k = true) by (apply okey_eqb_eq; reflexivity). congruence.
      * intros H H1. apply H. right. exact H1.
Qed.

Lemma first_claim_In : forall k v cl, first_claim k cl = Some v -> In (k, v) cl.
Proof.
  intros k v cl. unfold first_claim. destruct (find _ cl) as [kv|] eqn:E; [|discriminate].
  intro H. inversion H; subst. apply find_some in E as [Hin E]. apply okey_eqb_eq in E.
  destruct kv; simpl in *; subst. exact Hin.
Qed.

(* the dict after the claims: old entries stay, a new key gets its first claim *)
Lemma kfold_spec : forall cl known k v,
  NoDup (map fst known) ->
  (In (k, v) (kfold cl known) <->
   In (k, v) known \/ (~ In k (map fst known) /\ first_claim k cl = Some v)).
Proof.
  induction cl as [|[k0 v0] cl IH]; intros known k v Hnd; simpl.
  - split; [auto | intros [H|[_ H]]; [exact H | discriminate]].
  - unfold kstep. simpl fst. simpl snd. unfold kadd. destruct (kmem k0 known) eqn:Em.
    + rewrite IH by exact Hnd. apply kmem_In in Em. unfold first_claim. simpl.
      destruct (okey_eqb k k0) eqn:E.
      * apply okey_eqb_eq in E. subst. split; [|tauto].
        intros [H|[H _]]; [left; exact H | contradiction].
      * reflexivity.
    + assert (Hk0 : ~ In k0 (map fst known)).
      { intro H. apply kmem_In in H. congruence. }
      assert (Hnd' : NoDup (map fst (known ++ [(k0, v0)]))).
      { rewrite map_app. simpl. apply NoDup_snoc; assumption. }
      rewrite IH by exact Hnd'. rewrite map_app, !in_app_iff. simpl. unfold first_claim. simpl.
      destruct (okey_eqb k k0) eqn:E.
      * apply okey_eqb_eq in E. subst. split.
        -- intros [[H|[H|[]]]|[H _]].
           ++ left; exact H.
           ++ inversion H; subst. right. split; [exact Hk0 | reflexivity].
           ++ exfalso. apply H. right. left. reflexivity.
        -- intros [H|[_ H]]; [left; left; exact H|]. inversion H; subst. left. right. left. reflexivity.
      * assert (Hne : k0 <> k).
        { intro H. subst. assert (okey_eqb k k = true) by (apply okey_eqb_eq; reflexivity). congruence. }
        split.
        -- intros [[H|[H|[]]]|[H1 H2]].
           ++ left; exact H.
           ++ inversion H; subst. contradiction.
           ++ right. split; [|exact H2]. intro H. apply H1. left. exact H.
        -- intros [H|[H1 H2]]; [left; left; exact H|]. right. split; [|exact H2].
           intros [H|[H|[]]]; [contradiction | congruence].
Qed.

Lemma kfold_nodup : forall cl known, NoDup (map fst known) -> NoDup (map fst (kfold cl known)).
Proof.
  induction cl as [|[k0 v0] cl IH]; intros known Hnd; simpl; [exact Hnd|].
  apply IH. unfold kstep, kadd. simpl. destruct (kmem k0 known) eqn:Em; [exact Hnd|].
  rewrite map_app. simpl. apply NoDup_snoc; [exact Hnd|].
  intro H. apply kmem_In in H. congruence.
Qed.

Lemma kfold_app : forall a b known, kfold (a ++ b) known = kfold b (kfold a known).
Proof. intros. unfold kfold. apply fold_left_app. Qed.

(* ---- the claims made by the matchers, in order -------------------------------- *)
Definition l10n_info (m : mrec) (p : str) : info :=
  (osub (m_l10n m) (m_ref m) p, osub (m_l10n m) (m_merge m) p, m_test m).
Definition ref_info (m : mrec) (r : M) (q : str) : info :=
  (Some q, osub r (m_merge m) q, m_test m).

Definition claims_of (loc : option str) (ex : option (list mrec)) (m : mrec) : list (okey * info) :=
  map (fun p => (Some p, l10n_info m p)) (files loc ex (m_l10n m)) ++
  match m_ref m with
  | None => []
  | Some r => map (fun q => (sub r (m_l10n m) q, ref_info m r q)) (files loc ex r)
  end.

Definition claims (loc : option str) (ex : option (list mrec)) (ms : list mrec) :=
  flat_map (claims_of loc ex) ms.

Lemma fold_map_kstep : forall {T} (g : T -> okey * info) (h : known_t -> T -> known_t) l known,
  (forall kn x, h kn x = kstep kn (g x)) ->
  fold_left h l known = kfold (map g l) known.
Proof.
  intros T g h l. induction l as [|x l IH]; intros known H; simpl; [reflexivity|].
  rewrite H. apply IH. exact H.
Qed.

Lemma step_matcher_claims : forall loc ex known m,
  step_matcher loc ex known m = kfold (claims_of loc ex m) known.
Proof.
  intros loc ex known m. unfold step_matcher, claims_of. rewrite kfold_app.
  rewrite (fold_map_kstep (fun p => (Some p, l10n_info m p)) (step_l10n sub m)) by reflexivity.
  destruct (m_ref m) as [r|]; [|reflexivity].
  rewrite (fold_map_kstep (fun q => (sub r (m_l10n m) q, ref_info m r q)) (step_ref sub m r))
    by reflexivity.
  reflexivity.
Qed.

Lemma iter_claims : forall loc ex ms known,
  fold_left (step_matcher loc ex) ms known = kfold (claims loc ex ms) known.
Proof.
  intros loc ex ms. induction ms as [|m ms IH]; intro known; simpl; [reflexivity|].
  rewrite step_matcher_claims, IH. unfold claims. simpl. rewrite kfold_app. reflexivity.
Qed.

(* ---- _files ------------------------------------------------------------------------- *)
Lemma walk_In : forall base p,
  In p (walk fs base) <-> base <> [] /\ In p fs /\ starts_with (ensure_slash base) p = true.
Proof.
  intros base p. unfold walk. destruct base as [|c base].
  - split; [intros [] | intros [H _]; congruence].
  - rewrite filter_In. split; [intros [H1 H2]; repeat split; [discriminate | |]; assumption | tauto].
Qed.

Lemma files_sound : forall loc ex m p,
  In p (files loc ex m) -> In p fs /\ matches m p = true /\ excluded loc ex p = false.
Proof.
  intros loc ex m p. unfold ProjectFiles.files.
  destruct (isfile fs (prefix m)) eqn:Ef.
  - destruct (excluded loc ex (prefix m)) eqn:Ex; [intros []|].
    destruct (matches m (prefix m)) eqn:Em; [|intros []].
    intros [<-|[]]. repeat split; try assumption. apply mem_str_In. exact Ef.
  - rewrite filter_In. intros [Hw Hc]. apply walk_In in Hw as [_ [Hw _]].
    apply andb_true_iff in Hc as [H1 H2]. apply negb_true_iff in H1. auto.
Qed.

Lemma files_complete : forall loc ex m p,
  In p fs -> matches m p = true -> excluded loc ex p = false ->
  starts_with (prefix m) p = true -> In SLASH (prefix m) ->
  (isfile fs (prefix m) = true -> p = prefix m) ->
  In p (files loc ex m).
Proof.
  intros loc ex m p Hfs Hm Hex Hpre Hsl Hfile. unfold ProjectFiles.files.
  destruct (isfile fs (prefix m)) eqn:Ef.
  - rewrite <- (Hfile eq_refl). rewrite Hex, Hm. left. reflexivity.
  - rewrite filter_In. split; [|rewrite Hex, Hm; reflexivity].
    apply walk_In. destruct (ends_slash (prefix m)) eqn:Es.
    + repeat split; [| exact Hfs |].
      * intro H. rewrite H in Hsl. destruct Hsl.
      * unfold ensure_slash. rewrite Es. exact Hpre.
    + destruct (dirname_prefix _ Hsl) as [H1 H2]. repeat split; [exact H1 | exact Hfs |].
      eapply starts_with_trans; eassumption.
Qed.

(* ---- finish --------------------------------------------------------------------------- *)
Lemma finish_ok : forall known out,
  finish known = POk out -> out = map to_entry (ksort known).
Proof.
  intros known out. unfold finish. destruct (kmem None known && (2 <=? length known)); [discriminate|].
  intro H. inversion H. reflexivity.
Qed.

Lemma to_entry_key : forall kv, fst (fst (fst (to_entry kv))) = fst kv.
Proof. intros [k [[r mg] t]]. reflexivity. Qed.

Lemma finish_In : forall known out k r mg t,
  finish known = POk out -> (In (k, r, mg, t) out <-> In (k, (r, mg, t)) known).
Proof.
  intros known out k r mg t H. apply finish_ok in H. subst. rewrite in_map_iff. split.
  - intros [[k' [[r' mg'] t']] [E Hin]]. simpl in E. inversion E; subst.
    eapply Permutation_in; [apply ksort_perm | exact Hin].
  - intro Hin. exists (k, (r, mg, t)). split; [reflexivity|].
    eapply Permutation_in; [apply Permutation_sym; apply ksort_perm | exact Hin].
Qed.

Definition ekey (e : entry) : okey := fst (fst (fst e)).

Lemma finish_sorted : forall known out,
  NoDup (map fst known) -> finish known = POk out -> StronglySorted okey_lt (map ekey out).
Proof.
  intros known out Hnd H. apply finish_ok in H. subst. rewrite map_map.
  rewrite (map_ext _ fst) by (intro kv; apply to_entry_key).
  apply sorted_strict; [apply ksort_sorted|].
  eapply Permutation_NoDup; [|exact Hnd]. apply Permutation_map. apply Permutation_sym. apply ksort_perm.
Qed.

(* ---- the master lemma: what iter_locale yields ------------------------------------------ *)
Lemma iter_locale_spec : forall f out,
  iter_locale f = POk out ->
  forall k r mg t,
    In (k, r, mg, t) out <->
    first_claim k (claims (pf_locale f) (pf_exclude f) (pf_matchers f)) = Some (r, mg, t).
Proof.
  intros f out H k r mg t. unfold ProjectFiles.iter_locale in H. rewrite iter_claims in H.
  rewrite (finish_In _ _ _ _ _ _ H). rewrite kfold_spec by constructor. simpl. tauto.
Qed.

Lemma iter_locale_sorted : forall f out,
  iter_locale f = POk out -> StronglySorted okey_lt (map ekey out).
Proof.
  intros f out H. unfold ProjectFiles.iter_locale in H. rewrite iter_claims in H.
  eapply finish_sorted; [|exact H]. apply kfold_nodup. constructor.
Qed.

(* the same for iter_reference *)
Definition rclaims_of (loc : option str) (m : mrec) : list (okey * info) :=
  match m_ref m with
  | None => []
  | Some r => map (fun q => (sub r r q, (Some q, None, m_test m))) (files loc None r)
  end.
Definition rclaims (loc : option str) (ms : list mrec) := flat_map (rclaims_of loc) ms.

Lemma iter_rclaims : forall loc ms known,
  fold_left (step_matcher_ref loc) ms known = kfold (rclaims loc ms) known.
Proof.
  intros loc ms. induction ms as [|m ms IH]; intro known; simpl; [reflexivity|].
  rewrite IH. unfold rclaims. simpl. rewrite kfold_app. f_equal.
  unfold ProjectFiles.step_matcher_ref, rclaims_of. destruct (m_ref m) as [r|]; [|reflexivity].
  apply (fold_map_kstep (fun q => (sub r r q, (Some q, None, m_test m)))). reflexivity.
Qed.

Lemma iter_reference_spec : forall f out,
  iter_reference f = POk out ->
  forall k r mg t,
    In (k, r, mg, t) out <->
    first_claim k (rclaims (pf_locale f) (pf_matchers f)) = Some (r, mg, t).
Proof.
  intros f out H k r mg t. unfold ProjectFiles.iter_reference in H. rewrite iter_rclaims in H.
  rewrite (finish_In _ _ _ _ _ _ H). rewrite kfold_spec by constructor. simpl. tauto.
Qed.

Lemma iter_reference_sorted : forall f out,
  iter_reference f = POk out -> StronglySorted okey_lt (map ekey out).
Proof.
  intros f out H. unfold ProjectFiles.iter_reference in H. rewrite iter_rclaims in H.
  eapply finish_sorted; [|exact H]. apply kfold_nodup. constructor.
Qed.

Lemma iterate_sorted : forall f out,
  iterate f = POk out -> StronglySorted okey_lt (map ekey out).
Proof.
  intros f out. unfold ProjectFiles.iterate. destruct (truthy (pf_locale f)).
  - apply iter_locale_sorted.
  - apply iter_reference_sorted.
Qed.

(* ---- soundness ------------------------------------------------------------------------------ *)
Lemma claims_In : forall loc ex ms k v,
  In (k, v) (claims loc ex ms) ->
  exists m, In m ms /\
    ((exists p, k = Some p /\ v = l10n_info m p /\ In p (files loc ex (m_l10n m))) \/
     (exists r q, m_ref m = Some r /\ k = sub r (m_l10n m) q /\ v = ref_info m r q /\
                  In q (files loc ex r))).
Proof.
  intros loc ex ms k v H. unfold claims in H. apply in_flat_map in H as [m [Hm H]].
  exists m. split; [exact Hm|]. unfold claims_of in H. apply in_app_iff in H as [H|H].
  - left. apply in_map_iff in H as [p [E Hp]]. inversion E; subst. eauto.
  - right. destruct (m_ref m) as [r|] eqn:Er; [|destruct H].
    apply in_map_iff in H as [q [E Hq]]. inversion E; subst. exists r, q. auto.
Qed.

Lemma iter_locale_sound : forall f out k r mg t,
  iter_locale f = POk out -> In (k, r, mg, t) out ->
  exists m, In m (pf_matchers f) /\ t = m_test m /\
    ((exists p, k = Some p /\ In p fs /\ matches (m_l10n m) p = true /\
                excluded (pf_locale f) (pf_exclude f) p = false /\
                r = osub (m_l10n m) (m_ref m) p /\ mg = osub (m_l10n m) (m_merge m) p) \/
     (exists rm q, m_ref m = Some rm /\ In q fs /\ matches rm q = true /\
                   excluded (pf_locale f) (pf_exclude f) q = false /\
                   k = sub rm (m_l10n m) q /\ r = Some q /\ mg = osub rm (m_merge m) q)).
Proof.
  intros f out k r mg t H Hin. apply (iter_locale_spec _ _ H) in Hin.
  apply first_claim_In in Hin. apply claims_In in Hin as [m [Hm [[p [Ek [Ev Hp]]]|[rm [q [Er [Ek [Ev Hq]]]]]]]].
  - exists m. split; [exact Hm|]. unfold l10n_info in Ev. inversion Ev; subst. split; [reflexivity|].
    left. apply files_sound in Hp as [H1 [H2 H3]]. exists p. auto 10.
  - exists m. split; [exact Hm|]. unfold ref_info in Ev. inversion Ev; subst. split; [reflexivity|].
    right. apply files_sound in Hq as [H1 [H2 H3]]. exists rm, q. auto 10.
Qed.

(* ---- completeness ------------------------------------------------------------------------------ *)
Lemma first_claim_some : forall k v cl, In (k, v) cl -> exists v', first_claim k cl = Some v'.
Proof.
  intros k v cl H. destruct (first_claim k cl) as [v'|] eqn:E; [eauto|].
  apply first_claim_None in E. exfalso. apply E. apply in_map_iff. exists (k, v). auto.
Qed.

Lemma claims_l10n_In : forall loc ex ms m p,
  In m ms -> In p (files loc ex (m_l10n m)) -> In (Some p, l10n_info m p) (claims loc ex ms).
Proof.
  intros loc ex ms m p Hm Hp. unfold claims. apply in_flat_map. exists m. split; [exact Hm|].
  unfold claims_of. apply in_app_iff. left. apply in_map_iff. exists p. auto.
Qed.

Lemma claims_ref_In : forall loc ex ms m r q,
  In m ms -> m_ref m = Some r -> In q (files loc ex r) ->
  In (sub r (m_l10n m) q, ref_info m r q) (claims loc ex ms).
Proof.
  intros loc ex ms m r q Hm Hr Hq. unfold claims. apply in_flat_map. exists m. split; [exact Hm|].
  unfold claims_of. apply in_app_iff. right. rewrite Hr. apply in_map_iff. exists q. auto.
Qed.

(* [walkable m p]: the walk started at the prefix of m reaches p *)
Definition walkable (m : M) (p : str) : Prop :=
  starts_with (prefix m) p = true /\ In SLASH (prefix m) /\
  (isfile fs (prefix m) = true -> p = prefix m).

Lemma iter_locale_complete_l10n : forall f out m p,
  iter_locale f = POk out ->
  In m (pf_matchers f) -> In p fs -> matches (m_l10n m) p = true ->
  excluded (pf_locale f) (pf_exclude f) p = false -> walkable (m_l10n m) p ->
  exists r mg t, In (Some p, r, mg, t) out.
Proof.
  intros f out m p H Hm Hfs Hmt Hex [W1 [W2 W3]].
  assert (Hp : In p (files (pf_locale f) (pf_exclude f) (m_l10n m))) by (apply files_complete; assumption).
  destruct (first_claim_some _ _ _ (claims_l10n_In _ _ _ _ _ Hm Hp)) as [[[r mg] t] E].
  exists r, mg, t. apply (iter_locale_spec _ _ H). exact E.
Qed.

Lemma iter_locale_complete_ref : forall f out m rm q,
  iter_locale f = POk out ->
  In m (pf_matchers f) -> m_ref m = Some rm -> In q fs -> matches rm q = true ->
  excluded (pf_locale f) (pf_exclude f) q = false -> walkable rm q ->
  exists r mg t, In (sub rm (m_l10n m) q, r, mg, t) out.
Proof.
  intros f out m rm q H Hm Hr Hfs Hmt Hex [W1 [W2 W3]].
  assert (Hq : In q (files (pf_locale f) (pf_exclude f) rm)) by (apply files_complete; assumption).
  destruct (first_claim_some _ _ _ (claims_ref_In _ _ _ _ _ _ Hm Hr Hq)) as [[[r mg] t] E].
  exists r, mg, t. apply (iter_locale_spec _ _ H). exact E.
Qed.

(* ---- which rule claims an existing localized file ------------------------------------------------ *)
Lemma first_claim_map_l10n : forall (g : str -> info) p l,
  In p l -> first_claim (Some p) (map (fun x => (Some x, g x)) l) = Some (g p).
Proof.
  intros g p l. unfold first_claim. induction l as [|x l IH]; intros H; [destruct H|]. simpl.
  destruct (str_eqb p x) eqn:E.
  - apply pf_str_eqb_eq in E. subst. reflexivity.
  - destruct H as [H|H]; [subst; rewrite pf_str_eqb_refl in E; discriminate | apply IH; exact H].
Qed.

Lemma claims_app : forall loc ex a b, claims loc ex (a ++ b) = claims loc ex a ++ claims loc ex b.
Proof. intros. unfold claims. apply flat_map_app. Qed.

Section Claim.
(* what is needed of Matcher.sub (C11): when a reference file of an earlier matcher is
   mapped to p, p is a path of that matcher's l10n pattern *)
Definition sub_into (pre : list mrec) (p : str) : Prop :=
  forall m r q, In m pre -> m_ref m = Some r -> In q fs -> sub r (m_l10n m) q = Some p ->
                matches (m_l10n m) p = true.

Lemma first_claim_l10n : forall loc ex pre m0 post p,
  sub_into pre p ->
  (forall m, In m pre -> matches (m_l10n m) p = false) ->
  In p (files loc ex (m_l10n m0)) ->
  first_claim (Some p) (claims loc ex (pre ++ m0 :: post)) = Some (l10n_info m0 p).
Proof.
  intros loc ex pre m0 post p Hsub Hpre Hp.
  rewrite claims_app, first_claim_app.
  assert (E : first_claim (Some p) (claims loc ex pre) = None).
  { apply first_claim_None. intro H. apply in_map_iff in H as [[k v] [Ek H]]. simpl in Ek. subst.
    apply claims_In in H as [m [Hm [[p' [Ek [_ Hp']]]|[r [q [Er [Ek [_ Hq]]]]]]]].
    - inversion Ek; subst. apply files_sound in Hp' as [_ [H2 _]]. rewrite (Hpre _ Hm) in H2. discriminate.
    - symmetry in Ek. apply files_sound in Hq as [Hq _].
      pose proof (Hsub _ _ _ Hm Er Hq Ek) as Hx. rewrite (Hpre _ Hm) in Hx. discriminate. }
  rewrite E. change (m0 :: post) with ([m0] ++ post). rewrite claims_app, first_claim_app.
  unfold claims at 1. simpl. rewrite app_nil_r. unfold claims_of. rewrite first_claim_app.
  rewrite (first_claim_map_l10n (l10n_info m0)) by exact Hp. reflexivity.
Qed.

Lemma iter_locale_claim : forall f out pre m0 post p,
  sub_into pre p ->
  iter_locale f = POk out ->
  pf_matchers f = pre ++ m0 :: post ->
  (forall m, In m pre -> matches (m_l10n m) p = false) ->
  In p fs -> matches (m_l10n m0) p = true ->
  excluded (pf_locale f) (pf_exclude f) p = false -> walkable (m_l10n m0) p ->
  forall r mg t,
    In (Some p, r, mg, t) out <->
    (r = osub (m_l10n m0) (m_ref m0) p /\ mg = osub (m_l10n m0) (m_merge m0) p /\ t = m_test m0).
Proof.
  intros f out pre m0 post p Hsub H Ems Hpre Hfs Hmt Hex [W1 [W2 W3]] r mg t.
  rewrite (iter_locale_spec _ _ H), Ems.
  rewrite first_claim_l10n; [| exact Hsub | exact Hpre | apply files_complete; assumption].
  unfold l10n_info. split.
  - intro E. inversion E. auto.
  - intros [-> [-> ->]]. reflexivity.
Qed.

(* ---- match ------------------------------------------------------------------------------------------- *)
Lemma match_ms_skip : forall loc pre rest p,
  (forall m, In m pre -> matches (m_l10n m) p = false) ->
  (forall m r, In m pre -> m_ref m = Some r -> matches r p = false) ->
  match_ms loc (pre ++ rest) p = match_ms loc rest p.
Proof.
  intros loc pre rest p H1 H2. induction pre as [|m pre IH]; [reflexivity|]. simpl.
  rewrite (H1 m) by (left; reflexivity). rewrite andb_false_r.
  destruct (m_ref m) as [r|] eqn:Er.
  - rewrite (H2 m r) by (auto; left; reflexivity).
    apply IH; intros; [apply H1 | eapply H2]; try right; eauto.
  - apply IH; intros; [apply H1 | eapply H2]; try right; eauto.
Qed.

(* enumeration = lookup, for an existing localized file *)
Lemma lookup_agrees_l10n : forall f out pre m0 post p,
  sub_into pre p ->
  iter_locale f = POk out ->
  pf_locale f <> None ->
  pf_matchers f = pre ++ m0 :: post ->
  (forall m, In m pre -> matches (m_l10n m) p = false) ->
  (forall m r, In m pre -> m_ref m = Some r -> matches r p = false) ->
  In p fs -> matches (m_l10n m0) p = true ->
  excluded (pf_locale f) (pf_exclude f) p = false -> walkable (m_l10n m0) p ->
  forall e, In e out /\ ekey e = Some p <-> pf_match f p = Some e.
Proof.
  intros f out pre m0 post p Hsub H Hloc Ems Hpre Hpre' Hfs Hmt Hex W e.
  assert (Hn : not_none (pf_locale f) = true) by (destruct (pf_locale f); [reflexivity | congruence]).
  unfold ProjectFiles.pf_match. rewrite Hex, andb_false_r, Ems, match_ms_skip by assumption.
  simpl. rewrite Hmt, Hn. simpl.
  destruct e as [[[k r] mg] t]. unfold ekey. simpl. split.
  - intros [Hin ->].
    apply (iter_locale_claim _ _ _ _ _ _ Hsub H Ems Hpre Hfs Hmt Hex W) in Hin as [-> [-> ->]]. reflexivity.
  - intro E. inversion E; subst. split; [|reflexivity].
    apply (iter_locale_claim _ _ _ _ _ _ Hsub H Ems Hpre Hfs Hmt Hex W). auto.
Qed.
End Claim.

(* lookup by the reference path of a file that only one (rule, file) pair maps to its
   localized path: "coverage does not overlap" *)
Lemma lookup_agrees_ref : forall f out pre m0 post r0 q,
  iter_locale f = POk out ->
  pf_matchers f = pre ++ m0 :: post ->
  (forall m, In m pre -> matches (m_l10n m) q = false) ->
  (forall m r, In m pre -> m_ref m = Some r -> matches r q = false) ->
  matches (m_l10n m0) q = false ->
  m_ref m0 = Some r0 -> In q fs -> matches r0 q = true ->
  excluded (pf_locale f) (pf_exclude f) q = false -> walkable r0 q ->
  (* no other claim on the localized path *)
  (forall v, In (sub r0 (m_l10n m0) q, v) (claims (pf_locale f) (pf_exclude f) (pf_matchers f)) ->
             v = ref_info m0 r0 q) ->
  exists e, In e out /\ pf_match f q = Some e /\
            e = (sub r0 (m_l10n m0) q, Some q, osub r0 (m_merge m0) q, m_test m0).
Proof.
  intros f out pre m0 post r0 q H Ems Hpre Hpre' Hl Hr Hfs Hmt Hex [W1 [W2 W3]] Huniq.
  eexists. split; [|split; [|reflexivity]].
  - apply (iter_locale_spec _ _ H).
    assert (Hq : In q (files (pf_locale f) (pf_exclude f) r0)) by (apply files_complete; assumption).
    assert (Hin : In m0 (pf_matchers f)) by (rewrite Ems; apply in_app_iff; right; left; reflexivity).
    pose proof (claims_ref_In _ _ _ _ _ _ Hin Hr Hq) as Hc.
    destruct (first_claim_some _ _ _ Hc) as [v E]. rewrite E.
    apply first_claim_In in E. apply Huniq in E. subst. reflexivity.
  - unfold ProjectFiles.pf_match. rewrite Hex, andb_false_r, Ems, match_ms_skip by assumption.
    simpl. rewrite Hl, andb_false_r, Hr, Hmt. reflexivity.
Qed.

(* ---- iteration does not raise when Matcher.sub is defined on what matches ------------------------ *)
Lemma iter_locale_total : forall f,
  (forall m r q, In m (pf_matchers f) -> m_ref m = Some r -> matches r q = true ->
                 sub r (m_l10n m) q <> None) ->
  exists out, iter_locale f = POk out.
Proof.
  intros f Hsub. unfold ProjectFiles.iter_locale. rewrite iter_claims. unfold finish.
  match goal with |- context [kmem None ?kn] => destruct (kmem None kn) eqn:E end; [|simpl; eauto].
  exfalso. apply kmem_In in E. apply in_map_iff in E as [[k v] [Ek E]]. simpl in Ek. subst.
  apply kfold_spec in E; [|constructor]. destruct E as [[]|[_ E]].
  apply first_claim_In in E. apply claims_In in E as [m [Hm [[p [Ek _]]|[r [q [Er [Ek [_ Hq]]]]]]]].
  - discriminate.
  - apply files_sound in Hq as [_ [Hq _]]. symmetry in Ek. eapply Hsub; eauto.
Qed.

End Iter.
