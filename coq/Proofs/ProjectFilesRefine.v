(* Refinement: ProjectFiles only asks its Matcher parameter about the files of the tree.
   Two instantiations (say: finite tables computed from Matcher objects, and the Matcher
   functions themselves) that agree on the prefixes and on the files of [fs] give the same
   enumeration and the same lookups.  (C13) *)
From Coq Require Import ZArith NArith List Bool Arith.
From CL Require Import Base.Sx Base.Str Model.ProjectFiles Proofs.ProjectFilesBase Proofs.ProjectFilesProofs.
Import ListNotations.

Section Refine.
Context {M : Type}.
Variables prefix prefix' : M -> str.
Variables matches matches' : M -> str -> bool.
Variables sub sub' : M -> M -> str -> option str.
Variable fs : list str.

Hypothesis Hprefix : forall m, prefix m = prefix' m.
Hypothesis Hmatches : forall m p, In p fs -> matches m p = matches' m p.
Hypothesis Hsub : forall m m' p, In p fs -> sub m m' p = sub' m m' p.

Lemma osub_ext : forall m o p, In p fs -> osub sub m o p = osub sub' m o p.
Proof. intros m [m'|] p Hp; simpl; [apply Hsub; exact Hp | reflexivity]. Qed.

Lemma match_ms_ext : forall loc (ms : list (@mrec M)) p, In p fs ->
  match_ms matches sub loc ms p = match_ms matches' sub' loc ms p.
Proof.
  intros loc ms p Hp. induction ms as [|m ms IH]; simpl; [reflexivity|].
  rewrite (Hmatches _ _ Hp), !(osub_ext _ _ _ Hp). destruct (not_none loc && matches' (m_l10n m) p); [reflexivity|].
  destruct (m_ref m) as [r|]; [|exact IH].
  rewrite (Hmatches _ _ Hp), (Hsub _ _ _ Hp), (osub_ext _ _ _ Hp). destruct (matches' r p); [reflexivity | exact IH].
Qed.

Lemma excluded_ext : forall loc ex p, In p fs ->
  excluded matches sub loc ex p = excluded matches' sub' loc ex p.
Proof. intros loc [xms|] p Hp; simpl; [rewrite (match_ms_ext _ _ _ Hp)|]; reflexivity. Qed.

Lemma files_ext : forall loc ex m,
  files prefix matches sub fs loc ex m = files prefix' matches' sub' fs loc ex m.
Proof.
  intros loc ex m. unfold files. rewrite <- Hprefix. destruct (isfile fs (prefix m)) eqn:Ef.
  - apply mem_str_In in Ef. rewrite (excluded_ext _ _ _ Ef), (Hmatches _ _ Ef). reflexivity.
  - apply filter_ext_in. intros p Hp. apply (walk_In fs) in Hp as [_ [Hp _]].
    rewrite (excluded_ext _ _ _ Hp), (Hmatches _ _ Hp). reflexivity.
Qed.

Lemma files_in_fs : forall loc ex m p, In p (files prefix' matches' sub' fs loc ex m) -> In p fs.
Proof. intros loc ex m p H. apply (files_sound prefix' matches' sub' fs) in H. tauto. Qed.

Lemma fold_left_ext_in {A B} (g h : A -> B -> A) : forall l a,
  (forall x a, In x l -> g a x = h a x) -> fold_left g l a = fold_left h l a.
Proof.
  induction l as [|x l IH]; intros a H; simpl; [reflexivity|].
  rewrite (H x a) by (left; reflexivity). apply IH. intros y b Hy. apply H. right. exact Hy.
Qed.

Lemma step_matcher_ext : forall loc ex known m,
  step_matcher prefix matches sub fs loc ex known m = step_matcher prefix' matches' sub' fs loc ex known m.
Proof.
  intros loc ex known m. unfold step_matcher. rewrite !files_ext.
  assert (E1 : forall kn, fold_left (step_l10n sub m) (files prefix' matches' sub' fs loc ex (m_l10n m)) kn =
                          fold_left (step_l10n sub' m) (files prefix' matches' sub' fs loc ex (m_l10n m)) kn).
  { intro kn. apply fold_left_ext_in. intros p a Hp. apply files_in_fs in Hp. unfold step_l10n.
    rewrite !(osub_ext _ _ _ Hp). reflexivity. }
  rewrite E1. destruct (m_ref m) as [r|]; [|reflexivity]. rewrite files_ext.
  apply fold_left_ext_in. intros p a Hp. apply files_in_fs in Hp. unfold step_ref.
  rewrite (Hsub _ _ _ Hp), (osub_ext _ _ _ Hp). reflexivity.
Qed.

Theorem iter_locale_ext : forall f,
  iter_locale prefix matches sub fs f = iter_locale prefix' matches' sub' fs f.
Proof.
  intro f. unfold iter_locale. f_equal. generalize (@nil (okey * info)).
  induction (pf_matchers f) as [|m ms IH]; intro kn; simpl; [reflexivity|].
  rewrite step_matcher_ext. apply IH.
Qed.

Theorem iter_reference_ext : forall f,
  iter_reference prefix matches sub fs f = iter_reference prefix' matches' sub' fs f.
Proof.
  intro f. unfold iter_reference. f_equal. generalize (@nil (okey * info)).
  induction (pf_matchers f) as [|m ms IH]; intro kn; simpl; [reflexivity|].
  rewrite <- IH. f_equal. unfold step_matcher_ref. destruct (m_ref m) as [r|]; [|reflexivity].
  rewrite files_ext. apply fold_left_ext_in. intros p a Hp. apply files_in_fs in Hp.
  unfold step_refonly. rewrite (Hsub _ _ _ Hp). reflexivity.
Qed.

Theorem iterate_ext : forall f,
  iterate prefix matches sub fs f = iterate prefix' matches' sub' fs f.
Proof.
  intro f. unfold iterate. rewrite iter_locale_ext, iter_reference_ext. reflexivity.
Qed.

Theorem pf_match_ext : forall f p, In p fs ->
  pf_match matches sub f p = pf_match matches' sub' f p.
Proof.
  intros f p Hp. unfold pf_match. rewrite (excluded_ext _ _ _ Hp), (match_ms_ext _ _ _ Hp). reflexivity.
Qed.

End Refine.
