(* .properties: the entries merge.py / serializer.py see for the text of a legal block list
   ([centries_of], Proofs/PropsShape.v) are the view (kind, key or comment value, Entity.all,
   raw value) of what the parser yields for that text (C02 blocks_properties). *)
From Coq Require Import ZArith NArith List Bool Arith Lia.
From CL Require Import Base.Sx Base.Res Base.Str Model.Entry Model.Parse Model.ParseFormats
                       Proofs.C02Roundtrip Proofs.C02BlocksRx Proofs.C02BlocksVal Proofs.C02Blocks
                       Model.Channels Proofs.PropsShape.
Import ListNotations.
Local Open Scope nat_scope.

Local Arguments vraw : simpl never.
Local Arguments ctext : simpl never.
Local Arguments Nat.sub : simpl never.

Definition ckind_of (k : kind) : ckind :=
  match k with
  | KEntity => CEntity | KComment => CComment | KWhitespace => CWhite | KJunk => CJunk
  | KSection => CSection | KInstruction => COther
  end.

(* what the harness hands to the models for a parsed entry of the text s *)
Definition centry_view (s : str) (e : entry) : centry :=
  mkc (ckind_of (e_kind e))
      (match e_kind e with
       | KComment => comment_val (COffset 1) (all_text s e)
       | KWhitespace => []
       | _ => opt_text s (e_key e)
       end)
      (all_text s e)
      (match e_kind e with KEntity => opt_text s (e_val e) | _ => [] end) 0.

Lemma view_flush (a w rest : str) :
  map (centry_view (a ++ w ++ rest)) (flush (length a) (length w)) = cflush w.
Proof.
  destruct w as [|c w']; [reflexivity|].
  change (flush (length a) (length (c :: w'))) with [mk_white (length a, length a + length (c :: w'))].
  cbn [map cflush].
  unfold centry_view, mk_white, all_text, span_start. cbn [e_kind e_pre e_span fst snd ckind_of].
  rewrite (slice_mid a (c :: w') rest). reflexivity.
Qed.

Lemma cents_view : forall bs, Forall legal_block bs -> forall (a w : str),
  map (centry_view (a ++ w ++ file_text bs)) (ents (length a) (length w) bs) = cents w bs.
Proof.
  induction bs as [|b rest IH]; intros Hleg a w.
  - cbn [ents cents file_text map concat]. apply view_flush.
  - inversion Hleg as [|b' rest' Hb Hrest]; subst b' rest'. specialize (IH Hrest).
    rewrite file_text_cons. destruct b as [x|cs|cs key b1 sc b2 conts lastl nl].
    + cbn [ents cents text]. rewrite <- app_length.
      replace (a ++ w ++ x ++ file_text rest) with (a ++ (w ++ x) ++ file_text rest)
        by (rewrite <- !app_assoc; reflexivity).
      apply IH.
    + unfold legal_block in Hb. cbn [legal_blockb] in Hb. apply andb_true_iff in Hb.
      destruct Hb as [Hc1 _].
      assert (Hne : cs <> []) by (destruct cs; [discriminate|discriminate]).
      cbn [ents cents text]. rewrite map_app. f_equal.
      * apply view_flush.
      * set (A0 := a ++ w ++ cbody cs).
        assert (Hs : a ++ w ++ ctext cs ++ file_text rest = A0 ++ [10%N] ++ file_text rest).
        { unfold A0. rewrite (ctext_body cs Hne). rewrite <- !app_assoc. reflexivity. }
        assert (El : length a + length w + length (cbody cs) = length A0)
          by (unfold A0; rewrite !app_length; lia).
        cbn [map]. f_equal.
        -- unfold centry_view, mk_comment, all_text, span_start, com_centry.
           cbn [e_kind e_pre e_span fst snd ckind_of].
           assert (Sl : slice (a ++ w ++ ctext cs ++ file_text rest) (length a + length w)
                          (length a + length w + length (cbody cs)) = cbody cs).
           { rewrite (ctext_body cs Hne).
             replace (a ++ w ++ (cbody cs ++ [10%N]) ++ file_text rest)
               with ((a ++ w) ++ cbody cs ++ [10%N] ++ file_text rest)
               by (rewrite <- !app_assoc; reflexivity).
             rewrite <- app_length. apply slice_mid. }
           rewrite Sl. reflexivity.
        -- rewrite Hs, El. change 1 with (length [10%N]). apply IH.
    + set (raw := vraw conts lastl).
      set (K0 := a ++ w ++ ctext cs).
      set (V0 := K0 ++ key ++ b1 ++ sc :: b2).
      set (A0 := V0 ++ raw).
      set (s := a ++ w ++ text (BEntity cs key b1 sc b2 conts lastl nl) ++ file_text rest).
      assert (Hs : s = A0 ++ eol nl ++ file_text rest).
      { unfold s, A0, V0, K0. cbn [text]. fold raw. norm_app. reflexivity. }
      assert (Ek : length a + length w + length (ctext cs) = length K0)
        by (unfold K0; rewrite !app_length; lia).
      assert (Ev : length K0 + length key + length b1 + 1 + length b2 = length V0).
      { unfold V0. rewrite !app_length. simpl. rewrite ?app_length. lia. }
      assert (Ee : length V0 + length raw = length A0) by (unfold A0; rewrite app_length; lia).
      cbn [ents cents]. fold raw. rewrite map_app. f_equal; [apply view_flush|].
      cbn [map]. rewrite Ek, Ev, Ee. f_equal.
      * unfold centry_view, all_text, ent_centry. cbn [e_kind e_key e_val e_pre e_span ckind_of opt_text fst snd].
        fold raw.
        assert (S1 : slice s (length K0) (length K0 + length key) = key).
        { unfold s. cbn [text]. fold raw.
          replace (a ++ w ++ (ctext cs ++ key ++ b1 ++ sc :: b2 ++ raw ++ eol nl) ++ file_text rest)
            with (K0 ++ key ++ (b1 ++ sc :: b2 ++ raw ++ eol nl) ++ file_text rest)
            by (unfold K0; norm_app; reflexivity).
          apply slice_mid. }
        assert (S2 : slice s (length V0) (length A0) = raw).
        { rewrite <- Ee, Hs. unfold A0. rewrite <- app_assoc. apply slice_mid. }
        assert (S3 : slice s (length a + length w) (length A0) = ent_pre cs key b1 sc b2 ++ raw).
        { replace (length A0) with (length (a ++ w) + length (ent_pre cs key b1 sc b2 ++ raw)).
          2:{ rewrite <- Ee, <- Ev, <- Ek. unfold ent_pre. rewrite !app_length. simpl. rewrite ?app_length. lia. }
          rewrite <- (app_length a w). unfold s. cbn [text]. fold raw.
          replace (a ++ w ++ (ctext cs ++ key ++ b1 ++ sc :: b2 ++ raw ++ eol nl) ++ file_text rest)
            with ((a ++ w) ++ (ent_pre cs key b1 sc b2 ++ raw) ++ eol nl ++ file_text rest)
            by (unfold ent_pre; norm_app; reflexivity).
          apply slice_mid. }
        unfold span_text. cbn [fst snd]. rewrite S1, S2. f_equal.
        unfold span_start. cbn [e_pre e_span fst snd].
        destruct cs as [|c cs'].
        -- cbn [fst].
           assert (length K0 = length a + length w) as -> by (rewrite <- Ek; unfold ctext; cbn; lia).
           exact S3.
        -- cbn [fst]. exact S3.
      * rewrite Hs. apply IH.
Qed.

(* the entries of the parse of a legal file, as the models see them *)
Theorem centries_view : forall bs, Forall legal_block bs -> adjacent_ok bs ->
  exists es, walk_properties (file_text bs) = Ok es /\
             map (centry_view (file_text bs)) es = centries_of bs.
Proof.
  intros bs Hl Ha. exists (entries_of bs). split; [apply blocks_properties; assumption|].
  exact (cents_view bs Hl [] []).
Qed.
