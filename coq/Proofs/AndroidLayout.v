(* {android_locale} <-> {locale} layouts with no bound locale: the locale is
   detected from the path.  Patterns  a {android_locale} b  and  c {locale} d
   with literal a, b, c, d: one open group between two literals. *)
From Coq Require Import NArith List Bool Arith Lia.
From CL Require Import Base.Sx Base.Res Base.Str Regex.Rx Regex.RxLemmas Regex.RxSem
  Model.Pattern Model.Matcher Proofs.MatcherBase Proofs.MatcherSpec Proofs.MatcherCompile
  Proofs.MatcherSound Proofs.MatcherExpand Proofs.MatcherComplete Proofs.PathUnique
  Proofs.AndroidProofs.
Import ListNotations.

Local Arguments expand_node : simpl never.
Local Arguments to_android : simpl never.

(* ---- one lazy group between two literals ------------------------------------------------ *)
Definition hole_rx (a b : str) : rx :=
  cat_list (map chr_lit a ++ [Grp 1 (cat_list [rx_lazy_any])] ++ map chr_lit b ++ [Eol false]).

Lemma plain_lits_list : forall t, forallb plain (map chr_lit t) = true.
Proof. induction t; simpl; auto. Qed.

Lemma plain_hole : forall a b, plain (hole_rx a b) = true.
Proof.
  intros. unfold hole_rx. apply plain_cat_list. rewrite !forallb_app, !plain_lits_list. reflexivity.
Qed.

Lemma last_not_nl : forall (b : str), b <> [] -> has_char nl b = false ->
  forall x y, x ++ b ++ [nl] = y ++ b -> False.
Proof.
  intros b Hb Hn x y H. apply (f_equal (@rev N)) in H. rewrite !rev_app_distr in H. simpl in H.
  destruct (rev b) as [|c rb] eqn:E.
  - apply (f_equal (@rev N)) in E. rewrite rev_involutive in E. simpl in E. contradiction.
  - simpl in H. inversion H; subst c.
    assert (Hin : has_char nl (rev b) = true) by (rewrite E; reflexivity).
    rewrite has_char_rev in Hin. congruence.
Qed.

Theorem hole_match : forall a b X, X <> [] -> has_char nl X = false ->
  b <> [] -> has_char nl b = false ->
  exists x, rmatch (hole_rx a b) (a ++ X ++ b) 0 = MSome x /\
            group_text (a ++ X ++ b) 1 x = Some X.
Proof.
  intros a b X HX HXn Hb Hbn. set (path := a ++ X ++ b).
  (* completeness: the engine accepts *)
  assert (Hex : exists sF, sem (hole_rx a b) (st_at path 0) sF).
  { destruct (sem_lits_intro a (st_at path 0) (X ++ b) eq_refl) as [s1 [A1 [A2 [A3 A4]]]].
    destruct (iter_chr_intro true [(nl, nl)] X s1 (not_char_chars _ _ HXn) b A3)
      as [s2 [B1 [B2 [B3 B4]]]].
    set (s2' := set_cap 1 (pos s1, pos s2) s2).
    assert (Hs2' : suf s2' = b ++ []) by (simpl; rewrite B3, app_nil_r; reflexivity).
    destruct (sem_lits_intro b s2' [] Hs2') as [s3 [C1 [C2 [C3 C4]]]].
    exists s3. unfold hole_rx. apply sem_cat_list, sem_list_app. exists s1. split; [exact A1|].
    econstructor.
    - constructor. apply (sem_cat_list [rx_lazy_any]). econstructor; [|constructor].
      unfold rx_lazy_any, rx_any. econstructor; [exact B1|]. destruct X; [congruence|simpl; lia].
    - apply sem_list_app. exists s3. split; [exact C1|].
      econstructor; [|constructor]. constructor. unfold at_eol. rewrite C3. reflexivity. }
  destruct Hex as [sF Hsem].
  destruct (rmatch_complete _ path sF (plain_hole a b) Hsem) as [x Hx].
  exists x. split; [exact Hx|].
  (* soundness: whatever the engine found, the group holds X *)
  apply rmatch_sem in Hx. destruct Hx as [sG [HsemG Hres]]. subst x.
  unfold hole_rx in HsemG. apply sem_cat_list, sem_list_app in HsemG.
  destruct HsemG as [s1 [Ha Hrest]]. apply sem_lits in Ha. destruct Ha as [Ca Caps_a].
  inversion Hrest as [|? ? ? sg ? Hg Hrest2]; subst. clear Hrest.
  inversion Hg as [| | | | | |? ? ? s2 Hbody| | | | |]; subst. clear Hg.
  apply (sem_cat_list [rx_lazy_any]) in Hbody.
  inversion Hbody as [|? ? ? ? ? Hl Hnil]; subst. inversion Hnil; subst. clear Hbody Hnil.
  unfold rx_lazy_any in Hl. inversion Hl; subst. clear Hl.
  match goal with H : iter _ _ _ _ |- _ => apply iter_chr in H; destruct H as [X' [CX [_ [_ CapsX]]]] end.
  apply sem_list_app in Hrest2. destruct Hrest2 as [s3 [Hb' He]]. apply sem_lits in Hb'.
  destruct Hb' as [Cb Caps_b].
  inversion He as [|? ? ? ? ? He1 He2]; subst. inversion He2; subst. clear He He2.
  inversion He1; subst. clear He1.
  match goal with H : at_eol false _ = true |- _ => apply at_eol_false in H; rename H into Heol end.
  (* positions *)
  pose proof (at_path_start path) as P0.
  destruct (at_path_consumed _ _ _ _ P0 Ca) as [P1 _].
  destruct (at_path_consumed _ _ _ _ P1 CX) as [P2 HX'].
  (* the text *)
  assert (Hpath : path = a ++ X' ++ b ++ suf sG).
  { destruct Ca as [Ca _]. destruct CX as [CX _]. destruct Cb as [Cb _]. simpl in Ca, Cb.
    rewrite CX, Cb in Ca. exact Ca. }
  assert (HXX : X' = X).
  { unfold path in Hpath. apply app_inv_head in Hpath. destruct Heol as [Heol|Heol]; rewrite Heol in Hpath.
    - rewrite app_nil_r in Hpath. apply app_inv_tail in Hpath. auto.
    - exfalso. symmetry in Hpath. eapply (last_not_nl b Hb Hbn); eauto. }
  rewrite HXX in HX'. unfold group_text, group. simpl. rewrite Caps_b. simpl. rewrite <- HX'. reflexivity.
Qed.

(* ---- the two layouts --------------------------------------------------------------------------- *)
Local Arguments N.eqb : simpl never.

Definition android_side (a b : str) (k : nat) : matcher :=
  mkm (mkpat [NLit a; NAndroid false; NLit b] None k) [].
Definition locale_side (c d : str) (k : nat) : matcher :=
  mkm (mkpat [NLit c; NVar s_locale false; NLit d] None k) [].

Lemma regex_android_side : forall a b k,
  regex_of_pattern (m_env (android_side a b k)) (m_pat (android_side a b k)) =
  Ok (hole_rx a b, [(s_android_locale, 1)]).
Proof.
  intros a b k. unfold regex_of_pattern, rx_pattern_with, android_side, hole_rx. simpl.
  rewrite app_nil_r, <- app_assoc. reflexivity.
Qed.

Lemma regex_locale_side : forall c d k,
  regex_of_pattern (m_env (locale_side c d k)) (m_pat (locale_side c d k)) =
  Ok (hole_rx c d, [(s_locale, 1)]).
Proof.
  intros c d k. unfold regex_of_pattern, rx_pattern_with, locale_side, hole_rx. simpl.
  rewrite app_nil_r, <- app_assoc. reflexivity.
Qed.

(* the characters of a locale of the grammar and of its qualifier *)
Lemma grammar_chars : forall l, bcp47_grammar l -> l <> [] /\ has_char nl l = false.
Proof.
  intros l [lang [tail [Hl [Hlang Htail]]]]. subst l.
  inversion Hlang; subst; inversion Htail; subst; (split; [discriminate|]);
    unfold has_char, nl; norm; reflexivity.
Qed.

Lemma to_android_form : forall l, bcp47_grammar l ->
  exists x y ltail tail, lower x /\ lower y /\
    (ltail = [] \/ exists z, ltail = [z] /\ lower z) /\ tail_shape tail /\
    to_android l = Ok (android_form (x :: y :: ltail) tail).
Proof.
  intros l [lang [tail [Hl [Hlang Htail]]]]. subst l.
  pose proof (tail_boundary tail Htail) as Hbd.
  inversion Hlang as [a b Ha Hb Hno|a b c0 Ha Hb Hc]; subst lang.
  - simpl app. rewrite to_android_unfold, legacy_out_sub.
    assert (Hout : (if hit3 (104, 101)%N (105, 100)%N (121, 105)%N (a :: b :: tail)
                    then out_word a b ++ tail else a :: b :: tail) = out_word a b ++ tail).
    { unfold hit3. rewrite Hbd, andb_true_r. unfold out_word. cbn [fst snd].
      destruct (pair_is a b 104 101); [reflexivity|].
      destruct (pair_is a b 105 100); [reflexivity|].
      destruct (pair_is a b 121 105); reflexivity. }
    rewrite Hout. simpl bind.
    destruct (out_word_lower a b Ha Hb) as [a' [b' [Ho [Ha' Hb']]]]. rewrite Ho.
    exists a', b', [], tail. split; [auto|]. split; [auto|]. split; [auto|]. split; [auto|].
    apply android_tail_2; auto.
  - simpl app. rewrite to_android_unfold, legacy_out_sub.
    assert (Hc45 : N.eqb c0 45 = false) by (apply N.eqb_neq; unfold lower in Hc; lia).
    assert (Hout : hit3 (104, 101)%N (105, 100)%N (121, 105)%N (a :: b :: c0 :: tail) = false).
    { unfold hit3, boundary. rewrite Hc45. apply andb_false_r. }
    rewrite Hout. simpl bind. exists a, b, [c0], tail.
    split; [auto|]. split; [auto|]. split; [right; eauto|]. split; [auto|].
    change (a :: b :: c0 :: tail) with ([a; b; c0] ++ tail). apply android_tail_3; auto.
Qed.

Lemma android_chars : forall l A, bcp47_grammar l -> to_android l = Ok A ->
  A <> [] /\ has_char nl A = false.
Proof.
  intros l A Hg HA. destruct (to_android_form l Hg) as [x [y [ltail [tail [Hx [Hy [Hlt [Ht Hf]]]]]]]].
  rewrite Hf in HA. inversion HA; subst A. clear HA Hf.
  destruct Hlt as [Hlt|[z [Hlt Hz]]]; subst ltail; inversion Ht; subst;
    (split; [discriminate|]); unfold android_form, has_char, replace_char, nl; norm; reflexivity.
Qed.

(* C11 over the BCP 47 grammar of C12_android_roundtrip *)
Theorem android_layout_roundtrip : forall a b c d k k' l A,
  bcp47_grammar l -> to_android l = Ok A ->
  b <> [] -> has_char nl b = false -> d <> [] -> has_char nl d = false ->
  sub (android_side a b k) (locale_side c d k') (a ++ A ++ b) = Ok (Some (c ++ l ++ d)) /\
  sub (locale_side c d k') (android_side a b k) (c ++ l ++ d) = Ok (Some (a ++ A ++ b)).
Proof.
  intros a b c d k k' l A Hg HA Hb Hbn Hd Hdn.
  destruct (android_chars l A Hg HA) as [HA0 HAn]. destruct (grammar_chars l Hg) as [Hl0 Hln].
  pose proof (android_roundtrip l Hg) as Hrt. rewrite HA in Hrt. simpl in Hrt.
  split.
  - unfold sub, match_. rewrite regex_android_side. cbn [bind].
    destruct (hole_match a b A HA0 HAn Hb Hbn) as [x [Hx Hgx]]. rewrite Hx.
    unfold groupdict. simpl map. rewrite Hgx.
    unfold add_locale, has_key. simpl lookup. cbv iota beta. simpl andb. cbv iota.
    rewrite Hrt. simpl bind.
    unfold expand_pattern, expand_with, locale_side. simpl p_root. simpl p_nodes. cbv iota beta.
    unfold sub_env. simpl. rewrite ?expand_node_S. simpl. rewrite app_nil_r. reflexivity.
  - unfold sub, match_. rewrite regex_locale_side. cbn [bind].
    destruct (hole_match c d l Hl0 Hln Hd Hdn) as [x [Hx Hgx]]. rewrite Hx.
    unfold groupdict. simpl map. rewrite Hgx.
    unfold add_locale, has_key. simpl lookup. cbv iota beta. simpl andb. cbv iota. simpl bind.
    unfold expand_pattern, expand_with, android_side. simpl p_root. simpl p_nodes. cbv iota beta.
    match goal with |- context [expand_node (expand_fuel ?E) ?E true] =>
      change E with [(s_locale, EVLit l)] end.
    change (expand_fuel [(s_locale, EVLit l)]) with 5.
    simpl expand_children. rewrite !expand_node_S. simpl. rewrite HA. simpl. rewrite app_nil_r. reflexivity.
Qed.
