(* .properties: Entity.wrap of the model (apply_wrap over the parse context and the spans of
   the parsed entity, Model/Serializer.v — the function the harness compares with the
   implementation) is, on the entities of a legal block list, the function [wrap_props] of
   the re-parse theorem: the new raw value replaces the tail of the entity text. *)
From Coq Require Import ZArith NArith List Bool Arith Lia.
From CL Require Import Base.Sx Base.Res Base.Str Model.Entry Model.Parse Model.ParseFormats
                       Proofs.C02Roundtrip Proofs.C02BlocksRx Proofs.C02BlocksVal Proofs.C02Blocks
                       Model.Channels Model.Serializer Proofs.ChannelsProofs Proofs.PropsShape
                       Proofs.PropsView Proofs.MergeProofs.
Import ListNotations.
Local Open Scope nat_scope.

Local Arguments vraw : simpl never.
Local Arguments ctext : simpl never.
Local Arguments Nat.sub : simpl never.

Definition text_pre (r : centry) : str :=
  firstn (length (c_text r) - length (c_val r)) (c_text r).
Definition wrap_props (r : centry) (raw : str) : result centry :=
  Ok (literal (c_key r) raw (text_pre r ++ raw)).

Definition zs (sp : span) : zspan := (Z.of_nat (fst sp), Z.of_nat (snd sp)).
(* what the harness hands over for a parsed entity: span, val_span, pre_comment span *)
Definition wrap_info_of (e : entry) : wrapinfo :=
  WBase (zs (e_span e)) (option_map zs (e_val e)) (option_map zs (e_pre e)).

Lemma pyslice_nat (s : str) a b : a <= length s -> b <= length s ->
  pyslice s (Z.of_nat a) (Z.of_nat b) = slice s a b.
Proof.
  intros Ha Hb. unfold pyslice, py_index.
  assert (forall n, (Z.of_nat n <? 0)%Z = false) as E by (intros; apply Z.ltb_ge; lia).
  rewrite !E, !Nat2Z.id, !Nat.min_l by assumption. reflexivity.
Qed.

Lemma cons_inv_local {A} (x y : A) l l' : x :: l = y :: l' -> x = y /\ l = l'.
Proof. intros H. injection H. auto. Qed.

Definition wrap_good (s : str) (e : entry) : Prop :=
  e_kind e = KEntity -> forall raw,
  apply_wrap s (wrap_info_of e) (c_key (centry_view s e)) raw = wrap_props (centry_view s e) raw.

Lemma flush_good s off w : Forall (wrap_good s) (flush off w).
Proof. destruct w; constructor; [intros H; discriminate|constructor]. Qed.

Lemma ents_wrap : forall bs, Forall legal_block bs -> forall (a w : str),
  Forall (wrap_good (a ++ w ++ file_text bs)) (ents (length a) (length w) bs).
Proof.
  induction bs as [|b rest IH]; intros Hleg a w.
  - cbn [ents]. apply flush_good.
  - inversion Hleg as [|b' rest' Hb Hrest]; subst b' rest'. specialize (IH Hrest).
    rewrite file_text_cons. destruct b as [x|cs|cs key b1 sc b2 conts lastl nl].
    + cbn [ents text]. rewrite <- app_length.
      replace (a ++ w ++ x ++ file_text rest) with (a ++ (w ++ x) ++ file_text rest)
        by (rewrite <- !app_assoc; reflexivity).
      apply IH.
    + unfold legal_block in Hb. cbn [legal_blockb] in Hb. apply andb_true_iff in Hb.
      destruct Hb as [Hc1 _].
      assert (Hne : cs <> []) by (destruct cs; [discriminate|discriminate]).
      cbn [ents text]. apply Forall_app. split; [apply flush_good|].
      constructor; [intros H; discriminate|].
      set (A0 := a ++ w ++ cbody cs).
      assert (Hs : a ++ w ++ ctext cs ++ file_text rest = A0 ++ [10%N] ++ file_text rest).
      { unfold A0. rewrite (ctext_body cs Hne). rewrite <- !app_assoc. reflexivity. }
      assert (El : length a + length w + length (cbody cs) = length A0)
        by (unfold A0; rewrite !app_length; lia).
      rewrite Hs, El. change 1 with (length [10%N]). apply IH.
    + set (raw0 := vraw conts lastl).
      set (ep := ent_pre cs key b1 sc b2).
      set (s := a ++ w ++ text (BEntity cs key b1 sc b2 conts lastl nl) ++ file_text rest).
      set (A0 := (a ++ w) ++ ep ++ raw0).
      assert (Hs : s = A0 ++ eol nl ++ file_text rest).
      { unfold s, A0, ep, ent_pre. cbn [text]. fold raw0. norm_app. reflexivity. }
      assert (Hs2 : s = (a ++ w) ++ ep ++ raw0 ++ eol nl ++ file_text rest).
      { rewrite Hs. unfold A0. norm_app. reflexivity. }
      cbn [ents]. fold raw0. apply Forall_app. split; [apply flush_good|].
      set (k := length a + length w + length (ctext cs)).
      assert (Ek : k + length key + length b1 + 1 + length b2 = length (a ++ w) + length ep).
      { unfold k, ep, ent_pre. rewrite !app_length. simpl. rewrite ?app_length. lia. }
      assert (Ee : k + length key + length b1 + 1 + length b2 + length raw0 = length A0).
      { rewrite Ek. unfold A0. rewrite !app_length. lia. }
      constructor.
      * intros _ raw.
        pose proof (cents_view (BEntity cs key b1 sc b2 conts lastl nl :: rest) Hleg a w) as Hv.
        rewrite file_text_cons in Hv. fold s in Hv. cbn [ents cents] in Hv. fold raw0 in Hv.
        rewrite map_app in Hv. unfold s in Hv at 1. rewrite view_flush in Hv. fold s in Hv.
        apply app_inv_head in Hv.
        cbn [map] in Hv. apply cons_inv_local in Hv. destruct Hv as [Hview _]. fold k in Hview.
        rewrite Hview. unfold wrap_props.
        assert (Tp : text_pre (ent_centry cs key b1 sc b2 conts lastl) = ep).
        { unfold text_pre, ent_centry. cbn [c_text c_val]. fold raw0. fold ep. rewrite app_length.
          replace (length ep + length raw0 - length raw0) with (length ep + 0) by lia.
          rewrite firstn_app_2. cbn. apply app_nil_r. }
        rewrite Tp. cbn [c_key ent_centry].
        unfold apply_wrap, wrap_info_of. cbn [e_span e_val e_pre option_map].
        assert (Hlen : length A0 <= length s) by (rewrite Hs, app_length; lia).
        (* the slice in front of the value and the empty slice behind it *)
        assert (P1 : forall pre,
                   pre = match cs with [] => None | _ :: _ => Some (length a + length w, k - 1) end ->
                   pyslice s (Serializer.span_start (zs (k, k + length key + length b1 + 1 + length b2 + length raw0))
                                (option_map zs pre))
                           (fst (zs (k + length key + length b1 + 1 + length b2,
                                     k + length key + length b1 + 1 + length b2 + length raw0))) = ep).
        { intros pre ->.
          assert (Hgoal : forall z, z = Z.of_nat (length (a ++ w)) ->
                    pyslice s z (fst (zs (k + length key + length b1 + 1 + length b2,
                                          k + length key + length b1 + 1 + length b2 + length raw0))) = ep).
          { intros z ->. cbn [zs fst snd]. rewrite Ek. rewrite pyslice_nat.
            - rewrite Hs2. apply slice_mid.
            - rewrite Hs2, !app_length. lia.
            - rewrite Hs2, !app_length. lia. }
          apply Hgoal.
          destruct cs as [|c cs']; cbn [option_map Serializer.span_start zs fst snd].
          - unfold k. unfold ctext. cbn. rewrite app_length. f_equal. lia.
          - rewrite app_length. reflexivity. }
        f_equal. f_equal. f_equal; [apply (P1 _ eq_refl)|].
        cbn [zs fst snd]. rewrite Ee.
        rewrite pyslice_nat by assumption. rewrite slice_empty by lia. rewrite app_nil_r. reflexivity.
      * rewrite Ee, Hs. apply IH.
Qed.

(* on the entities of the parse of a legal file, the model's Entity.wrap is wrap_props *)
Theorem wrap_view : forall bs, Forall legal_block bs ->
  forall e, In e (entries_of bs) -> e_kind e = KEntity -> forall raw,
  apply_wrap (file_text bs) (wrap_info_of e) (c_key (centry_view (file_text bs) e)) raw =
  wrap_props (centry_view (file_text bs) e) raw.
Proof.
  intros bs Hl e He Hk raw. pose proof (ents_wrap bs Hl [] []) as H. cbn [app length] in H.
  rewrite Forall_forall in H. apply (H e He Hk raw).
Qed.
