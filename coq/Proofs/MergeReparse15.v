(* C15, .properties: the text merge_channels produces for versions that are legal block
   lists re-parses (walk_properties) without junk to exactly the keyed entries of the merged
   entry list (C15_keys_once / C15_newest_wins / C15_order speak about that list), with
   their raw values, and to exactly its standalone comments. *)
From Coq Require Import ZArith NArith List Bool Arith Lia.
From CL Require Import Base.Sx Base.Res Base.Str Model.Entry Model.Parse Model.ParseFormats
                       Proofs.C02Roundtrip Proofs.C02BlocksRx Proofs.C02BlocksVal Proofs.C02Blocks
                       Model.AddRemove Model.Channels Proofs.ChannelsProofs Proofs.ChannelsSpec
                       Proofs.MergeShapeKeys Proofs.MergeShape Proofs.SerializerProofs
                       Proofs.PropsShape.
Import ListNotations.
Local Open Scope nat_scope.

Local Arguments vraw : simpl never.
Local Arguments ctext : simpl never.
Local Notation mem := C02Roundtrip.mem.

Section V.
Variable m : nat.

(* a whitespace entry starts with a newline; from length m on it has a second newline *)
Definition wsok (e : centry) : Prop :=
  is_white e = true ->
  exists w', c_text e = 10%N :: w' /\ (m <= length (c_text e) -> mem 10%N w' = true).

Definition lic_free_block (b : block) : Prop :=
  match b with BEntity cs _ _ _ _ _ _ _ => license_free cs | _ => True end.

(* ---- the entries of a legal block list ---------------------------------------------------- *)
Lemma cflush_In w e : In e (cflush w) -> e = ws_centry w /\ w <> [].
Proof. destruct w; cbn; [contradiction|]. intros [H|[]]. split; [symmetry; exact H|discriminate]. Qed.

Definition all_ws (w : str) : Prop := forallb (fun c => mem c WS) w = true.

Lemma all_ws_app a b : all_ws a -> all_ws b -> all_ws (a ++ b).
Proof. unfold all_ws. intros. rewrite forallb_app. apply andb_true_iff. auto. Qed.

Lemma cents_In bs : Forall legal_block bs -> forall w e, all_ws w -> In e (cents w bs) ->
  (exists w0, e = ws_centry w0 /\ all_ws w0) \/
  (exists cs, In (BComment cs) bs /\ e = com_centry cs) \/
  (exists cs key b1 sc b2 conts lastl nl, In (BEntity cs key b1 sc b2 conts lastl nl) bs /\
                                          e = ent_centry cs key b1 sc b2 conts lastl).
Proof.
  induction 1 as [|b rest Hb _ IH]; intros w e Hw Hin; cbn [cents] in Hin.
  - apply cflush_In in Hin. destruct Hin as [-> _]. left. exists w. split; [reflexivity|exact Hw].
  - destruct b as [x|cs|cs key b1 sc b2 conts lastl nl].
    + assert (Hx : all_ws x).
      { unfold legal_block in Hb. cbn in Hb. apply andb_true_iff in Hb. apply Hb. }
      destruct (IH (w ++ x) e (all_ws_app _ _ Hw Hx) Hin) as [H|[(cs & H1 & H2)|(cs & k & a1 & s0 & a2 & cn & ll & nl & H1 & H2)]].
      * left; exact H.
      * right; left. exists cs. split; [right; exact H1|exact H2].
      * right; right. exists cs, k, a1, s0, a2, cn, ll, nl. split; [right; exact H1|exact H2].
    + apply in_app_or in Hin. destruct Hin as [Hin|[Hin|Hin]].
      * apply cflush_In in Hin. destruct Hin as [-> _]. left. exists w. split; [reflexivity|exact Hw].
      * right; left. exists cs. split; [left; reflexivity|symmetry; exact Hin].
      * destruct (IH [10%N] e eq_refl Hin) as [H|[(cs' & H1 & H2)|(cs' & k & a1 & s0 & a2 & cn & ll & nl & H1 & H2)]].
        -- left; exact H.
        -- right; left. exists cs'. split; [right; exact H1|exact H2].
        -- right; right. exists cs', k, a1, s0, a2, cn, ll, nl. split; [right; exact H1|exact H2].
    + apply in_app_or in Hin. destruct Hin as [Hin|[Hin|Hin]].
      * apply cflush_In in Hin. destruct Hin as [-> _]. left. exists w. split; [reflexivity|exact Hw].
      * right; right. exists cs, key, b1, sc, b2, conts, lastl, nl. split; [left; reflexivity|symmetry; exact Hin].
      * assert (He : all_ws (eol nl)) by (destruct nl; reflexivity).
        destruct (IH (eol nl) e He Hin) as [H|[(cs' & H1 & H2)|(cs' & k & a1 & s0 & a2 & cn & ll & nl' & H1 & H2)]].
        -- left; exact H.
        -- right; left. exists cs'. split; [right; exact H1|exact H2].
        -- right; right. exists cs', k, a1, s0, a2, cn, ll, nl'. split; [right; exact H1|exact H2].
Qed.

Lemma centries_dec bs : Forall legal_block bs -> Forall lic_free_block bs ->
  Forall wsok (centries_of bs) -> Forall (dec m) (centries_of bs).
Proof.
  intros Hleg Hlic Hws. apply Forall_forall. intros e He.
  rewrite Forall_forall in Hws, Hlic. pose proof (Hws e He) as Hwe.
  destruct (cents_In bs Hleg [] e eq_refl He) as [(w0 & -> & W)|[(cs & H1 & ->)|(cs & k & a1 & s0 & a2 & cn & ll & nl & H1 & ->)]].
  - destruct (Hwe eq_refl) as (w' & T & P). cbn in T. subst w0. apply (dec_ws m _ w'); [reflexivity| |exact P].
    unfold all_ws in W. cbn [forallb] in W. apply andb_true_iff in W. apply W.
  - rewrite Forall_forall in Hleg. pose proof (Hleg _ H1) as L. unfold legal_block in L. cbn in L.
    apply andb_true_iff in L. destruct L as [L1 L2].
    apply (dec_com m _ cs); [destruct cs; [discriminate|discriminate]|exact L2|reflexivity].
  - rewrite Forall_forall in Hleg. pose proof (Hleg _ H1) as L. pose proof (Hlic _ H1) as Lc.
    apply (dec_ent m _ cs k a1 s0 a2 cn ll); [exact L|exact Lc|reflexivity].
Qed.

Lemma noadj_nonws x l : is_white x = false -> noadj l -> noadj (x :: l).
Proof. intros Hx Hl. destruct l; cbn; [exact I|]. split; [left; exact Hx|exact Hl]. Qed.

Lemma noadj_flush w x l : is_white x = false -> noadj (x :: l) -> noadj (cflush w ++ x :: l).
Proof. intros Hx Hl. destruct w; cbn [cflush app]; [exact Hl|]. cbn. split; [right; exact Hx|exact Hl]. Qed.

Lemma cents_noadj bs : forall w, noadj (cents w bs).
Proof.
  induction bs as [|b rest IH]; intros w; cbn [cents].
  - destruct w; cbn; exact I.
  - destruct b; [apply IH| |]; (apply noadj_flush; [reflexivity|]); (apply noadj_nonws; [reflexivity|apply IH]).
Qed.

(* ---- numbering keeps shape and decodability ---------------------------------------------------- *)
Lemma cons_inv {A} (x y : A) l l' : x :: l = y :: l' -> x = y /\ l = l'.
Proof. intros H. injection H. auto. Qed.

Lemma nf_strip l l' : map strip l = map strip l' -> nf m l -> nf m l'.
Proof.
  revert l'. induction l as [|x l IH]; intros [|x' l'] H; cbn in H; try discriminate; [auto|].
  apply cons_inv in H. destruct H as [Hx Hl]. intros [H1 H2]. split; [|apply IH; assumption].
  destruct (strip_fields _ _ Hx) as (K1 & _ & K3 & _).
  intros Hw. assert (Hw0 : is_white x = false) by (unfold is_white in *; rewrite K1; exact Hw).
  specialize (H1 Hw0). destruct l as [|w l0], l' as [|w' l0']; cbn in Hl; try discriminate; [contradiction|].
  apply cons_inv in Hl. destruct Hl as [Hwx _]. destruct (strip_fields _ _ Hwx) as (Q1 & _ & Q3 & _).
  destruct H1 as [A1 A2]. split.
  - unfold is_white in *. rewrite <- Q1. exact A1.
  - unfold cneed, clen, is_comment in *. rewrite <- K1, <- Q3. exact A2.
Qed.

Lemma noadj_strip l l' : map strip l = map strip l' -> noadj l -> noadj l'.
Proof.
  revert l'. induction l as [|x l IH]; intros [|x' l'] H; cbn in H; try discriminate; [auto|].
  apply cons_inv in H. destruct H as [Hx Hl]. destruct l as [|y l0], l' as [|y' l0']; cbn in Hl; try discriminate; [auto|].
  intros [H1 H2]. apply cons_inv in Hl. destruct Hl as [Hy Hl0]. split.
  - destruct (strip_fields _ _ Hx) as (K1 & _). destruct (strip_fields _ _ Hy) as (Q1 & _).
    unfold is_white in *. rewrite <- K1, <- Q1. exact H1.
  - apply (IH (y' :: l0')); [cbn; f_equal; assumption|exact H2].
Qed.

Lemma Forall_dec_strip l l' : map strip l = map strip l' -> Forall (dec m) l -> Forall (dec m) l'.
Proof.
  revert l'. induction l as [|x l IH]; intros [|x' l'] H; cbn in H; try discriminate; [auto|].
  apply cons_inv in H. destruct H as [Hx Hl]. intros HF. inversion HF; subst. constructor.
  - eapply dec_strip; eassumption.
  - apply IH; assumption.
Qed.

(* ---- the fold ---------------------------------------------------------------------------------------- *)
Lemma fold_shape ds : forall d, wf d -> Forall wf ds -> ws_sep (d :: ds) ->
  nf m (dvalues d) -> noadj (dvalues d) -> Forall (fun x => nf m (dvalues x)) ds ->
  nf m (dvalues (fold_merge d ds)) /\ noadj (dvalues (fold_merge d ds)).
Proof.
  induction ds as [|y ds IH]; intros d Hd Hds Hsep Hn Ha Hns; [split; assumption|].
  inversion Hds as [|? ? Hy Hds']; subst. inversion Hns as [|? ? Hny Hns']; subst.
  cbn [fold_merge fold_left]. destruct Hsep as [Hsd [Hsy Hsds]].
  fold (fold_merge (merge_two d y true) ds).
  assert (Hdis : ws_disjoint (dkeys d) (dkeys y)) by (apply Hsd; left; reflexivity).
  destruct (merge_two_shape m d y true Hd Hy Hdis ltac:(discriminate) Hn Hny) as [S1 S2].
  apply IH; try assumption.
  - apply merge_two_wf; assumption.
  - split; [|exact Hsds]. intros d' Hd' k Hk Hin Hin'.
    apply (merge_two_keys_incl d y true Hd Hy) in Hin. destruct Hin as [Hin|Hin].
    + apply (Hsd d' (or_intror Hd') k Hk Hin Hin').
    + apply (Hsy d' Hd' k Hk Hin Hin').
Qed.

Lemma fold_values ds : forall d e, wf d -> Forall wf ds ->
  In e (dvalues (fold_merge d ds)) -> exists d', In d' (d :: ds) /\ In e (dvalues d').
Proof.
  induction ds as [|y ds IH]; intros d e Hd Hds Hin.
  - exists d. split; [left; reflexivity|exact Hin].
  - inversion Hds as [|? ? Hy Hds']; subst. cbn [fold_merge fold_left] in Hin.
    fold (fold_merge (merge_two d y true) ds) in Hin.
    destruct (IH _ e (merge_two_wf d y true Hd Hy) Hds' Hin) as (d' & [Hd'|Hd'] & He).
    + subst d'. apply merge_two_values in He; [|assumption|assumption].
      destruct He as [He|He]; [exists d|exists y]; split; auto; [left|right; left]; reflexivity.
    + exists d'. split; [right; right; exact Hd'|exact He].
Qed.

(* ---- the theorem --------------------------------------------------------------------------------------- *)
Definition version_ok (bs : list block) : Prop :=
  Forall legal_block bs /\ Forall lic_free_block bs /\
  ukeys (centries_of bs) /\ nf m (centries_of bs) /\ Forall wsok (centries_of bs).

Lemma number_all_strip vs : forall ctr, map (map strip) (number_all ctr vs) = map (map strip) vs.
Proof.
  induction vs as [|v vs IH]; intros ctr; cbn; [reflexivity|]. rewrite number_strip, IH. reflexivity.
Qed.

Theorem merge_reparse_properties name (bss : list (list block)) txt :
  Forall version_ok bss ->
  merge_channels name (map centries_of bss) = Ok txt ->
  exists out es,
    merge_entries (map centries_of bss) = Ok out /\ txt = concat (map c_text out) /\
    walk_properties txt = Ok es /\
    map (fun e => let r := entity_record txt e in (fst (fst r), snd (fst r)))
        (filter (is_kind KEntity) es) = krecs out /\
    map (fun e => span_text txt (e_span e)) (filter (is_kind KComment) es) = ccoms out /\
    filter (is_kind KJunk) es = [].
Proof.
  intros Hok H. destruct (merge_channels_inv _ _ _ H) as (out & Ho & ->).
  exists out.
  assert (Hshape : nf m out /\ noadj out /\ Forall (dec m) out).
  { destruct bss as [|bs0 bss]; [discriminate|].
    set (vs := map centries_of (bs0 :: bss)) in *.
    assert (Hu : Forall ukeys vs).
    { apply Forall_forall. intros v Hv. apply in_map_iff in Hv. destruct Hv as (bs & <- & Hb).
      rewrite Forall_forall in Hok. apply (Hok bs Hb). }
    unfold merge_entries, merge_resources, merge_dicts in Ho. cbn in Ho. inversion Ho; subst out; clear Ho.
    destruct (number_all_sep vs Hu 0) as (S1 & S2 & _). cbn in S1, S2.
    inversion S2 as [|? ? Sv Svs]; subst.
    pose proof (number_all_strip vs 0) as Hstr. cbn in Hstr. apply cons_inv in Hstr. destruct Hstr as [Hs0 Hsr].
    inversion Hok as [|? ? Hok0 Hokr]; subst. destruct Hok0 as (L0 & C0 & U0 & N0 & W0).
    pose proof (number_uniq (centries_of bs0) 0 U0) as Un0.
    assert (Hn0 : nf m (dvalues (parse_resource (number 0 (centries_of bs0))))).
    { rewrite parse_resource_values by exact Un0. eapply nf_strip; [symmetry; exact Hs0|exact N0]. }
    assert (Ha0 : noadj (dvalues (parse_resource (number 0 (centries_of bs0))))).
    { rewrite parse_resource_values by exact Un0. eapply noadj_strip; [symmetry; exact Hs0|apply cents_noadj]. }
    assert (Hnr : Forall (fun x => nf m (dvalues x))
                         (map parse_resource (number_all (length (centries_of bs0)) (map centries_of bss)))).
    { clear - Hokr m. generalize (length (centries_of bs0)). induction Hokr as [|bs bss Hb _ IH]; intros c; cbn; constructor.
      - destruct Hb as (_ & _ & U & Nf & _).
        rewrite parse_resource_values by (apply number_uniq; exact U).
        eapply nf_strip; [symmetry; apply number_strip|exact Nf].
      - apply IH. }
    destruct (fold_shape _ _ Sv Svs S1 Hn0 Ha0 Hnr) as [F1 F2].
    split; [exact F1|]. split; [exact F2|].
    apply Forall_forall. intros e He.
    destruct (fold_values _ _ e Sv Svs He) as (d' & Hd' & He').
    (* e is an entry of a numbered version *)
    assert (Hv : exists bs c, In bs (bs0 :: bss) /\ In e (number c (centries_of bs))).
    { destruct Hd' as [<-|Hd'].
      - rewrite parse_resource_values in He' by exact Un0. exists bs0, 0. split; [left; reflexivity|exact He'].
      - clear - Hd' He' Hokr. revert Hd'. generalize (length (centries_of bs0)).
        induction Hokr as [|bs bss Hb _ IH]; intros c Hd'; cbn in Hd'; [contradiction|].
        destruct Hd' as [<-|Hd'].
        + destruct Hb as (_ & _ & U & _). rewrite parse_resource_values in He' by (apply number_uniq; exact U).
          exists bs, c. split; [right; left; reflexivity|exact He'].
        + destruct (IH _ Hd') as (bs' & c' & [E|E] & E2).
          * exists bs', c'. split; [left; exact E|exact E2].
          * exists bs', c'. split; [right; right; exact E|exact E2]. }
    destruct Hv as (bs & c & Hbs & Hin).
    rewrite Forall_forall in Hok. destruct (Hok bs Hbs) as (L & C & U & Nf & W).
    pose proof (centries_dec bs L C W) as Hd.
    pose proof (Forall_dec_strip _ _ (eq_sym (number_strip (centries_of bs) c)) Hd) as Hd2.
    rewrite Forall_forall in Hd2. apply Hd2. exact Hin. }
  destruct Hshape as (S1 & S2 & S3).
  destruct (shape_reparse m out S1 S2 S3) as (es & E1 & E2 & E3 & E4).
  exists es. unfold serialize_legacy. repeat split; assumption.
Qed.
End V.
