(* Expansion of a simple pattern under the environment Matcher.sub builds from a
   match (and under the matcher's own environment, for the prefix), in terms of
   the decomposition of MatcherSound.match_decompose. *)
From Coq Require Import NArith List Bool Arith Lia.
From CL Require Import Base.Sx Base.Res Base.Str Regex.Rx Regex.RxLemmas Regex.RxSem
  Model.Pattern Model.Matcher Proofs.MatcherBase Proofs.MatcherSpec Proofs.MatcherCompile
  Proofs.MatcherSound.
Import ListNotations.

Lemma expand_node_S : forall f e rm n, expand_node (S f) e rm n =
  match n with
  | NLit s => Ok (IStr s)
  | NVar name _ =>
      match lookup name e with
      | None => Raise MissingEnv
      | Some (EVLit s) => Ok (IStr s)
      | Some (EVPat p) =>
          do s <- expand_with (expand_node f (remove name e)) rm p;
          Ok (IStr s)
      end
  | NAndroid _ =>
      match lookup s_locale e with
      | None => Raise MissingEnv
      | Some v =>
          do bcp47 <-
            match v with
            | EVLit s => Ok s
            | EVPat p => expand_with (expand_node f (remove s_android_locale e)) false p
            end;
          do a <- to_android bcp47;
          Ok (IStr a)
      end
  | NStar k | NStarstar k _ =>
      match lookup (star_name k) e with
      | None => Raise KeyError
      | Some (EVLit s) => Ok (IStr s)
      | Some (EVPat _) => Ok IBad
      end
  end.
Proof. reflexivity. Qed.

Local Arguments expand_node : simpl never.

Lemma join_strs : forall l, join_items (map IStr l) = Ok (concat l).
Proof. induction l as [|s l IH]; simpl; auto. rewrite IH. reflexivity. Qed.

Lemma expand_children_lits : forall f e rm rm' ns, forallb is_lit ns = true ->
  expand_children (expand_node (S f) e rm) rm' ns =
  Ok (map IStr (map (fun n => match n with NLit s => s | _ => [] end) ns)).
Proof.
  induction ns as [|n ns IH]; intros H; simpl in *; auto.
  apply andb_true_iff in H. destruct H as [H1 H2]. destruct n; try discriminate.
  rewrite expand_node_S, IH by auto. reflexivity.
Qed.

Lemma expand_lit_only : forall f e rm rm' p, lit_only p = true ->
  expand_with (fun b => expand_node (S f) e b) rm' p = Ok (nodes_text (p_nodes p)) /\
  expand_with (expand_node (S f) e) rm p = Ok (nodes_text (p_nodes p)).
Proof.
  intros f e rm rm' p H. unfold lit_only in H. apply andb_true_iff in H. destruct H as [H1 H2].
  destruct (p_root p) eqn:Er; [discriminate|].
  unfold expand_with. rewrite Er. simpl.
  rewrite !expand_children_lits by auto. simpl. rewrite join_strs. auto.
Qed.

Definition lit_items (d : list (str * option str)) : env :=
  map (fun kv => (fst kv, EVLit (text_or_empty (snd kv)))) d.

Lemma lit_items_fst : forall d, map fst (lit_items d) = map fst d.
Proof. induction d as [|[k v] d IH]; simpl; auto. rewrite IH. reflexivity. Qed.

Lemma lookup_lit_items : forall k d,
  lookup k (lit_items d) = option_map (fun o => EVLit (text_or_empty o)) (lookup k d).
Proof. induction d as [|[k' v] d IH]; simpl; auto. destruct (str_eqb k k'); auto. Qed.

(* the environment of Matcher.sub: the other matcher's bindings win, then the
   matched groups as literals *)
Lemma lookup_sub_env : forall d e k, NoDup (map fst d) -> NoDup (map fst e) ->
  lookup k (sub_env d e) =
  match lookup k e with
  | Some v => Some v
  | None => option_map (fun o => EVLit (text_or_empty o)) (lookup k d)
  end.
Proof.
  intros d e k Hd He. unfold sub_env. fold (lit_items d). rewrite lookup_env_update by auto.
  destruct (lookup k e); auto.
  rewrite lookup_env_update by (rewrite lit_items_fst; auto).
  rewrite lookup_lit_items. destruct (lookup k d); reflexivity.
Qed.

Definition consistent (e : env) (d : list (str * option str)) : Prop :=
  forall name v t x, lookup name e = Some v -> value_text v = Some t ->
                     lookup name d = Some x -> x = Some t.

(* one node under the sub environment *)
Lemma expand_node_sub : forall f e d n piece,
  NoDup (map fst d) -> NoDup (map fst e) -> consistent e d ->
  simple_node e n = true -> dpiece_ok d n piece ->
  expand_node (S (S f)) (sub_env d e) true n = Ok (IStr piece).
Proof.
  intros f e d n piece Hd He Hc Hs Hp. rewrite expand_node_S.
  destruct n as [t|name rep|rep|k|k suffix]; simpl in Hs, Hp.
  - subst. reflexivity.
  - apply andb_true_iff in Hs. destruct Hs as [_ Hv].
    rewrite lookup_sub_env by auto.
    destruct (lookup name e) as [v|] eqn:El.
    + destruct (value_text v) as [t|] eqn:Ev; [|discriminate].
      pose proof (Hc _ _ _ _ El Ev Hp) as Ht. inversion Ht; subst t.
      destruct v as [s|p]; simpl in Ev.
      * inversion Ev; subst. reflexivity.
      * destruct (lit_only p) eqn:Elit; [|discriminate]. inversion Ev; subst.
        destruct (expand_lit_only f (remove name (sub_env d e)) true true p Elit) as [_ H].
        rewrite H. reflexivity.
    + rewrite Hp. reflexivity.
  - contradiction.
  - destruct (lookup (star_name k) e) eqn:El; [discriminate|].
    rewrite lookup_sub_env, El by auto. destruct Hp as [Hp _]. rewrite Hp. reflexivity.
  - destruct (lookup (star_name k) e) eqn:El; [discriminate|].
    rewrite lookup_sub_env, El by auto.
    destruct Hp as [[Hp Hpiece]|[Hp _]]; rewrite Hp; subst; reflexivity.
Qed.

Lemma expand_children_sub : forall f e d ns pieces,
  NoDup (map fst d) -> NoDup (map fst e) -> consistent e d ->
  forallb (simple_node e) ns = true -> Forall2 (dpiece_ok d) ns pieces ->
  expand_children (expand_node (S (S f)) (sub_env d e) true) false ns = Ok (map IStr pieces).
Proof.
  intros f e d ns pieces Hd He Hc Hs HF. induction HF as [|n piece ns pieces Hp HF IH]; simpl; auto.
  simpl in Hs. apply andb_true_iff in Hs. destruct Hs as [Hs1 Hs2].
  rewrite (expand_node_sub f e d n piece) by auto. rewrite IH by auto. reflexivity.
Qed.

(* C11_match_sound, first half: re-expansion gives the path back *)
Theorem sub_self_expand : forall M path d, simple M -> match_ M path = Ok (Some d) ->
  exists p0, upto_final_newline path p0 /\
    expand_pattern (sub_env d (m_env M)) false (m_pat M) = Ok p0.
Proof.
  intros M path d HS Hm. destruct (match_decompose M path d HS Hm) as [pieces [H1 [H2 [H3 H4]]]].
  destruct HS as [Hs [Hr Hn]].
  exists (concat pieces). split; [auto|].
  unfold expand_pattern, expand_with. rewrite Hr. simpl.
  unfold expand_fuel. replace (2 * length (sub_env d (m_env M)) + 3)
    with (S (S (2 * length (sub_env d (m_env M)) + 1))) by lia.
  rewrite (expand_children_sub _ (m_env M) d _ pieces) by auto. simpl.
  rewrite join_strs. reflexivity.
Qed.

(* second half: the kinds of the wildcard values *)
Theorem match_kinds_ok : forall M path d, simple M -> match_ M path = Ok (Some d) ->
  kinds_ok (m_pat M) d.
Proof.
  intros M path d HS Hm. destruct (match_decompose M path d HS Hm) as [pieces [_ [H2 _]]].
  unfold kinds_ok. induction H2 as [|n piece ns pieces Hp HF IH]; constructor; auto.
  destruct n as [t|name rep|rep|k|k suffix]; simpl in *; auto.
  - destruct Hp as [Hp1 Hp2]. exists piece. auto.
  - destruct Hp as [[Hp _]|[Hp [b [Hb [Hnl Hpiece]]]]]; [left; auto|].
    right. exists b. subst piece. auto.
Qed.

(* ---- the prefix --------------------------------------------------------------------- *)
Lemma expand_children_own : forall f e d ns pieces items pre,
  consistent e d -> forallb (simple_node e) ns = true -> Forall2 (dpiece_ok d) ns pieces ->
  expand_children (expand_node (S (S f)) e true) false ns = Ok items ->
  join_items items = Ok pre ->
  exists rest, concat pieces = pre ++ rest.
Proof.
  intros f e d ns pieces items pre Hc Hs HF. revert items pre.
  induction HF as [|n piece ns pieces Hp HF IH]; intros items pre He Hj; simpl in *.
  - inversion He; subst. simpl in Hj. inversion Hj; subst. exists []. reflexivity.
  - apply andb_true_iff in Hs. destruct Hs as [Hs1 Hs2].
    rewrite expand_node_S in He.
    destruct n as [t|name rep|rep|k|k suffix]; simpl in Hs1, Hp.
    + subst piece.
      destruct (expand_children _ false ns) as [items'|] eqn:E; [|discriminate].
      simpl in He. inversion He; subst items. simpl in Hj.
      destruct (join_items items') as [r|] eqn:Ej; [|discriminate]. simpl in Hj.
      inversion Hj; subst pre. destruct (IH Hs2 _ _ eq_refl Ej) as [rest Hr].
      exists rest. rewrite Hr, app_assoc. reflexivity.
    + apply andb_true_iff in Hs1. destruct Hs1 as [_ Hv].
      destruct (lookup name e) as [v|] eqn:El.
      * destruct (value_text v) as [t|] eqn:Ev; [|discriminate].
        pose proof (Hc _ _ _ _ El Ev Hp) as Ht. inversion Ht; subst t.
        assert (Hx : (match v with
                      | EVLit s => Ok (IStr s)
                      | EVPat p => do s <- expand_with (expand_node (S f) (remove name e)) true p;
                                   Ok (IStr s)
                      end) = Ok (IStr piece)).
        { destruct v as [s|p]; simpl in Ev.
          - inversion Ev; subst. reflexivity.
          - destruct (lit_only p) eqn:Elit; [|discriminate]. inversion Ev; subst.
            destruct (expand_lit_only f (remove name e) true true p Elit) as [_ H].
            rewrite H. reflexivity. }
        rewrite Hx in He.
        destruct (expand_children _ false ns) as [items'|] eqn:E; [|discriminate].
        simpl in He. inversion He; subst items. simpl in Hj.
        destruct (join_items items') as [r|] eqn:Ej; [|discriminate]. simpl in Hj.
        inversion Hj; subst pre. destruct (IH Hs2 _ _ eq_refl Ej) as [rest Hr].
        exists rest. rewrite Hr, app_assoc. reflexivity.
      * inversion He; subst items. simpl in Hj. inversion Hj; subst pre.
        eexists. reflexivity.
    + contradiction.
    + destruct (lookup (star_name k) e) eqn:El; [discriminate|]. discriminate.
    + destruct (lookup (star_name k) e) eqn:El; [discriminate|]. discriminate.
Qed.

Lemma Forall2_firstn : forall {A B} (P : A -> B -> Prop) k l1 l2,
  Forall2 P l1 l2 -> Forall2 P (firstn k l1) (firstn k l2).
Proof.
  intros A B P k l1 l2 H. revert k. induction H; intros [|k]; simpl; constructor; auto.
Qed.

Lemma forallb_firstn : forall {A} (f : A -> bool) k l, forallb f l = true -> forallb f (firstn k l) = true.
Proof.
  intros A f k l. revert k. induction l as [|x l IH]; intros [|k] H; simpl in *; auto.
  apply andb_true_iff in H. destruct H as [H1 H2]. rewrite H1. simpl. auto.
Qed.

Lemma concat_firstn_prefix : forall (l : list str) k, exists rest, concat l = concat (firstn k l) ++ rest.
Proof.
  induction l as [|x l IH]; intros [|k]; simpl.
  - exists []. reflexivity.
  - exists []. reflexivity.
  - eexists. reflexivity.
  - destruct (IH k) as [rest H]. exists rest. rewrite H, app_assoc. reflexivity.
Qed.

(* C12_prefix *)
Theorem match_starts_with_prefix : forall M path d pre, simple M ->
  match_ M path = Ok (Some d) -> prefix M = Ok pre -> starts_with pre path = true.
Proof.
  intros M path d pre HS Hm Hp. destruct (match_decompose M path d HS Hm) as [pieces [H1 [H2 [H3 H4]]]].
  destruct HS as [Hs [Hr Hn]].
  unfold prefix, expand_pattern, expand_with in Hp. simpl in Hp. rewrite Hr in Hp. simpl in Hp.
  unfold expand_fuel in Hp. replace (2 * length (m_env M) + 3)
    with (S (S (2 * length (m_env M) + 1))) in Hp by lia.
  destruct (expand_children _ false _) as [items|] eqn:E; [|discriminate]. simpl in Hp.
  destruct (join_items items) as [r|] eqn:Ej; [|discriminate]. simpl in Hp. inversion Hp; subst pre.
  destruct (expand_children_own _ (m_env M) d _ (firstn (p_prefix (m_pat M)) pieces) items r H4
              (forallb_firstn _ _ _ Hs) (Forall2_firstn _ _ _ _ H2) E Ej) as [rest Hrest].
  destruct (concat_firstn_prefix pieces (p_prefix (m_pat M))) as [rest2 Hc].
  assert (Hc2 : concat pieces = (r ++ rest) ++ rest2).
  { rewrite Hc. f_equal. exact Hrest. }
  destruct H1 as [H1|H1]; rewrite H1, Hc2, <- !app_assoc; apply starts_with_app.
Qed.
