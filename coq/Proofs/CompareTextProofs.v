(* End to end for .properties: texts -> report.

   [compare_properties] (Model/CompareText.v) parses both texts with the parser model,
   takes PropertiesEntity.val (unescape) and Entry.count_words of every entity, and runs
   the model of ContentComparer.compare.  For texts given as legal block lists
   (Proofs/C02Blocks.v), the localization with or without one garbage region
   (Proofs/C02BlocksJunk.v), whose raw values follow the token grammar of C02_unescape_properties
   and whose keys do not repeat, the report is the explicit function [flat_stats] /
   [missing_keys] of the two lists of (key, unescaped value) pairs, and the junk errors are
   exactly the one for the garbage region. *)
From Coq Require Import ZArith NArith List Bool Arith Lia Permutation.
From CL Require Import Base.Sx Base.Res Base.Str Regex.Rx Model.Entry Model.Parse Model.ParseFormats
  Model.Unescape Model.CountWords Model.AddRemove Model.Compare Model.CompareText
  Proofs.C02Props Proofs.C02Roundtrip Proofs.C02BlocksRx Proofs.C02BlocksVal Proofs.C02Blocks
  Proofs.C02BlocksJunkRx Proofs.C02BlocksJunk
  Proofs.CompareSpec Proofs.CompareProofs Proofs.CompareKeys Proofs.CountWordsProofs
  Proofs.AddRemoveProofs Proofs.CompareFlat.
Import ListNotations.
Local Open Scope nat_scope.

Local Arguments vraw : simpl never.

(* count_words as a total function (it never raises: count_words_total) *)
Definition wdf (v : str) : nat := match count_words v with Ok n => n | Raise _ => 0 end.

Lemma wdf_ok v w : count_words v = Ok w -> w = wdf v.
Proof. intros H. unfold wdf. rewrite H. reflexivity. Qed.

(* the Junk entity made of entry x with counter value n *)
Definition junk_cent (n : nat) (s : str) (x : entry) : @cent pykey str :=
  mkcent (KS (junk_key n (e_span x))) (text_of s (Some (e_span x))) 0 true
         (Z.of_nat (fst (e_span x))).

(* the Junk entities a parse numbers from j on when nothing else advances the counter *)
Fixpoint junk_cents (j : nat) (s : str) (xs : list entry) : list (@cent pykey str) :=
  match xs with
  | [] => []
  | x :: xs' => junk_cent (S j) s x :: junk_cents (S j) s xs'
  end.

Lemma text_of_opt s o : text_of s o = opt_text s o.
Proof. destruct o; reflexivity. Qed.

Lemma localizable_kinds (es : list entry) e :
  In e (filter is_localizable es) -> e_kind e = KEntity \/ e_kind e = KJunk.
Proof.
  intros H. apply filter_In in H. destruct H as [_ H]. unfold is_localizable in H.
  destruct (e_kind e); try discriminate; auto.
Qed.

Lemma filter_kind_localizable k (es : list entry) :
  k = KEntity \/ k = KJunk ->
  filter (is_kind k) (filter is_localizable es) = filter (is_kind k) es.
Proof.
  intros Hk. induction es as [|e es IH]; [reflexivity|]. cbn [filter].
  destruct (is_localizable e) eqn:El, (is_kind k e) eqn:Ek; cbn [filter]; rewrite ?Ek, ?IH;
    try reflexivity.
  exfalso. unfold is_localizable in El. unfold is_kind in Ek.
  destruct Hk as [->| ->]; destruct (e_kind e); discriminate.
Qed.

(* ---- generic in the format ------------------------------------------------------------- *)
Section Text.
Context (walkf : str -> result (list entry)) (valf : str -> result str)
        (bump : str -> entry -> bool).

(* a record (key text, raw value text, comment) and its (key, value) pair *)
Definition valued (r : record) (kv : pykey * str) : Prop :=
  fst kv = KS (fst (fst r)) /\ valf (snd (fst r)) = Ok (snd kv).

Lemma text_cents_mixed s : forall es j l,
  (forall e, In e es -> e_kind e = KEntity \/ e_kind e = KJunk) ->
  Forall2 valued (map (entity_record s) (filter (is_kind KEntity) es)) l ->
  exists C j', text_cents valf bump j s es = Ok (C, j') /\
            Forall2 (ent_of wdf) l (filter (@nonjunkb pykey str) C) /\
            Forall2 (fun x c => exists n, c = junk_cent n s x)
                    (filter (is_kind KJunk) es) (filter (@c_junk pykey str) C) /\
            ((forall e, bump s e = false) ->
             j' = j + length (filter (is_kind KJunk) es) /\
             filter (@c_junk pykey str) C = junk_cents j s (filter (is_kind KJunk) es)).
Proof.
  induction es as [|e es IH]; intros j l Hk HF.
  - cbn in HF. inversion HF; subst. exists [], j. cbn. rewrite Nat.add_0_r.
    repeat split; constructor.
  - assert (Hk' : forall x, In x es -> e_kind x = KEntity \/ e_kind x = KJunk)
      by (intros x Hx; apply Hk; right; exact Hx).
    destruct (Hk e (or_introl eq_refl)) as [Ee|Ee].
    + cbn [filter] in HF. unfold is_kind in HF at 1. rewrite Ee in HF. cbn [map] in HF.
      inversion HF as [|r kv rs l' (Hkey & Hval) HF']; subst.
      destruct (count_words_total (snd kv)) as [w Hw].
      destruct (IH (if bump s e then S j else j) l' Hk' HF') as (C & j' & HC & H1 & H2 & H3).
      exists (mkcent (fst kv) (snd kv) w false (Z.of_nat (fst (e_span e))) :: C), j'.
      cbn [text_cents]. unfold text_cent. rewrite Ee.
      unfold entity_record in Hval, Hkey. cbn [fst snd] in Hval, Hkey.
      rewrite text_of_opt, Hval. cbn [bind]. rewrite Hw. cbn [bind fst snd]. rewrite HC. cbn [bind fst snd].
      rewrite text_of_opt, <- Hkey.
      assert (Hnj : is_kind KJunk e = false) by (unfold is_kind; rewrite Ee; reflexivity).
      cbn [filter]. rewrite Hnj. split; [reflexivity|].
      cbn [filter nonjunkb c_junk negb]. split; [|split; [exact H2|]].
      * constructor; [|exact H1]. repeat split. cbn [c_words]. apply wdf_ok. exact Hw.
      * intros Hb. rewrite (Hb e) in H3. exact (H3 Hb).
    + assert (Hne : is_kind KEntity e = false) by (unfold is_kind; rewrite Ee; reflexivity).
      cbn [filter] in HF. rewrite Hne in HF.
      destruct (IH (S j) l Hk' HF) as (C & j' & HC & H1 & H2 & H3).
      exists (junk_cent (S j) s e :: C), j'.
      cbn [text_cents]. unfold text_cent. rewrite Ee. cbn [bind fst snd]. rewrite HC. cbn [bind fst snd].
      assert (Hj : is_kind KJunk e = true) by (unfold is_kind; rewrite Ee; reflexivity).
      cbn [filter]. rewrite Hj. cbn [length].
      split; [reflexivity|].
      assert (Hcj : c_junk (junk_cent (S j) s e) = true) by reflexivity.
      cbn [filter]. unfold nonjunkb at 1. rewrite Hcj. cbn [negb].
      split; [exact H1|]. split.
      * constructor; [exists (S j); reflexivity|exact H2].
      * intros Hb. destruct (H3 Hb) as [Ej E]. split; [lia|]. cbn [junk_cents]. rewrite E. reflexivity.
Qed.

(* what parse_text yields for a walk whose entities and junk are known *)
Lemma parse_of_views s es j l xs :
  walkf s = Ok es ->
  Forall2 valued (map (entity_record s) (filter (is_kind KEntity) es)) l ->
  filter (is_kind KJunk) es = xs ->
  exists C j' Jc, parse_text walkf valf bump j s = Ok (C, j') /\ reads wdf C l Jc /\
            Forall2 (fun x c => exists n, c = junk_cent n s x) xs Jc /\
            ((forall e, bump s e = false) -> j' = j + length xs /\ Jc = junk_cents j s xs).
Proof.
  intros Hw HF Hx. unfold parse_text. rewrite Hw. cbn [bind].
  destruct (text_cents_mixed s (filter is_localizable es) j l) as (C & j' & HC & H1 & H2 & H3).
  - intros e. apply localizable_kinds.
  - rewrite filter_kind_localizable by auto. exact HF.
  - rewrite filter_kind_localizable in H2, H3 by auto. rewrite Hx in H2, H3.
    exists C, j', (filter (@c_junk pykey str) C). split; [exact HC|]. split; [split; auto|].
    split; [exact H2|exact H3].
Qed.

End Text.

(* ---- .properties ------------------------------------------------------------------------- *)
(* ... when the raw value follows the token grammar of C02_unescape_properties *)
Definition tokenized (r : record) (kv : pykey * str) : Prop :=
  exists ts, toks_ok ts = true /\ snd (fst r) = render_toks ts /\
             kv = (KS (fst (fst r)), meaning_toks ts).

Lemma tokenized_valued rs l : Forall2 tokenized rs l -> Forall2 (valued props_val) rs l.
Proof.
  induction 1 as [|r kv rs l (ts & Hok & Hraw & ->) _ IH]; constructor; [|exact IH].
  split; [reflexivity|]. cbn [snd]. rewrite Hraw. apply unescape_properties. exact Hok.
Qed.

(* a file without garbage *)
Theorem parse_blocks bs l j :
  Forall legal_block bs -> adjacent_ok bs -> Forall2 (valued props_val) (records_of bs) l ->
  exists C, parse_properties j (file_text bs) = Ok (C, j) /\ reads wdf C l [].
Proof.
  intros Hl Ha HF.
  destruct (C02_roundtrip_properties_multi bs Hl Ha) as (es & Hw & Hr & _ & Hj).
  destruct (parse_of_views walk_properties props_val no_bump (file_text bs) es j l [] Hw)
    as (C & j' & Jc & HC & HR & _ & Hex); auto.
  - rewrite Hr. exact HF.
  - destruct (Hex (fun _ => eq_refl)) as [-> ->]. cbn in HC. rewrite Nat.add_0_r in HC.
    exists C. auto.
Qed.

(* a file with one garbage region *)
Theorem parse_blocks_junk bs1 gl bs2 l j :
  Forall legal_block bs1 -> legal_garbage gl = true -> Forall legal_block bs2 ->
  jadjacent_ok (with_garbage bs1 gl bs2) ->
  Forall2 (valued props_val) (records_of bs1 ++ records_of bs2) l ->
  let s := file_text bs1 ++ gtext gl ++ file_text bs2 in
  let p := length (file_text bs1) in
  exists C, parse_properties j s = Ok (C, S j) /\
    reads wdf C l [mkcent (KS (junk_key (S j) (p, p + length (gtext gl)))) (gtext gl) 0 true
                          (Z.of_nat p)].
Proof.
  intros H1 Hg H2 Ha HF s p.
  destruct (junk_one_region bs1 gl bs2 H1 Hg H2 Ha) as (es & Hw & Hr & _ & Hj & Hs).
  fold s in Hw, Hr, Hs. fold p in Hj, Hs.
  destruct (parse_of_views walk_properties props_val no_bump s es j l
              [mk_junk (p, p + length (gtext gl))] Hw) as (C & j' & Jc & HC & HR & _ & Hex); auto.
  - rewrite Hr. exact HF.
  - destruct (Hex (fun _ => eq_refl)) as [-> ->]. exists C.
    split; [unfold parse_properties; rewrite HC; cbn; f_equal; f_equal; lia|].
    unfold junk_cents, junk_cent, mk_junk, text_of in HR. cbn [e_span fst snd] in HR.
    rewrite Hs in HR. exact HR.
Qed.

(* ---- the keys of a parse are duplicate-free when the record keys are ------------------ *)
Lemma filter_split_perm {A} (p : A -> bool) (l : list A) :
  Permutation l (filter (fun x => negb (p x)) l ++ filter p l).
Proof.
  induction l as [|a l IH]; cbn; [constructor|]. destruct (p a); cbn.
  - apply Permutation_cons_app. exact IH.
  - constructor. exact IH.
Qed.

Lemma reads_NoDup_keys (C : list (@cent pykey str)) l J :
  reads wdf C l J -> NoDup (lkeys l) -> NoDup (map (@c_key pykey str) J) ->
  (forall j, In j J -> ~ In (c_key j) (lkeys l)) ->
  NoDup (map (@c_key pykey str) C).
Proof.
  intros [HF HJ] Hl HJn Hd.
  eapply Permutation_NoDup.
  - apply Permutation_map. symmetry. apply (filter_split_perm (@c_junk pykey str) C).
  - rewrite map_app. fold (@nonjunkb pykey str).
    assert (Hk : map (@c_key pykey str) (filter (@nonjunkb pykey str) C) = lkeys l).
    { symmetry. unfold lkeys. apply (Forall2_map _ _ _ _ _ HF). intros kv c (Hk & _). symmetry; exact Hk. }
    rewrite Hk, HJ. apply NoDup_app_disjoint; auto.
    intros k Hk1 Hk2. apply in_map_iff in Hk2. destruct Hk2 as (j & <- & Hj). exact (Hd j Hj Hk1).
Qed.

(* ---- end to end, generic in the format ------------------------------------------------------ *)
Section Core.
Context (walkf : str -> result (list entry)) (valf : str -> result str)
        (bump : str -> entry -> bool).
Context (chk : @cent pykey str -> @cent pykey str -> list finding) (merge : bool).
Context (lR lL : lfile (K := pykey) (V := str)).
Hypothesis HndR : NoDup (lkeys lR).
Hypothesis HndL : NoDup (lkeys lL).

Definition report (r : @acc pykey) : Prop :=
  a_missings r = missing_keys pykey_eqb lR lL /\
  stats_fields (a_stats r) = flat_stats pykey_eqb str_eqb py_keyname wdf lR lL.

Lemma end_to_end_core textR textL R L J j0 j1 j2 :
  parse_text walkf valf bump j0 textR = Ok (R, j1) -> reads wdf R lR [] ->
  parse_text walkf valf bump j1 textL = Ok (L, j2) -> reads wdf L lL J ->
  NoDup (map (@c_key pykey str) J) ->
  (forall j, In j J -> ~ In (c_key j) (lkeys lL)) ->
  (forall j, In j J -> ~ In (c_key j) (lkeys lR)) ->
  exists r, compare_texts walkf valf bump j0 (fun _ => VError) chk merge textR textL = Ok r /\
            report r /\
            Permutation (filter (@is_njunk pykey) (a_notes r)) (map (fun j => NJunk (c_id j)) J) /\
            ((forall a b, chk a b = []) ->
             summary (fun _ => VError) r =
             length J :: 0 :: flat_stats pykey_eqb str_eqb py_keyname wdf lR lL).
Proof.
  intros HpR HrR HpL HrL HJn HJL HJR.
  assert (HndLk : NoDup (map (@c_key pykey str) L)) by (eapply reads_NoDup_keys; eauto).
  unfold compare_texts. rewrite HpR. cbn [bind fst snd]. rewrite HpL. cbn [bind fst snd].
  destruct (flat_no_raise pykey_eqb str_eqb py_keyname wdf pykey_eqb_eq (fun _ => VError) chk merge
                          R L lR HrR) as [r Hr].
  exists r. split; [exact Hr|]. split; [split|split].
  - apply (flat_missings pykey_eqb str_eqb py_keyname wdf pykey_eqb_eq (fun _ => VError) chk merge
             R L J lR lL); auto.
  - apply (flat_stats_eq pykey_eqb str_eqb py_keyname wdf pykey_eqb_eq (fun _ => VError) chk merge
             R L J lR lL); auto.
  - apply (flat_junk_notes pykey_eqb str_eqb py_keyname wdf pykey_eqb_eq (fun _ => VError) chk merge
             R L J lR lL); auto.
  - apply (flat_summary pykey_eqb str_eqb py_keyname wdf pykey_eqb_eq (fun _ => VError) chk merge
             R L J lR lL); auto.
Qed.
End Core.

(* ---- .properties ------------------------------------------------------------------------------ *)
Section EndToEnd.
Context (chk : @cent pykey str -> @cent pykey str -> list finding) (merge : bool) (j0 : nat).
Context (bsR : list block) (lR lL : lfile (K := pykey) (V := str)).
Hypothesis HlegR : Forall legal_block bsR.
Hypothesis HadjR : adjacent_ok bsR.
Hypothesis HvalR : Forall2 tokenized (records_of bsR) lR.
Hypothesis HndR : NoDup (lkeys lR).
Hypothesis HndL : NoDup (lkeys lL).

(* the localization is a legal block list *)
Theorem end_to_end_properties (bsL : list block) :
  Forall legal_block bsL -> adjacent_ok bsL -> Forall2 tokenized (records_of bsL) lL ->
  exists r, compare_properties j0 (fun _ => VError) chk merge (file_text bsR) (file_text bsL) = Ok r /\
            report lR lL r /\ filter (@is_njunk pykey) (a_notes r) = [] /\
            ((forall a b, chk a b = []) ->
             summary (fun _ => VError) r =
             0 :: 0 :: flat_stats pykey_eqb str_eqb py_keyname wdf lR lL).
Proof.
  intros Hl Ha Hv.
  destruct (parse_blocks bsR lR j0 HlegR HadjR (tokenized_valued _ _ HvalR)) as (R & HpR & HrR).
  destruct (parse_blocks bsL lL j0 Hl Ha (tokenized_valued _ _ Hv)) as (L & HpL & HrL).
  destruct (end_to_end_core walk_properties props_val no_bump chk merge lR lL HndR HndL
              (file_text bsR) (file_text bsL) R L [] j0 j0 j0 HpR HrR HpL HrL)
    as (r & Hr & Hrep & Hj & Hsum).
  - constructor.
  - intros j [].
  - intros j [].
  - exists r. split; [exact Hr|]. split; [exact Hrep|]. split; [|exact Hsum].
    apply Permutation_sym, Permutation_nil in Hj. exact Hj.
Qed.

(* the localization has one garbage region *)
Theorem end_to_end_properties_junk (bs1 : list block) (gl : list str) (bs2 : list block) :
  Forall legal_block bs1 -> legal_garbage gl = true -> Forall legal_block bs2 ->
  jadjacent_ok (with_garbage bs1 gl bs2) ->
  Forall2 tokenized (records_of bs1 ++ records_of bs2) lL ->
  let textL := file_text bs1 ++ gtext gl ++ file_text bs2 in
  let p := length (file_text bs1) in
  let jk := KS (junk_key (S j0) (p, p + length (gtext gl))) in
  ~ In jk (lkeys lR) -> ~ In jk (lkeys lL) ->
  exists r, compare_properties j0 (fun _ => VError) chk merge (file_text bsR) textL = Ok r /\
            report lR lL r /\
            filter (@is_njunk pykey) (a_notes r) = [NJunk (Z.of_nat p)] /\
            slice textL p (p + length (gtext gl)) = gtext gl /\
            ((forall a b, chk a b = []) ->
             summary (fun _ => VError) r =
             1 :: 0 :: flat_stats pykey_eqb str_eqb py_keyname wdf lR lL).
Proof.
  intros H1 Hg H2 Ha Hv textL p jk HjR HjL.
  destruct (parse_blocks bsR lR j0 HlegR HadjR (tokenized_valued _ _ HvalR)) as (R & HpR & HrR).
  destruct (parse_blocks_junk bs1 gl bs2 lL j0 H1 Hg H2 Ha (tokenized_valued _ _ Hv))
    as (L & HpL & HrL). fold textL p in HpL, HrL.
  set (J := [mkcent jk (gtext gl) 0 true (Z.of_nat p)]) in *.
  destruct (end_to_end_core walk_properties props_val no_bump chk merge lR lL HndR HndL
              (file_text bsR) textL R L J j0 j0 (S j0) HpR HrR HpL HrL)
    as (r & Hr & Hrep & Hj & Hsum).
  - repeat constructor. intros [].
  - intros j [<-|[]]. exact HjL.
  - intros j [<-|[]]. exact HjR.
  - exists r. split; [exact Hr|]. split; [exact Hrep|]. split.
    + apply Permutation_singleton. exact Hj.
    + split; [unfold textL, p; apply slice_mid|exact Hsum].
Qed.

End EndToEnd.
