(* The generated parameter-entity expression of the DTD parser (DTDParser.rePE)
     <!ENTITY % name SYSTEM 'url'> %name;   and what it swallows after the reference:
     blanks and tabs, then comments each followed by whitespace, then one line feed
   evaluated by the regex ENGINE at an arbitrary offset, and the key expression failing on
   such a declaration.  Used by Proofs/C02BlocksDtd.v.  The shape lemma [pe_shape] is closed
   by [reflexivity] against Generated/RxParser.v; the name and comment classes are the ones
   projected from the key and comment expressions (C02BlocksDtdRx.v). *)
From Coq Require Import NArith List Bool Arith Lia.
From CL Require Import Base.Sx Base.Res Base.Str Regex.Rx Regex.RxLemmas Model.Entry Model.Parse
  Model.ParseFormats Generated.RxParser Proofs.UnescapeProofs
  Proofs.ClassLoop Proofs.ClassLoop2 Proofs.C02Props Proofs.WalkProofs Proofs.C02Roundtrip
  Proofs.C02BlocksRx Proofs.C02BlocksDtdRx.
Import ListNotations.

Local Arguments Nat.ltb : simpl never.
Local Arguments Nat.leb : simpl never.
Local Arguments Nat.eqb : simpl never.
Local Arguments N.eqb : simpl never.
Local Arguments N.leb : simpl never.
Local Arguments chr_ok : simpl never.
Local Arguments run : simpl never.
Local Arguments fwd : simpl never.

Notation capl := (list (nat * (nat * nat))) (only parsing).

Lemma mkst_eq : forall pr pr' X p p' (cs : capl), pr = pr' -> p = p' -> mkst pr X p cs = mkst pr' X p' cs.
Proof. intros; subst; reflexivity. Qed.

(* ---- the lazy loop over a comment body, for any unit expression and continuation ------------- *)
Section CLoop.
Variable U : rx.
Variable capf : nat -> nat -> capl -> capl.
Hypothesis U_dash : forall d t pr p cs, chr_ok false ND d = true ->
  steps U (mkst pr (45%N :: d :: t) p cs) (mkst (d :: 45%N :: pr) t (S (S p)) (capf p (S (S p)) cs)).
Hypothesis U_plain : forall c t pr p cs, N.eqb c 45 = false -> chr_ok false ND c = true ->
  steps U (mkst pr (c :: t) p cs) (mkst (c :: pr) t (S p) (capf p (S p) cs)).
Variable P : capl -> Prop.
Hypothesis P_capf : forall a b cs, P cs -> P (capf a b cs).
Variable K : st -> out.
Hypothesis K_fail : forall X pr p cs, starts_with [45; 45]%N X = false -> K (mkst pr X p cs) = Fail.

Lemma cloop : forall n body, length body <= n -> legal_cbody body = true ->
  forall X fuel count pr p cs, length body < fuel -> P cs ->
  (forall cs', P cs' -> K (mkst (rev body ++ pr) (CCLOSE ++ X) (p + length body) cs') <> Fail) ->
  exists cs', P cs' /\
    rep_loop (m U) false 0 None fuel count (mkst pr (body ++ CCLOSE ++ X) p cs) K =
    K (mkst (rev body ++ pr) (CCLOSE ++ X) (p + length body) cs').
Proof.
  induction n as [|n IH]; intros body Hn Hleg X fuel count pr p cs Hf HP HK.
  - destruct body as [|c t]; [|simpl in Hn; lia]. destruct fuel as [|f]; [lia|].
    rewrite rep_loop_S. replace (count <? 0) with false by (symmetry; apply Nat.ltb_ge; lia).
    cbv zeta. cbn [app rev length] in *. rewrite Nat.add_0_r in *. exists cs. split; [exact HP|].
    apply orelse_nonfail. apply HK. exact HP.
  - destruct fuel as [|f]; [lia|].
    rewrite rep_loop_S. replace (count <? 0) with false by (symmetry; apply Nat.ltb_ge; lia).
    cbv zeta.
    destruct body as [|c t].
    + cbn [app rev length] in *. rewrite Nat.add_0_r in *. exists cs. split; [exact HP|].
      apply orelse_nonfail. apply HK. exact HP.
    + cbn [legal_cbody] in Hleg. destruct (N.eqb c 45) eqn:Ec.
      * apply N.eqb_eq in Ec. subst c. destruct t as [|d t']; [discriminate|].
        apply andb_true_iff in Hleg. destruct Hleg as [Hd Hleg].
        pose proof (nd_not_dash d Hd) as Hd45.
        cbn [app]. rewrite K_fail.
        2:{ cbn [starts_with]. rewrite (N.eqb_sym 45 d), Hd45. reflexivity. }
        rewrite orelse_fail.
        assert (Est : forall cs', mkst (rev t' ++ d :: 45%N :: pr) (CCLOSE ++ X) (S (S p) + length t') cs' =
                                  mkst (rev (45%N :: d :: t') ++ pr) (CCLOSE ++ X) (p + length (45%N :: d :: t')) cs').
        { intros cs'. apply mkst_eq; [cbn [rev]; rewrite <- !app_assoc; reflexivity|cbn [length]; lia]. }
        destruct (IH t') with (X := X) (fuel := f) (count := S count) (pr := d :: 45%N :: pr)
          (p := S (S p)) (cs := capf p (S (S p)) cs) as [cs' [HP' E]];
          [simpl in Hn; lia|exact Hleg|simpl in Hf; lia|apply P_capf; exact HP| |].
        { intros cs' HP'. rewrite Est. apply HK. exact HP'. }
        exists cs'. split; [exact HP'|]. rewrite <- Est, <- E.
        rewrite U_dash; [|exact Hd|]; cbn [pos];
          replace (Nat.eqb (S (S p)) p) with false by (symmetry; apply Nat.eqb_neq; lia).
        -- reflexivity.
        -- rewrite E, Est. apply HK. exact HP'.
      * apply andb_true_iff in Hleg. destruct Hleg as [Hc Hleg].
        cbn [app]. rewrite K_fail.
        2:{ cbn [starts_with]. rewrite (N.eqb_sym 45 c), Ec. reflexivity. }
        rewrite orelse_fail.
        assert (Est : forall cs', mkst (rev t ++ c :: pr) (CCLOSE ++ X) (S p + length t) cs' =
                                  mkst (rev (c :: t) ++ pr) (CCLOSE ++ X) (p + length (c :: t)) cs').
        { intros cs'. apply mkst_eq; [cbn [rev]; rewrite <- !app_assoc; reflexivity|cbn [length]; lia]. }
        destruct (IH t) with (X := X) (fuel := f) (count := S count) (pr := c :: pr)
          (p := S p) (cs := capf p (S p) cs) as [cs' [HP' E]];
          [simpl in Hn; lia|exact Hleg|simpl in Hf; lia|apply P_capf; exact HP| |].
        { intros cs' HP'. rewrite Est. apply HK. exact HP'. }
        exists cs'. split; [exact HP'|]. rewrite <- Est, <- E.
        rewrite U_plain; [|exact Ec|exact Hc|]; cbn [pos];
          replace (Nat.eqb (S p) p) with false by (symmetry; apply Nat.eqb_neq; lia).
        -- reflexivity.
        -- rewrite E, Est. apply HK. exact HP'.
Qed.
End CLoop.

(* ---- a greedy repetition of a composite expression --------------------------------------------- *)
Definition lsteps (R : rx) (fuel : nat) (s s' : st) : Prop :=
  forall count k, k s' <> Fail -> rep_loop (m R) true 0 None fuel count s k = k s'.

Lemma lsteps_nil : forall R f s, (forall k, m R s k = Fail) -> lsteps R (S f) s s.
Proof.
  intros R f s H count k Hk. rewrite rep_loop_S.
  replace (count <? 0) with false by (symmetry; apply Nat.ltb_ge; lia).
  cbv zeta. rewrite H, orelse_fail. reflexivity.
Qed.

Lemma lsteps_cons : forall R f s s1 s2, steps R s s1 -> pos s1 <> pos s -> lsteps R f s1 s2 ->
  lsteps R (S f) s s2.
Proof.
  intros R f s s1 s2 H1 Hp H2 count k Hk. rewrite rep_loop_S.
  replace (count <? 0) with false by (symmetry; apply Nat.ltb_ge; lia).
  cbv zeta.
  assert (E : (if Nat.eqb (pos s1) (pos s) then Fail else rep_loop (m R) true 0 None f (S count) s1 k) = k s2).
  { replace (Nat.eqb (pos s1) (pos s)) with false by (symmetry; apply Nat.eqb_neq; exact Hp).
    apply H2. exact Hk. }
  rewrite H1; rewrite E; [|exact Hk]. apply orelse_nonfail. exact Hk.
Qed.

Lemma steps_rep_gen : forall R s s', lsteps R (S (length (suf s))) s s' -> steps (Rep true 0 None R) s s'.
Proof. intros R s s' H k Hk. rewrite m_Rep. apply H. exact Hk. Qed.

(* ---- the shape of the expression ------------------------------------------------------------------ *)
Definition SYSTEM : str := [83; 89; 83; 84; 69; 77]%N.
Definition PCT : cset := [(37, 37)%N].
Definition UNIT0 : rx := Cat (Alt (Chr false [(45, 45)%N]) Eps) (Chr false ND).
Definition CMTWS : rx := lits COPEN (Cat (Rep false 0 None UNIT0) (lits CCLOSE (WSR 0))).
Definition PETAIL : rx :=
  Alt (Cat (Rep true 0 None (Chr false (points BL)))
           (Cat (Rep true 0 None CMTWS) (Alt (Chr false [(10, 10)%N]) Eps))) Eps.

Definition PEBODY : rx :=
  Cat (WSR 1) (Cat (Chr false PCT) (Cat (WSR 1) (Cat (Grp 1 NAME) (Cat (WSR 1) (lits SYSTEM
    (Cat (WSR 1) (Cat (Grp 2 (Alt (QV 34) (QV 39))) (Cat (WSR 0) (Cat (Chr false [(62, 62)%N])
      (Cat (WSR 0) (Cat (Chr false PCT) (Cat (Chr false NS) (Cat (Rep true 0 None (Chr false NC))
        (Cat (Chr false [(59, 59)%N]) PETAIL)))))))))))))).

Lemma pe_shape : rx_dtd_pe = lits ENT PEBODY.
Proof. reflexivity. Qed.

Lemma group_numbers_pe : g_dtd_pe_key = 1 /\ g_dtd_pe_val = 2.
Proof. split; reflexivity. Qed.

Lemma semi_not_nc : chr_ok false NC 59 = false.
Proof. vm_compute. reflexivity. Qed.

(* ---- helpers for runs next to each other --------------------------------------------------------- *)
Lemma head_is_app_ne : forall f (x y : str), x <> [] -> head_is f (x ++ y) = head_is f x.
Proof. intros f [|c x] y H; [contradiction|reflexivity]. Qed.

Lemma ws_head_not_nc : forall x Z, x <> [] -> is_ws x = true -> head_is (chr_ok false NC) (x ++ Z) = false.
Proof.
  intros [|c x] Z Hne H; [contradiction|]. cbn [app head_is]. apply ws_char_not_nc.
  cbn [is_ws forallb] in H. apply andb_true_iff in H. exact (proj1 H).
Qed.

Lemma name_head_not_ws : forall name Z, legal_name name = true ->
  head_is (chr_ok false (points WS)) (name ++ Z) = false.
Proof.
  intros [|c0 tl] Z H; [discriminate|]. cbn [legal_name] in H. apply andb_true_iff in H.
  cbn [app head_is]. rewrite chr_ok_points. apply ns_not_ws. exact (proj1 H).
Qed.

Lemma steps_wsr : forall lo w Z pr p cs, is_ws w = true -> lo <= length w ->
  head_is (chr_ok false (points WS)) Z = false ->
  steps (WSR lo) (mkst pr (w ++ Z) p cs) (mkst (rev w ++ pr) Z (p + length w) cs).
Proof. intros. unfold WSR. apply steps_rep; auto. apply ws_class. assumption. Qed.

Lemma ne_length : forall (x : str), x <> [] -> 1 <= length x.
Proof. intros [|c x] H; [contradiction|simpl; lia]. Qed.

Lemma steps_name : forall name Z pr p cs, legal_name name = true ->
  head_is (chr_ok false NC) Z = false ->
  steps NAME (mkst pr (name ++ Z) p cs) (mkst (rev name ++ pr) Z (p + length name) cs).
Proof.
  intros [|c0 tl] Z pr p cs H HZ; [discriminate|]. cbn [legal_name] in H. apply andb_true_iff in H.
  destruct H as [H0 Htl]. unfold NAME. cbn [app]. eapply steps_cat; [apply steps_chr; exact H0|].
  replace (mkst (rev (c0 :: tl) ++ pr) Z (p + length (c0 :: tl)) cs)
    with (mkst (rev tl ++ c0 :: pr) Z (S p + length tl) cs)
    by (apply mkst_eq; [cbn [rev]; rewrite <- app_assoc; reflexivity|cbn [length]; lia]).
  apply steps_rep; [exact Htl|exact HZ|lia].
Qed.

Lemma steps_quoted : forall q v Y pr p cs, legal_qval q v = true ->
  steps (Alt (QV 34) (QV 39)) (mkst pr (q :: v ++ q :: Y) p cs)
        (mkst (q :: rev v ++ q :: pr) Y (S (S p + length v)) cs).
Proof.
  intros q v Y pr p cs H. unfold legal_qval in H. apply andb_true_iff in H. destruct H as [Hq Hv].
  unfold is_quote in Hq. apply orb_true_iff in Hq. destruct Hq as [E|E]; apply N.eqb_eq in E; subst q.
  - apply steps_alt_l. apply steps_qv. exact Hv.
  - apply steps_alt_r; [intros k; apply qv_fails; reflexivity|]. apply steps_qv. exact Hv.
Qed.

Lemma quote_not_ws : forall q v Z, legal_qval q v = true ->
  head_is (chr_ok false (points WS)) (q :: Z) = false.
Proof.
  intros q v Z H. unfold legal_qval in H. apply andb_true_iff in H. destruct H as [Hq _].
  cbn [head_is]. rewrite chr_ok_points. unfold is_quote in Hq. apply orb_true_iff in Hq.
  destruct Hq as [E|E]; apply N.eqb_eq in E; subst q; reflexivity.
Qed.

(* ---- comments with their whitespace after the reference ------------------------------------------ *)
Definition cm_text (c : str * str) : str := comment_text (fst c) ++ snd c.
Definition cms_text (cms : list (str * str)) : str := concat (map cm_text cms).
Definition legal_cm (c : str * str) : bool := legal_cbody (fst c) && is_ws (snd c).

Lemma steps_unit0_dash : forall d t pr p cs, chr_ok false ND d = true ->
  steps UNIT0 (mkst pr (45%N :: d :: t) p cs) (mkst (d :: 45%N :: pr) t (S (S p)) cs).
Proof.
  intros d t pr p cs Hd. unfold UNIT0. eapply steps_cat.
  - apply steps_alt_l. apply steps_chr. rewrite single_class. reflexivity.
  - apply steps_chr. exact Hd.
Qed.

Lemma steps_unit0_plain : forall c t pr p cs, N.eqb c 45 = false -> chr_ok false ND c = true ->
  steps UNIT0 (mkst pr (c :: t) p cs) (mkst (c :: pr) t (S p) cs).
Proof.
  intros c t pr p cs Hc Hnd. unfold UNIT0. eapply steps_cat.
  - apply steps_alt_r; [|apply steps_eps].
    intros k. rewrite m_Chr. cbn [suf]. rewrite single_class, Hc. reflexivity.
  - apply steps_chr. exact Hnd.
Qed.

Lemma steps_cmtws : forall body w X pr p cs,
  legal_cbody body = true -> is_ws w = true -> head_is (chr_ok false (points WS)) X = false ->
  steps CMTWS (mkst pr (comment_text body ++ w ++ X) p cs)
    (mkst (rev w ++ rev CCLOSE ++ rev body ++ rev COPEN ++ pr) X
          (p + length (comment_text body) + length w) cs).
Proof.
  intros body w X pr p cs Hb Hw HX k Hk. unfold CMTWS, comment_text. rewrite <- !app_assoc.
  rewrite m_lits_ok, m_Cat, m_Rep.
  set (K := fun s' : st => m (lits CCLOSE (WSR 0)) s' k).
  assert (Kend : forall cs', cs = cs' ->
            K (mkst (rev body ++ rev COPEN ++ pr) (CCLOSE ++ w ++ X) (p + length COPEN + length body) cs') =
            k (mkst (rev w ++ rev CCLOSE ++ rev body ++ rev COPEN ++ pr) X
                    (p + length (COPEN ++ body ++ CCLOSE) + length w) cs)).
  { intros cs' <-. unfold K. rewrite m_lits_ok.
    rewrite (steps_wsr 0 w X _ _ cs Hw (Nat.le_0_l _) HX).
    - f_equal. apply mkst_eq; [reflexivity|]. rewrite !app_length. simpl. lia.
    - match goal with |- k ?s1 <> Fail => replace s1 with
        (mkst (rev w ++ rev CCLOSE ++ rev body ++ rev COPEN ++ pr) X
              (p + length (COPEN ++ body ++ CCLOSE) + length w) cs) end; [exact Hk|].
      apply mkst_eq; [reflexivity|]. rewrite !app_length. simpl. lia. }
  destruct (cloop UNIT0 (fun _ _ cs0 => cs0) steps_unit0_dash steps_unit0_plain (eq cs)
              (fun _ _ cs0 H => H) K) with (n := length body) (body := body) (X := w ++ X)
              (fuel := 0 + S (length (suf (mkst (rev COPEN ++ pr) (body ++ CCLOSE ++ w ++ X) (p + length COPEN) cs))))
              (count := 0) (pr := rev COPEN ++ pr) (p := p + length COPEN) (cs := cs)
    as [cs' [HP E]].
  - intros Z pr0 p0 cs0 HZ. unfold K. change (lits CCLOSE (WSR 0)) with (lits [45; 45]%N (lits [62%N] (WSR 0))).
    apply m_lits_fail. exact HZ.
  - lia.
  - exact Hb.
  - cbn [suf]. rewrite app_length. lia.
  - reflexivity.
  - intros cs' HP. rewrite (Kend cs' HP). exact Hk.
  - fold K. rewrite E. apply Kend. exact HP.
Qed.

Lemma cmtws_fails : forall X pr p cs k, starts_with COPEN X = false -> m CMTWS (mkst pr X p cs) k = Fail.
Proof. intros. unfold CMTWS. apply m_lits_fail. exact H. Qed.

Lemma cms_text_cons : forall c cms, cms_text (c :: cms) = cm_text c ++ cms_text cms.
Proof. reflexivity. Qed.

Lemma cm_text_head : forall c Z, exists y, cm_text c ++ Z = 60%N :: y.
Proof. intros [body w] Z. unfold cm_text, comment_text, COPEN. cbn [fst snd]. rewrite <- !app_assoc. eexists. reflexivity. Qed.

Lemma cm_text_length : forall c, 7 <= length (cm_text c).
Proof. intros [body w]. unfold cm_text. cbn [fst snd]. rewrite app_length, comment_text_length. lia. Qed.

(* the greedy loop over the comments: all of them, then the comment expression fails *)
Fixpoint cms_pre (cms : list (str * str)) (pr : list N) : list N :=
  match cms with
  | [] => pr
  | (body, w) :: rest => cms_pre rest (rev w ++ rev CCLOSE ++ rev body ++ rev COPEN ++ pr)
  end.

Lemma cms_lsteps : forall cms Y, forallb legal_cm cms = true ->
  starts_with COPEN Y = false -> (cms <> [] -> head_is (chr_ok false (points WS)) Y = false) ->
  forall fuel pr p cs, length cms < fuel ->
  lsteps CMTWS fuel (mkst pr (cms_text cms ++ Y) p cs)
         (mkst (cms_pre cms pr) Y (p + length (cms_text cms)) cs).
Proof.
  induction cms as [|[body w] cms IH]; intros Y Hleg HY1 HY2 fuel pr p cs Hf.
  - destruct fuel as [|f]; [simpl in Hf; lia|]. cbn [cms_text map concat app length cms_pre].
    rewrite Nat.add_0_r. apply lsteps_nil. intros k. apply cmtws_fails. exact HY1.
  - destruct fuel as [|f]; [simpl in Hf; lia|].
    cbn [forallb] in Hleg. apply andb_true_iff in Hleg. destruct Hleg as [Hc Hleg].
    unfold legal_cm in Hc. cbn [fst snd] in Hc. apply andb_true_iff in Hc. destruct Hc as [Hb Hw].
    assert (Hnext : head_is (chr_ok false (points WS)) (cms_text cms ++ Y) = false).
    { destruct cms as [|c2 cms'].
      - cbn [cms_text map concat app]. apply HY2. discriminate.
      - rewrite cms_text_cons, <- app_assoc. destruct (cm_text_head c2 (cms_text cms' ++ Y)) as [y Ey].
        rewrite Ey. reflexivity. }
    assert (L := IH Y Hleg HY1 (fun Hne => HY2 ltac:(discriminate)) f
                   (rev w ++ rev CCLOSE ++ rev body ++ rev COPEN ++ pr)
                   (p + length (comment_text body) + length w) cs ltac:(simpl in Hf; lia)).
    rewrite cms_text_cons. unfold cm_text at 1 2. cbn [fst snd cms_pre]. rewrite <- !app_assoc.
    eapply lsteps_cons.
    + apply steps_cmtws; auto.
    + cbn [pos]. rewrite comment_text_length. lia.
    + replace (p + length (comment_text body ++ w ++ cms_text cms))
        with (p + length (comment_text body) + length w + length (cms_text cms))
        by (rewrite !app_length; lia).
      exact L.
Qed.

Lemma cms_text_length_ge : forall cms, length cms <= length (cms_text cms).
Proof.
  induction cms as [|c cms IH]; [simpl; lia|]. rewrite cms_text_cons, app_length.
  pose proof (cm_text_length c). simpl. lia.
Qed.

(* ---- the declaration -------------------------------------------------------------------------------- *)
Record pedecl := mkpe {
  pe_ws1 : str; pe_ws2 : str; pe_name : str; pe_ws3 : str; pe_ws4 : str;
  pe_q : N; pe_v : str; pe_ws5 : str; pe_ws6 : str; pe_ref : str;
  pe_bl : str; pe_cms : list (str * str); pe_nl : bool }.
   (*  <!ENTITY ws1 % ws2 name ws3 SYSTEM ws4 q v q ws5 > ws6 % ref ;  then what the expression
       swallows: blanks/tabs [bl], comments each with its whitespace [cms], one line feed [nl] *)

Definition nl_text (nl : bool) : str := if nl then [10%N] else [].
Definition pe_tail_text (d : pedecl) : str := pe_bl d ++ cms_text (pe_cms d) ++ nl_text (pe_nl d).
Definition pe_text (d : pedecl) : str :=
  ENT ++ pe_ws1 d ++ 37%N :: pe_ws2 d ++ pe_name d ++ pe_ws3 d ++ SYSTEM ++ pe_ws4 d ++
  pe_q d :: pe_v d ++ pe_q d :: pe_ws5 d ++ 62%N :: pe_ws6 d ++ 37%N :: pe_ref d ++ 59%N :: pe_tail_text d.

Definition ne_ws (w : str) : bool := match w with [] => false | _ => is_ws w end.

Definition legal_pe (d : pedecl) : bool :=
  ne_ws (pe_ws1 d) && ne_ws (pe_ws2 d) && legal_name (pe_name d) && ne_ws (pe_ws3 d) &&
  ne_ws (pe_ws4 d) && legal_qval (pe_q d) (pe_v d) && is_ws (pe_ws5 d) && is_ws (pe_ws6 d) &&
  legal_name (pe_ref d) && forallb (fun c => mem c BL) (pe_bl d) && forallb legal_cm (pe_cms d) &&
  (negb (pe_nl d) || match pe_cms d with [] => true | _ => false end).

(* what follows the declaration must not extend the match: after the line feed anything;
   otherwise no comment, and no whitespace (after a comment) / no blank, tab, line feed (after
   the reference) *)
Definition pe_next_ok (d : pedecl) (Y : str) : bool :=
  pe_nl d ||
  (negb (starts_with COPEN Y) &&
   match pe_cms d with
   | [] => negb (head_is (fun c => mem c [32; 9; 10]%N) Y)
   | _ => negb (head_is (fun c => mem c WS) Y)
   end).

Lemma ne_ws_facts : forall w, ne_ws w = true -> w <> [] /\ is_ws w = true /\ 1 <= length w.
Proof. intros [|c w] H; [discriminate|]. repeat split; [discriminate|exact H|simpl; lia]. Qed.

Lemma steps_eq : forall R s s1 s2, steps R s s1 -> s1 = s2 -> steps R s s2.
Proof. intros; subst; assumption. Qed.

Lemma steps_cat_assoc : forall A B C s s', steps (Cat (Cat A B) C) s s' -> steps (Cat A (Cat B C)) s s'.
Proof. intros A B C s s' H k Hk. exact (H k Hk). Qed.

Definition tail_pre (d : pedecl) (pr : list N) : list N :=
  (if pe_nl d then [10%N] else []) ++ cms_pre (pe_cms d) (rev (pe_bl d) ++ pr).

Lemma steps_petail : forall d Y pr p cs,
  forallb (fun c => mem c BL) (pe_bl d) = true -> forallb legal_cm (pe_cms d) = true ->
  (negb (pe_nl d) || match pe_cms d with [] => true | _ => false end) = true ->
  pe_next_ok d Y = true ->
  steps PETAIL (mkst pr (pe_tail_text d ++ Y) p cs)
        (mkst (tail_pre d pr) Y (p + length (pe_tail_text d)) cs).
Proof.
  intros [ws1 ws2 name ws3 ws4 q v ws5 ws6 ref bl cms nl] Y pr p cs Hbl Hcms Hnl Hnext.
  unfold pe_tail_text, tail_pre, pe_next_ok in *. cbn [pe_bl pe_cms pe_nl] in *.
  (* what the separation says about Y when there is no line feed *)
  assert (HY : nl = false ->
            starts_with COPEN Y = false /\ head_is (fun c => N.eqb c 10) Y = false /\
            (cms = [] -> head_is (chr_ok false (points BL)) Y = false) /\
            (cms <> [] -> head_is (chr_ok false (points WS)) Y = false)).
  { intros ->. cbn [orb] in Hnext. apply andb_true_iff in Hnext. destruct Hnext as [H1 H2].
    apply negb_true_iff in H1. split; [exact H1|].
    destruct Y as [|c Y']; [repeat split; reflexivity|]. cbn [head_is] in *.
    destruct cms as [|c1 cms'].
    - apply negb_true_iff in H2. unfold mem in H2. cbn [existsb] in H2.
      apply orb_false_iff in H2. destruct H2 as [E1 H2]. apply orb_false_iff in H2.
      destruct H2 as [E2 H2]. apply orb_false_iff in H2. destruct H2 as [E3 _].
      split; [exact E3|]. split; [|intros H; contradiction].
      intros _. rewrite chr_ok_points. unfold mem, BL. cbn [existsb]. rewrite E1, E2. reflexivity.
    - apply negb_true_iff in H2. split; [|split; [intros H; discriminate|]].
      + unfold mem, WS in H2. cbn [existsb] in H2.
        destruct (N.eqb c 32); [discriminate|]. destruct (N.eqb c 9); [discriminate|].
        destruct (N.eqb c 13); [discriminate|]. destruct (N.eqb c 10); [discriminate|reflexivity].
      + intros _. rewrite chr_ok_points. exact H2. }
  assert (F1 : head_is (chr_ok false (points BL)) (cms_text cms ++ nl_text nl ++ Y) = false).
  { destruct cms as [|c1 cms'].
    - cbn [cms_text map concat app]. destruct nl; [reflexivity|]. cbn [nl_text app].
      apply (HY eq_refl). reflexivity.
    - rewrite cms_text_cons, <- app_assoc.
      destruct (cm_text_head c1 (cms_text cms' ++ nl_text nl ++ Y)) as [y Ey]. rewrite Ey. reflexivity. }
  assert (F2 : starts_with COPEN (nl_text nl ++ Y) = false).
  { destruct nl; [reflexivity|]. apply (HY eq_refl). }
  assert (F3 : cms <> [] -> head_is (chr_ok false (points WS)) (nl_text nl ++ Y) = false).
  { intros Hne. destruct nl.
    - destruct cms; [contradiction|discriminate].
    - apply (HY eq_refl). exact Hne. }
  unfold PETAIL. rewrite <- !app_assoc. apply steps_alt_l.
  eapply steps_cat.
  { apply (steps_rep false (points BL) 0 bl); [|exact F1|lia].
    rewrite (forallb_ext' _ (fun c => mem c BL)); [exact Hbl|]. intros c. apply chr_ok_points. }
  eapply steps_cat.
  { apply steps_rep_gen. apply cms_lsteps; [exact Hcms|exact F2|exact F3|].
    cbn [suf]. rewrite app_length. pose proof (cms_text_length_ge cms). lia. }
  destruct nl.
  - cbn [nl_text app].
    eapply steps_eq; [apply steps_alt_l; apply steps_chr; rewrite single_class; reflexivity|].
    apply mkst_eq; [reflexivity|]. rewrite !app_length. cbn [length]. lia.
  - cbn [nl_text app]. eapply steps_eq.
    + apply steps_alt_r; [|apply steps_eps]. intros k. rewrite m_Chr. cbn [suf].
      destruct Y as [|c Y']; [reflexivity|]. rewrite single_class.
      destruct (HY eq_refl) as [_ [E _]]. cbn [head_is] in E. rewrite E. reflexivity.
    + apply mkst_eq; [reflexivity|]. rewrite !app_length. cbn [length]. lia.
Qed.

Lemma pe_text_app : forall d Y,
  pe_text d ++ Y =
  ENT ++ pe_ws1 d ++ 37%N :: pe_ws2 d ++ pe_name d ++ pe_ws3 d ++ SYSTEM ++ pe_ws4 d ++
  pe_q d :: pe_v d ++ pe_q d :: pe_ws5 d ++ 62%N :: pe_ws6 d ++ 37%N :: pe_ref d ++ 59%N ::
  (pe_tail_text d ++ Y).
Proof. intros. unfold pe_text. repeat (progress (rewrite <- ?app_assoc; cbn [app])). reflexivity. Qed.

Lemma pe_text_length : forall d,
  length (pe_text d) =
  8 + length (pe_ws1 d) + 1 + length (pe_ws2 d) + length (pe_name d) + length (pe_ws3 d) + 6 +
  length (pe_ws4 d) + 2 + length (pe_v d) + length (pe_ws5 d) + 1 + length (pe_ws6 d) + 1 +
  length (pe_ref d) + 1 + length (pe_tail_text d).
Proof.
  intros. unfold pe_text, ENT, SYSTEM. repeat (rewrite ?app_length; cbn [length]). lia.
Qed.

Definition pe_key_span (d : pedecl) (p : nat) : nat * nat :=
  (p + 8 + length (pe_ws1 d) + 1 + length (pe_ws2 d),
   p + 8 + length (pe_ws1 d) + 1 + length (pe_ws2 d) + length (pe_name d)).
(* group val: the quoted text WITH its quotes (DTDParser.getNext passes m.span('val') as is) *)
Definition pe_val_span (d : pedecl) (p : nat) : nat * nat :=
  (snd (pe_key_span d p) + length (pe_ws3 d) + 6 + length (pe_ws4 d),
   snd (pe_key_span d p) + length (pe_ws3 d) + 6 + length (pe_ws4 d) + 2 + length (pe_v d)).

Lemma caps2_eq' : forall (a b c d : nat) (x y : nat * nat), (a, b) = x -> (c, d) = y ->
  [(2, (a, b)); (1, (c, d))] = [(2, x); (1, y)].
Proof. intros; subst; reflexivity. Qed.

Lemma pe_steps : forall d Y pr p, legal_pe d = true -> pe_next_ok d Y = true ->
  exists s',
    steps rx_dtd_pe (mkst pr (pe_text d ++ Y) p []) s' /\
    suf s' = Y /\ pos s' = p + length (pe_text d) /\
    caps s' = [(2, pe_val_span d p); (1, pe_key_span d p)].
Proof.
  intros d Y pr p Hleg Hnext. unfold legal_pe in Hleg.
  repeat (apply andb_true_iff in Hleg; let H := fresh "L" in destruct Hleg as [Hleg H]).
  destruct (ne_ws_facts _ Hleg) as [N1 [W1 G1]]. destruct (ne_ws_facts _ L9) as [N2 [W2 G2]].
  destruct (ne_ws_facts _ L7) as [N3 [W3 G3]]. destruct (ne_ws_facts _ L6) as [N4 [W4 G4]].
  eexists. split.
  { rewrite pe_shape, pe_text_app. apply steps_lits. unfold PEBODY.
    eapply steps_cat.
    { apply steps_wsr; [exact W1|exact G1|]. cbn [head_is]. rewrite chr_ok_points. reflexivity. }
    eapply steps_cat; [apply steps_chr; unfold PCT; rewrite single_class; reflexivity|].
    eapply steps_cat.
    { apply steps_wsr; [exact W2|exact G2|]. apply name_head_not_ws. exact L8. }
    eapply steps_cat.
    { apply steps_grp. apply steps_name; [exact L8|]. apply ws_head_not_nc; assumption. }
    unfold set_cap. cbn [pre suf pos caps].
    eapply steps_cat.
    { apply steps_wsr; [exact W3|exact G3|]. unfold SYSTEM. cbn [app head_is].
      rewrite chr_ok_points. reflexivity. }
    apply steps_lits.
    eapply steps_cat.
    { apply steps_wsr; [exact W4|exact G4|]. eapply quote_not_ws. exact L5. }
    eapply steps_cat; [apply steps_grp; apply steps_quoted; exact L5|].
    unfold set_cap. cbn [pre suf pos caps].
    eapply steps_cat.
    { apply steps_wsr; [exact L4|lia|]. cbn [head_is]. rewrite chr_ok_points. reflexivity. }
    eapply steps_cat; [apply steps_chr; rewrite single_class; reflexivity|].
    eapply steps_cat.
    { apply steps_wsr; [exact L3|lia|]. cbn [head_is]. rewrite chr_ok_points. reflexivity. }
    eapply steps_cat; [apply steps_chr; unfold PCT; rewrite single_class; reflexivity|].
    apply steps_cat_assoc. eapply steps_cat.
    { apply steps_name; [exact L2|]. cbn [head_is]. exact semi_not_nc. }
    eapply steps_cat; [apply steps_chr; rewrite single_class; reflexivity|].
    apply steps_petail; assumption. }
  cbn [suf pos caps]. split; [reflexivity|]. split.
  - rewrite pe_text_length. unfold ENT, SYSTEM. cbn [length]. lia.
  - unfold pe_val_span, pe_key_span, ENT, SYSTEM. cbn [fst snd length].
    apply caps2_eq; lia.
Qed.

Lemma omatch_pe : forall (a : str) d Y, legal_pe d = true -> pe_next_ok d Y = true ->
  omatch rx_dtd_pe (a ++ pe_text d ++ Y) (length a) =
  Some (mkres (length a) (length a + length (pe_text d))
              [(2, pe_val_span d (length a)); (1, pe_key_span d (length a))]).
Proof.
  intros a d Y Hleg Hnext.
  destruct (pe_steps d Y (rev a) (length a) Hleg Hnext) as [s' [H1 [H2 [H3 H4]]]].
  rewrite omatch_split, run_at_k0, H1 by (rewrite k0_done; discriminate).
  rewrite k0_done. cbn [pos]. rewrite H3, H4. reflexivity.
Qed.

(* ---- the key expression fails on such a declaration: % is not a name start character, and
        neither is the whitespace in front of it (backtracking into the run) ----------------------- *)
Lemma name_group_fails : forall R c t pr p cs k, chr_ok false NS c = false ->
  m (Cat (Grp 1 NAME) R) (mkst pr (c :: t) p cs) k = Fail.
Proof.
  intros. rewrite m_Cat, m_Grp. unfold NAME. rewrite m_Cat, m_Chr. cbn [suf]. rewrite H. reflexivity.
Qed.

Lemma key_fails_pe : forall ws1 Z pr p cs k, is_ws ws1 = true ->
  m rx_dtd_key (mkst pr (ENT ++ ws1 ++ 37%N :: Z) p cs) k = Fail.
Proof.
  intros ws1 Z pr p cs k Hw. rewrite key_shape, m_lits_ok. unfold KEYTAIL. rewrite m_Cat. unfold WSR.
  assert (Hr : run false (points WS) None (ws1 ++ 37%N :: Z) = length ws1).
  { apply run_exact_gen; [apply ws_class; exact Hw|]. cbn [head_is]. rewrite chr_ok_points. reflexivity. }
  assert (Hlen : length ws1 <= length (ws1 ++ 37%N :: Z)) by (rewrite app_length; lia).
  rewrite (m_rep_class_desc false (points WS) 1 None); [|exact I|].
  - cbn [suf]. rewrite Hr. destruct (1 <=? length ws1); [|reflexivity].
    rewrite fwd_app. apply name_group_fails. exact percent_not_ns.
  - cbn [suf]. rewrite Hr. intros j Hj _. rewrite fwd_mkst_caps by lia.
    destruct (skipn j (ws1 ++ 37%N :: Z)) as [|c' t'] eqn:Es.
    + apply (f_equal (@length N)) in Es. rewrite skipn_length in Es. cbn [length] in Es. lia.
    + apply name_group_fails. apply ws_char_not_ns.
      assert (Hin : In c' ws1) by (eapply skipn_head_in; [exact Hj|exact Es]).
      unfold is_ws in Hw. rewrite forallb_forall in Hw. apply Hw. exact Hin.
Qed.

Lemma omatch_key_none_pe : forall (a : str) d Y, legal_pe d = true ->
  omatch rx_dtd_key (a ++ pe_text d ++ Y) (length a) = None.
Proof.
  intros a d Y Hleg. unfold legal_pe in Hleg.
  repeat (apply andb_true_iff in Hleg; let H := fresh "L" in destruct Hleg as [Hleg H]).
  destruct (ne_ws_facts _ Hleg) as [_ [W1 _]].
  rewrite omatch_split, run_at_k0, pe_text_app, key_fails_pe by exact W1. reflexivity.
Qed.

