(* Specification vocabulary for C09 (definitions only): the declarative
   argument map, the declarative shape of "simple" element content and the
   token-level quoting model. *)
From Coq Require Import NArith List Bool Arith.
From CL Require Import Base.Sx Base.Res Base.Str Regex.Rx Generated.RxC09 Generated.C09Facts
  Model.CheckAndroid.
Import ListNotations.

(* ---- arguments ------------------------------------------------------------ *)
(* an occurrence with its position resolved: (position, conversion, offset) *)
Definition rocc := (nat * str * nat)%type.

(* implicit numbering: the n-th occurrence without an explicit position gets n *)
Fixpoint resolve (next : nat) (os : list occ) : list rocc :=
  match os with
  | [] => []
  | (Some n, f, st) :: os' => (n, f, st) :: resolve next os'
  | (None, f, st) :: os' => (next, f, st) :: resolve (S next) os'
  end.

(* the argument occurrences of a string, positions resolved (get_params never
   raises: Proofs/CheckAndroidTotal.v) *)
Definition args (s : str) : list rocc :=
  match scan_params s with
  | Ok os => resolve 1 os
  | Raise _ => []
  end.

(* the conversion of the first occurrence that uses position k *)
Definition first_conv (k : nat) (rs : list rocc) : option str :=
  match find (fun r => Nat.eqb k (fst (fst r))) rs with
  | Some r => Some (snd (fst r))
  | None => None
  end.

(* the issues of check_params, declaratively; rs = resolved occurrences of the
   localized string, params = the reference's map *)
Definition conflict_issue (k : nat) (f f2 : str) (st : nat) : issue :=
  mkissue true (PInt st) (render t_conflict [dec_of_nat k; f; f2]) (snd y_l10n_conflict).
Definition not_in_ref_issue (k : nat) (f : str) : issue :=
  tpl_issue y_not_in_ref (PInt 0) [dec_of_nat k; f].
Definition mismatch_issue : issue := lit_issue y_mismatch 0.
Definition not_in_l10n_issue (k : nat) (f : str) : issue :=
  tpl_issue y_not_in_l10n (PInt 0) [dec_of_nat k; f].
Definition count_issue : issue := lit_issue y_count 0.

(* a later occurrence of position k with a conversion other than the first one *)
Definition is_conflict (rs : list rocc) (i : issue) : Prop :=
  exists k f st f2, In (k, f, st) rs /\ first_conv k rs = Some f2 /\ f2 <> f /\
                    i = conflict_issue k f f2 st.
(* a position the reference does not have *)
Definition is_not_in_ref (params : pmap) (rs : list rocc) (i : issue) : Prop :=
  exists k f, first_conv k rs = Some f /\ pget k params = None /\ i = not_in_ref_issue k f.
(* a position the reference has with another conversion *)
Definition is_mismatch (params : pmap) (rs : list rocc) (i : issue) : Prop :=
  exists k f f', first_conv k rs = Some f /\ pget k params = Some f' /\ f' <> f /\
                 i = mismatch_issue.
(* a position of the reference the localized string omits *)
Definition is_omitted (params : pmap) (rs : list rocc) (i : issue) : Prop :=
  exists k f, In (k, f) params /\ first_conv k rs = None /\ i = not_in_l10n_issue k f.

(* ---- element content ---------------------------------------------------------- *)
Definition blank_text (c : child) : Prop :=
  exists d, c = Text d /\ Forall (fun x => is_py_space x = true) d.

(* nothing, one text node, or one CDATA section between blank text nodes *)
Definition simple_content (cs : list child) : Prop :=
  cs = [] \/ (exists d, cs = [Text d]) \/
  (exists pre d post, cs = pre ++ CData d :: post /\ Forall blank_text pre /\ Forall blank_text post).

(* ---- quoting tokens ---------------------------------------------------------------- *)
Inductive qtok :=
| QChar (c : N)          (* any character but backslash, quote, apostrophe *)
| QEsc (c : N)           (* backslash and any character but newline *)
| QApos                  (* a bare apostrophe *)
| QQuote.                (* a bare straight quote *)

Definition c_bs : N := 92.
Definition c_quote : N := 34.
Definition c_apos : N := 39.
Definition c_nl : N := 10.

Definition qtok_ok (t : qtok) : bool :=
  match t with
  | QChar c => negb (N.eqb c c_bs) && negb (N.eqb c c_quote) && negb (N.eqb c c_apos)
  | QEsc c => negb (N.eqb c c_nl)
  | _ => true
  end.

Definition qrender1 (t : qtok) : str :=
  match t with
  | QChar c => [c]
  | QEsc c => [c_bs; c]
  | QApos => [c_apos]
  | QQuote => [c_quote]
  end.
Definition qrender (ts : list qtok) : str := concat (map qrender1 ts).

(* doubled straight quotes: a bare quote directly after a quote character
   (a bare quote, or the second character of an escaped quote); pairs are
   counted from the left and do not overlap.  The offset is that of the first
   quote character of the pair. *)
Fixpoint q_doubles (ts : list qtok) (off : nat) : list nat :=
  match ts with
  | [] => []
  | QQuote :: ts' =>
      match ts' with
      | QQuote :: ts'' => off :: q_doubles ts'' (S (S off))
      | _ => q_doubles ts' (S off)
      end
  | QEsc c :: ts' =>
      match ts' with
      | QQuote :: ts'' =>
          if N.eqb c c_quote then S off :: q_doubles ts'' (S (S (S off)))
          else q_doubles ts' (S (S off))
      | _ => q_doubles ts' (S (S off))
      end
  | _ :: ts' => q_doubles ts' (S off)
  end.

(* what the silencer leaves: escapes and pairs of bare quotes become blanks *)
Definition q_blank : qtok := QChar 32.

Fixpoint q_silence (ts : list qtok) : list qtok :=
  match ts with
  | [] => []
  | QEsc _ :: ts' => q_blank :: q_blank :: q_silence ts'
  | QQuote :: ts' =>
      match ts' with
      | QQuote :: ts'' => q_blank :: q_blank :: q_silence ts''
      | _ => QQuote :: q_silence ts'
      end
  | t :: ts' => t :: q_silence ts'
  end.

Definition is_qquote (t : qtok) : bool := match t with QQuote => true | _ => false end.

(* the silenced value starts and ends with a quote *)
Definition q_quoted (ts : list qtok) : bool :=
  match q_silence ts, rev (q_silence ts) with
  | a :: _, b :: _ => is_qquote a && is_qquote b
  | _, _ => false
  end.

(* offsets of the bare apostrophes *)
Fixpoint q_apostrophes (ts : list qtok) (off : nat) : list nat :=
  match ts with
  | [] => []
  | QApos :: ts' => off :: q_apostrophes ts' (S off)
  | t :: ts' => q_apostrophes ts' (length (qrender1 t) + off)
  end.

Definition quoting_model (ts : list qtok) : list issue :=
  map (lit_issue y_double_quotes) (q_doubles ts 0) ++
  (if q_quoted ts then [] else map (lit_issue y_apostrophe) (q_apostrophes ts 0)).

Definition qtoks_ok (ts : list qtok) : Prop := Forall (fun t => qtok_ok t = true) ts.
