(* The generated expressions of the properties parser (comment, whitespace, key,
   escaped-end, trailing-whitespace) evaluated at an arbitrary offset inside a longer
   text of known shape: the "match at offset" forms of the lemmas of C02Roundtrip.v,
   plus the comment expression on several lines.  Used by Proofs/C02Blocks.v. *)
From Coq Require Import NArith List Bool Arith Lia.
From CL Require Import Base.Sx Base.Res Base.Str Regex.Rx Regex.RxLemmas Model.Entry Model.Parse
  Model.ParseFormats Generated.RxParser Proofs.UnescapeProofs
  Proofs.ClassLoop Proofs.ClassLoop2 Proofs.C02Props Proofs.WalkProofs Proofs.C02Roundtrip.
Import ListNotations.

Local Arguments Nat.ltb : simpl never.
Local Arguments Nat.leb : simpl never.
Local Arguments Nat.eqb : simpl never.
Local Arguments N.eqb : simpl never.
Local Arguments N.leb : simpl never.
Local Arguments chr_ok : simpl never.
Local Arguments run : simpl never.
Local Arguments fwd : simpl never.

(* ---- a greedy class repetition with an arbitrary continuation: the result is the
        continuation's answer after the longest run it accepts ------------------------------- *)
Section Greedy.
Variables (neg : bool) (cls : cset).

Lemma rep_class_greedy : forall fuel count s k,
  length (suf s) < fuel ->
  exists j, j <= run neg cls None (suf s) /\
    rep_loop (m (Chr neg cls)) true 0 None fuel count s k = k (fwd j s) /\
    (forall i, j < i -> i <= run neg cls None (suf s) -> k (fwd i s) = Fail) /\
    (k (fwd j s) = Fail -> j = 0).
Proof.
  induction fuel as [|f IH]; intros count s k Hf; [lia|].
  rewrite rep_loop_S. replace (count <? 0) with false by (symmetry; apply Nat.ltb_ge; lia).
  cbv zeta. rewrite (body_eq' neg cls).
  destruct (suf s) as [|c t] eqn:Es.
  - exists 0. rewrite run_nil. simpl orelse. repeat split; auto. intros i H1 H2. lia.
  - rewrite run_none_cons. destruct (chr_ok neg cls c) eqn:Ec.
    + assert (Hp : Nat.eqb (pos (advance s c t)) (pos s) = false)
        by (apply Nat.eqb_neq; simpl; lia).
      rewrite Hp.
      destruct (IH (S count) (advance s c t) k) as [j [J1 [J2 [J3 J4]]]];
        [unfold advance; simpl; simpl in Hf; lia|].
      change (suf (advance s c t)) with t in J1, J3.
      rewrite J2. rewrite <- (fwd_S j s c t Es) in *.
      destruct (k (fwd (S j) s)) eqn:Ek.
      * (* everything after at least one character fails *)
        specialize (J4 eq_refl). subst j. simpl orelse.
        exists 0. split; [lia|]. split; [reflexivity|]. split; [|auto].
        intros i H1 H2. destruct i as [|i]; [lia|]. destruct i as [|i]; [exact Ek|].
        rewrite (fwd_S (S i) s c t Es). apply J3; lia.
      * simpl orelse. exists (S j). split; [lia|]. split; [symmetry; exact Ek|]. split.
        -- intros i H1 H2. destruct i as [|i]; [lia|]. rewrite (fwd_S i s c t Es). apply J3; lia.
        -- rewrite Ek. discriminate.
      * simpl orelse. exists (S j). split; [lia|]. split; [symmetry; exact Ek|]. split.
        -- intros i H1 H2. destruct i as [|i]; [lia|]. rewrite (fwd_S i s c t Es). apply J3; lia.
        -- rewrite Ek. discriminate.
    + simpl orelse. exists 0. repeat split; auto. intros i H1 H2. lia.
Qed.
End Greedy.

(* ---- lists ------------------------------------------------------------------------------------ *)
Lemma fwd_app : forall (l X : str) pr p cs,
  fwd (length l) (mkst pr (l ++ X) p cs) = mkst (rev l ++ pr) X (p + length l) cs.
Proof.
  intros l X pr p cs. rewrite fwd_mkst_caps by (rewrite app_length; lia).
  rewrite firstn_app, Nat.sub_diag, firstn_all. simpl. rewrite app_nil_r, skipn_app_length.
  reflexivity.
Qed.

Lemma run_exact_gen : forall neg cls ds rest,
  forallb (chr_ok neg cls) ds = true -> head_is (chr_ok neg cls) rest = false ->
  run neg cls None (ds ++ rest) = length ds.
Proof.
  intros neg cls. induction ds as [|d ds IH]; intros rest Hall Hend.
  - simpl app. simpl length. destruct rest as [|c r]; [reflexivity|].
    rewrite run_none_cons. simpl in Hend. rewrite Hend. reflexivity.
  - simpl in Hall. apply andb_true_iff in Hall. destruct Hall as [Hd Hall].
    simpl app. rewrite run_none_cons, Hd. simpl length. f_equal. apply IH; auto.
Qed.

Lemma mem_single : forall c a, mem c [a] = N.eqb c a.
Proof. intros. unfold mem. simpl. apply orb_false_r. Qed.

(* ---- comment lines ---------------------------------------------------------------------------- *)
(* a comment line: the marker (# or !) and the text after it, without the newline *)
Notation cline := (N * str)%type (only parsing).
Definition cline_text (c : cline) : str := fst c :: snd c ++ [10%N].
Definition ctext (cs : list cline) : str := concat (map cline_text cs).
(* the matched text of a comment: its lines without the last newline *)
Definition cbody (cs : list cline) : str := removelast (ctext cs).
Definition no_nl (t : str) : bool := forallb (fun x => negb (N.eqb x 10)) t.
Definition legal_cline (c : cline) : bool := mem (fst c) CM && no_nl (snd c).

Lemma ctext_cons : forall c cs, ctext (c :: cs) = cline_text c ++ ctext cs.
Proof. reflexivity. Qed.

Lemma ctext_nonnil : forall c cs, ctext (c :: cs) <> [].
Proof. intros c cs. rewrite ctext_cons. unfold cline_text. simpl. discriminate. Qed.

Lemma cbody_one : forall c, cbody [c] = fst c :: snd c.
Proof.
  intros c. unfold cbody, ctext. cbn [map concat]. rewrite app_nil_r. unfold cline_text.
  exact (removelast_last (fst c :: snd c) 10%N).
Qed.

Lemma cbody_cons : forall c c2 cs, cbody (c :: c2 :: cs) = cline_text c ++ cbody (c2 :: cs).
Proof.
  intros c c2 cs. unfold cbody. rewrite ctext_cons. apply removelast_app. apply ctext_nonnil.
Qed.

Lemma ctext_body : forall cs, cs <> [] -> ctext cs = cbody cs ++ [10%N].
Proof.
  induction cs as [|c cs IH]; intros H; [contradiction|].
  destruct cs as [|c2 cs].
  - rewrite cbody_one. unfold ctext. simpl. rewrite app_nil_r. reflexivity.
  - rewrite cbody_cons, ctext_cons, IH by discriminate. rewrite app_assoc. reflexivity.
Qed.

Lemma ctext_length_ge : forall cs, length cs <= length (ctext cs).
Proof.
  induction cs as [|c cs IH]; [simpl; lia|]. rewrite ctext_cons, app_length. simpl. lia.
Qed.

Lemma nl_not_ok : forall c, chr_ok true (points [10%N]) c = negb (N.eqb c 10).
Proof. intros c. rewrite chr_ok_points, mem_single. reflexivity. Qed.

Lemma no_nl_class : forall t, no_nl t = true -> forallb (chr_ok true (points [10%N])) t = true.
Proof.
  intros t H. unfold no_nl in H. rewrite (forallb_ext' _ (fun x => negb (N.eqb x 10))); auto.
  intros c. apply nl_not_ok.
Qed.

Lemma no_nl_in : forall t c, no_nl t = true -> In c t -> c <> 10%N.
Proof.
  intros t c H Hin. unfold no_nl in H. rewrite forallb_forall in H. specialize (H c Hin).
  apply negb_true_iff in H. apply N.eqb_neq. exact H.
Qed.

Definition BODY : rx :=
  Cat (Chr false (points CM))
      (Cat (Rep true 0 None (Chr true (points [10%N]))) (Chr false (points [10%N]))).
Definition LAST : rx :=
  Cat (Chr false (points CM)) (Rep true 0 None (Chr true (points [10%N]))).

Lemma comment_shape : rx_props_comment = Cat (Rep true 0 None BODY) LAST.
Proof. reflexivity. Qed.

(* one full line, whatever the continuation *)
Lemma body_line : forall c t X pr p cs0 k,
  mem c CM = true -> no_nl t = true ->
  m BODY (mkst pr (c :: t ++ 10%N :: X) p cs0) k =
  k (mkst (10%N :: rev t ++ c :: pr) X (S (S p + length t)) cs0).
Proof.
  intros c t X pr p cs0 k Hc Ht. unfold BODY. rewrite m_Cat, m_Chr. cbn [suf].
  rewrite chr_ok_points, Hc. unfold advance. cbn [pre suf pos caps]. rewrite m_Cat.
  assert (Hr : run true (points [10%N]) None (t ++ 10%N :: X) = length t).
  { apply run_exact_gen; [apply no_nl_class; exact Ht|]. simpl. rewrite nl_not_ok. reflexivity. }
  rewrite (m_rep_class_desc true (points [10%N]) 0 None); [|exact I|].
  - cbn [suf]. rewrite Hr. replace (0 <=? length t) with true by reflexivity.
    rewrite fwd_app. rewrite m_Chr. cbn [suf]. rewrite chr_ok_points, mem_single.
    replace (N.eqb 10 10) with true by reflexivity. unfold advance. cbn [pre suf pos caps].
    reflexivity.
  - cbn [suf]. rewrite Hr. intros j Hj _. rewrite fwd_mkst_caps by (rewrite app_length; lia).
    destruct (skipn j (t ++ 10%N :: X)) as [|c' t'] eqn:Es.
    + apply (f_equal (@length N)) in Es. rewrite skipn_length, app_length in Es. simpl in Es. lia.
    + rewrite m_Chr. cbn [suf]. rewrite chr_ok_points, mem_single.
      assert (Hin : In c' t) by (eapply skipn_head_in; [exact Hj|exact Es]).
      apply (no_nl_in t c' Ht) in Hin. apply N.eqb_neq in Hin. rewrite Hin. reflexivity.
Qed.

Lemma body_fail_head : forall X pr p cs0 k, head_is (fun c => mem c CM) X = false ->
  m BODY (mkst pr X p cs0) k = Fail.
Proof.
  intros X pr p cs0 k H. unfold BODY. rewrite m_Cat, m_Chr. cbn [suf].
  destruct X as [|c X]; [reflexivity|]. cbn [head_is] in H. rewrite chr_ok_points, H. reflexivity.
Qed.

Lemma last_fail_head : forall X pr p cs0 k, head_is (fun c => mem c CM) X = false ->
  m LAST (mkst pr X p cs0) k = Fail.
Proof.
  intros X pr p cs0 k H. unfold LAST. rewrite m_Cat, m_Chr. cbn [suf].
  destruct X as [|c X]; [reflexivity|]. cbn [head_is] in H. rewrite chr_ok_points, H. reflexivity.
Qed.

(* the last line of a comment: up to, not including, its newline *)
Lemma last_line : forall c t X pr p cs0,
  mem c CM = true -> no_nl t = true ->
  m LAST (mkst pr (c :: t ++ 10%N :: X) p cs0) k0 =
  Done (mkst (rev t ++ c :: pr) (10%N :: X) (S p + length t) cs0).
Proof.
  intros c t X pr p cs0 Hc Ht. unfold LAST. rewrite m_Cat, m_Chr. cbn [suf].
  rewrite chr_ok_points, Hc. unfold advance. cbn [pre suf pos caps].
  assert (Hr : run true (points [10%N]) None (t ++ 10%N :: X) = length t).
  { apply run_exact_gen; [apply no_nl_class; exact Ht|]. simpl. rewrite nl_not_ok. reflexivity. }
  rewrite (m_rep_class true (points [10%N]) 0 None); [|intros s'; rewrite k0_done; discriminate|exact I].
  cbn [suf]. rewrite Hr. replace (0 <=? length t) with true by reflexivity.
  rewrite fwd_app, k0_done. reflexivity.
Qed.

Definition KL : st -> out := fun s' => m LAST s' k0.

Lemma comment_loop : forall cs X fuel count pr p,
  cs <> [] -> forallb legal_cline cs = true -> head_is (fun c => mem c CM) X = false ->
  length cs < fuel ->
  rep_loop (m BODY) true 0 None fuel count (mkst pr (ctext cs ++ X) p []) KL =
  Done (mkst (rev (cbody cs) ++ pr) (10%N :: X) (p + length (cbody cs)) []).
Proof.
  induction cs as [|[c t] cs IH]; intros X fuel count pr p Hne Hleg HX Hf; [contradiction|].
  simpl in Hleg. apply andb_true_iff in Hleg. destruct Hleg as [Hl Hleg].
  unfold legal_cline in Hl. cbn [fst snd] in Hl. apply andb_true_iff in Hl. destruct Hl as [Hc Ht].
  destruct fuel as [|f]; [lia|].
  rewrite rep_loop_S. replace (count <? 0) with false by (symmetry; apply Nat.ltb_ge; lia).
  cbv zeta.
  assert (Etxt : ctext ((c, t) :: cs) ++ X = c :: t ++ 10%N :: (ctext cs ++ X)).
  { rewrite ctext_cons. unfold cline_text. cbn [fst snd]. simpl. rewrite <- !app_assoc. reflexivity. }
  rewrite Etxt, body_line by auto. cbn [pos].
  replace (Nat.eqb (S (S p + length t)) p) with false by (symmetry; apply Nat.eqb_neq; lia).
  destruct cs as [|c2 cs].
  - (* the last line: one more iteration is impossible *)
    simpl ctext. simpl app at 1.
    destruct f as [|f]; [simpl in Hf; lia|].
    rewrite rep_loop_S. replace (S count <? 0) with false by (symmetry; apply Nat.ltb_ge; lia).
    cbv zeta. rewrite body_fail_head by exact HX. rewrite orelse_fail.
    unfold KL at 1. rewrite last_fail_head by exact HX. rewrite orelse_fail.
    unfold KL. replace (c :: t ++ 10%N :: [] ++ X) with (c :: t ++ 10%N :: X) by reflexivity.
    rewrite last_line by auto. rewrite cbody_one. cbn [fst snd]. simpl rev.
    rewrite <- app_assoc. simpl. f_equal. f_equal. lia.
  - rewrite IH; [| discriminate | exact Hleg | exact HX | simpl in Hf; simpl; lia].
    simpl orelse. rewrite cbody_cons. unfold cline_text. cbn [fst snd].
    f_equal. f_equal.
    + change (c :: t ++ [10%N]) with ((c :: t) ++ [10%N]).
      rewrite !rev_app_distr. simpl. rewrite <- !app_assoc. simpl. rewrite <- app_assoc. reflexivity.
    + simpl. rewrite !app_length. simpl. lia.
Qed.

Lemma comment_match : forall cs X pr p,
  cs <> [] -> forallb legal_cline cs = true -> head_is (fun c => mem c CM) X = false ->
  m rx_props_comment (mkst pr (ctext cs ++ X) p []) k0 =
  Done (mkst (rev (cbody cs) ++ pr) (10%N :: X) (p + length (cbody cs)) []).
Proof.
  intros cs X pr p Hne Hleg HX. rewrite comment_shape, m_Cat, m_Rep. fold KL.
  apply comment_loop; auto. cbn [suf]. rewrite app_length.
  pose proof (ctext_length_ge cs). lia.
Qed.

Lemma comment_fails_nil : forall pr p k, m rx_props_comment (mkst pr [] p []) k = Fail.
Proof.
  intros pr p k. rewrite comment_shape, m_Cat, m_Rep. simpl Nat.add. rewrite rep_loop_S.
  replace (0 <? 0) with false by reflexivity. cbv zeta beta iota.
  rewrite body_fail_head by reflexivity. rewrite orelse_fail. apply last_fail_head. reflexivity.
Qed.

(* ---- omatch forms ------------------------------------------------------------------------------ *)
Lemma omatch_comment : forall (a : str) cs X,
  cs <> [] -> forallb legal_cline cs = true -> head_is (fun c => mem c CM) X = false ->
  omatch rx_props_comment (a ++ ctext cs ++ X) (length a) =
  Some (mkres (length a) (length a + length (cbody cs)) []).
Proof.
  intros a cs X H1 H2 H3. rewrite omatch_split, run_at_k0, comment_match by auto. reflexivity.
Qed.

Lemma omatch_comment_none : forall (a X : str), head_is (fun c => mem c CM) X = false ->
  omatch rx_props_comment (a ++ X) (length a) = None.
Proof.
  intros a X H. rewrite omatch_split, run_at_k0. destruct X as [|c X].
  - rewrite comment_fails_nil. reflexivity.
  - rewrite comment_fails by exact H. reflexivity.
Qed.

(* whitespace: the maximal run *)
Lemma omatch_ws : forall (a y : str),
  omatch rx_props_ws (a ++ y) (length a) =
  let r := run false (points WS) None y in
  if 1 <=? r then Some (mkres (length a) (length a + r) []) else None.
Proof.
  intros a y. rewrite omatch_split, run_at_k0. unfold rx_props_ws.
  change [(32, 32); (9, 9); (13, 13); (10, 10)]%N with (points WS).
  rewrite (m_rep_class false (points WS) 1 None); [|intros s'; rewrite k0_done; discriminate|exact I].
  cbn [suf]. cbv zeta. destruct (1 <=? run false (points WS) None y); [|reflexivity].
  pose proof (run_le false (points WS) None y).
  rewrite fwd_mkst by lia. rewrite k0_done. reflexivity.
Qed.

Lemma ws_class : forall x, forallb (fun c => mem c WS) x = true ->
  forallb (chr_ok false (points WS)) x = true.
Proof.
  intros x H. rewrite (forallb_ext' _ (fun c => mem c WS)); auto. intros c. apply chr_ok_points.
Qed.

Lemma omatch_ws_run : forall (a x y : str),
  x <> [] -> forallb (fun c => mem c WS) x = true -> head_is (fun c => mem c WS) y = false ->
  omatch rx_props_ws (a ++ x ++ y) (length a) = Some (mkres (length a) (length a + length x) []).
Proof.
  intros a x y Hne Hx Hy. rewrite omatch_ws. cbv zeta.
  rewrite run_exact_gen; [| apply ws_class; exact Hx |
    rewrite (head_is_ext _ (fun c => mem c WS)); auto; intros c; apply chr_ok_points].
  destruct x; [contradiction|]. reflexivity.
Qed.

Lemma omatch_ws_none : forall (a y : str), head_is (fun c => mem c WS) y = false ->
  omatch rx_props_ws (a ++ y) (length a) = None.
Proof.
  intros a y Hy. rewrite omatch_ws. cbv zeta.
  replace (run false (points WS) None y) with 0; [reflexivity|].
  destruct y as [|c y]; [reflexivity|]. cbn [head_is] in Hy. rewrite run_none_cons, chr_ok_points, Hy.
  reflexivity.
Qed.

(* the key expression *)
Lemma omatch_key : forall (a : str) c0 ktl b1 sc b2 after,
  legal_key (c0 :: ktl) = true -> legal_sep b1 sc b2 = true ->
  head_is (fun c => mem c BL) after = false ->
  omatch rx_props_key (a ++ c0 :: ktl ++ b1 ++ sc :: b2 ++ after) (length a) =
  Some (mkres (length a) (length a + S (length ktl) + length b1 + 1 + length b2)
              [(1, (length a, length a + S (length ktl)))]).
Proof.
  intros a c0 ktl b1 sc b2 after Hk Hs Ha.
  destruct (key_facts c0 ktl Hk) as [K1 [K2 K3]]. destruct (sep_facts b1 sc b2 Hs) as [S1 [S2 S3]].
  destruct (key_matches c0 ktl b1 sc b2 after (rev a) (length a) K1 K2 K3 S1 S2 S3 Ha)
    as [s' [M1 [M2 [M3 M4]]]].
  rewrite omatch_split, run_at_k0, M1. cbn [pos]. rewrite M2, M3. reflexivity.
Qed.

Lemma omatch_key_nil : forall (a : str), omatch rx_props_key (a ++ []) (length a) = None.
Proof. intros a. rewrite omatch_split, run_at_k0. reflexivity. Qed.

(* ---- the value ---------------------------------------------------------------------------------- *)
Lemma find_from_app_gen : forall (l rest : str) i, (forall c, In c l -> c <> 10%N) ->
  find_from 10%N (l ++ 10%N :: rest) i = Some (i + length l).
Proof.
  induction l as [|a l IH]; intros rest i H.
  - simpl. rewrite Nat.add_0_r. reflexivity.
  - simpl. destruct (N.eqb_spec a 10) as [E|_]; [exfalso; apply (H a); [left; reflexivity|exact E]|].
    rewrite IH by (intros c Hc; apply H; right; exact Hc). f_equal. lia.
Qed.

Lemma find_char_gen : forall (a raw rest : str), (forall c, In c raw -> c <> 10%N) ->
  find_char 10%N (a ++ raw ++ 10%N :: rest) (length a) = Some (length a + length raw).
Proof.
  intros a raw rest H. unfold find_char. rewrite skipn_app_length. apply find_from_app_gen. exact H.
Qed.

Lemma ee_search_none_gen : forall (a raw rest : str),
  (forall c, In c raw -> c <> 10%N) -> (raw = [] \/ last raw 0%N <> 92%N) ->
  osearch_end rx_props_escaped_end (a ++ raw ++ 10%N :: rest) (length a) (length a + length raw) = None.
Proof.
  intros a raw rest Hnl Hlast. unfold osearch_end, rsearch_end.
  replace (firstn (length a + length raw) (a ++ raw ++ 10%N :: rest)) with (a ++ raw).
  2:{ rewrite (app_assoc a raw (10%N :: rest)), firstn_app, <- app_length, firstn_all, Nat.sub_diag.
      simpl. rewrite app_nil_r. reflexivity. }
  rewrite rsearch_split. rewrite search_all_fail; [reflexivity|lia|].
  intros i pr' p' Hi. apply ee_attempt_fails.
  - intros c Hc. apply Hnl. eapply In_skipn. exact Hc.
  - destruct (Nat.eq_dec i (length raw)) as [->|Hne]; [left; apply skipn_all|].
    right. rewrite last_skipn by lia. destruct Hlast as [->|H]; [simpl in *; lia|exact H].
Qed.

Lemma tw_attempt_fails_gen : forall l rest pr p,
  l <> [] -> mem (last l 0%N) WS = false -> (forall c, In c l -> c <> 10%N) ->
  run_at rx_props_trailing_ws (mkst pr (l ++ 10%N :: rest) p []) (fun _ => true) = MNone.
Proof.
  intros l rest pr p Hne Hlast Hnl. rewrite run_at_k0, tw_shape, m_Cat. fold KT.
  destruct (run_stops_inside (points WS) l (10%N :: rest) Hne) as [c [t [H1 [H2 [H3 H4]]]]];
    [rewrite chr_ok_points; exact Hlast|].
  pose proof (run_le false (points WS) None (l ++ 10%N :: rest)) as Hle.
  rewrite (m_rep_class_desc false (points WS) 0 None); [|exact I|].
  - cbn [suf]. replace (0 <=? run false (points WS) None (l ++ 10%N :: rest)) with true by reflexivity.
    rewrite fwd_mkst by exact Hle. rewrite H1, KT_fails; [reflexivity|]. apply Hnl. exact H2.
  - cbn [suf]. intros j Hj _. rewrite fwd_mkst by lia.
    destruct (skipn j (l ++ 10%N :: rest)) as [|c' t'] eqn:Es.
    + apply (f_equal (@length N)) in Es. rewrite skipn_length, app_length in Es. cbn [length] in Es. lia.
    + rewrite KT_fails; [reflexivity|]. apply Hnl. eapply skipn_head_in; [|exact Es]. lia.
Qed.

Lemma KT_cases : forall s, KT s = Fail \/ exists s', KT s = Done s'.
Proof.
  intros s. unfold KT. rewrite m_Alt, m_Chr, m_EndStr. destruct (suf s) as [|c t].
  - rewrite orelse_fail, k0_done. right. eexists. reflexivity.
  - destruct (chr_ok false (points [10%N]) c).
    + rewrite k0_done. simpl. right. eexists. reflexivity.
    + rewrite orelse_fail. left. reflexivity.
Qed.

Lemma KT_newline : forall pr rest p, KT (mkst pr (10%N :: rest) p []) <> Fail.
Proof.
  intros pr rest p. unfold KT. rewrite m_Alt, m_Chr. cbn [suf]. rewrite chr_ok_points, mem_single.
  replace (N.eqb 10 10) with true by reflexivity. rewrite k0_done. discriminate.
Qed.

Lemma tw_attempt_newline_gen : forall pr rest p,
  exists x, run_at rx_props_trailing_ws (mkst pr (10%N :: rest) p []) (fun _ => true) = MSome x /\
            m_start x = p.
Proof.
  intros pr rest p. rewrite run_at_k0, tw_shape, m_Cat. fold KT. rewrite m_Rep.
  destruct (rep_class_greedy false (points WS) (0 + S (length (suf (mkst pr (10%N :: rest) p []))))
              0 (mkst pr (10%N :: rest) p []) KT) as [j [J1 [J2 [J3 J4]]]]; [lia|].
  rewrite J2. destruct (KT_cases (fwd j (mkst pr (10%N :: rest) p []))) as [E|[s' E]].
  - exfalso. specialize (J4 E). subst j. revert E. apply KT_newline.
  - rewrite E. eexists. split; reflexivity.
Qed.

Lemma tw_search_gen : forall (a raw rest : str),
  (forall c, In c raw -> c <> 10%N) -> (raw = [] \/ mem (last raw 0%N) WS = false) ->
  exists x, osearch rx_props_trailing_ws (a ++ raw ++ 10%N :: rest) (length a) = Some x /\
            m_start x = length a + length raw.
Proof.
  intros a raw rest Hnl Hlast. unfold osearch. rewrite rsearch_split.
  rewrite search_skip_fails.
  - rewrite app_length. simpl length.
    replace (S (length raw + S (length rest)) - length raw) with (S (S (length rest))) by lia.
    rewrite search_from_S. cbv beta iota. cbn [suf pos].
    change (fun s' : st => true) with (fun _ : st => true).
    destruct (tw_attempt_newline_gen (rev raw ++ rev a) rest (length a + length raw)) as [x [X1 X2]].
    rewrite X1. exists x. split; [reflexivity|exact X2].
  - rewrite app_length. simpl. lia.
  - intros i pr' p' Hi. apply tw_attempt_fails_gen.
    + intro E. apply (f_equal (@length N)) in E. rewrite skipn_length in E. simpl in E. lia.
    + rewrite last_skipn by exact Hi. destruct Hlast as [->|H]; [simpl in Hi; lia|exact H].
    + intros c Hc. apply Hnl. eapply In_skipn. exact Hc.
Qed.
