(* Unique decomposition of a path against a pattern shape
       F0 W1 F1 W2 F2 ... Wn Fn
   (fixed texts Fi, wildcards Wi = star or double star) when the stars are in
   different '/'-segments and there is at most one double star.  Pure string
   combinatorics; no regex engine here. *)
From Coq Require Import NArith List Bool Arith Lia.
From CL Require Import Base.Str Model.Pattern.
Import ListNotations.

Definition sl : N := c_slash.

Lemma has_char_app : forall c a b, has_char c (a ++ b) = has_char c a || has_char c b.
Proof. intros. unfold has_char. apply existsb_app. Qed.

Lemma has_char_rev : forall c a, has_char c (rev a) = has_char c a.
Proof.
  induction a as [|x a IH]; simpl; auto. rewrite has_char_app, IH. simpl.
  rewrite orb_false_r. apply orb_comm.
Qed.

Lemma split_at_first : forall c a a' x x',
  has_char c a = false -> has_char c a' = false ->
  a ++ c :: x = a' ++ c :: x' -> a = a' /\ x = x'.
Proof.
  induction a as [|y a IH]; intros a' x x' Ha Ha' H; destruct a' as [|y' a']; simpl in *.
  - injection H as Hx. auto.
  - injection H as Hy Hx. subst. rewrite N.eqb_refl in Ha'. discriminate.
  - injection H as Hy Hx. subst. rewrite N.eqb_refl in Ha. discriminate.
  - injection H as Hy Hx. subst y'. apply orb_false_iff in Ha. apply orb_false_iff in Ha'.
    destruct (IH a' x x') as [E1 E2]; try tauto. subst. auto.
Qed.

Lemma split_at_last : forall c a a' x x',
  has_char c a = false -> has_char c a' = false ->
  x ++ c :: a = x' ++ c :: a' -> x = x' /\ a = a'.
Proof.
  intros c a a' x x' Ha Ha' H. apply (f_equal (@rev N)) in H.
  rewrite !rev_app_distr in H. simpl in H. rewrite <- !app_assoc in H. simpl in H.
  apply split_at_first in H; try (rewrite has_char_rev; auto).
  destruct H as [H1 H2]. apply (f_equal (@rev N)) in H1. apply (f_equal (@rev N)) in H2.
  rewrite !rev_involutive in *. auto.
Qed.

Lemma first_occurrence : forall c F, has_char c F = true ->
  exists u w, F = u ++ c :: w /\ has_char c u = false.
Proof.
  induction F as [|y F IH]; intros H; simpl in H; [discriminate|].
  destruct (N.eqb c y) eqn:E.
  - apply N.eqb_eq in E. subst. exists [], F. auto.
  - simpl in H. destruct (IH H) as [u [w [H1 H2]]]. exists (y :: u), w. subst. simpl.
    rewrite E, H2. auto.
Qed.

Lemma last_occurrence : forall c F, has_char c F = true ->
  exists w u, F = w ++ c :: u /\ has_char c u = false.
Proof.
  intros c F H. rewrite <- has_char_rev in H. destruct (first_occurrence _ _ H) as [u [w [H1 H2]]].
  exists (rev w), (rev u). split; [|rewrite has_char_rev; auto].
  apply (f_equal (@rev N)) in H1. rewrite rev_involutive in H1. rewrite H1.
  rewrite rev_app_distr. simpl. rewrite <- app_assoc. reflexivity.
Qed.

(* a star's value followed by fixed text that has a separator *)
Lemma peel_left : forall c v v' F R R',
  has_char c v = false -> has_char c v' = false -> has_char c F = true ->
  v ++ F ++ R = v' ++ F ++ R' -> v = v' /\ R = R'.
Proof.
  intros c v v' F R R' Hv Hv' HF H. destruct (first_occurrence _ _ HF) as [u [w [HFe Hu]]]. subst F.
  rewrite <- !app_assoc in H. simpl in H. rewrite !app_assoc in H.
  apply split_at_first in H; try (rewrite has_char_app, Hu; rewrite ?Hv, ?Hv'; reflexivity).
  destruct H as [H1 H2]. apply app_inv_tail in H1. apply app_inv_head in H2. auto.
Qed.

(* ... and from the right *)
Lemma peel_right : forall c v v' F X X',
  has_char c v = false -> has_char c v' = false -> has_char c F = true ->
  X ++ F ++ v = X' ++ F ++ v' -> X = X' /\ v = v'.
Proof.
  intros c v v' F X X' Hv Hv' HF H. destruct (last_occurrence _ _ HF) as [w [u [HFe Hu]]]. subst F.
  rewrite <- !app_assoc in H. simpl in H.
  replace (X ++ w ++ c :: u ++ v) with ((X ++ w) ++ c :: (u ++ v)) in H by (rewrite <- app_assoc; reflexivity).
  replace (X' ++ w ++ c :: u ++ v') with ((X' ++ w) ++ c :: (u ++ v')) in H by (rewrite <- app_assoc; reflexivity).
  apply split_at_last in H; try (rewrite has_char_app, Hu; rewrite ?Hv, ?Hv'; reflexivity).
  destruct H as [H1 H2]. apply app_inv_tail in H1. apply app_inv_head in H2. auto.
Qed.

(* a double star value (empty or ending in the separator) followed by
   separator-free text *)
Definition dirs_like (c : N) (p : str) : Prop := p = [] \/ exists b, p = b ++ [c].

Lemma peel_dirs : forall c p p' t t',
  dirs_like c p -> dirs_like c p' -> has_char c t = false -> has_char c t' = false ->
  p ++ t = p' ++ t' -> p = p' /\ t = t'.
Proof.
  intros c p p' t t' [Hp|[b Hp]] [Hp'|[b' Hp']] Ht Ht' H; subst; simpl in *.
  - auto.
  - exfalso. subst t. rewrite !has_char_app in Ht. simpl in Ht. rewrite N.eqb_refl in Ht.
    rewrite orb_true_r in Ht. simpl in Ht. discriminate.
  - exfalso. subst t'. rewrite !has_char_app in Ht'. simpl in Ht'. rewrite N.eqb_refl in Ht'.
    rewrite orb_true_r in Ht'. simpl in Ht'. discriminate.
  - rewrite <- !app_assoc in H. simpl in H. apply split_at_last in H; auto.
    destruct H as [H1 H2]. subst. auto.
Qed.

(* ---- shapes ------------------------------------------------------------------------ *)
Inductive wkind := WStar | WSS (suffix : str).

Definition wild := (wkind * str)%type.     (* a wildcard and the fixed text after it *)

Fixpoint body (ws : list wild) (ps : list str) : str :=
  match ws, ps with
  | (_, F) :: ws', p :: ps' => p ++ F ++ body ws' ps'
  | _, _ => []
  end.

Definition is_star (w : wild) : bool := match fst w with WStar => true | WSS _ => false end.

(* every star but the last is followed by fixed text with a separator *)
Fixpoint left_ok (ws : list wild) : bool :=
  match ws with
  | [] => true
  | [w] => is_star w
  | w :: ws' => is_star w && has_char sl (snd w) && left_ok ws'
  end.

(* every star is followed by fixed text with a separator *)
Definition pre_ok (ws : list wild) : bool :=
  forallb (fun w => is_star w && has_char sl (snd w)) ws.

Definition star_fit (p : str) : Prop := has_char sl p = false.

Lemma pre_unique : forall ws ps ps' R R', pre_ok ws = true ->
  length ps = length ws -> length ps' = length ws ->
  Forall star_fit ps -> Forall star_fit ps' ->
  body ws ps ++ R = body ws ps' ++ R' -> ps = ps' /\ R = R'.
Proof.
  induction ws as [|[w F] ws IH]; intros ps ps' R R' Hok Hl Hl' Hf Hf' H;
    destruct ps as [|p ps]; destruct ps' as [|p' ps']; simpl in *; try discriminate.
  - auto.
  - apply andb_true_iff in Hok. destruct Hok as [Hw Hok]. apply andb_true_iff in Hw.
    destruct Hw as [_ HF].
    apply Forall_cons_iff in Hf. destruct Hf as [Hp Hf].
    apply Forall_cons_iff in Hf'. destruct Hf' as [Hp' Hf'].
    rewrite <- !app_assoc in H. apply (peel_left sl) in H; auto. destruct H as [E1 E2]. subst p'.
    destruct (IH ps ps' R R' Hok) as [E3 E4]; auto. subst. auto.
Qed.

Lemma left_unique : forall ws ps ps', left_ok ws = true ->
  length ps = length ws -> length ps' = length ws ->
  Forall star_fit ps -> Forall star_fit ps' ->
  body ws ps = body ws ps' -> ps = ps'.
Proof.
  induction ws as [|[w F] ws IH]; intros ps ps' Hok Hl Hl' Hf Hf' H;
    destruct ps as [|p ps]; destruct ps' as [|p' ps']; simpl in Hl, Hl'; try discriminate.
  - auto.
  - apply Forall_cons_iff in Hf. destruct Hf as [Hp Hf].
    apply Forall_cons_iff in Hf'. destruct Hf' as [Hp' Hf']. destruct ws as [|w2 ws].
    + destruct ps; [|discriminate]. destruct ps'; [|discriminate]. simpl in H.
      rewrite !app_nil_r in H. apply app_inv_tail in H. subst. reflexivity.
    + change (left_ok ((w, F) :: w2 :: ws)) with
        (is_star (w, F) && has_char sl F && left_ok (w2 :: ws)) in Hok.
      apply andb_true_iff in Hok. destruct Hok as [Hw Hok]. apply andb_true_iff in Hw.
      destruct Hw as [_ HF].
      change (body ((w, F) :: w2 :: ws) (p :: ps)) with (p ++ F ++ body (w2 :: ws) ps) in H.
      change (body ((w, F) :: w2 :: ws) (p' :: ps')) with (p' ++ F ++ body (w2 :: ws) ps') in H.
      apply (peel_left sl) in H; auto. destruct H as [E1 E2]. subst p'.
      rewrite (IH ps ps' Hok); auto.
Qed.

(* peeling a star-only tail from the right: everything but the first piece is
   determined, and so is what precedes the tail together with that piece *)
Lemma post_unique : forall ws ps ps' X X', left_ok ws = true -> ws <> [] ->
  length ps = length ws -> length ps' = length ws ->
  Forall star_fit ps -> Forall star_fit ps' ->
  X ++ body ws ps = X' ++ body ws ps' ->
  tl ps = tl ps' /\ X ++ hd [] ps = X' ++ hd [] ps'.
Proof.
  induction ws as [|[w F] ws IH]; intros ps ps' X X' Hok Hne Hl Hl' Hf Hf' H; [congruence|].
  destruct ps as [|p ps]; destruct ps' as [|p' ps']; simpl in Hl, Hl'; try discriminate.
  apply Forall_cons_iff in Hf. destruct Hf as [Hp Hf].
  apply Forall_cons_iff in Hf'. destruct Hf' as [Hp' Hf']. destruct ws as [|w2 ws].
  - destruct ps; [|discriminate]. destruct ps'; [|discriminate]. simpl in *.
    rewrite !app_nil_r in H. rewrite !app_assoc in H. apply app_inv_tail in H. auto.
  - change (left_ok ((w, F) :: w2 :: ws)) with
      (is_star (w, F) && has_char sl F && left_ok (w2 :: ws)) in Hok.
    apply andb_true_iff in Hok. destruct Hok as [Hw Hok]. apply andb_true_iff in Hw.
    destruct Hw as [_ HF].
    change (body ((w, F) :: w2 :: ws) (p :: ps)) with (p ++ F ++ body (w2 :: ws) ps) in H.
    change (body ((w, F) :: w2 :: ws) (p' :: ps')) with (p' ++ F ++ body (w2 :: ws) ps') in H.
    assert (H' : (X ++ p ++ F) ++ body (w2 :: ws) ps = (X' ++ p' ++ F) ++ body (w2 :: ws) ps').
    { rewrite <- !app_assoc. exact H. }
    destruct (IH ps ps' (X ++ p ++ F) (X' ++ p' ++ F) Hok) as [Ht Hh]; auto; [discriminate|].
    destruct ps as [|q ps]; [discriminate|]. destruct ps' as [|q' ps']; [discriminate|].
    simpl in Ht, Hh. subst ps'.
    apply Forall_cons_iff in Hf. destruct Hf as [Hq Hf].
    apply Forall_cons_iff in Hf'. destruct Hf' as [Hq' Hf'].
    assert (Hh' : (X ++ p) ++ F ++ q = (X' ++ p') ++ F ++ q') by (rewrite <- !app_assoc in *; exact Hh).
    apply (peel_right sl) in Hh'; auto. destruct Hh' as [Ha Hb]. subst q'. simpl. auto.
Qed.

(* ---- the whole shape: at most one double star ---------------------------------------- *)
Inductive fit : wkind -> str -> Prop :=
| fit_star : forall p, has_char sl p = false -> fit WStar p
| fit_ss : forall suffix p, (p = [] \/ exists b, p = b ++ suffix) -> fit (WSS suffix) p.

Definition shape_ok (ws : list wild) : Prop :=
  left_ok ws = true \/
  exists pre suffix Fj post,
    ws = pre ++ (WSS suffix, Fj) :: post /\ pre_ok pre = true /\ left_ok post = true /\
    (post = [] \/ has_char sl Fj = true \/ suffix = [sl]).

Lemma body_app : forall ws1 ws2 ps1 ps2, length ps1 = length ws1 ->
  body (ws1 ++ ws2) (ps1 ++ ps2) = body ws1 ps1 ++ body ws2 ps2.
Proof.
  induction ws1 as [|[w F] ws1 IH]; intros ws2 ps1 ps2 Hl; destruct ps1 as [|p ps1];
    simpl in *; try discriminate; auto.
  rewrite IH by lia. rewrite <- !app_assoc. reflexivity.
Qed.

Lemma fit_star_inv : forall p, fit WStar p -> has_char sl p = false.
Proof. intros p H. inversion H. auto. Qed.

Lemma fit_ss_inv : forall suffix p, fit (WSS suffix) p -> p = [] \/ exists b, p = b ++ suffix.
Proof. intros suffix p H. inversion H. auto. Qed.

Lemma stars_fit : forall ws ps, forallb is_star ws = true -> Forall2 fit (map fst ws) ps ->
  length ps = length ws /\ Forall star_fit ps.
Proof.
  induction ws as [|[w F] ws IH]; intros ps Hs HF; destruct ps as [|p ps]; simpl in *;
    try (inversion HF; fail).
  - auto.
  - apply andb_true_iff in Hs. destruct Hs as [Hw Hs]. unfold is_star in Hw. simpl in Hw.
    inversion HF as [|? ? ? ? Hp HF0]; subst.
    destruct (IH _ Hs HF0) as [Hl Hf]. split; [lia|]. constructor; auto.
    destruct w; [|discriminate]. apply fit_star_inv. exact Hp.
Qed.

Lemma left_ok_stars : forall ws, left_ok ws = true -> forallb is_star ws = true.
Proof.
  induction ws as [|w ws IH]; intros H; auto. destruct ws as [|w2 ws].
  - simpl in *. rewrite H. reflexivity.
  - change (left_ok (w :: w2 :: ws)) with (is_star w && has_char sl (snd w) && left_ok (w2 :: ws)) in H.
    apply andb_true_iff in H. destruct H as [H1 H2]. apply andb_true_iff in H1. destruct H1 as [H1 _].
    change (forallb is_star (w :: w2 :: ws)) with (is_star w && forallb is_star (w2 :: ws)).
    rewrite H1. simpl. apply IH. exact H2.
Qed.

Lemma pre_ok_stars : forall ws, pre_ok ws = true -> forallb is_star ws = true.
Proof.
  unfold pre_ok. induction ws as [|w ws IH]; intros H; simpl in *; auto.
  apply andb_true_iff in H. destruct H as [H1 H2]. apply andb_true_iff in H1. destruct H1 as [H1 _].
  rewrite H1. simpl. auto.
Qed.

Theorem shape_unique : forall ws ps ps', shape_ok ws ->
  Forall2 fit (map fst ws) ps -> Forall2 fit (map fst ws) ps' ->
  body ws ps = body ws ps' -> ps = ps'.
Proof.
  intros ws ps ps' [Hok|[pre [suffix [Fj [post [Hws [Hpre [Hpost Hj]]]]]]]] HF HF' H.
  - destruct (stars_fit _ _ (left_ok_stars _ Hok) HF) as [Hl Hf].
    destruct (stars_fit _ _ (left_ok_stars _ Hok) HF') as [Hl' Hf'].
    eapply left_unique; eauto.
  - subst ws. rewrite map_app in HF, HF'. simpl in HF, HF'.
    apply Forall2_app_inv_l in HF. destruct HF as [ps1 [psr [HF1 [HFr Hps]]]]. subst ps.
    apply Forall2_app_inv_l in HF'. destruct HF' as [ps1' [psr' [HF1' [HFr' Hps']]]]. subst ps'.
    inversion HFr as [|? pj ? ps2 Hfj HF2]; subst. inversion HFr' as [|? pj' ? ps2' Hfj' HF2']; subst.
    destruct (stars_fit _ _ (pre_ok_stars _ Hpre) HF1) as [Hl1 Hf1].
    destruct (stars_fit _ _ (pre_ok_stars _ Hpre) HF1') as [Hl1' Hf1'].
    destruct (stars_fit _ _ (left_ok_stars _ Hpost) HF2) as [Hl2 Hf2].
    destruct (stars_fit _ _ (left_ok_stars _ Hpost) HF2') as [Hl2' Hf2'].
    rewrite !body_app in H by auto.
    apply pre_unique in H; auto. destruct H as [E1 H]. subst ps1'. f_equal.
    simpl in H.
    destruct post as [|w1 post].
    + destruct ps2; [|discriminate]. destruct ps2'; [|discriminate]. simpl in H.
      rewrite !app_nil_r in H. apply app_inv_tail in H. subst. reflexivity.
    + assert (H' : (pj ++ Fj) ++ body (w1 :: post) ps2 = (pj' ++ Fj) ++ body (w1 :: post) ps2').
      { rewrite <- !app_assoc. exact H. }
      apply post_unique in H'; auto; [|discriminate]. destruct H' as [Ht Hh].
      destruct ps2 as [|q ps2]; [discriminate|]. destruct ps2' as [|q' ps2']; [discriminate|].
      simpl in Ht, Hh. subst ps2'.
      apply Forall_cons_iff in Hf2. destruct Hf2 as [Hq _].
      apply Forall_cons_iff in Hf2'. destruct Hf2' as [Hq' _].
      assert (pj = pj' /\ q = q') as [Ea Eb].
      { destruct Hj as [Hj|[Hj|Hj]]; [discriminate| |].
        - rewrite <- !app_assoc in Hh. apply (peel_right sl) in Hh; auto.
        - subst suffix. destruct (has_char sl Fj) eqn:EF.
          + rewrite <- !app_assoc in Hh. apply (peel_right sl) in Hh; auto.
          + rewrite <- !app_assoc in Hh.
            apply fit_ss_inv in Hfj. apply fit_ss_inv in Hfj'.
            apply (peel_dirs sl) in Hh; auto.
            * destruct Hh as [Ea Eb]. apply app_inv_head in Eb. auto.
            * unfold star_fit in *. rewrite has_char_app, EF, Hq. reflexivity.
            * unfold star_fit in *. rewrite has_char_app, EF, Hq'. reflexivity. }
      subst. reflexivity.
Qed.
