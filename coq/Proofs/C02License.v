(* C02, the License rule: a comment matched at the very start of the text whose
   val contains "License" is returned standalone, whatever follows it.
   Generic in the regular expressions: only the getNext definitions of
   Model/Parse.v and the C01 theorems (the walk terminates) are used. *)
From Coq Require Import NArith List Bool Arith Lia.
From CL Require Import Base.Sx Base.Res Base.Str Regex.Rx Regex.RxLemmas Model.Entry Model.Parse
  Model.ParseFormats Generated.RxParser Generated.C02Facts Model.Unescape
  Proofs.WalkSpec Proofs.WalkProofs Proofs.ParseContracts Proofs.C01Final.
Import ListNotations.

Local Arguments Nat.ltb : simpl never.
Local Arguments Nat.leb : simpl never.
Local Arguments Nat.eqb : simpl never.

(* the first entry of a walk is what getNext returns at offset 0 *)
Lemma walk_first : forall {C} (gn : C -> str -> nat -> entry * C) c0 s es,
  0 < length s -> walk gn c0 s = Ok es ->
  exists rest, es = fst (gn c0 s 0) :: rest.
Proof.
  intros C gn c0 s es Hlen H. unfold walk in H. rewrite walk_loop_S in H.
  destruct (0 <? length s) eqn:E; [|apply Nat.ltb_ge in E; lia].
  destruct (gn c0 s 0) as [e c'] eqn:G. simpl.
  destruct (walk_loop gn (length s) c' s (snd (e_span e))) as [es'|t]; [|discriminate].
  inversion H; subst. exists es'. reflexivity.
Qed.

Lemma lossless_walk : forall {C} (gn : C -> str -> nat -> entry * C) c0 s,
  lossless gn c0 s -> exists es, walk gn c0 s = Ok es.
Proof. intros C gn c0 s [es [H _]]. exists es. exact H. Qed.

(* Parser.getNext (base.py) *)
Lemma get_next_base_license : forall F s off x,
  omatch (f_comment F) s off = Some x ->
  (off <? f_license_below F) = true ->
  contains s_License (comment_val (f_cstyle F) (slice s (m_start x) (m_end x))) = true ->
  get_next_base F s off = mk_comment (mspan x).
Proof.
  intros F s off x Hm Hlt Hc. unfold get_next_base. rewrite Hm, Hlt, Hc. reflexivity.
Qed.

Section Generic.
(* properties *)
Lemma get_next_properties_license : forall reComment reWs reKey reEE reTW gkey s x,
  omatch reComment s 0 = Some x ->
  contains s_License (comment_val (COffset 1) (slice s (m_start x) (m_end x))) = true ->
  get_next_properties reComment reWs reKey reEE reTW gkey s 0 = mk_comment (mspan x).
Proof.
  intros. unfold get_next_properties. rewrite H, H0. reflexivity.
Qed.

(* ini: the section test comes first *)
Lemma get_next_ini_license : forall reComment reWs reKey reSection gkey gval gsec s x,
  omatch reSection s 0 = None ->
  omatch reComment s 0 = Some x ->
  contains s_License (comment_val (COffset 1) (slice s (m_start x) (m_end x))) = true ->
  get_next_ini reComment reWs reKey reSection gkey gval gsec s 0 = mk_comment (mspan x).
Proof.
  intros. unfold get_next_ini. rewrite H.
  apply get_next_base_license; auto.
Qed.

(* DTD: a byte-order mark is skipped first; the comment is then at offset 1 < 2 *)
Lemma get_next_dtd_license : forall reComment reWs reKey reHeader rePE gkey gval gpk gpv s x,
  omatch reComment s (if match omatch reHeader s 0 with Some _ => true | None => false end
                      then 1 else 0) = Some x ->
  contains s_License (comment_val CDtd (slice s (m_start x) (m_end x))) = true ->
  get_next_dtd reComment reWs reKey reHeader rePE gkey gval gpk gpv s 0 = mk_comment (mspan x).
Proof.
  intros. unfold get_next_dtd.
  assert (E : (if (0 =? 0) && match omatch reHeader s 0 with Some _ => true | None => false end
               then 0 + 1 else 0) =
              (if match omatch reHeader s 0 with Some _ => true | None => false end then 1 else 0)).
  { destruct (omatch reHeader s 0); reflexivity. }
  rewrite E.
  rewrite (get_next_base_license (fmt_dtd reComment reWs reKey gkey gval) s _ x); auto.
  simpl. destruct (omatch reHeader s 0); reflexivity.
Qed.
End Generic.

(* ---- instantiated with the generated expressions ---------------------------------- *)
Lemma comment_nonempty : forall r s off x, nullable r = false -> omatch r s off = Some x ->
  m_start x = off /\ off < m_end x /\ 0 < length s.
Proof.
  intros r s off x Hn H. pose proof (omatch_span _ _ _ _ H) as [A [B [C0 _]]].
  pose proof (omatch_progress _ _ _ _ Hn H). repeat split; auto. lia.
Qed.

Theorem license_properties : forall s x,
  omatch rx_props_comment s 0 = Some x ->
  contains s_License (comment_val_of VProps (slice s 0 (m_end x))) = true ->
  exists rest, walk_properties s = Ok (mk_comment (0, m_end x) :: rest).
Proof.
  intros s x Hm Hc. destruct side_props as [N1 _].
  destruct (comment_nonempty _ _ _ _ N1 Hm) as [S0 [_ Hlen]].
  destruct (lossless_walk _ _ _ (lossless_properties s)) as [es Hw].
  destruct (walk_first _ _ _ _ Hlen Hw) as [rest Hr]. exists rest.
  unfold walk_properties. rewrite Hw, Hr. do 2 f_equal.
  unfold stateless, gn_properties. simpl.
  rewrite (get_next_properties_license _ _ _ _ _ _ s x Hm).
  - unfold mspan. rewrite S0. reflexivity.
  - rewrite S0. exact Hc.
Qed.

Theorem license_ini : forall s x,
  omatch rx_ini_section s 0 = None ->
  omatch rx_ini_comment s 0 = Some x ->
  contains s_License (comment_val_of VIni (slice s 0 (m_end x))) = true ->
  exists rest, walk_ini s = Ok (mk_comment (0, m_end x) :: rest).
Proof.
  intros s x Hs Hm Hc. destruct side_ini as [N1 _].
  destruct (comment_nonempty _ _ _ _ N1 Hm) as [S0 [_ Hlen]].
  destruct (lossless_walk _ _ _ (lossless_ini s)) as [es Hw].
  destruct (walk_first _ _ _ _ Hlen Hw) as [rest Hr]. exists rest.
  unfold walk_ini. rewrite Hw, Hr. do 2 f_equal.
  unfold stateless, gn_ini. simpl.
  rewrite (get_next_ini_license _ _ _ _ _ _ _ s x Hs Hm).
  - unfold mspan. rewrite S0. reflexivity.
  - rewrite S0. exact Hc.
Qed.

Theorem license_po : forall s x,
  omatch rx_po_comment s 0 = Some x ->
  contains s_License (comment_val_of VPo (slice s 0 (m_end x))) = true ->
  exists rest, walk_po s = Ok (mk_comment (0, m_end x) :: rest).
Proof.
  intros s x Hm Hc. destruct side_po as [N1 _].
  destruct (comment_nonempty _ _ _ _ N1 Hm) as [S0 [_ Hlen]].
  destruct (lossless_walk _ _ _ (lossless_po s)) as [es Hw].
  destruct (walk_first _ _ _ _ Hlen Hw) as [rest Hr]. exists rest.
  unfold walk_po. rewrite Hw, Hr. do 2 f_equal.
  unfold stateless, gn_po. simpl.
  rewrite (get_next_base_license the_fmt_po s 0 x); auto.
  - unfold mspan. rewrite S0. reflexivity.
  - simpl. rewrite S0. exact Hc.
Qed.

(* DTD: [off] is 1 when the text starts with a byte-order mark, else 0 *)
Definition dtd_start (s : str) : nat :=
  if match omatch rx_dtd_header s 0 with Some _ => true | None => false end then 1 else 0.

Theorem license_dtd : forall s x,
  omatch rx_dtd_comment s (dtd_start s) = Some x ->
  contains s_License (comment_val_of VDtd (slice s (dtd_start s) (m_end x))) = true ->
  exists rest, walk_dtd s = Ok (mk_comment (dtd_start s, m_end x) :: rest).
Proof.
  intros s x Hm Hc. destruct side_dtd as [N1 _].
  destruct (comment_nonempty _ _ _ _ N1 Hm) as [S0 [_ Hlen]].
  destruct (lossless_dtd s) as [es [Hw _]].
  destruct (walk_first _ _ _ _ Hlen Hw) as [rest Hr]. exists rest.
  unfold walk_dtd. rewrite Hw, Hr. do 2 f_equal.
  unfold stateless, gn_dtd. simpl.
  rewrite (get_next_dtd_license _ _ _ _ _ _ _ _ _ s x Hm).
  - unfold mspan. rewrite S0. reflexivity.
  - rewrite S0. exact Hc.
Qed.

(* the section expression cannot match where the comment expression does: the first
   wants "[", the second ";" or "#" *)
Lemma ini_section_comment_disjoint : forall s x,
  omatch rx_ini_comment s 0 = Some x -> omatch rx_ini_section s 0 = None.
Proof.
  intros s x H. destruct s as [|c t].
  - vm_compute in H. discriminate.
  - destruct (N.eqb c 91) eqn:E.
    + apply N.eqb_eq in E. subst c. exfalso. revert H.
      unfold omatch, rmatch, run_at, rx_ini_comment. simpl. discriminate.
    + unfold omatch, rmatch, run_at, rx_ini_section. simpl.
      unfold chr_ok, in_ranges. simpl.
      assert (F : ((91 <=? c)%N && (c <=? 91)%N) = false).
      { apply andb_false_iff. destruct (N.leb_spec 91 c); [|left; reflexivity].
        right. apply N.leb_gt. apply N.eqb_neq in E. lia. }
      rewrite F. reflexivity.
Qed.
