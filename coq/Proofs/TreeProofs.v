(* Proofs about Model/Tree.v, part 1: the walk of __get never reads an unbound
   [i], never misses the key it looks up, and never runs out of fuel. *)
From Coq Require Import ZArith NArith List Bool Arith Lia Permutation.
From CL Require Import Base.Sx Base.Res Model.Tree.
Import ListNotations.

Local Open Scope nat_scope.

(* ---- keys ---------------------------------------------------------------- *)
Lemma key_eqb_eq : forall a b : key, key_eqb a b = true <-> a = b.
Proof.
  induction a as [|x a IH]; destruct b as [|y b]; simpl; split; intro H;
    try reflexivity; try discriminate.
  - apply andb_true_iff in H as [H1 H2]. apply N.eqb_eq in H1. apply IH in H2. congruence.
  - inversion H; subst. rewrite N.eqb_refl. simpl. apply IH. reflexivity.
Qed.

Lemma key_eqb_refl : forall a, key_eqb a a = true.
Proof. intro a. apply key_eqb_eq. reflexivity. Qed.

Lemma key_eqb_neq : forall a b : key, key_eqb a b = false <-> a <> b.
Proof.
  intros a b. split; intro H.
  - intro E. apply key_eqb_eq in E. congruence.
  - destruct (key_eqb a b) eqn:E; [apply key_eqb_eq in E; contradiction | reflexivity].
Qed.

Definition key_eq_dec : forall a b : key, {a = b} + {a <> b} := list_eq_dec N.eq_dec.

(* length of the longest common prefix *)
Fixpoint lcp (a b : key) : nat :=
  match a, b with
  | x :: a', y :: b' => if N.eqb x y then S (lcp a' b') else 0
  | _, _ => 0
  end.

Lemma lcp_le_l : forall a b, lcp a b <= length a.
Proof.
  induction a as [|x a IH]; destruct b as [|y b]; simpl; try lia.
  destruct (N.eqb x y); simpl; [specialize (IH b)|]; lia.
Qed.

Lemma lcp_le_r : forall a b, lcp a b <= length b.
Proof.
  induction a as [|x a IH]; destruct b as [|y b]; simpl; try lia.
  destruct (N.eqb x y); simpl; [specialize (IH b)|]; lia.
Qed.

Lemma lcp_firstn : forall a b, firstn (lcp a b) a = firstn (lcp a b) b.
Proof.
  induction a as [|x a IH]; destruct b as [|y b]; simpl; try reflexivity.
  destruct (N.eqb x y) eqn:E; simpl; [|reflexivity].
  apply N.eqb_eq in E. subst. f_equal. apply IH.
Qed.

Lemma lcp_diverge : forall a b x a' y b',
  skipn (lcp a b) a = x :: a' -> skipn (lcp a b) b = y :: b' -> x <> y.
Proof.
  induction a as [|x0 a IH]; destruct b as [|y0 b]; simpl; intros x a' y b' H1 H2; try discriminate.
  destruct (N.eqb x0 y0) eqn:E; simpl in *.
  - eapply IH; eassumption.
  - apply N.eqb_neq in E. congruence.
Qed.

Lemma lcp_pos_head : forall a b, 0 < lcp a b <-> exists x a' b', a = x :: a' /\ b = x :: b'.
Proof.
  intros a b. split.
  - destruct a as [|x a], b as [|y b]; simpl; try lia.
    destruct (N.eqb x y) eqn:E; [|lia]. apply N.eqb_eq in E. subst. eauto.
  - intros (x & a' & b' & -> & ->). simpl. rewrite N.eqb_refl. lia.
Qed.

Lemma lcp_zero_head : forall a b, a <> [] -> b <> [] -> lcp a b = 0 -> hd 0%N a <> hd 0%N b.
Proof.
  intros [|x a] [|y b] Ha Hb; try congruence. simpl.
  destruct (N.eqb x y) eqn:E; [discriminate|]. intros _. apply N.eqb_neq. exact E.
Qed.

Lemma lcp_self : forall a, lcp a a = length a.
Proof. induction a; simpl; [reflexivity|]. rewrite N.eqb_refl. congruence. Qed.

Lemma lcp_app : forall c a b, lcp (c ++ a) (c ++ b) = length c + lcp a b.
Proof. induction c; simpl; intros; [reflexivity|]. rewrite N.eqb_refl. f_equal. apply IHc. Qed.

(* ---- the scan loop -------------------------------------------------------- *)
Lemma scan_spec : forall k p i cur,
  scan k p i cur =
  match k, p with
  | _ :: _, _ :: _ => Some (i + Z.of_nat (lcp k p) - 1)%Z
  | _, _ => cur
  end.
Proof.
  induction k as [|a k IH]; intros [|b p] i cur; simpl; try reflexivity.
  destruct (N.eqb a b) eqn:E.
  - rewrite IH. destruct k as [|a' k], p as [|b' p]; simpl; f_equal; try lia.
    all: try (destruct (N.eqb a' b'); lia).
  - f_equal. lia.
Qed.

Section WithV.
Context {V : Type}.
Notation tree := (tree V).

(* the first branch sharing a non-empty prefix with parts, and that length *)
Fixpoint first_share (bs : list (key * tree)) (parts : key) : option (key * tree * nat) :=
  match bs with
  | [] => None
  | (k, v) :: bs' =>
      if 0 <? lcp k parts then Some (k, v, lcp k parts) else first_share bs' parts
  end.

Lemma find_branch_spec : forall bs parts prev,
  parts <> [] -> Forall (fun kc : key * tree => fst kc <> []) bs ->
  find_branch bs parts prev = Ok (first_share bs parts).
Proof.
  induction bs as [|[k v] bs IH]; intros parts prev Hp Hk; simpl; [reflexivity|].
  inversion Hk as [|? ? Hk1 Hk2]; subst. simpl in Hk1.
  rewrite scan_spec. destruct k as [|a k]; [congruence|]. destruct parts as [|b p]; [congruence|].
  set (n := lcp (a :: k) (b :: p)).
  destruct (0 <? n) eqn:E.
  - apply Nat.ltb_lt in E. replace (0 + Z.of_nat n - 1 <? 0)%Z with false by lia.
    do 3 f_equal. lia.
  - apply Nat.ltb_ge in E. replace (0 + Z.of_nat n - 1 <? 0)%Z with true by lia.
    apply IH; assumption.
Qed.

Lemma first_share_split : forall bs parts k v i,
  first_share bs parts = Some (k, v, i) ->
  exists l1 l2, bs = l1 ++ (k, v) :: l2 /\ i = lcp k parts /\ 0 < i /\
                Forall (fun kc : key * tree => lcp (fst kc) parts = 0) l1.
Proof.
  induction bs as [|[k0 v0] bs IH]; intros parts k v i H; simpl in H; [discriminate|].
  destruct (0 <? lcp k0 parts) eqn:E.
  - inversion H; subst. apply Nat.ltb_lt in E. exists [], bs. repeat split; auto.
  - apply Nat.ltb_ge in E. destruct (IH _ _ _ _ H) as (l1 & l2 & -> & Hi & Hpos & Hl1).
    exists ((k0, v0) :: l1), l2. repeat split; auto. constructor; [simpl; lia | exact Hl1].
Qed.

Lemma first_share_none : forall bs parts,
  first_share bs parts = None -> Forall (fun kc : key * tree => lcp (fst kc) parts = 0) bs.
Proof.
  induction bs as [|[k0 v0] bs IH]; intros parts H; simpl in H; [constructor|].
  destruct (0 <? lcp k0 parts) eqn:E; [discriminate|]. apply Nat.ltb_ge in E.
  constructor; [simpl; lia | apply IH; exact H].
Qed.

(* ---- dict lemmas in explicit list form ---------------------------------- *)
Section DictLemmas.
Context {T : Type}.
Implicit Types (m : list (key * T)).

Lemma dset_fresh : forall m k x, (forall kc, In kc m -> fst kc <> k) -> dset k x m = m ++ [(k, x)].
Proof.
  induction m as [|[k' v'] m IH]; intros k x H; simpl; [reflexivity|].
  destruct (key_eqb k k') eqn:E.
  - apply key_eqb_eq in E. exfalso. apply (H (k', v')); simpl; auto.
  - f_equal. apply IH. intros kc Hin. apply H. right. exact Hin.
Qed.

Lemma dset_split : forall (l1 l2 : list (key * T)) k v x, (forall kc, In kc l1 -> fst kc <> k) ->
  dset k x (l1 ++ (k, v) :: l2) = l1 ++ (k, x) :: l2.
Proof.
  induction l1 as [|[k' v'] l1 IH]; intros l2 k v x H; simpl.
  - rewrite key_eqb_refl. reflexivity.
  - destruct (key_eqb k k') eqn:E.
    + apply key_eqb_eq in E. exfalso. apply (H (k', v')); simpl; auto.
    + f_equal. apply IH. intros kc Hin. apply H. right. exact Hin.
Qed.

Lemma dpop_split : forall (l1 l2 : list (key * T)) k v, (forall kc, In kc l1 -> fst kc <> k) ->
  dpop k (l1 ++ (k, v) :: l2) = l1 ++ l2.
Proof.
  induction l1 as [|[k' v'] l1 IH]; intros l2 k v H; simpl.
  - rewrite key_eqb_refl. reflexivity.
  - destruct (key_eqb k k') eqn:E.
    + apply key_eqb_eq in E. exfalso. apply (H (k', v')); simpl; auto.
    + f_equal. apply IH. intros kc Hin. apply H. right. exact Hin.
Qed.

Lemma dget_split : forall (l1 l2 : list (key * T)) k v, (forall kc, In kc l1 -> fst kc <> k) ->
  dget k (l1 ++ (k, v) :: l2) = Some v.
Proof.
  induction l1 as [|[k' v'] l1 IH]; intros l2 k v H; simpl.
  - rewrite key_eqb_refl. reflexivity.
  - destruct (key_eqb k k') eqn:E.
    + apply key_eqb_eq in E. exfalso. apply (H (k', v')); simpl; auto.
    + apply IH. intros kc Hin. apply H. right. exact Hin.
Qed.
End DictLemmas.

Lemma lcp_zero_not_key : forall (l1 : list (key * tree)) parts k,
  Forall (fun kc : key * tree => lcp (fst kc) parts = 0) l1 -> 0 < lcp k parts ->
  forall kc, In kc l1 -> fst kc <> k.
Proof.
  intros l1 parts k H Hk kc Hin E. rewrite Forall_forall in H. specialize (H _ Hin). subst. lia.
Qed.

(* ---- keys_ok: no key anywhere in the tree is the empty tuple -------------- *)
Fixpoint keys_ok (t : tree) : Prop :=
  match t with
  | Node _ bs =>
      (fix all (bs : list (key * tree)) : Prop :=
         match bs with
         | [] => True
         | (k, c) :: r => (k <> [] /\ keys_ok c) /\ all r
         end) bs
  end.

Lemma keys_ok_node : forall val bs,
  keys_ok (Node val bs) <-> Forall (fun kc : key * tree => fst kc <> [] /\ keys_ok (snd kc)) bs.
Proof.
  intros val bs. simpl. induction bs as [|[k c] r IH]; split; intro H.
  - constructor.
  - exact I.
  - destruct H as [H1 H2]. constructor; [exact H1 | apply IH; exact H2].
  - inversion H; subst. split; [assumption | apply IH; assumption].
Qed.

Lemma keys_ok_with_value : forall t xs, keys_ok t -> keys_ok (with_value t xs).
Proof. intros [val bs] xs H. unfold with_value. rewrite keys_ok_node in *. exact H. Qed.

Lemma keys_nonempty : forall val bs, keys_ok (Node val bs) ->
  Forall (fun kc : key * tree => fst kc <> []) bs.
Proof.
  intros val bs H. rewrite keys_ok_node in H. eapply Forall_impl; [|exact H]. intros a [Ha _]. exact Ha.
Qed.

Lemma truthy_true : forall {T} (l : list T), l <> [] -> truthy l = true.
Proof. intros T [|x l] H; [congruence | reflexivity]. Qed.

Lemma truthy_false : forall {T} (l : list T), truthy l = false -> l = [].
Proof. intros T [|x l] H; [reflexivity | discriminate]. Qed.

Lemma firstn_nonempty : forall (k : key) i, 0 < i -> k <> [] -> firstn i k <> [].
Proof. intros [|a k] [|i] Hi Hk; simpl; try lia; congruence. Qed.

(* the walk succeeds on every tree without empty keys, for non-empty parts,
   with fuel above the length of parts *)
Theorem get_app_ok : forall fuel (t : tree) parts xs,
  parts <> [] -> length parts < fuel -> keys_ok t ->
  exists t', get_app fuel t parts xs = Ok t' /\ keys_ok t'.
Proof.
  induction fuel as [|fuel IH]; intros [val bs] parts xs Hp Hf Hk; [lia|].
  simpl. rewrite (find_branch_spec bs parts None Hp (keys_nonempty _ _ Hk)). cbn [bind].
  pose proof Hk as Hk'. rewrite keys_ok_node in Hk'.
  destruct (first_share bs parts) as [[[k v] i]|] eqn:Efs.
  - destruct (first_share_split _ _ _ _ _ Efs) as (l1 & l2 & Hbs & Hi & Hpos & Hl1).
    pose proof (lcp_zero_not_key l1 parts k Hl1 ltac:(lia)) as Hfresh.
    assert (Hkv : k <> [] /\ keys_ok v).
    { rewrite Forall_forall in Hk'. apply (Hk' (k, v)). subst bs. apply in_or_app. right. left. reflexivity. }
    destruct Hkv as [Hkne Hkv].
    assert (Hrest : Forall (fun kc : key * tree => fst kc <> [] /\ keys_ok (snd kc)) (l1 ++ l2)).
    { subst bs. apply Forall_app in Hk' as [A B]. inversion B; subst. apply Forall_app. split; assumption. }
    assert (Hcommon : firstn i k <> []) by (apply firstn_nonempty; assumption).
    assert (Hnewlen : length (skipn i parts) < fuel).
    { rewrite skipn_length. pose proof (lcp_le_r k parts). lia. }
    rewrite (truthy_true _ Hcommon).
    destruct (truthy (skipn i k)) eqn:Eold.
    + (* split the branch *)
      assert (Hold : skipn i k <> []) by (intro E; rewrite E in Eold; discriminate).
      subst bs. rewrite (dpop_split l1 l2 k v Hfresh).
      destruct (truthy (skipn i parts)) eqn:Enew.
      * assert (Hnew : skipn i parts <> []) by (intro E; rewrite E in Enew; discriminate).
        destruct (IH (Node None [(skipn i k, v)]) (skipn i parts) xs Hnew Hnewlen) as (t1 & Ht1 & Hok1).
        { rewrite keys_ok_node. constructor; [split; assumption | constructor]. }
        rewrite Ht1. simpl. eexists. split; [reflexivity|].
        rewrite keys_ok_node. clear - Hrest Hcommon Hok1.
        induction (l1 ++ l2) as [|[k' c'] m IHm]; simpl.
        -- constructor; [split; assumption | constructor].
        -- inversion Hrest; subst. destruct (key_eqb (firstn i k) k').
           ++ constructor; [split; [apply H1 | exact Hok1] | assumption].
           ++ constructor; [assumption | apply IHm; assumption].
      * eexists. split; [reflexivity|].
        rewrite keys_ok_node.
        assert (Hok1 : keys_ok (with_value (Node None [(skipn i k, v)]) xs)).
        { apply keys_ok_with_value. rewrite keys_ok_node. constructor; [split; assumption | constructor]. }
        clear - Hrest Hcommon Hok1.
        induction (l1 ++ l2) as [|[k' c'] m IHm]; simpl.
        -- constructor; [split; assumption | constructor].
        -- inversion Hrest; subst. destruct (key_eqb (firstn i k) k').
           ++ constructor; [split; [apply H1 | exact Hok1] | assumption].
           ++ constructor; [assumption | apply IHm; assumption].
    + (* the whole key is a prefix of parts: descend *)
      apply truthy_false in Eold.
      assert (Hck : firstn i k = k).
      { rewrite <- (firstn_skipn i k) at 2. rewrite Eold. rewrite app_nil_r. reflexivity. }
      rewrite Hck. subst bs. rewrite (dget_split l1 l2 k v Hfresh).
      destruct (truthy (skipn i parts)) eqn:Enew.
      * assert (Hnew : skipn i parts <> []) by (intro E; rewrite E in Enew; discriminate).
        destruct (IH v (skipn i parts) xs Hnew Hnewlen Hkv) as (t1 & Ht1 & Hok1).
        rewrite Ht1. simpl. rewrite (dset_split l1 l2 k v t1 Hfresh).
        eexists. split; [reflexivity|]. rewrite keys_ok_node.
        apply Forall_app in Hk' as [A B]. inversion B; subst.
        apply Forall_app. split; [assumption|]. constructor; [split; assumption | assumption].
      * rewrite (dset_split l1 l2 k v _ Hfresh).
        eexists. split; [reflexivity|]. rewrite keys_ok_node.
        apply Forall_app in Hk' as [A B]. inversion B; subst.
        apply Forall_app. split; [assumption|].
        constructor; [split; [assumption | apply keys_ok_with_value; assumption] | assumption].
  - (* no branch shares a prefix: new branch *)
    rewrite (truthy_true _ Hp). eexists. split; [reflexivity|].
    rewrite keys_ok_node. clear - Hk' Hp.
    induction bs as [|[k' c'] m IHm]; simpl.
    + constructor; [split; [exact Hp | exact I] | constructor].
    + inversion Hk'; subst. destruct (key_eqb parts k').
      * constructor; [split; [apply H1 | exact I] | assumption].
      * constructor; [assumption | apply IHm; assumption].
Qed.

Corollary tree_getitem_ok : forall (t : tree) parts xs,
  parts <> [] -> keys_ok t -> exists t', tree_getitem t parts xs = Ok t' /\ keys_ok t'.
Proof. intros. apply get_app_ok; auto. Qed.

End WithV.
