(* parse_css_spec on a rendered list of declarations with arbitrary layout:
   the map of the list (later declarations of a property overwrite the unit,
   the property keeps its first place), no errors.  Through the regex engine
   on the generated ASTs (Proofs/CssRxSpec.v, Proofs/CssFinditer.v). *)
From Coq Require Import NArith List Bool Arith Lia ZifyBool.
From CL Require Import Base.Sx Base.Res Base.Str Regex.Rx Regex.RxLemmas Generated.RxC07 Generated.C07Facts
  Model.CSS Proofs.CssRxKit Proofs.CssRxSpec Proofs.CssFinditer.
Import ListNotations.

Local Arguments Nat.ltb : simpl never.
Local Arguments Nat.leb : simpl never.
Local Arguments Nat.eqb : simpl never.
Local Arguments Nat.sub : simpl never.
Local Arguments Nat.add : simpl never.

Lemma slice_mid : forall (a b c : str), slice (a ++ b ++ c) (length a) (length a + length b) = b.
Proof.
  intros a b c. unfold slice. replace (length a + length b - length a) with (length b) by lia.
  rewrite skipn_app, skipn_all, Nat.sub_diag. cbn [skipn app].
  rewrite firstn_app, firstn_all, Nat.sub_diag. cbn [firstn]. apply app_nil_r.
Qed.

Lemma firstn_exact : forall (a b : str), firstn (length a) (a ++ b) = a.
Proof. intros. rewrite firstn_app, firstn_all, Nat.sub_diag. cbn. apply app_nil_r. Qed.

Lemma skipn_exact : forall (a b : str), skipn (length a) (a ++ b) = b.
Proof. intros. rewrite skipn_app, skipn_all, Nat.sub_diag. reflexivity. Qed.

(* the separator expression between two offsets of the value *)
Lemma sep_match : forall (a b : str) g,
  gap_ok g = true ->
  omatch_end rx_c07_css_sep (a ++ render_gap g ++ b) (length a) (length a + length (render_gap g)) =
  Some (mkres (length a) (length a + length (render_gap g)) (gap_caps (length a) g [])).
Proof.
  intros a b g Hg. unfold omatch_end, rmatch.
  assert (E : firstn (length a + length (render_gap g)) (a ++ render_gap g ++ b) = a ++ render_gap g).
  { rewrite app_assoc. rewrite <- app_length. apply firstn_exact. }
  rewrite E.
  assert ((length (a ++ render_gap g) <? length a) = false) as -> by (apply Nat.ltb_ge; rewrite app_length; lia).
  unfold st_at. rewrite firstn_exact, skipn_exact. unfold run_at.
  set (z := mkst (rev a) (render_gap g) (length a) []).
  change (m rx_c07_css_sep z (fun s' => if (fun _ : st => true) s' then Done s' else Fail))
    with (m rx_c07_css_sep z (fun s => Done s)).
  rewrite (sep_at g z Hg eq_refl). cbn [pos St z caps]. reflexivity.
Qed.

(* ---- the loop over the matches ------------------------------------------------------------------ *)
Definition step_map (r : option cmap) (d : decl) : option cmap :=
  Some (cset (d_prop d) (d_unit d) (match r with Some m => m | None => [] end)).

Definition fold_items (items : list item) (r : option cmap) : option cmap :=
  fold_left (fun r it => step_map r (it_decl it)) items r.

(* gaps: only the first one (at offset 0) may lack its semicolon *)
Definition has_semi (g : gap) : bool := match snd g with Some _ => true | None => false end.

Fixpoint gaps_ok (off : nat) (items : list item) : Prop :=
  match items with
  | [] => True
  | it :: rest => (off = 0 \/ has_semi (it_gap it) = true) /\ forall off', 0 < off' -> gaps_ok off' rest
  end.

(* the trailing text: nothing, or blanks ; blanks *)
Definition trailing := option (str * str).
Definition render_tr (t : trailing) : str :=
  match t with None => [] | Some (w, w') => render_gap (w, Some w') end.
Definition tr_ok (t : trailing) : bool :=
  match t with None => true | Some (w, w') => gap_ok (w, Some w') end.

Lemma group_hd n sp cs : group n (mkres 0 0 ((n, sp) :: cs)) = Some sp.
Proof. unfold group. cbn [m_caps]. apply get_cap_hd. Qed.

Lemma decl_groups : forall (a b : str) d,
  decl_ok d = true ->
  let val := a ++ render_decl d ++ b in
  let x := mkres (length a) (length a + length (render_decl d)) (decl_caps (length a) d []) in
  group_str val x g_c07_css_spec_prop = Some (d_prop d) /\
  group_str val x g_c07_css_spec_unit = Some (d_unit d) /\
  d_prop d <> [].
Proof.
  intros a b d Hok val x. destruct css_groups as (G1 & G3 & _). rewrite G1, G3.
  unfold group_str, group, x, decl_caps. cbn [m_caps].
  rewrite get_cap_tl by discriminate. rewrite get_cap_tl by discriminate. rewrite !get_cap_hd.
  unfold decl_ok in Hok. repeat (apply andb_true_iff in Hok; destruct Hok as [Hok ?]).
  apply inb_In in Hok. destruct (prop_head _ Hok) as [c [t [E _]]].
  destruct d as [p w1 w2 n u]. cbn [d_prop d_unit d_w1 d_w2 d_num] in *.
  unfold val, render_decl. cbn [d_prop d_unit d_w1 d_w2 d_num].
  split; [|split].
  - f_equal. unfold str in *. rewrite <- !app_assoc. apply slice_mid.
  - f_equal. unfold num_end, num_start. cbn [d_prop d_unit d_w1 d_w2 d_num].
    set (front := a ++ p ++ w1 ++ 58%N :: w2 ++ render_num n).
    assert (E1 : a ++ (p ++ w1 ++ 58%N :: w2 ++ render_num n ++ u) ++ b = front ++ u ++ b).
    { unfold front. unfold str in *. rewrite <- !app_assoc. cbn [app]. rewrite <- !app_assoc. reflexivity. }
    assert (E2 : length a + length p + length w1 + 1 + length w2 + length (render_num n) = length front).
    { unfold front. rewrite !app_length. cbn [length]. rewrite !app_length. lia. }
    rewrite E1, E2. apply slice_mid.
  - rewrite E. discriminate.
Qed.

Theorem loop_items : forall items tr (pre_text : str) refMap errors,
  let off := length pre_text in
  let val := pre_text ++ render_items items (render_tr tr) in
  forallb item_ok items = true -> tr_ok tr = true -> gaps_ok off items ->
  (items = [] -> 0 < off) ->
  css_loop val (exp_ms off items (render_tr tr)) refMap errors off = Ok (fold_items items refMap, errors).
Proof.
  induction items as [|it items IH]; intros tr pre_text refMap errors off val Hok Htr Hgaps H0.
  - (* the empty match at the end *)
    specialize (H0 eq_refl). cbn [exp_ms css_loop m_start m_end].
    assert (Nat.eqb off 0 = false) as -> by (apply Nat.eqb_neq; lia). cbn [andb].
    unfold val, render_items. cbn [map concat app].
    assert (Hg : group_str (pre_text ++ render_tr tr) (mkres (off + length (render_tr tr)) (off + length (render_tr tr)) [])
                   g_c07_css_spec_prop = None) by reflexivity.
    rewrite Hg. cbn [bind]. cbn [css_loop fold_items fold_left].
    destruct tr as [[w w']|]; cbn [render_tr tr_ok] in *.
    + set (g := (w, Some w')) in *.
      assert (Hlt : (off <? off + length (render_gap g)) = true).
      { apply Nat.ltb_lt. unfold g, render_gap. cbn [fst snd]. rewrite app_length. cbn [length]. lia. }
      rewrite Hlt.
      pose proof (sep_match pre_text [] g Htr) as Hm. rewrite app_nil_r in Hm. fold off in Hm.
      rewrite Hm. unfold group. cbn [m_caps gap_caps g snd]. destruct css_groups as (_ & _ & G). rewrite G.
      rewrite get_cap_hd. cbn [is_none]. rewrite andb_false_r. reflexivity.
    + cbn [length]. assert ((off <? off + 0) = false) as -> by (apply Nat.ltb_ge; lia). reflexivity.
  - cbn [forallb] in Hok. apply andb_true_iff in Hok. destruct Hok as [Hit Hok].
    unfold item_ok in Hit. apply andb_true_iff in Hit. destruct Hit as [Hg Hd].
    destruct Hgaps as [Hg0 Hgrest].
    set (g := it_gap it) in *. set (d := it_decl it) in *.
    cbn [exp_ms]. fold g d.
    set (a := off + length (render_gap g)). set (e := a + length (render_decl d)).
    pose proof (decl_nonempty d Hd) as Hne.
    cbn [css_loop m_start m_end].
    assert (Nat.eqb a e = false) as -> by (apply Nat.eqb_neq; unfold e; lia). rewrite andb_false_r.
    set (rest := render_items items (render_tr tr)).
    assert (Hval : val = pre_text ++ render_gap g ++ (render_decl d ++ rest)).
    { unfold val, render_items, rest, render_item. cbn [map concat]. fold g d.
      unfold str in *. rewrite <- !app_assoc. reflexivity. }
    (* the gap before the declaration raises no error *)
    assert (Herr : (if off <? a
                    then match omatch_end rx_c07_css_sep val off a with
                         | Some split =>
                             if (0 <? off) && is_none (group g_c07_css_sep_semi split)
                             then add_error errors (off, CssMissingSemicolon) else errors
                         | None => add_error errors (off, CssBadContent)
                         end
                    else errors) = errors).
    { destruct (off <? a) eqn:El; [|reflexivity].
      rewrite Hval. unfold a, off. rewrite (sep_match pre_text _ g Hg).
      unfold group. cbn [m_caps]. destruct css_groups as (_ & _ & G). rewrite G.
      unfold gap_caps. destruct Hg0 as [H00|Hsemi].
      - fold off. rewrite H00. cbn [andb]. assert ((0 <? 0) = false) as -> by reflexivity. reflexivity.
      - unfold has_semi in Hsemi. destruct (snd g); [|discriminate].
        rewrite get_cap_hd. cbn [is_none]. rewrite andb_false_r. reflexivity. }
    rewrite Herr.
    (* the groups *)
    assert (Hval2 : val = (pre_text ++ render_gap g) ++ render_decl d ++ rest).
    { rewrite Hval. unfold str in *. rewrite <- !app_assoc. reflexivity. }
    assert (Ha : a = length (pre_text ++ render_gap g)) by (unfold a, off; rewrite app_length; reflexivity).
    destruct (decl_groups (pre_text ++ render_gap g) rest d Hd) as (Gp & Gu & Hpne).
    rewrite <- Hval2, <- Ha in Gp, Gu. fold e in Gp, Gu.
    rewrite Gp, Gu. destruct (d_prop d) as [|c p'] eqn:Ep; [contradiction|]. rewrite <- Ep.
    cbn [bind].
    (* the rest of the list *)
    assert (He : e = length ((pre_text ++ render_gap g) ++ render_decl d)).
    { unfold e, a, off. rewrite !app_length. lia. }
    assert (Hval3 : val = ((pre_text ++ render_gap g) ++ render_decl d) ++ render_items items (render_tr tr)).
    { rewrite Hval2. fold rest. unfold str in *. rewrite <- !app_assoc. reflexivity. }
    rewrite Hval3, He.
    rewrite (IH tr ((pre_text ++ render_gap g) ++ render_decl d) _ errors Hok Htr).
    + cbn [fold_items fold_left]. fold d. unfold step_map. rewrite Ep. reflexivity.
    + apply Hgrest. rewrite <- He. unfold e. lia.
    + intros _. rewrite <- He. unfold e. lia.
Qed.

(* ---- the theorem --------------------------------------------------------------------------------------- *)
(* the dict of a declaration list: refMap[prop] = unit, in order *)
Definition decl_map (ds : list decl) : cmap :=
  fold_left (fun m d => cset (d_prop d) (d_unit d) m) ds [].

(* every declaration but the first is preceded by a semicolon *)
Definition layout_ok (items : list item) : bool :=
  match items with
  | [] => false
  | _ :: rest => forallb (fun it => has_semi (it_gap it)) rest
  end.

Lemma semis_gaps : forall l off, forallb (fun it => has_semi (it_gap it)) l = true -> gaps_ok off l.
Proof.
  induction l as [|it l IH]; intros off H; cbn [gaps_ok]; [exact I|].
  cbn [forallb] in H. apply andb_true_iff in H. destruct H as [H1 H2].
  split; [right; exact H1 | intros off' _; apply IH; exact H2].
Qed.

Lemma fold_items_some : forall items m,
  fold_items items (Some m) = Some (fold_left (fun m d => cset (d_prop d) (d_unit d) m) (map it_decl items) m).
Proof.
  induction items as [|it items IH]; intros m; [reflexivity|].
  unfold fold_items in *. cbn [fold_left map]. unfold step_map at 2. apply IH.
Qed.

Lemma fold_items_none : forall items, items <> [] ->
  fold_items items None = Some (decl_map (map it_decl items)).
Proof.
  intros [|it items] H; [contradiction|]. unfold fold_items. cbn [fold_left]. unfold step_map at 2.
  fold (fold_items items (Some (cset (d_prop (it_decl it)) (d_unit (it_decl it)) []))).
  rewrite fold_items_some. reflexivity.
Qed.

Theorem css_parse : forall items tr,
  forallb item_ok items = true -> layout_ok items = true -> tr_ok tr = true ->
  parse_css_spec (render_items items (render_tr tr)) = Ok (Some (decl_map (map it_decl items)), None).
Proof.
  intros items tr Hok Hlay Htr. unfold parse_css_spec, finditer, rfinditer.
  set (val := render_items items (render_tr tr)).
  assert (Hz : st_at val 0 = mkst [] val 0 []) by reflexivity. rewrite Hz.
  assert (Hgc : forallb gapchar (render_tr tr) = true).
  { destruct tr as [[w w']|]; [|reflexivity]. apply gap_chars. exact Htr. }
  rewrite (finditer_items items (render_tr tr) (mkst [] val 0 []) (2 * length val + 2))
    by (first [reflexivity | exact Hok | exact Hgc | cbn [suf]; lia]).
  cbn [bind pos].
  assert (Hne : items <> []) by (destruct items; [discriminate | discriminate]).
  pose proof (loop_items items tr [] None None Hok Htr) as HL. cbn [length app] in HL.
  subst val. rewrite HL.
  - rewrite (fold_items_none items Hne). reflexivity.
  - destruct items as [|it rest]; [discriminate|]. cbn [gaps_ok]. split; [left; reflexivity|].
    intros off' _. apply semis_gaps. exact Hlay.
  - intros E. contradiction.
Qed.
